package c17drv

import (
	"context"
	"fmt"
	"io"
	"log/slog"
	"net"
	"runtime"
	"sync"
	"sync/atomic"
	"time"

	"github.com/bbockelm/cedar/client"
	"github.com/bbockelm/cedar/commands"
	"github.com/bbockelm/cedar/message"
	"github.com/bbockelm/cedar/security"
	"github.com/bbockelm/cedar/server"
	"github.com/bbockelm/cedar/stream"
)

func init() {
	// cedar logs every handshake through slog; keep the child's stderr for the harness
	slog.SetDefault(slog.New(slog.NewTextHandler(io.Discard, nil)))
}

// FuncFail is a functional (non race-detector) conformance difference.
type FuncFail struct {
	Kind   string `json:"kind"` // "handshake_error" | "not_encrypted" | "echo_mismatch" | "stream_order" | ...
	Detail string `json:"detail"`
}

// NetStats summarises a handshake / stream phase.
type NetStats struct {
	Handshakes int64      `json:"handshakes"`
	Resumed    int64      `json:"resumed"`
	Fresh      int64      `json:"fresh"`
	Messages   int64      `json:"messages"`
	Fails      []FuncFail `json:"fails"`
}

const (
	cmdEcho   = commands.DC_NOP
	duplexN   = 40
	duplexLen = 300
)

func serverConfig() *security.SecurityConfig {
	return &security.SecurityConfig{
		AuthMethods:    []security.AuthMethod{security.AuthNone},
		Authentication: security.SecurityOptional,
		CryptoMethods:  []security.CryptoMethod{security.CryptoAES},
		Encryption:     security.SecurityRequired,
		Integrity:      security.SecurityRequired,
		SessionCache:   security.NewSessionCache(),
	}
}

func payload(dir string, i int) string {
	b := make([]byte, duplexLen)
	for k := range b {
		b[k] = byte('a' + (i+k)%26)
	}
	return fmt.Sprintf("%s-%04d-%s", dir, i, b)
}

// startServer runs one real cedar server. Its handler reads one integer n: for
// n = 0 it echoes one string; for n > 0 it runs a full-duplex exchange of n
// messages each way with a writer goroutine sending while the handler reads
// (simultaneous send / receive on the server's stream as well).
func startServer(ctx context.Context, fails *failSink) (string, func(), error) {
	srv := server.New(serverConfig())
	// per-command policy hook that returns ONE shared policy object per command (what a
	// daemon with a policy table does): the server must not let connections write into it
	perCmd := map[int]*security.SecurityConfig{}
	for _, cmd := range []int{cmdEcho} {
		pol := serverConfig()
		pol.SessionCache = srv.SecurityConfig.SessionCache
		perCmd[cmd] = pol
	}
	srv.SecurityConfigForCommand = func(command int) *security.SecurityConfig { return perCmd[command] }
	srv.Handle(cmdEcho, func(hctx context.Context, c *server.Conn) error {
		in := message.NewMessageFromStream(c.Stream)
		n, err := in.GetInt(hctx)
		if err != nil {
			return err
		}
		if n == 0 {
			s, err := in.GetString(hctx)
			if err != nil {
				return err
			}
			out := message.NewMessageForStream(c.Stream)
			if err := out.PutString(hctx, s); err != nil {
				return err
			}
			return out.FinishMessage(hctx)
		}
		var wg sync.WaitGroup
		wg.Add(1)
		go func() { // server-side writer, concurrent with the reader below
			defer wg.Done()
			for i := 0; i < n; i++ {
				out := message.NewMessageForStream(c.Stream)
				if err := out.PutString(hctx, payload("s2c", i)); err != nil {
					return
				}
				if err := out.FinishMessage(hctx); err != nil {
					return
				}
			}
		}()
		for i := 0; i < n; i++ {
			s, err := message.NewMessageFromStream(c.Stream).GetString(hctx)
			if err != nil {
				wg.Wait()
				return err
			}
			if s != payload("c2s", i) {
				fails.add("stream_order", fmt.Sprintf("server received message %d out of order or corrupted", i))
			}
		}
		wg.Wait()
		return nil
	})
	ln, err := net.Listen("tcp", "127.0.0.1:0")
	if err != nil {
		return "", nil, err
	}
	sctx, cancel := context.WithCancel(ctx)
	go func() { _ = srv.Serve(sctx, ln) }()
	return ln.Addr().String(), func() { cancel(); _ = ln.Close() }, nil
}

// sidSet records the session ids the clients of one server process were told by
// FRESH handshakes: no two of them may be equal (SessionIdAlloc.tla, UniqueIds).
type sidSet struct {
	mu   sync.Mutex
	seen map[string]string
	n    int
}

func (s *sidSet) add(sid, who string, fails *failSink) {
	if sid == "" {
		return
	}
	s.mu.Lock()
	defer s.mu.Unlock()
	if s.seen == nil {
		s.seen = map[string]string{}
	}
	s.n++
	if other, dup := s.seen[sid]; dup {
		fails.add("duplicate_session_id", fmt.Sprintf("two fresh handshakes (%s and %s) were given the same session id", other, who))
		return
	}
	s.seen[sid] = who
}

type failSink struct {
	mu    sync.Mutex
	fails []FuncFail
}

func (f *failSink) add(kind, detail string) {
	f.mu.Lock()
	if len(f.fails) < 200 {
		f.fails = append(f.fails, FuncFail{kind, detail})
	}
	f.mu.Unlock()
}

// sharedClientConfig is the ONE configuration object all client goroutines use.
func sharedClientConfig(cache *security.SessionCache) *security.SecurityConfig {
	return &security.SecurityConfig{
		AuthMethods:    []security.AuthMethod{security.AuthNone},
		Authentication: security.SecurityOptional,
		CryptoMethods:  []security.CryptoMethod{security.CryptoAES},
		Encryption:     security.SecurityRequired,
		Integrity:      security.SecurityRequired,
		Command:        cmdEcho,
		PeerName:       "c17-server",
		SessionCache:   cache,
	}
}

// oneExchange connects with the shared configuration, checks the negotiated
// outcome and echoes one string.
// It returns the session id the client was told and whether the session was resumed
// (ok = the whole exchange succeeded).
func oneExchange(addr string, cfg *security.SecurityConfig, tag string, st *NetStats, fails *failSink) (sid string, resumed, ok bool) {
	ctx, cancel := context.WithTimeout(context.Background(), 20*time.Second)
	defer cancel()
	cl, err := client.ConnectAndAuthenticateWithConfig(ctx, &client.ClientConfig{Address: addr, Security: cfg})
	atomic.AddInt64(&st.Handshakes, 1)
	if err != nil {
		fails.add("handshake_error", err.Error())
		return "", false, false
	}
	defer func() { _ = cl.Close() }()
	neg := cl.GetSecurityNegotiation()
	if neg == nil || !neg.Encryption || !cl.GetStream().IsEncrypted() {
		fails.add("not_encrypted", "handshake succeeded without the required encryption")
		return "", false, false
	}
	if neg.SessionResumed {
		atomic.AddInt64(&st.Resumed, 1)
	} else {
		atomic.AddInt64(&st.Fresh, 1)
	}
	out := message.NewMessageForStream(cl.GetStream())
	if err := out.PutInt(ctx, 0); err != nil {
		fails.add("echo_error", err.Error())
		return "", false, false
	}
	if err := out.PutString(ctx, tag); err != nil {
		fails.add("echo_error", err.Error())
		return "", false, false
	}
	if err := out.FinishMessage(ctx); err != nil {
		fails.add("echo_error", err.Error())
		return "", false, false
	}
	got, err := message.NewMessageFromStream(cl.GetStream()).GetString(ctx)
	if err != nil {
		fails.add("echo_error", err.Error())
		return "", false, false
	}
	if got != tag {
		fails.add("echo_mismatch", fmt.Sprintf("sent %q got %q", tag, got))
	}
	atomic.AddInt64(&st.Messages, 1)
	return neg.SessionId, neg.SessionResumed, got == tag
}

// Handshakes: many clients sharing ONE SecurityConfig and ONE cache against one
// real server, fresh and resuming. sequential=true runs the same exchanges one
// after the other (the baseline: what each handshake does when left alone).
func Handshakes(seed int64, clients, iters int, sequential, yield bool, maintenance bool) NetStats {
	var st NetStats
	fails := &failSink{}
	addr, stop, err := startServer(context.Background(), fails)
	if err != nil {
		st.Fails = []FuncFail{{"driver", err.Error()}}
		return st
	}
	defer stop()
	cache := security.NewSessionCache()
	cfg := sharedClientConfig(cache)
	var wg sync.WaitGroup
	done := make(chan struct{})
	if maintenance {
		// the maintenance goroutine of a daemon: expiry sweep and debug dump on the shared cache
		wg.Add(1)
		go func() {
			defer wg.Done()
			for {
				select {
				case <-done:
					return
				default:
				}
				_ = cache.InvalidateExpired()
				_ = cache.DebugDump()
				_ = cache.Size()
				time.Sleep(200 * time.Microsecond)
			}
		}()
	}
	var cw sync.WaitGroup
	sids := &sidSet{}
	for c := 0; c < clients; c++ {
		run := func(c int) {
			defer cw.Done()
			for i := 0; i < iters; i++ {
				if i == iters/2 && c%4 == 0 {
					// drop the shared session: the next handshakes are fresh again
					cache.Clear()
				}
				who := fmt.Sprintf("cli-%d-%d-%d", seed, c, i)
				if sid, resumed, ok := oneExchange(addr, cfg, who, &st, fails); ok && !resumed {
					sids.add(sid, who, fails)
				}
				if yield {
					runtime.Gosched()
				}
			}
		}
		cw.Add(1)
		if sequential {
			run(c)
		} else {
			go run(c)
		}
	}
	cw.Wait()
	close(done)
	wg.Wait()
	st.Fails = fails.fails
	return st
}

// Duplex: on established (handshaken, encrypted) streams one goroutine writes
// while another reads, on both ends.
func Duplex(seed int64, conns int, yield bool) NetStats {
	var st NetStats
	fails := &failSink{}
	addr, stop, err := startServer(context.Background(), fails)
	if err != nil {
		st.Fails = []FuncFail{{"driver", err.Error()}}
		return st
	}
	defer stop()
	var cw sync.WaitGroup
	for c := 0; c < conns; c++ {
		cw.Add(1)
		go func(c int) {
			defer cw.Done()
			ctx, cancel := context.WithTimeout(context.Background(), 30*time.Second)
			defer cancel()
			// per-connection configuration and cache: this phase is about the stream only
			cfg := sharedClientConfig(security.NewSessionCache())
			cl, err := client.ConnectAndAuthenticateWithConfig(ctx, &client.ClientConfig{Address: addr, Security: cfg})
			atomic.AddInt64(&st.Handshakes, 1)
			if err != nil {
				fails.add("handshake_error", err.Error())
				return
			}
			defer func() { _ = cl.Close() }()
			s := cl.GetStream()
			if !s.IsEncrypted() {
				fails.add("not_encrypted", "stream not encrypted after the handshake")
				return
			}
			out := message.NewMessageForStream(s)
			if err := out.PutInt(ctx, duplexN); err != nil {
				fails.add("stream_error", err.Error())
				return
			}
			if err := out.FinishMessage(ctx); err != nil {
				fails.add("stream_error", err.Error())
				return
			}
			var wg sync.WaitGroup
			wg.Add(2)
			go func() { // writer
				defer wg.Done()
				for i := 0; i < duplexN; i++ {
					m := message.NewMessageForStream(s)
					if err := m.PutString(ctx, payload("c2s", i)); err != nil {
						fails.add("stream_error", "send: "+err.Error())
						return
					}
					if err := m.FinishMessage(ctx); err != nil {
						fails.add("stream_error", "send: "+err.Error())
						return
					}
					if yield && i%3 == 0 {
						runtime.Gosched()
					}
				}
			}()
			go func() { // reader
				defer wg.Done()
				for i := 0; i < duplexN; i++ {
					got, err := message.NewMessageFromStream(s).GetString(ctx)
					if err != nil {
						fails.add("stream_error", "receive: "+err.Error())
						return
					}
					if got != payload("s2c", i) {
						fails.add("stream_order", fmt.Sprintf("client received message %d out of order or corrupted", i))
						return
					}
					atomic.AddInt64(&st.Messages, 1)
				}
			}()
			wg.Wait()
		}(c)
	}
	cw.Wait()
	st.Fails = fails.fails
	return st
}

// Managers: many overlapping handshakes through ONE shared security.SecurityManager
// on the server side (sm.ServerHandshake on every accepted connection) and ONE
// on the client side (sm.ClientHandshake), followed by an echo on the negotiated
// channel. sequential=true runs the same exchanges one at a time (baseline).
func Managers(seed int64, clients, iters int, sequential, yield bool) NetStats {
	var st NetStats
	fails := &failSink{}
	ln, err := net.Listen("tcp", "127.0.0.1:0")
	if err != nil {
		st.Fails = []FuncFail{{"driver", err.Error()}}
		return st
	}
	defer func() { _ = ln.Close() }()
	smServer, smClient := security.NewSecurityManager(), security.NewSecurityManager()
	// both managers file their sessions in the process-wide cache (the default
	// configuration names no other): one entry per session id. Every successful
	// handshake minted its own id, so afterwards the cache must hold at least as
	// many entries as handshakes succeeded (NoForeignReplace).
	security.GetSessionCache().Clear()
	defer security.GetSessionCache().Clear()
	var encrypted int64
	go func() {
		for {
			conn, err := ln.Accept()
			if err != nil {
				return
			}
			go func() {
				defer func() { _ = conn.Close() }()
				ctx, cancel := context.WithTimeout(context.Background(), 20*time.Second)
				defer cancel()
				s := stream.NewStream(conn)
				if err := smServer.ServerHandshake(ctx, s); err != nil {
					return // the client side records the failure
				}
				got, err := message.NewMessageFromStream(s).GetString(ctx)
				if err != nil {
					return
				}
				out := message.NewMessageForStream(s)
				if err := out.PutString(ctx, got); err != nil {
					return
				}
				_ = out.FinishMessage(ctx)
			}()
		}
	}()
	addr := ln.Addr().String()
	one := func(tag string) {
		ctx, cancel := context.WithTimeout(context.Background(), 20*time.Second)
		defer cancel()
		conn, err := net.DialTimeout("tcp", addr, 10*time.Second)
		atomic.AddInt64(&st.Handshakes, 1)
		if err != nil {
			fails.add("handshake_error", "dial: "+err.Error())
			return
		}
		defer func() { _ = conn.Close() }()
		s := stream.NewStream(conn)
		if err := smClient.ClientHandshake(ctx, s); err != nil {
			fails.add("handshake_error", err.Error())
			return
		}
		atomic.AddInt64(&st.Fresh, 1)
		if s.IsEncrypted() {
			atomic.AddInt64(&encrypted, 1)
		}
		out := message.NewMessageForStream(s)
		if err := out.PutString(ctx, tag); err != nil {
			fails.add("echo_error", err.Error())
			return
		}
		if err := out.FinishMessage(ctx); err != nil {
			fails.add("echo_error", err.Error())
			return
		}
		got, err := message.NewMessageFromStream(s).GetString(ctx)
		if err != nil {
			fails.add("echo_error", err.Error())
			return
		}
		if got != tag {
			fails.add("echo_mismatch", fmt.Sprintf("sent %q got %q", tag, got))
			return
		}
		atomic.AddInt64(&st.Messages, 1)
	}
	var cw sync.WaitGroup
	for c := 0; c < clients; c++ {
		run := func(c int) {
			defer cw.Done()
			for i := 0; i < iters; i++ {
				one(fmt.Sprintf("mgr-%d-%d-%d", seed, c, i))
				if yield {
					runtime.Gosched()
				}
			}
		}
		cw.Add(1)
		if sequential {
			run(c)
		} else {
			go run(c)
		}
	}
	cw.Wait()
	if got, want := security.GetSessionCache().Size(), int(atomic.LoadInt64(&st.Fresh)); got < want {
		fails.add("session_replaced", fmt.Sprintf("%d handshakes succeeded but the shared cache holds %d sessions: %d were replaced by another handshake's", want, got, want-got))
	}
	st.Resumed = atomic.LoadInt64(&encrypted) // for this phase: handshakes that ended on an encrypted stream
	st.Fails = fails.fails
	return st
}

// FreshHandshakes: many concurrent FRESH handshakes for one command (every
// connection has its own client configuration and an empty cache, so none
// resumes) against the server whose per-command policy hook returns one shared
// object; each is followed by an encrypted echo.
func FreshHandshakes(seed int64, clients, iters int, yield bool) NetStats {
	var st NetStats
	fails := &failSink{}
	addr, stop, err := startServer(context.Background(), fails)
	if err != nil {
		st.Fails = []FuncFail{{"driver", err.Error()}}
		return st
	}
	defer stop()
	var cw sync.WaitGroup
	sids := &sidSet{}
	type owned struct {
		cfg *security.SecurityConfig
		sid string
		who string
	}
	sessions := make([][]owned, clients)
	for c := 0; c < clients; c++ {
		cw.Add(1)
		go func(c int) {
			defer cw.Done()
			for i := 0; i < iters; i++ {
				cfg := sharedClientConfig(security.NewSessionCache())
				cfg.PeerName = ""
				who := fmt.Sprintf("fresh-%d-%d-%d", seed, c, i)
				sid, resumed, ok := oneExchange(addr, cfg, who, &st, fails)
				if ok && !resumed {
					sids.add(sid, who, fails)
					sessions[c] = append(sessions[c], owned{cfg, sid, who})
				}
				if yield {
					runtime.Gosched()
				}
			}
		}(c)
	}
	cw.Wait()
	// after the storm EVERY client resumes ITS OWN session: the server must find that
	// handshake's key and identity under the id it handed out (ResumesOwnSession)
	for c := 0; c < clients; c++ {
		cw.Add(1)
		go func(c int) {
			defer cw.Done()
			for _, o := range sessions[c] {
				sid, resumed, ok := oneExchange(addr, o.cfg, o.who+"-again", &st, fails)
				if ok && (!resumed || sid != o.sid) {
					fails.add("own_session_not_resumed", fmt.Sprintf("%s: session %s established during the storm could not be resumed afterwards (resumed=%v, now %s)", o.who, o.sid, resumed, sid))
				}
			}
		}(c)
	}
	cw.Wait()
	st.Fails = fails.fails
	return st
}
