//go:build race

package c17drv

// RaceEnabled reports whether the binary was built with the race detector.
const RaceEnabled = true
