package c17drv

import (
	"encoding/json"
	"fmt"
	"os"
	"runtime"
	"time"
)

// ChildEnv names the environment variable that turns the verif binary into a
// C17 stress child: its value is the path of a Job file.
const ChildEnv = "CEDARVERIF_C17_CHILD"

// Job describes what one child process runs.
type Job struct {
	Phases   []string `json:"phases"` // "alloc" "pairs" "stress" "hist" "gated" "handshake" "handshake_seq" "fresh" "manager" "manager_seq" "duplex" "ccb"
	Seed     int64    `json:"seed"`
	Procs    int      `json:"procs"`
	Yield    bool     `json:"yield"`
	Pairs    []Pair   `json:"pairs"`
	PairMs   int      `json:"pair_ms"`
	StressMs int      `json:"stress_ms"`
	StressG  int      `json:"stress_g"`
	Episodes int      `json:"episodes"`
	Clients  int      `json:"clients"`
	Iters    int      `json:"iters"`
	Conns    int      `json:"conns"`
	AllocG   int      `json:"alloc_g"` // "alloc": goroutines
	AllocN   int      `json:"alloc_n"` // ... GetNextSessionCounter calls per goroutine
	AllocM   int      `json:"alloc_m"` // ... minted+stored sessions per goroutine
	Out      string   `json:"out"`
}

// ChildResult is what the child writes to Job.Out.
type ChildResult struct {
	RaceEnabled bool                `json:"race_enabled"`
	Procs       int                 `json:"procs"`
	CacheOps    int64               `json:"cache_ops"`
	PairOps     map[string]int64    `json:"pair_ops"`
	Episodes    []Episode           `json:"episodes"`
	Net         map[string]NetStats `json:"net"`
	WallMs      int64               `json:"wall_ms"`
	Alloc       []AllocStats        `json:"alloc"`
	GatedRuns   int                 `json:"gated_runs"`   // gated schedules run
	GatedHeld   int                 `json:"gated_held"`   // ... in which operation A reached the expiry-check gate
	GatedInside int                 `json:"gated_inside"` // ... in which operation B returned while A was held there
}

// ChildMain runs the job named by the environment and exits.
func ChildMain(jobPath string) {
	b, err := os.ReadFile(jobPath)
	if err != nil {
		fmt.Fprintln(os.Stderr, "c17 child:", err)
		os.Exit(3)
	}
	var job Job
	if err := json.Unmarshal(b, &job); err != nil {
		fmt.Fprintln(os.Stderr, "c17 child:", err)
		os.Exit(3)
	}
	if job.Procs > 0 {
		runtime.GOMAXPROCS(job.Procs)
	}
	t0 := time.Now()
	res := ChildResult{RaceEnabled: RaceEnabled, Procs: runtime.GOMAXPROCS(0), PairOps: map[string]int64{}, Net: map[string]NetStats{}}
	for _, ph := range job.Phases {
		switch ph {
		case "pairs":
			for i, p := range job.Pairs {
				n := HammerPair(p, job.Seed+int64(i), time.Duration(job.PairMs)*time.Millisecond, job.Yield)
				res.PairOps[p.A+"|"+p.B] += n
				res.CacheOps += n
			}
		case "alloc":
			res.Alloc = append(res.Alloc, AllocHammer(job.AllocG, job.AllocN, job.AllocM))
		case "stress":
			res.CacheOps += Stress(job.Seed, job.StressG, time.Duration(job.StressMs)*time.Millisecond, job.Yield)
		case "hist":
			for e := 0; e < job.Episodes; e++ {
				ng := 2 + e%3 // 2..4 goroutines
				perG := 24 / ng
				var focus *Pair
				if e%2 == 1 && len(job.Pairs) > 0 {
					focus = &job.Pairs[(e/2)%len(job.Pairs)]
				}
				res.Episodes = append(res.Episodes, RecordEpisode(job.Seed*100003+int64(e), ng, perG, job.Yield || e%4 == 0, focus))
			}
		case "gated":
			wait := time.Duration(job.PairMs) * time.Millisecond
			for i, sc := range GatedScenarios(job.Pairs) {
				ep, held, inside := RecordGated(job.Seed*100019+int64(i), sc, wait)
				res.Episodes = append(res.Episodes, ep)
				res.GatedRuns++
				if held {
					res.GatedHeld++
				}
				if inside {
					res.GatedInside++
				}
			}
		case "handshake":
			res.Net[ph] = Handshakes(job.Seed, job.Clients, job.Iters, false, job.Yield, true)
		case "handshake_seq":
			res.Net[ph] = Handshakes(job.Seed, 2, 3, true, false, false)
		case "ccb":
			res.Net[ph] = CCBListener(job.Seed, job.Yield)
		case "fresh":
			res.Net[ph] = FreshHandshakes(job.Seed, job.Clients, job.Iters, job.Yield)
		case "manager_seq":
			res.Net[ph] = Managers(job.Seed, 2, 3, true, false)
		case "manager":
			res.Net[ph] = Managers(job.Seed, job.Clients, job.Iters, false, job.Yield)
		case "duplex":
			res.Net[ph] = Duplex(job.Seed, job.Conns, job.Yield)
		}
	}
	res.WallMs = time.Since(t0).Milliseconds()
	out, _ := json.Marshal(res)
	if err := os.WriteFile(job.Out, out, 0o644); err != nil {
		fmt.Fprintln(os.Stderr, "c17 child:", err)
		os.Exit(3)
	}
	os.Exit(0)
}
