// Package c17drv holds the drivers of property C17 (shared state is safe under
// concurrency). They run inside a CHILD process of the verif binary (built with
// -race) so that the race detector's log can be attributed; the parent
// (internal/props/c17) runs TLC, starts the children, parses the race logs and
// validates the recorded call/return histories against the sequential cache
// specification.
package c17drv

import (
	"fmt"
	"math/rand"
	"runtime"
	"strconv"
	"strings"
	"sync"
	"sync/atomic"
	"time"

	"github.com/bbockelm/cedar/security"
)

// Obj identifies an entry object: [id, serial]. It is the <<id, version>> object
// of SessionCacheSeq.tla; NoObj is <<"none", 0>>.
type Obj [2]any

var NoObj = Obj{"none", 0}

// Event is one call or return event of a recorded history.
type Event struct {
	K     string   `json:"k"`  // "c" call | "r" return
	G     int      `json:"g"`  // goroutine 1..ng
	Op    string   `json:"op"` // operation (both on call and return)
	ID    string   `json:"id"`
	O     Obj      `json:"o"`
	E     string   `json:"e"`   // expiry class of a stored entry
	Res   any      `json:"res"` // result (return events)
	Dmp   [][]any  `json:"dmp"` // DebugDump result: [id, [id,serial], class] per entry
	Dc    []string `json:"dc"`  // DebugDump result: ids whose command key is listed
	stamp int64
}

// Episode is one concurrent history over a fresh cache.
type Episode struct {
	Ng   int      `json:"ng"`
	Ids  []string `json:"ids"`
	Objs []Obj    `json:"objs"`
	Ev   []Event  `json:"ev"`
	Seed int64    `json:"seed"`
}

const lease = time.Hour

func expiryOf(class string) time.Time {
	switch class {
	case "dead":
		return time.Now().Add(-time.Hour)
	case "never":
		return time.Time{}
	}
	return time.Now().Add(time.Hour)
}

func addrKey(id string) string { return "addr-" + id }

func newEntry(id string, serial int, class string) *security.SessionEntry {
	return security.NewSessionEntry(id, "o"+strconv.Itoa(serial), nil, nil, expiryOf(class), lease, "")
}

func objOf(e *security.SessionEntry) Obj {
	if e == nil {
		return NoObj
	}
	n, _ := strconv.Atoi(strings.TrimPrefix(e.Addr(), "o"))
	return Obj{e.ID(), n}
}

// OpNames are the operation names shared with SessionCacheLocks.tla.
var OpNames = []string{"Store", "Lookup", "LookupNE", "LookupCmd", "MapCmd", "Invalidate", "Sweep", "Dump", "Size", "Clear", "Renew", "IsExpired"}

// cacheWorld is the shared cache under test.
type cacheWorld struct {
	c   *security.SessionCache
	ids []string
	// serial numbers of recorded episodes (atomic; the race-hunting drivers use
	// per-goroutine ranges instead so that the harness adds no synchronisation)
	serial int64
	// gated episodes choose the expiry class of the next recorded Store themselves
	forceClass string
}

func newWorld(ids []string) *cacheWorld {
	return &cacheWorld{c: security.NewSessionCache(), ids: ids}
}

// actor is one driving goroutine: its random source and the entry pointers it
// kept from earlier stores / lookups (goroutine-local: no harness lock, no
// atomic - nothing that would order the cache accesses of two goroutines and
// hide a race from the detector).
type actor struct {
	w      *cacheWorld
	r      *rand.Rand
	held   []*security.SessionEntry
	serial int
}

func newActor(w *cacheWorld, seed int64, g int) *actor {
	return &actor{w: w, r: rand.New(rand.NewSource(seed*131 + int64(g))), serial: (g + 1) * 10000000}
}

func (a *actor) keep(e *security.SessionEntry) {
	if e == nil {
		return
	}
	if len(a.held) < 16 {
		a.held = append(a.held, e)
	} else {
		a.held[a.r.Intn(16)] = e
	}
}

func (a *actor) pick() *security.SessionEntry {
	if len(a.held) == 0 {
		return nil
	}
	return a.held[a.r.Intn(len(a.held))]
}

// do performs one operation on the real cache without recording it (race hunting).
func (a *actor) do(op string) {
	w, r := a.w, a.r
	id := w.ids[r.Intn(len(w.ids))]
	switch op {
	case "Store":
		cl := "live"
		if r.Intn(3) == 0 {
			cl = "dead"
		}
		a.serial++
		e := newEntry(id, a.serial, cl)
		w.c.Store(e)
		a.keep(e)
	case "Lookup":
		if e, ok := w.c.Lookup(id); ok {
			a.keep(e)
		}
	case "LookupNE":
		if e, ok := w.c.LookupNonExpired(id); ok {
			a.keep(e)
		}
	case "LookupCmd":
		if e, ok := w.c.LookupByCommand("", addrKey(id), "7"); ok {
			a.keep(e)
		}
	case "MapCmd":
		w.c.MapCommand("", addrKey(id), "7", id)
	case "Invalidate":
		w.c.Invalidate(id)
	case "Sweep":
		w.c.InvalidateExpired()
	case "Dump":
		_ = w.c.DebugDump()
	case "Size":
		_ = w.c.Size()
	case "Clear":
		w.c.Clear()
	case "Renew":
		// the way the handshake uses it: look the entry up, renew what was found
		if e, ok := w.c.Lookup(id); ok && r.Intn(2) == 0 {
			e.RenewLease()
		} else if e := a.pick(); e != nil {
			e.RenewLease()
		}
	case "IsExpired":
		if e := a.pick(); e != nil {
			_ = e.IsExpired()
			_ = e.Expiration()
		}
	case "Snapshot":
		for _, e := range w.c.Snapshot() {
			_ = e.IsExpired()
		}
	case "PeerVersion":
		if e := a.pick(); e != nil {
			if r.Intn(2) == 0 {
				e.SetLastPeerVersion("v")
				e.SetInherited(false)
			} else {
				_ = e.LastPeerVersion()
				_ = e.IsInherited()
			}
		}
	}
}

// Pair is a pair of operations whose critical sections touch a common field,
// one of them writing (generated by TLC from SessionCacheLocks.tla).
type Pair struct {
	A     string `json:"a"`
	B     string `json:"b"`
	Field string `json:"field"`
}

// HammerPair runs op A on two goroutines against op B on two others for d.
func HammerPair(p Pair, seed int64, d time.Duration, yield bool) int64 {
	w := newWorld([]string{"i1", "i2"})
	a0 := newActor(w, seed, 99)
	for i := 0; i < 4; i++ {
		a0.do("Store")
		a0.do("MapCmd")
	}
	var ops int64
	var wg sync.WaitGroup
	stop := time.Now().Add(d)
	for g := 0; g < 4; g++ {
		op := p.A
		if g%2 == 1 {
			op = p.B
		}
		wg.Add(1)
		go func(g int, op string) {
			defer wg.Done()
			a := newActor(w, seed, g)
			r := a.r
			n := 0
			for time.Now().Before(stop) {
				for k := 0; k < 32; k++ {
					a.do(op)
					n++
					if n%24 == 0 { // keep the cache populated with live and expired entries
						a.do("Store")
						a.do("MapCmd")
					}
					if yield && r.Intn(4) == 0 {
						runtime.Gosched()
					}
				}
			}
			atomic.AddInt64(&ops, int64(n))
		}(g, op)
	}
	wg.Wait()
	return ops
}

// Stress runs a seeded random mix of all operations on overlapping keys.
func Stress(seed int64, goroutines int, d time.Duration, yield bool) int64 {
	w := newWorld([]string{"i1", "i2", "i3"})
	mix := []string{"Store", "Store", "Lookup", "Lookup", "LookupNE", "LookupCmd", "MapCmd", "Invalidate",
		"Sweep", "Sweep", "Dump", "Dump", "Size", "Renew", "Renew", "Renew", "IsExpired", "Snapshot", "PeerVersion", "Clear"}
	var ops int64
	var wg sync.WaitGroup
	stop := time.Now().Add(d)
	for g := 0; g < goroutines; g++ {
		wg.Add(1)
		go func(g int) {
			defer wg.Done()
			a := newActor(w, seed*7+3, g)
			r := a.r
			n := 0
			for time.Now().Before(stop) {
				for k := 0; k < 32; k++ {
					op := mix[r.Intn(len(mix))]
					if op == "Clear" && r.Intn(8) != 0 {
						op = "Store"
					}
					a.do(op)
					n++
					if yield && r.Intn(3) == 0 {
						runtime.Gosched()
					}
				}
			}
			atomic.AddInt64(&ops, int64(n))
		}(g)
	}
	wg.Wait()
	return ops
}

// ---------------------------------------------------------------------------
// recorded histories

type recorder struct {
	clock int64
	per   [][]Event
}

func (h *recorder) call(g int, ev Event) {
	ev.K, ev.G = "c", g
	ev.stamp = atomic.AddInt64(&h.clock, 1)
	h.per[g-1] = append(h.per[g-1], ev)
}

func (h *recorder) ret(g int, ev Event) {
	ev.K, ev.G = "r", g
	ev.stamp = atomic.AddInt64(&h.clock, 1)
	h.per[g-1] = append(h.per[g-1], ev)
}

func blank(op, id string) Event {
	return Event{Op: op, ID: id, O: NoObj, E: "", Res: "-", Dmp: [][]any{}, Dc: []string{}}
}

// parseDump turns DebugDump's text into the per-entry observations.
func parseDump(s string) (entries [][]any, cmds []string) {
	now := time.Now()
	sec := ""
	for _, line := range strings.Split(s, "\n") {
		switch {
		case line == "sessions:":
			sec = "s"
		case line == "command_map:":
			sec = "c"
		case strings.HasPrefix(line, "- ") && sec == "s":
			var id, addr, exp string
			for _, f := range strings.Fields(line[2:]) {
				switch {
				case strings.HasPrefix(f, "id="):
					id = f[3:]
				case strings.HasPrefix(f, "addr="):
					addr = f[5:]
				case strings.HasPrefix(f, "exp="):
					exp = f[4:]
				}
			}
			n, _ := strconv.Atoi(strings.TrimPrefix(addr, "o"))
			class := "live"
			if exp != "never" {
				if t, err := time.Parse(time.RFC3339Nano, exp); err != nil {
					class = "unparsable:" + exp
				} else if !t.After(now) {
					class = "dead"
				}
			}
			entries = append(entries, []any{id, Obj{id, n}, class})
		case strings.HasPrefix(line, "- ") && sec == "c":
			// "- {addr-<id>,<7>} -> <id>"
			if i := strings.LastIndex(line, " -> "); i > 0 {
				cmds = append(cmds, line[i+4:])
			}
		}
	}
	return
}

// one recorded operation by goroutine g
func (w *cacheWorld) recorded(h *recorder, g int, op string, r *rand.Rand, known *[]*security.SessionEntry, objs *[]Obj, omu *sync.Mutex) {
	id := w.ids[r.Intn(len(w.ids))]
	remember := func(e *security.SessionEntry) {
		if e != nil {
			*known = append(*known, e)
		}
	}
	switch op {
	case "Store":
		cl := []string{"live", "live", "dead", "never"}[r.Intn(4)]
		if w.forceClass != "" {
			cl = w.forceClass
		}
		e := newEntry(id, int(atomic.AddInt64(&w.serial, 1)), cl)
		o := objOf(e)
		omu.Lock()
		*objs = append(*objs, o)
		omu.Unlock()
		ev := blank(op, id)
		ev.O = o
		ev.E = cl
		if cl == "never" {
			ev.E = "live"
		}
		h.call(g, ev)
		w.c.Store(e)
		ev.Res = "ok"
		h.ret(g, ev)
		remember(e)
	case "Lookup", "LookupNE", "LookupCmd":
		ev := blank(op, id)
		h.call(g, ev)
		var e *security.SessionEntry
		var ok bool
		switch op {
		case "Lookup":
			e, ok = w.c.Lookup(id)
		case "LookupNE":
			e, ok = w.c.LookupNonExpired(id)
		default:
			e, ok = w.c.LookupByCommand("", addrKey(id), "7")
		}
		if !ok {
			e = nil
		}
		ev.Res = objOf(e)
		h.ret(g, ev)
		remember(e)
	case "MapCmd":
		ev := blank(op, id)
		h.call(g, ev)
		w.c.MapCommand("", addrKey(id), "7", id)
		ev.Res = "ok"
		h.ret(g, ev)
	case "Invalidate":
		ev := blank(op, id)
		h.call(g, ev)
		ev.Res = fmt.Sprint(w.c.Invalidate(id))
		h.ret(g, ev)
	case "Sweep":
		ev := blank(op, "")
		h.call(g, ev)
		ev.Res = strconv.Itoa(w.c.InvalidateExpired())
		h.ret(g, ev)
	case "Size":
		ev := blank(op, "")
		h.call(g, ev)
		ev.Res = strconv.Itoa(w.c.Size())
		h.ret(g, ev)
	case "Clear":
		ev := blank(op, "")
		h.call(g, ev)
		w.c.Clear()
		ev.Res = "ok"
		h.ret(g, ev)
	case "Dump":
		ev := blank(op, "")
		h.call(g, ev)
		ev.Dmp, ev.Dc = parseDump(w.c.DebugDump())
		if ev.Dmp == nil {
			ev.Dmp = [][]any{}
		}
		if ev.Dc == nil {
			ev.Dc = []string{}
		}
		ev.Res = "dump"
		h.ret(g, ev)
	case "Renew", "IsExpired":
		if len(*known) == 0 {
			w.recorded(h, g, "Lookup", r, known, objs, omu)
			return
		}
		e := (*known)[r.Intn(len(*known))]
		ev := blank(op, e.ID())
		ev.O = objOf(e)
		h.call(g, ev)
		if op == "Renew" {
			e.RenewLease()
			ev.Res = "ok"
		} else {
			ev.Res = fmt.Sprint(e.IsExpired())
		}
		h.ret(g, ev)
	}
}

// RecordEpisode runs ng goroutines with perG operations each on a fresh cache,
// then the quiescent post-condition reads, and returns the history. With a
// focus pair, odd goroutines mostly run focus.A and even ones focus.B (the
// conflicting operations of the lock model), otherwise a random mix.
func RecordEpisode(seed int64, ng, perG int, yield bool, focus *Pair) Episode {
	ids := []string{"a", "b"}
	w := newWorld(ids)
	h := &recorder{per: make([][]Event, ng)}
	var objs []Obj
	var omu sync.Mutex
	mix := []string{"Store", "Store", "Store", "Lookup", "Lookup", "LookupNE", "LookupCmd", "LookupCmd", "MapCmd", "MapCmd",
		"Invalidate", "Invalidate", "Sweep", "Sweep", "Dump", "Size", "Renew", "Renew", "IsExpired", "Clear"}
	var wg sync.WaitGroup
	var ready int32
	for g := 1; g <= ng; g++ {
		wg.Add(1)
		go func(g int) {
			defer wg.Done()
			r := rand.New(rand.NewSource(seed*7919 + int64(g)))
			var known []*security.SessionEntry
			// barrier: all goroutines start within about a microsecond of each other
			atomic.AddInt32(&ready, 1)
			for atomic.LoadInt32(&ready) < int32(ng) {
				runtime.Gosched() // yield-spin: never monopolise a P (GOMAXPROCS may be < ng, the machine may be loaded)
			}
			for k := 0; k < perG; k++ {
				op := mix[r.Intn(len(mix))]
				if focus != nil && r.Intn(10) < 7 {
					op = focus.A
					if g%2 == 0 {
						op = focus.B
					}
				}
				if op == "Clear" && focus == nil && r.Intn(4) != 0 {
					op = "Store"
				}
				w.recorded(h, g, op, r, &known, &objs, &omu)
				if yield && r.Intn(4) == 0 {
					runtime.Gosched()
				}
			}
		}(g)
	}
	wg.Wait()
	// quiescence: every lookup path for every id, the size and a dump
	r := rand.New(rand.NewSource(seed))
	var known []*security.SessionEntry
	for _, id := range ids {
		w.ids = []string{id}
		for _, op := range []string{"Lookup", "LookupCmd", "LookupNE"} {
			w.recorded(h, 1, op, r, &known, &objs, &omu)
		}
	}
	w.ids = ids
	w.recorded(h, 1, "Dump", r, &known, &objs, &omu)
	w.recorded(h, 1, "Size", r, &known, &objs, &omu)

	// merge by stamp
	var all []Event
	for _, p := range h.per {
		all = append(all, p...)
	}
	sortEvents(all)
	return Episode{Ng: ng, Ids: ids, Objs: append([]Obj{}, objs...), Ev: all, Seed: seed}
}

func sortEvents(ev []Event) {
	// insertion sort is fine for <= ~80 events
	for i := 1; i < len(ev); i++ {
		for j := i; j > 0 && ev[j-1].stamp > ev[j].stamp; j-- {
			ev[j-1], ev[j] = ev[j], ev[j-1]
		}
	}
}
