package c17drv

import (
	"context"
	"fmt"
	"net"
	"sync"
	"sync/atomic"
	"time"

	"github.com/bbockelm/cedar/ccb"
	"github.com/bbockelm/cedar/message"
	"github.com/bbockelm/cedar/security"
	"github.com/bbockelm/cedar/stream"
)

// CCBListener: a REAL ccb.Listener registers with a scripted broker over an
// encrypted session; the broker forwards many CCB_REQUESTs (each answered by a
// reverse connection and a result ad written by its own goroutine) while the
// listener's heartbeat goroutine writes ALIVE ads on the same broker stream.
// ccb.NewListener enforces a minimum heartbeat interval of 30 s, so one run
// lasts a little longer than that: requests are forwarded at a low rate all
// the time and densely around the tick. Post-condition: the broker can open
// every frame of the registration channel, every request gets its result, and
// at least one heartbeat arrived.
//
// NetStats: Handshakes = requests forwarded, Messages = results received,
// Resumed = heartbeats received.
func CCBListener(seed int64, yield bool) NetStats {
	var st NetStats
	fails := &failSink{}
	const hb = 30 * time.Second // the minimum ccb.NewListener accepts

	secCfg := func() *security.SecurityConfig {
		return &security.SecurityConfig{
			AuthMethods:    []security.AuthMethod{security.AuthNone},
			Authentication: security.SecurityOptional,
			CryptoMethods:  []security.CryptoMethod{security.CryptoAES},
			Encryption:     security.SecurityRequired,
			Integrity:      security.SecurityRequired,
			SessionCache:   security.NewSessionCache(),
		}
	}

	// where the listener reverse-connects to: reads the hello of each connection
	rev, err := net.Listen("tcp", "127.0.0.1:0")
	if err != nil {
		st.Fails = []FuncFail{{"driver", err.Error()}}
		return st
	}
	defer func() { _ = rev.Close() }()
	var hellos int64
	go func() {
		for {
			c, err := rev.Accept()
			if err != nil {
				return
			}
			go func() {
				defer func() { _ = c.Close() }()
				ctx, cancel := context.WithTimeout(context.Background(), 10*time.Second)
				defer cancel()
				msg := message.NewMessageFromStream(stream.NewStream(c))
				cmd, err := msg.GetInt(ctx)
				if err != nil {
					return
				}
				if _, err := ccb.ReadReverseConnectAd(ctx, msg, cmd); err == nil {
					atomic.AddInt64(&hellos, 1)
				}
			}()
		}
	}()

	brokerLn, err := net.Listen("tcp", "127.0.0.1:0")
	if err != nil {
		st.Fails = []FuncFail{{"driver", err.Error()}}
		return st
	}
	defer func() { _ = brokerLn.Close() }()

	ctx, cancel := context.WithCancel(context.Background())
	defer cancel()

	var (
		mu       sync.Mutex
		results  = map[string]bool{}
		sent     = map[string]bool{}
		finished int32
	)
	registered := make(chan *stream.Stream, 1)
	go func() { // the scripted broker: one registration connection
		conn, err := brokerLn.Accept()
		if err != nil {
			return
		}
		s := stream.NewStream(conn)
		hctx, hcancel := context.WithTimeout(ctx, 20*time.Second)
		defer hcancel()
		neg, err := security.NewAuthenticator(secCfg(), s).ServerHandshake(hctx)
		if err != nil {
			fails.add("driver", "broker handshake: "+err.Error())
			close(registered)
			return
		}
		if neg == nil || !neg.Encryption || !s.IsEncrypted() {
			fails.add("driver", "registration channel is not encrypted")
			close(registered)
			return
		}
		if _, err := ccb.ReadControlAd(hctx, s); err != nil {
			fails.add("driver", "broker: reading CCB_REGISTER: "+err.Error())
			close(registered)
			return
		}
		reply := ccb.NewAd(map[string]any{ccb.AttrCommand: ccb.CommandRegister, ccb.AttrCCBID: "1", ccb.AttrClaimID: "c17-cookie"})
		if err := ccb.WriteControlAd(hctx, s, reply); err != nil {
			fails.add("driver", "broker: writing the registration reply: "+err.Error())
			close(registered)
			return
		}
		registered <- s
		// reader: heartbeats and results, for as long as the run lasts
		for {
			ad, err := ccb.ReadControlAd(ctx, s)
			if err != nil {
				if atomic.LoadInt32(&finished) == 0 {
					fails.add("ccb_broker_cannot_read", err.Error())
				}
				return
			}
			if cmd, ok := ccb.AdInt(ad, ccb.AttrCommand); ok && int(cmd) == ccb.CommandAlive {
				atomic.AddInt64(&st.Resumed, 1)
				continue
			}
			id := ccb.AdString(ad, ccb.AttrRequestID)
			ok, _ := ccb.AdBool(ad, ccb.AttrResult)
			mu.Lock()
			switch {
			case !sent[id]:
				fails.add("ccb_unknown_result", "result for a request that was never forwarded: "+id)
			case results[id]:
				fails.add("ccb_duplicate_result", id)
			case !ok:
				fails.add("ccb_request_failed", id+": "+ccb.AdString(ad, ccb.AttrErrorString))
			}
			results[id] = true
			mu.Unlock()
			atomic.AddInt64(&st.Messages, 1)
		}
	}()

	lcfg := secCfg()
	l := ccb.NewListener(ccb.ListenerConfig{
		BrokerAddr:        brokerLn.Addr().String(),
		Security:          lcfg,
		Handler:           func(c net.Conn, _ ccb.InboundMeta) { _ = c.Close() },
		Name:              "c17-listener",
		HeartbeatInterval: hb, // anything shorter is raised to 30 s by NewListener
		ReconnectInterval: time.Hour,
		DialTimeout:       5 * time.Second,
	})
	go func() { _ = l.Run(ctx) }()

	var bs *stream.Stream
	select {
	case bs = <-registered:
	case <-time.After(30 * time.Second):
		fails.add("driver", "the listener did not register within 30 s")
	}
	if bs == nil {
		st.Fails = fails.fails
		return st
	}
	t0 := time.Now()
	n := 0
	forward := func() bool {
		n++
		id := fmt.Sprintf("r%d-%d", seed, n)
		mu.Lock()
		sent[id] = true
		mu.Unlock()
		ad := ccb.NewAd(map[string]any{ccb.AttrCommand: ccb.CommandRequest, ccb.AttrMyAddress: rev.Addr().String(),
			ccb.AttrClaimID: fmt.Sprintf("connect-%d-%d", seed, n), ccb.AttrRequestID: id})
		wctx, wcancel := context.WithTimeout(ctx, 10*time.Second)
		err := ccb.WriteControlAd(wctx, bs, ad)
		wcancel()
		atomic.AddInt64(&st.Handshakes, 1)
		if err != nil {
			fails.add("driver", "broker: forwarding a request: "+err.Error())
			return false
		}
		return true
	}
	// low rate all the time, dense from 1.5 s before to 1.5 s after the first tick
	for time.Since(t0) < hb+1500*time.Millisecond {
		if !forward() {
			break
		}
		el := time.Since(t0)
		switch {
		case el > hb-1500*time.Millisecond:
			time.Sleep(1500 * time.Microsecond)
		default:
			time.Sleep(40 * time.Millisecond)
		}
	}
	// quiescence: every forwarded request has its result
	deadline := time.Now().Add(15 * time.Second)
	for time.Now().Before(deadline) {
		mu.Lock()
		done := len(results) >= len(sent)
		mu.Unlock()
		if done {
			break
		}
		time.Sleep(20 * time.Millisecond)
	}
	atomic.StoreInt32(&finished, 1)
	mu.Lock()
	missing := 0
	for id := range sent {
		if !results[id] {
			missing++
		}
	}
	mu.Unlock()
	if missing > 0 {
		fails.add("ccb_missing_result", fmt.Sprintf("%d of %d forwarded requests never got a result", missing, len(sent)))
	}
	if atomic.LoadInt64(&st.Resumed) == 0 {
		fails.add("driver", "no heartbeat arrived although the run lasted longer than the heartbeat interval")
	}
	if atomic.LoadInt64(&hellos) == 0 {
		fails.add("driver", "no reverse connection arrived")
	}
	cancel()
	_ = bs.Close()
	st.Fails = fails.fails
	return st
}
