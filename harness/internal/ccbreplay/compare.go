package ccbreplay

import (
	"fmt"
	"strings"
)

// Diff is a difference between the observation and every admissible outcome.
type Diff struct {
	Sig     map[string]string // nil: not a statement about the property (liveness / timing / unknown script)
	Detail  string
	Unknown bool // the observed script is not in the table (timing): judged by the invariants only
}

func (d *Diff) Error() string { return d.Detail }

func noReason(o *Obs, b int) bool {
	for _, x := range o.NoReason {
		if x == b {
			return true
		}
	}
	return false
}

func matchOut(m Out, o *Obs, nb int) bool {
	if m.Ret != o.Ret {
		return false
	}
	if m.Ret != "error" && m.C != o.C {
		return false
	}
	if m.Ret == "error" && m.Why == "allFailed" {
		for _, b := range m.Fails {
			if !noReason(o, b) && !strings.Contains(o.ErrText, failMarker(b)) {
				return false
			}
		}
	}
	if len(m.Conns) != len(o.Conns) {
		return false
	}
	for i, s := range m.Conns {
		switch s {
		case "closed":
			if o.Conns[i] != "closed" {
				return false
			}
		case "returned":
			if o.Conns[i] != "returned" {
				return false
			}
		case "orphan": // matched but never handed over: the statement does not say
			if o.Conns[i] == "returned" {
				return false
			}
		default:
			return false
		}
	}
	for i := 0; i < nb && i < len(m.Bconn) && i < len(o.Bconn); i++ {
		switch m.Bconn[i] {
		case "none":
			if o.Bconn[i] != "none" {
				return false
			}
		case "closed":
			if o.Bconn[i] != "closed" {
				return false
			}
		case "returned":
			if o.Bconn[i] != "returned" {
				return false
			}
		}
	}
	return true
}

func sigOf(p Params, inv, what string) map[string]string {
	return map[string]string{"spec": "CCBDial", "mode": p.Mode, "invariant": inv, "what": what}
}

// invariants judges the observation by the property's invariants alone.
func invariants(o *Obs, p Params, allowed []Out) *Diff {
	script := Key(o.Trace)
	switch o.Ret {
	case "unknown":
		return &Diff{Sig: sigOf(p, "ReturnedPresentedFreshId", "returned_unidentified_connection"),
			Detail: fmt.Sprintf("script %s: Dial returned a connection that none of the scripted peers is behind (%s)", script, o.ErrText)}
	case "rev":
		k := o.Kinds[o.C-1]
		if k != "legit" || p.Mode != "standard" {
			return &Diff{Sig: sigOf(p, "ReturnedPresentedFreshId", "returned_"+k),
				Detail: fmt.Sprintf("script %s: Dial returned reverse connection #%d whose hello was %q, not the fresh id of its attempt", script, o.C, k)}
		}
	case "broker":
		ok := false
		for _, m := range allowed {
			if m.Ret == "broker" && m.C == o.C {
				ok = true
			}
		}
		if !ok && allowed != nil || p.Mode == "standard" {
			what := "returned_broker_connection"
			if p.Mode != "standard" {
				what = "returned_without_matching_hello"
			}
			return &Diff{Sig: sigOf(p, "ReturnedPresentedFreshId", what),
				Detail: fmt.Sprintf("script %s: Dial returned the connection to broker %d although the model admits only %v", script, o.C, allowed)}
		}
	}
	for i, k := range o.Kinds {
		if k != "legit" && o.Conns[i] == "open" {
			return &Diff{Sig: sigOf(p, "OthersClosed", "open_"+k),
				Detail: fmt.Sprintf("script %s: reverse connection #%d (hello %q) is still open after Dial returned (%s %d)", script, i+1, k, o.Ret, o.C)}
		}
	}
	if p.Mode != "standard" {
		for i, s := range o.Bconn {
			if s == "open" {
				return &Diff{Sig: sigOf(p, "OthersClosed", "open_broker_connection"),
					Detail: fmt.Sprintf("script %s: the connection to broker %d was neither returned nor closed", script, i+1)}
			}
		}
	}
	return nil
}

// Compare checks an observation against the model's table.
func Compare(t *Table, o *Obs, p Params) *Diff {
	key := Key(o.Trace)
	allowed, known := t.Allowed[key]
	if known {
		for _, m := range allowed {
			if matchOut(m, o, p.NB) {
				return nil
			}
		}
	}
	if d := invariants(o, p, allowed); d != nil {
		return d
	}
	if !known && o.Cancelled && len(o.Trace) > 1 {
		// the harness had to cancel the dial although, by the model, the dial returns by
		// itself after this script (the script without "cancel" is a generated one)
		k2 := Key(o.Trace[:len(o.Trace)-1])
		if a2, ok := t.Allowed[k2]; ok {
			key, allowed, known = k2+" (then cancelled by the harness: the dial did not return by itself)", a2, true
		}
	}
	if !known {
		return &Diff{Unknown: true, Detail: fmt.Sprintf("observed script %s is not among the generated ones (timing); invariants hold on the observation %+v", key, *o)}
	}
	// every admissible outcome is "the broker's failure": the attempt must end with that error
	allFail := len(allowed) > 0
	for _, m := range allowed {
		if !(m.Ret == "error" && m.Why == "allFailed" && len(m.Fails) > 0) {
			allFail = false
		}
	}
	if allFail {
		return &Diff{Sig: sigOf(p, "BrokerFailureEndsAttempt", "failure_did_not_end_attempt"),
			Detail: fmt.Sprintf("script %s: every broker reported a failure, the model admits only %v; observed ret=%s c=%d err=%q cancelled=%v", key, allowed, o.Ret, o.C, o.ErrText, o.Cancelled)}
	}
	return &Diff{Detail: fmt.Sprintf("script %s: observed ret=%s c=%d conns=%v bconn=%v err=%q is none of the admissible outcomes %v (no invariant of C20 is violated by the observation: progress / timing)", key, o.Ret, o.C, o.Conns, o.Bconn, o.ErrText, allowed)}
}
