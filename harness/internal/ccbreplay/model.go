// Package ccbreplay binds CCBDial.tla (property C20) to the real ccb.Dial: a
// behaviour printed by Gen_CCBDial is a script of what the ENVIRONMENT does
// (which scripted broker replies what, which host connects to the requester's
// ephemeral listener with which hello, in which order, when the caller's
// context ends) together with one admissible outcome; all behaviours with the
// same script give the set of admissible outcomes.  The replayer runs the real
// Dial against scripted brokers built on cedar's own server package (so the
// security handshake is the real one), performs the script, and compares what
// it observes -- which scripted peer is at the other end of the returned
// connection, the open/closed state of every other connection, the error --
// with that set.
package ccbreplay

import (
	"encoding/json"
	"fmt"
	"sort"
	"strings"
)

// Ev is one recorded step of a behaviour.
type Ev struct {
	E string `json:"e"` // req | arrive | reply | send | stop | cancel
	B int    `json:"b,omitempty"`
	K string `json:"k,omitempty"` // arrive: hello kind
	R string `json:"r,omitempty"` // reply: ok | fail
	M string `json:"m,omitempty"` // send: proxy-mode message kind
}

func (e Ev) String() string {
	switch e.E {
	case "req":
		return fmt.Sprintf("req%d", e.B)
	case "arrive":
		return fmt.Sprintf("arr%d:%s", e.B, e.K)
	case "reply":
		return fmt.Sprintf("rep%d:%s", e.B, e.R)
	case "send":
		return fmt.Sprintf("snd%d:%s", e.B, e.M)
	}
	return e.E
}

func Key(tr []Ev) string {
	p := make([]string, len(tr))
	for i, e := range tr {
		p[i] = e.String()
	}
	return strings.Join(p, ";")
}

// Out is the model's projection of a finished dial.
type Out struct {
	Ret   string   `json:"ret"` // rev | broker | error
	C     int      `json:"c"`   // rev: index of the reverse connection (1-based, order of opening); broker: broker number
	Why   string   `json:"why"`
	Fails []int    `json:"fails"`
	Conns []string `json:"conns"` // closed | returned | orphan
	Bconn []string `json:"bconn"` // none | closed | returned | orphan
}

func (o Out) String() string {
	b, _ := json.Marshal(o)
	return string(b)
}

type Behaviour struct {
	Trace []Ev `json:"trace"`
	Out   Out  `json:"out"`
}

// Table maps a script to its admissible outcomes.
type Table struct {
	Allowed map[string][]Out
	Scripts [][]Ev // distinct environment scripts (the part up to and including "stop")
}

func BuildTable(raws []json.RawMessage) (*Table, error) {
	t := &Table{Allowed: map[string][]Out{}}
	seenOut := map[string]bool{}
	seenScript := map[string]bool{}
	for _, r := range raws {
		var b Behaviour
		if err := json.Unmarshal(r, &b); err != nil {
			return nil, err
		}
		k := Key(b.Trace)
		ok := k + "=>" + b.Out.String()
		if !seenOut[ok] {
			seenOut[ok] = true
			t.Allowed[k] = append(t.Allowed[k], b.Out)
		}
		// the script the harness performs: everything up to "stop"
		var sc []Ev
		for _, e := range b.Trace {
			sc = append(sc, e)
			if e.E == "stop" {
				break
			}
		}
		sk := Key(sc)
		if !seenScript[sk] {
			seenScript[sk] = true
			t.Scripts = append(t.Scripts, sc)
		}
	}
	sort.Slice(t.Scripts, func(i, j int) bool { return Key(t.Scripts[i]) < Key(t.Scripts[j]) })
	return t, nil
}

// Rogues counts the rogue arrivals of a script.
func Rogues(sc []Ev) int {
	n := 0
	for _, e := range sc {
		if e.E == "arrive" && e.K != "legit" {
			n++
		}
	}
	return n
}
