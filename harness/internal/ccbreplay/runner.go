package ccbreplay

import (
	"bytes"
	"context"
	"crypto/rand"
	"encoding/binary"
	"encoding/hex"
	"errors"
	"fmt"
	"io"
	"log/slog"
	"net"
	"strings"
	"sync"
	"time"

	"github.com/PelicanPlatform/classad/classad"
	"github.com/bbockelm/cedar/addresses"
	"github.com/bbockelm/cedar/ccb"
	"github.com/bbockelm/cedar/message"
	"github.com/bbockelm/cedar/security"
	cedarserver "github.com/bbockelm/cedar/server"
	"github.com/bbockelm/cedar/stream"
)

// Params are the choices the model leaves to the harness.
type Params struct {
	Mode   string        `json:"mode"` // standard | proxy | nested (nested = proxy reached through a multi-hop contact)
	NB     int           `json:"nb"`
	Settle time.Duration `json:"settle"` // how long to wait for the dial to come to rest before cancelling
	Salt   int           `json:"salt"`   // selects the concrete member of each abstract class (which wrong id, which garbage)
	Down   bool          `json:"down"`   // add a contact whose port refuses connections
}

// Obs is the projection of one real dial.
type Obs struct {
	Trace     []Ev     `json:"trace"` // what the environment did / saw, in order
	Ret       string   `json:"ret"`   // rev | broker | error | unknown (a connection none of the scripted peers is behind)
	C         int      `json:"c"`
	ErrText   string   `json:"err"`
	Kinds     []string `json:"kinds"` // hello kind of each reverse connection
	Conns     []string `json:"conns"` // closed | open | returned
	Bconn     []string `json:"bconn"` // none | closed | open | returned
	Cancelled bool     `json:"cancelled"`
	NoReason  []int    `json:"noReason,omitempty"` // brokers whose scripted failure reply carried no reason text
}

const stagger = 250 * time.Millisecond

var silence sync.Once

// Quiet silences cedar's logging for the replay.
func Quiet() {
	silence.Do(func() {
		slog.SetDefault(slog.New(slog.NewTextHandler(io.Discard, &slog.HandlerOptions{Level: slog.LevelError + 4})))
	})
}

func plaintextSec() *security.SecurityConfig {
	return &security.SecurityConfig{
		AuthMethods:    []security.AuthMethod{},
		Authentication: security.SecurityNever,
		Encryption:     security.SecurityNever,
		Integrity:      security.SecurityNever,
		RemoteVersion:  "$CondorVersion: 25.13.0 2026-06-21 BuildID: verif $",
		SessionCache:   security.NewSessionCache(),
	}
}

type breq struct {
	phys   int
	id     string
	myAddr string
	st     *stream.Stream
	conn   net.Conn
	cmd    chan func()
}

type scenario struct {
	reqCh chan *breq
	done  chan struct{}
}

type peer struct {
	kind   string
	conn   net.Conn
	closed bool // refused, or closed by the script itself
	state  string
}

func randHex(n int) string {
	b := make([]byte, n)
	_, _ = rand.Read(b)
	return hex.EncodeToString(b)
}

// StaleID is the connect id of an earlier, finished dial (set by Prime).
var staleMu sync.Mutex
var staleID string

func startBroker(ctx context.Context, sc *scenario, phys int) (net.Listener, error) {
	ln, err := net.Listen("tcp", "127.0.0.1:0")
	if err != nil {
		return nil, err
	}
	srv := cedarserver.New(plaintextSec())
	srv.Handle(ccb.CommandRequest, func(hctx context.Context, c *cedarserver.Conn) error {
		ad, err := ccb.ReadControlAd(hctx, c.Stream)
		if err != nil {
			return err
		}
		r := &breq{phys: phys, id: ccb.AdString(ad, ccb.AttrClaimID),
			myAddr: strings.Trim(ccb.AdString(ad, ccb.AttrMyAddress), "<>"),
			st:     c.Stream, conn: c.Stream.GetConnection(), cmd: make(chan func(), 8)}
		select {
		case sc.reqCh <- r:
		case <-sc.done:
			return nil
		}
		for {
			select {
			case f := <-r.cmd:
				f()
			case <-sc.done:
				return nil
			}
		}
	})
	go func() { _ = srv.Serve(ctx, ln) }()
	return ln, nil
}

func (r *breq) do(f func()) bool {
	done := make(chan struct{})
	select {
	case r.cmd <- func() { f(); close(done) }:
	case <-time.After(3 * time.Second):
		return false
	}
	select {
	case <-done:
		return true
	case <-time.After(5 * time.Second):
		return false
	}
}

// helloID picks the connect id a hello of this kind carries.
func helloID(kind string, own, other string, salt int) (id string, omit bool) {
	switch kind {
	case "legit":
		return own, false
	case "wrongId":
		switch salt % 4 {
		case 0:
			return randHex(20), false
		case 1: // one character off
			b := []byte(own)
			if len(b) > 0 {
				i := salt % len(b)
				if b[i] == '0' {
					b[i] = '1'
				} else {
					b[i] = '0'
				}
			}
			return string(b), false
		case 2: // a proper prefix
			if len(own) > 1 {
				return own[:len(own)-1], false
			}
			return "x", false
		default:
			return own + own, false
		}
	case "emptyId":
		return "", salt%2 == 1
	case "staleId":
		staleMu.Lock()
		defer staleMu.Unlock()
		return staleID, false
	case "otherId":
		return other, false
	}
	return "", true
}

func writeHello(st *stream.Stream, id string, omit bool, addr string) error {
	ctx, cancel := context.WithTimeout(context.Background(), 2*time.Second)
	defer cancel()
	if !omit {
		return ccb.WriteReverseConnect(ctx, st, id, "1", addr)
	}
	ad := classad.New()
	_ = ad.Set(ccb.AttrRequestID, "1")
	_ = ad.Set(ccb.AttrMyAddress, addr)
	msg := message.NewMessageForStream(st)
	if err := msg.PutInt(ctx, ccb.CommandReverseConnect); err != nil {
		return err
	}
	if err := msg.PutClassAd(ctx, ad); err != nil {
		return err
	}
	return msg.FinishMessage(ctx)
}

// writeBadGreeting sends an opening message that carries the RIGHT connect id but is
// not a well-formed reverse-connect hello ("a malformed greeting" of the statement).
func writeBadGreeting(st *stream.Stream, id, addr string, salt int) error {
	ctx, cancel := context.WithTimeout(context.Background(), 2*time.Second)
	defer cancel()
	ad := classad.New()
	_ = ad.Set(ccb.AttrClaimID, id)
	_ = ad.Set(ccb.AttrRequestID, "1")
	_ = ad.Set(ccb.AttrMyAddress, addr)
	putAd := func(m *message.Message) error {
		return m.PutClassAdWithOptions(ctx, ad, &message.PutClassAdConfig{Options: message.PutClassAdIncludePrivate})
	}
	msg := message.NewMessageForStream(st)
	var err error
	switch salt % 8 {
	case 0, 1, 2, 3, 4: // another command integer, then the ad
		cmd := []int{ccb.CommandRequest, 0, 60011, ccb.CommandReverseConnect + 1, -1}[salt%8]
		if err = msg.PutInt(ctx, cmd); err == nil {
			err = putAd(msg)
		}
	case 5: // the command integer is missing
		err = putAd(msg)
	case 6: // an extra item in front of the command
		if err = msg.PutInt(ctx, 0); err == nil {
			if err = msg.PutInt(ctx, ccb.CommandReverseConnect); err == nil {
				err = putAd(msg)
			}
		}
	default: // the ad before the command
		if err = putAd(msg); err == nil {
			err = msg.PutInt(ctx, ccb.CommandReverseConnect)
		}
	}
	if err != nil {
		return err
	}
	return msg.FinishMessage(ctx)
}

func garbageBytes(salt int) []byte {
	switch salt % 5 {
	case 0: // a well-framed message that is no hello
		body := make([]byte, 64)
		_, _ = rand.Read(body)
		h := []byte{1, 0, 0, 0, byte(len(body))}
		return append(h, body...)
	case 1: // a frame announcing an absurd length
		return []byte{1, 0x7f, 0xff, 0xff, 0xff, 1, 2, 3, 4, 5, 6, 7, 8}
	case 2: // another protocol
		return []byte("GET / HTTP/1.0\r\n\r\n")
	case 3: // a well-framed message with another command integer
		body := make([]byte, 8)
		binary.BigEndian.PutUint64(body, uint64(ccb.CommandRequest))
		return append([]byte{1, 0, 0, 0, 8}, body...)
	default: // the right command, then bytes that are no ClassAd
		body := make([]byte, 40)
		binary.BigEndian.PutUint64(body, uint64(ccb.CommandReverseConnect))
		for i := 8; i < len(body); i++ {
			body[i] = 0xfe
		}
		return append([]byte{1, 0, 0, 0, byte(len(body))}, body...)
	}
}

// Run performs one script against the real ccb.Dial.
func Run(script []Ev, p Params) (*Obs, error) {
	Quiet()
	o := &Obs{}
	sc := &scenario{reqCh: make(chan *breq, 8), done: make(chan struct{})}
	srvCtx, srvCancel := context.WithCancel(context.Background())
	var lns []net.Listener
	var contacts []addresses.CCBContact
	defer func() {
		close(sc.done)
		srvCancel()
		for _, l := range lns {
			_ = l.Close()
		}
	}()
	for i := 0; i < p.NB; i++ {
		ln, err := startBroker(srvCtx, sc, i)
		if err != nil {
			return nil, err
		}
		lns = append(lns, ln)
		a := ln.Addr().String()
		ct := addresses.CCBContact{BrokerAddr: a, CCBID: "1", Raw: a + "#1"}
		if p.Mode == "nested" {
			ct = addresses.CCBContact{BrokerAddr: a + "#1", CCBID: "2", Raw: a + "#1#2"}
		}
		contacts = append(contacts, ct)
	}
	if p.Down {
		ln, err := net.Listen("tcp", "127.0.0.1:0")
		if err == nil {
			a := ln.Addr().String()
			_ = ln.Close()
			contacts = append(contacts, addresses.CCBContact{BrokerAddr: a, CCBID: "1", Raw: a + "#1"})
		}
	}
	opts := ccb.DialOptions{Security: plaintextSec(), ListenAddr: "127.0.0.1:0", Stagger: stagger,
		Timeout: 60 * time.Second, TargetDesc: "verif"}
	if p.Mode == "proxy" {
		opts.ProxyReturnAddr = "<127.0.0.1:0?ccbid=127.0.0.1:0%231>"
		opts.RequireStreaming = p.Salt%2 == 0
	}
	ctx, cancel := context.WithCancel(context.Background())
	defer cancel()
	type dres struct {
		conn net.Conn
		err  error
	}
	dialDone := make(chan dres, 1)
	go func() {
		c, err := ccb.Dial(ctx, contacts, opts)
		dialDone <- dres{c, err}
	}()

	var roles []*breq // roles[i] = broker number i+1 (launch order)
	var peers []*peer
	var result *dres
	take := func(r *breq) {
		roles = append(roles, r)
		o.Trace = append(o.Trace, Ev{E: "req", B: len(roles)})
	}
	poll := func() { // requests that arrived without the script waiting for them
		for {
			select {
			case r := <-sc.reqCh:
				take(r)
			default:
				return
			}
		}
	}
	finished := func() bool {
		if result != nil {
			return true
		}
		select {
		case r := <-dialDone:
			result = &r
			return true
		default:
			return false
		}
	}

steps:
	for _, ev := range script {
		if ev.E == "stop" {
			break
		}
		if ev.E != "req" {
			poll()
		}
		if finished() {
			break
		}
		switch ev.E {
		case "req":
			if len(roles) >= ev.B {
				continue // already seen (it arrived early)
			}
			select {
			case r := <-sc.reqCh:
				take(r)
			case r := <-dialDone:
				result = &r
				break steps
			case <-time.After(stagger + 4*time.Second):
				break steps
			}
		case "arrive":
			if ev.B > len(roles) {
				break steps
			}
			r := roles[ev.B-1]
			pr := &peer{kind: ev.K}
			peers = append(peers, pr)
			o.Trace = append(o.Trace, ev)
			conn, err := net.DialTimeout("tcp", r.myAddr, 2*time.Second)
			if err != nil {
				pr.closed = true
				continue
			}
			pr.conn = conn
			other := ""
			if len(roles) == 2 {
				other = roles[2-ev.B].id
			}
			switch ev.K {
			case "close":
				_ = conn.Close()
				pr.closed = true
			case "stall":
				if (p.Salt+len(peers))%2 == 1 {
					_, _ = conn.Write([]byte{1, 0, 0}) // part of a header, then silence
				}
			case "garbage":
				_ = conn.SetWriteDeadline(time.Now().Add(2 * time.Second))
				_, _ = conn.Write(garbageBytes(p.Salt + len(peers)))
			case "badGreeting":
				_ = writeBadGreeting(stream.NewStream(conn), r.id, r.myAddr, p.Salt+len(peers))
			default:
				id, omit := helloID(ev.K, r.id, other, p.Salt+len(peers))
				_ = writeHello(stream.NewStream(conn), id, omit, r.myAddr)
			}
		case "reply":
			if ev.B > len(roles) {
				break steps
			}
			r := roles[ev.B-1]
			o.Trace = append(o.Trace, ev)
			r.do(func() {
				wctx, c := context.WithTimeout(context.Background(), 2*time.Second)
				defer c()
				ad := ccb.NewAd(map[string]any{ccb.AttrResult: ev.R == "ok"})
				if ev.R != "ok" {
					ad = failAd(ev.B, p.Salt, o)
				}
				_ = ccb.WriteControlAd(wctx, r.st, ad)
			})
		case "send":
			if ev.B > len(roles) {
				break steps
			}
			r := roles[ev.B-1]
			o.Trace = append(o.Trace, ev)
			r.do(func() {
				wctx, c := context.WithTimeout(context.Background(), 2*time.Second)
				defer c()
				switch ev.M {
				case "replyOk":
					_ = ccb.WriteControlAd(wctx, r.st, ccb.NewAd(map[string]any{ccb.AttrResult: true}))
				case "replyFail":
					_ = ccb.WriteControlAd(wctx, r.st, failAd(ev.B, p.Salt, o))
				case "garbage":
					_ = r.conn.SetWriteDeadline(time.Now().Add(2 * time.Second))
					_, _ = r.conn.Write(garbageBytes(p.Salt + ev.B))
				case "badGreeting":
					_ = writeBadGreeting(r.st, r.id, "127.0.0.1:1", p.Salt+ev.B)
				case "close":
					// the broker hangs up its sending side (it can still observe what the
					// requester does with the connection afterwards)
					if hc, ok := r.conn.(interface{ CloseWrite() error }); ok {
						_ = hc.CloseWrite()
					} else {
						_ = r.conn.Close()
					}
				default:
					id, omit := helloID(ev.M, r.id, "", p.Salt+ev.B)
					_ = writeHello(r.st, id, omit, "127.0.0.1:1")
				}
			})
		}
	}
	o.Trace = append(o.Trace, Ev{E: "stop"})
	// let the dial come to rest; cancel the caller's context if it does not return
	if !finished() {
		deadline := time.After(p.Settle)
	wait:
		for {
			select {
			case r := <-dialDone:
				result = &r
				break wait
			case r := <-sc.reqCh:
				take(r)
			case <-deadline:
				break wait
			}
		}
	}
	if result == nil {
		poll()
		o.Cancelled = true
		o.Trace = append(o.Trace, Ev{E: "cancel"})
		cancel()
		select {
		case r := <-dialDone:
			result = &r
		case <-time.After(10 * time.Second):
			return o, errors.New("ccb.Dial did not return within 10 s of its context being cancelled")
		}
	}

	// ---- observation
	marker := []byte("VERIF-MARKER-" + randHex(8))
	if result.conn != nil {
		_ = result.conn.SetWriteDeadline(time.Now().Add(2 * time.Second))
		_, _ = result.conn.Write(marker)
		_ = result.conn.Close()
	}
	if result.err != nil {
		o.ErrText = result.err.Error()
	}
	const grace = 1500 * time.Millisecond
	watch := func(c net.Conn) string {
		_ = c.SetReadDeadline(time.Now().Add(grace))
		var buf bytes.Buffer
		tmp := make([]byte, 256)
		for {
			n, err := c.Read(tmp)
			buf.Write(tmp[:n])
			if bytes.Contains(buf.Bytes(), marker) {
				return "returned"
			}
			if err != nil {
				var ne net.Error
				if errors.As(err, &ne) && ne.Timeout() {
					return "open"
				}
				return "closed"
			}
		}
	}
	var wg sync.WaitGroup
	for _, pr := range peers {
		o.Kinds = append(o.Kinds, pr.kind)
		if pr.closed || pr.conn == nil {
			pr.state = "closed"
			continue
		}
		wg.Add(1)
		go func(pr *peer) { defer wg.Done(); pr.state = watch(pr.conn) }(pr)
	}
	bstate := make([]string, p.NB)
	for i := range bstate {
		bstate[i] = "none"
	}
	for i, r := range roles {
		if i >= p.NB {
			break
		}
		wg.Add(1)
		go func(i int, r *breq) {
			defer wg.Done()
			st := "open"
			if !r.do(func() { st = watch(r.conn) }) {
				st = "open"
			}
			bstate[i] = st
		}(i, r)
	}
	wg.Wait()
	for _, pr := range peers {
		o.Conns = append(o.Conns, pr.state)
		if pr.conn != nil {
			_ = pr.conn.Close()
		}
	}
	o.Bconn = bstate
	switch {
	case result.conn == nil && result.err != nil:
		o.Ret = "error"
	case result.conn == nil:
		o.Ret = "unknown"
		o.ErrText = "Dial returned (nil, nil)"
	default:
		o.Ret = "unknown"
		for i, pr := range peers {
			if pr.state == "returned" {
				o.Ret, o.C = "rev", i+1
			}
		}
		for i, s := range bstate {
			if s == "returned" {
				o.Ret, o.C = "broker", i+1
			}
		}
	}
	return o, nil
}

// failAd renders "the broker reports a failure" (Result = false) as one member of a class selected by the salt:
// with a reason naming the broker, with an empty reason, without any ErrorString (seed C20-f: a failure is a
// failure whether or not it comes with a text). Brokers whose failure carried no text are noted in the observation.
func failAd(b, salt int, o *Obs) *classad.ClassAd {
	switch (salt + b) % 3 {
	case 1:
		noReasonMu.Lock()
		o.NoReason = append(o.NoReason, b)
		noReasonMu.Unlock()
		return ccb.NewAd(map[string]any{ccb.AttrResult: false, ccb.AttrErrorString: ""})
	case 2:
		noReasonMu.Lock()
		o.NoReason = append(o.NoReason, b)
		noReasonMu.Unlock()
		return ccb.NewAd(map[string]any{ccb.AttrResult: false})
	}
	return ccb.NewAd(map[string]any{ccb.AttrResult: false, ccb.AttrErrorString: failMarker(b)})
}

var noReasonMu sync.Mutex

func failMarker(b int) string { return fmt.Sprintf("scripted-broker-%d-says-no", b) }

// Prime performs one cooperative dial and keeps its connect id as the
// "id of an earlier request".
func Prime() error {
	Quiet()
	sc := &scenario{reqCh: make(chan *breq, 2), done: make(chan struct{})}
	ctx, cancel := context.WithCancel(context.Background())
	defer cancel()
	defer close(sc.done)
	ln, err := startBroker(ctx, sc, 0)
	if err != nil {
		return err
	}
	defer ln.Close()
	a := ln.Addr().String()
	type dres struct {
		conn net.Conn
		err  error
	}
	done := make(chan dres, 1)
	dctx, dcancel := context.WithTimeout(ctx, 10*time.Second)
	defer dcancel()
	go func() {
		c, err := ccb.Dial(dctx, []addresses.CCBContact{{BrokerAddr: a, CCBID: "1", Raw: a + "#1"}},
			ccb.DialOptions{Security: plaintextSec(), ListenAddr: "127.0.0.1:0"})
		done <- dres{c, err}
	}()
	var r *breq
	select {
	case r = <-sc.reqCh:
	case d := <-done:
		return fmt.Errorf("priming dial ended early: %v", d.err)
	case <-time.After(10 * time.Second):
		return errors.New("priming dial: no request reached the scripted broker")
	}
	conn, err := net.DialTimeout("tcp", r.myAddr, 2*time.Second)
	if err != nil {
		return err
	}
	defer conn.Close()
	if err := writeHello(stream.NewStream(conn), r.id, false, r.myAddr); err != nil {
		return err
	}
	d := <-done
	if d.err != nil {
		return fmt.Errorf("priming dial failed: %w", d.err)
	}
	_ = d.conn.Close()
	if len(r.id) != 40 {
		return fmt.Errorf("unexpected connect id %q", r.id)
	}
	staleMu.Lock()
	staleID = r.id
	staleMu.Unlock()
	return nil
}
