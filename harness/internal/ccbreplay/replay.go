package ccbreplay

import (
	"encoding/json"
	"os"
	"runtime"
	"runtime/debug"
	"sync/atomic"
	"time"

	"cedarverif/internal/core"
)

type Job struct {
	Script []Ev   `json:"script"`
	P      Params `json:"params"`
}

type Stats struct {
	Conform, Returned, Errors, Cancelled, UnknownScript, Retried int64
}

const (
	settleQuick = 400 * time.Millisecond
	settleLong  = 4 * time.Second
)

// ReplayAll runs the jobs w at a time.  A difference is re-run twice (the second
// time with a ten times longer settle delay, so that scheduling delays on a
// loaded machine cannot masquerade as behaviour) before it is reported.
//
// The garbage collector is switched off while dials are in flight: Go closes a
// dropped net.Conn from a finalizer, which would hide a connection the requester
// forgot to close.  Jobs run in batches with a collection between batches.
func ReplayAll(c *core.Ctx, tabs map[string]*Table, jobs []Job, w int, st *Stats) {
	old := debug.SetGCPercent(-1)
	defer debug.SetGCPercent(old)
	const batch = 400
	for lo := 0; lo < len(jobs); lo += batch {
		hi := lo + batch
		if hi > len(jobs) {
			hi = len(jobs)
		}
		part := jobs[lo:hi]
		core.ParallelFor(len(part), w, func(i int) { runJob(c, tabs[TableName(part[i].P)], part[i], st) })
		runtime.GC()
	}
}

func runJob(c *core.Ctx, t *Table, j Job, st *Stats) {
	p := j.P
	if p.Settle == 0 {
		p.Settle = settleQuick
	}
	o, err := Run(j.Script, p)
	if err != nil {
		c.Broken("C20 replay %s: %v", Key(j.Script), err)
		return
	}
	key, _ := json.Marshal(j)
	c.Eval(string(key), len(j.Script) > 2)
	d := Compare(t, o, p)
	if d != nil {
		atomic.AddInt64(&st.Retried, 1)
		p2 := p
		p2.Settle = settleLong
		var d2 *Diff
		var o2 *Obs
		for try := 0; try < 2; try++ {
			o2, err = Run(j.Script, p2)
			if err != nil {
				c.Broken("C20 replay %s: %v", Key(j.Script), err)
				return
			}
			d2 = Compare(t, o2, p2)
			if d2 == nil || !d2.Unknown {
				break
			}
		}
		switch {
		case d2 == nil:
			// the first difference was a scheduling artefact (the settle delay was too short)
			o, d = o2, nil
		case d2.Unknown:
			atomic.AddInt64(&st.UnknownScript, 1)
			c.Note("C20: " + d2.Detail)
			return
		case d2.Sig == nil:
			c.Broken("C20 unexplained difference (reproduced): %s", d2.Detail)
			return
		default:
			// (both runs broke an invariant of the property; under a race they need not be
			// the same one -- the second is reported)
			c.Fail(core.Failure{Signature: d2.Sig, Detail: d2.Detail,
				Scenario: map[string]any{"kind": "CCBDial", "job": j, "observed": o2}})
			return
		}
	}
	atomic.AddInt64(&st.Conform, 1)
	switch {
	case o.Ret == "rev" || o.Ret == "broker":
		atomic.AddInt64(&st.Returned, 1)
	case o.Cancelled:
		atomic.AddInt64(&st.Cancelled, 1)
	default:
		atomic.AddInt64(&st.Errors, 1)
	}
}

func ReplayFile(c *core.Ctx, tabs map[string]*Table) bool {
	b, err := os.ReadFile(c.Replay)
	if err != nil {
		c.Broken("cannot read replay file: %v", err)
		return true
	}
	var rf struct {
		Scenario struct {
			Kind string `json:"kind"`
			Job  Job    `json:"job"`
		} `json:"scenario"`
	}
	if err := json.Unmarshal(b, &rf); err != nil || rf.Scenario.Kind != "CCBDial" {
		c.Broken("not a C20 replay file")
		return true
	}
	j := rf.Scenario.Job
	t := tabs[TableName(j.P)]
	if t == nil {
		c.Broken("no model table for %+v", j.P)
		return true
	}
	// the outcome of a script may depend on a race inside the requester: repeat the
	// recorded script until it fails again (at most 25 times)
	old := debug.SetGCPercent(-1)
	defer debug.SetGCPercent(old)
	var st Stats
	for i := 0; i < 25 && c.Failures() == 0 && !c.IsBroken(); i++ {
		runJob(c, t, j, &st)
	}
	c.Add("traces_validated_against_impl", st.Conform)
	return true
}

// TableName names the generator configuration a parameter set belongs to.
func TableName(p Params) string {
	m := p.Mode
	if m == "nested" {
		m = "proxy"
	}
	if m == "std" {
		m = "standard"
	}
	if p.NB == 2 {
		return m + "2"
	}
	return m + "1"
}
