package chanreplay

import (
	"encoding/json"
	"os"
	"sync"

	"cedarverif/internal/core"
)

type Job struct {
	Sc *Scenario
	V  Variant
}

// replayChannel runs jobs in parallel, confirms every difference by an
// immediate second run (DESIGN §5 (ii)) and records failures.
func ReplayAll(c *core.Ctx, jobs []Job, stats *Stats) {
	var mu sync.Mutex
	conform := int64(0)
	core.ParallelFor(len(jobs), 16, func(i int) {
		j := jobs[i]
		var st Stats
		d := Run(j.Sc, j.V, &st)
		if IsSkip(d) {
			return
		}
		key, _ := json.Marshal(struct {
			S *Scenario
			V Variant
		}{j.Sc, j.V})
		c.Eval(string(key), len(j.Sc.Trace) > 3)
		mu.Lock()
		stats.FramesOpenedByRef += st.FramesOpenedByRef
		stats.RefFramesAccepted += st.RefFramesAccepted
		stats.RealCalls += st.RealCalls
		mu.Unlock()
		if d == nil {
			mu.Lock()
			conform++
			mu.Unlock()
			return
		}
		var st2 Stats
		d2 := Run(j.Sc, j.V, &st2)
		if d2 == nil || d2.Detail != d.Detail {
			c.Broken("non-reproducible difference: %v vs %v", d, d2)
			return
		}
		c.Fail(core.Failure{Signature: Signature(j.Sc, d), Detail: d.Error(),
			Scenario: map[string]any{"kind": "SecureChannel", "trace": j.Sc.Trace, "variant": j.V}})
	})
	c.Add("traces_validated_against_impl", conform)
}

func Parse(c *core.Ctx, raws []json.RawMessage) []*Scenario {
	var out []*Scenario
	for _, r := range raws {
		var sc Scenario
		if err := json.Unmarshal(r, &sc); err != nil {
			c.Broken("bad scenario JSON: %v", err)
			return nil
		}
		out = append(out, &sc)
	}
	return out
}

// space runs the scenario once to learn how many concrete members its
// adversary step has under this variant (bits of a field, cut positions).
func AdvSpace(sc *Scenario, v Variant) int {
	var st Stats
	Run(sc, v, &st)
	return st.Space
}

func ReplayFile(c *core.Ctx) bool {
	if c.Replay == "" {
		return false
	}
	b, err := os.ReadFile(c.Replay)
	if err != nil {
		c.Broken("cannot read replay file: %v", err)
		return true
	}
	var rf struct {
		Scenario struct {
			Kind    string  `json:"kind"`
			Trace   []Step  `json:"trace"`
			Variant Variant `json:"variant"`
		} `json:"scenario"`
	}
	if err := json.Unmarshal(b, &rf); err != nil || rf.Scenario.Kind != "SecureChannel" {
		return false
	}
	sc := &Scenario{Trace: rf.Scenario.Trace}
	var st Stats
	ReplayAll(c, []Job{{sc, rf.Scenario.Variant}}, &st)
	return true
}
