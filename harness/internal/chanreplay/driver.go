package chanreplay

import (
	"encoding/json"
	"os"
	"sync"

	"cedarverif/internal/core"
	"cedarverif/internal/strace"

	"github.com/bbockelm/cedar/stream"
)

type Job struct {
	Sc *Scenario
	V  Variant
}

// replayChannel runs jobs in parallel, confirms every difference by an
// immediate second run (DESIGN §5 (ii)) and records failures.
func ReplayAll(c *core.Ctx, jobs []Job, stats *Stats) {
	var mu sync.Mutex
	conform := int64(0)
	// code -> spec: every event the real streams emit during the replays is
	// collected and validated against StreamEndpoint_Trace.tla afterwards
	col := &strace.Collector{}
	col.Install()
	OnRefSend = func(raw, key []byte, ctr uint32, prot bool) {
		col.AddSyntheticSend(stream.VerifFP(raw), stream.VerifFP(key), ctr, prot)
	}
	defer func() {
		col.Uninstall()
		OnRefSend = nil
		ValidateStreamTraces(c, col.Events(), true, "replay")
	}()
	core.ParallelFor(len(jobs), 16, func(i int) {
		j := jobs[i]
		var st Stats
		d := Run(j.Sc, j.V, &st)
		if IsSkip(d) {
			return
		}
		key, _ := json.Marshal(struct {
			S *Scenario
			V Variant
		}{j.Sc, j.V})
		c.Eval(string(key), len(j.Sc.Trace) > 3)
		mu.Lock()
		stats.FramesOpenedByRef += st.FramesOpenedByRef
		stats.RefFramesAccepted += st.RefFramesAccepted
		stats.RealCalls += st.RealCalls
		mu.Unlock()
		if d == nil {
			mu.Lock()
			conform++
			mu.Unlock()
			return
		}
		var st2 Stats
		d2 := Run(j.Sc, j.V, &st2)
		if d2 == nil || d2.Detail != d.Detail {
			c.Broken("non-reproducible difference: %v vs %v", d, d2)
			return
		}
		c.Fail(core.Failure{Signature: Signature(j.Sc, d), Detail: d.Error(),
			Scenario: map[string]any{"kind": "SecureChannel", "trace": j.Sc.Trace, "variant": j.V}})
	})
	c.Add("traces_validated_against_impl", conform)
}

func Parse(c *core.Ctx, raws []json.RawMessage) []*Scenario {
	var out []*Scenario
	for _, r := range raws {
		var sc Scenario
		if err := json.Unmarshal(r, &sc); err != nil {
			c.Broken("bad scenario JSON: %v", err)
			return nil
		}
		out = append(out, &sc)
	}
	return out
}

// space runs the scenario once to learn how many concrete members its
// adversary step has under this variant (bits of a field, cut positions).
func AdvSpace(sc *Scenario, v Variant) int {
	var st Stats
	Run(sc, v, &st)
	return st.Space
}

func ReplayFile(c *core.Ctx) bool {
	if c.Replay == "" {
		return false
	}
	b, err := os.ReadFile(c.Replay)
	if err != nil {
		c.Broken("cannot read replay file: %v", err)
		return true
	}
	var rf struct {
		Scenario struct {
			Kind    string  `json:"kind"`
			Trace   []Step  `json:"trace"`
			Variant Variant `json:"variant"`
		} `json:"scenario"`
	}
	if err := json.Unmarshal(b, &rf); err != nil || rf.Scenario.Kind != "SecureChannel" {
		return false
	}
	sc := &Scenario{Trace: rf.Scenario.Trace}
	var st Stats
	ReplayAll(c, []Job{{sc, rf.Scenario.Variant}}, &st)
	return true
}

// ValidateStreamTraces validates hook events against StreamEndpoint_Trace.tla and
// records every rejected object trace as a failure.
func ValidateStreamTraces(c *core.Ctx, evs []strace.Event, strict bool, label string) {
	if len(evs) == 0 {
		return
	}
	groups := strace.Prepare(evs, strict)
	acc, rej := strace.Validate(c, groups, label)
	c.Add("stream_object_traces_validated_by_tlc", int64(acc))
	c.Add("stream_trace_events", int64(len(evs)))
	for _, r := range rej {
		upto := r.Group.Events
		if r.Index+1 < len(upto) {
			upto = upto[:r.Index+1]
		}
		c.Fail(core.Failure{
			Signature: map[string]string{"spec": "StreamEndpoint", "action": fmtEv(r.Event), "class": "trace-rejected", "source": label},
			Detail:    "TLC cannot explain event " + fmtEv(r.Event) + " of a real stream object by any StreamEndpoint action (logged post-state differs from the specification's)",
			Scenario:  map[string]any{"kind": "StreamTrace", "events": upto},
		})
	}
}

func fmtEv(e strace.Event) string { s, _ := e["ev"].(string); return s }

// ValidateRepoTestTraces runs the repository's own tests of the given packages
// with the hooks on and validates every stream object's trace. Unknown frame
// origins (hand-made test vectors) are not judged.
func ValidateRepoTestTraces(c *core.Ctx, pkgs ...string) {
	evs, err := strace.RunRepoTests(c, pkgs...)
	if err != nil {
		c.Broken("cannot collect repository test traces: %v", err)
		return
	}
	if len(evs) == 0 {
		c.Broken("repository tests with hooks on produced no trace events")
		return
	}
	c.Add("repo_test_trace_events", int64(len(evs)))
	ValidateStreamTraces(c, evs, false, "repo-tests")
}
