// Package chanreplay replays behaviours of spec/SecureChannel.tla (as printed by
// Gen_SecureChannel) into two real stream.Stream objects joined by an in-memory
// wire the harness can edit, and compares after every step the projection of
// the real state / return values with the specification's (DESIGN.md §3, C02,
// C12, C15).
package chanreplay

import (
	"bytes"
	"context"
	"crypto/sha256"
	"encoding/binary"
	"encoding/json"
	"fmt"

	"cedarverif/internal/refcodec"
	"cedarverif/internal/wire"

	"github.com/bbockelm/cedar/message"
	"github.com/bbockelm/cedar/stream"
)

type FrameObs struct {
	Prot  bool   `json:"prot"`
	HasIV bool   `json:"hasIV"`
	Ctr   int    `json:"ctr"`
	Dig   bool   `json:"dig"`
	End   int    `json:"end"`
	ID    [2]int `json:"id"`
}

type Step struct {
	A       string          `json:"a"`
	D       string          `json:"d,omitempty"`
	E       string          `json:"e,omitempty"`
	Api     string          `json:"api,omitempty"`
	Exp     string          `json:"exp,omitempty"`
	St      string          `json:"st,omitempty"`
	Msg     [][2]int        `json:"msg,omitempty"`
	Op      string          `json:"op,omitempty"`
	I       int             `json:"i,omitempty"`
	J       int             `json:"j,omitempty"`
	Fld     string          `json:"fld,omitempty"`
	Lc      string          `json:"lc,omitempty"`
	Fault   string          `json:"fault,omitempty"`
	End     int             `json:"end,omitempty"`
	Frame   *FrameObs       `json:"frame,omitempty"`
	BaseEnc bool            `json:"baseEnc,omitempty"`
	Pre     map[string]int  `json:"pre,omitempty"`
	Ctr     json.RawMessage `json:"ctr,omitempty"`
	MaxCtr  int             `json:"maxCtr,omitempty"`
}

type Scenario struct {
	Trace []Step `json:"trace"`
}

// Variant selects the concrete members of the abstract classes of a scenario.
type Variant struct {
	RecvAPI  int  `json:"recvApi"`  // which real API realises the model's "complete" receive (0..3)
	SizePlan int  `json:"sizePlan"` // payload size plan
	RefSend  bool `json:"refSend"`  // frames are sealed by the reference codec instead of the real sender
	Bit      int  `json:"bit"`      // for Adv flip: index into the field's bits; for trunc: cut position index
	Salt     int  `json:"salt"`
}

// Diff is a conformance difference.
type Diff struct {
	StepIdx int
	Step    Step
	Detail  string
	Class   string // refinement for the signature (e.g. inject length class)
}

func (d *Diff) Error() string { return fmt.Sprintf("step %d %s: %s", d.StepIdx, d.Step.A, d.Detail) }

type wframe struct {
	raw []byte
	id  [2]int
}

type endpoint struct {
	name string
	conn *wire.BufConn
	st   *stream.Stream
	// buffered-API bookkeeping: bytes the application wrote that have not left yet
	buf []byte
}

type pending struct {
	api    string
	active bool
}

type world struct {
	v      Variant
	key    []byte
	ep     map[string]*endpoint
	wire   map[string][]wframe // frames in flight, not yet handed to the receiver's conn
	closed map[string]bool
	plain  map[string]map[[2]int][]byte // direction -> frame id -> plaintext the app wrote
	pend   map[string]*pending
	// reference knowledge per direction (never read from the implementation)
	dirIV    map[string][16]byte
	ivKnown  map[string]bool
	sentDig  map[string][32]byte // digest of cleartext sent in this direction before the key
	startCtr map[string]int
	maxCtr   int
	baseEnc  bool
	sealer   map[string]*refcodec.Sealer
	seenIVs  map[[16]byte]bool
	frameNo  map[string]int
	stats    *Stats
}

type Stats struct {
	FramesOpenedByRef int64
	RefFramesAccepted int64
	RealCalls         int64
	// Space is the number of concrete members of the abstract class of the last
	// adversary step (bits of the field, cut positions, ...).
	Space int
}

func other(d string) string {
	if d == "ab" {
		return "ba"
	}
	return "ab"
}
func snd(d string) string { return d[:1] }
func rcv(d string) string { return d[1:] }
func outDir(e string) string {
	if e == "a" {
		return "ab"
	}
	return "ba"
}

func payload(d string, id [2]int, n int, salt int) []byte {
	out := make([]byte, 0, n)
	var ctr uint32
	for len(out) < n {
		var seed [32]byte
		copy(seed[:], fmt.Sprintf("%s/%d/%d/%d/%d", d, id[0], id[1], salt, ctr))
		h := sha256.Sum256(seed[:])
		out = append(out, h[:]...)
		ctr++
	}
	out = out[:n]
	for i := range out { // no NUL bytes so the same payload works for secrets
		if out[i] == 0 {
			out[i] = 1
		}
	}
	return out
}

// size plan for a plain (sub-threshold) write of frame id.
func (w *world) size(d string, id [2]int) int {
	k := id[0]*7 + id[1]*3 + len(d)
	switch w.v.SizePlan % 4 {
	case 0:
		return 1 + k%23
	case 1: // includes empty frames
		if (id[0]+id[1])%2 == 0 {
			return 0
		}
		return 1 + k%5
	case 2:
		return 200 + 97*(k%17)
	default:
		return 15 + k%3 // around the tag / IV sizes
	}
}

func (w *world) realCtr(d string, model int) uint32 {
	if w.startCtr[d] == 0 {
		return uint32(model)
	}
	return 0xffffffff - uint32(w.maxCtr-model)
}

var ctxBG = context.Background()

// OnRefSend, when set, is told about every frame built by the reference sealer
// (so that trace validation can recognise its origin).
var OnRefSend func(raw, key []byte, ctr uint32, prot bool)

// Run replays one scenario under one variant. It returns nil if the real code
// conformed at every step.
func Run(sc *Scenario, v Variant, st *Stats) (diff *Diff) {
	w := &world{v: v, ep: map[string]*endpoint{}, wire: map[string][]wframe{}, closed: map[string]bool{},
		plain: map[string]map[[2]int][]byte{"ab": {}, "ba": {}}, pend: map[string]*pending{"ab": {}, "ba": {}},
		dirIV: map[string][16]byte{}, ivKnown: map[string]bool{}, sentDig: map[string][32]byte{},
		startCtr: map[string]int{}, sealer: map[string]*refcodec.Sealer{}, seenIVs: map[[16]byte]bool{},
		frameNo: map[string]int{}, stats: st}
	w.key = payload("key", [2]int{v.Salt, 0}, 32, v.Salt)
	for i, s := range sc.Trace {
		var d *Diff
		func() {
			defer func() {
				if r := recover(); r != nil {
					d = &Diff{Detail: fmt.Sprintf("panic in real code: %v", r)}
				}
			}()
			d = w.step(s)
		}()
		if d != nil {
			d.StepIdx = i
			d.Step = s
			return d
		}
	}
	return nil
}

func (w *world) init(s Step) *Diff {
	var ctr map[string]int
	if err := json.Unmarshal(s.Ctr, &ctr); err != nil {
		return &Diff{Detail: "bad Init.ctr: " + err.Error()}
	}
	w.startCtr = ctr
	w.maxCtr = s.MaxCtr
	w.baseEnc = s.BaseEnc
	imported := ctr["ab"] > 0 || ctr["ba"] > 0
	ca, cb := wire.NewBufConn("a"), wire.NewBufConn("b")
	w.ep["a"] = &endpoint{name: "a", conn: ca}
	w.ep["b"] = &endpoint{name: "b", conn: cb}
	// cleartext prefix: defines the digests
	tr := map[string]*refcodec.Transcript{"ab": {}, "ba": {}}
	// cleartext prefix frames of every shape: ordinary, all empty, large, empty-then-data
	preData := func(d string, i int) []byte {
		n := 5 + 3*i
		switch w.v.SizePlan % 4 {
		case 1:
			n = 0
		case 2:
			n = 300 + 211*i
		case 3:
			if i == 0 {
				n = 0
			} else {
				n = 7
			}
		}
		return payload("pre"+d, [2]int{i, 0}, n, w.v.Salt)
	}
	if !imported {
		w.ep["a"].st = stream.NewStream(ca)
		w.ep["b"].st = stream.NewStream(cb)
		for _, d := range []string{"ab", "ba"} {
			for i := 0; i < s.Pre[d]; i++ {
				data := preData(d, i)
				if err := w.ep[snd(d)].st.SendMessage(ctxBG, data); err != nil {
					return &Diff{Detail: "cleartext send failed: " + err.Error()}
				}
				raw := w.ep[snd(d)].conn.TakeOut()
				w.ep[rcv(d)].conn.Feed(raw)
				got, err := w.ep[rcv(d)].st.ReceiveCompleteMessage(ctxBG)
				if err != nil || !bytes.Equal(got, data) {
					return &Diff{Detail: fmt.Sprintf("cleartext receive: %v", err)}
				}
				tr[d].AddFrame(1, data)
			}
		}
		for _, e := range []string{"a", "b"} {
			if err := w.ep[e].st.SetSymmetricKey(w.key); err != nil {
				return &Diff{Detail: "SetSymmetricKey: " + err.Error()}
			}
			if !s.BaseEnc {
				w.ep[e].st.SetEncrypted(false)
			}
		}
	} else {
		// imported state: the digests are those of a virtual cleartext prefix
		for _, d := range []string{"ab", "ba"} {
			for i := 0; i < s.Pre[d]; i++ {
				tr[d].AddFrame(1, preData(d, i))
			}
		}
	}
	for _, d := range []string{"ab", "ba"} {
		w.sentDig[d] = tr[d].Sum()
	}
	if imported {
		ivs := map[string][16]byte{}
		for _, d := range []string{"ab", "ba"} {
			var iv [16]byte
			copy(iv[:], payload("iv"+d, [2]int{w.v.Salt, 1}, 16, w.v.Salt))
			// leading word near the top so that base+counter also exercises the word's wrap-around
			binary.BigEndian.PutUint32(iv[:4], 0xfffffff0)
			ivs[d] = iv
			if ctr[d] > 0 {
				w.dirIV[d] = iv
				w.ivKnown[d] = true
			}
		}
		for _, e := range []string{"a", "b"} {
			o, in := outDir(e), other(outDir(e))
			// exactly what ExportCryptoState can produce: both directions past
			// their first protected frame, both digests present
			flags := byte(refcodec.FlagFinishedSendAAD | refcodec.FlagFinishedRecvAAD)
			if s.BaseEnc {
				flags |= refcodec.FlagEncrypted
			}
			sd, rd := w.sentDig[o], w.sentDig[in]
			blob := refcodec.CryptoBlob{Flags: flags, Key: w.key, EncIV: ivs[o], DecIV: ivs[in],
				EncCtr: w.realCtr(o, ctr[o]), DecCtr: w.realCtr(in, ctr[in]),
				SendDig: sd[:], RecvDig: rd[:], Peer: "<10.0.0.1:9618>"}
			if s.Pre[o] > 0 {
				blob.Flags |= refcodec.FlagSendDigestWritten
			}
			if s.Pre[in] > 0 {
				blob.Flags |= refcodec.FlagRecvDigestWritten
			}
			stt, err := stream.NewStreamWithCryptoState(w.ep[e].conn, blob.Encode())
			if err != nil {
				return &Diff{Detail: "import of reference-built blob refused: " + err.Error()}
			}
			if !s.BaseEnc {
				stt.SetEncrypted(false)
			}
			w.ep[e].st = stt
		}
	}
	if w.v.RefSend {
		for _, d := range []string{"ab", "ba"} {
			var iv [16]byte
			if w.ivKnown[d] {
				iv = w.dirIV[d]
			} else {
				copy(iv[:], payload("refiv"+d, [2]int{w.v.Salt, 2}, 16, w.v.Salt))
			}
			sl := refcodec.NewSealer(w.key, iv, w.sentDig[d], w.sentDig[other(d)])
			if ctr[d] > 0 {
				sl.Ctr = w.realCtr(d, ctr[d])
				sl.First = false
			}
			w.sealer[d] = sl
		}
	}
	return nil
}

// checkFrame is the C12 binding: the frame the real sender emitted must be what
// an independent implementation of the documented format expects, using the
// (IV presence, counter, AAD kind) predicted by the MODEL state.
func (w *world) checkFrame(d string, raw []byte, f *FrameObs, want []byte) *Diff {
	frames, rest := refcodec.ParseFrames(raw)
	if len(frames) != 1 || len(rest) != 0 {
		return &Diff{Detail: fmt.Sprintf("expected exactly one frame on the wire, got %d (+%d stray bytes)", len(frames), len(rest))}
	}
	fr := frames[0]
	if int(fr.End) != f.End {
		return &Diff{Detail: fmt.Sprintf("end flag %d, model %d", fr.End, f.End)}
	}
	if len(fr.Body) > refcodec.MaxFrame {
		return &Diff{Detail: "frame exceeds the frame limit"}
	}
	if !f.Prot {
		if !bytes.Equal(fr.Body, want) {
			return &Diff{Detail: "cleartext frame body differs from what the application wrote"}
		}
		return nil
	}
	body := fr.Body
	iv := w.dirIV[d]
	if f.HasIV {
		if len(body) < 16 {
			return &Diff{Detail: "first protected frame too short to carry the base IV"}
		}
		copy(iv[:], body[:16])
		if w.startCtr[d] == 0 || !w.ivKnown[d] {
			if w.seenIVs[iv] {
				return &Diff{Detail: "base IV repeated across directions/sessions", Class: "iv-reuse"}
			}
		}
		w.seenIVs[iv] = true
		w.dirIV[d] = iv
		w.ivKnown[d] = true
	}
	op := refcodec.NewOpener(w.key, w.sentDig[d], w.sentDig[other(d)])
	op.IV = iv
	op.Ctr = w.realCtr(d, f.Ctr)
	op.First = f.Dig
	if f.HasIV != (op.Ctr == 0) {
		return &Diff{Detail: "model inconsistency: hasIV without counter 0"}
	}
	pt, err := op.Open(fr)
	if err != nil {
		return &Diff{Detail: fmt.Sprintf("reference decryptor cannot open frame (model: hasIV=%v ctr=%d digests=%v): %v", f.HasIV, f.Ctr, f.Dig, err), Class: "format"}
	}
	if !bytes.Equal(pt, want) {
		return &Diff{Detail: "protected frame opens to different plaintext than the application wrote"}
	}
	w.stats.FramesOpenedByRef++
	return nil
}

// send performs one real (or reference) send producing frame id; call is the
// real API invocation; want is the plaintext the frame must carry.
func (w *world) send(s Step, id [2]int, want []byte, end byte, prot bool, call func() error) *Diff {
	d := s.D
	if w.v.RefSend {
		// reference sender: build the frame the documented format prescribes
		if s.Exp == "refused" {
			return nil
		}
		var raw []byte
		if prot {
			ctr := w.sealer[d].Ctr
			raw = w.sealer[d].Seal(end, want).Encode()
			if OnRefSend != nil {
				OnRefSend(raw, w.key, ctr, true)
			}
		} else {
			raw = refcodec.Frame{End: end, Body: want}.Encode()
			if OnRefSend != nil {
				OnRefSend(raw, w.key, 0, false)
			}
		}
		w.plain[d][id] = want
		w.wire[d] = append(w.wire[d], wframe{raw: raw, id: id})
		return nil
	}
	err := call()
	w.stats.RealCalls++
	raw := w.ep[snd(d)].conn.TakeOut()
	if s.Exp == "refused" {
		if err == nil {
			return &Diff{Detail: "send at the counter limit succeeded (model: refused)", Class: "wrap"}
		}
		if len(raw) != 0 {
			return &Diff{Detail: "refused send still put bytes on the wire", Class: "wrap"}
		}
		return nil
	}
	if err != nil {
		return &Diff{Detail: "send failed: " + err.Error()}
	}
	if s.Frame == nil {
		return &Diff{Detail: "scenario lacks frame prediction"}
	}
	if dd := w.checkFrame(d, raw, s.Frame, want); dd != nil {
		return dd
	}
	w.plain[d][id] = want
	w.wire[d] = append(w.wire[d], wframe{raw: raw, id: id})
	return nil
}

func (w *world) feedAll(d string) {
	for _, f := range w.wire[d] {
		w.ep[rcv(d)].conn.Feed(f.raw)
	}
	w.wire[d] = nil
}

func (w *world) expected(d string, ids [][2]int) []byte {
	var b []byte
	for _, id := range ids {
		b = append(b, w.plain[d][id]...)
	}
	return b
}

func (w *world) step(s Step) *Diff {
	switch s.A {
	case "Init":
		return w.init(s)
	case "StartDirect":
		return nil
	case "SendPartial", "SendFinal":
		id := s.frameID(w, s.D)
		data := payload(s.D, id, w.size(s.D, id), w.v.Salt)
		e := w.ep[snd(s.D)]
		if s.A == "SendPartial" {
			return w.send(s, id, data, 0, w.baseEnc, func() error { return e.st.SendPartialMessage(ctxBG, data) })
		}
		return w.send(s, id, data, 1, w.baseEnc, func() error { return e.st.SendMessage(ctxBG, data) })
	case "PutSecret":
		id := s.frameID(w, s.D)
		n := w.size(s.D, id)
		data := payload(s.D, id, n, w.v.Salt)
		e := w.ep[snd(s.D)]
		want := append(append([]byte(nil), data...), 0)
		return w.send(s, id, want, 1, true, func() error { return e.st.PutSecret(ctxBG, string(data)) })
	case "StartMsg":
		e := w.ep[snd(s.D)]
		if !w.v.RefSend {
			e.st.StartMessage()
		}
		e.buf = nil
		return nil
	case "WriteBuf":
		e := w.ep[snd(s.D)]
		id := [2]int{-1, len(e.buf)}
		n := w.size(s.D, [2]int{7, len(e.buf) % 5})
		if n == 0 {
			n = 1 // the model's WriteBuf makes the buffer non-empty
		}
		data := payload(s.D+"buf", id, n, w.v.Salt)
		e.buf = append(e.buf, data...)
		if w.v.RefSend {
			return nil
		}
		if err := e.st.WriteMessage(ctxBG, data); err != nil {
			return &Diff{Detail: "WriteMessage failed: " + err.Error()}
		}
		if raw := e.conn.TakeOut(); len(raw) != 0 {
			return &Diff{Detail: "sub-threshold WriteMessage put bytes on the wire"}
		}
		return nil
	case "WriteFlush":
		e := w.ep[snd(s.D)]
		id := s.frameID(w, s.D)
		data := payload(s.D+"flush", id, stream.DefaultFrameThreshold+w.size(s.D, id), w.v.Salt)
		want := append(append([]byte(nil), e.buf...), data...)
		e.buf = nil
		return w.send(s, id, want, 0, w.baseEnc, func() error { return e.st.WriteMessage(ctxBG, data) })
	case "EndMsg":
		e := w.ep[snd(s.D)]
		id := s.frameID(w, s.D)
		want := append([]byte(nil), e.buf...)
		e.buf = nil
		return w.send(s, id, want, 1, w.baseEnc, func() error { return e.st.EndMessage(ctxBG) })
	case "CloseWire":
		w.closed[s.D] = true
		return nil
	case "Adv":
		return w.adversary(s)
	case "CallRecv":
		w.feedAll(s.D)
		w.pend[s.D] = &pending{api: s.Api, active: true}
		return nil
	case "RecvStep":
		w.feedAll(s.D) // bytes that arrived meanwhile sit in the connection's buffer
		if s.St == "more" {
			return nil
		}
		return w.recv(s)
	case "EndRead":
		e := w.ep[rcv(s.D)]
		want := w.expected(s.D, s.Msg)
		got := make([]byte, 0, len(want))
		for len(got) < len(want) {
			buf := make([]byte, len(want)-len(got))
			n, err := e.st.ReadMessageBytes(ctxBG, buf)
			if err != nil {
				return &Diff{Detail: "ReadMessageBytes failed: " + err.Error()}
			}
			if n == 0 {
				break
			}
			got = append(got, buf[:n]...)
		}
		if !bytes.Equal(got, want) {
			return &Diff{Detail: fmt.Sprintf("ReadMessageBytes returned %d bytes differing from the %d sent", len(got), len(want))}
		}
		if err := e.st.EndMessageRead(); err != nil {
			return &Diff{Detail: "EndMessageRead: " + err.Error()}
		}
		return nil
	case "Handoff":
		e := w.ep[s.E]
		blob, err := e.st.ExportCryptoState()
		w.stats.RealCalls++
		switch s.Exp {
		case "ok":
			if err != nil {
				return &Diff{Detail: "export refused at a clean boundary: " + err.Error(), Class: "refused-clean"}
			}
		case "refused":
			if err == nil {
				return &Diff{Detail: "export succeeded although the endpoint is not clean / not established", Class: "exported-dirty"}
			}
			return nil
		default:
			if err != nil {
				return nil
			}
		}
		ns, err := stream.NewStreamWithCryptoState(e.conn, blob)
		if err != nil {
			return &Diff{Detail: "import of a freshly exported blob failed: " + err.Error(), Class: "import"}
		}
		e.st = ns
		return nil
	case "HandoffBad":
		e := w.ep[s.E]
		blob, err := e.st.ExportCryptoState()
		w.stats.RealCalls++
		if err != nil {
			return &Diff{Detail: "export refused at a clean boundary: " + err.Error(), Class: "refused-clean"}
		}
		bad := append([]byte(nil), blob...)
		switch s.Fault {
		case "trunc":
			w.stats.Space = len(blob)
			bad = bad[:w.v.Bit%len(blob)]
		case "magic":
			w.stats.Space = 4 * 255
			bad[(w.v.Bit/255)%4] ^= byte(1 + w.v.Bit%255)
		case "version":
			w.stats.Space = 2 * 255
			bad[4+(w.v.Bit/255)%2] ^= byte(1 + w.v.Bit%255)
		}
		if _, err := stream.NewStreamWithCryptoState(wire.NewBufConn("x"), bad); err == nil {
			return &Diff{Detail: fmt.Sprintf("import accepted a damaged blob (%s, variant %d)", s.Fault, w.v.Bit), Class: "bad-blob-" + s.Fault}
		}
		return nil
	}
	return &Diff{Detail: "unknown step " + s.A}
}

// frameID derives the id of the frame the next emit produces from the model's
// prediction (or counts locally when the send is refused).
func (s Step) frameID(w *world, d string) [2]int {
	if s.Frame != nil {
		id := s.Frame.ID
		if id[1] < 0 {
			id[1] = -id[1]
		}
		return id
	}
	w.frameNo[d]++
	return [2]int{1000, w.frameNo[d]}
}

func (w *world) recv(s Step) *Diff {
	d := s.D
	e := w.ep[rcv(d)]
	p := w.pend[d]
	if p == nil || !p.active {
		return &Diff{Detail: "RecvStep without CallRecv"}
	}
	p.active = false
	w.stats.RealCalls++
	want := w.expected(d, s.Msg)
	var got []byte
	var err error
	api := p.api
	if api == "complete" {
		switch w.v.RecvAPI % 4 {
		case 0:
			got, err = e.st.ReceiveCompleteMessage(ctxBG)
		case 1:
			err = e.st.StartMessageRead(ctxBG)
			if err == nil && s.St == "msg" {
				got = make([]byte, 0, len(want))
				for len(got) < len(want) {
					buf := make([]byte, len(want)-len(got))
					var n int
					n, err = e.st.ReadMessageBytes(ctxBG, buf)
					if err != nil || n == 0 {
						break
					}
					got = append(got, buf[:n]...)
				}
				if err == nil {
					err = e.st.EndMessageRead()
				}
			}
		case 2:
			m := message.NewMessageFromStream(e.st)
			got, err = m.GetRemainingBytes(ctxBG)
		case 3:
			for {
				var fr []byte
				var eom bool
				fr, eom, err = e.st.ReadFrame(ctxBG)
				if err != nil {
					break
				}
				got = append(got, fr...)
				if eom {
					break
				}
			}
		}
	} else if api == "start" {
		err = e.st.StartMessageRead(ctxBG)
		if s.St == "inmsg" {
			if err != nil {
				return &Diff{Detail: "StartMessageRead failed: " + err.Error()}
			}
			return nil
		}
	} else if api == "secret" {
		var str string
		str, err = e.st.GetSecret(ctxBG)
		got = []byte(str)
		if len(want) > 0 && want[len(want)-1] == 0 {
			want = want[:len(want)-1]
		}
	}
	switch s.St {
	case "err":
		if err == nil {
			return &Diff{Detail: fmt.Sprintf("receive returned %d bytes without error; the model (authentic in-order prefix) requires an error here", len(got)), Class: "accepted"}
		}
	case "msg":
		if err != nil {
			return &Diff{Detail: "receive failed on an authentic in-order message: " + err.Error(), Class: "rejected"}
		}
		if !bytes.Equal(got, want) {
			return &Diff{Detail: fmt.Sprintf("received %d bytes that differ from the %d-byte message sent", len(got), len(want)), Class: "altered"}
		}
		if w.v.RefSend {
			w.stats.RefFramesAccepted++
		}
	}
	return nil
}

func flipRange(f []byte, fld string, hasIV bool) (lo, hi int) {
	switch fld {
	case "end":
		return 0, 1
	case "len":
		return 1, 5
	case "iv":
		return 5, 21
	case "tag":
		return len(f) - 16, len(f)
	case "ct":
		lo = 5
		if hasIV {
			lo = 21
		}
		return lo, len(f) - 16
	}
	return 0, 0
}

// FlipBits reports how many concrete bit positions the field has in the frame.
func FlipBits(raw []byte, fld string, hasIV bool) int {
	lo, hi := flipRange(raw, fld, hasIV)
	if hi <= lo {
		return 0
	}
	return (hi - lo) * 8
}

func (w *world) adversary(s Step) *Diff {
	d := s.D
	fr := w.wire[d]
	i := s.I - 1
	cp := func(f wframe) wframe { return wframe{raw: append([]byte(nil), f.raw...), id: f.id} }
	ins := func(pos int, f wframe) {
		fr = append(fr, wframe{})
		copy(fr[pos+1:], fr[pos:])
		fr[pos] = f
	}
	switch s.Op {
	case "drop":
		fr = append(fr[:i:i], fr[i+1:]...)
	case "dup":
		ins(i+1, cp(fr[i]))
	case "swap":
		fr[i], fr[i+1] = fr[i+1], fr[i]
	case "replay":
		ins(s.J, cp(fr[i]))
	case "trunc":
		raw := fr[i].raw
		w.stats.Space = len(raw)
		cut := w.v.Bit % len(raw) // keep 0..len-1 bytes
		fr = append(fr[:i:i], wframe{raw: raw[:cut], id: fr[i].id})
	case "flip":
		f := cp(fr[i])
		hasIV := w.frameIsFirst(d, f)
		lo, hi := flipRange(f.raw, s.Fld, hasIV)
		if hi <= lo {
			return &Diff{Detail: "skip"} // no concrete member (empty ciphertext); caller filters
		}
		w.stats.Space = (hi - lo) * 8
		bit := w.v.Bit % ((hi - lo) * 8)
		f.raw[lo+bit/8] ^= 1 << (bit % 8)
		fr[i] = f
	case "inject":
		var body []byte
		switch s.Lc {
		case "0":
		case "short":
			body = payload("inj", [2]int{s.I, w.v.Bit}, 1+w.v.Bit%15, w.v.Salt)
		default:
			body = payload("inj", [2]int{s.I, w.v.Bit}, 16+w.v.Bit%40, w.v.Salt)
		}
		ins(i, wframe{raw: refcodec.Frame{End: byte(s.End), Body: body}.Encode(), id: [2]int{0, 0}})
	default:
		return &Diff{Detail: "unknown adversary op " + s.Op}
	}
	w.wire[d] = fr
	return nil
}

// frameIsFirst: does this raw frame carry the base IV (it is the first protected
// frame of its direction)? Known from the reference bookkeeping: its body starts
// with the direction's base IV.
func (w *world) frameIsFirst(d string, f wframe) bool {
	iv := w.dirIV[d]
	if w.v.RefSend {
		iv = w.sealer[d].IV
	}
	return len(f.raw) >= 21 && bytes.Equal(f.raw[5:21], iv[:])
}

// HasIVFrame is used by the expansion code: does frame index i (1-based) of the
// sender script carry an IV? True only for the very first protected frame.
func IsSkip(d *Diff) bool { return d != nil && d.Detail == "skip" }

// AdvStep returns the adversary step of the scenario, if any.
func (sc *Scenario) AdvStep() *Step {
	for i := range sc.Trace {
		if sc.Trace[i].A == "Adv" {
			return &sc.Trace[i]
		}
	}
	return nil
}

// Signature builds the abstract signature of a failure (KNOWN_FINDINGS match).
func Signature(sc *Scenario, d *Diff) map[string]string {
	sig := map[string]string{"spec": "SecureChannel", "action": d.Step.A}
	if d.Class != "" {
		sig["class"] = d.Class
	}
	if a := sc.AdvStep(); a != nil {
		sig["adv"] = a.Op
		if a.Fld != "" {
			sig["field"] = a.Fld
		}
		if a.Lc != "" {
			sig["lenClass"] = a.Lc
		}
	}
	if d.Step.A == "HandoffBad" {
		sig["fault"] = d.Step.Fault
	}
	if d.Step.A == "Handoff" {
		sig["exp"] = d.Step.Exp
	}
	return sig
}

// HasStep reports whether the scenario contains a step with the given action.
func (sc *Scenario) HasStep(a string) *Step {
	for i := range sc.Trace {
		if sc.Trace[i].A == a {
			return &sc.Trace[i]
		}
	}
	return nil
}
