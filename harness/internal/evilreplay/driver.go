package evilreplay

import (
	"encoding/json"
	"fmt"
	"os"
	"sort"
	"sync"

	"cedarverif/internal/core"
)

// Stats counts what the replay covered.
type Stats struct {
	Groups, Executed, Success, Aborts, Skipped, Timeouts, Unobserved int64
	HonestSuccess                                                    map[string]int64 // role/mode -> successes of the honest peer
	ByDeviation                                                      map[string]int64
	SuccessByDeviation                                               map[string]int64
	MethodWithoutAuth                                                int64 // observation: NegotiatedAuth names a method although Authentication=false
}

type failure struct {
	g   *Group
	d   *Diff
	o   Obs
	key string
}

// ReplayAll executes every group against the real code (in parallel, order
// shuffled by the seed), confirms each difference by an immediate second run
// and records one failure per signature.
func ReplayAll(c *core.Ctx, groups []*Group) *Stats {
	st := &Stats{HonestSuccess: map[string]int64{}, ByDeviation: map[string]int64{}, SuccessByDeviation: map[string]int64{}}
	st.Groups = int64(len(groups))
	order := c.Rand("c03-order").Perm(len(groups))
	var mu sync.Mutex
	var fails []failure
	conform := int64(0)
	core.ParallelFor(len(groups), 16, func(i int) {
		g := groups[order[i]]
		o := Run(g)
		d, mach := Check(g, o)
		if mach != "" { // not a verdict about the code: look again before giving up
			o = Run(g)
			d, mach = Check(g, o)
			if mach != "" {
				c.Broken("%s", mach)
				return
			}
		}
		mu.Lock()
		if o.Skip != "" {
			st.Skipped++
			mu.Unlock()
			return
		}
		st.Executed++
		dn := devName(g.Devs)
		st.ByDeviation[dn]++
		if o.TimedOut {
			st.Timeouts++
		}
		if o.Outcome.Ok {
			st.Success++
			st.SuccessByDeviation[dn]++
			if len(g.Devs) == 0 {
				st.HonestSuccess[g.Cfg.Role+"/"+g.Cfg.Mode]++
			}
			if o.AppClass == "unobserved" {
				st.Unobserved++
			}
			if !o.Outcome.Resumed && !o.Outcome.Auth && o.Outcome.Method != "NONE" {
				st.MethodWithoutAuth++
			}
		} else {
			st.Aborts++
		}
		mu.Unlock()
		c.Eval(g.Key(), true)
		if d == nil {
			mu.Lock()
			conform++
			mu.Unlock()
			return
		}
		o2 := Run(g)
		d2, _ := Check(g, o2)
		if d2 == nil || d2.Invariant != d.Invariant {
			c.Broken("non-reproducible difference for %s: %v, then %v", g.Key(), d, d2)
			return
		}
		mu.Lock()
		fails = append(fails, failure{g, d, o, g.Key()})
		mu.Unlock()
	})
	c.Add("traces_validated_against_impl", conform)
	// one failure per signature, the smallest scenario first (stable across seeds)
	sort.Slice(fails, func(i, j int) bool { return fails[i].key < fails[j].key })
	seen := map[string]int{}
	for _, f := range fails {
		sig := Signature(f.g, f.d)
		k := fmt.Sprint(sig)
		seen[k]++
		if seen[k] > 1 {
			continue
		}
		c.Fail(core.Failure{Signature: sig, Detail: f.d.Detail,
			Scenario: map[string]any{"kind": "HandshakeEvil", "group": f.g, "observed": f.o}})
	}
	c.Set("failing_scenarios", len(fails))
	c.Set("failing_signatures", len(seen))
	return st
}

// ReplayFile re-runs the scenario of a recorded failure.
func ReplayFile(c *core.Ctx) bool {
	if c.Replay == "" {
		return false
	}
	b, err := os.ReadFile(c.Replay)
	if err != nil {
		c.Broken("cannot read replay file: %v", err)
		return true
	}
	var rf struct {
		Scenario struct {
			Kind  string `json:"kind"`
			Group *Group `json:"group"`
		} `json:"scenario"`
	}
	if err := json.Unmarshal(b, &rf); err != nil || rf.Scenario.Kind != "HandshakeEvil" || rf.Scenario.Group == nil {
		c.Broken("not a HandshakeEvil replay file")
		return true
	}
	st := ReplayAll(c, []*Group{rf.Scenario.Group})
	c.Set("replayed", st.Executed)
	return true
}
