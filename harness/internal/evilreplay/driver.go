package evilreplay

import (
	"encoding/json"
	"fmt"
	"os"
	"sort"
	"sync"

	"cedarverif/internal/core"
)

// Stats counts what the replay covered.
type Stats struct {
	Jobs, Groups, Executed, Success, Aborts, Skipped, Timeouts, Unobserved int64
	HonestSuccess                                                          map[string]int64 // role/mode -> successes of the honest peer
	ByDeviation                                                            map[string]int64
	SuccessByDeviation                                                     map[string]int64
	MethodWithoutAuth                                                      int64 // observation: NegotiatedAuth names a method although Authentication=false
}

type failure struct {
	form string
	g    *Group
	d    *Diff
	o    Obs
	key  string
	rel  []*Group
}

func subset(a, b []string) bool {
	for _, x := range a {
		if !contains(b, x) {
			return false
		}
	}
	return true
}

func cfgKey(c Cfg) string {
	a, _ := json.Marshal(c)
	return string(a)
}

// ReplayAll executes every group against the real code (in parallel, order
// shuffled by the seed), confirms each difference by an immediate second run
// and records one failure per signature.
func ReplayAll(c *core.Ctx, groups []*Group) *Stats { return replayAll(c, groups, "") }

// replayAll: only != "" restricts the run to groups[0] with that answer form
// ("-" = the plain form); the other groups serve as lookup targets (replay files).
func replayAll(c *core.Ctx, groups []*Group, only string) *Stats {
	st := &Stats{HonestSuccess: map[string]int64{}, ByDeviation: map[string]int64{}, SuccessByDeviation: map[string]int64{}}
	st.Groups = int64(len(groups))
	type job struct {
		g    *Group
		form string
	}
	var jobs []job
	for _, g := range groups {
		jobs = append(jobs, job{g, ""})
		if g.HasForms() && only == "" {
			for _, f := range Forms[1:] {
				jobs = append(jobs, job{g, f})
			}
		}
	}
	if only != "" {
		jobs = []job{{groups[0], only}}
		if only == "-" {
			jobs[0].form = ""
		}
	}
	order := c.Rand("c03-order").Perm(len(jobs))
	index := map[string]*Group{}
	byCfg := map[string][]*Group{}
	for _, g := range groups {
		index[g.Key()] = g
		byCfg[cfgKey(g.Cfg)] = append(byCfg[cfgKey(g.Cfg)], g)
	}
	lookup := func(cf Cfg, devs []string) *Group {
		return index[(&Group{Cfg: cf, Devs: devs}).Key()]
	}
	var mu sync.Mutex
	var fails []failure
	conform := int64(0)
	st.Jobs = int64(len(jobs))
	core.ParallelFor(len(jobs), 16, func(i int) {
		g, form := jobs[order[i]].g, jobs[order[i]].form
		o := Run(g, form)
		d, mach := Check(g, o, lookup)
		if mach != "" { // not a verdict about the code: look again before giving up
			o = Run(g, form)
			d, mach = Check(g, o, lookup)
			if mach != "" {
				c.Broken("%s", mach)
				return
			}
		}
		mu.Lock()
		if o.Skip != "" {
			st.Skipped++
			mu.Unlock()
			return
		}
		st.Executed++
		dn := devName(g.Devs)
		st.ByDeviation[dn]++
		if o.TimedOut {
			st.Timeouts++
		}
		if o.Outcome.Ok {
			st.Success++
			st.SuccessByDeviation[dn]++
			if len(g.Devs) == 0 {
				st.HonestSuccess[g.Cfg.Role+"/"+g.Cfg.Mode]++
			}
			if o.AppClass == "unobserved" {
				st.Unobserved++
			}
			if !o.Outcome.Resumed && !o.Outcome.Auth && o.Outcome.Method != "NONE" {
				st.MethodWithoutAuth++
			}
		} else {
			st.Aborts++
		}
		mu.Unlock()
		c.Eval(g.Key()+"/"+form, true)
		if d == nil {
			mu.Lock()
			conform++
			mu.Unlock()
			return
		}
		o2 := Run(g, form)
		d2, _ := Check(g, o2, lookup)
		if d2 == nil || d2.Invariant != d.Invariant {
			c.Broken("non-reproducible difference for %s: %v, then %v", g.Key(), d, d2)
			return
		}
		mu.Lock()
		fails = append(fails, failure{form, g, d, o, g.Key() + "/" + form, nil})
		mu.Unlock()
	})
	c.Add("traces_validated_against_impl", conform)
	// Root deviation: if the same configuration falsifies the same invariant with a
	// subset of the switches (possibly none), the signature names that subset -- the
	// other switches are bystanders.
	failed := map[string]bool{}
	fkey := func(cf Cfg, devs []string, inv, form string) string {
		g := &Group{Cfg: cf, Devs: devs}
		if !g.HasForms() {
			form = ""
		}
		return g.Key() + "/" + inv + "/" + form
	}
	for _, f := range fails {
		failed[fkey(f.g.Cfg, f.g.Devs, f.d.Invariant, f.form)] = true
	}
	root := func(f failure) []string {
		best := f.g.Devs
		n := len(f.g.Devs)
		for mask := 0; mask < 1<<n; mask++ {
			var sub []string
			for i := 0; i < n; i++ {
				if mask&(1<<i) != 0 {
					sub = append(sub, f.g.Devs[i])
				}
			}
			if sub == nil {
				sub = []string{}
			}
			if len(sub) < len(best) && failed[fkey(f.g.Cfg, sub, f.d.Invariant, f.form)] {
				best = sub
			}
		}
		return best
	}
	// one failure per signature, the smallest scenario first (stable across seeds)
	sort.Slice(fails, func(i, j int) bool { return fails[i].key < fails[j].key })
	seen := map[string]int{}
	for _, f := range fails {
		sig := Signature(f.g, f.form, f.d)
		if r := root(f); len(r) != len(f.g.Devs) {
			continue // reported under its root deviation
		}
		k := fmt.Sprint(sig)
		seen[k]++
		if seen[k] > 1 {
			continue
		}
		// the replay file carries the scenario and the scenarios it degenerates to when
		// the peer does not get to use a switch
		for _, og := range byCfg[cfgKey(f.g.Cfg)] {
			if og != f.g && subset(og.Devs, f.g.Devs) {
				f.rel = append(f.rel, og)
			}
		}
		c.Fail(core.Failure{Signature: sig, Detail: f.d.Detail,
			Scenario: map[string]any{"kind": "HandshakeEvil", "group": f.g, "form": f.form, "related": f.rel, "observed": f.o}})
	}
	c.Set("failing_scenarios", len(fails))
	c.Set("failing_signatures", len(seen))
	return st
}

// ReplayFile re-runs the scenario of a recorded failure.
func ReplayFile(c *core.Ctx) bool {
	if c.Replay == "" {
		return false
	}
	b, err := os.ReadFile(c.Replay)
	if err != nil {
		c.Broken("cannot read replay file: %v", err)
		return true
	}
	var rf struct {
		Scenario struct {
			Kind    string   `json:"kind"`
			Group   *Group   `json:"group"`
			Form    string   `json:"form"`
			Related []*Group `json:"related"`
		} `json:"scenario"`
	}
	if err := json.Unmarshal(b, &rf); err != nil || rf.Scenario.Kind != "HandshakeEvil" || rf.Scenario.Group == nil {
		c.Broken("not a HandshakeEvil replay file")
		return true
	}
	form := rf.Scenario.Form
	if form == "" {
		form = "-"
	}
	st := replayAll(c, append([]*Group{rf.Scenario.Group}, rf.Scenario.Related...), form)
	c.Set("replayed", st.Executed)
	return true
}
