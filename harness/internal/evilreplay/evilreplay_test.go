package evilreplay

import "testing"

// Smoke test (run with -race): a handful of hand-written scenarios execute
// against the real code and are judged without machinery problems. It does not
// assert a verdict - that depends on the tree under test.
func TestSmoke(t *testing.T) {
	Quiet()
	abort := Final{Ran: "NONE", PostAuth: "none", Outcome: Outcome{Done: true}}
	ok := func(ran string, auth, enc bool) Final {
		return Final{Ran: ran, KeyE: enc, PostAuth: map[bool]string{true: "sealed", false: "clear"}[enc],
			Outcome: Outcome{Done: true, Ok: true, Auth: auth, Enc: enc, Method: ran}}
	}
	base := Cfg{Role: "client", Auth: "REQUIRED", Enc: "REQUIRED", Integ: "SAME", Methods: []string{"P", "C"}, PeerLvl: "OPTIONAL", Mode: "fresh", Est: "Honest", EstEnc: "REQUIRED", Src: "base"}
	srv := base
	srv.Role = "server"
	hook := srv
	hook.Src = "hook"
	res := base
	res.Mode = "resumed"
	res.Sess = Sess{Authd: true, Keyed: true}
	res.Est, res.EstEnc = "Honest", "REQUIRED"
	groups := []*Group{
		{Cfg: base, Devs: []string{}, Allowed: []Final{abort, ok("C", true, true)}},
		{Cfg: hook, Devs: []string{}, Allowed: []Final{abort, ok("C", true, true)}},
		{Cfg: base, Devs: []string{"AnswerAuthNo", "OmitECDH"}, Allowed: []Final{abort}},
		{Cfg: srv, Devs: []string{"OmitECDH"}, Allowed: []Final{abort}},
		{Cfg: res, Devs: []string{}, Allowed: []Final{abort, {Ran: "NONE", KeyE: true, PostAuth: "none", Outcome: Outcome{Done: true, Ok: true, Auth: true, Enc: true, Method: "ANY", Resumed: true}}}},
	}
	for i, g := range groups {
		o := Run(g, "")
		d, mach := Check(g, o, nil)
		t.Logf("%d %s %v -> %s skip=%q diff=%v", i, g.Cfg.Role, g.Devs, o.Short(), o.Skip, d)
		if mach != "" {
			t.Errorf("machinery: %s", mach)
		}
		if i < 2 && !o.Outcome.Ok {
			t.Errorf("honest handshake failed: %s / peer %s", o.Err, o.PeerErr)
		}
		if i == 4 && (o.Skip != "" || !o.Outcome.Ok || !o.Outcome.Resumed) {
			t.Errorf("resumption did not happen: %+v", o)
		}
	}
}
