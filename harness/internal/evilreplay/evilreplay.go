// Package evilreplay binds spec/HandshakeEvil.tla (property C03) to the real
// code: every (configuration, deviation set) TLC enumerated is executed as a
// real handshake of security.Authenticator against the scripted internal/peer,
// and the projection of what really happened -- return value, reported flags,
// Stream.IsEncrypted, which exchange the peer saw complete, whether the bytes
// the endpoint wrote afterwards are protected (decided by the reference
// codec) -- must be one of the terminal states the specification allows for
// that scenario.
package evilreplay

import (
	"context"
	"encoding/json"
	"fmt"
	"io"
	"log/slog"
	"sort"
	"strings"
	"sync/atomic"
	"time"

	"cedarverif/internal/peer"
	"cedarverif/internal/wire"

	"github.com/bbockelm/cedar/message"
	"github.com/bbockelm/cedar/security"
	"github.com/bbockelm/cedar/stream"
)

type Sess struct {
	Authd bool `json:"authd"`
	Keyed bool `json:"keyed"`
}

type Cfg struct {
	Role    string   `json:"role"`
	Auth    string   `json:"auth"`
	Enc     string   `json:"enc"`
	Integ   string   `json:"integ"`
	Methods []string `json:"methods"`
	PeerLvl string   `json:"peerLvl"`
	Mode    string   `json:"mode"`
	Sess    Sess     `json:"sess"`
	Est     string   `json:"est"`    // resumed: "Honest" or the deviation of the peer that established the session
	EstEnc  string   `json:"estEnc"` // resumed: own encryption level of the establishing handshake
	Src     string   `json:"src"`    // "base": the policy is the Authenticator's config; "hook": it comes from ServerConfigForCommand over a weaker base config
}

type Outcome struct {
	Done    bool   `json:"done"`
	Ok      bool   `json:"ok"`
	Auth    bool   `json:"auth"`
	Enc     bool   `json:"enc"`
	Method  string `json:"method"`
	Resumed bool   `json:"resumed"`
}

// Final is a terminal state of the specification (or the projection of a real run).
type Final struct {
	Ran      string  `json:"ran"`
	KeyE     bool    `json:"keyE"`
	PostAuth string  `json:"postAuth"`
	Outcome  Outcome `json:"outcome"`
}

type scnLine struct {
	Scn struct {
		Cfg  Cfg      `json:"cfg"`
		Devs []string `json:"devs"`
		Final
	} `json:"scn"`
}

// Group is one scenario: a configuration, the peer's deviation switches, and
// every terminal state the specification allows.
type Group struct {
	Kind    string   `json:"kind"`
	Cfg     Cfg      `json:"cfg"`
	Devs    []string `json:"devs"`
	Allowed []Final  `json:"allowed"`
}

func (g *Group) Key() string {
	b, _ := json.Marshal(struct {
		C Cfg
		D []string
	}{g.Cfg, g.Devs})
	return string(b)
}

// Parse groups the terminal states printed by Gen_HandshakeEvil.
func Parse(raws []json.RawMessage) ([]*Group, error) {
	idx := map[string]*Group{}
	var out []*Group
	for _, r := range raws {
		var l scnLine
		if err := json.Unmarshal(r, &l); err != nil {
			return nil, err
		}
		sort.Strings(l.Scn.Devs)
		g := &Group{Kind: "HandshakeEvil", Cfg: l.Scn.Cfg, Devs: l.Scn.Devs}
		k := g.Key()
		if have, ok := idx[k]; ok {
			g = have
		} else {
			idx[k] = g
			out = append(out, g)
		}
		g.Allowed = append(g.Allowed, l.Scn.Final)
	}
	sort.Slice(out, func(i, j int) bool { return out[i].Key() < out[j].Key() })
	return out, nil
}

// ---------------------------------------------------------------- concretisation

var methodName = map[string]security.AuthMethod{"C": security.AuthClaimToBe, "P": security.AuthPassword, "K": security.AuthKerberos}

func letter(m security.AuthMethod) string {
	for k, v := range methodName {
		if v == m {
			return k
		}
	}
	if m == "" || m == security.AuthNone {
		return "NONE"
	}
	return "?" + string(m)
}

func peerLetter(m string) string {
	switch m {
	case "":
		return "NONE"
	case "CLAIMTOBE":
		return "C"
	case "PASSWORD":
		return "P"
	case "KERBEROS":
		return "K"
	}
	return "?" + m
}

const appCommand = 60011

func (c Cfg) realConfig(cache *security.SessionCache) *security.SecurityConfig {
	sc := &security.SecurityConfig{
		Authentication: security.SecurityLevel(c.Auth), Encryption: security.SecurityLevel(c.Enc),
		CryptoMethods: []security.CryptoMethod{security.CryptoAES},
		Command:       appCommand, SessionCache: cache,
	}
	sc.Integrity = sc.Encryption
	if c.Integ == "REQUIRED" {
		sc.Integrity = security.SecurityRequired
	}
	for _, m := range c.Methods {
		sc.AuthMethods = append(sc.AuthMethods, methodName[m])
	}
	return sc
}

func (c Cfg) encReq() bool { return c.Enc == "REQUIRED" || c.Integ == "REQUIRED" }

// Forms are the concrete renderings of a negative answer (AnswerAuthNo /
// AnswerEncNo of the specification are classes; "" is the literal NO / NEVER).
var Forms = []string{"", "Omitted", "Lowercase", "Bool", "Garbage"}

// HasForms reports whether the scenario has an answer whose rendering varies.
func (g *Group) HasForms() bool {
	return contains(g.Devs, "AnswerAuthNo") || contains(g.Devs, "AnswerEncNo")
}

func concreteDev(d, form string) peer.Dev {
	if form != "" {
		switch d {
		case "AnswerAuthNo":
			return peer.Dev("AnswerAuth" + form)
		case "AnswerEncNo":
			return peer.Dev("AnswerEnc" + form)
		}
	}
	return peer.Dev(d)
}

func (c Cfg) peerConfig(devs []string, form string, keyless bool) peer.Config {
	pc := peer.Config{AuthLevel: c.PeerLvl, EncLevel: c.PeerLvl, Command: appCommand, Timeout: Deadline}
	if c.Role == "client" {
		pc.Role = peer.Server
		for _, m := range c.Methods { // a server that lists what the client lists
			pc.Methods = append(pc.Methods, string(methodName[m]))
		}
	} else {
		pc.Role = peer.Client
		pc.Methods = []string{"CLAIMTOBE"}
	}
	var ds []peer.Dev
	for _, d := range devs {
		ds = append(ds, concreteDev(d, form))
	}
	pc.Devs = peer.Devs(ds...)
	if keyless { // an honest peer that simply has no AES
		pc.Ciphers = []string{"3DES"}
		pc.Devs[peer.OmitECDH] = true
	}
	return pc
}

// Deadline bounds every handshake (context of the real endpoint, reads of the peer).
var Deadline = 4 * time.Second

var connSerial int64

func addrs(role string) (e, p string) {
	n := atomic.AddInt64(&connSerial, 1)
	if role == "client" {
		return fmt.Sprintf("127.0.0.1:%d", 20000+n%30000), "127.0.0.1:9618"
	}
	return "127.0.0.1:9618", fmt.Sprintf("127.0.0.1:%d", 20000+n%30000)
}

// Obs is the projection of one real execution.
type Obs struct {
	Final
	Err         string `json:"err,omitempty"`
	IsEncrypted bool   `json:"isEncrypted"`
	AppClass    string `json:"appClass"`  // how the first message the endpoint wrote after the handshake travelled
	PostClass   string `json:"postClass"` // how the post-auth ad travelled
	User        string `json:"user,omitempty"`
	TimedOut    bool   `json:"timedOut,omitempty"`
	PeerErr     string `json:"peerErr,omitempty"`
	PeerSteps   string `json:"peerSteps,omitempty"`
	Sess        Sess   `json:"sess"` // resumed mode: the session as established on the wire
	Skip        string `json:"skip,omitempty"`
	// Exercised: the switches the peer actually got to use (a select-phase switch is
	// never reached when the server side waives authentication, ...)
	Exercised []string `json:"exercised"`
}

var phaseOf = map[string]string{"SelectUnofferedBit": "select", "SelectSeveralBits": "select", "SelectZero": "select",
	"PostAuthInClear": "post", "PostAuthDenied": "post"}

func exercised(devs []string, p *peer.Peer) []string {
	out := []string{}
	for _, d := range devs {
		switch phaseOf[d] {
		case "select":
			if p.Cfg.Role == peer.Server && len(p.Obs.Selected) == 0 || p.Cfg.Role == peer.Client && len(p.Obs.Offered) == 0 {
				continue
			}
		case "post":
			if !contains(p.Obs.Steps, "SendPostAuth") {
				continue
			}
		}
		out = append(out, d)
	}
	return out
}

var canarySerial int64

type runResult struct {
	neg  *security.SecurityNegotiation
	err  error
	st   *stream.Stream
	p    *peer.Peer
	app  peer.AppObs
	appE error
	tout bool
}

// handshake runs one real handshake against one scripted peer and, on success,
// makes the real endpoint write one application message.
func handshake(c Cfg, sc *security.SecurityConfig, pc peer.Config) runResult {
	ea, pa := addrs(c.Role)
	ec, pconn := wire.C03NewPipe(ea, pa)
	p := peer.New(pconn, pc)
	canary := []byte(fmt.Sprintf("CANARY-%d-c03-verif", atomic.AddInt64(&canarySerial, 1)))
	res := runResult{p: p}
	done := make(chan struct{})
	go func() {
		defer close(done)
		_ = p.Run()
		if p.Obs.Err == nil && !p.Obs.Denied {
			res.app, res.appE = p.ReadApp(canary)
		}
		p.Close()
	}()
	st := stream.NewStream(ec)
	res.st = st
	ctx, cancel := context.WithTimeout(context.Background(), Deadline)
	defer cancel()
	a := security.NewAuthenticator(sc, st)
	if c.Role == "server" && c.Src == "hook" {
		// The way server.Server does it: the connection's Authenticator is built on
		// the server's base configuration and the policy of the command named in the
		// client's ad is supplied by the ServerConfigForCommand hook. The base policy
		// is deliberately weak, so only the hook's levels can be what gets enforced.
		policy := sc
		base := &security.SecurityConfig{
			AuthMethods: []security.AuthMethod{security.AuthClaimToBe}, Authentication: security.SecurityOptional,
			CryptoMethods: []security.CryptoMethod{security.CryptoAES}, Encryption: security.SecurityOptional,
			Integrity: security.SecurityOptional, Command: appCommand, SessionCache: sc.SessionCache,
		}
		a = security.NewAuthenticator(base, st)
		a.ServerConfigForCommand = func(command int) *security.SecurityConfig {
			if command != appCommand {
				return nil
			}
			cp := *policy
			return &cp
		}
	}
	if c.Role == "client" {
		res.neg, res.err = a.ClientHandshake(ctx)
	} else {
		res.neg, res.err = a.ServerHandshake(ctx)
	}
	if res.err == nil {
		m := message.NewMessageForStream(st)
		_ = m.PutInt(ctx, 4711)
		_ = m.PutString(ctx, string(canary))
		_ = m.FinishMessage(ctx)
		ec.CloseWrite()
	} else {
		_ = ec.Close()
	}
	res.tout = ctx.Err() != nil
	<-done
	_ = ec.Close()
	return res
}

func classOf(cl string) string {
	if cl == "clear" {
		return "clear"
	}
	return "sealed"
}

func (o *Obs) fill(c Cfg, devs []string, r runResult, resumed bool) {
	o.Exercised = exercised(devs, r.p)
	o.TimedOut = r.tout
	if r.p.Obs.Err != nil {
		o.PeerErr = r.p.Obs.FailedStep + ": " + r.p.Obs.Err.Error()
	}
	o.PeerSteps = strings.Join(r.p.Obs.Steps, ",")
	o.Ran = peerLetter(r.p.Obs.Ran)
	o.Outcome.Done = true
	o.PostAuth = "none"
	if r.err != nil {
		o.Err = r.err.Error()
		return
	}
	o.Outcome.Ok = true
	o.Outcome.Auth = r.neg.Authentication
	o.Outcome.Enc = r.neg.Encryption
	o.Outcome.Method = letter(r.neg.NegotiatedAuth)
	o.Outcome.Resumed = resumed
	o.User = r.neg.User
	o.IsEncrypted = r.st.IsEncrypted()
	o.AppClass = r.app.Class
	if r.appE != nil || o.AppClass == "" {
		o.AppClass = "unobserved"
	}
	o.PostClass = r.p.Obs.PostAuthClass
	// the stream's real state is what is on the wire
	o.KeyE = o.AppClass != "clear"
	if o.AppClass == "unobserved" {
		o.KeyE = o.IsEncrypted
	}
	if !resumed && o.PostClass != "" {
		o.PostAuth = classOf(o.PostClass)
	}
}

// Run executes one scenario against the real code; form selects the rendering
// of a negative answer (see Forms).
func Run(g *Group, form string) Obs {
	var o Obs
	c := g.Cfg
	if c.Mode == "fresh" {
		cache := security.NewSessionCache()
		if c.Role == "server" {
			cache = nil
		}
		r := handshake(c, c.realConfig(cache), c.peerConfig(g.Devs, form, false))
		o.fill(c, g.Devs, r, false)
		if c.Role == "server" && r.neg != nil {
			security.InvalidateSession(r.neg.SessionId) // keep the process-wide cache small
		}
		return o
	}
	// resumed: establish the session first -- under the own encryption level of
	// that time (EstEnc), against an honest peer or one that keeps the key from
	// being agreed (Est) -- then resume it under the scenario's policy
	keyless := !c.Sess.Keyed
	cache := security.NewSessionCache()
	ec := c
	ec.Enc = c.EstEnc
	var estDevs []string
	if c.Est != "Honest" && c.Est != "" {
		estDevs, keyless = []string{c.Est}, false
	}
	var scfg *security.SecurityConfig
	if c.Role == "client" {
		scfg = ec.realConfig(cache)
	} else {
		scfg = ec.realConfig(nil)
	}
	est := handshake(c, scfg, c.peerConfig(estDevs, "", keyless))
	if est.err != nil {
		o.Skip = "establishing handshake failed: " + est.err.Error()
		return o
	}
	o.Sess = Sess{Authd: est.p.Obs.Ran != "", Keyed: est.p.Obs.KeyDerived}
	if o.Sess != c.Sess {
		o.Skip = fmt.Sprintf("honest establishment under this policy yields session %+v, not %+v", o.Sess, c.Sess)
		return o
	}
	pc := c.peerConfig(g.Devs, form, false)
	var sid string
	if c.Role == "client" {
		sid = est.p.Cfg.Sid
		pc.Sessions = map[string]peer.Session{sid: {Key: est.p.Obs.Key}}
		scfg = c.realConfig(cache)
	} else {
		sid = est.neg.SessionId
		pc.Resume = &peer.Resume{Sid: sid, Key: est.p.Obs.Key}
		scfg = c.realConfig(nil)
	}
	r := handshake(c, scfg, pc)
	if !r.p.Obs.ResumeRequested {
		o.Skip = "the endpoint did not take the resumption path"
		return o
	}
	o.fill(c, g.Devs, r, true)
	if c.Role == "server" {
		security.InvalidateSession(sid)
	}
	return o
}

// ---------------------------------------------------------------- comparison

// Diff is a conformance difference between a real execution and the specification.
type Diff struct {
	Invariant string // the invariant of the statement the observation falsifies
	Detail    string
}

func contains(l []string, s string) bool {
	for _, x := range l {
		if x == s {
			return true
		}
	}
	return false
}

// Violated evaluates the invariants of HandshakeEvil.tla on a real observation.
func Violated(c Cfg, o Obs) []string {
	if !o.Outcome.Ok {
		return nil
	}
	var v []string
	if c.Auth == "REQUIRED" {
		if o.Outcome.Resumed {
			if !o.Sess.Authd {
				v = append(v, "RequiredAuthRan")
			}
		} else if !contains(c.Methods, o.Ran) {
			v = append(v, "RequiredAuthRan")
		}
	}
	if c.encReq() && !o.KeyE {
		v = append(v, "RequiredEncOn")
	}
	if o.Outcome.Enc != o.KeyE || o.IsEncrypted != o.KeyE {
		v = append(v, "ReportedEncTruthful")
	}
	if !o.Outcome.Resumed {
		if o.Outcome.Auth != (o.Ran != "NONE") || (o.Outcome.Auth && o.Outcome.Method != o.Ran) {
			v = append(v, "ReportedAuthTruthful")
		}
	}
	if o.KeyE && o.PostAuth == "clear" {
		v = append(v, "NoClearAfterKey")
	}
	return v
}

func matches(f Final, o Obs) bool {
	if !f.Outcome.Ok || f.Ran != o.Ran || f.KeyE != o.KeyE || f.Outcome.Enc != o.Outcome.Enc ||
		f.Outcome.Resumed != o.Outcome.Resumed {
		return false
	}
	if o.Outcome.Resumed {
		return true
	}
	if f.PostAuth != o.PostAuth || f.Outcome.Auth != o.Outcome.Auth {
		return false
	}
	return !o.Outcome.Auth || f.Outcome.Method == o.Outcome.Method
}

// Check compares an observation with the terminal states the specification allows.
// machinery != "" reports a problem of the model / harness (never a violation).
func Check(g *Group, o Obs, lookup func(Cfg, []string) *Group) (d *Diff, machinery string) {
	if o.Skip != "" {
		return nil, ""
	}
	if lookup != nil && len(o.Exercised) != len(g.Devs) {
		// the behaviour that really took place is the one in which the peer did not
		// (get to) use some of its switches
		if eff := lookup(g.Cfg, o.Exercised); eff != nil {
			g = eff
		}
	}
	if !o.Outcome.Ok {
		for _, f := range g.Allowed {
			if !f.Outcome.Ok {
				return nil, ""
			}
		}
		return nil, "the specification has no aborting behaviour for " + g.Key()
	}
	inModel := false
	for _, f := range g.Allowed {
		if matches(f, o) {
			inModel = true
			break
		}
	}
	v := Violated(g.Cfg, o)
	if o.IsEncrypted != o.KeyE && inModel {
		inModel = false
	}
	switch {
	case inModel && len(v) == 0:
		return nil, ""
	case inModel:
		return nil, fmt.Sprintf("observation %s is a behaviour of the specification but falsifies %v", o.Short(), v)
	case len(v) == 0:
		return nil, fmt.Sprintf("observation %s of %s is not a behaviour of the specification although no invariant is falsified (model too narrow)", o.Short(), g.Key())
	}
	return &Diff{Invariant: v[0], Detail: fmt.Sprintf(
		"real %s (auth=%s enc=%s integ=%s methods=%v, %s) against peer [%s] returned success reporting Authentication=%v NegotiatedAuth=%s Encryption=%v; on the wire: exchange that ran=%s, Stream.IsEncrypted=%v, post-auth ad %s, next message written %s; falsifies %s; not a behaviour of HandshakeEvil",
		g.Cfg.Role, g.Cfg.Auth, g.Cfg.Enc, g.Cfg.Integ, g.Cfg.Methods, g.Cfg.Mode, devName(g.Devs),
		o.Outcome.Auth, o.Outcome.Method, o.Outcome.Enc, o.Ran, o.IsEncrypted, o.PostClass, o.AppClass, strings.Join(v, ","))}, ""
}

func (o Obs) Short() string {
	return fmt.Sprintf("{ok=%v auth=%v method=%s enc=%v resumed=%v | ran=%s prot=%v isEnc=%v post=%s app=%s}",
		o.Outcome.Ok, o.Outcome.Auth, o.Outcome.Method, o.Outcome.Enc, o.Outcome.Resumed, o.Ran, o.KeyE, o.IsEncrypted, o.PostAuth, o.AppClass)
}

func devName(d []string) string {
	if len(d) == 0 {
		return "Honest"
	}
	return strings.Join(d, "+")
}

// PolicyClass is the policy part of a signature.
func PolicyClass(c Cfg) string {
	a, e := "authOther", "encOther"
	if c.Auth == "REQUIRED" {
		a = "authREQUIRED"
	}
	if c.Enc == "REQUIRED" {
		e = "encREQUIRED"
	} else if c.Integ == "REQUIRED" {
		e = "integREQUIRED"
	}
	return a + "/" + e
}

// Signature is the stable abstract identity of a failure.
func Signature(g *Group, form string, d *Diff) map[string]string {
	sig := map[string]string{"spec": "HandshakeEvil", "role": g.Cfg.Role, "mode": g.Cfg.Mode,
		"deviation": devName(g.Devs), "policy": PolicyClass(g.Cfg), "invariant": d.Invariant}
	if form != "" {
		sig["answerForm"] = form
	}
	if g.Cfg.Src == "hook" {
		sig["policySource"] = "hook"
	}
	if c := g.Cfg; c.Mode == "resumed" && (c.Est != "Honest" || c.EstEnc != c.Enc) {
		sig["establishment"] = c.Est + "/" + strings.ToLower(c.EstEnc)
	}
	return sig
}

// Quiet silences cedar's logging (it logs every handshake step at Info).
func Quiet() { slog.SetDefault(slog.New(slog.NewTextHandler(io.Discard, nil))) }
