package ccblisten

import (
	"fmt"
	"strings"
)

// Diff is a difference between the observation and every admissible outcome.
type Diff struct {
	Sig     map[string]string // nil: a problem of the harness itself
	Detail  string
	Unknown bool // the observed script is not among the generated ones and no invariant is violated
}

func sig(inv, what string) map[string]string {
	return map[string]string{"spec": "CCBListener", "invariant": inv, "what": what}
}

// invariants judges the observation by the invariants of CCBListener.tla alone.
func invariants(o *Obs) *Diff {
	where := fmt.Sprintf("%s broker, script %s", o.Broker, describe(o.Trace))
	for _, g := range o.Garbled {
		if strings.Contains(g, "unreadable") {
			return &Diff{Sig: sig("WritesSerialised", "garbled_message_on_broker_connection"), Detail: where + ": " + g}
		}
		// a well-formed ad that is neither a heartbeat nor the result of a request the broker forwarded
		return &Diff{Sig: sig("ReplyMatchesOutcome", "unattributable_ad_on_broker_connection"), Detail: where + ": " + g}
	}
	if len(o.BadReg) > 0 {
		return &Diff{Sig: sig("PresentsLastCookie", "registration_ad_without_command_or_name"), Detail: where + ": registration ad " + o.BadReg[0]}
	}
	for i, e := range o.Trace {
		if e.E == "reg" && e.P != "none" && e.P != "last" {
			return &Diff{Sig: sig("PresentsLastCookie", "presented_"+e.P),
				Detail: fmt.Sprintf("%s: registration at step %d presents a contact / cookie that is %s (not those of the last grant)", where, i+1, e.P)}
		}
	}
	for _, s := range o.ShownAtReg {
		if s != "" {
			return &Diff{Sig: sig("ContactIsGrant", "contact_shown_while_not_registered"),
				Detail: fmt.Sprintf("%s: Contacts() still showed %q when the re-registration arrived at the broker", where, s)}
		}
	}
	for _, g := range o.Granted {
		if strings.HasPrefix(g, "other:") {
			return &Diff{Sig: sig("ContactIsGrant", "shows_another_contact"),
				Detail: fmt.Sprintf("%s: after a grant Contacts() shows %q", where, strings.TrimPrefix(g, "other:"))}
		}
		if g == "lost" {
			return &Diff{Sig: sig("Independent", "other_brokers_registration_lost"),
				Detail: where + ": the registration with this broker was gone although nothing happened on its connection"}
		}
	}
	// one request answered twice while another of the same connection is not answered at
	// all: two writers were inside WriteControlAd at once (the stream's frame buffer is shared)
	for _, r := range o.Reqs {
		for _, q := range o.Reqs {
			if len(r.Replies) > 1 && len(q.Replies) == 0 && q.Conn == r.Conn && o.Liveness != "" {
				return &Diff{Sig: sig("WritesSerialised", "reply_of_one_request_overwritten_by_anothers"),
					Detail: fmt.Sprintf("%s: request %d.%d has %d replies, request %d.%d on the same connection none", where, r.R, r.K, len(r.Replies), q.R, q.K)}
			}
		}
	}
	for _, r := range o.Reqs {
		rq := fmt.Sprintf("%s: request %d.%d (%s)", where, r.R, r.K, r.Target)
		if len(r.Replies) > 1 {
			return &Diff{Sig: sig("AtMostOneReply", "two_replies"), Detail: fmt.Sprintf("%s got %d replies: %v", rq, len(r.Replies), r.Replies)}
		}
		for _, rep := range r.Replies {
			if rep.Res == "badecho" || rep.Res == "noresult" {
				return &Diff{Sig: sig("ReplyMatchesOutcome", "reply_"+rep.Res), Detail: rq + " got a result ad that does not echo the request / has no Result"}
			}
			if rep.Conn < r.Conn {
				return &Diff{Sig: sig("ReplyOnOwnOrLaterConn", "reply_on_earlier_connection"), Detail: rq + " was answered on an earlier connection"}
			}
		}
		if len(r.Hellos) > 1 {
			return &Diff{Sig: sig("HelloCarriesOwnId", "two_dialbacks"), Detail: fmt.Sprintf("%s: %d dial-back connections: %v", rq, len(r.Hellos), r.Hellos)}
		}
		for _, h := range r.Hellos {
			if h != "own" {
				return &Diff{Sig: sig("HelloCarriesOwnId", "hello_"+h),
					Detail: fmt.Sprintf("%s: the dial-back connection's hello is %q (own = connect id, request id and address of this request)", rq, h)}
			}
		}
		for _, h := range r.Handler {
			if h == "other" {
				return &Diff{Sig: sig("HelloCarriesOwnId", "handler_got_another_requests_route"), Detail: rq + ": the handler was given the route / audit fields of another request"}
			}
		}
		ok := len(r.Replies) == 1 && r.Replies[0].Res == "ok"
		fail := len(r.Replies) == 1 && r.Replies[0].Res == "fail"
		switch {
		case ok && r.Target != "accept":
			return &Diff{Sig: sig("ReplyMatchesOutcome", "success_for_unreachable_requester"), Detail: rq + ": Result=true although nothing can be dialled there"}
		case ok && len(r.Hellos) == 0:
			return &Diff{Sig: sig("ReplyMatchesOutcome", "success_without_hello"), Detail: rq + ": Result=true but the requester saw no hello"}
		case ok && (len(r.Handler) == 0 || r.Handler[0] != "own"):
			return &Diff{Sig: sig("ReplyMatchesOutcome", "success_without_handoff"), Detail: rq + ": Result=true but the connection never reached the handler"}
		case fail && len(r.Hellos) > 0:
			return &Diff{Sig: sig("ReplyMatchesOutcome", "failure_after_hello"), Detail: rq + ": Result=false although the hello was delivered"}
		}
	}
	for i, c := range o.Conns {
		if c == "open" {
			return &Diff{Sig: sig("StoppedClean", "broker_connection_open_after_stop"),
				Detail: fmt.Sprintf("%s: broker connection %d is still open after Run returned", where, i+1)}
		}
	}
	if o.Shown > 0 {
		return &Diff{Sig: sig("StoppedClean", "contact_shown_after_stop"), Detail: where + ": Contacts() still shows the broker after Run returned"}
	}
	if o.RunErr != "" {
		return &Diff{Sig: sig("StoppedClean", "run_result"), Detail: where + ": Run returned " + o.RunErr + ", not the context's error"}
	}
	switch o.Liveness {
	case "NoRegistration":
		return &Diff{Sig: sig("RetryUntilRegistered", "no_new_registration"), Detail: where + ": no registration arrived at the broker although the last one failed / was dropped and the context is live"}
	case "NoReply":
		return &Diff{Sig: sig("EveryRequestAnswered", "no_reply"), Detail: fmt.Sprintf("%s: a request forwarded on a live connection was not answered: %+v", where, o.Reqs)}
	case "NoContact":
		return &Diff{Sig: sig("ContactIsGrant", "never_shown"), Detail: where + ": the granted contact never appeared in Contacts()"}
	case "NoHeartbeat":
		return &Diff{Sig: sig("HeartbeatSent", "no_alive"), Detail: where + ": no ALIVE arrived within the heartbeat interval (30 s floor) plus slack"}
	case "NoReturn":
		return &Diff{Sig: sig("StoppedClean", "run_did_not_return"), Detail: where + ": Run did not return after its context ended"}
	}
	return nil
}

// project turns the observation of request r into the model's terms (one per burst member).
func project(o *Obs, r int) []ReqOut {
	var out []ReqOut
	for _, q := range o.Reqs {
		if q.R != r {
			continue
		}
		x := ReqOut{Res: "none", Hello: "none"}
		if len(q.Replies) > 0 {
			x.Rep, x.On, x.Res = len(q.Replies), q.Replies[0].Conn, q.Replies[0].Res
		}
		if len(q.Hellos) > 0 {
			x.Hello = q.Hellos[0]
		}
		x.Handed = len(q.Handler) > 0 && q.Handler[0] == "own"
		out = append(out, x)
	}
	return out
}

func matchOut(m Out, o *Obs) bool {
	if len(m.Conns) != len(o.Conns) {
		return false
	}
	for i := range m.Conns {
		if !(o.Conns[i] == m.Conns[i] || o.Conns[i] == "bclosed") {
			return false
		}
	}
	if m.Shown != o.Shown {
		return false
	}
	for r := range m.Reqs {
		ps := project(o, r+1)
		if len(ps) == 0 {
			return false
		}
		for _, p := range ps {
			if p != m.Reqs[r] {
				return false
			}
		}
	}
	for _, q := range o.Reqs {
		if q.R > len(m.Reqs) {
			return false
		}
	}
	return true
}

// Compare checks an observation against the model's table.
func Compare(t *Table, o *Obs) *Diff {
	if strings.HasPrefix(o.Abandoned, "harness:") {
		return &Diff{Detail: o.Abandoned}
	}
	if d := invariants(o); d != nil {
		return d
	}
	key := Key(o.Trace)
	allowed, known := t.Allowed[key]
	if known {
		for _, m := range allowed {
			if matchOut(m, o) {
				return nil
			}
		}
		// which part of the outcome does the model never admit?
		where := fmt.Sprintf("%s broker, script %s", o.Broker, describe(o.Trace))
		for r := 1; r <= len(allowed[0].Reqs); r++ {
			for _, p := range project(o, r) {
				repOK, resOK, helloOK, handOK, onOK := false, false, false, false, false
				for _, m := range allowed {
					x := m.Reqs[r-1]
					repOK = repOK || x.Rep == p.Rep
					resOK = resOK || x.Res == p.Res
					helloOK = helloOK || x.Hello == p.Hello
					handOK = handOK || x.Handed == p.Handed
					onOK = onOK || x.On == p.On
				}
				switch {
				case !repOK && p.Rep == 0:
					return &Diff{Sig: sig("EveryRequestAnswered", "no_reply"), Detail: fmt.Sprintf("%s: request %d got no reply; the model admits only %v", where, r, allowed)}
				case !repOK:
					return &Diff{Sig: sig("AtMostOneReply", "reply_count"), Detail: fmt.Sprintf("%s: request %d got %d replies; the model admits only %v", where, r, p.Rep, allowed)}
				case !resOK:
					return &Diff{Sig: sig("ReplyMatchesOutcome", "result_"+p.Res), Detail: fmt.Sprintf("%s: request %d was answered %q; the model admits only %v", where, r, p.Res, allowed)}
				case !helloOK:
					return &Diff{Sig: sig("HelloCarriesOwnId", "hello_"+p.Hello), Detail: fmt.Sprintf("%s: request %d: hello %q; the model admits only %v", where, r, p.Hello, allowed)}
				case !handOK:
					return &Diff{Sig: sig("ReplyMatchesOutcome", "handoff"), Detail: fmt.Sprintf("%s: request %d: handed to the handler = %v; the model admits only %v", where, r, p.Handed, allowed)}
				case !onOK:
					return &Diff{Sig: sig("ReplyOnOwnOrLaterConn", "reply_connection"), Detail: fmt.Sprintf("%s: request %d was answered on connection %d; the model admits only %v", where, r, p.On, allowed)}
				}
			}
		}
		return &Diff{Sig: sig("Outcome", "combination_not_admitted"),
			Detail: fmt.Sprintf("%s: observed reqs=%+v conns=%v shown=%d is none of the admissible outcomes %v", where, o.Reqs, o.Conns, o.Shown, allowed)}
	}
	// the script itself is not a generated one: where does it leave the model?
	for i := 1; i <= len(o.Trace); i++ {
		if t.Prefixes[Key(o.Trace[:i])] {
			continue
		}
		e := o.Trace[i-1]
		if e.E == "reg" && i >= 2 {
			// a registration nothing in the script accounts for: since the last grant the
			// broker neither dropped the connection nor sent anything unreadable
			cause := false
			j := i - 2
			for ; j >= 0; j-- {
				p := o.Trace[j]
				if p.E == "drop" || (p.E == "snd" && p.M == "malformed") {
					cause = true
				}
				if p.E == "ans" {
					break
				}
			}
			if j >= 0 && !cause && (o.Trace[j].A == "fresh" || o.Trace[j].A == "same" || o.Trace[j].A == "nocookie") {
				return &Diff{Sig: sig("KeepsRegistration", "reconnect_without_cause"),
					Detail: fmt.Sprintf("%s broker, script %s: the listener gave up its registration and registered again (step %d) although the broker had kept the connection up and sent only well-formed messages", o.Broker, describe(o.Trace), i)}
			}
		}
		if e.E == "reg" {
			for _, alt := range []string{"none", "last"} {
				if alt == e.P {
					continue
				}
				tr := append(append([]Ev{}, o.Trace[:i-1]...), Ev{E: "reg", P: alt})
				if t.Prefixes[Key(tr)] {
					return &Diff{Sig: sig("PresentsLastCookie", "presented_"+e.P+"_expected_"+alt),
						Detail: fmt.Sprintf("%s broker, script %s: the registration at step %d presents %q where the model admits only %q", o.Broker, describe(o.Trace), i, e.P, alt)}
				}
			}
		}
		break
	}
	return &Diff{Unknown: true, Detail: fmt.Sprintf("%s broker: observed script %s is not among the generated ones (%s); no invariant is violated by the observation", o.Broker, describe(o.Trace), o.Abandoned)}
}
