package ccblisten

import (
	"encoding/json"
	"os"
	"runtime"
	"runtime/debug"
	"sync"
	"sync/atomic"

	"cedarverif/internal/core"
)

// Job is one script of one generator configuration with the harness' choices.
type Job struct {
	Table  string `json:"table"` // generator configuration the script comes from
	Script []Ev   `json:"script"`
	P      Params `json:"params"`
}

type Stats struct {
	Conform, Registrations, Reconnects, Requests, Hellos, FailReplies, Heartbeats int64
	Retried, UnknownScript, Companions, BurstMembers, Suppressed                  int64

	mu        sync.Mutex
	confirmed map[string]int // reproduced differences per signature
}

// enough reports whether a difference with this signature has been reproduced often
// enough (each reproduction costs a run with long waits).
func (st *Stats) enough(sig map[string]string) bool {
	if sig == nil {
		return false
	}
	st.mu.Lock()
	defer st.mu.Unlock()
	return st.confirmed[sigKey(sig)] >= 3
}

func (st *Stats) confirm(sig map[string]string) {
	st.mu.Lock()
	defer st.mu.Unlock()
	if st.confirmed == nil {
		st.confirmed = map[string]int{}
	}
	st.confirmed[sigKey(sig)]++
}

func sigKey(sig map[string]string) string { return sig["invariant"] + "/" + sig["what"] }

// companionTable names the table the companion broker's (fixed) scripts are looked up in.
const companionTable = "req"

// ReplayAll runs the jobs w at a time.  A difference is re-run with long waits
// (so that scheduling delays on a loaded machine cannot masquerade as behaviour)
// before it is reported.
//
// The garbage collector is switched off while runs are in flight: Go closes a
// dropped net.Conn from a finalizer, which would hide a connection the listener
// forgot to close.  Jobs run in batches with a collection between batches.
func ReplayAll(c *core.Ctx, tabs map[string]*Table, jobs []Job, w int, st *Stats) {
	old := debug.SetGCPercent(-1)
	defer debug.SetGCPercent(old)
	const batch = 300
	for lo := 0; lo < len(jobs); lo += batch {
		hi := lo + batch
		if hi > len(jobs) {
			hi = len(jobs)
		}
		part := jobs[lo:hi]
		core.ParallelFor(len(part), w, func(i int) { RunJob(c, tabs, part[i], st) })
		runtime.GC()
	}
}

func tableFor(tabs map[string]*Table, j Job, o *Obs) *Table {
	if o.Broker == "companion" {
		return tabs[companionTable]
	}
	return tabs[j.Table]
}

func judge(tabs map[string]*Table, j Job, obs []*Obs) (*Diff, *Obs) {
	var unknown *Diff
	var uo *Obs
	for _, o := range obs {
		t := tableFor(tabs, j, o)
		if t == nil {
			return &Diff{Detail: "no model table " + j.Table}, o
		}
		if d := Compare(t, o); d != nil {
			if !d.Unknown {
				return d, o
			}
			unknown, uo = d, o
		}
	}
	return unknown, uo
}

func RunJob(c *core.Ctx, tabs map[string]*Table, j Job, st *Stats) {
	obs, err := Run(j.Script, j.P)
	if err != nil {
		c.Broken("G01 replay %s: %v", Key(j.Script), err)
		return
	}
	key, _ := json.Marshal(j)
	c.Eval(string(key), len(j.Script) > 3)
	d, _ := judge(tabs, j, obs)
	if d != nil && st.enough(d.Sig) {
		// the same difference has been reproduced (and reported) three times already
		atomic.AddInt64(&st.Suppressed, 1)
		return
	}
	if d != nil {
		atomic.AddInt64(&st.Retried, 1)
		j2 := j
		j2.P.Slow = true
		var d2 *Diff
		var o2 *Obs
		var obs2 []*Obs
		for try := 0; try < 2; try++ {
			obs2, err = Run(j2.Script, j2.P)
			if err != nil {
				c.Broken("G01 replay %s: %v", Key(j.Script), err)
				return
			}
			d2, o2 = judge(tabs, j2, obs2)
			if d2 == nil || !d2.Unknown {
				break
			}
		}
		switch {
		case d2 == nil:
			obs = obs2 // the first difference was a scheduling artefact
		case d2.Unknown:
			atomic.AddInt64(&st.UnknownScript, 1)
			c.Note("G01: " + d2.Detail)
			return
		case d2.Sig == nil:
			c.Broken("G01 harness problem (reproduced): %s", d2.Detail)
			return
		default:
			st.confirm(d2.Sig)
			c.Fail(core.Failure{Signature: d2.Sig, Detail: d2.Detail,
				Scenario: map[string]any{"kind": "CCBListener", "job": j, "observed": o2}})
			return
		}
	}
	atomic.AddInt64(&st.Conform, int64(len(obs)))
	for _, o := range obs {
		if o.Broker == "companion" {
			atomic.AddInt64(&st.Companions, 1)
		}
		regs := int64(Has(o.Trace, "reg"))
		atomic.AddInt64(&st.Registrations, regs)
		if regs > 1 {
			atomic.AddInt64(&st.Reconnects, regs-1)
		}
		atomic.AddInt64(&st.Heartbeats, int64(Has(o.Trace, "tick")))
		for _, r := range o.Reqs {
			atomic.AddInt64(&st.Requests, 1)
			if r.K > 0 {
				atomic.AddInt64(&st.BurstMembers, 1)
			}
			if len(r.Hellos) > 0 {
				atomic.AddInt64(&st.Hellos, 1)
			}
			if len(r.Replies) > 0 && r.Replies[0].Res == "fail" {
				atomic.AddInt64(&st.FailReplies, 1)
			}
		}
	}
}

// ReplayFile re-runs one recorded failure.
func ReplayFile(c *core.Ctx, tabs map[string]*Table) bool {
	b, err := os.ReadFile(c.Replay)
	if err != nil {
		c.Broken("cannot read replay file: %v", err)
		return true
	}
	var rf struct {
		Scenario struct {
			Kind string `json:"kind"`
			Job  Job    `json:"job"`
		} `json:"scenario"`
	}
	if err := json.Unmarshal(b, &rf); err != nil || rf.Scenario.Kind != "CCBListener" {
		c.Broken("not a G01 replay file")
		return true
	}
	j := rf.Scenario.Job
	if tabs[j.Table] == nil {
		c.Broken("no model table %q", j.Table)
		return true
	}
	// the outcome of a script may depend on a race inside the listener: repeat the
	// recorded script until it fails again (at most 25 times)
	old := debug.SetGCPercent(-1)
	defer debug.SetGCPercent(old)
	var st Stats
	for i := 0; i < 25 && c.Failures() == 0 && !c.IsBroken(); i++ {
		RunJob(c, tabs, j, &st)
	}
	c.Add("traces_validated_against_impl", st.Conform)
	return true
}
