package ccblisten

import (
	"context"
	"crypto/rand"
	"encoding/binary"
	"encoding/hex"
	"errors"
	"fmt"
	"io"
	"log/slog"
	"net"
	"strings"
	"sync"
	"syscall"
	"time"

	"github.com/PelicanPlatform/classad/classad"
	"github.com/bbockelm/cedar/ccb"
	"github.com/bbockelm/cedar/message"
	"github.com/bbockelm/cedar/security"
	cedarserver "github.com/bbockelm/cedar/server"
	"github.com/bbockelm/cedar/stream"
)

// Params are the choices the model leaves to the harness.
type Params struct {
	Salt      int  `json:"salt"`      // selects the concrete member of each abstract class
	Slow      bool `json:"slow"`      // long waits (re-run of a difference)
	Companion bool `json:"companion"` // the listener has a second broker whose registration must stay undisturbed
	Burst     int  `json:"burst"`     // concrete requests per model request (deterministic scripts only)
	Shared    bool `json:"shared"`    // requests that are accepted all point at one requester address
}

type timing struct {
	wait   time.Duration // bound of a wait for something the model says must happen
	settle time.Duration // how long to look for something the model says may happen
	grace  time.Duration // how long a connection may take to be seen closed
	tick   time.Duration // bound of the wait for a heartbeat
	read   time.Duration // a requester waits this long for hello and hand-off marker
}

func timingOf(p Params) timing {
	if p.Slow {
		return timing{wait: 40 * time.Second, settle: 3 * time.Second, grace: 8 * time.Second, tick: 50 * time.Second, read: 10 * time.Second}
	}
	return timing{wait: 6 * time.Second, settle: 300 * time.Millisecond, grace: 2 * time.Second, tick: 38 * time.Second, read: 3 * time.Second}
}

// ReplyObs is one result ad the broker received for a request.
type ReplyObs struct {
	Conn int    `json:"conn"` // 1-based index of the broker connection it arrived on
	Res  string `json:"res"`  // ok | fail | badecho (ClaimId / MyAddress not those of the request) | noresult
}

// ReqObs is what the environment saw of one concrete request.
type ReqObs struct {
	R       int        `json:"r"` // model request (1-based)
	K       int        `json:"k"` // member of the burst
	Target  string     `json:"target"`
	Conn    int        `json:"conn"` // forwarded on this broker connection
	Replies []ReplyObs `json:"replies"`
	Hellos  []string   `json:"hellos"`  // per dial-back connection: own | ownBadMeta | other | wrong | garbled | silent
	Handler []string   `json:"handler"` // per dial-back connection: own | other | none
	Cut     int        `json:"cut"`     // dial-back connections that ended before a complete hello
}

// Obs is the projection of one real run, for one broker.
type Obs struct {
	Broker     string   `json:"broker"` // main | companion
	Trace      []Ev     `json:"trace"`
	Reqs       []ReqObs `json:"reqs"`
	Conns      []string `json:"conns"`        // closed | open | bclosed (the broker closed it itself)
	Shown      int      `json:"shown"`        // contacts of this broker in Contacts() after Run returned
	ShownAtReg []string `json:"shown_at_reg"` // contacts of this broker shown when a re-registration arrived
	Granted    []string `json:"granted"`      // after each grant: shown | other:<x> | never
	Garbled    []string `json:"garbled"`      // messages on a broker connection that are no well-formed expected ad
	Alive      int      `json:"alive"`        // heartbeats received
	RunErr     string   `json:"run_err"`
	Liveness   string   `json:"liveness"`  // first bounded wait that expired: what the model says must happen did not
	Abandoned  string   `json:"abandoned"` // why the script was cut short
	BadReg     []string `json:"bad_reg"`   // registration ads with the wrong command / name
}

var silence sync.Once

// Quiet silences cedar's logging for the replay.
func Quiet() {
	silence.Do(func() {
		slog.SetDefault(slog.New(slog.NewTextHandler(io.Discard, &slog.HandlerOptions{Level: slog.LevelError + 4})))
	})
}

func plaintextSec() *security.SecurityConfig {
	return &security.SecurityConfig{
		AuthMethods:    []security.AuthMethod{},
		Authentication: security.SecurityNever,
		Encryption:     security.SecurityNever,
		Integrity:      security.SecurityNever,
		RemoteVersion:  "$CondorVersion: 25.13.0 2026-06-21 BuildID: verif $",
		SessionCache:   security.NewSessionCache(),
	}
}

func randHex(n int) string {
	b := make([]byte, n)
	_, _ = rand.Read(b)
	return hex.EncodeToString(b)
}

// ---------------------------------------------------------------- requesters

type member struct {
	r, k               int
	target             string
	id, rid, addrAttr  string
	route, orig, prior string
	hasAddr            bool
	conn               int
	mu                 sync.Mutex
	replies            []ReplyObs
	hellos             []string
	handler            []string
	cut                int // dial-back connections that ended before a complete hello
}

func (m *member) snapshot() (nrep int, lastOK bool, hellos, handed int) {
	m.mu.Lock()
	defer m.mu.Unlock()
	for _, r := range m.replies {
		if r.Res == "ok" {
			lastOK = true
		}
	}
	return len(m.replies), lastOK, len(m.hellos), len(m.handler)
}

// rsock is a scripted requester: a listening socket the dial-back reaches.
type rsock struct {
	ln      net.Listener
	addr    string
	owner   *member // the member whose request names this address (first one if shared)
	env     *env
	wg      sync.WaitGroup
	readFor time.Duration
}

// env is what all brokers of one run share.
type env struct {
	mu      sync.Mutex
	members []*member
	socks   []*rsock
	holds   []int // reserved (bound, not listening) sockets
	shared  *rsock
	t       timing
	nonce   string
}

func (e *env) byID(id string) *member {
	e.mu.Lock()
	defer e.mu.Unlock()
	for _, m := range e.members {
		if m.id == id && id != "" {
			return m
		}
	}
	return nil
}

func (e *env) newSock(owner *member) (*rsock, error) {
	ln, err := net.Listen("tcp", "127.0.0.1:0")
	if err != nil {
		return nil, err
	}
	s := &rsock{ln: ln, addr: ln.Addr().String(), owner: owner, env: e, readFor: e.t.read}
	e.mu.Lock()
	e.socks = append(e.socks, s)
	e.mu.Unlock()
	go s.acceptLoop()
	return s, nil
}

func (s *rsock) acceptLoop() {
	for {
		c, err := s.ln.Accept()
		if err != nil {
			return
		}
		s.wg.Add(1)
		go func() {
			defer s.wg.Done()
			s.serve(c)
		}()
	}
}

func (s *rsock) serve(c net.Conn) {
	defer c.Close()
	_ = c.SetDeadline(time.Now().Add(s.readFor))
	ctx := context.Background()
	st := stream.NewStream(c)
	msg := message.NewMessageFromStream(st)
	cmd, err := msg.GetInt(ctx)
	var ad *classad.ClassAd
	if err == nil {
		ad, err = ccb.ReadReverseConnectAd(ctx, msg, cmd)
	}
	if err != nil {
		cls := "garbled"
		var ne net.Error
		if errors.As(err, &ne) && ne.Timeout() {
			cls = "silent"
		}
		if isClosedErr(err) {
			// the connection ended before a complete hello: no hello (a dial-back cut
			// short by the end of the context); a request that is reported as served
			// without any hello is caught by ReplyMatchesOutcome
			s.owner.mu.Lock()
			s.owner.cut++
			s.owner.mu.Unlock()
			return
		}
		s.owner.mu.Lock()
		s.owner.hellos = append(s.owner.hellos, cls)
		s.owner.handler = append(s.owner.handler, "none")
		s.owner.mu.Unlock()
		return
	}
	id := ccb.AdString(ad, ccb.AttrClaimID)
	m := s.env.byID(id)
	s.env.mu.Lock()
	isShared := s == s.env.shared
	s.env.mu.Unlock()
	tgt := s.owner
	cls := "wrong"
	switch {
	case m != nil && (m == s.owner || (isShared && m.target == "accept")):
		tgt = m
		cls = "own"
		if ccb.AdString(ad, ccb.AttrRequestID) != m.rid || ccb.AdString(ad, ccb.AttrMyAddress) != m.addrAttr {
			cls = "ownBadMeta"
		}
	case m != nil:
		cls = "other"
	}
	// what the handler writes once the connection is its own
	hcls := "none"
	mad, err := ccb.ReadControlAd(ctx, st)
	if err == nil {
		if ccb.AdString(mad, "VerifRoute") == tgt.route && ccb.AdString(mad, "VerifOrig") == tgt.orig &&
			ccb.AdString(mad, "VerifPrior") == tgt.prior && ccb.AdString(mad, "VerifNonce") == s.env.nonce {
			hcls = "own"
		} else {
			hcls = "other"
		}
	}
	tgt.mu.Lock()
	tgt.hellos = append(tgt.hellos, cls)
	tgt.handler = append(tgt.handler, hcls)
	tgt.mu.Unlock()
}

// reservePort binds a TCP socket without listening: connecting to it is refused,
// and nobody else can get the port while the run lasts.
func (e *env) reservePort() (string, error) {
	fd, err := syscall.Socket(syscall.AF_INET, syscall.SOCK_STREAM, 0)
	if err != nil {
		return "", err
	}
	sa := &syscall.SockaddrInet4{Port: 0, Addr: [4]byte{127, 0, 0, 1}}
	if err := syscall.Bind(fd, sa); err != nil {
		_ = syscall.Close(fd)
		return "", err
	}
	got, err := syscall.Getsockname(fd)
	if err != nil {
		_ = syscall.Close(fd)
		return "", err
	}
	e.mu.Lock()
	e.holds = append(e.holds, fd)
	e.mu.Unlock()
	return fmt.Sprintf("127.0.0.1:%d", got.(*syscall.SockaddrInet4).Port), nil
}

func (e *env) close() {
	e.mu.Lock()
	socks, holds := e.socks, e.holds
	e.socks, e.holds = nil, nil
	e.mu.Unlock()
	for _, s := range socks {
		_ = s.ln.Close()
	}
	for _, fd := range holds {
		_ = syscall.Close(fd)
	}
}

// ------------------------------------------------------------------- broker

type grant struct{ contact, cookie string }

type bconn struct {
	idx        int
	st         *stream.Stream
	conn       net.Conn
	presID     string
	presCk     string
	hasID      bool
	hasCk      bool
	wmu        sync.Mutex
	mu         sync.Mutex
	closedByUs bool
	reading    bool
	done       chan struct{} // reader finished
	end        string        // closed | open
	alive      int
}

type sim struct {
	name    string
	env     *env
	p       Params
	t       timing
	ln      net.Listener
	addr    string
	regCh   chan *bconn
	done    chan struct{}
	ctx     context.Context
	lname   string
	mu      sync.Mutex
	conns   []*bconn
	members []*member
	nreq    int
	grants  []grant
	mem     *grant // what the listener should remember: the last grant
	o       *Obs
}

func newSim(ctx context.Context, name string, e *env, p Params, lname string) (*sim, error) {
	ln, err := net.Listen("tcp", "127.0.0.1:0")
	if err != nil {
		return nil, err
	}
	s := &sim{name: name, env: e, p: p, t: e.t, ln: ln, addr: ln.Addr().String(), regCh: make(chan *bconn, 16),
		done: make(chan struct{}), ctx: ctx, lname: lname, o: &Obs{Broker: name}}
	srv := cedarserver.New(plaintextSec())
	srv.Handle(ccb.CommandRegister, func(hctx context.Context, c *cedarserver.Conn) error {
		rctx, cancel := context.WithTimeout(hctx, 10*time.Second)
		ad, err := ccb.ReadControlAd(rctx, c.Stream)
		cancel()
		if err != nil {
			return err
		}
		bc := &bconn{st: c.Stream, conn: c.Stream.GetConnection(), done: make(chan struct{})}
		bc.presID = ccb.AdString(ad, ccb.AttrCCBID)
		bc.presCk = ccb.AdString(ad, ccb.AttrClaimID)
		_, bc.hasID = ad.Lookup(ccb.AttrCCBID)
		_, bc.hasCk = ad.Lookup(ccb.AttrClaimID)
		if cmd, _ := ccb.AdInt(ad, ccb.AttrCommand); int(cmd) != ccb.CommandRegister || ccb.AdString(ad, ccb.AttrName) != s.lname {
			s.mu.Lock()
			s.o.BadReg = append(s.o.BadReg, fmt.Sprintf("Command=%d Name=%q", cmd, ccb.AdString(ad, ccb.AttrName)))
			s.mu.Unlock()
		}
		select {
		case s.regCh <- bc:
		case <-s.done:
			return nil
		}
		<-s.done // the script owns the connection from here on
		return nil
	})
	go func() { _ = srv.Serve(ctx, ln) }()
	return s, nil
}

func (s *sim) cur() *bconn {
	s.mu.Lock()
	defer s.mu.Unlock()
	if len(s.conns) == 0 {
		return nil
	}
	return s.conns[len(s.conns)-1]
}

// classify what a registration presents against what the broker has granted
func (s *sim) presClass(bc *bconn) string {
	if !bc.hasID && !bc.hasCk {
		return "none"
	}
	if s.mem != nil && s.mem.cookie != "" && bc.presID == s.mem.contact && bc.presCk == s.mem.cookie {
		return "last"
	}
	for _, g := range s.grants {
		if bc.presID == g.contact && bc.presCk == g.cookie && g.cookie != "" {
			return "stale"
		}
	}
	return "wrong"
}

// contacts of this broker that the listener shows
func (s *sim) shown(l *ccb.Listener) []string {
	var out []string
	for _, c := range l.Contacts() {
		if strings.HasPrefix(c, s.addr+"#") {
			out = append(out, c)
		}
	}
	return out
}

func (bc *bconn) write(f func(ctx context.Context) error) error {
	bc.wmu.Lock()
	defer bc.wmu.Unlock()
	ctx, cancel := context.WithTimeout(context.Background(), 5*time.Second)
	defer cancel()
	_ = bc.conn.SetWriteDeadline(time.Now().Add(5 * time.Second))
	return f(ctx)
}

func isClosedErr(err error) bool {
	if err == nil {
		return false
	}
	if errors.Is(err, io.EOF) || errors.Is(err, io.ErrUnexpectedEOF) || errors.Is(err, net.ErrClosed) ||
		errors.Is(err, syscall.ECONNRESET) || errors.Is(err, syscall.EPIPE) || errors.Is(err, context.Canceled) {
		return true
	}
	msg := err.Error()
	return strings.Contains(msg, "use of closed network connection") || strings.Contains(msg, "connection reset")
}

func isTimeout(err error) bool {
	var ne net.Error
	return errors.As(err, &ne) && ne.Timeout()
}

// reader consumes what the listener writes on a broker connection until the
// connection ends.
func (s *sim) reader(bc *bconn) {
	defer close(bc.done)
	for {
		ad, err := ccb.ReadControlAd(s.ctx, bc.st)
		if err != nil {
			bc.mu.Lock()
			mine := bc.closedByUs
			bc.mu.Unlock()
			if mine || s.ctx.Err() != nil {
				return
			}
			if !isClosedErr(err) {
				s.mu.Lock()
				s.o.Garbled = append(s.o.Garbled, fmt.Sprintf("conn %d: unreadable message: %v", bc.idx, err))
				s.mu.Unlock()
			}
			bc.mu.Lock()
			bc.end = "closed"
			bc.mu.Unlock()
			return
		}
		s.classify(bc, ad)
	}
}

func (s *sim) classify(bc *bconn, ad *classad.ClassAd) {
	if cmd, ok := ccb.AdInt(ad, ccb.AttrCommand); ok {
		if _, isReply := ad.Lookup(ccb.AttrRequestID); int(cmd) == ccb.CommandAlive && !isReply {
			bc.mu.Lock()
			bc.alive++
			bc.mu.Unlock()
			return
		}
		s.mu.Lock()
		s.o.Garbled = append(s.o.Garbled, fmt.Sprintf("conn %d: unexpected ad %s", bc.idx, ad.String()))
		s.mu.Unlock()
		return
	}
	rid := ccb.AdString(ad, ccb.AttrRequestID)
	var m *member
	s.mu.Lock()
	for _, x := range s.members {
		if x.rid == rid {
			m = x
		}
	}
	s.mu.Unlock()
	if m == nil {
		s.mu.Lock()
		s.o.Garbled = append(s.o.Garbled, fmt.Sprintf("conn %d: ad that is neither a heartbeat nor the result of a forwarded request: %s", bc.idx, ad.String()))
		s.mu.Unlock()
		return
	}
	res := "noresult"
	if v, ok := ccb.AdBool(ad, ccb.AttrResult); ok {
		res = "fail"
		if v {
			res = "ok"
		}
	}
	addrOK := ccb.AdString(ad, ccb.AttrMyAddress) == m.addrAttr
	if ccb.AdString(ad, ccb.AttrClaimID) != m.id || !addrOK {
		res = "badecho"
	}
	m.mu.Lock()
	m.replies = append(m.replies, ReplyObs{Conn: bc.idx, Res: res})
	m.mu.Unlock()
}

func (s *sim) startReader(bc *bconn) {
	bc.mu.Lock()
	if bc.reading {
		bc.mu.Unlock()
		return
	}
	bc.reading = true
	bc.mu.Unlock()
	go s.reader(bc)
}

func garbageBytes(salt int) []byte {
	frame := func(body []byte) []byte {
		h := make([]byte, 5)
		h[0] = 1
		binary.BigEndian.PutUint32(h[1:], uint32(len(body)))
		return append(h, body...)
	}
	i64 := func(v int64) []byte {
		b := make([]byte, 8)
		binary.BigEndian.PutUint64(b, uint64(v))
		return b
	}
	switch salt % 6 {
	case 0: // a well-framed message that is no ClassAd
		body := make([]byte, 64)
		_, _ = rand.Read(body)
		body[0] |= 0x80 // a negative expression count
		return frame(body)
	case 1: // a frame announcing an absurd length
		return []byte{1, 0x7f, 0xff, 0xff, 0xff, 1, 2, 3, 4, 5, 6, 7, 8}
	case 2: // one expression without '='
		return frame(append(i64(1), []byte("no equals sign here\x00\x00\x00")...))
	case 3: // an expression count the message does not hold
		return frame(append(i64(1000), []byte("A = 1\x00")...))
	case 4: // a ClassAd larger than any control ad may be
		big := make([]byte, 70*1024)
		for i := range big {
			big[i] = 'x'
		}
		body := append(i64(1), []byte("A = \"")...)
		body = append(body, big...)
		body = append(body, []byte("\"\x00\x00\x00")...)
		return frame(body)
	default: // an empty message
		return frame(nil)
	}
}

func (s *sim) answer(bc *bconn, a string, salt int) {
	switch a {
	case "fresh", "nocookie", "same":
		var g grant
		switch a {
		case "same":
			g = grant{bc.presID, bc.presCk}
		default:
			g = grant{fmt.Sprintf("%s#%d", s.addr, 1000*(salt%7+1)+len(s.grants)+1), randHex(8 + salt%9)}
			if a == "nocookie" {
				g.cookie = ""
			}
		}
		fields := map[string]any{ccb.AttrCCBID: g.contact, ccb.AttrCommand: ccb.CommandRegister}
		if g.cookie != "" {
			fields[ccb.AttrClaimID] = g.cookie
		} else if salt%2 == 1 {
			fields[ccb.AttrClaimID] = ""
		}
		if salt%3 == 0 {
			fields[ccb.AttrCCBStreaming] = salt%2 == 0
		}
		s.grants = append(s.grants, g)
		s.mem = &g
		s.startReader(bc)
		_ = bc.write(func(ctx context.Context) error { return ccb.WriteControlAd(ctx, bc.st, ccb.NewAd(fields)) })
	case "refuse":
		var ad *classad.ClassAd
		switch salt % 3 {
		case 0:
			ad = ccb.NewAd(map[string]any{ccb.AttrResult: false, ccb.AttrErrorString: "scripted broker says no"})
		case 1:
			ad = ccb.NewAd(map[string]any{ccb.AttrCCBID: "", ccb.AttrClaimID: randHex(8)})
		default:
			ad = ccb.NewAd(map[string]any{ccb.AttrName: "scripted broker"})
		}
		s.startReader(bc)
		_ = bc.write(func(ctx context.Context) error { return ccb.WriteControlAd(ctx, bc.st, ad) })
	case "hangup":
		bc.mu.Lock()
		bc.closedByUs = true
		bc.mu.Unlock()
		_ = bc.conn.Close()
	case "garbage":
		_ = bc.write(func(ctx context.Context) error { _, err := bc.conn.Write(garbageBytes(salt)); return err })
		s.startReader(bc)
	}
}

func (s *sim) forward(bc *bconn, r int, target string, burst int, salt int) error {
	for k := 0; k < burst; k++ {
		m := &member{r: r, k: k, target: target, id: randHex(20), conn: bc.idx}
		s.mu.Lock()
		s.nreq++
		m.rid = fmt.Sprint(100*(salt%50+1) + s.nreq)
		s.mu.Unlock()
		if s.name != "main" {
			m.rid = "9" + m.rid
		}
		if (salt+r+k)%2 == 0 {
			m.route = fmt.Sprintf("route-%d-%d-%s", r, k, randHex(3))
			m.orig = "orig-" + randHex(3)
			m.prior = "<prior-" + randHex(3) + ">"
		}
		switch target {
		case "accept":
			var rs *rsock
			var err error
			if s.p.Shared {
				s.env.mu.Lock()
				rs = s.env.shared
				s.env.mu.Unlock()
			}
			if rs == nil {
				if rs, err = s.env.newSock(m); err != nil {
					return err
				}
				if s.p.Shared {
					s.env.mu.Lock()
					s.env.shared = rs
					s.env.mu.Unlock()
				}
			}
			m.addrAttr, m.hasAddr = "<"+rs.addr+">", true
			if (salt+k)%4 == 3 {
				m.addrAttr = rs.addr // brackets are optional
			}
		case "refuse":
			a, err := s.env.reservePort()
			if err != nil {
				return err
			}
			m.addrAttr, m.hasAddr = "<"+a+">", true
		default: // noaddr
			if burst > 1 {
				// a long unusable address: the result ad echoes it (once as MyAddress, twice more
				// inside ErrorString; the whole ad must stay below the 64 KiB a control ad may
				// have), so the listener's writes to the broker are long and the members'
				// handlers write at about the same time
				m.addrAttr, m.hasAddr = fmt.Sprintf("<no usable address %d.%d %s>", r, k, strings.Repeat("x", 6000+(salt+7*k)%9000)), true
				break
			}
			switch (salt + k) % 3 {
			case 0:
				m.hasAddr = false
			case 1:
				m.addrAttr, m.hasAddr = "", true
			default:
				m.addrAttr, m.hasAddr = "<no usable address>", true
			}
		}
		s.env.mu.Lock()
		s.env.members = append(s.env.members, m)
		s.env.mu.Unlock()
		s.mu.Lock()
		s.members = append(s.members, m)
		s.mu.Unlock()
		fields := map[string]any{ccb.AttrCommand: ccb.CommandRequest, ccb.AttrClaimID: m.id, ccb.AttrRequestID: m.rid,
			ccb.AttrName: "scripted requester"}
		if m.hasAddr {
			fields[ccb.AttrMyAddress] = m.addrAttr
		}
		if m.route != "" {
			fields[ccb.AttrCCBRoute] = m.route
			fields[ccb.AttrCCBOriginalRequester] = m.orig
			fields[ccb.AttrCCBPriorHop] = m.prior
		}
		_ = bc.write(func(ctx context.Context) error { return ccb.WriteControlAd(ctx, bc.st, ccb.NewAd(fields)) })
	}
	return nil
}

func (s *sim) send(bc *bconn, m string, salt int) {
	switch m {
	case "alive":
		_ = bc.write(func(ctx context.Context) error {
			return ccb.WriteControlAd(ctx, bc.st, ccb.NewAd(map[string]any{ccb.AttrCommand: ccb.CommandAlive}))
		})
	case "unknown":
		var ad *classad.ClassAd
		switch salt % 4 {
		case 0:
			ad = ccb.NewAd(map[string]any{ccb.AttrCommand: 99999})
		case 1:
			ad = ccb.NewAd(map[string]any{ccb.AttrName: "no command at all"})
		case 2:
			ad = ccb.NewAd(map[string]any{ccb.AttrCommand: "sixty-eight", ccb.AttrClaimID: randHex(20)})
		default:
			ad = ccb.NewAd(map[string]any{ccb.AttrCommand: ccb.CommandRegister, ccb.AttrCCBID: "x#1"})
		}
		_ = bc.write(func(ctx context.Context) error { return ccb.WriteControlAd(ctx, bc.st, ad) })
	case "malformed":
		_ = bc.write(func(ctx context.Context) error { _, err := bc.conn.Write(garbageBytes(salt)); return err })
	}
}

// atRest: every request forwarded on the current connection has its reply, and
// where the reply says success the requester has seen the hello and the hand-off.
func (s *sim) atRest() bool {
	bc := s.cur()
	if bc == nil {
		return false
	}
	s.mu.Lock()
	ms := append([]*member{}, s.members...)
	s.mu.Unlock()
	for _, m := range ms {
		if m.conn != bc.idx {
			continue
		}
		n, ok, h, hd := m.snapshot()
		if n == 0 || (ok && (h == 0 || hd == 0)) {
			return false
		}
	}
	return true
}

// ---------------------------------------------------------------------- run

// Run performs one script (and, with p.Companion, the companion's) against a real
// ccb.Listener.  obs[0] is the main broker's observation.
func Run(script []Ev, p Params) ([]*Obs, error) {
	Quiet()
	if p.Burst < 1 {
		p.Burst = 1
	}
	e := &env{t: timingOf(p), nonce: randHex(6)}
	defer e.close()
	srvCtx, srvCancel := context.WithCancel(context.Background())
	lname := "verif-listener-" + randHex(3)
	var sims []*sim
	defer func() {
		for _, s := range sims {
			close(s.done)
		}
		srvCancel()
		for _, s := range sims {
			_ = s.ln.Close()
			s.mu.Lock()
			for _, bc := range s.conns {
				_ = bc.conn.Close()
			}
			s.mu.Unlock()
		drain:
			for {
				select {
				case bc := <-s.regCh:
					_ = bc.conn.Close()
				default:
					break drain
				}
			}
		}
	}()
	main, err := newSim(srvCtx, "main", e, p, lname)
	if err != nil {
		return nil, err
	}
	sims = append(sims, main)
	var comp *sim
	if p.Companion {
		if comp, err = newSim(srvCtx, "companion", e, p, lname); err != nil {
			return nil, err
		}
		sims = append(sims, comp)
	}
	fmtAddr := func(a string, i int) string {
		if (p.Salt+i)%3 == 1 {
			return "<" + a + ">"
		}
		return a
	}
	lc := ccb.ListenerConfig{Security: plaintextSec(), Name: lname,
		HeartbeatInterval: time.Second, // below the floor: 30 s apply
		ReconnectInterval: 40 * time.Millisecond, DialTimeout: 2 * time.Second}
	if p.Salt%2 == 0 {
		lc.HeartbeatInterval = 30 * time.Second
	}
	switch {
	case comp != nil && p.Salt%2 == 0:
		lc.BrokerAddrs = []string{fmtAddr(comp.addr, 1), fmtAddr(main.addr, 0)}
	case comp != nil:
		lc.BrokerAddrs = []string{fmtAddr(main.addr, 0)}
		lc.BrokerAddr = fmtAddr(comp.addr, 1)
	case p.Salt%5 == 0:
		lc.BrokerAddr = fmtAddr(main.addr, 0)
	default:
		lc.BrokerAddrs = []string{fmtAddr(main.addr, 0)}
	}
	// brackets are optional in a broker address, but Contacts() is built from what the
	// broker grants, so the scripted broker's own notion of its address is what counts
	lc.Handler = func(conn net.Conn, meta ccb.InboundMeta) {
		defer conn.Close()
		_ = conn.SetWriteDeadline(time.Now().Add(5 * time.Second))
		ad := ccb.NewAd(map[string]any{"VerifRoute": meta.Route, "VerifOrig": meta.OriginalRequester,
			"VerifPrior": meta.PriorHop, "VerifNonce": e.nonce})
		_ = ccb.WriteControlAd(context.Background(), stream.NewStream(conn), ad)
	}
	l := ccb.NewListener(lc)
	ctx, cancel := context.WithCancel(context.Background())
	defer cancel()
	runDone := make(chan error, 1)
	go func() { runDone <- l.Run(ctx) }()

	// the companion registers and has one request served before the main script starts
	if comp != nil {
		cs := []Ev{{E: "reg", P: "none"}, {E: "ans", A: "fresh"}, {E: "fwd", T: "accept", Q: true}}
		comp.play(l, cs, nil, 1)
		comp.awaitRest(l)
		if comp.o.Liveness != "" || comp.o.Abandoned != "" {
			// nothing to pair with: finish both
			main.o.Abandoned = "the companion broker's registration did not come up"
		}
	}
	if main.o.Abandoned == "" {
		main.play(l, script, func(q bool) {
			// just before the main script ends the context: the companion's registration is
			// still there and still serves
			if comp == nil {
				return
			}
			if q && comp.o.Liveness == "" && comp.o.Abandoned == "" {
				comp.play(l, []Ev{{E: "fwd", T: "refuse", Q: true}}, nil, 1)
				comp.awaitRest(l)
			}
			if len(comp.shown(l)) != 1 {
				comp.o.Granted = append(comp.o.Granted, "lost")
			}
			comp.poll()
		}, p.Burst)
	}
	// end of the context (if the script did not get there)
	endTrace := func(s *sim, q bool) {
		if n := len(s.o.Trace); n == 0 || s.o.Trace[n-1].E != "cancel" {
			s.o.Trace = append(s.o.Trace, Ev{E: "cancel", Q: q})
		}
	}
	endTrace(main, false)
	if comp != nil {
		endTrace(comp, comp.o.Liveness == "" && comp.o.Abandoned == "" && comp.atRest())
	}
	cancel()
	var runErr error
	returned := false
	select {
	case runErr = <-runDone:
		returned = true
	case <-time.After(e.t.wait):
	}
	for _, s := range sims {
		if !returned && s.o.Liveness == "" {
			s.o.Liveness = "NoReturn"
		}
		if returned && !errors.Is(runErr, context.Canceled) {
			s.o.RunErr = fmt.Sprint(runErr)
		}
		s.o.Shown = len(s.shown(l))
	}
	// stragglers: requests that were in flight
	settleUntil := time.Now().Add(e.t.settle)
	for time.Now().Before(settleUntil) {
		busy := false
		for _, s := range sims {
			s.mu.Lock()
			ms := append([]*member{}, s.members...)
			s.mu.Unlock()
			for _, m := range ms {
				n, ok, h, hd := m.snapshot()
				if m.target == "accept" && (h == 0 || hd == 0 || n == 0 || !ok) {
					busy = true
				}
			}
		}
		if !busy {
			break
		}
		time.Sleep(5 * time.Millisecond)
	}
	for _, s := range sims {
		s.finish()
	}
	// requesters: no more dial-backs are looked at; those being read are waited for
	e.mu.Lock()
	socks := append([]*rsock{}, e.socks...)
	e.mu.Unlock()
	for _, rs := range socks {
		_ = rs.ln.Close()
	}
	for _, rs := range socks {
		rs.wg.Wait()
	}
	var out []*Obs
	for _, s := range sims {
		s.collect()
		out = append(out, s.o)
	}
	return out, nil
}

// poll notes a registration the script was not waiting for.
func (s *sim) poll() *bconn {
	select {
	case bc := <-s.regCh:
		return bc
	default:
		return nil
	}
}

func (s *sim) takeReg(l *ccb.Listener, bc *bconn) {
	s.mu.Lock()
	bc.idx = len(s.conns) + 1
	s.conns = append(s.conns, bc)
	s.mu.Unlock()
	s.o.Trace = append(s.o.Trace, Ev{E: "reg", P: s.presClass(bc)})
	if bc.idx > 1 {
		s.o.ShownAtReg = append(s.o.ShownAtReg, strings.Join(s.shown(l), " "))
	}
}

// awaitRest waits until the listener is at rest; it reports false if a wait expired
// or an unexpected registration arrived (both recorded).
func (s *sim) awaitRest(l *ccb.Listener) bool {
	deadline := time.Now().Add(s.t.wait)
	for {
		if bc := s.poll(); bc != nil {
			s.takeReg(l, bc)
			s.o.Abandoned = "a registration arrived while the connection was up and the script had not dropped it"
			return false
		}
		if s.atRest() {
			return true
		}
		if time.Now().After(deadline) {
			if s.o.Liveness == "" {
				s.o.Liveness = "NoReply"
				if bc := s.cur(); bc != nil {
					select {
					case <-bc.done: // the listener has closed the connection and did not come back
						s.o.Liveness = "NoRegistration"
					default:
					}
				}
			}
			return false
		}
		time.Sleep(2 * time.Millisecond)
	}
}

// play performs a script.  beforeCancel runs just before the context is ended by the
// script (the caller ends it).  It returns when the script is over or cut short.
func (s *sim) play(l *ccb.Listener, script []Ev, beforeCancel func(q bool), burst int) {
	salt := s.p.Salt
	for i, ev := range script {
		salt = salt*31 + 7
		if salt < 0 {
			salt = -salt
		}
		if ev.E != "reg" && ev.E != "cancel" {
			if bc := s.poll(); bc != nil {
				s.takeReg(l, bc)
				s.o.Abandoned = "a registration arrived that the script did not expect"
				return
			}
		}
		switch ev.E {
		case "reg":
			wait := s.t.wait
			optional := i > 0 && script[i-1].E == "snd" && script[i-1].M == "malformed"
			if optional {
				wait = s.t.settle
			}
			select {
			case bc := <-s.regCh:
				s.takeReg(l, bc)
			case <-time.After(wait):
				if optional {
					s.o.Abandoned = "the malformed message did not make the listener reconnect"
				} else if s.o.Liveness == "" {
					s.o.Liveness = "NoRegistration"
				}
				return
			}
		case "ans":
			bc := s.cur()
			s.o.Trace = append(s.o.Trace, ev)
			s.answer(bc, ev.A, salt)
			if ev.A == "fresh" || ev.A == "same" || ev.A == "nocookie" {
				want := s.mem.contact
				deadline := time.Now().Add(s.t.wait)
				for {
					sh := s.shown(l)
					if len(sh) == 1 && sh[0] == want {
						s.o.Granted = append(s.o.Granted, "shown")
						break
					}
					if len(sh) > 0 {
						s.o.Granted = append(s.o.Granted, "other:"+strings.Join(sh, " "))
						break
					}
					if time.Now().After(deadline) {
						s.o.Granted = append(s.o.Granted, "never")
						if s.o.Liveness == "" {
							s.o.Liveness = "NoContact"
						}
						return
					}
					time.Sleep(2 * time.Millisecond)
				}
			}
		case "fwd":
			if ev.Q && !s.awaitRest(l) {
				return
			}
			s.o.Trace = append(s.o.Trace, ev)
			if err := s.forward(s.cur(), s.nextR(), ev.T, burst, salt); err != nil {
				s.o.Abandoned = "harness: " + err.Error()
				return
			}
		case "snd":
			if !s.awaitRest(l) {
				return
			}
			s.o.Trace = append(s.o.Trace, ev)
			s.send(s.cur(), ev.M, salt)
			if ev.M == "malformed" && !(i+1 < len(script) && script[i+1].E == "reg") {
				// the script goes on as if the message had been skipped: see whether it was
				select {
				case bc := <-s.regCh:
					s.takeReg(l, bc)
					s.o.Abandoned = "the malformed message made the listener reconnect"
					return
				case <-time.After(s.t.settle):
				}
			}
		case "drop":
			if ev.Q && !s.awaitRest(l) {
				return
			}
			bc := s.cur()
			s.o.Trace = append(s.o.Trace, ev)
			bc.mu.Lock()
			bc.closedByUs = true
			bc.mu.Unlock()
			_ = bc.conn.Close()
		case "tick":
			if !s.awaitRest(l) {
				return
			}
			bc := s.cur()
			deadline := time.Now().Add(s.t.tick)
			for {
				bc.mu.Lock()
				n := bc.alive
				bc.mu.Unlock()
				if n > 0 {
					break
				}
				if nb := s.poll(); nb != nil {
					s.takeReg(l, nb)
					s.o.Abandoned = "a registration arrived while waiting for a heartbeat"
					return
				}
				if time.Now().After(deadline) {
					if s.o.Liveness == "" {
						s.o.Liveness = "NoHeartbeat"
					}
					return
				}
				time.Sleep(10 * time.Millisecond)
			}
			s.o.Trace = append(s.o.Trace, ev)
		case "cancel":
			if ev.Q && !s.awaitRest(l) {
				return
			}
			if beforeCancel != nil {
				beforeCancel(ev.Q)
			}
			if bc := s.poll(); bc != nil {
				s.takeReg(l, bc)
			}
			s.o.Trace = append(s.o.Trace, ev)
			return
		}
	}
}

func (s *sim) nextR() int {
	s.mu.Lock()
	defer s.mu.Unlock()
	r := 0
	for _, m := range s.members {
		if m.r > r {
			r = m.r
		}
	}
	return r + 1
}

// finish determines the state of the listener's end of every broker connection.
func (s *sim) finish() {
	// registrations that arrived and were never looked at (after the context ended) are
	// not part of the trace, but their connections must be closed like all others
	for {
		bc := s.poll()
		if bc == nil {
			break
		}
		s.mu.Lock()
		bc.idx = len(s.conns) + 1
		s.conns = append(s.conns, bc)
		s.mu.Unlock()
	}
	s.mu.Lock()
	conns := append([]*bconn{}, s.conns...)
	s.mu.Unlock()
	var wg sync.WaitGroup
	for _, bc := range conns {
		bc.mu.Lock()
		mine := bc.closedByUs
		bc.mu.Unlock()
		if mine {
			bc.end = "bclosed"
			continue
		}
		s.startReader(bc)
		wg.Add(1)
		go func(bc *bconn) {
			defer wg.Done()
			select {
			case <-bc.done:
				bc.mu.Lock()
				if bc.end == "" {
					bc.end = "closed"
				}
				bc.mu.Unlock()
			case <-time.After(s.t.grace):
				bc.mu.Lock()
				bc.end = "open"
				bc.mu.Unlock()
			}
		}(bc)
	}
	wg.Wait()
}

func (s *sim) collect() {
	s.mu.Lock()
	defer s.mu.Unlock()
	nTrace := 0
	for _, e := range s.o.Trace {
		if e.E == "reg" {
			nTrace++
		}
	}
	for i, bc := range s.conns {
		bc.mu.Lock()
		if i < nTrace {
			s.o.Conns = append(s.o.Conns, bc.end)
		} else if bc.end == "open" {
			// a registration that raced with the end of the context and was left open
			s.o.Conns = append(s.o.Conns, "open")
		}
		s.o.Alive += bc.alive
		bc.mu.Unlock()
	}
	for _, m := range s.members {
		m.mu.Lock()
		s.o.Reqs = append(s.o.Reqs, ReqObs{R: m.r, K: m.k, Target: m.target, Conn: m.conn,
			Replies: append([]ReplyObs{}, m.replies...), Hellos: append([]string{}, m.hellos...),
			Handler: append([]string{}, m.handler...), Cut: m.cut})
		m.mu.Unlock()
	}
}
