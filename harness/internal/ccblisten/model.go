// Package ccblisten binds CCBListener.tla (growth module G01) to the real
// ccb.Listener.  A behaviour printed by Gen_CCBListener is a script of what
// the ENVIRONMENT does and sees in order -- a registration arriving at the
// scripted broker and what it presents, the broker's answer, requests it
// forwards and where they point, other messages, dropped connections, a
// heartbeat arriving, the end of the caller's context -- together with one
// admissible outcome (replies per request, hello and handler hand-off per
// dial-back, state of every broker connection, what Contacts() shows).  All
// behaviours with the same script give the set of admissible outcomes.
//
// The replayer runs the real listener against scripted brokers built on
// cedar's own server package (so the CCB_REGISTER security handshake is the
// real one; only the CCB level is scripted) and scripted requesters that
// accept the dial-back, refuse it, or have no usable address, performs the
// script, and compares what it observes with that set.
package ccblisten

import (
	"encoding/json"
	"fmt"
	"sort"
	"strings"
)

// Ev is one recorded step of a behaviour.
type Ev struct {
	E string `json:"e"`           // reg | ans | fwd | snd | drop | tick | cancel
	P string `json:"p,omitempty"` // reg: what the registration presents (none | last; observed also: stale | wrong)
	A string `json:"a,omitempty"` // ans: fresh | same | nocookie | refuse | hangup | garbage
	T string `json:"t,omitempty"` // fwd: accept | refuse | noaddr
	M string `json:"m,omitempty"` // snd: alive | unknown | malformed
	Q bool   `json:"q,omitempty"` // fwd / drop / cancel: the harness waited for the listener to be at rest first
}

func (e Ev) String() string {
	q := ""
	if !e.Q {
		q = "!" // fired at once
	}
	switch e.E {
	case "reg":
		return "reg:" + e.P
	case "ans":
		return "ans:" + e.A
	case "fwd":
		return "fwd:" + e.T + q
	case "snd":
		return "snd:" + e.M
	case "drop":
		return "drop" + q
	case "cancel":
		return "cancel" + q
	}
	return e.E
}

func Key(tr []Ev) string {
	p := make([]string, len(tr))
	for i, e := range tr {
		p[i] = e.String()
	}
	return strings.Join(p, ";")
}

// ReqOut is the model's projection of one forwarded request.
type ReqOut struct {
	Rep    int    `json:"rep"`    // replies the broker received
	On     int    `json:"on"`     // connection (1-based) the reply arrived on, 0 if none
	Res    string `json:"res"`    // ok | fail | none
	Hello  string `json:"hello"`  // own | none
	Handed bool   `json:"handed"` // the dial-back connection reached the handler
}

// Out is the model's projection of a finished run.
type Out struct {
	Reqs  []ReqOut `json:"reqs"`
	Conns []string `json:"conns"` // listener's end of every broker connection: closed
	Shown int      `json:"shown"` // what Contacts() shows for the broker after Run returned (0 = nothing)
}

func (o Out) String() string {
	b, _ := json.Marshal(o)
	return string(b)
}

type Behaviour struct {
	Trace []Ev `json:"trace"`
	Out   Out  `json:"out"`
}

// Table maps a script to its admissible outcomes.
type Table struct {
	Allowed  map[string][]Out
	Scripts  [][]Ev          // distinct scripts
	Prefixes map[string]bool // every prefix of every script (keys)
}

func BuildTable(raws []json.RawMessage) (*Table, error) {
	t := &Table{Allowed: map[string][]Out{}, Prefixes: map[string]bool{}}
	seenOut := map[string]bool{}
	for _, r := range raws {
		var b Behaviour
		if err := json.Unmarshal(r, &b); err != nil {
			return nil, err
		}
		k := Key(b.Trace)
		ok := k + "=>" + b.Out.String()
		if seenOut[ok] {
			continue
		}
		seenOut[ok] = true
		if _, have := t.Allowed[k]; !have {
			t.Scripts = append(t.Scripts, b.Trace)
			for i := 1; i <= len(b.Trace); i++ {
				t.Prefixes[Key(b.Trace[:i])] = true
			}
		}
		t.Allowed[k] = append(t.Allowed[k], b.Out)
	}
	sort.Slice(t.Scripts, func(i, j int) bool { return Key(t.Scripts[i]) < Key(t.Scripts[j]) })
	return t, nil
}

// Deterministic reports whether the model admits exactly one outcome for the script.
func (t *Table) Deterministic(sc []Ev) bool { return len(t.Allowed[Key(sc)]) == 1 }

// Has reports how often an event kind occurs in a script.
func Has(sc []Ev, e string) int {
	n := 0
	for _, x := range sc {
		if x.E == e {
			n++
		}
	}
	return n
}

func describe(sc []Ev) string { return fmt.Sprintf("[%s]", Key(sc)) }
