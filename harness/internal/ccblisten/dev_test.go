package ccblisten

import (
	"bufio"
	"encoding/json"
	"fmt"
	"math/rand"
	"os"
	"strconv"
	"strings"
	"sync"
	"testing"
)

func loadTab(t *testing.T, path string) *Table {
	f, err := os.Open(path)
	if err != nil {
		t.Skip(err)
	}
	defer f.Close()
	var raws []json.RawMessage
	sc := bufio.NewScanner(f)
	sc.Buffer(make([]byte, 1<<20), 1<<26)
	for sc.Scan() {
		line := sc.Text()
		if strings.HasPrefix(line, `"{\"trace\":`) {
			var s string
			if json.Unmarshal([]byte(line), &s) == nil {
				raws = append(raws, json.RawMessage(s))
			}
		}
	}
	tab, err := BuildTable(raws)
	if err != nil {
		t.Fatal(err)
	}
	return tab
}

func TestDev(t *testing.T) {
	name := os.Getenv("G01_TAB")
	if name == "" {
		name = "reg"
	}
	n, _ := strconv.Atoi(os.Getenv("G01_N"))
	if n == 0 {
		n = 20
	}
	seed, _ := strconv.Atoi(os.Getenv("G01_SEED"))
	tabs := map[string]*Table{name: loadTab(t, "/tmp/g01gen/out_"+name+".txt"), "req": loadTab(t, "/tmp/g01gen/out_req_quick.txt")}
	tab := tabs[name]
	rng := rand.New(rand.NewSource(int64(seed)))
	fmt.Println(len(tab.Scripts), "scripts")
	var wg sync.WaitGroup
	var mu sync.Mutex
	sem := make(chan struct{}, 8)
	bad := 0
	for i := 0; i < n; i++ {
		sc := tab.Scripts[rng.Intn(len(tab.Scripts))]
		if os.Getenv("G01_NOTICK") != "" && Has(sc, "tick") > 0 {
			continue
		}
		p := Params{Salt: rng.Intn(1 << 20), Companion: rng.Intn(4) == 0, Shared: rng.Intn(4) == 0}
		if tab.Deterministic(sc) && rng.Intn(3) == 0 {
			p.Burst = 6
		}
		wg.Add(1)
		sem <- struct{}{}
		go func() {
			defer wg.Done()
			defer func() { <-sem }()
			obs, err := Run(sc, p)
			if err != nil {
				t.Error(err)
				return
			}
			j := Job{Table: name, Script: sc, P: p}
			d, o := judge(tabs, j, obs)
			mu.Lock()
			defer mu.Unlock()
			if d != nil {
				bad++
				b, _ := json.Marshal(o)
				fmt.Printf("DIFF %+v\n  script %s params %+v\n  %s\n  obs %s\n", d.Sig, Key(sc), p, d.Detail, b)
			}
		}()
	}
	wg.Wait()
	fmt.Println("bad:", bad)
}
