package sessreal

import (
	"encoding/json"
	"fmt"
)

// Step is the observation record (`last`) of one SessionCache.tla step; the
// fields present depend on Act.
type Step struct {
	Act string `json:"act"`
	Sid int    `json:"sid,omitempty"`
	// Establish
	Keyed  bool `json:"keyed,omitempty"`
	Authed bool `json:"authed,omitempty"` // Establish: requested; Resume: restored status
	// Resume
	Tgt        int    `json:"tgt,omitempty"`
	Idv        string `json:"idv,omitempty"`
	Proof      string `json:"proof,omitempty"`
	From       string `json:"from,omitempty"`
	Want       bool   `json:"want,omitempty"`
	Perm       bool   `json:"perm,omitempty"`
	PreExisted bool   `json:"preExisted,omitempty"`
	PreAlive   bool   `json:"preAlive,omitempty"`
	PreKeyed   bool   `json:"preKeyed,omitempty"`
	PreAuthed  bool   `json:"preAuthed,omitempty"`
	PreMinted  bool   `json:"preMinted,omitempty"` // the target was imported / minted, not negotiated
	WasDead    bool   `json:"wasDead,omitempty"`
	Res        string `json:"res,omitempty"`
	Reply      string `json:"reply,omitempty"`
	KeyOn      bool   `json:"keyOn,omitempty"`
	Accepted   bool   `json:"accepted,omitempty"`
	Readable   bool   `json:"readable,omitempty"`
	Recorded   bool   `json:"recorded,omitempty"`
	// Replay
	Rec int    `json:"rec,omitempty"`
	Dir string `json:"dir,omitempty"`
	Cut string `json:"cut,omitempty"`
	// Handshake / Restart
	Tag     string `json:"tag,omitempty"`
	Addr    string `json:"addr,omitempty"`
	Cmd     string `json:"cmd,omitempty"`
	Out     string `json:"out,omitempty"`
	Allowed bool   `json:"allowed,omitempty"`
}

// Entry is one element of a generated history: the step and the projection of
// the model's post-state.
type Entry struct {
	Step Step `json:"step"`
	// C06
	Now     int    `json:"now,omitempty"`
	Alive   []bool `json:"alive,omitempty"`   // per minted sid: present and alive at the server
	Present []bool `json:"present,omitempty"` // per minted sid: present at the server
	Exp     []int  `json:"exp,omitempty"`     // per minted sid: expiry in virtual time (-1 = not cached)
	// C07
	Look      []bool          `json:"look,omitempty"` // per minted sid: SessionCache.Lookup finds it
	RoutesRaw json.RawMessage `json:"routes,omitempty"`
	AllowRaw  json.RawMessage `json:"allowed,omitempty"`
	Gone      []int           `json:"gone,omitempty"`
	Brk       bool            `json:"brk,omitempty"`
	// filled by ParseScenario from RoutesRaw / AllowRaw, indexed like Scenario.Triples
	Routes    []int `json:"-"` // per triple: LookupByCommand result (0 = none)
	AllowedBy []int `json:"-"` // per triple: mayReuse (0 = none)
}

// perTriple turns the generator's set of <<tag, addr, cmd, sid>> tuples into an
// array indexed like triples.
func perTriple(raw json.RawMessage, triples [][]string) ([]int, error) {
	out := make([]int, len(triples))
	if len(raw) == 0 {
		return out, nil
	}
	var tuples [][]any
	if err := json.Unmarshal(raw, &tuples); err != nil {
		return nil, err
	}
	for _, t := range tuples {
		if len(t) != 4 {
			return nil, fmt.Errorf("bad route tuple %v", t)
		}
		sid, ok := t[3].(float64)
		if !ok {
			return nil, fmt.Errorf("bad route tuple %v", t)
		}
		found := false
		for i, tr := range triples {
			if len(tr) == 3 && tr[0] == t[0] && tr[1] == t[1] && tr[2] == t[2] {
				out[i] = int(sid)
				found = true
			}
		}
		if !found {
			return nil, fmt.Errorf("route for unknown triple %v", t)
		}
	}
	return out, nil
}

// Scenario is one generated behaviour.
type Scenario struct {
	H       []Entry    `json:"h"`
	Triples [][]string `json:"triples,omitempty"`
	Dur     int        `json:"dur,omitempty"`   // the model's Duration (ticks)
	Lease   int        `json:"lease,omitempty"` // the model's Lease (ticks)
}

func ParseScenario(raw json.RawMessage) (*Scenario, error) {
	var w struct {
		Trace Scenario `json:"trace"`
	}
	if err := json.Unmarshal(raw, &w); err != nil {
		return nil, err
	}
	if len(w.Trace.H) == 0 {
		return nil, fmt.Errorf("empty behaviour")
	}
	if err := w.Trace.Project(); err != nil {
		return nil, err
	}
	return &w.Trace, nil
}

// Project fills the per-triple projections of every entry.
func (s *Scenario) Project() error {
	for i := range s.H {
		e := &s.H[i]
		var err error
		if e.Routes, err = perTriple(e.RoutesRaw, s.Triples); err != nil {
			return err
		}
		if e.AllowedBy, err = perTriple(e.AllowRaw, s.Triples); err != nil {
			return err
		}
	}
	return nil
}

// Key is a canonical string of the abstract behaviour (for dedup / hashing).
func (s *Scenario) Key() string {
	b, _ := json.Marshal(s.H)
	return string(b)
}

// Diff is a difference between the model's expectation and the real code.
type Diff struct {
	Kind   string            // "violation" | "broken" | "diverged"
	Inv    string            // invariant of SessionCache.tla the observation contradicts
	Detail string            // expected vs observed
	Sig    map[string]string // stable abstract signature
	StepNo int
	minted bool // the session concerned was imported / minted (C06)
}

func (d *Diff) Error() string {
	return fmt.Sprintf("step %d: %s: %s", d.StepNo, d.Inv, d.Detail)
}

func boolStr(b bool) string {
	if b {
		return "true"
	}
	return "false"
}
