package sessreal

import (
	"encoding/json"
	"fmt"
	"os"
	"path/filepath"
	"runtime"
	"sort"
	"sync"

	"cedarverif/internal/core"
	"cedarverif/internal/kit"
	"cedarverif/internal/tlc"
)

// Job is one concrete execution: a behaviour plus the concrete expansion.
type Job struct {
	Kind string // "C06" | "C07"
	Sc   *Scenario
	V06  Variant06
	V07  Variant07
}

func (j *Job) run() *Diff {
	if j.Kind == "C06" {
		d, _ := Run06(j.Sc, j.V06)
		return d
	}
	d, _ := Run07(j.Sc, j.V07)
	return d
}

func (j *Job) scenario() map[string]any {
	m := map[string]any{"kind": "SessionCache-" + j.Kind, "trace": j.Sc}
	if j.Kind == "C06" {
		m["variant"] = j.V06
	} else {
		m["variant"] = j.V07
	}
	return m
}

// Totals are the sums the drivers put into the evidence.
type Totals struct {
	mu       sync.Mutex
	Conform  int64
	Diverged int64
	S06      Stats06
	S07      Stats07
}

// ReplayAll runs the jobs on all cores, confirms every difference by an
// immediate second run (DESIGN 5 (ii)), and reports one failure per distinct
// abstract signature.
func ReplayAll(c *core.Ctx, jobs []Job, t *Totals) {
	type agg struct {
		first *Diff
		job   *Job
		n     int
	}
	found := map[string]*agg{}
	brokenN := map[string]int{}
	var mu sync.Mutex
	workers := runtime.NumCPU()
	if workers > 16 {
		workers = 16
	}
	workers += workers / 2 // some executions wait (TCP, a stalled exchange's deadline)
	core.ParallelFor(len(jobs), workers, func(i int) {
		j := &jobs[i]
		var d *Diff
		if j.Kind == "C06" {
			var st *Stats06
			d, st = Run06(j.Sc, j.V06)
			t.mu.Lock()
			t.S06.add(st)
			t.mu.Unlock()
		} else {
			var st *Stats07
			d, st = Run07(j.Sc, j.V07)
			t.mu.Lock()
			t.S07.add(st)
			t.mu.Unlock()
		}
		vb, _ := json.Marshal(j.scenario()["variant"])
		c.Eval(j.Sc.Key()+string(vb), len(j.Sc.H) > 1)
		if d == nil {
			t.mu.Lock()
			t.Conform++
			t.mu.Unlock()
			return
		}
		if d.Kind == "diverged" {
			t.mu.Lock()
			t.Diverged++
			t.mu.Unlock()
			return
		}
		d2 := j.run()
		if d2 == nil || d2.Kind != d.Kind || d2.Inv != d.Inv || d2.StepNo != d.StepNo {
			if dir := os.Getenv("VERIF_DEV_SCENARIOS"); dir != "" { // development aid: keep the job
				b, _ := json.Marshal(map[string]any{"scenario": j.scenario()})
				_ = os.WriteFile(filepath.Join(dir, fmt.Sprintf("nonrepro-%s-%d.json", j.Kind, i)), b, 0o644)
			}
			c.Broken("non-reproducible difference: first run %v, second run %v", d, d2)
			return
		}
		if d.Kind == "broken" {
			mu.Lock()
			brokenN[d.Inv+d.Detail]++
			first := brokenN[d.Inv+d.Detail] == 1 && len(brokenN) <= 8
			mu.Unlock()
			if first {
				c.Broken("%s behaviour cannot be followed on the real code: %s", j.Kind, d.Error())
			}
			return
		}
		key := sigKey(d.Sig)
		mu.Lock()
		if a := found[key]; a != nil {
			a.n++
		} else {
			found[key] = &agg{first: d, job: j, n: 1}
		}
		mu.Unlock()
	})
	keys := make([]string, 0, len(found))
	for k := range found {
		keys = append(keys, k)
	}
	sort.Strings(keys)
	for _, k := range keys {
		a := found[k]
		c.Fail(core.Failure{Signature: a.first.Sig,
			Detail:   fmt.Sprintf("%s (%d executions with this signature)", a.first.Error(), a.n),
			Scenario: a.job.scenario()})
	}
	if len(brokenN) > 0 {
		n := 0
		for _, k := range brokenN {
			n += k
		}
		c.Broken("%d executions could not be followed (%d distinct reasons)", n, len(brokenN))
	}
	c.Add("traces_validated_against_impl", t.Conform)
}

func sigKey(sig map[string]string) string {
	ks := make([]string, 0, len(sig))
	for k := range sig {
		ks = append(ks, k)
	}
	sort.Strings(ks)
	s := ""
	for _, k := range ks {
		s += k + "=" + sig[k] + ";"
	}
	return s
}

// ReplayFile re-runs one recorded failure (bin/check Cxx quick --replay file).
func ReplayFile(c *core.Ctx, kind string) bool {
	if c.Replay == "" {
		return false
	}
	b, err := os.ReadFile(c.Replay)
	if err != nil {
		c.Broken("cannot read replay file: %v", err)
		return true
	}
	var rf struct {
		Scenario struct {
			Kind    string          `json:"kind"`
			Trace   *Scenario       `json:"trace"`
			Variant json.RawMessage `json:"variant"`
		} `json:"scenario"`
	}
	if err := json.Unmarshal(b, &rf); err != nil || rf.Scenario.Kind != "SessionCache-"+kind || rf.Scenario.Trace == nil {
		c.Broken("replay file %s is not a SessionCache-%s scenario", c.Replay, kind)
		return true
	}
	if err := rf.Scenario.Trace.Project(); err != nil {
		c.Broken("replay file %s: %v", c.Replay, err)
		return true
	}
	j := Job{Kind: kind, Sc: rf.Scenario.Trace}
	if kind == "C06" {
		_ = json.Unmarshal(rf.Scenario.Variant, &j.V06)
	} else {
		_ = json.Unmarshal(rf.Scenario.Variant, &j.V07)
	}
	var t Totals
	ReplayAll(c, []Job{j}, &t)
	return true
}

func (a *Stats06) add(b *Stats06) {
	if b == nil {
		return
	}
	a.RealHandshakes += b.RealHandshakes
	a.Resumes += b.Resumes
	a.Replays += b.Replays
	a.FramesOpenedByRef += b.FramesOpenedByRef
	a.LeaseRenewed += b.LeaseRenewed
	a.LeaseNotRenewed += b.LeaseNotRenewed
	a.RealDeclined += b.RealDeclined
	a.ExpiryReadBack += b.ExpiryReadBack
	a.Imports += b.Imports
}

// Generate is kit.Generate; as a development aid (mutation experiments against
// scratch worktrees) VERIF_DEV_SCENARIOS=<dir> caches the generator output,
// which does not depend on the code under test. Registered commands never set it.
func Generate(c *core.Ctx, module, cfg string, o tlc.Options) []json.RawMessage {
	dir := os.Getenv("VERIF_DEV_SCENARIOS")
	if dir == "" {
		return kit.Generate(c, module, cfg, o)
	}
	file := filepath.Join(dir, fmt.Sprintf("%s-%s-%d.json", cfg, o.Simulate, o.Seed))
	if b, err := os.ReadFile(file); err == nil {
		var raws []json.RawMessage
		if json.Unmarshal(b, &raws) == nil && len(raws) > 0 {
			c.Note("development run: behaviours loaded from " + file)
			c.Add("behaviours_generated", int64(len(raws)))
			return raws
		}
	}
	raws := kit.Generate(c, module, cfg, o)
	if b, err := json.Marshal(raws); err == nil && len(raws) > 0 {
		_ = os.MkdirAll(dir, 0o755)
		_ = os.WriteFile(file, b, 0o644)
	}
	return raws
}

// DevSkipMC: development aid only (see Generate): the exhaustive TLC run does not
// depend on the code under test, mutation experiments may skip it.
func DevSkipMC() bool {
	return os.Getenv("VERIF_DEV_SCENARIOS") != "" && os.Getenv("VERIF_DEV_SKIP_MC") == "1"
}

// ParseAll decodes generated behaviours.
func ParseAll(c *core.Ctx, raws []json.RawMessage) []*Scenario {
	var out []*Scenario
	for _, r := range raws {
		sc, err := ParseScenario(r)
		if err != nil {
			c.Broken("bad behaviour JSON: %v", err)
			return nil
		}
		out = append(out, sc)
	}
	return out
}
