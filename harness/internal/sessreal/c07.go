package sessreal

import (
	"context"
	"fmt"
	"net"
	"sort"
	"strconv"
	"sync"
	"sync/atomic"
	"time"

	"github.com/bbockelm/cedar/client"
	"github.com/bbockelm/cedar/security"

	"cedarverif/internal/wire"
)

// Variant07 is the concrete expansion of a C07 behaviour: which concrete
// tag / address / command each canonical name stands for (the generator
// introduces names in a fixed order; the permutations are applied here) and
// which client API performs the handshakes.
type Variant07 struct {
	SwapTags  bool `json:"swapTags"`
	SwapAddrs bool `json:"swapAddrs"`
	SwapCmds  bool `json:"swapCmds"`
	// AddrShape: how the two model servers are named. The statement's "same server
	// address" is the address the caller names, so two sinful strings that differ
	// only in their query part are two servers (e.g. two daemons behind one shared
	// port): "plain" = different host:port; "sock" = same host:port, different
	// ?sock= name; "ccbid" = same host:port, different CCBID parameter; "param" =
	// same host:port, different custom parameter. Non-plain shapes use the in-memory
	// ClientHandshake binding (each name is wired to its own real server).
	AddrShape string `json:"addrShape,omitempty"`
	// Break: how BreakNext's broken exchange is realised. "" / "close": the server
	// closes after the client's first message; "stall": the server reads it and never
	// answers; the client's context ends (cancelled the moment the request was read,
	// with a deadline as backstop) while it waits for the reply.
	Break string `json:"break,omitempty"`
	// Origin of the cached sessions. "": negotiated, as stored by storeClientSession;
	// "inherited": the same entry marked SetInherited(true) (what sessions imported
	// from the parent daemon / claim and file-transfer imports carry) - dropping,
	// invalidating and expiring must work for it just the same.
	Origin string `json:"origin,omitempty"`
	API    string `json:"api"` // "handshake": Authenticator.ClientHandshake over an in-memory connection; "connect": client.ConnectAndAuthenticateWithConfig over TCP loopback
}

type Stats07 struct {
	Handshakes, Connections, Resumed, Full, Failed, LookupsCompared, ConnectCalls int64
}

func (a *Stats07) add(b *Stats07) {
	if b == nil {
		return
	}
	a.Handshakes += b.Handshakes
	a.Connections += b.Connections
	a.Resumed += b.Resumed
	a.Full += b.Full
	a.Failed += b.Failed
	a.LookupsCompared += b.LookupsCompared
	a.ConnectCalls += b.ConnectCalls
}

type est07 struct {
	id             string
	tag, addr, cmd string // concrete model names it was established with
}

// World07 is the real counterpart of the model state of one C07 behaviour.
type World07 struct {
	v        Variant07
	srv      map[string]*Server // by concrete model address name
	lns      []net.Listener
	wg       sync.WaitGroup
	cc       *security.SessionCache
	sess     map[int]*est07
	St       Stats07
	tcp      bool
	tcpCh    chan *ConnLog
	accepted int64 // connections accepted so far (order of acceptance)
	brk      bool  // the next connection is to break (model's brk)
}

func swap(x, a, b string, on bool) string {
	if !on {
		return x
	}
	if x == a {
		return b
	}
	if x == b {
		return a
	}
	return x
}

func (w *World07) tagOf(t string) string  { return swap(t, "A", "B", w.v.SwapTags) }
func (w *World07) addrOf(a string) string { return swap(a, "s1", "s2", w.v.SwapAddrs) }
func (w *World07) cmdOf(c string) string  { return swap(c, "c1", "c2", w.v.SwapCmds) }

// shapedAddr is the address string the client is given for model server k (0, 1).
func shapedAddr(shape string, k int) string {
	switch shape {
	case "sock":
		return fmt.Sprintf("<10.7.0.9:9618?sock=%s>", []string{"schedd_1801_a3f2", "startd_1802_77c1"}[k])
	case "ccbid":
		return fmt.Sprintf("<10.7.0.9:9618?CCBID=10.7.0.3:9618%%23%d&noUDP>", 101+k)
	case "param":
		return fmt.Sprintf("<10.7.0.9:9618?x=%d>", k+1)
	}
	return fmt.Sprintf("10.7.0.%d:9618", k+1)
}

// tcpGate paces the calls that go over real TCP loopback: every connection
// leaves its ephemeral port in TIME_WAIT for 60 s and the range holds 28 k ports,
// so an unpaced thorough run on a fast machine exhausts it ("bind: address
// already in use" - a machinery problem, exit 2). 200 calls/s (<= 2 connections
// each) stays well below that.
var tcpGate = time.NewTicker(5 * time.Millisecond)

func NewWorld07(v Variant07) (*World07, error) {
	if (v.AddrShape != "" && v.AddrShape != "plain") || v.Break == "stall" {
		v.API = "handshake"
	}
	w := &World07{v: v, srv: map[string]*Server{}, cc: security.NewSessionCache(), sess: map[int]*est07{}, tcp: v.API == "connect"}
	w.tcpCh = make(chan *ConnLog, 16)
	for k, name := range []string{"s1", "s2"} {
		addr := shapedAddr(v.AddrShape, k)
		if w.tcp {
			ln, err := net.Listen("tcp", "127.0.0.1:0")
			if err != nil {
				w.Close()
				return nil, err
			}
			w.lns = append(w.lns, ln)
			addr = ln.Addr().String()
		}
		s := NewServer(addr)
		s.Stall = v.Break == "stall"
		w.srv[name] = s
		if w.tcp {
			ln := w.lns[k]
			w.wg.Add(1)
			go func() {
				defer w.wg.Done()
				for {
					conn, err := ln.Accept()
					if err != nil {
						return
					}
					w.wg.Add(1)
					seq := atomic.AddInt64(&w.accepted, 1)
					go func() {
						defer w.wg.Done()
						l := s.Serve(&wire.C06RecConn{Conn: conn}, nil)
						l.Seq = seq
						w.tcpCh <- l
					}()
				}
			}()
		}
	}
	return w, nil
}

func (w *World07) Close() {
	for _, ln := range w.lns {
		_ = ln.Close()
	}
	w.wg.Wait()
}

// markOrigin gives every cached session the origin the variant asks for.
func (w *World07) markOrigin() {
	if w.v.Origin != "inherited" {
		return
	}
	for _, ent := range w.cc.Snapshot() {
		if !ent.IsInherited() {
			ent.SetInherited(true)
		}
	}
}

func (w *World07) modelSid(id string) int {
	for n, s := range w.sess {
		if s.id == id {
			return n
		}
	}
	return 0
}

// hsObs is what one client-side handshake call showed.
type hsObs struct {
	logs       []*ConnLog // server-side connections it caused, in order
	err        error
	neg        *security.SecurityNegotiation
	wasResumed bool
}

func (w *World07) handshake(api, tag, addr, cmd string) hsObs {
	s := w.srv[addr]
	cfg := ClientConfig(w.cc, TagStr[tag], CmdInt[cmd], true)
	w.St.Handshakes++
	if api == "connect" && w.tcp {
		w.St.ConnectCalls++
		<-tcpGate.C // pace the TCP variant (see tcpGate)
		for len(w.tcpCh) > 0 { // nothing of an earlier call may be left over
			<-w.tcpCh
		}
		_, hadRoute := w.cc.LookupByCommand(TagStr[tag], s.Addr, strconv.Itoa(CmdInt[cmd]))
		ctx, cancel := context.WithTimeout(context.Background(), 20*time.Second)
		defer cancel()
		cl, err := client.ConnectAndAuthenticateWithConfig(ctx, &client.ClientConfig{Address: s.Addr, Security: cfg, Timeout: 10 * time.Second})
		o := hsObs{err: err}
		if err == nil {
			o.neg = cl.GetSecurityNegotiation()
			if o.neg != nil {
				o.wasResumed = o.neg.SessionResumed
			}
			_ = cl.Close()
		}
		// Collect the server-side logs of the connections this call made. Their
		// number follows from what the client found in its cache before the call
		// (the same lookup ClientHandshake does) and from the result: a cached
		// session means a resumption attempt first, and unless the final result
		// is a resumed session that attempt failed and was retried once.
		want := 1
		if hadRoute && !(err == nil && o.wasResumed) {
			want = 2
		}
		deadline := time.After(20 * time.Second)
		for len(o.logs) < want {
			select {
			case l := <-w.tcpCh:
				o.logs = append(o.logs, l)
			case <-deadline:
				want = 0
			}
		}
		// the server goroutines finish in any order: restore the order of acceptance
		sort.Slice(o.logs, func(i, j int) bool { return o.logs[i].Seq < o.logs[j].Seq })
		w.St.Connections += int64(len(o.logs))
		return o
	}
	var cr ClientResult
	var ctx context.Context
	deadline := time.Duration(0)
	if w.brk && w.v.Break == "stall" {
		// The stalled server cancels the client's context as soon as it has read the
		// request (caller-side cancellation while the reply is awaited); a 3 s
		// deadline on the same context is the backstop. Nothing depends on timing.
		c2, cancel := context.WithCancel(context.Background())
		defer cancel()
		ctx, deadline = c2, 3*time.Second
		s.mu.Lock()
		s.OnStall = cancel
		s.mu.Unlock()
	}
	log := Exchange(s, ClientAddrSame, nil, RealClientCtx(ctx, cfg, s.Addr, false, deadline, &cr))
	w.St.Connections++
	return hsObs{logs: []*ConnLog{log}, err: cr.Err, neg: cr.Neg, wasResumed: cr.WasResumed}
}

func (w *World07) sig(st *Step, inv, obs string, ridden *est07, tag, addr, cmd string) map[string]string {
	m := map[string]string{"spec": "SessionCache", "inv": inv, "obs": obs, "action": st.Act}
	if st.Act == "Handshake" {
		m["action"] = "ClientHandshake"
	}
	if w.v.AddrShape != "" && w.v.AddrShape != "plain" {
		m["addrShape"] = w.v.AddrShape
	}
	if w.v.Break == "stall" {
		m["break"] = "stall"
	}
	if w.v.Origin != "" {
		m["origin"] = w.v.Origin
	}
	if ridden == nil {
		m["rel"] = "unknown-session"
		return m
	}
	switch {
	case ridden.tag == tag:
		m["tags"] = "same-tag"
	case tag == "none":
		m["tags"] = "untagged-rides-tagged"
	case ridden.tag == "none":
		m["tags"] = "tagged-rides-untagged"
	default:
		m["tags"] = "other-tag"
	}
	if ridden.addr == addr {
		m["addr"] = "same-addr"
	} else {
		m["addr"] = "other-addr"
	}
	if cmd == "c3" {
		m["cmd"] = "invalid-cmd"
	} else {
		m["cmd"] = "valid-cmd"
	}
	return m
}

func tripleIndex(sc *Scenario, tag, addr, cmd string) int {
	for i, t := range sc.Triples {
		if len(t) == 3 && t[0] == tag && t[1] == addr && t[2] == cmd {
			return i
		}
	}
	return -1
}

func inInts(xs []int, x int) bool {
	for _, y := range xs {
		if x == y {
			return true
		}
	}
	return false
}

// Run07 steps the real client through one behaviour.
func Run07(sc *Scenario, v Variant07) (*Diff, *Stats07) {
	w, err := NewWorld07(v)
	if err != nil {
		return &Diff{Kind: "broken", Inv: "-", Detail: "cannot set up servers: " + err.Error()}, &Stats07{}
	}
	defer w.Close()
	var pending *Diff
	finish := func(d *Diff) (*Diff, *Stats07) {
		if d != nil && d.Kind == "violation" {
			return d, &w.St
		}
		if pending != nil {
			return pending, &w.St
		}
		return d, &w.St
	}
	prevAllowed := make([]int, len(sc.Triples))
	for i := 0; i < len(sc.H); i++ {
		e := &sc.H[i]
		st := &e.Step
		post := e // entry whose projection describes the real post-state
		var d *Diff
		switch st.Act {
		case "Handshake":
			tag, addr, cmd := w.tagOf(st.Tag), w.addrOf(st.Addr), w.cmdOf(st.Cmd)
			api := "handshake"
			combined := false
			if v.API == "connect" {
				switch st.Out {
				case "full", "resumed", "full_broken":
					api = "connect"
				default:
					if i+1 < len(sc.H) {
						n := &sc.H[i+1].Step
						if n.Act == "Handshake" && n.Tag == st.Tag && n.Addr == st.Addr && n.Cmd == st.Cmd && n.Out == "full" {
							api, combined = "connect", true
						}
					}
				}
			}
			o := w.handshake(api, tag, addr, cmd)
			d = w.checkHandshake(sc, i, st, tag, addr, cmd, prevAllowed, o, combined)
			if d == nil && combined {
				i++
				post = &sc.H[i]
			}
		case "Restart":
			w.srv[w.addrOf(st.Addr)].Restart()
		case "BreakNext":
			w.brk = true
			for _, s := range w.srv {
				s.BreakNext()
			}
		case "Expire":
			s := w.sess[st.Sid]
			done := false
			for _, ent := range w.cc.Snapshot() {
				if ent.ID() == s.id {
					ne := security.NewSessionEntry(ent.ID(), ent.Addr(), ent.KeyInfo(), ent.Policy(), time.Now().Add(-time.Hour), ent.Lease(), ent.Tag())
					ne.SetInherited(ent.IsInherited())
					w.cc.Store(ne)
					done = true
				}
			}
			if !done {
				d = &Diff{Kind: "diverged", StepNo: i, Detail: "Expire: the client does not cache the session"}
			}
		case "CliInvalidate":
			w.cc.Invalidate(w.sess[st.Sid].id)
		case "CliSweep":
			w.cc.InvalidateExpired()
		default:
			d = &Diff{Kind: "broken", Inv: "-", StepNo: i, Detail: "unknown action " + st.Act}
		}
		if d != nil {
			return finish(d)
		}
		// BreakNext concerns one connection only: clear the flag on the server that was not contacted
		if st.Act == "Handshake" {
			w.brk = false
			w.markOrigin()
			for _, s := range w.srv {
				s.mu.Lock()
				s.breakNext = false
				s.mu.Unlock()
			}
		}
		if d = w.compareState(sc, i, st, post); d != nil {
			if d.Kind == "violation" {
				if pending == nil {
					pending = d
				}
			} else {
				return finish(d)
			}
		}
		prevAllowed = post.AllowedBy
	}
	return finish(nil)
}

func isResumptionErr(err error) bool { return err != nil && security.IsSessionResumptionError(err) }

func (w *World07) checkHandshake(sc *Scenario, i int, st *Step, tag, addr, cmd string, prevAllowed []int, o hsObs, combined bool) *Diff {
	if len(o.logs) == 0 {
		return &Diff{Kind: "broken", Inv: "-", StepNo: i, Detail: "no server-side connection observed"}
	}
	first := o.logs[0]
	if first.Hang {
		return &Diff{Kind: "broken", Inv: "-", StepNo: i, Detail: "handshake hung"}
	}
	desc := fmt.Sprintf("ClientHandshake(tag=%q, server=%s, command=%s)", TagStr[tag], addr, cmd)
	ti := tripleIndex(sc, st.Tag, st.Addr, st.Cmd)
	if ti < 0 {
		return &Diff{Kind: "broken", Inv: "-", StepNo: i, Detail: "triple not in the generator's list"}
	}
	modelAttempt := st.Out == "resumed" || st.Out == "resume_notfound" || st.Out == "resume_broken"
	realAttempt := first.Req != nil && first.Req.UseSession
	if realAttempt {
		msid := w.modelSid(first.Req.Sid)
		allowed := 0
		if ti < len(prevAllowed) {
			allowed = prevAllowed[ti]
		}
		if msid == 0 || msid != allowed {
			var ridden *est07
			if msid != 0 {
				ridden = w.sess[msid]
			}
			how := "an unknown session"
			if ridden != nil {
				how = fmt.Sprintf("session #%d, which was established with tag=%q server=%s (valid commands c1,c2)", msid, TagStr[ridden.tag], ridden.addr)
			}
			return &Diff{Kind: "violation", Inv: "ResumeOnlySameTriple", StepNo: i,
				Sig:    w.sig(st, "ResumeOnlySameTriple", "wire", ridden, tag, addr, cmd),
				Detail: fmt.Sprintf("%s asked the server to resume %s (reference map allows #%d); handshake error=%v, SessionResumed=%v", desc, how, allowed, o.err, o.wasResumed)}
		}
		if !modelAttempt {
			return &Diff{Kind: "broken", Inv: "-", StepNo: i, Detail: desc + ": resumed an allowed session although the model has no route"}
		}
	} else if modelAttempt {
		return &Diff{Kind: "diverged", StepNo: i, Detail: desc + ": the client did a full handshake where reuse was allowed (permitted)"}
	}
	last := o.logs[len(o.logs)-1]
	switch st.Out {
	case "resumed":
		if o.err != nil {
			return &Diff{Kind: "broken", Inv: "-", StepNo: i, Detail: fmt.Sprintf("%s: resumption of a session the server knows failed: %v", desc, o.err)}
		}
		w.St.Resumed++
	case "resume_notfound", "resume_broken":
		w.St.Failed++
		if !combined {
			if o.err == nil {
				return &Diff{Kind: "broken", Inv: "-", StepNo: i, Detail: desc + ": resumption succeeded although the server forgot the session / the connection broke"}
			}
			if st.Out == "resume_notfound" && ReplyCode(first.S2C) != "SID_NOT_FOUND" {
				return &Diff{Kind: "broken", Inv: "-", StepNo: i, Detail: desc + ": server did not answer SID_NOT_FOUND: " + ReplyCode(first.S2C)}
			}
			break
		}
		// ConnectAndAuthenticate: the failed resumption must be followed by a full handshake
		nx := &sc.H[i+1].Step
		if len(o.logs) < 2 {
			return &Diff{Kind: "broken", Inv: "-", StepNo: i, Detail: desc + ": ConnectAndAuthenticate did not retry after the failed resumption"}
		}
		if last.Req != nil && last.Req.UseSession {
			var ridden *est07
			if m := w.modelSid(last.Req.Sid); m != 0 {
				ridden = w.sess[m]
			}
			return &Diff{Kind: "violation", Inv: "FailureDropsEverything", StepNo: i + 1,
				Sig:    w.sig(nx, "FailureDropsEverything", "wire", ridden, tag, addr, cmd),
				Detail: desc + ": after a failed resumption the retry asked to resume a session again instead of a full handshake"}
		}
		if o.err != nil || o.neg == nil || o.neg.SessionId == "" {
			return &Diff{Kind: "broken", Inv: "-", StepNo: i + 1, Detail: fmt.Sprintf("%s: retry with full handshake failed: %v", desc, o.err)}
		}
		w.sess[nx.Sid] = &est07{id: o.neg.SessionId, tag: tag, addr: addr, cmd: cmd}
		w.St.Full++
	case "full":
		if o.err != nil || o.neg == nil || o.neg.SessionId == "" {
			return &Diff{Kind: "broken", Inv: "-", StepNo: i, Detail: fmt.Sprintf("%s: full handshake failed: %v", desc, o.err)}
		}
		w.sess[st.Sid] = &est07{id: o.neg.SessionId, tag: tag, addr: addr, cmd: cmd}
		w.St.Full++
	case "full_broken":
		w.St.Failed++
		if o.err == nil {
			return &Diff{Kind: "broken", Inv: "-", StepNo: i, Detail: desc + ": handshake succeeded on a broken connection"}
		}
	}
	return nil
}

// compareState compares SessionCache.LookupByCommand for every triple and
// SessionCache.Lookup for every minted session with the model.
func (w *World07) compareState(sc *Scenario, i int, st *Step, e *Entry) *Diff {
	lastFailed := 0
	if st.Act == "Handshake" && (st.Out == "resume_notfound" || st.Out == "resume_broken") {
		lastFailed = st.Sid
	}
	deadInv := func(n int) string {
		if n == lastFailed {
			return "FailureDropsEverything"
		}
		return "NoRouteToDeadSession"
	}
	var diverged *Diff
	for ti, t := range sc.Triples {
		tag, addr, cmd := w.tagOf(t[0]), w.addrOf(t[1]), w.cmdOf(t[2])
		ent, ok := w.cc.LookupByCommand(TagStr[tag], w.srv[addr].Addr, strconv.Itoa(CmdInt[cmd]))
		w.St.LookupsCompared++
		real := 0
		if ok {
			real = w.modelSid(ent.ID())
			if real == 0 {
				real = -1
			}
		}
		model := 0
		if ti < len(e.Routes) {
			model = e.Routes[ti]
		}
		if real == model {
			continue
		}
		if real != 0 {
			var ridden *est07
			if real > 0 {
				ridden = w.sess[real]
			}
			inv := "ResumeOnlySameTriple"
			if real > 0 && inInts(e.Gone, real) {
				inv = deadInv(real)
			}
			sig := w.sig(st, inv, "lookup", ridden, tag, addr, cmd)
			if inv != "ResumeOnlySameTriple" {
				sig["rel"] = "dropped-session"
			}
			how := "an unknown session"
			if ridden != nil {
				how = fmt.Sprintf("session #%d (established with tag=%q server=%s)", real, TagStr[ridden.tag], ridden.addr)
			}
			return &Diff{Kind: "violation", Inv: inv, StepNo: i, Sig: sig,
				Detail: fmt.Sprintf("after %s: LookupByCommand(tag=%q, server=%s, command=%s) returns %s; the reference map has #%d there (expired/dropped sessions: %v)", st.Act, TagStr[tag], addr, cmd, how, model, e.Gone)}
		}
		if diverged == nil {
			diverged = &Diff{Kind: "diverged", StepNo: i, Detail: fmt.Sprintf("after %s: no route for (tag=%q, %s, %s) where the model has #%d (permitted)", st.Act, TagStr[tag], addr, cmd, model)}
		}
	}
	for n := 1; n <= len(e.Look); n++ {
		s := w.sess[n]
		if s == nil {
			return &Diff{Kind: "broken", Inv: "-", StepNo: i, Detail: fmt.Sprintf("model has session %d the harness never saw", n)}
		}
		_, ok := w.cc.Lookup(s.id)
		w.St.LookupsCompared++
		if ok && !e.Look[n-1] {
			inv := deadInv(n)
			sig := w.sig(st, inv, "lookup-id", s, s.tag, s.addr, s.cmd)
			sig["rel"] = "dropped-session"
			return &Diff{Kind: "violation", Inv: inv, StepNo: i, Sig: sig,
				Detail: fmt.Sprintf("after %s: Lookup(id of session #%d) still returns the session although it was dropped / invalidated / expired", st.Act, n)}
		}
		if !ok && e.Look[n-1] && diverged == nil {
			diverged = &Diff{Kind: "diverged", StepNo: i, Detail: fmt.Sprintf("after %s: session #%d not cached where the model has it (permitted)", st.Act, n)}
		}
	}
	return diverged
}
