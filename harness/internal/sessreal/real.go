// Package sessreal binds SessionCache.tla to the real cedar code (C06, C07):
// real servers (security.Authenticator.ServerHandshake on a SessionCache the
// harness can replace = "restart"), real clients (ClientHandshake,
// client.ConnectAndAuthenticateWithConfig), doctored client cache entries,
// hand-built requesters speaking through refcodec, byte-level recording and
// replay, and the mapping of the specification's virtual clock onto real cache
// entries by Store-ing replacement entries (no sleeping).
package sessreal

import (
	"bytes"
	"context"
	"crypto/sha256"
	"fmt"
	"io"
	"net"
	"sync"
	"sync/atomic"
	"time"

	"github.com/bbockelm/cedar/security"
	"github.com/bbockelm/cedar/stream"

	"cedarverif/internal/refcodec"
	"cedarverif/internal/wire"
)

// Concrete values of the model's small sets.
var (
	CmdInt = map[string]int{"c1": 61001, "c2": 61002, "c3": 61003}
	TagStr = map[string]string{"none": "", "A": "tagA", "B": "tagB"}
)

const (
	ClientAddrSame  = "10.9.0.1:40001"
	ClientAddrOther = "10.9.0.2:40002"
	hangTimeout     = 30 * time.Second
)

var (
	// application messages exchanged after a handshake (canaries)
	MsgC2S = []byte("C2S-application-canary-7f3a91c5-please-do-not-accept")
	MsgS2C = []byte("S2C-application-canary-b81d04e2-please-do-not-leak")
)

// Conn is what Serve needs from a connection: the recording.
type Conn interface {
	net.Conn
	Written() []byte
	Received() []byte
}

// Server is one real cedar server endpoint: every connection runs the real
// ServerHandshake with this configuration on Cache.
type Server struct {
	Addr   string
	Keyed  bool // sessions get a key (common cipher) or not (no common cipher)
	Authed bool // CLAIMTOBE authentication required, or none at all
	// AnonNever: how an unauthenticated session comes about. false: both sides list
	// CLAIMTOBE (a common usable method) with Authentication OPTIONAL, so no exchange
	// runs although a method is negotiated; true: Authentication NEVER, method NONE.
	AnonNever bool
	// DurSecs / LeaseSecs: SessionDuration / SessionLease the server announces (0 = cedar's defaults)
	DurSecs, LeaseSecs int
	// Stall: a broken exchange is realised by a server that reads the request and then
	// never answers (the client's context deadline ends it) instead of closing.
	Stall bool
	// OnStall, if set, is called once the stalled server has read the request (the
	// harness uses it to cancel the client's context at exactly that point).
	OnStall func()
	// Placement: where established sessions live and what the server is configured
	// with. "" / "own": the server has its own SessionCache and the harness moves
	// each new session into it; "fallback": the server has its own (empty)
	// SessionCache and sessions stay in the process-global cache, where storeSession
	// files them (resumption finds them through the global fallback); "global": the
	// server has no SessionCache of its own and uses the global cache.
	Placement string
	mu        sync.Mutex
	cache     *security.SessionCache
	breakNext bool
	Conns     []*ConnLog
}

func NewServer(addr string) *Server {
	return &Server{Addr: addr, Keyed: true, Authed: true, cache: security.NewSessionCache()}
}

func (s *Server) Cache() *security.SessionCache { s.mu.Lock(); defer s.mu.Unlock(); return s.cache }

// Sessions returns the cache the established sessions live in.
func (s *Server) Sessions() *security.SessionCache {
	if s.Placement == "fallback" || s.Placement == "global" {
		return security.GetSessionCache()
	}
	return s.Cache()
}

// Restart makes the server forget every session.
func (s *Server) Restart() { s.mu.Lock(); s.cache = security.NewSessionCache(); s.mu.Unlock() }

// BreakNext makes the next connection die right after the client's first message.
func (s *Server) BreakNext() { s.mu.Lock(); s.breakNext = true; s.mu.Unlock() }

// ConnLog is what was observed on one server-side connection.
type ConnLog struct {
	Req      *refcodec.C06AuthRequest // first client message, parsed by the reference codec from the recorded bytes
	C2S, S2C []byte
	Neg      *security.SecurityNegotiation
	Err      error // ServerHandshake error
	Broken   bool  // connection was broken on purpose
	Enc      bool  // Stream.IsEncrypted() after the handshake
	AppErr   error // error of the application-level receive
	AppMsg   []byte
	AppRecv  bool // an application message was accepted
	Hang     bool
	Seq      int64 // order of acceptance (TCP servers)
}

// Config returns a fresh server-side SecurityConfig.
func (s *Server) Config() *security.SecurityConfig {
	cfg := &security.SecurityConfig{
		SessionCache: s.Cache(),
		Command:      security.NoCommand,
		PostAuthPolicy: func(authUser, peerAddr string, authenticated, encrypted bool) (string, []int) {
			return "", []int{CmdInt["c1"], CmdInt["c2"]}
		},
	}
	if s.Placement == "global" {
		cfg.SessionCache = nil
	}
	cfg.SessionDuration, cfg.SessionLease = s.DurSecs, s.LeaseSecs
	switch {
	case s.Authed:
		cfg.AuthMethods = []security.AuthMethod{security.AuthClaimToBe}
		cfg.Authentication = security.SecurityRequired
	case s.AnonNever:
		cfg.AuthMethods = []security.AuthMethod{security.AuthNone}
		cfg.Authentication = security.SecurityNever
	default:
		cfg.AuthMethods = []security.AuthMethod{security.AuthClaimToBe}
		cfg.Authentication = security.SecurityOptional
	}
	if s.Keyed {
		cfg.CryptoMethods = []security.CryptoMethod{security.CryptoAES}
		cfg.Encryption = security.SecurityRequired
		cfg.Integrity = security.SecurityRequired
	} else {
		// no cipher in common with the client (which offers AES only)
		cfg.CryptoMethods = []security.CryptoMethod{security.Crypto3DES}
		cfg.Encryption = security.SecurityOptional
		cfg.Integrity = security.SecurityOptional
	}
	return cfg
}

// ClientConfig returns a fresh client-side SecurityConfig matching a server
// that demands (or not) authentication.
func ClientConfig(cache *security.SessionCache, tag string, cmd int, authed bool) *security.SecurityConfig {
	return ClientConfigAnon(cache, tag, cmd, authed, true)
}

// ClientConfigAnon: see Server.AnonNever for the two ways of not authenticating.
func ClientConfigAnon(cache *security.SessionCache, tag string, cmd int, authed, anonNever bool) *security.SecurityConfig {
	cfg := &security.SecurityConfig{
		SessionCache:  cache,
		SecurityTag:   tag,
		Command:       cmd,
		CryptoMethods: []security.CryptoMethod{security.CryptoAES},
		Encryption:    security.SecurityOptional,
		Integrity:     security.SecurityOptional,
	}
	switch {
	case authed:
		cfg.AuthMethods = []security.AuthMethod{security.AuthClaimToBe}
		cfg.Authentication = security.SecurityRequired
	case anonNever:
		cfg.AuthMethods = []security.AuthMethod{security.AuthNone}
		cfg.Authentication = security.SecurityNever
	default:
		cfg.AuthMethods = []security.AuthMethod{security.AuthClaimToBe}
		cfg.Authentication = security.SecurityOptional
	}
	return cfg
}

// adopt moves a session the real server handshake just stored (storeSession
// always files it in the process-global cache) into this server's own cache,
// so that parallel replays are isolated and Restart forgets it.
func (s *Server) adopt(sid string) {
	if s.Placement == "fallback" || s.Placement == "global" {
		return // the session stays where storeSession put it
	}
	g := security.GetSessionCache()
	if e, ok := g.Lookup(sid); ok {
		s.Cache().Store(e)
		g.Invalidate(sid)
	}
}

// Serve runs one real server-side connection. app (optional) runs after a
// successful handshake.
func (s *Server) Serve(conn Conn, app func(st *stream.Stream, neg *security.SecurityNegotiation, log *ConnLog)) *ConnLog {
	log := &ConnLog{}
	defer func() {
		_ = conn.Close()
		log.C2S, log.S2C = conn.Received(), conn.Written()
		if body, _, ok := refcodec.C06FirstMessage(log.C2S); ok {
			if r, err := refcodec.C06ParseAuthRequest(body); err == nil {
				log.Req = r
			}
		}
		s.mu.Lock()
		s.Conns = append(s.Conns, log)
		s.mu.Unlock()
	}()
	s.mu.Lock()
	brk := s.breakNext
	s.breakNext = false
	s.mu.Unlock()
	ctx := context.Background()
	st := stream.NewStream(conn)
	if brk {
		log.Broken = true
		_, _ = st.ReceiveCompleteMessage(ctx)
		if s.Stall {
			// never answer: wait until the client gives up and closes
			s.mu.Lock()
			f := s.OnStall
			s.OnStall = nil
			s.mu.Unlock()
			if f != nil {
				f()
			}
			_, _ = st.ReceiveCompleteMessage(ctx)
		}
		return log
	}
	auth := security.NewAuthenticator(s.Config(), st)
	neg, err := auth.ServerHandshake(ctx)
	log.Neg, log.Err = neg, err
	if err != nil {
		return log
	}
	log.Enc = st.IsEncrypted()
	if neg.SessionId != "" {
		s.adopt(neg.SessionId)
	}
	if app != nil {
		app(st, neg, log)
	}
	return log
}

// AppServer is the application of the C06 binding: send one message, then
// accept one.
func AppServer(st *stream.Stream, neg *security.SecurityNegotiation, log *ConnLog) {
	ctx := context.Background()
	_ = st.SendMessage(ctx, MsgS2C)
	m, err := st.ReceiveCompleteMessage(ctx)
	log.AppErr = err
	if err == nil {
		log.AppRecv = true
		log.AppMsg = m
	}
}

// Exchange connects a client function to the server over an in-memory duplex
// and waits for both. clientAddr is the address the server sees.
func Exchange(s *Server, clientAddr string, app func(*stream.Stream, *security.SecurityNegotiation, *ConnLog), client func(conn *wire.C06Conn)) *ConnLog {
	cc, sc := wire.NewC06Duplex(clientAddr, s.Addr)
	done := make(chan *ConnLog, 1)
	go func() { done <- s.Serve(sc, app) }()
	cdone := make(chan struct{})
	go func() {
		defer close(cdone)
		defer cc.Close()
		client(cc)
	}()
	var hang atomic.Bool
	timer := time.AfterFunc(hangTimeout, func() { hang.Store(true); _ = cc.Close(); _ = sc.Close() })
	<-cdone
	log := <-done
	timer.Stop()
	log.Hang = hang.Load()
	return log
}

// ClientResult is what a real client observed on one connection.
type ClientResult struct {
	Neg        *security.SecurityNegotiation
	Err        error
	WasResumed bool // Authenticator.WasSessionResumed()
	Enc        bool
	SendErr    error
	Got        []byte // application message read from the server
	GotErr     error
	Ran        bool
}

// RealClient returns a client function that runs the real ClientHandshake and,
// if exchange is set, sends MsgC2S and reads one message.
func RealClient(cfg *security.SecurityConfig, serverAddr string, exchange bool, out *ClientResult) func(conn *wire.C06Conn) {
	return RealClientDeadline(cfg, serverAddr, exchange, 0, out)
}

// RealClientDeadline: with deadline > 0 the handshake runs under a context that
// expires after it (the caller-side timeout of a stalled exchange).
func RealClientDeadline(cfg *security.SecurityConfig, serverAddr string, exchange bool, deadline time.Duration, out *ClientResult) func(conn *wire.C06Conn) {
	return RealClientCtx(nil, cfg, serverAddr, exchange, deadline, out)
}

// RealClientCtx: the handshake runs under parent (Background if nil), bounded by
// deadline if > 0.
func RealClientCtx(parent context.Context, cfg *security.SecurityConfig, serverAddr string, exchange bool, deadline time.Duration, out *ClientResult) func(conn *wire.C06Conn) {
	return func(conn *wire.C06Conn) {
		ctx := parent
		if ctx == nil {
			ctx = context.Background()
		}
		if deadline > 0 {
			var cancel context.CancelFunc
			ctx, cancel = context.WithTimeout(ctx, deadline)
			defer cancel()
		}
		st := stream.NewStream(conn)
		st.SetPeerAddr(serverAddr)
		auth := security.NewAuthenticator(cfg, st)
		neg, err := auth.ClientHandshake(ctx)
		out.Ran = true
		out.Neg, out.Err, out.WasResumed = neg, err, auth.WasSessionResumed()
		if err != nil {
			return
		}
		out.Enc = st.IsEncrypted()
		if exchange {
			out.SendErr = st.SendMessage(ctx, MsgC2S)
			out.Got, out.GotErr = st.ReceiveCompleteMessage(ctx)
		}
	}
}

// ---- byte-level helpers on recordings -------------------------------------

// ReadFrame reads exactly one frame from r.
func ReadFrame(r io.Reader) (refcodec.Frame, []byte, error) {
	var h [5]byte
	if _, err := io.ReadFull(r, h[:]); err != nil {
		return refcodec.Frame{}, nil, err
	}
	n := int(uint32(h[1])<<24 | uint32(h[2])<<16 | uint32(h[3])<<8 | uint32(h[4]))
	if n > refcodec.MaxFrame {
		return refcodec.Frame{}, nil, fmt.Errorf("frame too large: %d", n)
	}
	body := make([]byte, n)
	if _, err := io.ReadFull(r, body); err != nil {
		return refcodec.Frame{}, nil, err
	}
	return refcodec.Frame{End: h[0], Body: body}, append(h[:], body...), nil
}

// digestOf is the transcript digest of a sequence of cleartext frames (zeros if none).
func digestOf(frames []refcodec.Frame) [32]byte {
	var t refcodec.Transcript
	for _, f := range frames {
		t.AddFrame(f.End, f.Body)
	}
	return t.Sum()
}

// SplitHandshake splits one direction of a recorded resumed connection into
// the cleartext handshake frames (the first message, if hasMsg) and the rest.
func SplitHandshake(stream []byte, hasMsg bool) (hs, rest []refcodec.Frame, tail []byte) {
	fs, tail := refcodec.ParseFrames(stream)
	if !hasMsg {
		return nil, fs, tail
	}
	for i, f := range fs {
		if f.End == 1 {
			return fs[:i+1], fs[i+1:], tail
		}
	}
	return fs, nil, tail
}

// ReplyCode extracts ReturnCode from the first (cleartext) message of the
// server-to-client bytes; "none" if there is no byte, "unparsable" otherwise.
func ReplyCode(s2c []byte) string {
	if len(s2c) == 0 {
		return "none"
	}
	body, _, ok := refcodec.C06FirstMessage(s2c)
	if !ok {
		return "unparsable"
	}
	attrs, _, err := refcodec.C06DecodeAd(body)
	if err != nil {
		return "unparsable"
	}
	rc := refcodec.C06Unquote(attrs["ReturnCode"])
	if rc == "" {
		return "unparsable"
	}
	return rc
}

func sha(b []byte) [32]byte { return sha256.Sum256(b) }

func contains(hay, needle []byte) bool { return bytes.Contains(hay, needle) }
