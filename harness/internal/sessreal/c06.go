package sessreal

import (
	"bytes"
	"context"
	"crypto/rand"
	"fmt"
	"math"
	"os"
	"strconv"
	"sync/atomic"
	"time"

	"github.com/bbockelm/cedar/security"
	"github.com/bbockelm/cedar/stream"

	"cedarverif/internal/refcodec"
	"cedarverif/internal/wire"
)

// Variant06 is the concrete expansion of the abstract classes of a C06
// behaviour (chosen by the driver: all members in thorough, seeded in quick).
type Variant06 struct {
	Requester string  `json:"requester"`           // "real": cedar's client code with a doctored cache entry; "hand": frames built with refcodec
	OneOffPos int     `json:"oneOffPos"`           // which character of the id differs (modulo its length)
	CutFrac   float64 `json:"cutFrac"`             // where inside a frame a "mid" cut falls (0..1)
	AnonNever bool    `json:"anonNever,omitempty"` // unauthenticated sessions by Authentication NEVER / method NONE instead of OPTIONAL with a common method
	Placement string  `json:"placement,omitempty"`
	// ImportVia: which real call realises the model's Import step: "mint"
	// (MintClaimSession with a Lifetime), "import" (ImportClaimSession of a claim id
	// that carries SessionExpires), "filetrans" (ImportFileTransferSession with a
	// Duration), "store" (Store of an entry with SetInherited(true) and a finite expiry).
	ImportVia string `json:"importVia,omitempty"` // see Server.Placement: "" (own cache), "fallback", "global"
}

const serverAddr06 = "10.8.0.1:9618"

type sess06 struct {
	ID        string
	Key       []byte
	Keyed     bool
	SrvAuthed bool
	SrvUser   string
	CliAuthed bool
	CliUser   string
	CliEnc    bool
	cc        *security.SessionCache // the cache of the legitimate client that established it
	Minted    bool                   // imported / minted (flag inherited, expiry, no lease), not negotiated
}

type rec06 struct {
	Sid      int
	Want     bool
	C2S, S2C []byte
}

// World06 is the real counterpart of the model state of one C06 behaviour.
type World06 struct {
	srv        *Server
	sess       map[int]*sess06
	recs       []rec06
	St         Stats06
	dur, lease int
}

type Stats06 struct {
	RealHandshakes, Resumes, Replays, FramesOpenedByRef, LeaseRenewed, LeaseNotRenewed, RealDeclined, ExpiryReadBack, Imports int64
}

func NewWorld06() *World06 {
	return &World06{srv: NewServer(serverAddr06), sess: map[int]*sess06{}}
}

// tickUnit is the real time one tick of the model's clock stands for; the server
// announces SessionDuration = Duration ticks and SessionLease = Lease ticks.
const tickUnit = 1800 * time.Second

// syncClock binds the virtual clock. Every entry the real server cache holds is
// kept at the real expiry  now + (exp - vnow) ticks + half a tick  (so "expired"
// on the real entry coincides with  vnow > exp  in the model, without sleeping).
// After every step except Tick it first READS BACK what the real code left in
// SessionEntry.Expiration() (set by storeSession, moved by RenewLease), converts
// it to virtual time and compares it with the expiry the model's lease mechanism
// defines; then it re-normalises the entry (which also realises Tick).
func (w *World06) syncClock(i int, e *Entry, readBack bool) *Diff {
	cache := w.srv.Sessions()
	for _, ent := range cache.Snapshot() {
		for n, s := range w.sess {
			if s.ID != ent.ID() || n > len(e.Present) || !e.Present[n-1] {
				continue
			}
			if len(e.Exp) < n { // behaviour recorded without expiries: alive / dead only
				exp := time.Now().Add(10 * time.Hour)
				if !e.Alive[n-1] {
					exp = time.Now().Add(-time.Hour)
				}
				ne := security.NewSessionEntry(ent.ID(), ent.Addr(), ent.KeyInfo(), ent.Policy(), exp, ent.Lease(), ent.Tag())
				ne.SetInherited(ent.IsInherited())
				cache.Store(ne)
				continue
			}
			model := e.Exp[n-1]
			if readBack {
				x := float64(time.Until(ent.Expiration())) / float64(tickUnit)
				real := e.Now + int(math.Floor(x+0.25))
				w.St.ExpiryReadBack++
				if real > model {
					d := viol(i, &e.Step, "DeadStaysDead", "after %s at virtual time %d: the lease mechanism puts the expiry of session %d at %d (duration %d, lease %d ticks), the real entry's Expiration() reads %d: the session outlives its lease and stays resumable when it should be SID_NOT_FOUND",
						e.Step.Act, e.Now, n, model, w.dur, w.lease, real)
					d.Sig["obs"] = "expiry"
					d.minted = s.Minted
					return d
				}
				if real < model {
					return broken(i, "after %s at virtual time %d: session %d should expire at %d, the real entry reads %d", e.Step.Act, e.Now, n, model, real)
				}
			}
			exp := time.Now().Add(time.Duration(model-e.Now)*tickUnit + tickUnit/2)
			ne := security.NewSessionEntry(ent.ID(), ent.Addr(), ent.KeyInfo(), ent.Policy(), exp, ent.Lease(), ent.Tag())
			ne.SetInherited(ent.IsInherited()) // the replacement keeps every attribute of the entry but the expiry
			cache.Store(ne)
		}
	}
	return nil
}

func (w *World06) present(id string) bool {
	for _, e := range w.srv.Sessions().Snapshot() {
		if e.ID() == id {
			return true
		}
	}
	return false
}

// renewed reports whether the real entry's expiry is now+lease (read back after
// a step that should renew the lease).
func (w *World06) renewed(id string) bool {
	for _, e := range w.srv.Sessions().Snapshot() {
		if e.ID() == id {
			d := time.Until(e.Expiration()) - e.Lease()
			return math.Abs(d.Seconds()) < 120
		}
	}
	return false
}

func sig06(st *Step, inv string) map[string]string {
	m := map[string]string{"spec": "SessionCache", "inv": inv}
	switch st.Act {
	case "Resume":
		m["action"] = "Resume"
		m["variant"] = Variant06Class(st)
	case "Replay":
		m["action"] = "ReplayRecorded"
		m["dir"] = st.Dir
		m["wantReply"] = boolStr(st.Want)
		m["cut"] = st.Cut
	default:
		m["action"] = st.Act
	}
	return m
}

// Variant06Class names the class of a resumption request.
func Variant06Class(st *Step) string {
	switch {
	case st.Idv != "exact":
		return st.Idv
	case st.PreExisted && st.PreAlive && !st.PreKeyed:
		return "keyless"
	case !st.PreAlive:
		return "dead"
	case st.Proof != "key":
		return st.Proof
	case st.From != "same":
		return "otheraddr"
	}
	return "legit"
}

func viol(i int, st *Step, inv, format string, a ...any) *Diff {
	return &Diff{Kind: "violation", Inv: inv, StepNo: i, Sig: sig06(st, inv), Detail: fmt.Sprintf(format, a...)}
}
func broken(i int, format string, a ...any) *Diff {
	return &Diff{Kind: "broken", Inv: "-", StepNo: i, Detail: fmt.Sprintf(format, a...)}
}

// Run06 steps the real code through one behaviour and returns the first
// difference (nil = conforms).
func Run06(sc *Scenario, v Variant06) (*Diff, *Stats06) {
	d, st := run06(sc, v)
	if d != nil && d.Sig != nil && d.minted {
		d.Sig["origin"] = "imported"
		via := v.ImportVia
		if via == "" {
			via = "mint"
		}
		d.Detail = "[session imported on the server via " + via + ": flagged inherited, finite expiry, no lease] " + d.Detail
	}
	if d != nil && v.Placement != "" && v.Placement != "own" {
		if d.Sig != nil {
			d.Sig["placement"] = v.Placement
		}
		d.Detail = "[sessions in the process-global cache, server configured with " +
			map[string]string{"fallback": "its own SessionCache (global fallback)", "global": "no SessionCache"}[v.Placement] + "] " + d.Detail
	}
	return d, st
}

func run06(sc *Scenario, v Variant06) (*Diff, *Stats06) {
	w := NewWorld06()
	w.srv.Placement = v.Placement
	w.srv.AnonNever = v.AnonNever
	w.dur, w.lease = sc.Dur, sc.Lease
	if sc.Dur > 0 && sc.Lease > 0 {
		w.srv.DurSecs = sc.Dur * int(tickUnit/time.Second)
		w.srv.LeaseSecs = sc.Lease * int(tickUnit/time.Second)
	}
	// sessions left in the process-global cache are removed again at the end (ids are
	// unique per session, so parallel scenarios never see each other's entries)
	defer func() {
		if v.Placement == "fallback" || v.Placement == "global" {
			for _, s := range w.sess {
				security.GetSessionCache().Invalidate(s.ID)
			}
		}
	}()
	// A session that SessionCache.Lookup still returns after its expiry is recorded,
	// but the behaviour is followed on: a resumption (or replay) of that session
	// accepted by the real ServerHandshake is the stronger observation and replaces it.
	var pending *Diff
	finish := func(d *Diff) (*Diff, *Stats06) {
		if pending != nil && (d == nil || d.Kind != "violation") {
			return pending, &w.St
		}
		return d, &w.St
	}
	for i := range sc.H {
		e := &sc.H[i]
		if d := w.step(i, e, v); d != nil {
			d.minted = w.concernsMinted(&e.Step)
			return finish(d)
		}
		// post-state: read the expiries back, bind the clock, then compare what the real cache answers
		if d := w.syncClock(i, e, e.Step.Act != "Tick"); d != nil {
			return finish(d)
		}
		for n := 1; n <= len(e.Alive); n++ {
			s := w.sess[n]
			if s == nil {
				return finish(broken(i, "model has session %d the harness never saw", n))
			}
			_, realAlive := w.srv.Sessions().Lookup(s.ID)
			if realAlive && !e.Alive[n-1] {
				d := viol(i, &e.Step, "DeadStaysDead", "after %s: session %d is expired/invalidated in the model but SessionCache.Lookup still returns it", e.Step.Act, n)
				d.Sig["obs"] = "lookup"
				d.minted = s.Minted
				if pending == nil {
					pending = d
				}
				continue
			}
			if !realAlive && e.Alive[n-1] {
				return finish(broken(i, "after %s: session %d should be alive but the real cache does not return it", e.Step.Act, n))
			}
		}
	}
	return finish(nil)
}

// concernsMinted: the step's session was imported / minted rather than negotiated.
func (w *World06) concernsMinted(st *Step) bool {
	n := st.Sid
	switch st.Act {
	case "Resume":
		n = st.Tgt
	case "Replay":
		if st.Rec >= 1 && st.Rec <= len(w.recs) {
			n = w.recs[st.Rec-1].Sid
		}
	}
	s := w.sess[n]
	return s != nil && s.Minted
}

func (w *World06) step(i int, e *Entry, v Variant06) *Diff {
	st := &e.Step
	cache := w.srv.Sessions()
	switch st.Act {
	case "Establish":
		return w.establish(i, st)
	case "Import":
		return w.importSession(i, st, v.ImportVia)
	case "Tick":
		return nil // the clock is bound by syncClock after the step
	case "Renew":
		s := w.sess[st.Sid]
		ent, ok := cache.Lookup(s.ID)
		if !ok {
			return broken(i, "Renew: live session %d not found by Lookup", st.Sid)
		}
		ent.RenewLease()
		if s.Minted {
			return nil // no lease: the read-back in syncClock requires the expiry to be unchanged
		}
		if w.renewed(s.ID) {
			w.St.LeaseRenewed++
		} else {
			w.St.LeaseNotRenewed++
		}
		return nil
	case "SrvInvalidate":
		s := w.sess[st.Sid]
		if !cache.Invalidate(s.ID) {
			return broken(i, "Invalidate(%d) reports the session was not cached", st.Sid)
		}
		return nil
	case "SrvSweep":
		cache.InvalidateExpired()
		return nil
	case "Resume":
		return w.resume(i, st, v)
	case "Replay":
		return w.replay(i, st, v)
	}
	return broken(i, "unknown action %q", st.Act)
}

func (w *World06) establish(i int, st *Step) *Diff {
	w.srv.Keyed, w.srv.Authed = st.Keyed, st.Authed
	var cr ClientResult
	cc := security.NewSessionCache() // every session is established by a client that has nothing cached
	cfg := ClientConfigAnon(cc, "", CmdInt["c1"], st.Authed, w.srv.AnonNever)
	log := Exchange(w.srv, ClientAddrSame, AppServer, RealClient(cfg, w.srv.Addr, true, &cr))
	w.St.RealHandshakes++
	if log.Hang {
		return broken(i, "Establish: handshake hung")
	}
	if log.Err != nil || cr.Err != nil {
		return broken(i, "Establish(keyed=%v, authed=%v): full handshake failed: server %v / client %v", st.Keyed, st.Authed, log.Err, cr.Err)
	}
	id := log.Neg.SessionId
	ent, ok := w.srv.Sessions().Lookup(id)
	if !ok || id == "" || cr.Neg.SessionId != id {
		return broken(i, "Establish: session %q not cached on the server / ids differ (%q)", id, cr.Neg.SessionId)
	}
	s := &sess06{ID: id, Keyed: ent.KeyInfo() != nil, SrvAuthed: log.Neg.Authentication, SrvUser: log.Neg.User,
		CliAuthed: cr.Neg.Authentication, CliUser: cr.Neg.User, CliEnc: cr.Enc, cc: cc}
	if s.Keyed {
		s.Key = append([]byte(nil), ent.KeyInfo().Data...)
	}
	if s.Keyed != st.Keyed || s.SrvAuthed != st.Authed || log.Enc != st.Keyed {
		return broken(i, "Establish(keyed=%v, authed=%v) produced keyed=%v authed=%v encrypted=%v", st.Keyed, st.Authed, s.Keyed, s.SrvAuthed, log.Enc)
	}
	if !log.AppRecv || !bytes.Equal(log.AppMsg, MsgC2S) || !bytes.Equal(cr.Got, MsgS2C) {
		return broken(i, "Establish: application exchange failed after the full handshake (%v / %v)", log.AppErr, cr.GotErr)
	}
	w.sess[st.Sid] = s
	return nil
}

var claimSeq int64

// importSession realises the model's Import step: a keyed, authenticated session
// flagged inherited, with a finite expiry (Duration ticks) and no lease, comes into
// existence on the server through one of cedar's import / mint calls; the
// legitimate peer imports the same claim into its own cache.
func (w *World06) importSession(i int, st *Step, via string) *Diff {
	if via == "" {
		via = "mint"
	}
	dur := w.dur
	if dur <= 0 {
		dur = 2
	}
	life := time.Duration(dur) * tickUnit
	seq := atomic.AddInt64(&claimSeq, 1)
	mo := security.MintClaimOptions{
		Sinful:      fmt.Sprintf("<10.8.0.1:9618?sock=startd_%d_%d_c06>", os.Getpid(), seq),
		Birthdate:   1700000000 + seq,
		SequenceNum: int(seq),
		Lifetime:    life,
	}
	srvCache := w.srv.Sessions()
	cc := security.NewSessionCache()
	co := security.ClaimSessionOptions{PeerAddr: w.srv.Addr, ExtraValidCommands: []int{CmdInt["c1"]}}
	var id, claim string
	var err error
	switch via {
	case "mint":
		var m *security.MintedClaim
		if m, err = security.MintClaimSession(srvCache, mo); err == nil {
			id, claim = m.SessionID(), m.ClaimID()
			_, err = security.ImportClaimSession(cc, claim, co)
		}
	case "import", "store":
		var m *security.MintedClaim
		scratch := security.NewSessionCache()
		if m, err = security.MintClaimSession(scratch, mo); err != nil {
			break
		}
		claim = m.ClaimID()
		if via == "import" {
			id, err = security.ImportClaimSession(srvCache, claim, security.ClaimSessionOptions{})
		} else {
			id = m.SessionID()
			e, ok := scratch.Lookup(id)
			if !ok {
				return broken(i, "Import(store): minted session not found")
			}
			ne := security.NewSessionEntry(id, ClientAddrSame, e.KeyInfo(), e.Policy(), time.Now().Add(life), 0, "")
			ne.SetInherited(true)
			srvCache.Store(ne)
		}
		if err == nil {
			_, err = security.ImportClaimSession(cc, claim, co)
		}
	case "filetrans":
		var m *security.MintedClaim
		mo.Lifetime = 0
		if m, err = security.MintClaimSession(security.NewSessionCache(), mo); err != nil {
			break
		}
		claim = m.ClaimID()
		if id, err = security.ImportFileTransferSession(srvCache, claim, security.ClaimSessionOptions{Duration: life}); err == nil {
			_, err = security.ImportFileTransferSession(cc, claim, co)
		}
	default:
		return broken(i, "unknown import realisation %q", via)
	}
	if err != nil {
		return broken(i, "Import(%s) failed: %v", via, err)
	}
	ent, ok := srvCache.Lookup(id)
	if !ok || ent.KeyInfo() == nil || !ent.IsInherited() || ent.Expiration().IsZero() {
		return broken(i, "Import(%s): the server entry is not a keyed, inherited-flagged session with a finite expiry", via)
	}
	s := &sess06{ID: id, Keyed: true, Key: append([]byte(nil), ent.KeyInfo().Data...), CliAuthed: true, CliEnc: true, cc: cc, Minted: true}
	s.SrvAuthed, _ = ent.Policy().EvaluateAttrBool("Authenticated")
	s.SrvUser, _ = ent.Policy().EvaluateAttrString("User")
	if ce := w.legitEntry(s); ce != nil {
		s.CliUser, _ = ce.Policy().EvaluateAttrString("User")
	} else {
		return broken(i, "Import(%s): the peer's cache does not hold the session", via)
	}
	if !s.SrvAuthed {
		return broken(i, "Import(%s): session not recorded as authenticated", via)
	}
	w.St.Imports++
	w.sess[st.Sid] = s
	return nil
}

// presentedID returns the identifier a request variant presents.
func presentedID(id, idv string, pos int) string {
	switch idv {
	case "exact":
		return id
	case "oneoff":
		b := []byte(id)
		p := ((pos % len(b)) + len(b)) % len(b)
		if b[p] == 'x' {
			b[p] = 'y'
		} else {
			b[p] = 'x'
		}
		return string(b)
	}
	return "nosuchhost.example:4242:1700000000:987654"
}

func wrongKey(k []byte) []byte {
	out := make([]byte, 32)
	if len(k) == 32 {
		copy(out, k)
		out[0] ^= 0x80
		out[31] ^= 0x01
		return out
	}
	_, _ = rand.Read(out)
	return out
}

// obs06 is what one attempted resumption showed.
type obs06 struct {
	log      *ConnLog
	reply    string
	readable bool // the requester obtained the server's application message
	cli      *ClientResult
	detail   string
}

func (w *World06) legitEntry(s *sess06) *security.SessionEntry {
	id := s.ID
	for _, e := range s.cc.Snapshot() {
		if e.ID() == id {
			return e
		}
	}
	return nil
}

// realRequester runs cedar's own client code with a doctored cache entry.
func (w *World06) realRequester(s *sess06, st *Step, v Variant06, from string) (*obs06, *Diff) {
	orig := w.legitEntry(s)
	if orig == nil {
		return nil, broken(0, "legitimate client lost its session entry")
	}
	id := presentedID(s.ID, st.Idv, v.OneOffPos)
	var ki *security.KeyInfo
	switch st.Proof {
	case "key":
		if orig.KeyInfo() != nil {
			ki = &security.KeyInfo{Data: append([]byte(nil), orig.KeyInfo().Data...), Protocol: orig.KeyInfo().Protocol}
		}
	case "wrongkey":
		ki = &security.KeyInfo{Data: wrongKey(s.Key), Protocol: string(security.CryptoAES)}
	}
	ac := security.NewSessionCache()
	ac.Store(security.NewSessionEntry(id, w.srv.Addr, ki, orig.Policy(), time.Now().Add(10*time.Hour), orig.Lease(), ""))
	ac.MapCommand("", w.srv.Addr, strconv.Itoa(CmdInt["c1"]), id)
	cfg := ClientConfigAnon(ac, "", CmdInt["c1"], s.SrvAuthed, w.srv.AnonNever)
	cr := &ClientResult{}
	log := Exchange(w.srv, from, AppServer, RealClient(cfg, w.srv.Addr, true, cr))
	o := &obs06{log: log, cli: cr, reply: ReplyCode(log.S2C)}
	o.readable = cr.Err == nil && cr.GotErr == nil && bytes.Equal(cr.Got, MsgS2C)
	return o, nil
}

// handRequester speaks the resumption exchange with frames built by refcodec.
func (w *World06) handRequester(s *sess06, st *Step, v Variant06, from string) (*obs06, *Diff) {
	id := presentedID(s.ID, st.Idv, v.OneOffPos)
	var key []byte
	switch st.Proof {
	case "key":
		key = s.Key
	case "wrongkey":
		key = wrongKey(s.Key)
	}
	o := &obs06{}
	client := func(conn *wire.C06Conn) {
		var want *bool
		if st.Want {
			t := true
			want = &t
		}
		req := refcodec.Frame{End: 1, Body: refcodec.C06ResumeRequest(CmdInt["c1"], id, want, "AES")}
		if _, err := conn.Write(req.Encode()); err != nil {
			return
		}
		var replyFrames []refcodec.Frame
		if st.Want {
			f, _, err := ReadFrame(conn)
			if err != nil {
				return
			}
			replyFrames = append(replyFrames, f)
		}
		mine, peer := digestOf([]refcodec.Frame{req}), digestOf(replyFrames)
		var m1 refcodec.Frame
		if key != nil {
			var iv [16]byte
			_, _ = rand.Read(iv[:])
			m1 = refcodec.NewSealer(key, iv, mine, peer).Seal(1, MsgC2S)
		} else {
			m1 = refcodec.Frame{End: 1, Body: MsgC2S}
		}
		_, _ = conn.Write(m1.Encode())
		// read whatever the server sends until it closes
		var rest []refcodec.Frame
		for {
			f, _, err := ReadFrame(conn)
			if err != nil {
				break
			}
			rest = append(rest, f)
		}
		for _, f := range rest {
			if key != nil {
				if pt, err := refcodec.NewOpener(key, peer, mine).Open(f); err == nil && bytes.Equal(pt, MsgS2C) {
					o.readable = true
				}
			}
			if contains(f.Body, MsgS2C) {
				o.readable = true
			}
		}
	}
	o.log = Exchange(w.srv, from, AppServer, client)
	if st.Want {
		o.reply = ReplyCode(o.log.S2C)
	} else {
		o.reply = "none"
		// without a requested reply the server must not send a cleartext ad
		if len(o.log.S2C) > 0 {
			if rc := ReplyCode(o.log.S2C); rc != "unparsable" {
				o.reply = rc
			}
		}
	}
	return o, nil
}

// protectedBy checks, with the reference opener only, that every frame of one
// direction after the cleartext handshake message opens under key.
func (w *World06) protectedBy(key []byte, dirBytes, otherBytes []byte, dirHasHs, otherHasHs bool, wantPlain []byte) (bool, string) {
	hs, rest, tail := SplitHandshake(dirBytes, dirHasHs)
	ohs, _, _ := SplitHandshake(otherBytes, otherHasHs)
	if len(tail) > 0 {
		return false, "trailing partial frame"
	}
	if len(rest) == 0 {
		return false, "no frame after the handshake message"
	}
	if key == nil {
		return false, "no session key, frames are in the clear"
	}
	op := refcodec.NewOpener(key, digestOf(hs), digestOf(ohs))
	for k, f := range rest {
		pt, err := op.Open(f)
		if err != nil {
			return false, fmt.Sprintf("frame %d after the handshake does not open under the session key: %v", k, err)
		}
		w.St.FramesOpenedByRef++
		if k == 0 && wantPlain != nil && !bytes.Equal(pt, wantPlain) {
			return false, "frame opens to unexpected plaintext"
		}
	}
	return true, ""
}

func (w *World06) resume(i int, st *Step, v Variant06) *Diff {
	s := w.sess[st.Tgt]
	if s == nil {
		return broken(i, "Resume: unknown target session %d", st.Tgt)
	}
	from := ClientAddrSame
	if st.From == "other" {
		from = ClientAddrOther
	}
	kind := v.Requester
	if !st.Want {
		kind = "hand" // cedar's client always asks for a reply
	}
	var o *obs06
	var d *Diff
	if kind == "real" {
		o, d = w.realRequester(s, st, v, from)
		if d == nil && (o.log.Req == nil || !o.log.Req.UseSession) {
			// cedar's client declined to attempt the resumption (e.g. it does not try
			// entries without a key): the request variant is then produced by hand.
			if o.log.Neg != nil && o.log.Neg.SessionId != "" {
				w.srv.Sessions().Invalidate(o.log.Neg.SessionId) // forget the session its full handshake created
			}
			w.St.RealDeclined++
			kind = "hand"
			o, d = w.handRequester(s, st, v, from)
		}
	} else {
		o, d = w.handRequester(s, st, v, from)
	}
	if d != nil {
		d.StepNo = i
		return d
	}
	w.St.Resumes++
	log := o.log
	if log.Hang {
		return broken(i, "Resume: exchange hung")
	}
	realRes := "refused"
	if log.Err == nil {
		realRes = "resumed"
	}
	desc := fmt.Sprintf("Resume(%s id, %s, wantReply=%v, from %s address, %s requester) of a session that is [existed=%v alive=%v keyed=%v]",
		st.Idv, st.Proof, st.Want, st.From, kind, st.PreExisted, st.PreAlive, st.PreKeyed)

	// --- the server's decision ------------------------------------------------
	if realRes == "resumed" && st.Res == "refused" {
		inv := "DeadStaysDead"
		if st.PreAlive && !st.PreKeyed && st.Idv == "exact" {
			inv = "ResumeOnlyKeyed"
		}
		return viol(i, st, inv, "%s: the model refuses, the real ServerHandshake succeeded (Authentication=%v User=%q Encryption=%v stream encrypted=%v; application message accepted=%v)",
			desc, log.Neg.Authentication, log.Neg.User, log.Neg.Encryption, log.Enc, log.AppRecv)
	}
	if realRes == "refused" && st.Res == "resumed" {
		if st.Perm {
			return &Diff{Kind: "diverged", StepNo: i, Detail: "request from another address refused (permitted)"}
		}
		return broken(i, "%s: the model resumes, the real server refused: %v", desc, log.Err)
	}
	// --- no byte accepted / readable without the key ---------------------------
	if log.AppRecv && !st.Accepted {
		return viol(i, st, "NoKeyNoAcceptedByte", "%s: the server accepted %d application bytes from the requester", desc, len(log.AppMsg))
	}
	if o.readable && !st.Readable {
		return viol(i, st, "NoKeyNoReadableByte", "%s: the requester could read the server's application message", desc)
	}
	// --- told when asked -------------------------------------------------------
	if st.Reply != "any" && o.reply != st.Reply {
		if st.Res == "refused" && st.Want {
			return viol(i, st, "ToldWhenAsked", "%s: expected reply %s, the requester saw %s", desc, st.Reply, o.reply)
		}
		if st.Res == "refused" && !st.Want {
			return viol(i, st, "ToldWhenAsked", "%s: no reply was requested but the server sent %s", desc, o.reply)
		}
		return broken(i, "%s: expected reply %s, saw %s", desc, st.Reply, o.reply)
	}
	if st.Res == "refused" {
		return nil
	}
	// --- resumed: everything after the reply is under the session key ------------
	if !log.Enc {
		return viol(i, st, "AllBytesAfterReplyProtected", "%s: resumed but Stream.IsEncrypted() is false on the server", desc)
	}
	if ok, why := w.protectedBy(s.Key, log.S2C, log.C2S, st.Want, true, MsgS2C); !ok {
		return viol(i, st, "AllBytesAfterReplyProtected", "%s: server-to-client bytes after the reply: %s", desc, why)
	}
	if contains(log.S2C, MsgS2C) {
		return viol(i, st, "AllBytesAfterReplyProtected", "%s: the server's application message appears in the clear", desc)
	}
	if st.Proof != "key" {
		return nil
	}
	// --- the legitimate holder: state equals the original -----------------------
	if !log.AppRecv || !bytes.Equal(log.AppMsg, MsgC2S) {
		return viol(i, st, "ResumedStateEqualsOriginal", "%s: the key holder's application message was not delivered (%v): the two sides do not share the key", desc, log.AppErr)
	}
	if !o.readable {
		return viol(i, st, "ResumedStateEqualsOriginal", "%s: the key holder cannot read the server's message: the two sides do not share the key", desc)
	}
	if log.Neg.Authentication != s.SrvAuthed || log.Neg.User != s.SrvUser {
		return viol(i, st, "ResumedStateEqualsOriginal", "%s: server side: original Authentication=%v User=%q, resumed Authentication=%v User=%q", desc, s.SrvAuthed, s.SrvUser, log.Neg.Authentication, log.Neg.User)
	}
	if log.Neg.SessionId != s.ID || !log.Neg.Encryption {
		return viol(i, st, "ResumedStateEqualsOriginal", "%s: server side reports SessionId=%q Encryption=%v", desc, log.Neg.SessionId, log.Neg.Encryption)
	}
	if kind == "real" {
		if ok, why := w.protectedBy(s.Key, log.C2S, log.S2C, true, st.Want, MsgC2S); !ok {
			return viol(i, st, "AllBytesAfterReplyProtected", "%s: client-to-server bytes after the request: %s", desc, why)
		}
		cn := o.cli.Neg
		if cn.User != s.CliUser || cn.SessionId != s.ID || !o.cli.Enc || !cn.Encryption {
			d := viol(i, st, "ResumedStateEqualsOriginal", "%s: client side: original User=%q, resumed User=%q SessionId ok=%v encrypted=%v/%v", desc, s.CliUser, cn.User, cn.SessionId == s.ID, o.cli.Enc, cn.Encryption)
			d.Sig["side"] = "client"
			return d
		}
		if cn.Authentication != s.CliAuthed {
			d := viol(i, st, "ResumedStateEqualsOriginal", "%s: client side: the original handshake reported Authentication=%v, the resumed one reports %v", desc, s.CliAuthed, cn.Authentication)
			d.Sig["side"] = "client"
			d.Sig["field"] = "Authentication"
			return d
		}
	}
	if s.Minted {
		// no lease to renew
	} else if w.renewed(s.ID) {
		w.St.LeaseRenewed++
	} else {
		w.St.LeaseNotRenewed++
	}
	if st.Recorded {
		w.recs = append(w.recs, rec06{Sid: st.Tgt, Want: st.Want, C2S: log.C2S, S2C: log.S2C})
	}
	return nil
}

// cutBytes applies an abstract cut to one recorded direction.
func cutBytes(b []byte, hasHs bool, cut string, frac float64) []byte {
	hs, _, _ := SplitHandshake(b, hasHs)
	hsLen := 0
	for _, f := range hs {
		hsLen += 5 + len(f.Body)
	}
	within := func(lo, hi int) int { // a position strictly inside (lo, hi)
		if hi-lo < 2 {
			return lo
		}
		p := lo + 1 + int(frac*float64(hi-lo-2))
		if p >= hi {
			p = hi - 1
		}
		return p
	}
	switch cut {
	case "whole":
		return b
	case "afterHs":
		return b[:hsLen]
	case "midHs":
		return b[:within(0, hsLen)]
	case "midApp":
		return b[:within(hsLen, len(b))]
	}
	return b
}

func (w *World06) replay(i int, st *Step, v Variant06) *Diff {
	if st.Rec < 1 || st.Rec > len(w.recs) {
		return broken(i, "Replay: recording %d does not exist (have %d)", st.Rec, len(w.recs))
	}
	r := w.recs[st.Rec-1]
	s := w.sess[r.Sid]
	w.St.Replays++
	ctx := context.Background()
	desc := fmt.Sprintf("Replay(%s, cut=%s) of a recorded resumed connection (reply requested=%v) against a fresh connection; session now [alive=%v keyed=%v]", st.Dir, st.Cut, r.Want, st.PreAlive, st.PreKeyed)
	if st.Dir == "c2s" {
		data := cutBytes(r.C2S, true, st.Cut, v.CutFrac)
		if st.Cut == "midHs" && len(data) == 0 {
			return nil
		}
		bc := wire.NewBufConn("replay-c2s")
		bc.Feed(data)
		stS := stream.NewStream(bc)
		auth := security.NewAuthenticator(w.srv.Config(), stS)
		neg, err := auth.ServerHandshake(ctx)
		if err != nil {
			if st.Res == "resumed" {
				return nil // refusing a replayed request is always allowed
			}
			if rc := ReplyCode(bc.TakeOut()); st.Reply != "any" && rc != st.Reply {
				return viol(i, st, "ToldWhenAsked", "%s: expected reply %s, saw %s", desc, st.Reply, rc)
			}
			return nil
		}
		if st.Res != "resumed" {
			return viol(i, st, "DeadStaysDead", "%s: the model refuses, the real ServerHandshake succeeded", desc)
		}
		_ = stS.SendMessage(ctx, MsgS2C)
		msg, rerr := stS.ReceiveCompleteMessage(ctx)
		out := bc.TakeOut()
		if rerr == nil {
			return viol(i, st, "NoKeyNoAcceptedByte", "%s: ServerHandshake succeeded (Authentication=%v User=%q Encryption=%v) and the replayed application message (%d bytes, equal to the recorded one: %v) was delivered", desc,
				neg.Authentication, neg.User, neg.Encryption, len(msg), bytes.Equal(msg, MsgC2S))
		}
		if contains(out, MsgS2C) || !stS.IsEncrypted() {
			return viol(i, st, "NoKeyNoReadableByte", "%s: what the server sent to the replaying requester is in the clear", desc)
		}
		if ok, why := w.protectedBy(s.Key, out, data, r.Want, true, MsgS2C); !ok {
			return viol(i, st, "AllBytesAfterReplyProtected", "%s: %s", desc, why)
		}
		return nil
	}
	// s2c: the recorded server bytes are played to a fresh real client that
	// still caches the session
	orig := w.legitEntry(s)
	if orig == nil {
		return broken(i, "Replay s2c: legitimate client lost its session entry")
	}
	data := cutBytes(r.S2C, r.Want, st.Cut, v.CutFrac)
	ac := security.NewSessionCache()
	ac.Store(security.NewSessionEntry(orig.ID(), w.srv.Addr, orig.KeyInfo(), orig.Policy(), time.Now().Add(10*time.Hour), orig.Lease(), ""))
	ac.MapCommand("", w.srv.Addr, strconv.Itoa(CmdInt["c1"]), orig.ID())
	bc := wire.NewBufConn("replay-s2c")
	bc.Feed(data)
	stC := stream.NewStream(bc)
	stC.SetPeerAddr(w.srv.Addr)
	auth := security.NewAuthenticator(ClientConfigAnon(ac, "", CmdInt["c1"], s.SrvAuthed, w.srv.AnonNever), stC)
	_, err := auth.ClientHandshake(ctx)
	if err != nil {
		return nil
	}
	msg, rerr := stC.ReceiveCompleteMessage(ctx)
	if rerr == nil {
		return viol(i, st, "NoKeyNoAcceptedByte", "%s: the real ClientHandshake resumed against the replayed bytes and the client accepted the replayed application message (%d bytes, equal to the recorded one: %v)", desc, len(msg), bytes.Equal(msg, MsgS2C))
	}
	return nil
}
