package wire

// C19: a connection whose k-th I/O step never completes.
//
// StallConn wraps a real connection (a TCP loopback pair, see C19TCPPair) and
// counts the I/O steps the code under test performs on it, reads and writes on
// ONE counter in call order (a cedar call is sequential). Read fills the whole
// buffer (io.ReadFull on the inner conn): cedar always asks for exact sizes
// through io.ReadFull, so one readWithContext is exactly one step. That also
// holds for cedar's SSL method: its TLS records are carried INSIDE cedar
// messages (security.CEDARTLSConnection), crypto/tls never reads the socket
// itself, so the socket still sees exact-size reads only.
//
// Step StallAt never completes on its own: it blocks until Close is called,
// exactly like a read from / write to a peer that has stopped, and then fails
// with net.ErrClosed the way a real socket does. Hooks let the harness fire a
// context at a precise point of a step.

import (
	"io"
	"net"
	"sync"
	"time"
)

// C19Step describes one observed I/O step.
type C19Step struct {
	Kind string `json:"kind"` // "read" | "write"
	Len  int    `json:"len"`
}

type StallConn struct {
	inner net.Conn

	// configuration: set before the connection is handed to the code under test
	StallAt      int  // 1-based index of the step that never completes (0: none)
	StallPartial bool // the stalled step transfers half of its bytes first
	// OnlyKind ("read" | "write" | ""): when set, only operations of this kind are steps
	// (counted, hooked, stallable); the other direction passes straight through. Used when a
	// second operation runs on the other direction of the stream at the same time (duplex).
	OnlyKind string
	// BeforeOp is called when step idx starts (before any byte moves).
	BeforeOp func(idx int, kind string)
	// AfterOp is called when the I/O of a non-stalled step has completed, before
	// Read/Write returns to the caller (the step is still "in flight" for it).
	AfterOp func(idx int, kind string)
	// OnStall is called once when the stalled step starts blocking.
	OnStall func(idx int, kind string)

	mu       sync.Mutex
	steps    []C19Step
	started  int
	done     int // steps whose I/O completed
	closed   bool
	closedAt time.Time
	closeCh  chan struct{} // closed by Close (code under test) or Teardown (harness)
	once     sync.Once
	codeCh   chan struct{} // closed when the code under test called Close
	torn     bool
}

func NewStallConn(inner net.Conn) *StallConn {
	return &StallConn{inner: inner, closeCh: make(chan struct{}), codeCh: make(chan struct{})}
}

func (c *StallConn) begin(kind string, n int) int {
	c.mu.Lock()
	c.started++
	idx := c.started
	c.steps = append(c.steps, C19Step{Kind: kind, Len: n})
	c.mu.Unlock()
	if c.BeforeOp != nil {
		c.BeforeOp(idx, kind)
	}
	return idx
}

func (c *StallConn) finish(idx int, kind string, err error) {
	if err == nil {
		c.mu.Lock()
		c.done++
		c.mu.Unlock()
	}
	if c.AfterOp != nil {
		c.AfterOp(idx, kind)
	}
}

func (c *StallConn) stall(idx int, kind string) error {
	if c.OnStall != nil {
		c.OnStall(idx, kind)
	}
	<-c.closeCh
	return net.ErrClosed
}

func (c *StallConn) Read(p []byte) (int, error) {
	if c.OnlyKind == "write" {
		return io.ReadFull(c.inner, p)
	}
	idx := c.begin("read", len(p))
	if idx == c.StallAt {
		n := 0
		if c.StallPartial && len(p) > 1 {
			n, _ = io.ReadFull(c.inner, p[:len(p)/2])
		}
		return n, c.stall(idx, "read")
	}
	n, err := io.ReadFull(c.inner, p)
	c.finish(idx, "read", err)
	return n, err
}

func (c *StallConn) Write(p []byte) (int, error) {
	if c.OnlyKind == "read" {
		return c.inner.Write(p)
	}
	idx := c.begin("write", len(p))
	if idx == c.StallAt {
		n := 0
		if c.StallPartial && len(p) > 1 {
			n, _ = c.inner.Write(p[:len(p)/2])
		}
		return n, c.stall(idx, "write")
	}
	n, err := c.inner.Write(p)
	c.finish(idx, "write", err)
	return n, err
}

// Close is what the code under test calls (directly or from its AfterFunc
// goroutine): it is recorded, unblocks the stalled step and closes the socket.
func (c *StallConn) Close() error {
	c.mu.Lock()
	first := !c.closed
	if first {
		c.closed = true
		c.closedAt = time.Now()
		close(c.codeCh)
	}
	c.mu.Unlock()
	// the socket first, the stalled step afterwards: when the blocked I/O fails the
	// connection IS closed (a real socket never releases it earlier)
	err := c.inner.Close()
	c.once.Do(func() { close(c.closeCh) })
	return err
}

// Teardown is the harness's own close: it releases everything without
// counting as a Close by the code under test.
func (c *StallConn) Teardown() {
	c.mu.Lock()
	c.torn = true
	c.mu.Unlock()
	c.once.Do(func() { close(c.closeCh) })
	_ = c.inner.Close()
}

// Closed reports whether the code under test has called Close.
func (c *StallConn) Closed() bool {
	c.mu.Lock()
	defer c.mu.Unlock()
	return c.closed
}

// ClosedAt is the time of the first Close by the code under test.
func (c *StallConn) ClosedAt() time.Time {
	c.mu.Lock()
	defer c.mu.Unlock()
	return c.closedAt
}

// WaitClosed waits up to d for a Close by the code under test.
func (c *StallConn) WaitClosed(d time.Duration) bool {
	t := time.NewTimer(d)
	defer t.Stop()
	select {
	case <-c.codeCh:
		return true
	case <-t.C:
		return c.Closed()
	}
}

// ResetSteps forgets the steps seen so far (a warm-up exchange before the call under test).
func (c *StallConn) ResetSteps() {
	c.mu.Lock()
	c.steps, c.started, c.done = nil, 0, 0
	c.mu.Unlock()
}

// Steps returns the steps started so far, in order.
func (c *StallConn) Steps() []C19Step {
	c.mu.Lock()
	defer c.mu.Unlock()
	return append([]C19Step(nil), c.steps...)
}

// StepsStarted / StepsDone: number of steps begun / whose I/O completed.
func (c *StallConn) StepsStarted() int { c.mu.Lock(); defer c.mu.Unlock(); return c.started }
func (c *StallConn) StepsDone() int    { c.mu.Lock(); defer c.mu.Unlock(); return c.done }

func (c *StallConn) LocalAddr() net.Addr                { return c.inner.LocalAddr() }
func (c *StallConn) RemoteAddr() net.Addr               { return c.inner.RemoteAddr() }
func (c *StallConn) SetDeadline(t time.Time) error      { return c.inner.SetDeadline(t) }
func (c *StallConn) SetReadDeadline(t time.Time) error  { return c.inner.SetReadDeadline(t) }
func (c *StallConn) SetWriteDeadline(t time.Time) error { return c.inner.SetWriteDeadline(t) }

// C19TCPPair returns the two ends of a fresh TCP connection over loopback:
// dialed is the end that called Dial, accepted the end returned by Accept (its
// LocalAddr is the listening address). The listener stays open until release
// is called, so that no other pair can get the same port meanwhile (FS
// authentication derives directory names from it).
func C19TCPPair() (dialed, accepted net.Conn, release func(), err error) {
	ln, err := net.Listen("tcp", "127.0.0.1:0")
	if err != nil {
		return nil, nil, nil, err
	}
	type acc struct {
		c   net.Conn
		err error
	}
	ch := make(chan acc, 1)
	go func() {
		c, err := ln.Accept()
		ch <- acc{c, err}
	}()
	d, err := net.DialTimeout("tcp", ln.Addr().String(), 5*time.Second)
	if err != nil {
		ln.Close()
		return nil, nil, nil, err
	}
	select {
	case a := <-ch:
		if a.err != nil {
			d.Close()
			ln.Close()
			return nil, nil, nil, a.err
		}
		return d, a.c, func() { ln.Close() }, nil
	case <-time.After(5 * time.Second):
		d.Close()
		ln.Close()
		return nil, nil, nil, net.ErrClosed
	}
}
