package wire

import (
	"io"
	"net"
	"sync"
	"time"
)

// Duplex is an in-memory, recording, full-duplex connection pair (C06/C07).
// Unlike net.Pipe writes never block (so a peer that stopped reading cannot
// deadlock the other side) and everything each end wrote stays available for
// byte-level inspection and replay. Reads block until data arrives or the
// writer closed (io.EOF after the data is drained).

type c06Half struct {
	mu     sync.Mutex
	cond   *sync.Cond
	buf    []byte // unread bytes
	all    []byte // everything ever written (the recording)
	wclose bool   // writer closed: EOF after drain
	rclose bool   // reader closed: writes fail
}

func newC06Half() *c06Half { h := &c06Half{}; h.cond = sync.NewCond(&h.mu); return h }

// C06Conn is one end of a Duplex.
type C06Conn struct {
	rd, wr        *c06Half
	local, remote addr
	once          sync.Once
}

// NewC06Duplex returns the client and the server end. clientAddr is what the
// server sees as RemoteAddr, serverAddr what the client sees.
func NewC06Duplex(clientAddr, serverAddr string) (client, server *C06Conn) {
	c2s, s2c := newC06Half(), newC06Half()
	client = &C06Conn{rd: s2c, wr: c2s, local: addr(clientAddr), remote: addr(serverAddr)}
	server = &C06Conn{rd: c2s, wr: s2c, local: addr(serverAddr), remote: addr(clientAddr)}
	return
}

func (c *C06Conn) Read(p []byte) (int, error) {
	h := c.rd
	h.mu.Lock()
	defer h.mu.Unlock()
	for len(h.buf) == 0 {
		if h.rclose {
			return 0, net.ErrClosed
		}
		if h.wclose {
			return 0, io.EOF
		}
		h.cond.Wait()
	}
	n := copy(p, h.buf)
	h.buf = h.buf[n:]
	return n, nil
}

func (c *C06Conn) Write(p []byte) (int, error) {
	h := c.wr
	h.mu.Lock()
	defer h.mu.Unlock()
	if h.wclose {
		return 0, net.ErrClosed
	}
	if h.rclose {
		return 0, io.ErrClosedPipe
	}
	h.buf = append(h.buf, p...)
	h.all = append(h.all, p...)
	h.cond.Broadcast()
	return len(p), nil
}

// Close closes this end: the peer reads EOF after draining, its writes fail.
func (c *C06Conn) Close() error {
	c.once.Do(func() {
		c.wr.mu.Lock()
		c.wr.wclose = true
		c.wr.cond.Broadcast()
		c.wr.mu.Unlock()
		c.rd.mu.Lock()
		c.rd.rclose = true
		c.rd.cond.Broadcast()
		c.rd.mu.Unlock()
	})
	return nil
}

// Written returns a copy of everything this end has written so far.
func (c *C06Conn) Written() []byte {
	c.wr.mu.Lock()
	defer c.wr.mu.Unlock()
	return append([]byte(nil), c.wr.all...)
}

// Received returns a copy of everything the peer has written so far.
func (c *C06Conn) Received() []byte {
	c.rd.mu.Lock()
	defer c.rd.mu.Unlock()
	return append([]byte(nil), c.rd.all...)
}

func (c *C06Conn) LocalAddr() net.Addr                { return c.local }
func (c *C06Conn) RemoteAddr() net.Addr               { return c.remote }
func (c *C06Conn) SetDeadline(t time.Time) error      { return nil }
func (c *C06Conn) SetReadDeadline(t time.Time) error  { return nil }
func (c *C06Conn) SetWriteDeadline(t time.Time) error { return nil }

// C06RecConn wraps a real net.Conn (TCP loopback) and records both directions.
type C06RecConn struct {
	net.Conn
	mu      sync.Mutex
	in, out []byte
}

func (r *C06RecConn) Read(p []byte) (int, error) {
	n, err := r.Conn.Read(p)
	if n > 0 {
		r.mu.Lock()
		r.in = append(r.in, p[:n]...)
		r.mu.Unlock()
	}
	return n, err
}

func (r *C06RecConn) Write(p []byte) (int, error) {
	n, err := r.Conn.Write(p)
	if n > 0 {
		r.mu.Lock()
		r.out = append(r.out, p[:n]...)
		r.mu.Unlock()
	}
	return n, err
}

func (r *C06RecConn) Received() []byte {
	r.mu.Lock()
	defer r.mu.Unlock()
	return append([]byte(nil), r.in...)
}
func (r *C06RecConn) Written() []byte {
	r.mu.Lock()
	defer r.mu.Unlock()
	return append([]byte(nil), r.out...)
}
