package wire

import (
	"crypto/sha256"
	"encoding/binary"
	"io"
	"net"
	"os"
	"sync"
	"time"
)

// This file (added for C04 / C10, used by internal/hsreal) holds
//
//   - C04Conn: one end of an in-memory full-duplex connection with unbounded
//     buffering (two real cedar endpoints may both write before reading, which
//     deadlocks net.Pipe), honouring Close and read deadlines, and recording
//     every byte it carried;
//   - C04Relay: a frame-aware on-path relay between two such connections. It
//     parses the 5-byte CEDAR frame headers (end flag, big-endian length) of
//     what each side SENDS and applies one C04Action - the concrete expansion of
//     a relay action of spec/Handshake.tla (Modify, InsertFrame, RemoveFrame,
//     Split, Merge) - to one frame of one direction, forwarding everything else
//     untouched. It keeps, per direction, the frames as sent and the bytes as
//     delivered, so that the harness can compute its own SHA-256 transcripts.

type c04Half struct {
	mu     sync.Mutex
	cond   *sync.Cond
	buf    []byte
	wclose bool
	rclose bool
	dl     time.Time
	timer  *time.Timer
	log    []byte // everything ever written into this half
}

func newC04Half() *c04Half {
	h := &c04Half{}
	h.cond = sync.NewCond(&h.mu)
	return h
}

// C04Conn is one end of a C04 duplex.
type C04Conn struct {
	rd, wr        *c04Half
	local, remote addr
	once          sync.Once
}

// NewC04Duplex returns two connected ends. aAddr / bAddr are the addresses the
// ends report as their own; the peer's is reported as RemoteAddr.
func NewC04Duplex(aAddr, bAddr string) (*C04Conn, *C04Conn) {
	ab, ba := newC04Half(), newC04Half()
	a := &C04Conn{rd: ba, wr: ab, local: addr(aAddr), remote: addr(bAddr)}
	b := &C04Conn{rd: ab, wr: ba, local: addr(bAddr), remote: addr(aAddr)}
	return a, b
}

func (c *C04Conn) Read(p []byte) (int, error) {
	h := c.rd
	h.mu.Lock()
	defer h.mu.Unlock()
	for {
		if h.rclose {
			return 0, net.ErrClosed
		}
		if len(h.buf) > 0 {
			n := copy(p, h.buf)
			h.buf = h.buf[n:]
			return n, nil
		}
		if h.wclose {
			return 0, io.EOF
		}
		if !h.dl.IsZero() && !time.Now().Before(h.dl) {
			return 0, os.ErrDeadlineExceeded
		}
		h.cond.Wait()
	}
}

func (c *C04Conn) Write(p []byte) (int, error) {
	h := c.wr
	h.mu.Lock()
	defer h.mu.Unlock()
	if h.wclose {
		return 0, net.ErrClosed
	}
	if h.rclose {
		return 0, io.ErrClosedPipe
	}
	h.buf = append(h.buf, p...)
	h.log = append(h.log, p...)
	h.cond.Broadcast()
	return len(p), nil
}

func (c *C04Conn) Close() error {
	c.once.Do(func() {
		c.wr.mu.Lock()
		c.wr.wclose = true
		c.wr.cond.Broadcast()
		c.wr.mu.Unlock()
		c.rd.mu.Lock()
		c.rd.rclose = true
		if c.rd.timer != nil {
			c.rd.timer.Stop()
		}
		c.rd.cond.Broadcast()
		c.rd.mu.Unlock()
	})
	return nil
}

// CloseWrite half-closes: the peer reads EOF after the buffered bytes.
func (c *C04Conn) CloseWrite() {
	c.wr.mu.Lock()
	c.wr.wclose = true
	c.wr.cond.Broadcast()
	c.wr.mu.Unlock()
}

// Written returns a copy of every byte this end has written so far.
func (c *C04Conn) Written() []byte {
	c.wr.mu.Lock()
	defer c.wr.mu.Unlock()
	return append([]byte(nil), c.wr.log...)
}

func (c *C04Conn) LocalAddr() net.Addr           { return c.local }
func (c *C04Conn) RemoteAddr() net.Addr          { return c.remote }
func (c *C04Conn) SetDeadline(t time.Time) error { return c.SetReadDeadline(t) }
func (c *C04Conn) SetReadDeadline(t time.Time) error {
	h := c.rd
	h.mu.Lock()
	defer h.mu.Unlock()
	h.dl = t
	if h.timer != nil {
		h.timer.Stop()
		h.timer = nil
	}
	if !t.IsZero() {
		d := time.Until(t)
		if d < 0 {
			d = 0
		}
		h.timer = time.AfterFunc(d, func() {
			h.mu.Lock()
			h.cond.Broadcast()
			h.mu.Unlock()
		})
	}
	h.cond.Broadcast()
	return nil
}
func (c *C04Conn) SetWriteDeadline(t time.Time) error { return nil }

// C04Action is the concrete relay action of one replay.
type C04Action struct {
	Kind  string `json:"kind"`  // "none" | "modify" | "insert" | "remove" | "split" | "merge"
	Dir   string `json:"dir"`   // "c2s" | "s2c"
	Frame int    `json:"frame"` // 1-based index among the frames the sender of Dir sends
	// modify: byte offset inside the frame's wire bytes (0..4 = header) and the
	// value XORed into it (never 0).
	Offset int  `json:"offset,omitempty"`
	Xor    byte `json:"xor,omitempty"`
	// modify, alternative form: write Value into the byte instead (Set = true); if
	// the byte already has that value nothing changes and the run checks nothing.
	Set   bool `json:"set,omitempty"`
	Value byte `json:"value,omitempty"`
	// insert: what to put in front of the frame: "empty" (a zero-length partial
	// frame), "dup" (a copy of the frame), "junk" (a small complete frame).
	Variant string `json:"variant,omitempty"`
	// split: payload bytes in the first part (clamped to 0..len).
	SplitAt int `json:"split_at,omitempty"`
}

// C04DirLog is what the relay saw in one direction.
type C04DirLog struct {
	In  [][]byte // frames exactly as the sender wrote them (header+body)
	Out [][]byte // bytes delivered in place of In[i] (nil: removed / held back)
	// Tail: bytes that did not form a complete frame when the sender stopped.
	Tail []byte
}

// ClearDigests returns SHA-256 over the first k frames as sent and as delivered.
func (l *C04DirLog) ClearDigests(k int) (sent, delivered [32]byte, same bool) {
	hs, hd := sha256.New(), sha256.New()
	same = true
	for i := 0; i < k && i < len(l.In); i++ {
		hs.Write(l.In[i])
		var o []byte
		if i < len(l.Out) {
			o = l.Out[i]
		}
		hd.Write(o)
		if string(o) != string(l.In[i]) {
			same = false
		}
	}
	copy(sent[:], hs.Sum(nil))
	copy(delivered[:], hd.Sum(nil))
	return
}

// C04Relay joins a client-side and a server-side connection.
type C04Relay struct {
	act    C04Action
	cSide  *C04Conn // relay's end of the client duplex
	sSide  *C04Conn // relay's end of the server duplex
	mu     sync.Mutex
	c2s    C04DirLog
	s2c    C04DirLog
	order  []string // arrival order of frames: "c2s" / "s2c"
	acted  bool
	wg     sync.WaitGroup
	closed chan struct{}
	once   sync.Once
}

// NewC04Link builds client end <-> relay <-> server end and starts the relay.
// The client end reports serverAddr as its peer and vice versa.
func NewC04Link(clientAddr, serverAddr string, act C04Action) (client, server *C04Conn, r *C04Relay) {
	cEnd, rc := NewC04Duplex(clientAddr, serverAddr)
	rs, sEnd := NewC04Duplex(clientAddr, serverAddr)
	r = &C04Relay{act: act, cSide: rc, sSide: rs, closed: make(chan struct{})}
	r.wg.Add(2)
	go r.pump("c2s", rc, rs, &r.c2s)
	go r.pump("s2c", rs, rc, &r.s2c)
	return cEnd, sEnd, r
}

// Acted reports whether the action found its frame.
func (r *C04Relay) Acted() bool { r.mu.Lock(); defer r.mu.Unlock(); return r.acted }

// Logs returns deep copies of the per-direction logs and the arrival order.
func (r *C04Relay) Logs() (c2s, s2c C04DirLog, order []string) {
	r.mu.Lock()
	defer r.mu.Unlock()
	cp := func(l *C04DirLog) C04DirLog {
		var o C04DirLog
		for _, f := range l.In {
			o.In = append(o.In, append([]byte(nil), f...))
		}
		for _, f := range l.Out {
			o.Out = append(o.Out, append([]byte(nil), f...))
		}
		o.Tail = append([]byte(nil), l.Tail...)
		return o
	}
	return cp(&r.c2s), cp(&r.s2c), append([]string(nil), r.order...)
}

// Close tears both sides down and waits for the pumps.
func (r *C04Relay) Close() {
	r.once.Do(func() {
		close(r.closed)
		r.cSide.Close()
		r.sSide.Close()
	})
	r.wg.Wait()
}

func c04Frame(end byte, body []byte) []byte {
	b := make([]byte, 5+len(body))
	b[0] = end
	binary.BigEndian.PutUint32(b[1:5], uint32(len(body)))
	copy(b[5:], body)
	return b
}

func (r *C04Relay) pump(dir string, from, to *C04Conn, log *C04DirLog) {
	defer r.wg.Done()
	defer to.CloseWrite()
	var held []byte // merge: frame waiting for its successor
	idx := 0
	for {
		hdr := make([]byte, 5)
		if n, err := io.ReadFull(from, hdr); err != nil {
			r.mu.Lock()
			log.Tail = append(log.Tail, hdr[:n]...)
			r.mu.Unlock()
			return
		}
		n := int(binary.BigEndian.Uint32(hdr[1:5]))
		if n > 8<<20 { // not a frame a cedar endpoint can have produced
			r.mu.Lock()
			log.Tail = append(log.Tail, hdr...)
			r.mu.Unlock()
			_, _ = to.Write(hdr)
			_, _ = io.Copy(to, from)
			return
		}
		body := make([]byte, n)
		if m, err := io.ReadFull(from, body); err != nil {
			r.mu.Lock()
			log.Tail = append(append(log.Tail, hdr...), body[:m]...)
			r.mu.Unlock()
			_, _ = to.Write(append(hdr, body[:m]...))
			return
		}
		idx++
		in := append(append([]byte(nil), hdr...), body...)
		out := in
		a := r.act
		hit := a.Dir == dir && a.Frame == idx
		switch {
		case held != nil: // second half of a merge
			merged := c04Frame(hdr[0], append(append([]byte(nil), held[5:]...), body...))
			out = merged
			held = nil
		case hit && a.Kind == "modify":
			out = append([]byte(nil), in...)
			off := a.Offset
			if off < 0 {
				off = 0
			}
			if off >= len(out) {
				off = len(out) - 1
			}
			if a.Set {
				out[off] = a.Value
			} else {
				x := a.Xor
				if x == 0 {
					x = 1
				}
				out[off] ^= x
			}
		case hit && a.Kind == "insert":
			var ins []byte
			switch a.Variant {
			case "dup":
				ins = in
			case "junk":
				ins = c04Frame(1, []byte{0, 0, 0, 0, 0, 0, 0, 7})
			default:
				ins = c04Frame(0, nil)
			}
			out = append(append([]byte(nil), ins...), in...)
		case hit && a.Kind == "remove":
			out = nil
		case hit && a.Kind == "split":
			k := a.SplitAt
			if k < 0 {
				k = 0
			}
			if k > len(body) {
				k = len(body)
			}
			out = append(c04Frame(0, body[:k]), c04Frame(hdr[0], body[k:])...)
		case hit && a.Kind == "merge":
			held = in
			out = nil
		}
		r.mu.Lock()
		if hit {
			r.acted = true
		}
		log.In = append(log.In, in)
		log.Out = append(log.Out, out)
		r.order = append(r.order, dir)
		r.mu.Unlock()
		if len(out) > 0 {
			if _, err := to.Write(out); err != nil {
				return
			}
		}
	}
}
