package wire

// DribbleConn is a BufConn whose Read hands out at most Max bytes per call
// (a TCP connection may return any prefix of what was asked for). Used by the
// C01 / C14 replayers to feed frames to the real receivers in small pieces.
type DribbleConn struct {
	*BufConn
	Max int
}

func NewDribbleConn(name string, max int) *DribbleConn {
	return &DribbleConn{BufConn: NewBufConn(name), Max: max}
}

func (c *DribbleConn) Read(p []byte) (int, error) {
	if c.Max > 0 && len(p) > c.Max {
		p = p[:c.Max]
	}
	return c.BufConn.Read(p)
}
