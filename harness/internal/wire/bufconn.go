// Package wire provides in-memory connections whose byte streams the harness
// can capture and edit (the adversary / relay of the specifications).
package wire

import (
	"bytes"
	"errors"
	"io"
	"net"
	"sync"
	"time"
)

// BufConn is a non-blocking net.Conn: writes are captured in Out, reads are
// served from In and return io.EOF when In is empty (the wire is "closed after
// what was delivered"). It is used for single-threaded replays where the
// harness moves (and edits) bytes between the two endpoints itself.
type BufConn struct {
	mu     sync.Mutex
	In     bytes.Buffer
	Out    bytes.Buffer
	Closed bool
	Name   string
	Reads  int
	Writes int
}

type addr string

func (a addr) Network() string { return "mem" }
func (a addr) String() string  { return string(a) }

func NewBufConn(name string) *BufConn { return &BufConn{Name: name} }

func (c *BufConn) Read(p []byte) (int, error) {
	c.mu.Lock()
	defer c.mu.Unlock()
	c.Reads++
	if c.Closed {
		return 0, net.ErrClosed
	}
	if c.In.Len() == 0 {
		return 0, io.EOF
	}
	return c.In.Read(p)
}

func (c *BufConn) Write(p []byte) (int, error) {
	c.mu.Lock()
	defer c.mu.Unlock()
	c.Writes++
	if c.Closed {
		return 0, net.ErrClosed
	}
	return c.Out.Write(p)
}

func (c *BufConn) Close() error {
	c.mu.Lock()
	defer c.mu.Unlock()
	if c.Closed {
		return errors.New("already closed")
	}
	c.Closed = true
	return nil
}

// TakeOut returns and clears everything written so far.
func (c *BufConn) TakeOut() []byte {
	c.mu.Lock()
	defer c.mu.Unlock()
	b := append([]byte(nil), c.Out.Bytes()...)
	c.Out.Reset()
	return b
}

// Feed appends bytes to the read side.
func (c *BufConn) Feed(b []byte) {
	c.mu.Lock()
	defer c.mu.Unlock()
	c.In.Write(b)
}

// Unread reports how many fed bytes have not been consumed.
func (c *BufConn) Unread() int { c.mu.Lock(); defer c.mu.Unlock(); return c.In.Len() }

func (c *BufConn) LocalAddr() net.Addr                { return addr("127.0.0.1:1111") }
func (c *BufConn) RemoteAddr() net.Addr               { return addr("127.0.0.1:2222") }
func (c *BufConn) SetDeadline(t time.Time) error      { return nil }
func (c *BufConn) SetReadDeadline(t time.Time) error  { return nil }
func (c *BufConn) SetWriteDeadline(t time.Time) error { return nil }
