package wire

import (
	"io"
	"net"
	"os"
	"sync"
	"time"
)

// C03NewPipe (added for C03, used by internal/peer): a full-duplex in-memory
// connection pair with UNBOUNDED buffering in each direction. Unlike net.Pipe a
// Write never waits for the reader, so two endpoints that both write before
// reading (a deviating scripted peer does that) cannot deadlock. Reads block
// until data arrives, the writer closes (io.EOF after the buffered bytes), the
// reader's own end is closed (net.ErrClosed) or its read deadline passes
// (os.ErrDeadlineExceeded).

type c03Half struct {
	mu     sync.Mutex
	cond   *sync.Cond
	buf    []byte
	wclose bool // writer closed: EOF after buf drains
	rclose bool // reader closed its end
	dl     time.Time
	timer  *time.Timer
	total  int64
}

func c03NewHalf() *c03Half {
	h := &c03Half{}
	h.cond = sync.NewCond(&h.mu)
	return h
}

// C03PipeConn is one end of a Pipe.
type C03PipeConn struct {
	rd, wr        *c03Half
	local, remote addr
	once          sync.Once
}

// C03NewPipe returns the two ends; aAddr / bAddr are the addresses each end
// reports as its own (the other end reports it as RemoteAddr).
func C03NewPipe(aAddr, bAddr string) (*C03PipeConn, *C03PipeConn) {
	ab, ba := c03NewHalf(), c03NewHalf()
	a := &C03PipeConn{rd: ba, wr: ab, local: addr(aAddr), remote: addr(bAddr)}
	b := &C03PipeConn{rd: ab, wr: ba, local: addr(bAddr), remote: addr(aAddr)}
	return a, b
}

func (c *C03PipeConn) Read(p []byte) (int, error) {
	h := c.rd
	h.mu.Lock()
	defer h.mu.Unlock()
	for {
		if h.rclose {
			return 0, net.ErrClosed
		}
		if len(h.buf) > 0 {
			n := copy(p, h.buf)
			h.buf = h.buf[n:]
			return n, nil
		}
		if h.wclose {
			return 0, io.EOF
		}
		if !h.dl.IsZero() && !time.Now().Before(h.dl) {
			return 0, os.ErrDeadlineExceeded
		}
		h.cond.Wait()
	}
}

func (c *C03PipeConn) Write(p []byte) (int, error) {
	h := c.wr
	h.mu.Lock()
	defer h.mu.Unlock()
	if h.wclose {
		return 0, net.ErrClosed
	}
	if h.rclose {
		return 0, io.ErrClosedPipe
	}
	h.buf = append(h.buf, p...)
	h.total += int64(len(p))
	h.cond.Broadcast()
	return len(p), nil
}

// Close closes this end: the peer reads EOF after the bytes already written,
// local reads fail.
func (c *C03PipeConn) Close() error {
	c.once.Do(func() {
		c.wr.mu.Lock()
		c.wr.wclose = true
		c.wr.cond.Broadcast()
		c.wr.mu.Unlock()
		c.rd.mu.Lock()
		c.rd.rclose = true
		if c.rd.timer != nil {
			c.rd.timer.Stop()
		}
		c.rd.cond.Broadcast()
		c.rd.mu.Unlock()
	})
	return nil
}

// CloseWrite half-closes: the peer reads EOF, this end can still read.
func (c *C03PipeConn) CloseWrite() {
	c.wr.mu.Lock()
	c.wr.wclose = true
	c.wr.cond.Broadcast()
	c.wr.mu.Unlock()
}

// BytesWritten reports how many bytes this end has written so far.
func (c *C03PipeConn) BytesWritten() int64 {
	c.wr.mu.Lock()
	defer c.wr.mu.Unlock()
	return c.wr.total
}

func (c *C03PipeConn) LocalAddr() net.Addr  { return c.local }
func (c *C03PipeConn) RemoteAddr() net.Addr { return c.remote }

func (c *C03PipeConn) SetDeadline(t time.Time) error { return c.SetReadDeadline(t) }

func (c *C03PipeConn) SetReadDeadline(t time.Time) error {
	h := c.rd
	h.mu.Lock()
	defer h.mu.Unlock()
	h.dl = t
	if h.timer != nil {
		h.timer.Stop()
		h.timer = nil
	}
	if !t.IsZero() {
		d := time.Until(t)
		if d < 0 {
			d = 0
		}
		h.timer = time.AfterFunc(d, func() {
			h.mu.Lock()
			h.cond.Broadcast()
			h.mu.Unlock()
		})
	}
	h.cond.Broadcast()
	return nil
}

func (c *C03PipeConn) SetWriteDeadline(t time.Time) error { return nil }
