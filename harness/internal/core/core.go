// Package core holds what every property check shares: the run context,
// evidence accounting, failure collection, the known-findings match and the
// exit-code policy of DESIGN.md §3.5 / §5.
package core

import (
	"crypto/sha256"
	"encoding/hex"
	"encoding/json"
	"fmt"
	"math/rand"
	"os"
	"path/filepath"
	"sort"
	"strings"
	"sync"
	"time"
)

// Exit codes (DESIGN.md §3.5).
const (
	ExitOK        = 0
	ExitViolation = 1
	ExitBroken    = 2
)

// Failure is one conformance difference observed on the real code.
type Failure struct {
	// Signature identifies the abstract behaviour that failed (spec, action,
	// argument classes); it is what KNOWN_FINDINGS entries are matched on.
	Signature map[string]string `json:"signature"`
	// Detail is a human readable description of expected vs observed.
	Detail string `json:"detail"`
	// Scenario is the replayable scenario (JSON-serialisable).
	Scenario any `json:"scenario"`
}

// Finding is an entry of /verif/KNOWN_FINDINGS.json.
type Finding struct {
	Property  string            `json:"property"`
	Status    string            `json:"status"` // "known" | "fixed"
	Commit    string            `json:"commit,omitempty"`
	Signature map[string]string `json:"signature"`
	What      string            `json:"what"`
	DesignRef string            `json:"design_ref,omitempty"`
}

type findingsFile struct {
	Findings []Finding `json:"findings"`
}

// Ctx is handed to a property's Run function.
type Ctx struct {
	ID       string
	Tier     string // "quick" | "thorough"
	Seed     int64
	VerifDir string // /verif
	SpecDir  string // /verif/spec
	Tmp      string // scratch dir (removed by bin/check)
	Replay   string // path of a replay file, or ""
	Level    string // evidence level

	start time.Time
	mu    sync.Mutex
	cov   map[string]any
	// counters
	evals    int64
	distinct map[[8]byte]struct{}
	samples  []any
	failures []Failure
	broken   []string
	assume   []string
	notes    []string
}

func NewCtx(id, tier string, seed int64, verifDir, tmp, replay string) *Ctx {
	return &Ctx{ID: id, Tier: tier, Seed: seed, VerifDir: verifDir,
		SpecDir: filepath.Join(verifDir, "spec"), Tmp: tmp, Replay: replay,
		Level: "model_checking", start: time.Now(), cov: map[string]any{},
		distinct: map[[8]byte]struct{}{}}
}

func (c *Ctx) Thorough() bool { return c.Tier == "thorough" }

// Rand returns a deterministic generator derived from the seed and a label.
func (c *Ctx) Rand(label string) *rand.Rand {
	h := sha256.Sum256([]byte(fmt.Sprintf("%d/%s/%s", c.Seed, c.ID, label)))
	var s int64
	for i := 0; i < 8; i++ {
		s = s<<8 | int64(h[i])
	}
	return rand.New(rand.NewSource(s))
}

// Eval counts one concrete execution against the real code. key identifies the
// case for distinctness (hash of the projected scenario); nontrivial says
// whether it counts towards distinct_nontrivial.
func (c *Ctx) Eval(key string, nontrivial bool) {
	c.mu.Lock()
	defer c.mu.Unlock()
	c.evals++
	if nontrivial {
		h := sha256.Sum256([]byte(key))
		var k [8]byte
		copy(k[:], h[:8])
		c.distinct[k] = struct{}{}
	}
}

// Sample records up to 6 example cases for the evidence file.
func (c *Ctx) Sample(v any) {
	c.mu.Lock()
	defer c.mu.Unlock()
	if len(c.samples) < 6 {
		c.samples = append(c.samples, v)
	}
}

// Add adds n to an integer coverage key.
func (c *Ctx) Add(key string, n int64) {
	c.mu.Lock()
	defer c.mu.Unlock()
	cur, _ := c.cov[key].(int64)
	c.cov[key] = cur + n
}

// Set sets an arbitrary coverage key.
func (c *Ctx) Set(key string, v any) {
	c.mu.Lock()
	defer c.mu.Unlock()
	c.cov[key] = v
}

func (c *Ctx) Assume(s string) { c.mu.Lock(); c.assume = append(c.assume, s); c.mu.Unlock() }
func (c *Ctx) Note(s string)   { c.mu.Lock(); c.notes = append(c.notes, s); c.mu.Unlock() }

// Fail records a conformance failure observed on the real code.
func (c *Ctx) Fail(f Failure) {
	c.mu.Lock()
	defer c.mu.Unlock()
	c.failures = append(c.failures, f)
}

func (c *Ctx) Failures() int { c.mu.Lock(); defer c.mu.Unlock(); return len(c.failures) }

// Broken records a machinery problem (TLC crash, model violation, dead driver):
// exit 2, never a VIOLATION.
func (c *Ctx) Broken(format string, a ...any) {
	c.mu.Lock()
	defer c.mu.Unlock()
	c.broken = append(c.broken, fmt.Sprintf(format, a...))
}

func (c *Ctx) IsBroken() bool { c.mu.Lock(); defer c.mu.Unlock(); return len(c.broken) > 0 }

func matches(f Finding, id string, sig map[string]string) bool {
	if f.Property != id || f.Status != "known" {
		return false
	}
	for k, v := range f.Signature {
		if sig[k] != v {
			return false
		}
	}
	return true
}

func sigString(sig map[string]string) string {
	keys := make([]string, 0, len(sig))
	for k := range sig {
		keys = append(keys, k)
	}
	sort.Strings(keys)
	var b strings.Builder
	for _, k := range keys {
		fmt.Fprintf(&b, "%s=%s;", k, sig[k])
	}
	return b.String()
}

// Finish writes the evidence file, prints KNOWN-FINDING / VIOLATION lines and
// returns the exit code.
func (c *Ctx) Finish() int {
	c.mu.Lock()
	defer c.mu.Unlock()

	var known findingsFile
	if b, err := os.ReadFile(filepath.Join(c.VerifDir, "KNOWN_FINDINGS.json")); err == nil {
		if err := json.Unmarshal(b, &known); err != nil {
			c.broken = append(c.broken, "KNOWN_FINDINGS.json unreadable: "+err.Error())
		}
	}

	knownHit := map[int]int{}
	type viol struct {
		f    Failure
		path string
	}
	var viols []viol
	seenSig := map[string]bool{}
	for _, f := range c.failures {
		hit := -1
		for i, k := range known.Findings {
			if matches(k, c.ID, f.Signature) {
				hit = i
				break
			}
		}
		if hit >= 0 {
			knownHit[hit]++
			continue
		}
		ss := sigString(f.Signature)
		if seenSig[ss] && len(viols) >= 5 {
			continue
		}
		seenSig[ss] = true
		viols = append(viols, viol{f: f})
	}

	// replay files
	if len(viols) > 0 {
		dir := filepath.Join(c.VerifDir, "out", "replays")
		_ = os.MkdirAll(dir, 0o755)
		for i := range viols {
			b, _ := json.MarshalIndent(map[string]any{
				"property": c.ID, "seed": c.Seed, "tier": c.Tier,
				"signature": viols[i].f.Signature, "detail": viols[i].f.Detail,
				"scenario": viols[i].f.Scenario,
			}, "", " ")
			h := sha256.Sum256(b)
			p := filepath.Join(dir, fmt.Sprintf("%s-%s.json", c.ID, hex.EncodeToString(h[:6])))
			_ = os.WriteFile(p, b, 0o644)
			viols[i].path = p
		}
	}

	// evidence
	cov := map[string]any{}
	for k, v := range c.cov {
		cov[k] = v
	}
	cov["evaluations"] = c.evals
	cov["distinct_nontrivial"] = len(c.distinct)
	if _, ok := cov["rule"]; !ok {
		cov["rule"] = "cases are the concrete executions of model-generated scenarios against the real code; distinct = distinct hash of the projected scenario; non-trivial = flagged by the replayer"
	}
	if len(c.samples) > 0 {
		cov["samples"] = c.samples
	}
	if len(c.notes) > 0 {
		cov["notes"] = c.notes
	}
	nKnown := 0
	for range knownHit {
		nKnown++
	}
	cov["known_findings_hit"] = nKnown
	ev := map[string]any{
		"property_id": c.ID, "tier": c.Tier, "seed": c.Seed, "level": c.Level,
		"coverage": cov, "assumptions": c.assume,
		"wall_s":     time.Since(c.start).Seconds(),
		"violations": len(viols),
	}
	if len(c.broken) > 0 {
		ev["broken"] = c.broken
	}
	// evidence is only written by runs against /repo itself (never by replays or by
	// development runs against a scratch tree, VERIF_REPO)
	if c.Replay == "" && os.Getenv("VERIF_REPO") == "" {
		b, _ := json.MarshalIndent(ev, "", " ")
		_ = os.MkdirAll(filepath.Join(c.VerifDir, "evidence"), 0o755)
		if err := os.WriteFile(filepath.Join(c.VerifDir, "evidence", c.ID+".json"), b, 0o644); err != nil {
			c.broken = append(c.broken, "cannot write evidence: "+err.Error())
		}
	}

	idx := make([]int, 0, len(knownHit))
	for i := range knownHit {
		idx = append(idx, i)
	}
	sort.Ints(idx)
	for _, i := range idx {
		fmt.Printf("KNOWN-FINDING: property=%s %s (%d occurrences this run)\n", c.ID, known.Findings[i].What, knownHit[i])
	}
	for _, v := range viols {
		fmt.Printf("VIOLATION property=%s replay=%s\n", c.ID, v.path)
		fmt.Printf("  signature: %s\n  detail: %s\n", sigString(v.f.Signature), v.f.Detail)
	}
	if len(c.broken) > 0 {
		for _, b := range c.broken {
			fmt.Printf("BROKEN: %s\n", b)
		}
		if len(viols) == 0 {
			return ExitBroken
		}
	}
	if len(viols) > 0 {
		return ExitViolation
	}
	fmt.Printf("OK property=%s tier=%s seed=%d evaluations=%d distinct=%d wall=%.1fs\n",
		c.ID, c.Tier, c.Seed, c.evals, len(c.distinct), time.Since(c.start).Seconds())
	return ExitOK
}

// Registry of property checks.
type RunFunc func(c *Ctx)

var registry = map[string]RunFunc{}

func Register(id string, f RunFunc) { registry[id] = f }
func Lookup(id string) RunFunc      { return registry[id] }
func IDs() []string {
	ids := make([]string, 0, len(registry))
	for k := range registry {
		ids = append(ids, k)
	}
	sort.Strings(ids)
	return ids
}

// ParallelFor runs f(i) for i in [0,n) on w workers.
func ParallelFor(n, w int, f func(i int)) {
	if w < 1 {
		w = 1
	}
	var wg sync.WaitGroup
	ch := make(chan int, w)
	for k := 0; k < w; k++ {
		wg.Add(1)
		go func() {
			defer wg.Done()
			for i := range ch {
				f(i)
			}
		}()
	}
	for i := 0; i < n; i++ {
		ch <- i
	}
	close(ch)
	wg.Wait()
}

// RepoDir is the tree under test: /repo, or $VERIF_REPO when a scratch worktree
// is being checked (development aid; the registered commands never set it).
func RepoDir() string {
	if d := os.Getenv("VERIF_REPO"); d != "" {
		return d
	}
	return "/repo"
}
