// Package otrace validates handshake outcomes (AuthRan / HandshakeDone events of
// /repo/security's guarded hooks) and handler dispatches (Dispatch events of
// /repo/server's hook) against spec/HandshakeOutcome_Trace.tla: the code -> spec
// direction for properties C03, C05 (and the keyed-resume clause of C06).
package otrace

import (
	"bufio"
	"encoding/json"
	"fmt"
	"os"
	"os/exec"
	"path/filepath"
	"sort"
	"strings"

	"cedarverif/internal/core"
	"cedarverif/internal/kit"
)

type Event = map[string]any

func b(e Event, k string, def bool) bool {
	if v, ok := e[k].(bool); ok {
		return v
	}
	return def
}
func s(e Event, k string) string { v, _ := e[k].(string); return v }

func Normalise(e Event, strictResume bool) Event {
	switch s(e, "ev") {
	case "AuthRan":
		return Event{"ev": "AuthRan", "ran": s(e, "ran"), "ok": b(e, "ok", false)}
	case "HandshakeDone":
		var methods []string
		switch ms := e["methods"].(type) {
		case []any: // decoded from a trace file
			for _, m := range ms {
				if x, ok := m.(string); ok {
					methods = append(methods, x)
				}
			}
		case []string: // collected in memory
			methods = append(methods, ms...)
		}
		if methods == nil {
			methods = []string{}
		}
		return Event{"ev": "HandshakeDone", "full": b(e, "full", true), "client": b(e, "client", false),
			"auth": b(e, "auth", false), "enc": b(e, "enc", false), "streamEnc": b(e, "streamEnc", false),
			"polAuth": s(e, "polAuth"), "polEnc": s(e, "polEnc"), "polInt": s(e, "polInt"),
			"methods": methods, "method": s(e, "method"), "resumed": b(e, "resumed", false),
			"entryKeyed": b(e, "entryKeyed", true), "strictResume": strictResume, "user": s(e, "user")}
	case "Dispatch":
		return Event{"ev": "Dispatch", "path": s(e, "path"), "registered": b(e, "registered", false), "raw": b(e, "raw", false),
			"reqAuth": s(e, "reqAuth"), "reqEnc": s(e, "reqEnc"), "reqInt": s(e, "reqInt"),
			"auth": b(e, "auth", false), "enc": b(e, "enc", false), "streamEnc": b(e, "streamEnc", false),
			"authorizer": b(e, "authorizer", false), "authorizedNow": b(e, "authorizedNow", true),
			"followOn": b(e, "followOn", false), "resumed": b(e, "resumed", false), "cmd": e["cmd"]}
	}
	return nil
}

// LoadDir reads security-*.ndjson and server-*.ndjson from a hook trace dir and
// returns one group per Authenticator object and one per Dispatch event.
func LoadDir(dir string, strictResume bool) (groups [][]Event, err error) {
	files, _ := filepath.Glob(filepath.Join(dir, "*.ndjson"))
	sort.Strings(files)
	for _, f := range files {
		base := filepath.Base(f)
		if !strings.HasPrefix(base, "security-") && !strings.HasPrefix(base, "server-") {
			continue
		}
		fh, err := os.Open(f)
		if err != nil {
			return nil, err
		}
		byObj := map[int64][]Event{}
		var order []int64
		sc := bufio.NewScanner(fh)
		sc.Buffer(make([]byte, 1<<20), 1<<26)
		for sc.Scan() {
			var e Event
			if json.Unmarshal(sc.Bytes(), &e) != nil {
				continue
			}
			n := Normalise(e, strictResume)
			if n == nil {
				continue
			}
			if s(n, "ev") == "Dispatch" {
				groups = append(groups, []Event{n})
				continue
			}
			o, _ := e["o"].(float64)
			id := int64(o)
			if _, ok := byObj[id]; !ok {
				order = append(order, id)
			}
			byObj[id] = append(byObj[id], n)
		}
		fh.Close()
		for _, id := range order {
			groups = append(groups, byObj[id])
		}
	}
	return groups, nil
}

// Describe renders the abstract class of a rejected event for the signature.
func Describe(e Event) map[string]string {
	sig := map[string]string{"spec": "HandshakeOutcome", "action": s(e, "ev")}
	switch s(e, "ev") {
	case "HandshakeDone":
		role := "server"
		if b(e, "client", false) {
			role = "client"
		}
		sig["role"] = role
		sig["full"] = fmt.Sprint(b(e, "full", true))
		sig["polAuth"], sig["polEnc"] = s(e, "polAuth"), s(e, "polEnc")
		sig["reported"] = fmt.Sprintf("auth=%v,enc=%v,streamEnc=%v", e["auth"], e["enc"], e["streamEnc"])
	case "Dispatch":
		sig["path"] = s(e, "path")
		sig["req"] = fmt.Sprintf("%s/%s/%s", s(e, "reqAuth"), s(e, "reqEnc"), s(e, "reqInt"))
		sig["session"] = fmt.Sprintf("auth=%v,streamEnc=%v,authorized=%v", e["auth"], e["streamEnc"], e["authorizedNow"])
	}
	return sig
}

// Validate validates groups and records every rejection as a failure. keep
// filters which rejected events count for this property (nil = all).
func Validate(c *core.Ctx, groups [][]Event, label string, keep func(Event) bool) {
	if len(groups) == 0 {
		return
	}
	acc, rej := kit.ValidateGroups(c, "HandshakeOutcome_Trace.tla", "HandshakeOutcome_Trace.cfg", groups, label)
	c.Add("outcome_traces_validated_by_tlc", int64(acc))
	for _, r := range rej {
		e := groups[r.Group][r.Index]
		if keep != nil && !keep(e) {
			continue
		}
		sig := Describe(e)
		sig["source"] = label
		c.Fail(core.Failure{Signature: sig,
			Detail:   fmt.Sprintf("TLC cannot explain %s event of the real code: %v", s(e, "ev"), e),
			Scenario: map[string]any{"kind": "OutcomeTrace", "events": groups[r.Group][:r.Index+1]}})
	}
}

// RunRepoTests runs the repository's tests of pkgs with hooks on and returns the
// outcome groups recorded.
func RunRepoTests(c *core.Ctx, strictResume bool, pkgs ...string) ([][]Event, error) {
	dir := filepath.Join(c.Tmp, "repotrace-outcome")
	_ = os.RemoveAll(dir)
	if err := os.MkdirAll(dir, 0o755); err != nil {
		return nil, err
	}
	args := append([]string{"test", "-tags", "verif", "-vet=off", "-count=1"}, pkgs...)
	cmd := exec.Command("go", args...)
	cmd.Dir = core.RepoDir()
	cmd.Env = append(os.Environ(), "CEDAR_VERIF_TRACE_DIR="+dir, "GOFLAGS=-mod=mod", "GOPROXY=off")
	if out, err := cmd.CombinedOutput(); err != nil {
		c.Note("repository tests with hooks on did not all pass: " + kit.FirstLines(string(out), 8))
	}
	return LoadDir(dir, strictResume)
}
