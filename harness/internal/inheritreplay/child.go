package inheritreplay

import (
	"context"
	"encoding/json"
	"fmt"
	"net"
	"os"
	"os/exec"
	"path/filepath"
	"strings"
	"sync"
	"time"

	"github.com/bbockelm/cedar/security"
)

// ChildEnv names the environment variable that turns the verif binary into a
// G05 child daemon: its value is the path of a ChildJob file. The inherit texts
// themselves are in the child's environment, as a parent daemon leaves them.
const ChildEnv = "CEDARVERIF_G05_CHILD"

type Probe struct {
	Addr string `json:"addr"`
	Cmd  string `json:"cmd"`
}

type ChildJob struct {
	DialSock string     `json:"dial_sock"` // unix socket the parent listens on
	Dials    []DialSpec `json:"dials"`     // connections the child opens, in order
	Serve    int        `json:"serve"`     // connections the child then accepts on fd 3
	Probes   []Probe    `json:"probes"`
	Lookups  []string   `json:"lookups"` // session ids given to LookupInheritedSession
	Out      string     `json:"out"`
}

type InhDump struct {
	Type       int    `json:"type"`
	ID         string `json:"id"`
	Info       string `json:"info"`
	Key        string `json:"key"`
	ParentAddr string `json:"parent_addr"`
	ParentPID  int    `json:"parent_pid"`
}

type ChildResult struct {
	EnvPrivateStillSet bool                 `json:"env_private_still_set"`
	EnvInheritStillSet bool                 `json:"env_inherit_still_set"`
	ParentAddr         string               `json:"parent_addr"`
	ParentPID          int                  `json:"parent_pid"`
	FamilyID           string               `json:"family_id"`
	ParentID           string               `json:"parent_id"`
	Sessions           []InhDump            `json:"sessions"`
	SecondImportSame   bool                 `json:"second_import_same"`
	Entries            map[string]EntryDump `json:"entries"`
	Probes             map[string]string    `json:"probes"`  // "addr|cmd" -> session id found by LookupByCommand ("" none)
	Lookups            map[string]bool      `json:"lookups"` // LookupInheritedSession(id) != nil
	Dials              []CliObs             `json:"dials"`
	Served             []SrvObs             `json:"served"`
	Error              string               `json:"error,omitempty"`
}

// ChildMain is the child daemon: it lets cedar read its environment (the real,
// once per process path: GetSessionCache -> registerInheritedSessions ->
// ImportInheritedSessions), dumps what was registered, dials the parent and
// then serves the parent's connections, all on the process-wide cache.
func ChildMain(jobPath string) {
	fail := func(err error) {
		fmt.Fprintln(os.Stderr, "g05 child:", err)
		os.Exit(3)
	}
	b, err := os.ReadFile(jobPath)
	if err != nil {
		fail(err)
	}
	var job ChildJob
	if err := json.Unmarshal(b, &job); err != nil {
		fail(err)
	}
	var res ChildResult
	cache := security.GetSessionCache()
	_, res.EnvPrivateStillSet = lookupEnvNonEmpty("CONDOR_PRIVATE_INHERIT", "_CONDOR_PRIVATE_INHERIT")
	_, res.EnvInheritStillSet = lookupEnvNonEmpty("CONDOR_INHERIT", "_CONDOR_INHERIT")
	res.ParentAddr = security.GetInheritedParentAddr()
	res.ParentPID = security.GetInheritedParentPID()
	res.FamilyID = security.GetFamilySessionID()
	res.ParentID = security.GetParentSessionID()
	first := security.GetInheritedSessions()
	for _, s := range first {
		res.Sessions = append(res.Sessions, InhDump{int(s.Type), s.SessionID, s.SessionInfo, s.SessionKey, s.ParentAddr, s.ParentPID})
	}
	again, _ := security.ImportInheritedSessions()
	res.SecondImportSame = len(again) == len(first)
	res.Entries = dumpCache(cache)
	res.Probes = map[string]string{}
	for _, p := range job.Probes {
		id := ""
		if e, ok := cache.LookupByCommand("", p.Addr, p.Cmd); ok && e != nil {
			id = e.ID()
		}
		res.Probes[p.Addr+"|"+p.Cmd] = id
	}
	res.Lookups = map[string]bool{}
	for _, id := range job.Lookups {
		res.Lookups[id] = security.LookupInheritedSession(id) != nil
	}
	ctx, cancel := context.WithTimeout(context.Background(), 120*time.Second)
	defer cancel()
	for _, d := range job.Dials {
		conn, err := net.DialTimeout("unix", job.DialSock, 30*time.Second)
		if err != nil {
			res.Dials = append(res.Dials, CliObs{Err: "dial: " + err.Error()})
			continue
		}
		res.Dials = append(res.Dials, clientHalf(ctx, conn, nil, d))
		_ = conn.Close()
	}
	if job.Serve > 0 {
		l, err := net.FileListener(os.NewFile(3, "g05-listener"))
		if err != nil {
			res.Error = "listener: " + err.Error()
		} else {
			for i := 0; i < job.Serve; i++ {
				if ul, ok := l.(*net.UnixListener); ok {
					_ = ul.SetDeadline(time.Now().Add(60 * time.Second))
				}
				conn, err := l.Accept()
				if err != nil {
					res.Error = "accept: " + err.Error()
					break
				}
				ch := make(chan SrvObs, 1)
				srv := newServer(nil, ch)
				_ = srv.ServeConn(ctx, conn)
				var so SrvObs
				select {
				case so = <-ch:
				default:
				}
				res.Served = append(res.Served, so)
			}
			_ = l.Close()
		}
	}
	out, _ := json.Marshal(res)
	if err := os.WriteFile(job.Out, out, 0o644); err != nil {
		fail(err)
	}
	os.Exit(0)
}

func lookupEnvNonEmpty(names ...string) (string, bool) {
	for _, n := range names {
		if v, ok := os.LookupEnv(n); ok && v != "" {
			return v, true
		}
	}
	return "", false
}

// ParentSide is what the harness, acting as the parent daemon, observed.
type ParentSide struct {
	Served []SrvObs // one per child dial, in order
	SWire  []Wire
	Dialed []CliObs // one per connection the parent opened to the child
	DWire  []Wire
}

var childSerial struct {
	sync.Mutex
	n int
}

// RunChild re-executes this binary as a child daemon with the two texts in its
// environment. The harness is the parent daemon: it serves the child's
// connections from pcache and then dials the child (parentDials) using pcache.
func RunChild(tmp, inherit, private string, envNames string, job ChildJob, pcache *security.SessionCache, parentDials []DialSpec) (*ChildResult, *ParentSide, error) {
	childSerial.Lock()
	childSerial.n++
	n := childSerial.n
	childSerial.Unlock()
	dir := filepath.Join(tmp, fmt.Sprintf("g05c%d", n))
	if err := os.MkdirAll(dir, 0o755); err != nil {
		return nil, nil, err
	}
	defer os.RemoveAll(dir)
	job.DialSock = filepath.Join(dir, "p.sock")
	job.Out = filepath.Join(dir, "result.json")
	job.Serve = len(parentDials)
	pl, err := net.Listen("unix", job.DialSock)
	if err != nil {
		return nil, nil, fmt.Errorf("listen %s: %w", job.DialSock, err)
	}
	defer pl.Close()
	csock := filepath.Join(dir, "c.sock")
	cl, err := net.Listen("unix", csock)
	if err != nil {
		return nil, nil, fmt.Errorf("listen %s: %w", csock, err)
	}
	defer cl.Close()
	clf, err := cl.(*net.UnixListener).File()
	if err != nil {
		return nil, nil, err
	}
	defer clf.Close()
	jb, _ := json.Marshal(job)
	jobFile := filepath.Join(dir, "job.json")
	if err := os.WriteFile(jobFile, jb, 0o644); err != nil {
		return nil, nil, err
	}
	cmd := exec.Command(os.Args[0])
	var env []string
	for _, e := range os.Environ() {
		if strings.HasPrefix(e, "CONDOR_") || strings.HasPrefix(e, "_CONDOR_") || strings.HasPrefix(e, "CEDAR_VERIF_TRACE_DIR=") {
			continue
		}
		env = append(env, e)
	}
	pre := ""
	if envNames == "underscore" {
		pre = "_"
	}
	if inherit != "" {
		env = append(env, pre+"CONDOR_INHERIT="+inherit)
	}
	if private != "" {
		env = append(env, pre+"CONDOR_PRIVATE_INHERIT="+private)
	}
	env = append(env, ChildEnv+"="+jobFile, "GOMAXPROCS=2")
	cmd.Env = env
	cmd.ExtraFiles = []*os.File{clf}
	var errBuf strings.Builder
	cmd.Stderr = &errBuf
	if err := cmd.Start(); err != nil {
		return nil, nil, err
	}
	_ = clf.Close()
	// the child holds its own copy of the listening descriptor: the parent's copy is
	// closed (without unlinking the path) so that a dead child refuses connections
	cl.(*net.UnixListener).SetUnlinkOnClose(false)
	_ = cl.Close()
	var waitErr error
	exited := make(chan struct{})
	go func() {
		waitErr = cmd.Wait()
		close(exited)
		_ = pl.Close() // a dead child dials no more: wake the accept loop
	}()

	ps := &ParentSide{}
	ctx, cancel := context.WithTimeout(context.Background(), 150*time.Second)
	defer cancel()
	// serve the child's dials
	for range job.Dials {
		_ = pl.(*net.UnixListener).SetDeadline(time.Now().Add(90 * time.Second))
		conn, err := pl.Accept()
		if err != nil {
			ps.Served = append(ps.Served, SrvObs{})
			ps.SWire = append(ps.SWire, Wire{})
			break
		}
		rc := &recConn{Conn: conn}
		ch := make(chan SrvObs, 1)
		_ = newServer(pcache, ch).ServeConn(ctx, rc)
		var so SrvObs
		select {
		case so = <-ch:
		default:
		}
		ps.Served = append(ps.Served, so)
		rc.mu.Lock()
		ps.SWire = append(ps.SWire, wireOf(rc.in.Bytes(), rc.out.Bytes()))
		rc.mu.Unlock()
	}
	// dial the child
	for _, d := range parentDials {
		conn, err := net.DialTimeout("unix", csock, 30*time.Second)
		if err != nil {
			ps.Dialed = append(ps.Dialed, CliObs{Err: "dial: " + err.Error()})
			ps.DWire = append(ps.DWire, Wire{})
			continue
		}
		rc := &recConn{Conn: conn}
		ps.Dialed = append(ps.Dialed, clientHalf(ctx, rc, pcache, d))
		_ = conn.Close()
		rc.mu.Lock()
		ps.DWire = append(ps.DWire, wireOf(rc.out.Bytes(), rc.in.Bytes()))
		rc.mu.Unlock()
	}
	select {
	case <-exited:
		if waitErr != nil {
			return nil, ps, fmt.Errorf("child: %v: %s", waitErr, firstLines(errBuf.String(), 12))
		}
	case <-time.After(150 * time.Second):
		_ = cmd.Process.Kill()
		return nil, ps, fmt.Errorf("child timed out")
	}
	rb, err := os.ReadFile(job.Out)
	if err != nil {
		return nil, ps, err
	}
	var res ChildResult
	if err := json.Unmarshal(rb, &res); err != nil {
		return nil, ps, err
	}
	return &res, ps, nil
}

func firstLines(s string, n int) string {
	lines := strings.SplitN(s, "\n", n+1)
	if len(lines) > n {
		lines = lines[:n]
	}
	return strings.Join(lines, "\n")
}
