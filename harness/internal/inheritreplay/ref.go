package inheritreplay

// An INDEPENDENT reference for the two inherit texts, the session-info text
// and the key derivation, written from the documented grammar (HTCondor's
// daemon_core / ClaimIdParser / SecMan::ExportSecSessionInfo as the comments in
// security/inherited_session.go and claim_mint.go describe them) without
// calling cedar. The replayer uses it three ways: (1) to check that the
// concrete text it rendered from the model's tokens denotes, under the
// documented grammar, what the model says it denotes (a disagreement is a
// machinery error, never a finding); (2) as the expected value of cedar's
// parsers where the model speaks in tokens; (3) for the key both ends must hold.

import (
	"crypto/hmac"
	"crypto/sha256"
	"sort"
	"strings"
)

// refHKDF is HKDF-SHA256 (RFC 5869) written out: extract with the salt, expand
// with the info, n <= 255*32 bytes.
func refHKDF(secret, salt, info []byte, n int) []byte {
	ext := hmac.New(sha256.New, salt)
	ext.Write(secret)
	prk := ext.Sum(nil)
	var out, t []byte
	for i := byte(1); len(out) < n; i++ {
		h := hmac.New(sha256.New, prk)
		h.Write(t)
		h.Write(info)
		h.Write([]byte{i})
		t = h.Sum(nil)
		out = append(out, t...)
	}
	return out[:n]
}

// RefSessionKey: what Condor_Crypt_Base::hkdf yields for an AES-GCM session.
func RefSessionKey(secret string) []byte {
	return refHKDF([]byte(secret), []byte("htcondor"), []byte("keygen"), 32)
}

func isSpace(c byte) bool {
	return c == ' ' || c == '\t' || c == '\n' || c == '\r' || c == '\v' || c == '\f'
}

func refFields(s string) []string {
	var out []string
	i := 0
	for i < len(s) {
		for i < len(s) && isSpace(s[i]) {
			i++
		}
		j := i
		for j < len(s) && !isSpace(s[j]) {
			j++
		}
		if j > i {
			out = append(out, s[i:j])
		}
		i = j
	}
	return out
}

type refInherit struct {
	ppid  string
	addr  string
	nrest int
}

// CONDOR_INHERIT: ppid psinful then socket descriptors.
func refParseInherit(s string) refInherit {
	f := refFields(s)
	var r refInherit
	if len(f) > 0 {
		r.ppid = f[0]
	}
	if len(f) > 1 {
		r.addr = f[1]
	}
	if len(f) > 2 {
		r.nrest = len(f) - 2
	}
	return r
}

type refSession struct {
	kind, id, info, key string
}

// refParseClaim: id#info#key (the key may contain '#'), or HTCondor's
// id#[info]key with the key after the closing bracket.
func refParseClaim(c string) (id, info, key string) {
	h1 := strings.IndexByte(c, '#')
	if h1 < 0 {
		return c, "", ""
	}
	id = c[:h1]
	rest := c[h1+1:]
	if h2 := strings.IndexByte(rest, '#'); h2 >= 0 {
		info, key = rest[:h2], rest[h2+1:]
	} else {
		info = rest
	}
	if key == "" && info != "" {
		if b := strings.LastIndexByte(info, ']'); b >= 0 && b+1 < len(info) {
			info, key = info[:b+1], info[b+1:]
		}
	}
	return
}

// CONDOR_PRIVATE_INHERIT: white-space separated SessionKey:<claimid> /
// FamilySessionKey:<claimid>; other prefixes ignored; a claim id without
// session info (or without an id) carries no security session.
func refParsePrivate(s string) []refSession {
	var out []refSession
	for _, f := range refFields(s) {
		colon := strings.IndexByte(f, ':')
		if colon < 0 {
			continue
		}
		var kind string
		switch f[:colon] {
		case "SessionKey":
			kind = "parent"
		case "FamilySessionKey":
			kind = "family"
		default:
			continue
		}
		id, info, key := refParseClaim(f[colon+1:])
		if id == "" || info == "" {
			continue
		}
		out = append(out, refSession{kind, id, info, key})
	}
	return out
}

// refAttrs: [Name=value;Name="value";...] -> map (later occurrences win).
func refAttrs(info string) map[string]string {
	m := map[string]string{}
	if strings.HasPrefix(info, "[") {
		info = info[1:]
	}
	if strings.HasSuffix(info, "]") {
		info = info[:len(info)-1]
	}
	for _, it := range strings.Split(info, ";") {
		eq := strings.IndexByte(it, '=')
		if eq <= 0 {
			continue
		}
		n, v := strings.TrimSpace(it[:eq]), strings.TrimSpace(it[eq+1:])
		if len(v) >= 2 && v[0] == '"' && v[len(v)-1] == '"' {
			v = v[1 : len(v)-1]
		}
		m[n] = v
	}
	return m
}

// refRenderInfo: ExportSecSessionInfo's documented form - sorted names, string
// values quoted, SessionExpires bare, every attribute followed by ';', bracketed.
func refRenderInfo(attrs map[string]string) string {
	names := make([]string, 0, len(attrs))
	for n := range attrs {
		names = append(names, n)
	}
	sort.Strings(names)
	var b strings.Builder
	b.WriteByte('[')
	for _, n := range names {
		b.WriteString(n)
		b.WriteByte('=')
		if n == "SessionExpires" {
			b.WriteString(attrs[n])
		} else {
			b.WriteString(`"` + attrs[n] + `"`)
		}
		b.WriteByte(';')
	}
	b.WriteByte(']')
	return b.String()
}

// refNormAddr: <host:port?sock=id> for a shared-port sinful, "" otherwise.
func refNormAddr(sinful string) string {
	s := strings.TrimSuffix(strings.TrimPrefix(sinful, "<"), ">")
	q := strings.IndexByte(s, '?')
	if q < 0 {
		return ""
	}
	for _, p := range strings.Split(s[q+1:], "&") {
		if strings.HasPrefix(p, "sock=") && len(p) > 5 {
			return "<" + s[:q] + "?sock=" + p[5:] + ">"
		}
	}
	return ""
}
