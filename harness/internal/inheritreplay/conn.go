package inheritreplay

import (
	"bytes"
	"context"
	"encoding/hex"
	"io"
	"log/slog"
	"net"
	"strconv"
	"sync"
	"time"

	"cedarverif/internal/mempipe"

	"github.com/PelicanPlatform/classad/classad"
	"github.com/bbockelm/cedar/message"
	"github.com/bbockelm/cedar/security"
	"github.com/bbockelm/cedar/server"
	"github.com/bbockelm/cedar/stream"
)

func init() {
	slog.SetDefault(slog.New(slog.NewTextHandler(io.Discard, &slog.HandlerOptions{Level: slog.Level(100)})))
}

const (
	reqCanary = "G05-REQUEST-CANARY-childalive"
	repCanary = "G05-REPLY-CANARY-acknowledged"
)

var handledCmds = []int{60008, 421, 60007}

// EntryDump is the projection of a real cache entry the specification speaks about.
type EntryDump struct {
	ID        string            `json:"id"`
	KeyHex    string            `json:"key_hex"`
	Proto     string            `json:"proto"`
	Addr      string            `json:"addr"`
	Attrs     map[string]string `json:"attrs"`
	ExpUnix   int64             `json:"exp_unix"` // 0: never
	LeaseNs   int64             `json:"lease_ns"`
	Inherited bool              `json:"inherited"`
	Expired   bool              `json:"expired"`
}

var dumpedAttrs = []string{"User", "AuthMethods", "Authenticated", "CryptoMethods", "CryptoMethodsList", "Encryption",
	"Integrity", "ValidCommands", "ShortVersion", "SessionExpires", "SecUser", "SecAuthenticationMethods", "SecSid",
	"SecUseSession", "SecEnact"}

func attrOf(ad *classad.ClassAd, name string) string {
	if ad == nil {
		return "<nil policy>"
	}
	if s, ok := ad.EvaluateAttrString(name); ok {
		return "s:" + s
	}
	if n, ok := ad.EvaluateAttrInt(name); ok {
		return "i:" + strconv.FormatInt(n, 10)
	}
	if v, ok := ad.EvaluateAttrBool(name); ok {
		return "b:" + strconv.FormatBool(v)
	}
	return "<absent>"
}

func dumpEntry(e *security.SessionEntry) EntryDump {
	d := EntryDump{ID: e.ID(), Addr: e.Addr(), Attrs: map[string]string{}, LeaseNs: int64(e.Lease()),
		Inherited: e.IsInherited(), Expired: e.IsExpired()}
	if k := e.KeyInfo(); k != nil {
		d.KeyHex = hex.EncodeToString(k.Data)
		d.Proto = k.Protocol
	}
	if x := e.Expiration(); !x.IsZero() {
		d.ExpUnix = x.Unix()
	}
	for _, n := range dumpedAttrs {
		d.Attrs[n] = attrOf(e.Policy(), n)
	}
	return d
}

func dumpCache(c *security.SessionCache) map[string]EntryDump {
	out := map[string]EntryDump{}
	for _, e := range c.Snapshot() {
		out[e.ID()] = dumpEntry(e)
	}
	return out
}

// CliObs is what the dialling end of a connection observed.
type CliObs struct {
	Err        string `json:"err"`
	Resumed    bool   `json:"resumed"`
	WasResumed bool   `json:"was_resumed"`
	Enc        bool   `json:"enc"`
	Sid        string `json:"sid"`
	RepIntact  bool   `json:"rep_intact"`
}

// SrvObs is what the listening end observed (Ran=false: the handler never ran).
type SrvObs struct {
	Ran       bool   `json:"ran"`
	Resumed   bool   `json:"resumed"`
	Authed    bool   `json:"authed"`
	Enc       bool   `json:"enc"`
	User      string `json:"user"`
	Method    string `json:"method"`
	Sid       string `json:"sid"`
	Cmd       int    `json:"cmd"`
	ReqIntact bool   `json:"req_intact"`
}

// Wire is what an observer of the bytes saw.
type Wire struct {
	ReqLegible    bool `json:"req_legible"`
	RepLegible    bool `json:"rep_legible"`
	FullHandshake bool `json:"full_handshake"`
}

// DialSpec says how the dialling end finds the session.
type DialSpec struct {
	SessionID string `json:"session_id"` // explicit id, or "" to go through the command map
	PeerName  string `json:"peer_name"`
	Cmd       int    `json:"cmd"`
}

// clientHalf runs the real client handshake and one request / reply exchange.
// cache nil = the process-wide cache (GetSessionCache).
func clientHalf(ctx context.Context, conn net.Conn, cache *security.SessionCache, d DialSpec) CliObs {
	var o CliObs
	cs := stream.NewStream(conn)
	cs.SetPeerAddr(d.PeerName)
	auth := security.NewAuthenticator(&security.SecurityConfig{Command: d.Cmd, PeerName: d.PeerName,
		SessionCache: cache, SessionID: d.SessionID,
		AuthMethods: []security.AuthMethod{security.AuthClaimToBe}, Authentication: security.SecurityOptional,
		CryptoMethods: []security.CryptoMethod{security.CryptoAES}, Encryption: security.SecurityOptional}, cs)
	_ = conn.SetReadDeadline(time.Now().Add(40 * time.Second))
	neg, err := auth.ClientHandshake(ctx)
	if err != nil {
		o.Err = err.Error()
		if o.Err == "" {
			o.Err = "error"
		}
		return o
	}
	o.Resumed = neg.SessionResumed
	o.WasResumed = auth.WasSessionResumed()
	o.Enc = cs.IsEncrypted()
	o.Sid = neg.SessionId
	m := message.NewMessageForStream(cs)
	if e := m.PutString(ctx, reqCanary); e == nil {
		if e = m.FinishMessage(ctx); e == nil {
			if s, e2 := message.NewMessageFromStream(cs).GetString(ctx); e2 == nil && s == repCanary {
				o.RepIntact = true
			}
		}
	}
	return o
}

// newServer builds a real server whose handlers report what they saw.
// cache nil = the process-wide cache.
func newServer(cache *security.SessionCache, ch chan<- SrvObs) *server.Server {
	srv := server.New(&security.SecurityConfig{
		AuthMethods:    []security.AuthMethod{security.AuthClaimToBe},
		Authentication: security.SecurityOptional,
		CryptoMethods:  []security.CryptoMethod{security.CryptoAES},
		Encryption:     security.SecurityOptional,
		SessionCache:   cache,
	})
	for _, cmd := range handledCmds {
		cmd := cmd
		srv.Handle(cmd, func(ctx context.Context, c *server.Conn) error {
			o := SrvObs{Ran: true, Resumed: c.Negotiation.SessionResumed, Enc: c.Stream.IsEncrypted(),
				User: c.Negotiation.User, Method: string(c.Negotiation.NegotiatedAuth),
				Authed: c.Negotiation.Authentication, Sid: c.Negotiation.SessionId, Cmd: cmd}
			req, err := message.NewMessageFromStream(c.Stream).GetString(ctx)
			o.ReqIntact = err == nil && req == reqCanary
			if err == nil {
				m := message.NewMessageForStream(c.Stream)
				if e := m.PutString(ctx, repCanary); e == nil {
					_ = m.FinishMessage(ctx)
				}
			}
			ch <- o
			return err
		}, "DAEMON")
	}
	return srv
}

// recConn records the bytes that cross a connection in both directions.
type recConn struct {
	net.Conn
	mu       sync.Mutex
	in, out  bytes.Buffer
	deadline time.Time
}

func (r *recConn) Read(p []byte) (int, error) {
	n, err := r.Conn.Read(p)
	r.mu.Lock()
	r.in.Write(p[:n])
	r.mu.Unlock()
	return n, err
}

func (r *recConn) Write(p []byte) (int, error) {
	n, err := r.Conn.Write(p)
	r.mu.Lock()
	r.out.Write(p[:n])
	r.mu.Unlock()
	return n, err
}

func wireOf(c2s, s2c []byte) Wire {
	return Wire{
		ReqLegible:    bytes.Contains(c2s, []byte(reqCanary)),
		RepLegible:    bytes.Contains(s2c, []byte(repCanary)),
		FullHandshake: bytes.Contains(c2s, []byte("NewSession")) || bytes.Contains(s2c, []byte("AuthMethodsList")),
	}
}

// connectInProcess runs both halves over an in-memory pipe.
func connectInProcess(cliCache, srvCache *security.SessionCache, d DialSpec) (CliObs, SrvObs, Wire) {
	ctx, cancel := context.WithTimeout(context.Background(), 60*time.Second)
	defer cancel()
	ch := make(chan SrvObs, 1)
	srv := newServer(srvCache, ch)
	cli, sconn := mempipe.C05Pipe("10.5.0.1:30001", "10.5.0.2:9618")
	done := make(chan error, 1)
	go func() { done <- srv.ServeConn(ctx, sconn) }()
	co := clientHalf(ctx, cli, cliCache, d)
	_ = cli.Close()
	select {
	case <-done:
	case <-time.After(40 * time.Second):
	}
	var so SrvObs
	select {
	case so = <-ch:
	default:
	}
	return co, so, wireOf(cli.Sent(), sconn.Sent())
}
