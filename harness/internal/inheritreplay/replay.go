package inheritreplay

import (
	"encoding/hex"
	"fmt"
	"sort"
	"strconv"
	"strings"
	"time"

	"github.com/PelicanPlatform/classad/classad"
	"github.com/bbockelm/cedar/security"
)

// Diff is a conformance difference (Machinery: the harness / model disagree
// with the reference, not the real code with the model).
type Diff struct {
	Step      string
	Field     string
	Detail    string
	Item      *ItemView
	Machinery bool
}

func (d *Diff) Error() string { return fmt.Sprintf("%s: %s: %s", d.Step, d.Field, d.Detail) }

type Stats struct {
	RealCalls   int64
	Handshakes  int64
	Children    int64
	EarlyAccept int64 // wrong-secret connections on which the server's handler was entered before any proof of the key
	EitherMade  int64 // "either" triples the real code turned into an entry
	EitherNone  int64 // "either" triples the real code skipped
	Probes      int64
	// by-command connections that found no usable session and negotiated afresh
	FreshHandshakes int64
}

func (s *Stats) add(o *Stats) {
	s.RealCalls += o.RealCalls
	s.Handshakes += o.Handshakes
	s.Children += o.Children
	s.EarlyAccept += o.EarlyAccept
	s.EitherMade += o.EitherMade
	s.EitherNone += o.EitherNone
	s.Probes += o.Probes
	s.FreshHandshakes += o.FreshHandshakes
}

const childAddr = "<10.5.0.1:30001>"
const parentInfo = `[CryptoMethods="AES";Encryption="YES";Integrity="YES";]`

func kindType(kind string) security.InheritedSessionType {
	if kind == "family" {
		return security.SessionTypeFamily
	}
	return security.SessionTypeNormal
}

func bracketed(it *ItemView) bool {
	return it.Dims.Form != "noinfo" && it.Dims.Form != "nohash" && it.Dims.Form != "unbracketed"
}

// run holds one execution.
type run struct {
	sc     *Scenario
	v      Variant
	r      *rctx
	st     *Stats
	tmp    string
	init   *Step
	parse  *Step
	imps   []*Step
	ress   []*Step
	items  []ItemView
	yItems []*ItemView // the items the private-inherit parser yields, in order

	inherit, priv, parentAddr, normAddr string
}

// Run executes one behaviour; nil = the real code conforms.
func Run(sc *Scenario, v Variant, tmp string, st *Stats) *Diff {
	if err := sc.Shape(); err != nil {
		return &Diff{Step: "Init", Field: "shape", Detail: err.Error(), Machinery: true}
	}
	now := v.Now
	if now == 0 {
		now = time.Now().Unix()
	}
	x := &run{sc: sc, v: v, r: newRctx(v, now), st: st, tmp: tmp, init: &sc.Trace[0], parse: &sc.Trace[1]}
	x.items = x.init.Items
	for i := range sc.Trace[2:] {
		s := &sc.Trace[2+i]
		if s.A == "Import" {
			x.imps = append(x.imps, s)
		} else {
			x.ress = append(x.ress, s)
		}
	}
	for i := range x.items {
		if x.items[i].Yielded {
			x.yItems = append(x.yItems, &x.items[i])
		}
	}
	if len(x.yItems) != len(x.parse.Parsed) {
		return &Diff{Step: "Parse", Field: "shape", Detail: "yielded items and parsed sessions differ in number", Machinery: true}
	}
	x.inherit, x.priv = x.r.render(x.init.Inherit), x.r.render(x.init.Priv)
	x.parentAddr, x.normAddr = x.r.render(x.init.Paddr), x.r.render(x.init.Naddr)
	if d := x.reference(); d != nil {
		return d
	}
	sessions, d := x.texts()
	if d != nil {
		return d
	}
	pcache, d := x.parentCache()
	if d != nil {
		return d
	}
	if v.Child {
		return x.viaChild(pcache)
	}
	return x.inProcess(sessions, pcache)
}

// reference: the rendered text denotes, under the documented grammar, what the
// model says (a machinery check: no real code involved).
func (x *run) reference() *Diff {
	bad := func(f, det string) *Diff {
		return &Diff{Step: "Parse", Field: "reference-" + f, Detail: det, Machinery: true}
	}
	ri := refParseInherit(x.inherit)
	if ri.ppid != x.r.render(x.parse.Pinh.Ppid) || ri.addr != x.r.render(x.parse.Pinh.Addr) || ri.nrest != x.parse.Pinh.Rest {
		return bad("inherit", fmt.Sprintf("reference parses %q to %+v, the model to %+v", x.inherit, ri, *x.parse.Pinh))
	}
	if ri.addr != x.parentAddr || refNormAddr(x.parentAddr) != x.normAddr {
		return bad("address", fmt.Sprintf("reference: parent %q normalised %q; model: %q / %q", ri.addr, refNormAddr(x.parentAddr), x.parentAddr, x.normAddr))
	}
	rs := refParsePrivate(x.priv)
	if len(rs) != len(x.parse.Parsed) {
		return bad("private", fmt.Sprintf("reference finds %d sessions in %q, the model %d", len(rs), redact(x.priv, x.r), len(x.parse.Parsed)))
	}
	for i, s := range x.parse.Parsed {
		if rs[i].kind != s.Kind || rs[i].id != x.r.render(s.Sid) || rs[i].info != x.r.render(s.Info) || rs[i].key != x.r.render(s.Key) {
			return bad("private", fmt.Sprintf("session %d: reference %+v, model kind %s id %q info %q", i+1, rs[i], s.Kind, x.r.render(s.Sid), x.r.render(s.Info)))
		}
	}
	for i := range x.items {
		it := &x.items[i]
		ra := refAttrs(x.r.render(it.Info))
		if len(ra) != len(modelAttrs(it, x.r)) {
			return bad("attrs", fmt.Sprintf("item %d: reference %v, model %v", i+1, ra, modelAttrs(it, x.r)))
		}
		for n, v := range modelAttrs(it, x.r) {
			if ra[n] != v {
				return bad("attrs", fmt.Sprintf("item %d: %s: reference %q, model %q", i+1, n, ra[n], v))
			}
		}
		if bracketed(it) {
			if want := refRenderInfo(policyAttrs(&it.Policy, x.r)); want != x.r.render(it.Reexport) {
				return bad("reexport", fmt.Sprintf("item %d: reference renders %q, model %q", i+1, want, x.r.render(it.Reexport)))
			}
		}
	}
	return nil
}

func modelAttrs(it *ItemView, r *rctx) map[string]string {
	m := map[string]string{}
	for _, a := range it.Attrs {
		m[a.N] = r.render(a.V)
	}
	return m
}

// policyAttrs: the exported attributes of a model policy.
func policyAttrs(p *Policy, r *rctx) map[string]string {
	m := map[string]string{}
	if len(p.Ciphers) > 0 {
		m["CryptoMethods"] = r.render(p.Ciphers[0])
		if len(p.Ciphers) > 1 {
			var l []string
			for _, c := range p.Ciphers {
				l = append(l, r.render(c))
			}
			m["CryptoMethodsList"] = strings.Join(l, ".")
		}
	}
	put := func(n string, t Toks) {
		if len(t) > 0 {
			m[n] = r.render(t)
		}
	}
	put("Encryption", p.Enc)
	put("Integrity", p.Integ)
	put("SessionExpires", p.Expires)
	put("ShortVersion", p.Ver)
	put("ValidCommands", p.Cmds)
	return m
}

func wantS(t Toks, r *rctx) string {
	if len(t) == 0 {
		return "<absent>"
	}
	return "s:" + r.render(t)
}

// texts: everything that works on the texts alone, with the real parsers.
func (x *run) texts() ([]*security.InheritedSession, *Diff) {
	r := x.r
	// ---- ParseCondorInherit ----------------------------------------------
	x.st.RealCalls++
	ppid, addr, rest := security.ParseCondorInherit(x.inherit)
	wantPid := 0
	if len(x.parse.Pinh.Ppid) > 0 {
		wantPid = parentPID
	}
	if ppid != wantPid || addr != x.parentAddr || len(rest) != x.parse.Pinh.Rest {
		return nil, &Diff{Step: "Parse", Field: "inherit", Detail: fmt.Sprintf("ParseCondorInherit(%q) = (%d, %q, %d more); specification (%d, %q, %d more)",
			x.inherit, ppid, addr, len(rest), wantPid, x.parentAddr, x.parse.Pinh.Rest)}
	}
	// ---- per item: claim id and session info ------------------------------
	for i := range x.items {
		it := &x.items[i]
		claim := r.render(it.Claim)
		x.st.RealCalls++
		cid := security.ParseClaimID(claim)
		wid, winfo, wkey := refParseClaim(claim)
		if cid.SecSessionInfo() != winfo || cid.SecSessionKey() != wkey || (winfo != "" && cid.SecSessionID() != wid) || (winfo == "" && cid.SecSessionID() != "") {
			return nil, &Diff{Step: "Parse", Field: "claim-parse", Item: it, Detail: fmt.Sprintf("ParseClaimID(%q): id %q info %q key %q; documented grammar: id %q info %q key %q",
				redact(claim, r), cid.SecSessionID(), cid.SecSessionInfo(), redact(cid.SecSessionKey(), r), wid, winfo, redact(wkey, r))}
		}
		sid, info, key := r.render(it.Sid), r.render(it.Info), r.render(it.Key)
		if sid != "" && info != "" && key != "" {
			x.st.RealCalls += 2
			exp := security.ExportClaimID(sid, info, key)
			back := security.ParseClaimID(exp)
			if exp != r.render(it.Exported) || back.SecSessionID() != sid || back.SecSessionInfo() != info || back.SecSessionKey() != key {
				return nil, &Diff{Step: "Parse", Field: "claim-roundtrip", Item: it, Detail: fmt.Sprintf("ExportClaimID -> %q, parsed back to id %q info %q key-ok %v",
					redact(exp, r), back.SecSessionID(), back.SecSessionInfo(), back.SecSessionKey() == key)}
			}
		}
		x.st.RealCalls++
		attrs, err := security.ImportSessionInfoAttributes(info)
		want := modelAttrs(it, r)
		if err != nil || len(attrs) != len(want) {
			return nil, &Diff{Step: "Parse", Field: "attrs", Item: it, Detail: fmt.Sprintf("ImportSessionInfoAttributes(%q) = %v (%v); specification %v", info, attrs, err, want)}
		}
		for n, v := range want {
			if attrs[n] != v {
				return nil, &Diff{Step: "Parse", Field: "attrs", Item: it, Detail: fmt.Sprintf("ImportSessionInfoAttributes(%q): %s = %q; specification %q", info, n, attrs[n], v)}
			}
		}
		x.st.RealCalls++
		pol, err := security.ImportSecSessionInfo(info)
		switch {
		case info == "":
			if err != nil || pol == nil {
				return nil, &Diff{Step: "Parse", Field: "secinfo-empty", Item: it, Detail: fmt.Sprintf("ImportSecSessionInfo(\"\") = %v", err)}
			}
		case !bracketed(it):
			if err == nil {
				return nil, &Diff{Step: "Parse", Field: "secinfo-unbracketed-accepted", Item: it, Detail: fmt.Sprintf("ImportSecSessionInfo(%q) accepted a session info that is not bracketed", info)}
			}
		default:
			if err != nil {
				return nil, &Diff{Step: "Parse", Field: "secinfo-error", Item: it, Detail: err.Error()}
			}
			if d := x.comparePolicy(it, pol, "secinfo"); d != nil {
				return nil, d
			}
			x.st.RealCalls += 2
			re, err := security.ExportSecSessionInfo(pol)
			if err != nil || re != r.render(it.Reexport) {
				return nil, &Diff{Step: "Parse", Field: "secinfo-reexport", Item: it, Detail: fmt.Sprintf("ExportSecSessionInfo(ImportSecSessionInfo(%q)) = %q (%v); specification %q", info, re, err, r.render(it.Reexport))}
			}
			pol2, err := security.ImportSecSessionInfo(re)
			if err != nil {
				return nil, &Diff{Step: "Parse", Field: "secinfo-error", Item: it, Detail: "re-import: " + err.Error()}
			}
			if d := x.comparePolicy(it, pol2, "secinfo-again"); d != nil {
				return nil, d
			}
		}
	}
	// ---- ParseCondorPrivateInherit -----------------------------------------
	x.st.RealCalls++
	sessions := security.ParseCondorPrivateInherit(x.priv)
	for i := 0; i < len(sessions) || i < len(x.parse.Parsed); i++ {
		if i >= len(sessions) || i >= len(x.parse.Parsed) {
			var it *ItemView
			if i < len(x.yItems) {
				it = x.yItems[i]
			} else {
				it = x.unyielded(sessions[i].SessionID)
			}
			return nil, &Diff{Step: "Parse", Field: "parsed-count", Item: it, Detail: fmt.Sprintf("ParseCondorPrivateInherit found %d sessions in %q; specification %d", len(sessions), redact(x.priv, r), len(x.parse.Parsed))}
		}
		g, w := sessions[i], x.parse.Parsed[i]
		f := ""
		switch {
		case g.Type != kindType(w.Kind):
			f = "parsed-kind"
		case g.SessionID != r.render(w.Sid):
			f = "parsed-id"
		case g.SessionInfo != r.render(w.Info):
			f = "parsed-info"
		case g.SessionKey != r.render(w.Key):
			f = "parsed-key"
		}
		if f != "" {
			return nil, &Diff{Step: "Parse", Field: f, Item: x.yItems[i], Detail: fmt.Sprintf("session %d: type %d id %q info %q key-ok %v; specification kind %s id %q info %q",
				i+1, g.Type, g.SessionID, g.SessionInfo, g.SessionKey == r.render(w.Key), w.Kind, r.render(w.Sid), r.render(w.Info))}
		}
	}
	return sessions, nil
}

// unyielded finds the item a surplus session belongs to (for the signature).
func (x *run) unyielded(id string) *ItemView {
	for i := range x.items {
		if !x.items[i].Yielded && x.r.render(x.items[i].Sid) == id {
			return &x.items[i]
		}
	}
	for i := range x.items {
		if !x.items[i].Yielded {
			return &x.items[i]
		}
	}
	return nil
}

func (x *run) comparePolicy(it *ItemView, ad *classad.ClassAd, what string) *Diff {
	p, r := &it.Policy, x.r
	var ciphers []string
	for _, c := range p.Ciphers {
		ciphers = append(ciphers, r.render(c))
	}
	wantC := "<absent>"
	if len(ciphers) > 0 {
		wantC = "s:" + strings.Join(ciphers, ",")
	}
	checks := []struct{ name, want string }{
		{"Encryption", wantS(p.Enc, r)}, {"Integrity", wantS(p.Integ, r)}, {"CryptoMethods", wantC},
		{"ValidCommands", wantS(p.Cmds, r)}, {"RemoteVersion", wantS(p.Ver, r)},
	}
	if len(p.Expires) > 0 { // "0" / not a number: means no expiry either way, the attribute itself is not compared
		checks = append(checks, struct{ name, want string }{"SessionExpires", wantS(p.Expires, r)})
	}
	for _, c := range checks {
		if got := attrOf(ad, c.name); got != c.want {
			return &Diff{Step: "Parse", Field: what + "-" + c.name, Item: it, Detail: fmt.Sprintf("ImportSecSessionInfo: %s = %s; specification %s", c.name, got, c.want)}
		}
	}
	return nil
}

// parentCache: the parent minted the sessions; its cache is built from the
// intent. When several items name one id the parent holds the session of the
// last one that can be a session at all (else of the last one).
func (x *run) parentCache() (*security.SessionCache, *Diff) {
	pc := security.NewSessionCache()
	pick := map[string]*ItemView{}
	var order []string
	for i := range x.items {
		it := &x.items[i]
		sid, key := x.r.render(it.Sid), x.r.render(it.Key)
		if sid == "" || key == "" {
			continue
		}
		cur, ok := pick[sid]
		if !ok {
			order = append(order, sid)
		}
		if !ok || it.Class != "bad" || cur.Class == "bad" {
			pick[sid] = it
		}
	}
	for _, sid := range order {
		it := pick[sid]
		key := x.r.render(it.Key)
		if x.init.Rel == "diff" {
			key = x.r.otherSecret(key)
		}
		e, err := security.CreateNonNegotiatedSession(&security.InheritedSession{Type: kindType(it.Dims.Kind), SessionID: sid,
			SessionInfo: parentInfo, SessionKey: key}, childAddr)
		if err != nil {
			return nil, &Diff{Step: "Init", Field: "parent-session", Item: it, Detail: "the parent's own session could not be created: " + err.Error(), Machinery: true}
		}
		pc.Store(e)
	}
	return pc, nil
}

// compareEntry: a real entry vs the entry the triple stands for.
func (x *run) compareEntry(step string, it *ItemView, g *EntryDump, viaEnv bool) *Diff {
	w, r := &it.Expected, x.r
	mk := func(f, det string) *Diff { return &Diff{Step: step, Field: f, Item: it, Detail: det} }
	if g.ID != r.render(w.Sid) {
		return mk("entry-id", fmt.Sprintf("entry id %q, specification %q", g.ID, r.render(w.Sid)))
	}
	sec, err := w.Secret()
	if err != nil {
		return &Diff{Step: step, Field: "model-key", Detail: err.Error(), Machinery: true}
	}
	if g.KeyHex != hex.EncodeToString(RefSessionKey(r.render(sec))) {
		return mk("key", "the entry's key is not HKDF-SHA256(secret from the text, salt \"htcondor\", info \"keygen\", 32 bytes)")
	}
	if g.Proto != w.Proto {
		return mk("key-protocol", fmt.Sprintf("key protocol %q, specification %q", g.Proto, w.Proto))
	}
	attrs := []struct{ field, name, want string }{
		{"user", "User", "s:" + w.User}, {"method", "AuthMethods", "s:" + w.Method},
		{"authenticated", "Authenticated", "b:" + strconv.FormatBool(w.Authed)},
		{"policy-CryptoMethods", "CryptoMethods", "s:" + w.Cm},
		{"policy-Encryption", "Encryption", wantS(w.Copied.Enc, r)}, {"policy-Integrity", "Integrity", wantS(w.Copied.Integ, r)},
		{"policy-ValidCommands", "ValidCommands", wantS(w.Copied.Cmds, r)}, {"policy-ShortVersion", "ShortVersion", wantS(w.Copied.Ver, r)},
		{"policy-SessionExpires", "SessionExpires", wantS(w.Copied.Expires, r)},
	}
	for _, a := range attrs {
		if g.Attrs[a.name] != a.want {
			return mk(a.field, fmt.Sprintf("policy attribute %s = %s, specification %s", a.name, g.Attrs[a.name], a.want))
		}
	}
	wantExp := int64(0)
	switch w.Expiry {
	case "future":
		wantExp = r.now + 3600
	case "past":
		wantExp = r.now - 3600
	}
	if g.ExpUnix != wantExp {
		return mk("expiry", fmt.Sprintf("entry expires at %d (0 = never), specification %s = %d", g.ExpUnix, w.Expiry, wantExp))
	}
	if g.LeaseNs != w.Lease {
		return mk("lease", fmt.Sprintf("lease %v, specification 0", time.Duration(g.LeaseNs)))
	}
	if g.Addr != x.parentAddr {
		return mk("entry-addr", fmt.Sprintf("entry is for address %q, the parent is %q", g.Addr, x.parentAddr))
	}
	if viaEnv && g.Inherited != w.Inherited {
		return mk("inherited-flag", fmt.Sprintf("IsInherited() = %v", g.Inherited))
	}
	return nil
}

// compareCache: the child's cache vs what the triples entail: for every id, no
// entry unless a well-formed (or "either") triple names it, an entry if a
// well-formed one does, and the entry is entirely the entry of ONE such triple.
func (x *run) compareCache(step string, real map[string]EntryDump, viaEnv bool) *Diff {
	byID := map[string][]*ItemView{}
	for i := range x.items {
		it := &x.items[i]
		if id := x.r.render(it.Sid); id != "" {
			byID[id] = append(byID[id], it)
		}
	}
	ids := map[string]bool{}
	for id := range byID {
		ids[id] = true
	}
	for id := range real {
		ids[id] = true
	}
	sorted := make([]string, 0, len(ids))
	for id := range ids {
		sorted = append(sorted, id)
	}
	sort.Strings(sorted)
	for _, id := range sorted {
		var wf, either, bad []*ItemView
		for _, it := range byID[id] {
			switch it.Class {
			case "wf":
				wf = append(wf, it)
			case "either":
				either = append(either, it)
			default:
				bad = append(bad, it)
			}
		}
		g, have := real[id]
		if !have {
			if len(wf) > 0 {
				return &Diff{Step: step, Field: "entry-missing", Item: wf[0], Detail: fmt.Sprintf("no cache entry for %q although a well-formed triple names it", id)}
			}
			continue
		}
		if len(wf)+len(either) == 0 {
			var it *ItemView
			if len(bad) > 0 {
				it = bad[0]
			}
			return &Diff{Step: step, Field: "entry-unexpected", Item: it, Detail: fmt.Sprintf("cache holds an entry for %q (key %d hex digits, protocol %q) although no triple that can become a session names it", id, len(g.KeyHex), g.Proto)}
		}
		var first *Diff
		ok := false
		for _, it := range append(append([]*ItemView{}, wf...), either...) {
			d := x.compareEntry(step, it, &g, viaEnv)
			if d == nil {
				ok = true
				break
			}
			if d.Machinery {
				return d
			}
			if first == nil {
				first = d
			}
		}
		if !ok {
			return first
		}
	}
	return nil
}

// dialFor: how the connection of one Resume step finds its session.
func (x *run) dialFor(s *Step) (DialSpec, bool) {
	it := &x.items[s.Res.K-1]
	sid := x.r.render(s.Res.Sid)
	cmd := 421
	for _, c := range it.Cmds {
		if c == "60008" {
			cmd = childAlive
		}
	}
	childDials := s.Res.Dir == "childDials"
	if !childDials {
		return DialSpec{SessionID: sid, PeerName: childAddr, Cmd: cmd}, false
	}
	addr := x.parentAddr
	if x.init.Dm == "childByCmdNorm" && x.normAddr != "" {
		addr = x.normAddr
	}
	d := DialSpec{SessionID: sid, PeerName: addr, Cmd: cmd}
	if x.init.Dm != "childById" && addr != "" && len(x.imps) > 0 {
		// through the command map, when the specification's map leads to this session
		for _, m := range x.imps[len(x.imps)-1].Cmap {
			if x.r.render(m.Addr) == addr && m.Cmd == strconv.Itoa(cmd) && x.r.render(m.Sid) == sid {
				d.SessionID = ""
			}
		}
	}
	return d, true
}

// judge compares one connection with the specification's outcome. childEntry is
// the child's real entry for the session (nil: none), pkey the parent's key.
func (x *run) judge(s *Step, d DialSpec, co CliObs, so SrvObs, w Wire, childEntry *EntryDump, pcache *security.SessionCache) *Diff {
	it := &x.items[s.Res.K-1]
	sid := x.r.render(s.Res.Sid)
	mk := func(f, det string) *Diff {
		return &Diff{Step: "Resume", Field: f, Item: it, Detail: fmt.Sprintf("%s (%s, %s): %s", s.Res.Dir, how(d), x.init.Rel, det)}
	}
	want := s.Expect == "works"
	if s.Expect == "either" {
		// the documentation leaves the triple's fate open: the connection must agree with the cache
		want = false
		if pe, ok := pcache.Lookup(sid); ok && childEntry != nil && !childEntry.Expired && pe.KeyInfo() != nil {
			want = childEntry.KeyHex == hex.EncodeToString(pe.KeyInfo().Data)
		}
	}
	// "works" speaks about THE SESSION: application data flowed over a connection that
	// resumed it. A client that goes through the command map and finds no usable
	// session there negotiates afresh (ClientHandshake's documented fall-back): data
	// may then flow, but not over the inherited session.
	flowed := co.Err == "" && so.Ran && so.ReqIntact && co.RepIntact
	resumed := co.Resumed && co.WasResumed && so.Resumed && !w.FullHandshake
	fresh := flowed && !co.Resumed && !so.Resumed && d.SessionID == ""
	if fresh && !want {
		x.st.FreshHandshakes++
		return nil
	}
	if flowed != want {
		return mk("works", fmt.Sprintf("application data flowed = %v (client error %q, handler ran %v, request intact %v, reply intact %v, resumed %v); specification: %s",
			flowed, co.Err, so.Ran, so.ReqIntact, co.RepIntact, resumed, s.Expect))
	}
	if !want {
		if so.Ran {
			x.st.EarlyAccept++
		}
		return nil
	}
	if !resumed {
		return mk("resumed", fmt.Sprintf("not a resumption: client resumed %v/%v, server resumed %v, full-handshake traffic %v", co.Resumed, co.WasResumed, so.Resumed, w.FullHandshake))
	}
	if co.Sid != sid || so.Sid != sid {
		return mk("session-id", fmt.Sprintf("client resumed %q, server %q, the connection was for %q", co.Sid, so.Sid, sid))
	}
	// the identity follows the kind of the triple; when several triples name the id, of one of them
	users := map[string]bool{}
	for i := range x.items {
		o := &x.items[i]
		if (o == it && s.Expect == "works") || (s.Expect == "either" && o.Class != "bad" && x.r.render(o.Sid) == sid) {
			if o.Dims.Kind == "family" {
				users["condor@family"] = true
			} else {
				users["condor@parent"] = true
			}
		}
	}
	if !users[so.User] {
		return mk("peer-user", fmt.Sprintf("server attributes the peer %q, specification %v", so.User, keys(users)))
	}
	if !so.Authed || so.Method != "FAMILY" {
		return mk("authenticated", fmt.Sprintf("server sees authenticated=%v method=%q, specification true / FAMILY", so.Authed, so.Method))
	}
	if !co.Enc || !so.Enc || w.ReqLegible || w.RepLegible {
		return mk("encrypted", fmt.Sprintf("client enc=%v server enc=%v request legible on the wire=%v reply legible=%v", co.Enc, so.Enc, w.ReqLegible, w.RepLegible))
	}
	return nil
}

func how(d DialSpec) string {
	if d.SessionID != "" {
		return "explicit id"
	}
	return "command map " + strconv.Itoa(d.Cmd) + " @ " + d.PeerName
}

// inProcess: the sessions are imported into a cache through the exported API
// (the harness follows registerInheritedSessions: CreateNonNegotiatedSession,
// SetInherited, Store, MapCommand) and the connections run over memory pipes.
func (x *run) inProcess(sessions []*security.InheritedSession, pcache *security.SessionCache) *Diff {
	cc := security.NewSessionCache()
	for k, sess := range sessions {
		it, step := x.yItems[k], x.imps[k]
		x.st.RealCalls++
		e, err := security.CreateNonNegotiatedSession(sess, x.parentAddr)
		if it.Class == "either" {
			if err == nil {
				x.st.EitherMade++
			} else {
				x.st.EitherNone++
			}
		} else if (err == nil) != step.Entry.Present {
			return &Diff{Step: "Import", Field: "entry-present", Item: it, Detail: fmt.Sprintf("CreateNonNegotiatedSession: error %v; specification expects an entry: %v", err, step.Entry.Present)}
		}
		if err != nil {
			if e != nil {
				return &Diff{Step: "Import", Field: "entry-with-error", Item: it, Detail: "CreateNonNegotiatedSession returned an entry together with an error"}
			}
		} else {
			g := dumpEntry(e)
			if d := x.compareEntry("Import", it, &g, false); d != nil {
				return d
			}
			e.SetInherited(true)
			cc.Store(e)
			cmds := []string{}
			for _, c := range strings.Split(refAttrs(sess.SessionInfo)["ValidCommands"], ",") {
				if c = strings.TrimSpace(c); c != "" {
					cmds = append(cmds, c)
				}
			}
			if len(cmds) == 0 {
				cmds = []string{strconv.Itoa(childAlive)}
			}
			for _, c := range cmds {
				cc.MapCommand("", x.parentAddr, c, sess.SessionID)
				if x.normAddr != "" {
					cc.MapCommand("", x.normAddr, c, sess.SessionID)
				}
			}
		}
		if d := x.compareCachePartial("Import", dumpCache(cc), k+1); d != nil {
			return d
		}
	}
	if d := x.compareCache("Import", dumpCache(cc), false); d != nil {
		return d
	}
	for _, s := range x.ress {
		sid := x.r.render(s.Res.Sid)
		if sid == "" {
			continue
		}
		d, childDials := x.dialFor(s)
		var ce *EntryDump
		if g, ok := dumpCache(cc)[sid]; ok {
			ce = &g
		}
		x.st.Handshakes++
		var co CliObs
		var so SrvObs
		var w Wire
		if childDials {
			co, so, w = connectInProcess(cc, pcache, d)
		} else {
			co, so, w = connectInProcess(pcache, cc, d)
		}
		if df := x.judge(s, d, co, so, w, ce, pcache); df != nil {
			return df
		}
	}
	return nil
}

// compareCachePartial: while the triples are being imported, every entry
// already in the cache is the complete entry of one of the triples processed so
// far (nothing partial is ever visible).
func (x *run) compareCachePartial(step string, real map[string]EntryDump, done int) *Diff {
	for id, g := range real {
		g := g
		ok := false
		var first *Diff
		var any *ItemView
		for _, it := range x.yItems[:done] {
			if x.r.render(it.Sid) != id {
				continue
			}
			any = it
			if it.Class == "bad" {
				continue
			}
			d := x.compareEntry(step, it, &g, false)
			if d == nil {
				ok = true
				break
			}
			if first == nil {
				first = d
			}
		}
		if !ok {
			if first != nil {
				return first
			}
			return &Diff{Step: step, Field: "entry-unexpected", Item: any, Detail: fmt.Sprintf("after %d triples the cache holds an entry for %q that no triple processed so far stands for", done, id)}
		}
	}
	return nil
}

// viaChild: the environment path in a child process.
func (x *run) viaChild(pcache *security.SessionCache) *Diff {
	var job ChildJob
	var childSteps, parentSteps []*Step
	var parentDials []DialSpec
	var dspecs = map[*Step]DialSpec{}
	for _, s := range x.ress {
		if x.r.render(s.Res.Sid) == "" {
			continue
		}
		d, childDials := x.dialFor(s)
		dspecs[s] = d
		if childDials {
			job.Dials = append(job.Dials, d)
			childSteps = append(childSteps, s)
		} else {
			parentDials = append(parentDials, d)
			parentSteps = append(parentSteps, s)
		}
	}
	addrs := []string{}
	if x.parentAddr != "" {
		addrs = append(addrs, x.parentAddr)
		if x.normAddr != "" && x.normAddr != x.parentAddr {
			addrs = append(addrs, x.normAddr)
		}
		addrs = append(addrs, "<192.0.2.7:9618>") // somebody else
	}
	universe := []string{"60008", "421", "60007"}
	for _, a := range addrs {
		for _, c := range universe {
			job.Probes = append(job.Probes, Probe{a, c})
		}
	}
	for i := range x.items {
		if id := x.r.render(x.items[i].Sid); id != "" {
			job.Lookups = append(job.Lookups, id)
		}
	}
	x.st.Children++
	res, ps, err := RunChild(x.tmp, x.inherit, x.priv, x.v.EnvNames, job, pcache, parentDials)
	if err != nil {
		return &Diff{Step: "Import", Field: "child-process", Detail: err.Error(), Machinery: !strings.Contains(err.Error(), "panic")}
	}
	if res.Error != "" {
		return &Diff{Step: "Import", Field: "child-process", Detail: res.Error, Machinery: true}
	}
	r := x.r
	// ---- what ImportInheritedSessions recorded -------------------------------
	wantPid := 0
	if len(x.parse.Pinh.Ppid) > 0 {
		wantPid = parentPID
	}
	if res.ParentAddr != x.parentAddr || res.ParentPID != wantPid {
		return &Diff{Step: "Parse", Field: "env-parent", Detail: fmt.Sprintf("GetInheritedParentAddr/PID = %q / %d; specification %q / %d", res.ParentAddr, res.ParentPID, x.parentAddr, wantPid)}
	}
	if res.EnvPrivateStillSet == x.parse.EnvCleared && x.priv != "" {
		return &Diff{Step: "Parse", Field: "env-not-cleared", Detail: "CONDOR_PRIVATE_INHERIT is still in the environment after the import"}
	}
	if !res.SecondImportSame {
		return &Diff{Step: "Parse", Field: "env-second-import", Detail: "a second ImportInheritedSessions returned a different list"}
	}
	wantFam, wantPar := "", ""
	for i := 0; i < len(res.Sessions) || i < len(x.parse.Parsed); i++ {
		if i >= len(res.Sessions) || i >= len(x.parse.Parsed) {
			var it *ItemView
			if i < len(x.yItems) {
				it = x.yItems[i]
			} else {
				it = x.unyielded(res.Sessions[i].ID)
			}
			return &Diff{Step: "Parse", Field: "parsed-count", Item: it, Detail: fmt.Sprintf("GetInheritedSessions: %d sessions; specification %d", len(res.Sessions), len(x.parse.Parsed))}
		}
		g, w := res.Sessions[i], x.parse.Parsed[i]
		if g.Type != int(kindType(w.Kind)) || g.ID != r.render(w.Sid) || g.Info != r.render(w.Info) || g.Key != r.render(w.Key) || g.ParentAddr != x.parentAddr || g.ParentPID != wantPid {
			return &Diff{Step: "Parse", Field: "env-session", Item: x.yItems[i], Detail: fmt.Sprintf("inherited session %d: type %d id %q info %q parent %q/%d; specification kind %s id %q info %q parent %q/%d",
				i+1, g.Type, g.ID, g.Info, g.ParentAddr, g.ParentPID, w.Kind, r.render(w.Sid), r.render(w.Info), x.parentAddr, wantPid)}
		}
		if w.Kind == "family" && wantFam == "" {
			wantFam = g.ID
		}
		if w.Kind == "parent" && wantPar == "" {
			wantPar = g.ID
		}
	}
	if res.FamilyID != wantFam || res.ParentID != wantPar {
		return &Diff{Step: "Parse", Field: "env-family-parent-id", Detail: fmt.Sprintf("GetFamilySessionID/GetParentSessionID = %q / %q; specification %q / %q", res.FamilyID, res.ParentID, wantFam, wantPar)}
	}
	for _, id := range job.Lookups {
		want := false
		for _, w := range x.parse.Parsed {
			want = want || r.render(w.Sid) == id
		}
		if res.Lookups[id] != want {
			return &Diff{Step: "Parse", Field: "env-lookup", Detail: fmt.Sprintf("LookupInheritedSession(%q) found = %v; specification %v", id, res.Lookups[id], want)}
		}
	}
	// ---- the cache registerInheritedSessions built ----------------------------
	for i := range x.yItems {
		if x.yItems[i].Class == "either" {
			if _, ok := res.Entries[r.render(x.yItems[i].Sid)]; ok {
				x.st.EitherMade++
			} else {
				x.st.EitherNone++
			}
		}
	}
	if d := x.compareCache("Import", res.Entries, true); d != nil {
		return d
	}
	// ---- the command map ---------------------------------------------------------
	for _, p := range job.Probes {
		x.st.Probes++
		got := res.Probes[p.Addr+"|"+p.Cmd]
		allowed := map[string]bool{}
		mustMap := false
		var claimer *ItemView
		if p.Addr == x.parentAddr || p.Addr == x.normAddr {
			open := false
			for i := range x.items {
				it := &x.items[i]
				claims := false
				for _, c := range it.Cmds {
					claims = claims || c == p.Cmd
				}
				if !claims || it.Class == "bad" {
					continue
				}
				claimer = it
				if it.Dims.Exp == "past" || it.Class == "either" {
					open = true // an expired session is not found; an "either" triple may not exist
				}
				if it.Dims.Exp != "past" {
					allowed[r.render(it.Sid)] = true
					if it.Class == "wf" {
						mustMap = true
					}
				}
			}
			if open || !mustMap {
				allowed[""] = true
			}
			if open {
				mustMap = false
			}
		} else {
			allowed[""] = true
		}
		if !allowed[got] {
			which := "raw"
			if p.Addr != x.parentAddr {
				which = "normalised"
			}
			f := "map-missing"
			if got != "" {
				f = "map-unexpected"
				claimer = x.itemByID(got)
			}
			return &Diff{Step: "Import", Field: f, Item: claimer, Detail: fmt.Sprintf("LookupByCommand(%q [%s], %s) -> %q; specification: one of %v", p.Addr, which, p.Cmd, got, keys(allowed))}
		}
	}
	// ---- the connections -------------------------------------------------------------
	if len(res.Dials) != len(childSteps) || len(ps.Served) < len(childSteps) || len(res.Served) != len(parentSteps) || len(ps.Dialed) != len(parentSteps) {
		return &Diff{Step: "Resume", Field: "child-process", Detail: fmt.Sprintf("child dialled %d / parent served %d of %d, child served %d / parent dialled %d of %d",
			len(res.Dials), len(ps.Served), len(childSteps), len(res.Served), len(ps.Dialed), len(parentSteps)), Machinery: true}
	}
	entryOf := func(sid string) *EntryDump {
		if g, ok := res.Entries[sid]; ok {
			return &g
		}
		return nil
	}
	for i, s := range childSteps {
		x.st.Handshakes++
		if d := x.judge(s, dspecs[s], res.Dials[i], ps.Served[i], ps.SWire[i], entryOf(r.render(s.Res.Sid)), pcache); d != nil {
			return d
		}
	}
	for i, s := range parentSteps {
		x.st.Handshakes++
		if d := x.judge(s, dspecs[s], ps.Dialed[i], res.Served[i], ps.DWire[i], entryOf(r.render(s.Res.Sid)), pcache); d != nil {
			return d
		}
	}
	return nil
}

func (x *run) itemByID(id string) *ItemView {
	for i := range x.items {
		if x.r.render(x.items[i].Sid) == id {
			return &x.items[i]
		}
	}
	return nil
}

func keys(m map[string]bool) []string {
	var out []string
	for k := range m {
		out = append(out, k)
	}
	sort.Strings(out)
	return out
}
