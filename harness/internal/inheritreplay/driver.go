package inheritreplay

import (
	"encoding/json"
	"os"
	"sort"
	"strings"
	"sync"

	"cedarverif/internal/core"
)

type Job struct {
	Sc *Scenario
	V  Variant
}

func Parse(c *core.Ctx, raws []json.RawMessage) []*Scenario {
	var out []*Scenario
	for _, r := range raws {
		var sc Scenario
		if err := json.Unmarshal(r, &sc); err != nil {
			c.Broken("bad scenario JSON: %v", err)
			return nil
		}
		if err := sc.Shape(); err != nil {
			c.Broken("unexpected behaviour shape: %v", err)
			return nil
		}
		out = append(out, &sc)
	}
	return out
}

// Signature: abstract classes only (never seeds, secrets, counters).
func Signature(sc *Scenario, v Variant, d *Diff) map[string]string {
	sig := map[string]string{"spec": "InheritedSession", "action": d.Step, "field": d.Field}
	if v.Child {
		sig["path"] = "environment"
	} else {
		sig["path"] = "api"
	}
	if it := d.Item; it != nil {
		sig["kind"], sig["form"], sig["class"] = it.Dims.Kind, it.Dims.Form, it.Class
		if it.Dims.Ciph != "legacy" || strings.Contains(d.Field, "Crypto") || d.Field == "entry-present" {
			sig["ciphers"] = it.Dims.Ciph
		}
		if it.Dims.Exp != "none" {
			sig["expires"] = it.Dims.Exp
		}
		if strings.HasPrefix(d.Field, "map-") || strings.Contains(d.Field, "ValidCommands") {
			sig["commands"] = it.Dims.Cmds
		}
	}
	if strings.HasPrefix(d.Field, "map-") || d.Field == "inherit" || d.Field == "env-parent" || d.Field == "entry-addr" {
		sig["address"] = sc.Trace[0].Addr
	}
	if d.Step == "Resume" {
		sig["secret"] = sc.Trace[0].Rel
		sig["mode"] = sc.Trace[0].Dm
		if sc.Trace[0].Rel == "diff" {
			sig["other"] = v.Other
		}
	}
	if len(sc.Trace[0].Items) > 1 && (d.Field == "parsed-count" || strings.HasPrefix(d.Field, "entry-") || strings.HasPrefix(d.Field, "map-")) {
		sig["items"] = "several"
	}
	return sig
}

func SigString(sig map[string]string) string {
	ks := make([]string, 0, len(sig))
	for k := range sig {
		ks = append(ks, k)
	}
	sort.Strings(ks)
	var b strings.Builder
	for _, k := range ks {
		b.WriteString(k + "=" + sig[k] + ";")
	}
	return b.String()
}

func Key(sc *Scenario, v Variant) string {
	i := &sc.Trace[0]
	var dims []Dims
	for _, it := range i.Items {
		dims = append(dims, it.Dims)
	}
	b, _ := json.Marshal(struct {
		A, W, R, D string
		I          []Dims
		O, E       string
		C          bool
	}{i.Addr, i.Ws, i.Rel, i.Dm, dims, v.Other, v.EnvNames, v.Child})
	return string(b)
}

// Observation is a known difference on the unchanged tree that is reported,
// counted and not failed (growth modules exit 0 on the unchanged tree).
type Observation struct {
	Match map[string]string // every pair must be in the signature
	Text  string
}

func matchObs(obs []Observation, sig map[string]string) *Observation {
	for i := range obs {
		ok := true
		for k, v := range obs[i].Match {
			if sig[k] != v {
				ok = false
			}
		}
		if ok {
			return &obs[i]
		}
	}
	return nil
}

// ReplayAll runs the jobs in parallel, confirms every difference by an
// immediate second run and records failures / known observations.
func ReplayAll(c *core.Ctx, jobs []Job, total *Stats, known []Observation) {
	var mu sync.Mutex
	conform := int64(0)
	obsCount := map[string]int64{}
	core.ParallelFor(len(jobs), 16, func(i int) {
		j := jobs[i]
		j.V.Seq = i + 1
		var st Stats
		d := Run(j.Sc, j.V, c.Tmp, &st)
		c.Eval(Key(j.Sc, j.V), true)
		mu.Lock()
		total.add(&st)
		mu.Unlock()
		if d == nil {
			mu.Lock()
			conform++
			mu.Unlock()
			return
		}
		var st2 Stats
		v2 := j.V
		v2.Seq = len(jobs) + i + 1
		d2 := Run(j.Sc, v2, c.Tmp, &st2)
		if d2 == nil || d2.Step != d.Step || d2.Field != d.Field {
			c.Broken("non-reproducible difference: %v vs %v", d, d2)
			return
		}
		if d.Machinery {
			c.Broken("machinery: %v", d)
			return
		}
		sig := Signature(j.Sc, j.V, d)
		if o := matchObs(known, sig); o != nil {
			mu.Lock()
			obsCount[o.Text]++
			if obsCount[o.Text] == 1 {
				c.Note("OBSERVATION: " + o.Text + " [" + SigString(sig) + "] e.g. " + d.Error())
			}
			mu.Unlock()
			return
		}
		c.Fail(core.Failure{Signature: sig, Detail: d.Error(),
			Scenario: map[string]any{"kind": "InheritedSession", "trace": j.Sc.Trace, "variant": j.V}})
	})
	c.Add("traces_validated_against_impl", conform)
	var n int64
	for _, k := range obsCount {
		n += k
	}
	c.Add("known_observations", n)
}

func ReplayFile(c *core.Ctx, known []Observation) bool {
	if c.Replay == "" {
		return false
	}
	b, err := os.ReadFile(c.Replay)
	if err != nil {
		c.Broken("cannot read replay file: %v", err)
		return true
	}
	var rf struct {
		Scenario struct {
			Kind    string  `json:"kind"`
			Trace   []Step  `json:"trace"`
			Variant Variant `json:"variant"`
		} `json:"scenario"`
	}
	if err := json.Unmarshal(b, &rf); err != nil || rf.Scenario.Kind != "InheritedSession" {
		c.Broken("not a G05 replay file")
		return true
	}
	var st Stats
	rf.Scenario.Variant.Now = 0
	ReplayAll(c, []Job{{&Scenario{Trace: rf.Scenario.Trace}, rf.Scenario.Variant}}, &st, known)
	return true
}
