package inheritreplay

import (
	"bufio"
	"encoding/json"
	"fmt"
	"os"
	"strings"
	"sync"
	"testing"
	"time"

	"cedarverif/internal/core"
)

func TestMain(m *testing.M) {
	if p := os.Getenv(ChildEnv); p != "" {
		ChildMain(p)
	}
	os.Exit(m.Run())
}

func TestDev(t *testing.T) {
	f, err := os.Open(os.Getenv("G05_GEN"))
	if err != nil {
		t.Skip()
	}
	sc := bufio.NewScanner(f)
	sc.Buffer(make([]byte, 1<<20), 1<<28)
	var scs []*Scenario
	for sc.Scan() {
		line := sc.Text()
		if !strings.HasPrefix(line, `"{\"trace\":`) {
			continue
		}
		var s string
		json.Unmarshal([]byte(line), &s)
		var x Scenario
		if err := json.Unmarshal([]byte(s), &x); err != nil {
			t.Fatal(err)
		}
		if err := x.Shape(); err != nil {
			t.Fatal(err)
		}
		scs = append(scs, &x)
	}
	child := os.Getenv("G05_CHILD") != ""
	tmp := t.TempDir()
	var mu sync.Mutex
	seen := map[string]int{}
	var st Stats
	core.ParallelFor(len(scs), 16, func(i int) {
		v := Variant{Seq: i + 1, KeySeed: int64(i)*7919 + 5, Other: []string{"flip", "fresh", "trunc"}[i%3], EnvNames: []string{"plain", "underscore"}[i%2], Child: child}
		var s Stats
		t0 := time.Now()
		d := Run(scs[i], v, tmp, &s)
		if el := time.Since(t0); el > 3*time.Second {
			fmt.Println("SLOW", el, scs[i].Trace[0].Addr, scs[i].Trace[0].Rel, scs[i].Trace[0].Dm, len(scs[i].Trace[0].Items))
		}
		mu.Lock()
		st.add(&s)
		if d != nil {
			k := SigString(Signature(scs[i], v, d))
			if d.Machinery {
				k = "MACHINERY " + k
			}
			seen[k]++
			if seen[k] == 1 {
				fmt.Println(k, "\n   ", d.Error())
			}
		}
		mu.Unlock()
	})
	fmt.Printf("%d behaviours, %d signatures, stats %+v\n", len(scs), len(seen), st)
	for k, n := range seen {
		fmt.Println(n, k)
	}
}
