// Package inheritreplay binds spec/InheritedSession.tla (growth module G05:
// inherited / family security sessions) to the real code. Every behaviour
// printed by Gen_InheritedSession (one scenario = the intent of a parent
// daemon: CONDOR_INHERIT shape x a list of SessionKey / FamilySessionKey
// triples, well formed or near misses; taken through Parse, Import of every
// triple and one connection per item) is executed
//
//   - in process: the model's token texts are rendered to concrete strings and
//     given to the real ParseCondorInherit / ParseCondorPrivateInherit /
//     ParseClaimID / ExportClaimID / ImportSessionInfoAttributes /
//     ImportSecSessionInfo / ExportSecSessionInfo / CreateNonNegotiatedSession,
//     the sessions are stored in a cache and real client / server handshakes
//     (naming the session explicitly, or through the command map) are run over
//     an in-memory pipe in the direction the behaviour says;
//   - in a CHILD PROCESS (the verif binary re-executed with CONDOR_INHERIT and
//     CONDOR_PRIVATE_INHERIT in its environment), where the real, once per
//     process, environment path (GetSessionCache -> registerInheritedSessions)
//     builds the cache; the child dumps what was registered and is the child
//     daemon of real handshakes with the harness over unix sockets.
//
// After every step the projection of the real state is compared with the
// specification's expectation. ref.go holds an independent reference parser /
// renderer of both texts and a reference HKDF.
package inheritreplay

import (
	"encoding/json"
	"fmt"
)

// Toks is a token text of the model.
type Toks []string

type Dims struct {
	Kind string `json:"kind"`
	Form string `json:"form"`
	Ciph string `json:"ciph"`
	Exp  string `json:"exp"`
	Cmds string `json:"cmds"`
	Ver  string `json:"ver"`
	ID   string `json:"id"`
	Key  string `json:"key"`
}

type Copied struct {
	Enc     Toks `json:"enc"`
	Integ   Toks `json:"integ"`
	Cmds    Toks `json:"cmds"`
	Ver     Toks `json:"ver"`
	Expires Toks `json:"expires"`
}

// Entry is a cache entry of the model (present=false: none).
type Entry struct {
	Present   bool              `json:"present"`
	Sid       Toks              `json:"sid"`
	Key       []json.RawMessage `json:"key"` // ["hkdf-sha256", <secret tokens>, "salt=htcondor", "info=keygen"]
	Proto     string            `json:"proto"`
	User      string            `json:"user"`
	Method    string            `json:"method"`
	Authed    bool              `json:"authed"`
	Expiry    string            `json:"expiry"` // "never" | "future" | "past"
	Lease     int64             `json:"lease"`
	Inherited bool              `json:"inherited"`
	Cm        string            `json:"cm"`
	Copied    Copied            `json:"copied"`
}

// Secret returns the token text the entry's key is derived from.
func (e *Entry) Secret() (Toks, error) {
	if len(e.Key) != 4 {
		return nil, fmt.Errorf("key term has %d parts", len(e.Key))
	}
	var kind, salt, info string
	var sec Toks
	if json.Unmarshal(e.Key[0], &kind) != nil || json.Unmarshal(e.Key[1], &sec) != nil ||
		json.Unmarshal(e.Key[2], &salt) != nil || json.Unmarshal(e.Key[3], &info) != nil {
		return nil, fmt.Errorf("key term not understood")
	}
	if kind != "hkdf-sha256" || salt != "salt=htcondor" || info != "info=keygen" {
		return nil, fmt.Errorf("unexpected key derivation %s %s %s in a Bug-free model", kind, salt, info)
	}
	return sec, nil
}

type Attr struct {
	N string `json:"n"`
	V Toks   `json:"v"`
}

type Policy struct {
	Enc     Toks   `json:"enc"`
	Integ   Toks   `json:"integ"`
	Ciphers []Toks `json:"ciphers"`
	Cmds    Toks   `json:"cmds"`
	Ver     Toks   `json:"ver"`
	Expires Toks   `json:"expires"`
}

type ItemView struct {
	Dims     Dims     `json:"dims"`
	Text     Toks     `json:"text"`
	Claim    Toks     `json:"claim"`
	Sid      Toks     `json:"sid"`
	Info     Toks     `json:"info"`
	Key      Toks     `json:"key"`
	Class    string   `json:"class"` // "wf" | "either" | "bad"
	Yielded  bool     `json:"yielded"`
	Sole     bool     `json:"sole"`
	Expected Entry    `json:"expected"`
	Cmds     []string `json:"cmds"`
	Attrs    []Attr   `json:"attrs"`
	Exported Toks     `json:"exported"`
	Policy   Policy   `json:"policy"`
	Reexport Toks     `json:"reexport"`
}

type Sess struct {
	Kind string `json:"kind"`
	Sid  Toks   `json:"sid"`
	Info Toks   `json:"info"`
	Key  Toks   `json:"key"`
}

type Pinh struct {
	Ppid Toks `json:"ppid"`
	Addr Toks `json:"addr"`
	Rest int  `json:"rest"`
}

type Mapping struct {
	Addr Toks   `json:"addr"`
	Cmd  string `json:"cmd"`
	Sid  Toks   `json:"sid"`
}

type Res struct {
	K      int    `json:"k"`
	Sid    Toks   `json:"sid"`
	Dir    string `json:"dir"`
	Found  bool   `json:"found"`
	Works  bool   `json:"works"`
	User   string `json:"user"`
	Authed bool   `json:"authed"`
	Method string `json:"method"`
	Enc    bool   `json:"enc"`
}

type Step struct {
	A string `json:"a"`
	// Init
	Addr    string     `json:"addr,omitempty"`
	Ws      string     `json:"ws,omitempty"`
	Rel     string     `json:"rel,omitempty"`
	Dm      string     `json:"dm,omitempty"`
	Inherit Toks       `json:"inherit,omitempty"`
	Priv    Toks       `json:"priv,omitempty"`
	Paddr   Toks       `json:"paddr,omitempty"`
	Naddr   Toks       `json:"naddr,omitempty"`
	Items   []ItemView `json:"items,omitempty"`
	// Parse
	Pinh       *Pinh  `json:"pinh,omitempty"`
	Parsed     []Sess `json:"parsed,omitempty"`
	EnvCleared bool   `json:"envCleared,omitempty"`
	// Import
	K     int       `json:"k,omitempty"`
	Sid   Toks      `json:"sid,omitempty"`
	Kind  string    `json:"kind,omitempty"`
	Entry *Entry    `json:"entry,omitempty"`
	Cache []Entry   `json:"cache,omitempty"`
	Cmap  []Mapping `json:"cmap,omitempty"`
	// Resume
	Res    *Res   `json:"res,omitempty"`
	Expect string `json:"expect,omitempty"` // "works" | "fails" | "either"
}

type Scenario struct {
	Trace []Step `json:"trace"`
}

// Shape checks the structure Run relies on.
func (sc *Scenario) Shape() error {
	if len(sc.Trace) < 2 || sc.Trace[0].A != "Init" || sc.Trace[1].A != "Parse" || sc.Trace[1].Pinh == nil {
		return fmt.Errorf("behaviour does not start with Init, Parse")
	}
	nImp, nRes := 0, 0
	for _, s := range sc.Trace[2:] {
		switch s.A {
		case "Import":
			if nRes > 0 || s.Entry == nil {
				return fmt.Errorf("malformed Import step")
			}
			nImp++
		case "Resume":
			if s.Res == nil {
				return fmt.Errorf("malformed Resume step")
			}
			nRes++
		default:
			return fmt.Errorf("unknown step %q", s.A)
		}
	}
	if nImp != len(sc.Trace[1].Parsed) || nRes != len(sc.Trace[0].Items) {
		return fmt.Errorf("%d imports for %d parsed sessions, %d connections for %d items", nImp, len(sc.Trace[1].Parsed), nRes, len(sc.Trace[0].Items))
	}
	return nil
}
