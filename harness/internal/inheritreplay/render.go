package inheritreplay

import (
	"fmt"
	"strconv"
	"strings"
)

// Variant selects the concrete members of the model's abstract classes: the
// secrets, the session counter (keeps ids of parallel runs apart), how the
// parent's "other" secret differs, which environment variable names carry the
// texts in a child process.
type Variant struct {
	Seq      int    `json:"seq"`
	KeySeed  int64  `json:"key_seed"`
	Other    string `json:"other"`    // "flip" (one hex digit changed) | "fresh" (unrelated secret) | "trunc" (last character dropped)
	EnvNames string `json:"envnames"` // "plain" | "underscore" (_CONDOR_INHERIT, _CONDOR_PRIVATE_INHERIT)
	Child    bool   `json:"child"`    // run through a child process (environment path) instead of in process
	Now      int64  `json:"now,omitempty"`
}

// Ctx renders tokens to concrete text.
type rctx struct {
	v   Variant
	now int64
	k1  string
	k2  string
}

func hexSecret(seed int64, salt byte) string {
	// a deterministic 64 hex character secret (what GenerateSecuritySessionKey /
	// randomHexKey produce); splitmix64
	x := uint64(seed)*0x9E3779B97F4A7C15 + uint64(salt)*0xD1B54A32D192ED03 + 0x632BE59BD9B4E019
	var b strings.Builder
	for b.Len() < 64 {
		x += 0x9E3779B97F4A7C15
		z := x
		z = (z ^ (z >> 30)) * 0xBF58476D1CE4E5B9
		z = (z ^ (z >> 27)) * 0x94D049BB133111EB
		z ^= z >> 31
		b.WriteString(fmt.Sprintf("%016x", z))
	}
	return b.String()[:64]
}

func newRctx(v Variant, now int64) *rctx {
	return &rctx{v: v, now: now, k1: hexSecret(v.KeySeed, 1), k2: hexSecret(v.KeySeed, 2)}
}

const (
	parentPID  = 4242
	childAlive = 60008
)

var atoms = map[string]string{
	"ppid": strconv.Itoa(parentPID), "ip4:port": "127.0.0.1:9618", "ip4-port": "127.0.0.1-9618",
	"host": "master.example.org", "master_1_ab": "master_4242_ab12", ":port": ":9618",
	"sockdesc": "5*0*1*0*0", "<TAB>": "\t", "4711": "4711", "tail": "9f3c",
	"idP": "master.example.org", "idF": "family.example.org", "idX": "other.example.org",
}

func (r *rctx) atom(t string) string {
	switch t {
	case "k1":
		return r.k1
	case "k2":
		return r.k2
	case "seq":
		return strconv.Itoa(r.v.Seq)
	case "T+3600":
		return strconv.FormatInt(r.now+3600, 10)
	case "T-3600":
		return strconv.FormatInt(r.now-3600, 10)
	}
	if s, ok := atoms[t]; ok {
		return s
	}
	return t
}

func (r *rctx) render(t Toks) string {
	var b strings.Builder
	for _, x := range t {
		b.WriteString(r.atom(x))
	}
	return b.String()
}

// otherSecret is the secret a parent in relation "diff" holds instead of s.
func (r *rctx) otherSecret(s string) string {
	if s == "" {
		return "00"
	}
	switch r.v.Other {
	case "fresh":
		return hexSecret(r.v.KeySeed, 9)
	case "trunc":
		if len(s) > 1 {
			return s[:len(s)-1]
		}
	}
	p := int(uint64(r.v.KeySeed) % uint64(len(s)))
	c := s[p]
	i := strings.IndexByte("0123456789abcdef", c)
	repl := byte('0')
	if i >= 0 {
		repl = "0123456789abcdef"[(i+1)%16]
	} else if c == '0' {
		repl = '1'
	}
	return s[:p] + string(repl) + s[p+1:]
}

func redact(s string, r *rctx) string {
	s = strings.ReplaceAll(s, r.k1, "<k1>")
	return strings.ReplaceAll(s, r.k2, "<k2>")
}
