// Package strace is the code -> spec direction for stream objects: it collects
// the events emitted by the guarded hooks of /repo/stream (build tag verif),
// joins every FrameIn with the FrameSent that produced exactly those wire bytes
// (by fingerprint), groups the events per stream object and has TLC validate
// them against spec/StreamEndpoint_Trace.tla.
package strace

import (
	"bufio"
	"encoding/json"
	"fmt"
	"os"
	"os/exec"
	"path/filepath"
	"sort"
	"strings"
	"sync"

	"cedarverif/internal/core"
	"cedarverif/internal/kit"
	"cedarverif/internal/tlc"

	"github.com/bbockelm/cedar/stream"
)

type Event map[string]any

// Collector gathers hook events in memory (installed as stream.VerifSink).
type Collector struct {
	mu  sync.Mutex
	evs []Event
	// Max bounds the number of events kept (default 400 000). Events are appended
	// in real-time order under the lock, so cutting the collection at one point
	// in time keeps, for every recorded FrameIn, the FrameSent that produced its
	// bytes (a send is recorded before its bytes can be received), and leaves
	// every object with a PREFIX of its trace - which the specification also accepts.
	Max     int
	Dropped int64
}

func (c *Collector) add(e Event) {
	c.mu.Lock()
	max := c.Max
	if max == 0 {
		max = 400000
	}
	if len(c.evs) < max {
		c.evs = append(c.evs, e)
	} else {
		c.Dropped++
	}
	c.mu.Unlock()
}

func (c *Collector) Install() {
	stream.VerifSink = func(rec map[string]any) { c.add(Event(rec)) }
}

func (c *Collector) Uninstall() { stream.VerifSink = nil }

// AddSyntheticSend records a frame produced by the reference sealer so that the
// join can recognise it.
func (c *Collector) AddSyntheticSend(wh, k string, ctr uint32, prot bool) {
	c.add(Event{"ev": "RefSent", "wh": wh, "k": k, "ctr": ctr, "prot": prot})
}

func (c *Collector) Events() []Event {
	c.mu.Lock()
	defer c.mu.Unlock()
	return append([]Event(nil), c.evs...)
}

func num(v any) int64 {
	switch x := v.(type) {
	case float64:
		return int64(x)
	case int:
		return int64(x)
	case int64:
		return x
	case uint32:
		return int64(x)
	case uint64:
		return int64(x)
	case json.Number:
		n, _ := x.Int64()
		return n
	}
	return 0
}

func str(v any) string { s, _ := v.(string); return s }
func boo(v any) bool   { b, _ := v.(bool); return b }

// s32 re-reads a 32-bit counter as a signed 32-bit integer (TLC integers).
func s32(v any) int64 { return int64(int32(uint32(num(v)))) }

// LoadDir reads every *.ndjson file written by the hooks' file sink. Object ids
// are made unique per file.
func LoadDir(dir string) ([]Event, error) {
	files, _ := filepath.Glob(filepath.Join(dir, "*.ndjson"))
	sort.Strings(files)
	var out []Event
	for fi, f := range files {
		fh, err := os.Open(f)
		if err != nil {
			return nil, err
		}
		sc := bufio.NewScanner(fh)
		sc.Buffer(make([]byte, 1<<20), 1<<26)
		for sc.Scan() {
			var e Event
			if err := json.Unmarshal(sc.Bytes(), &e); err != nil {
				continue
			}
			e["o"] = float64(num(e["o"]) + int64(fi+1)*1_000_000)
			out = append(out, e)
		}
		fh.Close()
	}
	return out, nil
}

type sendRec struct {
	k    string
	ctr  int64
	prot bool
}

// Group is the trace of one stream object, ready for TLC.
type Group struct {
	Obj    int64
	Events []Event
}

// Signature is a run-independent description of the object's event sequence
// (no fingerprints of random material).
func (g *Group) Signature() string {
	var b strings.Builder
	for _, e := range g.Events {
		fmt.Fprintf(&b, "%s:%v:%v:%v:%v:%v;", str(e["ev"]), e["plen"], e["wlen"], e["sctr"], e["rctr"], e["enc"])
	}
	return b.String()
}

// Prepare joins and groups. strict: a protected frame accepted without a known
// producer is reported as known=true,prot=false (harness runs, where every frame
// has a known origin); otherwise unknown producers are not judged (hand-made
// test vectors in the repository's tests).
func Prepare(evs []Event, strict bool) []*Group {
	sends := map[string]sendRec{}
	for _, e := range evs {
		switch str(e["ev"]) {
		case "FrameSent":
			prot := boo(e["keyed"]) && boo(e["enc"])
			ctr := s32(e["sctr"])
			if prot {
				ctr-- // logged after the increment
			}
			sends[str(e["wh"])] = sendRec{k: str(e["k"]), ctr: ctr, prot: prot}
		case "RefSent":
			sends[str(e["wh"])] = sendRec{k: str(e["k"]), ctr: s32(e["ctr"]), prot: boo(e["prot"])}
		}
	}
	byObj := map[int64][]Event{}
	var order []int64
	for _, e := range evs {
		ev := str(e["ev"])
		if ev == "RefSent" {
			continue
		}
		o := num(e["o"])
		if _, ok := byObj[o]; !ok {
			order = append(order, o)
		}
		n := Event{"ev": ev, "keyed": boo(e["keyed"]), "enc": boo(e["enc"]), "k": str(e["k"]),
			"sctr": s32(e["sctr"]), "rctr": s32(e["rctr"]), "sfirst": boo(e["sfirst"]), "rfirst": boo(e["rfirst"]),
			"sbuf": num(e["sbuf"]), "rbuf": num(e["rbuf"]), "seom": boo(e["seom"]), "inmsg": boo(e["inmsg"]),
			"plen": num(e["plen"]), "wlen": num(e["wlen"]), "q": num(e["q"])}
		if ev == "FrameIn" {
			ann := map[string]any{"known": false, "prot": false, "k": "", "ctr": 0}
			if s, ok := sends[str(e["wh"])]; ok {
				ann = map[string]any{"known": true, "prot": s.prot, "k": s.k, "ctr": s.ctr}
			} else if strict {
				ann = map[string]any{"known": true, "prot": false, "k": "", "ctr": 0}
			}
			n["ann"] = ann
		}
		byObj[o] = append(byObj[o], n)
	}
	var out []*Group
	for _, o := range order {
		es := byObj[o]
		sort.SliceStable(es, func(i, j int) bool { return num(es[i]["q"]) < num(es[j]["q"]) })
		out = append(out, &Group{Obj: o, Events: es})
	}
	return out
}

// Rejection describes the first event TLC could not explain.
type Rejection struct {
	Group *Group
	Index int // index in Group.Events of the unexplained event
	Event Event
}

// Validate has TLC check all groups; rejected groups are removed and the rest
// re-validated, so every group gets a verdict. Returns accepted count and the
// rejections.
func Validate(c *core.Ctx, groups []*Group, label string) (accepted int, rej []Rejection) {
	remaining := groups
	for round := 0; round < 12 && len(remaining) > 0; round++ {
		var lines []any
		type pos struct{ g, i int }
		var index []pos
		for gi, g := range remaining {
			lines = append(lines, map[string]any{"ev": "Reset"})
			index = append(index, pos{gi, -1})
			for i, e := range g.Events {
				lines = append(lines, e)
				index = append(index, pos{gi, i})
			}
		}
		f := filepath.Join(c.Tmp, fmt.Sprintf("strace-%s-%d.ndjson", label, round))
		if err := tlc.WriteNDJSON(f, lines); err != nil {
			c.Broken("cannot write trace: %v", err)
			return accepted, rej
		}
		ok, res := kit.ValidateTrace(c, "StreamEndpoint_Trace.tla", "StreamEndpoint_Trace.cfg", f, tlc.Options{Timeout: 5 * 60e9})
		if res == nil {
			return accepted, rej
		}
		if ok {
			accepted += len(remaining)
			return accepted, rej
		}
		if !res.PostFalse {
			c.Broken("trace validation %s: TLC failed: %s", label, kit.FirstLines(res.ErrorText, 5))
			return accepted, rej
		}
		// lines consumed = depth-1 ; the unexplained line is number depth (1-based)
		bad := res.Depth - 1 // 0-based index into lines
		if bad < 0 || bad >= len(index) {
			c.Broken("trace validation %s: cannot locate rejection (depth %d of %d lines)", label, res.Depth, len(lines))
			return accepted, rej
		}
		p := index[bad]
		g := remaining[p.g]
		ri := p.i
		if ri < 0 {
			ri = 0
		}
		rej = append(rej, Rejection{Group: g, Index: ri, Event: g.Events[ri]})
		accepted += p.g // groups before the bad one were fully consumed
		remaining = remaining[p.g+1:]
	}
	return accepted, rej
}

// RunRepoTests runs the repository's own tests of the given packages with the
// hooks on and the file sink enabled, and returns the recorded events.
func RunRepoTests(c *core.Ctx, pkgs ...string) ([]Event, error) {
	dir := filepath.Join(c.Tmp, "repotrace")
	_ = os.RemoveAll(dir)
	if err := os.MkdirAll(dir, 0o755); err != nil {
		return nil, err
	}
	args := append([]string{"test", "-tags", "verif", "-vet=off", "-count=1"}, pkgs...)
	cmd := exec.Command("go", args...)
	cmd.Dir = core.RepoDir()
	cmd.Env = append(os.Environ(), "CEDAR_VERIF_TRACE_DIR="+dir, "GOFLAGS=-mod=mod", "GOPROXY=off")
	out, err := cmd.CombinedOutput()
	if err != nil {
		// a failing repository test is not a property verdict; the traces are still validated
		c.Note("repository tests with hooks on did not all pass: " + kit.FirstLines(string(out), 8))
	}
	return LoadDir(dir)
}
