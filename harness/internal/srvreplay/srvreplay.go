// Package srvreplay binds spec/Server.tla (property C05) to the real
// server.Server. A behaviour printed by Gen_Server is a script of client
// actions (Connect / FollowOn / Resume / Raw / reconfigurations) with the
// outcome the intended design expects. Run feeds the INPUTS to a real server
// over an in-memory connection, using the real client handshake
// (security.ClientHandshake), the real client with its ECDH public key blanked
// (skips key agreement) and a client without any authentication method, and
// records what really happened as a trace of events. The traces are judged by
// TLC against the permissive specification (Server_Trace.tla); the differences
// from the intended design are only counted.
package srvreplay

import (
	"bytes"
	"context"
	"encoding/json"
	"fmt"
	"io"
	"log/slog"
	"strings"
	"sync"
	"sync/atomic"
	"time"

	"cedarverif/internal/mempipe"

	"github.com/bbockelm/cedar/message"
	"github.com/bbockelm/cedar/security"
	"github.com/bbockelm/cedar/server"
	"github.com/bbockelm/cedar/stream"
)

func init() {
	// the security package narrates every handshake at Info level
	slog.SetDefault(slog.New(slog.NewTextHandler(io.Discard, &slog.HandlerOptions{Level: slog.Level(100)})))
}

// Concrete command integers of the specification's abstract commands.
var CmdInt = map[string]int{"R": 71001, "W": 71002, "A": 71003, "X": 71004, "U": 71005, "I": 71006}

var cmdName = map[int]string{71001: "R", 71002: "W", 71003: "A", 71004: "X", 71005: "U", 71006: "I"}

const (
	serverSinful = "<10.9.0.1:9618>"
	serverAddr   = "10.9.0.1:9618"
	claimDomain  = "c05dom.test" // travels in the CLAIMTOBE exchange: wire evidence that it ran
	ackCanary    = "C05-ACK-CANARY"
)

// Exp is the handshake outcome the intended design expects.
type Exp struct {
	Ok       bool `json:"ok"`
	AuthReal bool `json:"authReal"`
	EncReal  bool `json:"encReal"`
}

// Step is one record of a Gen_Server behaviour.
type Step struct {
	A      string          `json:"a"`
	Cmd    string          `json:"cmd,omitempty"`
	Kind   string          `json:"kind,omitempty"`
	Want   string          `json:"want,omitempty"`
	User   string          `json:"user,omitempty"`
	Sid    int             `json:"sid,omitempty"`
	T      int             `json:"t,omitempty"`
	Ptab   int             `json:"ptab,omitempty"`
	Atab   int             `json:"atab,omitempty"`
	Exp    json.RawMessage `json:"exp,omitempty"`
	Either bool            `json:"either,omitempty"`
	Lacks  string          `json:"lacks,omitempty"`
}

type Scenario struct {
	Trace []Step `json:"trace"`
}

// Event is one record of the trace handed to Server_Trace.tla (all fields always present).
type Event struct {
	E        string `json:"e"`
	Cmd      string `json:"cmd"`
	Kind     string `json:"kind"`
	Want     string `json:"want"`
	User     string `json:"user"`
	Ok       bool   `json:"ok"`
	AuthReal bool   `json:"authReal"`
	EncReal  bool   `json:"encReal"`
	Sid      int    `json:"sid"`
	T        int    `json:"t"`
	Reg      string `json:"reg"`
	// not read by the specification: what the server REPORTED, for the signature
	AuthFlag bool   `json:"authFlag"`
	EncFlag  bool   `json:"encFlag"`
	SrvUser  string `json:"srvUser"`
	Resumed  bool   `json:"resumed"`
	SessKind string `json:"sessKind"` // kind of the client that established the session in use
}

type TraceInit struct {
	Ptab int `json:"ptab"`
	Atab int `json:"atab"`
}

// Trace is one line of the ndjson file.
type Trace struct {
	ID   int       `json:"id"`
	Init TraceInit `json:"init"`
	Ev   []Event   `json:"ev"`
}

// Result of running one scenario against the real server.
type Result struct {
	Trace Trace
	// Deviations from the intended design (Permissive = FALSE), by class. Not violations.
	Deviations []string
	// Problems of the harness itself / physically inconsistent observations.
	Broken    []string
	Handlers  int // handler invocations observed
	Refusals  int // refusals observed (handshake or dispatch)
	Conns     int
	RealCalls int
	ByVia     map[string]int // handler invocations by path
}

// handlerObs is what a registered handler recorded when the server invoked it.
type handlerObs struct {
	reg      string // "auth" | "raw": how the invoked closure was registered
	cmd      int    // the command the closure was registered for
	cCommand int    // Conn.Command
	negNil   bool
	authFlag bool
	encFlag  bool
	user     string
	resumed  bool
	isEnc    bool // Conn.Stream.IsEncrypted()
	remote   string
	ackErr   error
}

// Policy / authorizer tables: transcriptions of Policy(t) / Perms / Authz(t) in Server.tla.
type levels struct{ auth, enc, integ security.SecurityLevel }

const (
	opt = security.SecurityOptional
	req = security.SecurityRequired
	prf = security.SecurityPreferred
)

func policyOf(t int, cmd string) levels {
	if t == 1 {
		switch cmd {
		case "W":
			return levels{req, opt, opt}
		case "A":
			return levels{req, req, req}
		case "I":
			return levels{opt, opt, req} // integrity only
		}
		return levels{opt, opt, opt}
	}
	switch cmd {
	case "R":
		return levels{opt, opt, req}
	case "W":
		return levels{req, prf, opt}
	case "A":
		return levels{prf, req, opt}
	case "I":
		return levels{opt, prf, req}
	}
	return levels{opt, opt, opt}
}

var perms = map[string][]string{"R": {"READ"}, "W": {"WRITE"}, "A": {"ADMIN", "DAEMON"}, "I": {"READ"}}

func authzOf(t int, user string) map[string]bool {
	set := func(l ...string) map[string]bool {
		m := map[string]bool{}
		for _, x := range l {
			m[x] = true
		}
		return m
	}
	if t == 1 {
		switch user {
		case "alice":
			return set("READ", "WRITE", "ADMIN")
		case "bob":
			return set("READ")
		}
		return set("READ")
	}
	switch user {
	case "alice":
		return set("READ")
	case "bob":
		return set("READ", "WRITE", "DAEMON")
	}
	return set()
}

var connSerial int64

// Timeouts. A correct server answers a command (handler or close) within
// milliseconds; the long wait is only ever exhausted by a server that neither
// runs a handler nor closes, which the specification rejects ("NoClose").
var (
	WaitLong  = 20 * time.Second
	waitShort = 2 * time.Second
	noCloseN  int64
)

type world struct {
	mu   sync.Mutex
	ptab int
	atab int

	srv       *server.Server
	base      *security.SecurityConfig
	addrUser  map[string]string // client host -> identity (FQUMapper)
	hch       chan handlerObs
	cache     *security.SessionCache   // the cache of the client now connecting (a fresh one per Connect)
	sidCache  []*security.SessionCache // model sid -> the client cache that holds it
	sids      []string                 // model sid -> real session id ("" = not learned)
	sidKind   []string                 // model sid -> kind of the client that established it
	srvSids   []string                 // to drop from the global cache afterwards
	res       *Result
	ctx       context.Context
	cancel    context.CancelFunc
	conn      *liveConn
	authorize func(perm, peerAddr, user string) bool
}

type liveConn struct {
	cli, srv  *mempipe.C05Conn
	st        *stream.Stream
	done      chan error
	returned  bool
	kind      string
	via       string
	refused   bool
	handlers  int
	encSeen   *bool
	connEvIdx int // index of the Connect/Resume event in the trace (-1: raw)
	sessKind  string
	probed    bool
}

func newWorld(res *Result) *world {
	w := &world{ptab: 1, addrUser: map[string]string{}, hch: make(chan handlerObs, 8),
		cache: security.NewSessionCache(), res: res}
	w.ctx, w.cancel = context.WithCancel(context.Background())
	w.base = &security.SecurityConfig{
		AuthMethods:    []security.AuthMethod{security.AuthClaimToBe},
		CryptoMethods:  []security.CryptoMethod{security.CryptoAES},
		Authentication: opt, Encryption: opt, Integrity: opt,
	}
	w.srv = server.New(w.base) // installs base.PostAuthPolicy
	w.srv.SecurityConfigForCommand = func(command int) *security.SecurityConfig {
		name, ok := cmdName[command]
		if !ok {
			return nil
		}
		w.mu.Lock()
		l := policyOf(w.ptab, name)
		w.mu.Unlock()
		c := *w.base // a daemon derives per-command policies from its default configuration
		c.Authentication, c.Encryption, c.Integrity = l.auth, l.enc, l.integ
		return &c
	}
	w.srv.FQUMapper = func(authUser, peerAddr string) string {
		host := peerAddr
		if i := strings.LastIndex(host, ":"); i >= 0 {
			host = host[:i]
		}
		w.mu.Lock()
		defer w.mu.Unlock()
		return w.addrUser[host]
	}
	w.authorize = func(perm, peerAddr, user string) bool {
		w.mu.Lock()
		t := w.atab
		w.mu.Unlock()
		if user == "" {
			user = "anon"
		}
		return authzOf(t, user)[perm]
	}
	for _, name := range []string{"R", "W", "A", "I"} {
		w.srv.Handle(CmdInt[name], w.handler("auth", CmdInt[name]), perms[name]...)
	}
	w.srv.HandleRaw(CmdInt["X"], w.handler("raw", CmdInt["X"]))
	return w
}

func (w *world) setAuthorizer(t int) {
	w.mu.Lock()
	w.atab = t
	w.mu.Unlock()
	// only ever called between connections: no ServeConn goroutine is running
	if t == 0 {
		w.srv.Authorizer = nil
	} else {
		w.srv.Authorizer = w.authorize
	}
}

// handler is what the harness registers on the real server: it records how it
// was invoked, answers with an acknowledgement carrying a canary (readable on
// the wire iff the stream does not encrypt) and asks for keep-alive.
func (w *world) handler(reg string, cmd int) server.HandlerFunc {
	return func(ctx context.Context, c *server.Conn) error {
		o := handlerObs{reg: reg, cmd: cmd, cCommand: c.Command, negNil: c.Negotiation == nil,
			isEnc: c.Stream.IsEncrypted(), remote: c.RemoteAddr}
		if n := c.Negotiation; n != nil {
			o.authFlag, o.encFlag, o.user, o.resumed = n.Authentication, n.Encryption, n.User, n.SessionResumed
		}
		m := message.NewMessageForStream(c.Stream)
		err := m.PutString(ctx, fmt.Sprintf("%s:%d", ackCanary, cmd))
		if err == nil {
			err = m.FinishMessage(ctx)
		}
		o.ackErr = err
		c.KeepAlive()
		w.hch <- o
		return nil
	}
}

func clientAddrFor(user string) string {
	n := atomic.AddInt64(&connSerial, 1)
	host := "10.1.0.9"
	switch user {
	case "alice":
		host = "10.1.0.1"
	case "bob":
		host = "10.1.0.2"
	}
	return fmt.Sprintf("%s:%d", host, 20000+n%40000)
}

func (w *world) open(user, kind, via string) *liveConn {
	w.closeConn()
	cli, srv := mempipe.C05Pipe(clientAddrFor(user), serverAddr)
	lc := &liveConn{cli: cli, srv: srv, done: make(chan error, 1), kind: kind, via: via, connEvIdx: -1}
	lc.st = stream.NewStream(cli)
	lc.st.SetPeerAddr(serverSinful)
	w.res.Conns++
	go func() {
		var err error
		func() {
			defer func() {
				if r := recover(); r != nil {
					err = fmt.Errorf("server panic: %v", r)
					_ = srv.Close()
				}
			}()
			err = w.srv.ServeConn(w.ctx, srv)
		}()
		lc.done <- err
	}()
	w.conn = lc
	return lc
}

// closeConn: the client hangs up; the server goroutine must come back.
func (w *world) closeConn() {
	lc := w.conn
	if lc == nil {
		return
	}
	w.conn = nil
	_ = lc.cli.Close()
	if !lc.returned {
		select {
		case <-lc.done:
		case <-time.After(WaitLong):
			w.res.Broken = append(w.res.Broken, "ServeConn did not return after the client closed")
		}
	}
	// a handler that was still running when we hung up
	for {
		select {
		case <-w.hch:
			continue
		default:
		}
		break
	}
}

type outcome int

const (
	outHandler outcome = iota
	outClosed
	outNoClose
)

// await waits for the server's answer to the command just sent: a handler
// invocation, or the end of ServeConn.
func (w *world) await(lc *liveConn) (outcome, *handlerObs) {
	d := WaitLong
	if atomic.LoadInt64(&noCloseN) >= 3 {
		d = waitShort
	}
	if lc.returned {
		if lc.srv.IsClosed() {
			return outClosed, nil
		}
		return outNoClose, nil
	}
	select {
	case o := <-w.hch:
		lc.handlers++
		// keep the client's stream in step: read the acknowledgement
		w.readAck(lc, &o)
		return outHandler, &o
	case <-lc.done:
		lc.returned = true
		// a handler may have run just before ServeConn ended (raw path)
		select {
		case o := <-w.hch:
			lc.handlers++
			w.readAck(lc, &o)
			return outHandler, &o
		default:
		}
		if lc.srv.IsClosed() {
			return outClosed, nil
		}
		return outNoClose, nil
	case <-time.After(d):
		atomic.AddInt64(&noCloseN, 1)
		return outNoClose, nil
	}
}

func (w *world) readAck(lc *liveConn, o *handlerObs) {
	if o.ackErr != nil {
		w.res.Broken = append(w.res.Broken, fmt.Sprintf("handler could not send its acknowledgement: %v", o.ackErr))
		return
	}
	_ = lc.cli.SetReadDeadline(time.Now().Add(WaitLong))
	s, err := message.NewMessageFromStream(lc.st).GetString(w.ctx)
	_ = lc.cli.SetReadDeadline(time.Time{})
	want := fmt.Sprintf("%s:%d", ackCanary, o.cmd)
	clientReads := err == nil && s == want
	plainOnWire := bytes.Contains(lc.srv.Sent(), []byte(want))
	// ground truth for "really encrypted": the server's stream says it encrypts
	// AND the acknowledgement is not legible on the wire; the two must agree.
	if o.isEnc == plainOnWire {
		w.res.Broken = append(w.res.Broken, fmt.Sprintf("inconsistent observation: Stream.IsEncrypted()=%v but acknowledgement legible on the wire=%v", o.isEnc, plainOnWire))
	}
	if !clientReads && lc.kind != "skipsKeyAgreement" {
		// both ends are expected to share the channel state (same key or none)
		w.res.Broken = append(w.res.Broken, fmt.Sprintf("client could not read the handler's acknowledgement (%q, %v)", s, err))
	}
}

func (w *world) clientCfg(kind, want string, cmd int) *security.SecurityConfig {
	// every fresh connection comes from a client without cached sessions: with
	// one the real client would resume instead of negotiating (that is Resume)
	w.cache = security.NewSessionCache()
	cfg := &security.SecurityConfig{
		PeerName:      serverSinful,
		CryptoMethods: []security.CryptoMethod{security.CryptoAES},
		Command:       cmd,
		SessionCache:  w.cache,
		TrustDomain:   claimDomain,
		Integrity:     opt,
	}
	if kind == "noCipher" {
		cfg.CryptoMethods = nil // no cipher in common with the server: the session cannot be keyed
	}
	lvl := opt
	switch want {
	case "strong":
		lvl = req
	case "prefer":
		lvl = prf
	}
	cfg.Encryption = lvl
	if kind == "unauthenticated" {
		cfg.Authentication = opt // proves nothing: no method, no credential
	} else {
		cfg.Authentication = lvl
		cfg.AuthMethods = []security.AuthMethod{security.AuthClaimToBe}
	}
	return cfg
}

func (w *world) ev(e Event) int {
	w.res.Trace.Ev = append(w.res.Trace.Ev, e)
	return len(w.res.Trace.Ev) - 1
}

func (w *world) dev(format string, a ...any) {
	w.res.Deviations = append(w.res.Deviations, fmt.Sprintf(format, a...))
}

// Run executes one scenario against a fresh real server.
func Run(sc *Scenario, id int) *Result {
	res := &Result{ByVia: map[string]int{}}
	res.Trace.ID = id
	res.Trace.Ev = []Event{}
	w := newWorld(res)
	defer func() {
		w.closeConn()
		w.cancel()
		g := security.GetSessionCache()
		for _, s := range w.srvSids {
			g.Invalidate(s)
		}
	}()
	steps := sc.Trace
	for i := 0; i < len(steps); i++ {
		s := steps[i]
		// the Dispatch record that follows a command-carrying step holds the expected decision
		var disp *Step
		if i+1 < len(steps) && steps[i+1].A == "Dispatch" {
			disp = &steps[i+1]
		}
		switch s.A {
		case "Init":
			w.ptab = s.Ptab
			w.setAuthorizer(s.Atab)
			res.Trace.Init = TraceInit{Ptab: s.Ptab, Atab: s.Atab}
		case "ChangePolicy":
			w.closeConn()
			w.mu.Lock()
			w.ptab = s.T
			w.mu.Unlock()
			w.ev(Event{E: "ChangePolicy", T: s.T})
		case "ChangeAuthorizer":
			w.closeConn()
			w.setAuthorizer(s.T)
			w.ev(Event{E: "ChangeAuthorizer", T: s.T})
		case "Connect":
			w.connect(s, disp)
		case "Resume":
			w.resume(s, disp)
		case "Raw":
			w.raw(s, disp)
		case "FollowOn":
			w.followOn(s.Cmd, disp, false)
		case "Dispatch":
			// consumed together with the step before it
		case "EndConn":
			w.probeAfterRefusal()
			w.closeConn()
		default:
			res.Broken = append(res.Broken, "unknown step "+s.A)
		}
	}
	return res
}

// afterCommand records the server's answer to a command and compares it with
// the intended design's expectation (a difference is only counted).
func (w *world) afterCommand(lc *liveConn, via, cmd string, disp *Step, probe bool) (outcome, *handlerObs) {
	w.res.RealCalls++
	out, o := w.await(lc)
	expRun := disp != nil && (disp.Exp != nil) && (string(disp.Exp) == `"run"` || string(disp.Exp) == `"runraw"`)
	switch out {
	case outHandler:
		w.res.Handlers++
		w.res.ByVia[via]++
		name := cmdName[o.cmd]
		if o.cmd != o.cCommand {
			w.res.Broken = append(w.res.Broken, fmt.Sprintf("handler registered for %d invoked with Conn.Command=%d", o.cmd, o.cCommand))
		}
		if o.negNil != (lc.via == "raw") {
			w.res.Broken = append(w.res.Broken, "Conn.Negotiation nil-ness does not match the path the client used")
		}
		if lc.encSeen == nil {
			b := o.isEnc
			lc.encSeen = &b
		} else if *lc.encSeen != o.isEnc {
			w.res.Broken = append(w.res.Broken, "Stream.IsEncrypted() changed between two handlers of one connection")
		}
		w.ev(Event{E: "Handler", Cmd: name, Reg: o.reg, EncReal: o.isEnc, AuthFlag: o.authFlag,
			EncFlag: o.encFlag, SrvUser: o.user, Resumed: o.resumed, Kind: lc.kind, SessKind: lc.sessKind})
		if disp != nil && !expRun {
			w.dev("dispatch %s via %s client %s: intended design refuses (lacks %s), real server ran the handler", cmd, via, lc.kind, disp.Lacks)
		}
	case outClosed:
		lc.refused = true
		w.res.Refusals++
		w.ev(Event{E: "Closed", Cmd: cmd, Kind: lc.kind})
		if disp != nil && expRun && !probe {
			w.dev("dispatch %s via %s client %s: intended design runs the handler, real server refused", cmd, via, lc.kind)
		}
	case outNoClose:
		lc.refused = true
		w.ev(Event{E: "NoClose", Cmd: cmd, Kind: lc.kind})
	}
	return out, o
}

func parseExp(raw json.RawMessage) Exp {
	var e Exp
	_ = json.Unmarshal(raw, &e)
	return e
}

func (w *world) connect(s Step, disp *Step) {
	lc := w.open(s.User, s.Kind, "fresh")
	lc.sessKind = s.Kind
	host := strings.Split(lc.cli.LocalAddr().String(), ":")[0]
	if s.Kind != "unauthenticated" {
		w.mu.Lock()
		w.addrUser[host] = s.User
		w.mu.Unlock()
	}
	cfg := w.clientCfg(s.Kind, s.Want, CmdInt[s.Cmd])
	auth := security.NewAuthenticator(cfg, lc.st)
	if s.Kind == "skipsKeyAgreement" {
		cfg.ECDHPublicKey = "" // the client never sends its half of the key agreement
	}
	w.res.RealCalls++
	_ = lc.cli.SetReadDeadline(time.Now().Add(WaitLong))
	neg, err := auth.ClientHandshake(w.ctx)
	_ = lc.cli.SetReadDeadline(time.Time{})
	exp := parseExp(s.Exp)

	// the Connect event is completed once the first dispatch has been observed
	idx := w.ev(Event{E: "Connect", Cmd: s.Cmd, Kind: s.Kind, Want: s.Want, User: s.User})
	lc.connEvIdx = idx
	var out outcome
	var o *handlerObs
	if err != nil {
		// a client whose own handshake failed may still have been served (the
		// server does not wait for it): give the server a moment to show it
		out, o = w.awaitAfterClientError(lc, s.Cmd, disp)
	} else {
		out, o = w.afterCommand(lc, lc.via, s.Cmd, disp, false)
	}
	ev := &w.res.Trace.Ev[idx]
	ev.Ok = err == nil || out == outHandler
	// ground truth, independent of what the server reports
	claimSeen := bytes.Contains(lc.cli.Sent(), []byte("@"+claimDomain))
	ev.AuthReal = ev.Ok && s.Kind != "unauthenticated" && claimSeen
	switch {
	case o != nil:
		ev.EncReal = o.isEnc
		ev.AuthFlag, ev.EncFlag = o.authFlag, o.encFlag
		if o.authFlag && !ev.AuthReal {
			// reported authenticated although no authentication exchange crossed the wire
			w.dev("connect %s client %s: server reports Authentication=true but no method exchange was seen on the wire", s.Cmd, s.Kind)
		}
		if ev.AuthReal && o.user != s.User {
			w.dev("connect %s client %s: server attributes identity %q, the client proved %q", s.Cmd, s.Kind, o.user, s.User)
		}
	case ev.Ok:
		ev.EncReal = lc.st.IsEncrypted() && s.Kind != "skipsKeyAgreement" && s.Kind != "noCipher" &&
			!bytes.Contains(lc.srv.Sent(), []byte("ValidCommands"))
	}
	if !ev.Ok {
		ev.AuthReal, ev.EncReal = false, false
		lc.refused = true
		if out != outHandler && out != outClosed {
			// handshake refused: the server must have closed
		}
	}
	if ev.Ok {
		sid := ""
		if neg != nil {
			sid = neg.SessionId
		}
		w.sids = append(w.sids, sid)
		w.sidKind = append(w.sidKind, s.Kind)
		w.sidCache = append(w.sidCache, w.cache)
		if sid != "" {
			w.srvSids = append(w.srvSids, sid)
		}
		ev.Sid = len(w.sids)
	}
	if ev.Ok != exp.Ok {
		w.dev("connect %s client %s/%s: intended design ok=%v, real ok=%v", s.Cmd, s.Kind, s.Want, exp.Ok, ev.Ok)
	} else if ev.Ok && (ev.AuthReal != exp.AuthReal || ev.EncReal != exp.EncReal) {
		w.dev("connect %s client %s/%s: intended design auth=%v enc=%v, real auth=%v enc=%v", s.Cmd, s.Kind, s.Want, exp.AuthReal, exp.EncReal, ev.AuthReal, ev.EncReal)
	}
}

// awaitAfterClientError handles a client-side handshake error. Normally the
// server refused (it has closed, or closes as soon as the client hangs up). A
// client that gave up on its own (e.g. it noticed the missing key) may
// nevertheless have been served.
func (w *world) awaitAfterClientError(lc *liveConn, cmd string, disp *Step) (outcome, *handlerObs) {
	// The client sends nothing more: half-close its sending direction. A server
	// that refused has closed already; a server that went on regardless (it does
	// not wait for the client) can still write, runs whatever it runs, then reads
	// end-of-file and returns. Either way ServeConn comes back promptly.
	lc.cli.CloseWrite()
	if !lc.returned {
		select {
		case <-lc.done:
			lc.returned = true
		case <-time.After(WaitLong):
			w.res.Broken = append(w.res.Broken, "ServeConn did not return after the client gave up")
		}
	}
	lc.refused = true
	lc.probed = true // the client cannot continue on a failed handshake
	var first *handlerObs
	for {
		select {
		case o := <-w.hch:
			lc.handlers++
			w.res.Handlers++
			w.res.ByVia[lc.via]++
			b := o.isEnc
			lc.encSeen = &b
			w.ev(Event{E: "Handler", Cmd: cmdName[o.cmd], Reg: o.reg, EncReal: o.isEnc, AuthFlag: o.authFlag,
				EncFlag: o.encFlag, SrvUser: o.user, Resumed: o.resumed, Kind: lc.kind, SessKind: lc.sessKind})
			w.dev("connect %s client %s: the client's handshake failed but the server ran the handler", cmd, lc.kind)
			if first == nil {
				oo := o
				first = &oo
			}
			continue
		default:
		}
		break
	}
	if first != nil {
		return outHandler, first
	}
	w.res.Refusals++
	return outClosed, nil
}

func (w *world) resume(s Step, disp *Step) {
	if s.Sid < 1 || s.Sid > len(w.sids) || w.sids[s.Sid-1] == "" {
		// the session was never established (or the client never learned its id)
		w.dev("resume of session %d skipped: no such session on the real side", s.Sid)
		// swallow the follow-ons of this connection: there is none
		w.closeConn()
		w.conn = nil
		return
	}
	lc := w.open("resumer", "resumer", "resumed")
	cfg := &security.SecurityConfig{Command: CmdInt[s.Cmd], PeerName: serverSinful,
		SessionCache: w.sidCache[s.Sid-1], SessionID: w.sids[s.Sid-1]}
	auth := security.NewAuthenticator(cfg, lc.st)
	w.res.RealCalls++
	_ = lc.cli.SetReadDeadline(time.Now().Add(WaitLong))
	_, err := auth.ClientHandshake(w.ctx)
	_ = lc.cli.SetReadDeadline(time.Time{})
	idx := w.ev(Event{E: "Resume", Cmd: s.Cmd, Sid: s.Sid, Kind: "resumer", SessKind: w.sidKind[s.Sid-1]})
	lc.sessKind = w.sidKind[s.Sid-1]
	lc.connEvIdx = idx
	var out outcome
	var o *handlerObs
	if err != nil {
		out, o = w.awaitAfterClientError(lc, s.Cmd, disp)
	} else {
		out, o = w.afterCommand(lc, lc.via, s.Cmd, disp, false)
	}
	ev := &w.res.Trace.Ev[idx]
	ev.Ok = err == nil || out == outHandler
	if o != nil {
		ev.EncReal = o.isEnc
		ev.AuthFlag, ev.EncFlag = o.authFlag, o.encFlag
	} else if ev.Ok {
		ev.EncReal = lc.st.IsEncrypted()
	}
	if !ev.Ok {
		lc.refused = true
		if !s.Either {
			w.dev("resume %s of session %d: intended design resumes, real server refused (%v)", s.Cmd, s.Sid, err)
		}
		if err != nil && security.IsSessionResumptionError(err) {
			// the client dropped the session from its cache
			if _, still := w.sidCache[s.Sid-1].Lookup(w.sids[s.Sid-1]); !still {
				w.sids[s.Sid-1] = ""
			}
		}
	}
}

func (w *world) raw(s Step, disp *Step) {
	lc := w.open("raw", "raw", "raw")
	m := message.NewMessageForStream(lc.st)
	err := m.PutInt(w.ctx, CmdInt[s.Cmd])
	if err == nil {
		err = m.FinishMessage(w.ctx)
	}
	if err != nil {
		w.res.Broken = append(w.res.Broken, fmt.Sprintf("cannot send raw command: %v", err))
		return
	}
	w.ev(Event{E: "Raw", Cmd: s.Cmd, Kind: "raw"})
	w.afterCommand(lc, lc.via, s.Cmd, disp, false)
}

func (w *world) followOn(cmd string, disp *Step, probe bool) {
	lc := w.conn
	if lc == nil {
		return
	}
	m := message.NewMessageForStream(lc.st)
	err := m.PutInt(w.ctx, CmdInt[cmd])
	if err == nil {
		err = m.FinishMessage(w.ctx)
	}
	if err != nil {
		// the connection is gone (the server hung up, or this client gave up on its
		// handshake): the command never left, so nothing happened and no event is recorded
		if !lc.refused && !lc.returned {
			w.res.Broken = append(w.res.Broken, fmt.Sprintf("cannot send follow-on command on a live connection: %v", err))
		}
		return
	}
	w.ev(Event{E: "FollowOn", Cmd: cmd, Kind: lc.kind})
	if lc.refused && lc.returned && lc.srv.IsClosed() {
		// written into a connection the server has closed; give a handler the chance to show up anyway
		select {
		case o := <-w.hch:
			w.res.Handlers++
			w.ev(Event{E: "Handler", Cmd: cmdName[o.cmd], Reg: o.reg, EncReal: o.isEnc, AuthFlag: o.authFlag,
				EncFlag: o.encFlag, SrvUser: o.user, Resumed: o.resumed, Kind: lc.kind, SessKind: lc.sessKind})
		case <-time.After(5 * time.Millisecond):
			w.ev(Event{E: "Closed", Cmd: cmd, Kind: lc.kind})
		}
		return
	}
	w.afterCommand(lc, "followon", cmd, disp, probe)
}

// probeAfterRefusal: after anything was refused on a connection the client
// sends one more (harmless) command; no handler may run.
func (w *world) probeAfterRefusal() {
	lc := w.conn
	if lc == nil || !lc.refused || lc.probed || lc.via == "raw" {
		return
	}
	lc.probed = true
	w.followOn("R", nil, true)
}
