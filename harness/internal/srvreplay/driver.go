package srvreplay

import (
	"bufio"
	"encoding/json"
	"fmt"
	"os"
	"path/filepath"
	"sort"
	"strings"
	"sync"

	"cedarverif/internal/core"
	"cedarverif/internal/kit"
	"cedarverif/internal/tlc"
)

// Rejection is one entry of the verdict printed by Server_Trace.tla.
type Rejection struct {
	ID     int `json:"id"`
	Step   int `json:"step"` // 1-based index of the rejected event
	Reason struct {
		Why   string `json:"why"`
		Lacks string `json:"lacks"`
	} `json:"reason"`
	Via  string `json:"via"`
	Kind string `json:"kind"`
	Ptab int    `json:"ptab"`
	Atab int    `json:"atab"`
}

type verdict struct {
	Trace struct {
		N        int         `json:"n"`
		Rejected []Rejection `json:"rejected"`
	} `json:"trace"`
}

func Parse(c *core.Ctx, raws []json.RawMessage) []*Scenario {
	var out []*Scenario
	for _, r := range raws {
		var sc Scenario
		if err := json.Unmarshal(r, &sc); err != nil {
			c.Broken("bad scenario JSON: %v", err)
			return nil
		}
		out = append(out, &sc)
	}
	return out
}

// RunAll executes every scenario against a real server (in parallel).
func RunAll(scs []*Scenario, workers int) []*Result {
	out := make([]*Result, len(scs))
	core.ParallelFor(len(scs), workers, func(i int) {
		out[i] = Run(scs[i], i+1)
	})
	return out
}

// Validate hands the recorded traces to TLC (Server_Trace.tla, permissive
// specification) and returns the rejections by trace id. nil, false = machinery problem.
func Validate(c *core.Ctx, results []*Result, label string) (map[int]Rejection, bool) {
	const chunk = 2500
	rej := map[int]Rejection{}
	var mu sync.Mutex
	ok := true
	var chunks [][]*Result
	for i := 0; i < len(results); i += chunk {
		j := i + chunk
		if j > len(results) {
			j = len(results)
		}
		chunks = append(chunks, results[i:j])
	}
	core.ParallelFor(len(chunks), 4, func(k int) {
		part := chunks[k]
		file := filepath.Join(c.Tmp, fmt.Sprintf("c05-traces-%s-%d.ndjson", label, k))
		f, err := os.Create(file)
		if err != nil {
			c.Broken("cannot write trace file: %v", err)
			mu.Lock()
			ok = false
			mu.Unlock()
			return
		}
		bw := bufio.NewWriter(f)
		enc := json.NewEncoder(bw)
		for _, r := range part {
			_ = enc.Encode(r.Trace)
		}
		_ = bw.Flush()
		_ = f.Close()
		good, res := kit.ValidateTrace(c, "Server_Trace.tla", "Server_Trace.cfg", file, tlc.Options{})
		fail := func(format string, a ...any) {
			c.Broken(format, a...)
			mu.Lock()
			ok = false
			mu.Unlock()
		}
		if res == nil {
			fail("trace validation did not run")
			return
		}
		if !good {
			fail("TLC failed on the recorded traces: %s %s", res.Violated, kit.FirstLines(res.ErrorText, 8))
			return
		}
		if len(res.Scenarios) != 1 {
			fail("trace validation printed %d verdicts, expected 1", len(res.Scenarios))
			return
		}
		var v verdict
		if err := json.Unmarshal(res.Scenarios[0], &v); err != nil {
			fail("unreadable verdict: %v", err)
			return
		}
		if v.Trace.N != len(part) {
			fail("TLC consumed %d traces of %d", v.Trace.N, len(part))
			return
		}
		mu.Lock()
		for _, r := range v.Trace.Rejected {
			rej[r.ID] = r
		}
		mu.Unlock()
	})
	return rej, ok
}

// Signature: the abstract behaviour the specification rejected.
func Signature(r Rejection, ev Event) map[string]string {
	sig := map[string]string{
		"spec": "Server", "action": ev.E, "why": r.Reason.Why, "lacks": r.Reason.Lacks,
		"via": r.Via, "client": r.Kind,
	}
	if r.Via == "resumed" || (r.Via == "followon" && r.Kind == "resumer") {
		sig["session_client"] = ev.SessKind
	}
	if r.Reason.Lacks == "enc" {
		sig["reported_enc"] = fmt.Sprint(ev.EncFlag)
		sig["stream_encrypted"] = fmt.Sprint(ev.EncReal)
	}
	if r.Reason.Lacks == "auth" {
		sig["reported_auth"] = fmt.Sprint(ev.AuthFlag)
	}
	return sig
}

func describe(r Rejection, ev Event) string {
	l := policyOf(r.Ptab, ev.Cmd)
	return fmt.Sprintf("server ran/handled %s for command %s (policy table %d: auth=%s enc=%s integ=%s; authorizer table %d) via %s, client %s: specification rejects it: %s (lacks %s). Server reported Authentication=%v Encryption=%v User=%q resumed=%v; Stream.IsEncrypted()=%v",
		ev.E, ev.Cmd, r.Ptab, l.auth, l.enc, l.integ, r.Atab, r.Via, r.Kind, r.Reason.Why, r.Reason.Lacks,
		ev.AuthFlag, ev.EncFlag, ev.SrvUser, ev.Resumed, ev.EncReal)
}

// Stats aggregated over a run.
type Stats struct {
	Handlers, Refusals, Conns, RealCalls int64
	ByVia                                map[string]int64
	Deviations                           map[string]int64
	Accepted                             int64
}

// Check runs the scenarios, validates the traces, confirms every rejection by
// an immediate second run (DESIGN section 5 (ii)) and records failures.
func Check(c *core.Ctx, scs []*Scenario, st *Stats) {
	if st.ByVia == nil {
		st.ByVia = map[string]int64{}
		st.Deviations = map[string]int64{}
	}
	results := RunAll(scs, 16)
	for i, r := range results {
		key, _ := json.Marshal(scs[i])
		c.Eval(string(key), r.Handlers+r.Refusals > 0)
		st.Handlers += int64(r.Handlers)
		st.Refusals += int64(r.Refusals)
		st.Conns += int64(r.Conns)
		st.RealCalls += int64(r.RealCalls)
		for k, v := range r.ByVia {
			st.ByVia[k] += int64(v)
		}
		for _, d := range r.Deviations {
			st.Deviations[classOf(d)]++
		}
		for _, b := range r.Broken {
			c.Broken("scenario %d: %s", i+1, b)
		}
	}
	if c.IsBroken() {
		return
	}
	rej, ok := Validate(c, results, "a")
	if !ok {
		return
	}
	st.Accepted += int64(len(results) - len(rej))
	if len(rej) == 0 {
		return
	}
	// second run of the rejected scenarios
	ids := make([]int, 0, len(rej))
	for id := range rej {
		ids = append(ids, id)
	}
	sort.Ints(ids)
	again := make([]*Scenario, len(ids))
	for k, id := range ids {
		again[k] = scs[id-1]
	}
	results2 := RunAll(again, 16)
	for k := range results2 {
		for _, b := range results2[k].Broken {
			c.Broken("scenario %d (second run): %s", ids[k], b)
		}
	}
	rej2, ok := Validate(c, results2, "b")
	if !ok {
		return
	}
	for k, id := range ids {
		r1 := rej[id]
		r2, again := rej2[k+1]
		if !again || r2.Reason != r1.Reason || r2.Step != r1.Step {
			c.Broken("rejection of scenario %d (%s/%s at event %d) did not reproduce on an immediate second run", id, r1.Reason.Why, r1.Reason.Lacks, r1.Step)
			continue
		}
		ev := results[id-1].Trace.Ev[r1.Step-1]
		if strings.HasPrefix(r1.Reason.Why, "obs-") {
			c.Broken("scenario %d: the recorded trace contains an observation the specification cannot interpret (%s %s at event %d: %+v)", id, r1.Reason.Why, r1.Reason.Lacks, r1.Step, ev)
			continue
		}
		c.Fail(core.Failure{Signature: Signature(r1, ev), Detail: describe(r1, ev),
			Scenario: map[string]any{"kind": "Server", "trace": scs[id-1].Trace, "observed": results[id-1].Trace.Ev}})
	}
}

// classOf strips the concrete command from a deviation so that they can be counted by class.
func classOf(d string) string {
	f := strings.Fields(d)
	if len(f) > 2 && (f[0] == "dispatch" || f[0] == "connect" || f[0] == "resume") {
		f[1] = "*"
	}
	s := strings.Join(f, " ")
	if i := strings.Index(s, " (lacks"); i > 0 && strings.HasPrefix(s, "dispatch") {
		return s
	}
	if i := strings.Index(s, ": no such session"); i > 0 {
		return "resume skipped: no such session on the real side"
	}
	if strings.HasPrefix(s, "resume * of session") {
		if j := strings.Index(s, "real server refused"); j > 0 {
			return s[:j+len("real server refused")]
		}
	}
	return s
}

// ReplayFile re-runs one recorded failure.
func ReplayFile(c *core.Ctx) bool {
	if c.Replay == "" {
		return false
	}
	b, err := os.ReadFile(c.Replay)
	if err != nil {
		c.Broken("cannot read replay file: %v", err)
		return true
	}
	var rf struct {
		Scenario struct {
			Kind  string `json:"kind"`
			Trace []Step `json:"trace"`
		} `json:"scenario"`
	}
	if err := json.Unmarshal(b, &rf); err != nil || rf.Scenario.Kind != "Server" {
		c.Broken("not a C05 replay file")
		return true
	}
	var st Stats
	Check(c, []*Scenario{{Trace: rf.Scenario.Trace}}, &st)
	c.Add("traces_validated_against_impl", st.Accepted)
	return true
}
