package srvreplay

import (
	"bufio"
	"context"
	"encoding/json"
	"fmt"
	"os"
	"os/exec"
	"path/filepath"
	"time"

	"cedarverif/internal/core"
	"cedarverif/internal/kit"
	"cedarverif/internal/tlc"
)

// RepoTestTraces (thorough tier): run the repository's own server tests with
// the guarded Dispatch hook recording (build tag verif), and let TLC judge
// every recorded handler invocation against the guard of Server!Run
// (ServerDispatch_Trace.tla). Problems running the tests are noted, not fatal:
// the harness-driven traces are the check; this only widens the observed set.
func RepoTestTraces(c *core.Ctx) {
	repo := os.Getenv("CEDAR_REPO")
	if repo == "" {
		repo = "/repo"
	}
	dir := filepath.Join(c.Tmp, "c05-repotests")
	_ = os.MkdirAll(dir, 0o755)
	ctx, cancel := context.WithTimeout(context.Background(), 6*time.Minute)
	defer cancel()
	cmd := exec.CommandContext(ctx, "go", "test", "-tags", "verif", "-count=1", "-vet=off", "./server/")
	cmd.Dir = repo
	cmd.Env = append(os.Environ(), "CEDAR_VERIF_TRACE_DIR="+dir, "GOFLAGS=-mod=mod", "GOPROXY=off")
	out, err := cmd.CombinedOutput()
	if err != nil {
		c.Note(fmt.Sprintf("repository server tests did not pass under the verif tag (%v): their Dispatch events are still validated; output tail: %s", err, tail(string(out), 300)))
	}
	files, _ := filepath.Glob(filepath.Join(dir, "server-*.ndjson"))
	var evs []map[string]any
	for _, f := range files {
		fh, err := os.Open(f)
		if err != nil {
			continue
		}
		sc := bufio.NewScanner(fh)
		sc.Buffer(make([]byte, 1<<16), 1<<24)
		for sc.Scan() {
			var rec map[string]any
			if json.Unmarshal(sc.Bytes(), &rec) != nil || rec["ev"] != "Dispatch" {
				continue
			}
			n := map[string]any{}
			for _, k := range []string{"registered", "raw", "auth", "streamEnc", "authorizer", "authorizedNow", "followOn", "resumed"} {
				b, _ := rec[k].(bool)
				n[k] = b
			}
			for _, k := range []string{"path", "reqAuth", "reqEnc", "reqInt"} {
				s, _ := rec[k].(string)
				n[k] = s
			}
			f, _ := rec["cmd"].(float64)
			n["cmd"] = int(f)
			evs = append(evs, n)
		}
		_ = fh.Close()
	}
	if len(evs) == 0 {
		c.Note("no Dispatch events were recorded from the repository's server tests (hook absent or tests did not run)")
		return
	}
	file := filepath.Join(c.Tmp, "c05-repotests.ndjson")
	anyEvs := make([]any, len(evs))
	for i := range evs {
		anyEvs[i] = evs[i]
	}
	if err := tlc.WriteNDJSON(file, anyEvs); err != nil {
		c.Broken("cannot write the repository-test trace: %v", err)
		return
	}
	good, res := kit.ValidateTrace(c, "ServerDispatch_Trace.tla", "ServerDispatch_Trace.cfg", file, tlc.Options{})
	if res == nil || !good || len(res.Scenarios) != 1 {
		c.Broken("TLC failed on the repository-test Dispatch events")
		return
	}
	var v struct {
		Trace struct {
			N        int `json:"n"`
			Rejected []struct {
				Idx   int    `json:"idx"`
				Lacks string `json:"lacks"`
			} `json:"rejected"`
		} `json:"trace"`
	}
	if err := json.Unmarshal(res.Scenarios[0], &v); err != nil || v.Trace.N != len(evs) {
		c.Broken("unreadable verdict for the repository-test Dispatch events")
		return
	}
	c.Set("repo_test_dispatch_events_validated", len(evs)-len(v.Trace.Rejected))
	c.Add("traces_validated_against_impl", int64(len(evs)-len(v.Trace.Rejected)))
	for _, r := range v.Trace.Rejected {
		ev := evs[r.Idx-1]
		c.Fail(core.Failure{
			Signature: map[string]string{"spec": "Server", "action": "Dispatch", "source": "repository-tests", "lacks": r.Lacks, "path": fmt.Sprint(ev["path"])},
			Detail:    fmt.Sprintf("a handler invocation recorded while running the repository's server tests is not allowed by Server!Run: lacks %s: %v", r.Lacks, ev),
			Scenario:  map[string]any{"kind": "ServerDispatchEvent", "event": ev},
		})
	}
}

func tail(s string, n int) string {
	if len(s) > n {
		return s[len(s)-n:]
	}
	return s
}
