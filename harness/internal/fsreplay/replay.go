package fsreplay

import (
	"encoding/json"
	"fmt"
	"math/rand"
	"os"
	"os/user"
	"strings"
	"sync"
	"sync/atomic"

	"cedarverif/internal/core"
)

func currentUser() string {
	if u, err := user.Current(); err == nil {
		return u.Username
	}
	return ""
}

// Mutation is a single-character edit of a rendered path.
type Mutation struct {
	Pos int    `json:"pos"`
	Op  string `json:"op"` // sub | del | ins | dup
	Ch  string `json:"ch,omitempty"`
}

func (m Mutation) apply(s string) string {
	if m.Pos < 0 || m.Pos > len(s) {
		return s
	}
	switch m.Op {
	case "sub":
		if m.Pos < len(s) {
			return s[:m.Pos] + m.Ch + s[m.Pos+1:]
		}
	case "del":
		if m.Pos < len(s) {
			return s[:m.Pos] + s[m.Pos+1:]
		}
	case "ins":
		return s[:m.Pos] + m.Ch + s[m.Pos:]
	case "dup":
		if m.Pos < len(s) {
			return s[:m.Pos] + s[m.Pos:m.Pos+1] + s[m.Pos:]
		}
	}
	return s
}

// Job is one case of the replay.
type Job struct {
	C   Concrete  `json:"case"`
	Mut *Mutation `json:"mutation,omitempty"`
}

// Table is the model's verdict for every (abs, component classes, family) that
// TLC enumerated (fault-free client behaviours).
type Table map[string]Scn

func tkey(abs bool, classes []string, fam int) string {
	return fmt.Sprintf("%v|%s|%d", abs, strings.Join(classes, ","), fam)
}

func BuildTable(scs []Scn) Table {
	t := Table{}
	for _, s := range scs {
		if s.Role == "client" && s.Fault == "none" && !s.Huge && s.Remover != "nobody" {
			t[tkey(s.Abs, s.Path, s.Fam)] = s
		}
	}
	return t
}

const dummyTok = "aaaa000000000"

// resolve renders the job; for a mutated path it classifies the result and
// takes the expectation from the model's table.  ok=false: the mutated string
// falls outside the enumerated space (counted, not run).
func (e *Env) resolve(j Job, tab Table, tok string) (Concrete, bool) {
	c := j.C
	if j.Mut == nil {
		return c, true
	}
	base, soft := e.Render(c, tok)
	m := j.Mut.apply(base)
	if strings.IndexByte(m, 0) >= 0 {
		return c, false
	}
	abs, classes, sf := e.Classify(m, c.Scn.Fam)
	s, ok := tab[tkey(abs, classes, c.Scn.Fam)]
	if !ok {
		// the generator prints the IPv6 twin only where the family can matter (an
		// address-qualified leaf, or at most two components)
		hasAddr := false
		for _, cl := range classes {
			switch cl {
			case "La4", "La6", "La4port", "La4ip", "Lhost", "LaMap", "LaAlt", "LaZone", "LaOdd":
				hasAddr = true
			}
		}
		if !hasAddr {
			s, ok = tab[tkey(abs, classes, 4)]
			s.Fam = c.Scn.Fam
		}
	}
	if !ok {
		return c, false
	}
	s.Fault = "none"
	out := Concrete{Scn: s, Variant: c.Variant, Soft: soft || sf, FullScan: true}
	out.Mutated = strings.ReplaceAll(m, tok, "{TOK}")
	if !strings.Contains(m, tok) {
		out.Mutated = m
	}
	out.MutDesc = fmt.Sprintf("%s@%d %q of %v/v%d", j.Mut.Op, j.Mut.Pos, j.Mut.Ch, c.Scn.Path, c.Variant)
	return out, true
}

// Stats of a replay.
type Stats struct {
	Conform, Skipped, OutOfSpace   int64
	Created, Rejected, ServerCases int64
	Mutations, MutStillValid       int64
	SkipReasons                    sync.Map
}

var subChars = []string{"/", ".", "_", "-", " ", "0", "9", "z", "Z", ":", "\x01", "\x7f", "\n", "\xc3", "%", "*", "\\", "~", "?", "\xff"}
var insChars = []string{"/", ".", "_", "0", "a", "\n", " ", ":", "%"}

// Mutations of the accepted paths: every position x {substitutions, deletion,
// insertion, duplication}; all of them in the thorough tier, a seeded sample
// per position in the quick tier.
func (e *Env) MutationJobs(scs []Scn, thorough bool, rng *rand.Rand) []Job {
	var jobs []Job
	for _, s := range scs {
		if s.Role != "client" || s.Fault != "none" || !s.Valid || s.Huge || s.Remover == "nobody" {
			continue
		}
		if !e.HasFam(s.Fam) {
			continue
		}
		nv := NVariants(s)
		if last := s.Path[len(s.Path)-1]; !thorough && (last == "LaMap" || last == "LaAlt") && nv > 2 {
			nv = 2 // quick: two of the alternative spellings serve as mutation bases
		}
		for v := 0; v < nv; v++ {
			c := Concrete{Scn: s, Variant: v}
			base, _ := e.Render(c, dummyTok)
			for pos := 0; pos <= len(base); pos++ {
				var ms []Mutation
				if pos < len(base) {
					if thorough {
						for _, ch := range subChars {
							ms = append(ms, Mutation{pos, "sub", ch})
						}
					} else {
						for k := 0; k < 4; k++ {
							ms = append(ms, Mutation{pos, "sub", subChars[rng.Intn(len(subChars))]})
						}
						if rng.Intn(3) == 0 {
							ms = append(ms, Mutation{pos, "sub", "/"})
						}
					}
					ms = append(ms, Mutation{pos, "del", ""})
					if thorough || rng.Intn(4) == 0 {
						ms = append(ms, Mutation{pos, "dup", ""})
					}
				}
				if thorough {
					for _, ch := range insChars {
						ms = append(ms, Mutation{pos, "ins", ch})
					}
				} else {
					ms = append(ms, Mutation{pos, "ins", insChars[rng.Intn(len(insChars))]})
				}
				for i := range ms {
					if ms[i].Op == "sub" && ms[i].Ch == base[pos:pos+1] {
						continue
					}
					m := ms[i]
					jobs = append(jobs, Job{C: c, Mut: &m})
				}
			}
		}
	}
	return jobs
}

// ReplayAll runs the jobs on w workers (each worker's cases carry a token no
// other worker's path can contain), confirms every difference by an immediate
// second run and records failures.
func (e *Env) ReplayAll(c *core.Ctx, jobs []Job, tab Table, w int, st *Stats) {
	if w > 16 {
		w = 16
	}
	if w < 1 {
		w = 1
	}
	var next int64 = -1
	var serial int64
	var wg sync.WaitGroup
	for k := 0; k < w; k++ {
		wg.Add(1)
		go func(k int) {
			defer wg.Done()
			letter := strings.Repeat(string(rune('a'+k)), 4)
			newTok := func() string {
				return fmt.Sprintf("%s%s%06d", letter, e.pidTag, atomic.AddInt64(&serial, 1)%1000000)
			}
			for {
				i := int(atomic.AddInt64(&next, 1))
				if i >= len(jobs) {
					return
				}
				e.runJob(c, jobs[i], tab, newTok, st)
			}
		}(k)
	}
	wg.Wait()
}

func (e *Env) runJob(c *core.Ctx, j Job, tab Table, newTok func() string, st *Stats) {
	tok := newTok()
	cc, ok := e.resolve(j, tab, tok)
	if !ok {
		atomic.AddInt64(&st.OutOfSpace, 1)
		return
	}
	o := e.Run(cc, tok)
	if o.Skip != "" {
		atomic.AddInt64(&st.Skipped, 1)
		st.SkipReasons.Store(o.Skip, true)
		return
	}
	key, _ := json.Marshal(struct {
		C Concrete
		M *Mutation
	}{j.C, j.Mut})
	c.Eval(string(key), cc.Scn.Role == "server" || len(cc.Scn.Path) >= 2)
	if j.Mut != nil {
		atomic.AddInt64(&st.Mutations, 1)
		if cc.Scn.Valid {
			atomic.AddInt64(&st.MutStillValid, 1)
		}
	}
	d := e.Compare(cc, o)
	if d == nil {
		atomic.AddInt64(&st.Conform, 1)
		switch {
		case cc.Scn.Role == "server":
			atomic.AddInt64(&st.ServerCases, 1)
		case len(o.AtResult) > 0:
			atomic.AddInt64(&st.Created, 1)
		default:
			atomic.AddInt64(&st.Rejected, 1)
		}
		return
	}
	// DESIGN 5 (ii): a difference counts only if it reproduces at once
	tok2 := newTok()
	cc2, _ := e.resolve(j, tab, tok2)
	o2 := e.Run(cc2, tok2)
	d2 := e.Compare(cc2, o2)
	if d2 == nil || d2.Broken != d.Broken || (!d.Broken && d2.Sig["check"] != d.Sig["check"]) {
		c.Broken("C18 non-reproducible difference: first %q, then %v", d.Detail, d2)
		return
	}
	if d.Broken {
		c.Broken("C18 binding: %s (case %s)", d.Detail, string(key))
		return
	}
	c.Fail(core.Failure{Signature: d.Sig, Detail: d.Detail,
		Scenario: map[string]any{"kind": "FSAuth", "job": j, "resolved": cc, "observed": o}})
}

// ReplayFile re-runs one recorded failure (bin/check C18 quick --replay f).
func ReplayFile(c *core.Ctx, e *Env, tab Table) bool {
	b, err := os.ReadFile(c.Replay)
	if err != nil {
		c.Broken("cannot read replay file: %v", err)
		return true
	}
	var rf struct {
		Scenario struct {
			Kind string `json:"kind"`
			Job  Job    `json:"job"`
		} `json:"scenario"`
	}
	if err := json.Unmarshal(b, &rf); err != nil || rf.Scenario.Kind != "FSAuth" {
		c.Broken("not a C18 replay file")
		return true
	}
	var st Stats
	e.ReplayAll(c, []Job{rf.Scenario.Job}, tab, 1, &st)
	c.Add("traces_validated_against_impl", st.Conform)
	return true
}
