package fsreplay

import (
	"context"
	"encoding/binary"
	"fmt"
	"net"
	"os"
	"path/filepath"
	"strings"
	"sync"
	"syscall"
	"time"

	"github.com/bbockelm/cedar/security"
	"github.com/bbockelm/cedar/stream"
)

// Obs is the projection of one real exchange that is compared with the model.
type Obs struct {
	SentPath    string   `json:"sent_path"`   // what the client was told to create
	ServerPath  string   `json:"server_path"` // what the real server had generated
	PathSeen    bool     `json:"path_seen"`
	ResultSeen  bool     `json:"result_seen"`
	Result      int64    `json:"result"`       // result code the client put on the wire
	Before      []string `json:"before"`       // matching entries before the exchange (must be none)
	AtResult    []string `json:"at_result"`    // entries that exist when the result code is on the wire
	After       []string `json:"after"`        // entries left once the client returned
	ClientErr   string   `json:"client_err"`   // "" = nil
	VerdictSeen bool     `json:"verdict_seen"` // the server's verification result passed the relay
	Verdict     int64    `json:"verdict"`
	Server      ServerResult
	ServerKnown bool
	ObjNote     string `json:"obj_note,omitempty"`
	Skip        string `json:"skip,omitempty"`
}

// Run executes one case.  tok is unique among concurrently running cases.
func (e *Env) Run(c Concrete, tok string) Obs {
	var o Obs
	s := c.Scn
	fam := s.Fam
	if fam == 0 {
		fam = 4
	}
	if !e.HasFam(fam) {
		o.Skip = "no loopback of family " + itoa(fam)
		return o
	}
	if s.Role == "server" && s.Obj == "dirOtherUid" && e.OtherUID < 0 {
		o.Skip = "not root: cannot make a directory owned by another uid"
		return o
	}
	replace := s.Role == "client" && !c.Own
	var watch []string
	if replace {
		o.SentPath, _ = e.Render(c, tok)
		if i := strings.LastIndexByte(o.SentPath, '/'); i >= 0 {
			if l := o.SentPath[i+1:]; l != "" && l != "." && l != ".." && l != "tmp" && !strings.Contains(l, tok) && len(l) < 200 {
				watch = append(watch, l)
			}
		} else if o.SentPath != "" && !strings.Contains(o.SentPath, tok) {
			watch = append(watch, o.SentPath)
		}
	}
	base := map[string]bool{} // entries with a watched name that exist anyway (fixture, other software)
	full := c.FullScan
	if replace {
		for _, p := range e.scan(tok, watch, o.SentPath, full && len(watch) > 0) {
			if tok != "" && strings.Contains(filepath.Base(p), tok) {
				o.Before = append(o.Before, p)
			} else {
				base[p] = true
			}
		}
		e.cleanup(o.Before)
	}
	diff := func(ps []string) []string {
		var out []string
		for _, p := range ps {
			if !base[p] {
				out = append(out, p)
			}
		}
		return out
	}

	host := net.JoinHostPort(e.IP[fam], e.Port[fam])
	raw, err := net.DialTimeout("tcp", host, 5*time.Second)
	if err != nil {
		o.Skip = "dial: " + err.Error()
		return o
	}
	// closing with RST keeps tens of thousands of exchanges from piling up in TIME_WAIT
	if tc, ok := raw.(*net.TCPConn); ok {
		_ = tc.SetLinger(0)
	}
	defer raw.Close()
	key := raw.LocalAddr().String()
	resCh := e.resChan(key)
	defer e.dropRes(key)

	var mu sync.Mutex
	stage := 0 // 0: before the path, 1: path delivered, 2: result seen, 3: verdict seen
	ec := &EditConn{Conn: raw}
	var realDir string // symlink target made for the server-side case
	ec.OnInbound = func(end byte, body []byte) []byte {
		mu.Lock()
		defer mu.Unlock()
		switch {
		case stage == 0 && end == 1 && len(body) > 1 && body[len(body)-1] == 0 && strings.HasPrefix(string(body), BaseDir+"/FS_"):
			stage = 1
			o.PathSeen = true
			o.ServerPath = string(body[:len(body)-1])
			if replace {
				return append([]byte(o.SentPath), 0)
			}
			o.SentPath = o.ServerPath
		case stage == 2 && len(body) == 8:
			stage = 3
			o.VerdictSeen = true
			o.Verdict = int64(binary.BigEndian.Uint64(body))
		}
		return body
	}
	ec.OnOutbound = func(end byte, body []byte) ([]byte, error) {
		mu.Lock()
		defer mu.Unlock()
		if stage != 1 {
			return nil, nil
		}
		if s.Fault == "sendFail" {
			// the connection breaks just before the result code leaves the client
			_ = raw.Close()
			stage = 2
			return nil, ErrInjected
		}
		stage = 2
		if len(body) == 8 {
			o.ResultSeen = true
			o.Result = int64(binary.BigEndian.Uint64(body))
		}
		// observation point "result code on the wire": the server has not seen it yet
		if replace {
			o.AtResult = dedupe(diff(e.scan(tok, watch, o.SentPath, full)))
		} else if _, err := os.Lstat(o.ServerPath); err == nil {
			o.AtResult = []string{o.ServerPath}
		}
		if s.Role == "client" && s.Remover == "nobody" {
			// A server that does NOT remove the directory (a C++ peer, another host on a
			// shared filesystem, a hostile server): the relay answers the verdict itself
			// and cuts the real server off before it has seen the result code, so nothing
			// but the client touches the directory from here on.
			v := make([]byte, 8)
			if s.Verdict != "accept" {
				code := int64(-1)
				if c.Variant%2 == 1 {
					code = 1
				}
				binary.BigEndian.PutUint64(v, uint64(code))
			}
			o.VerdictSeen, o.Verdict = true, int64(binary.BigEndian.Uint64(v))
			stage = 3
			ec.AnswerAndCutOff(v)
			return nil, ErrDrop
		}
		var out []byte
		if s.Role == "server" {
			realDir, o.ObjNote = e.plant(o.ServerPath, s.Obj, c.ObjVar, tok)
			out = make([]byte, 8)
			if s.Cres != "ok" {
				binary.BigEndian.PutUint64(out, ^uint64(0)) // -1
			}
		}
		if s.Fault == "verdictLost" {
			ec.BreakReads()
		}
		return out, nil
	}

	ctx, cancel := context.WithTimeout(context.Background(), 20*time.Second)
	defer cancel()
	st := stream.NewStream(ec)
	auth := security.NewAuthenticator(clientConfig(), st)
	_, herr := auth.ClientHandshake(ctx)
	if herr != nil {
		o.ClientErr = herr.Error()
	}
	_ = raw.Close()
	select {
	case o.Server = <-resCh:
		o.ServerKnown = true
	case <-time.After(10 * time.Second):
	}
	if replace {
		o.After = dedupe(diff(e.scan(tok, watch, o.SentPath, full)))
		e.cleanup(o.After)
	} else if o.ServerPath != "" {
		if _, err := os.Lstat(o.ServerPath); err == nil {
			o.After = []string{o.ServerPath}
		}
		if strings.HasPrefix(o.ServerPath, BaseDir+"/FS_") && !strings.Contains(o.ServerPath[len(BaseDir)+1:], "/") {
			e.cleanup([]string{o.ServerPath})
		}
	}
	if realDir != "" {
		_ = os.RemoveAll(realDir)
	}
	return o
}

func dedupe(ps []string) []string {
	seen := map[string]bool{}
	var out []string
	for _, p := range ps {
		if !seen[p] {
			seen[p] = true
			out = append(out, p)
		}
	}
	return out
}

var badModes = []os.FileMode{0o755, 0o750, 0o701, 0o770, 0o710, 0o777}

// plant replaces the directory the real client just created at p by the kind
// of object the behaviour asks for (what a hostile client might leave there).
func (e *Env) plant(p, obj string, variant int, tok string) (extra string, note string) {
	if !strings.HasPrefix(p, BaseDir+"/FS_") {
		return "", "no server path"
	}
	switch obj {
	case "dir700":
	case "absent":
		_ = os.Remove(p)
	case "file":
		_ = os.Remove(p)
		if f, err := os.OpenFile(p, os.O_CREATE|os.O_EXCL|os.O_WRONLY, 0o700); err == nil {
			_ = f.Close()
		}
	case "symlinkToDir":
		_ = os.Remove(p)
		extra = filepath.Join(e.Sbx, "real"+tok)
		_ = os.Mkdir(extra, 0o700)
		_ = os.Symlink(extra, p)
	case "dir755":
		m := badModes[variant%len(badModes)]
		_ = os.Chmod(p, m)
		note = fmt.Sprintf("mode %o", m)
	case "dirExtraLinks":
		_ = os.Mkdir(filepath.Join(p, "sub"), 0o700)
	case "dirOtherUid":
		_ = os.Chown(p, e.OtherUID, -1)
	}
	if fi, err := os.Lstat(p); err == nil {
		if st, ok := fi.Sys().(*syscall.Stat_t); ok {
			note += fmt.Sprintf(" [%v nlink=%d uid=%d]", fi.Mode(), st.Nlink, st.Uid)
		}
	} else {
		note += " [absent]"
	}
	return extra, note
}
