package fsreplay

import (
	"net/netip"
	"path/filepath"
	"strings"
)

// Scn is one behaviour printed by Gen_FSAuth.
type Scn struct {
	Role        string   `json:"role"`
	Abs         bool     `json:"abs"`
	Path        []string `json:"path"`
	Huge        bool     `json:"huge"`
	Fam         int      `json:"fam"`
	Fault       string   `json:"fault"`
	Remover     string   `json:"remover"` // server | nobody: does the server remove the directory while verifying?
	Verdict     string   `json:"verdict"` // any | accept | refuse: the verdict a non-removing server sends
	Valid       bool     `json:"valid"`
	Exp         string   `json:"exp"` // client: create | either | reject; server: accept | either | reject
	MadeCreated []Loc    `json:"madeCreated"`
	MadeResult  string   `json:"madeResult"`
	WireResult  string   `json:"wireResult"`
	DoneCreated []Loc    `json:"doneCreated"`
	Obj         string   `json:"obj"`
	Cres        string   `json:"cres"`
	Owner       string   `json:"owner"`
}

type Loc struct {
	At   string `json:"at"`
	Leaf string `json:"leaf"`
}

// Concrete is one executable case: a scenario plus the choices the model
// leaves to the harness (which concrete string stands for each class).
type Concrete struct {
	Scn     Scn    `json:"scn"`
	Variant int    `json:"variant"`
	Own     bool   `json:"own,omitempty"`     // do not replace the server's path
	Mutated string `json:"mutated,omitempty"` // a literal path with "{TOK}" and "{PORT}" placeholders (mutation cases)
	MutDesc string `json:"mutdesc,omitempty"`
	Soft    bool   `json:"soft,omitempty"` // the concrete string is a borderline member of its class: creation allowed, not required
	ObjVar  int    `json:"objvar,omitempty"`
	// FullScan: list /tmp, /, /var and the sandbox completely (instead of probing
	// for the components of the sent path only) at every observation point
	FullScan bool `json:"fullscan,omitempty"`
}

var leafVariants = map[string][]string{
	"Lloc":    {"FS_{TOK}", "FS_XXX{TOK}", "FS_{TOK}000"},
	"Lrem":    {"FS_REMOTE_host.example_4242_{TOK}", "FS_REMOTE_my_host-1_7_{TOK}"},
	"La4":     {"FS_127.0.0.1_{PORT}_{TOK}"},
	"La6":     {"FS_::1_{PORT}_{TOK}"},
	"La4port": {"FS_{IP}_{PORT+1}_{TOK}", "FS_{IP}_1_{TOK}", "FS_{IP}_{PORT-1}_{TOK}", "FS_{IP}_{PORT/10}_{TOK}", "FS_{IP}_{PORT}0_{TOK}"},
	"La4ip":   {"FS_127.0.0.2_{PORT}_{TOK}", "FS_10.1.2.3_{PORT}_{TOK}", "FS_::2_{PORT}_{TOK}", "FS_0.0.0.0_{PORT}_{TOK}"},
	"Lhost":   {"FS_localhost_{PORT}_{TOK}", "FS_host.example.org_{PORT}_{TOK}"},
	"NM": {"FS{TOK}", "fs_{TOK}", "FS_{TOK}-x", "FS_{TOK}.", "XFS_{TOK}", "FS__{TOK}", "FS_{TOK} ", " FS_{TOK}",
		"FS_{TOK}_", "FS_{TOK}~", "Fs_{TOK}", "FS-{TOK}", "FS_{TOK}+1", ".FS_{TOK}", "FS_{TOK}0000", "FS_{IP}_{PORT}_{TOK}_x",
		"FS_{IP}__{TOK}", "FS_{IP}_{PORT}x_{TOK}", "FS_{IP}_{PORT}_{TOK}-", "{TOK}"},
	"OL": {"FS_{TOK}" + strings.Repeat("a", 300), "FS_{IP}_123456_{TOK}", "FS_{IP}_{PORT}_{TOK}0000"},
	"CT": {"FS_{TOK}\x01", "FS_\x7f{TOK}", "FS_{TOK}\n", "FS_{TOK}\t", "\rFS_{TOK}", "FS_{TOK}\x1b[0m", "FS_\n{TOK}"},
	"NA": {"FS_{TOK}\xc3\xa9", "FS_\xef\xbc\x91{TOK}", "FS_{TOK}\xff", "\xc2\xa0FS_{TOK}", "FS\xe2\x80\x8b_{TOK}"},
}

// Address SPELLING classes of FSAuth.tla (last component of paths of <= 2
// components).  {IP} is the live peer address of the connection in use; a key
// "class@fam" lists the members for that address family.
var spellVariants = map[string][]string{
	// another valid IPv6 text of the same address: may be accepted
	"LaMap@4": {"FS_::ffff:{IP}_{PORT}_{TOK}", "FS_::FFFF:{IP}_{PORT}_{TOK}", "FS_0:0:0:0:0:ffff:{IP}_{PORT}_{TOK}",
		"FS_::ffff:7f00:1_{PORT}_{TOK}", "FS_0000:0000:0000:0000:0000:FFFF:{IP}_{PORT}_{TOK}"},
	"LaMap@6": {"FS_::ffff:127.0.0.1_{PORT}_{TOK}", "FS_::FFFF:127.0.0.1_{PORT}_{TOK}"}, // not this peer: refused
	"LaAlt@6": {"FS_0:0:0:0:0:0:0:1_{PORT}_{TOK}", "FS_::0001_{PORT}_{TOK}", "FS_0::1_{PORT}_{TOK}",
		"FS_0000:0000:0000:0000:0000:0000:0000:0001_{PORT}_{TOK}", "FS_0:0::0:1_{PORT}_{TOK}"},
	"LaAlt@4": {"FS_0:0:0:0:0:0:0:1_{PORT}_{TOK}", "FS_::0001_{PORT}_{TOK}"}, // not this peer: refused
	// a zone suffix is not part of the address grammar: refused, whatever follows the '%'
	"LaZone@4": {
		"FS_::ffff:{IP}%eth0_{PORT}_{TOK}", "FS_::ffff:{IP}%1_{PORT}_{TOK}", "FS_::FFFF:{IP}%Zone9_{PORT}_{TOK}",
		"FS_::ffff:{IP}%.-%:;,=+@!~{TOK}x_{PORT}_{TOK}",
		"FS_::ffff:{IP}%..-evil.{TOK}_{PORT}_{TOK}", "FS_::ffff:{IP}%\x01{TOK}_{PORT}_{TOK}", "FS_::ffff:{IP}%a\n\t\x7f_{PORT}_{TOK}",
		"FS_::ffff:{IP}%\xc3\xa9{TOK}_{PORT}_{TOK}", "FS_::ffff:{IP}%\xff\xfe_{PORT}_{TOK}",
		"FS_::ffff:{IP}%\x01\xc3\xa9.seed..evil{TOK}_{PORT}_{TOK}",
		"FS_::ffff:{IP}%" + strings.Repeat("z", 150) + "_{PORT}_{TOK}", "FS_::ffff:{IP}% _{PORT}_{TOK}",
		"FS_0:0:0:0:0:ffff:{IP}%eth0_{PORT}_{TOK}", "FS_::ffff:7f00:1%eth0_{PORT}_{TOK}",
		"FS_{IP}%eth0_{PORT}_{TOK}", "FS_{IP}%1_{PORT}_{TOK}", "FS_::1%lo_{PORT}_{TOK}", "FS_::ffff:{IP}%_{PORT}_{TOK}",
		"FS_::ffff:{IP}%25eth0_{PORT}_{TOK}", "FS_::ffff:{IP}%e%f_{PORT}_{TOK}",
	},
	"LaZone@6": {
		"FS_{IP}%lo_{PORT}_{TOK}", "FS_{IP}%1_{PORT}_{TOK}", "FS_{IP}%\x01{TOK}_{PORT}_{TOK}", "FS_{IP}%\xc3\xa9_{PORT}_{TOK}",
		"FS_{IP}%.-;{TOK}_{PORT}_{TOK}", "FS_0:0:0:0:0:0:0:1%lo_{PORT}_{TOK}", "FS_{IP}%" + strings.Repeat("z", 150) + "_{PORT}_{TOK}",
		"FS_::ffff:127.0.0.1%eth0_{PORT}_{TOK}", "FS_::ffff:127.0.0.1%\x01_{PORT}_{TOK}", "FS_{IP}%_{PORT}_{TOK}",
	},
	// non-canonical numerals of the peer address: refused
	"LaOdd@4": {"FS_127.000.000.001_{PORT}_{TOK}", "FS_0127.0.0.1_{PORT}_{TOK}", "FS_127.0.0.01_{PORT}_{TOK}", "FS_0x7f.0.0.1_{PORT}_{TOK}",
		"FS_0x7f000001_{PORT}_{TOK}", "FS_0177.0.0.1_{PORT}_{TOK}", "FS_017700000001_{PORT}_{TOK}", "FS_2130706433_{PORT}_{TOK}",
		"FS_127.1_{PORT}_{TOK}", "FS_127.0.1_{PORT}_{TOK}", "FS_[{IP}]_{PORT}_{TOK}", "FS_{IP}._{PORT}_{TOK}", "FS_ {IP}_{PORT}_{TOK}",
		"FS_{IP} _{PORT}_{TOK}", "FS_{IP}:{PORT}_{PORT}_{TOK}", "FS_[::ffff:{IP}]_{PORT}_{TOK}", "FS_::ffff:127.000.000.001_{PORT}_{TOK}",
		"FS_::ffff:{IP}._{PORT}_{TOK}", "FS_::ffff.{IP}_{PORT}_{TOK}", "FS_:ffff:{IP}_{PORT}_{TOK}", "FS_::ffff:0x7f.0.0.1_{PORT}_{TOK}"},
	"LaOdd@6": {"FS_[{IP}]_{PORT}_{TOK}", "FS_ {IP}_{PORT}_{TOK}", "FS_{IP} _{PORT}_{TOK}", "FS_{IP}._{PORT}_{TOK}", "FS_:{IP}_{PORT}_{TOK}",
		"FS_0:0:0:0:0:0:0:0:1_{PORT}_{TOK}", "FS_::00001_{PORT}_{TOK}", "FS_[{IP}]:{PORT}_{PORT}_{TOK}", "FS_::g_{PORT}_{TOK}", "FS_::1::_{PORT}_{TOK}"},
}

func variantsOf(class string, fam int) []string {
	if v, ok := spellVariants[class+"@"+itoa(fam)]; ok {
		return v
	}
	return leafVariants[class]
}

// NVariants is the number of concretisations of a scenario's classes (the
// maximum over its components).
func NVariants(s Scn) int {
	n := 1
	for _, c := range s.Path {
		k := len(variantsOf(c, s.Fam))
		if c == "O" {
			k = 2
		}
		if k > n {
			n = k
		}
	}
	return n
}

func (e *Env) subst(t, tok string, fam int) string {
	port := e.Port[fam]
	pn := 0
	for _, ch := range port {
		pn = pn*10 + int(ch-'0')
	}
	up, down := pn+1, pn-1
	if up > 65535 {
		up = pn - 2
	}
	t = strings.ReplaceAll(t, "{PORT/10}", itoa(pn/10))
	t = strings.ReplaceAll(t, "{PORT+1}", itoa(up))
	t = strings.ReplaceAll(t, "{PORT-1}", itoa(down))
	t = strings.ReplaceAll(t, "{PORT}", port)
	t = strings.ReplaceAll(t, "{IP}", e.IP[fam])
	t = strings.ReplaceAll(t, "{TOK}", tok)
	return t
}

// Render turns a case into the path string the relay puts into the server's
// message.  soft reports that a borderline variant was chosen.
func (e *Env) Render(c Concrete, tok string) (path string, soft bool) {
	s := c.Scn
	if c.Mutated != "" {
		return e.subst(c.Mutated, tok, s.Fam), c.Soft
	}
	if s.Huge {
		return BaseDir + "/FS_" + tok + strings.Repeat("a", 5000), false
	}
	var parts []string
	sofar := "" // textual path so far (to place sandbox directories relative to it)
	if s.Abs {
		sofar = "/"
	}
	for i, cl := range s.Path {
		last := i == len(s.Path)-1
		var str string
		switch cl {
		case "B":
			str = "tmp"
		case "U":
			str = ".."
		case "D":
			str = "."
		case "E":
			str = ""
		case "O", "S":
			target := e.Other
			lit := "other"
			if cl == "S" {
				target, lit = e.Lnk, "lnk"
			}
			switch {
			case cl == "O" && last:
				str = "o" + tok // a name that does not exist yet
			case cl == "O" && (c.Variant+i)%2 == 1 && s.Abs && sofar == "/":
				str = "var"
			case s.Abs && (sofar == "/" || sofar == "/tmp/"):
				if rel, err := filepath.Rel(strings.TrimSuffix(sofar, "/")+"/", target); err == nil && !strings.HasPrefix(rel, "..") {
					str = rel // several real components: an existing directory (nested under the base when sofar is /tmp/)
				} else {
					str = lit
				}
			default:
				str = lit // relative paths: the cwd holds other/ and lnk
			}
		default:
			vs := variantsOf(cl, s.Fam)
			str = e.subst(vs[(c.Variant+i)%len(vs)], tok, s.Fam)
		}
		parts = append(parts, str)
		sofar += str + "/"
	}
	p := strings.Join(parts, "/")
	if s.Abs {
		p = "/" + p
	}
	return p, soft
}

// ---------------------------------------------------------------------------
// Classify is the abstraction function for arbitrary strings (used for the
// mutations of accepted paths): it maps a concrete path to the component
// classes of FSAuth.tla, independently of cedar's validator.  soft = the
// string is a borderline member of a recognised class.
func (e *Env) Classify(p string, fam int) (abs bool, classes []string, soft bool) {
	if p == "" {
		return false, nil, false
	}
	abs = strings.HasPrefix(p, "/")
	rest := p
	if abs {
		rest = p[1:]
	}
	if rest == "" {
		return abs, nil, false
	}
	for _, comp := range strings.Split(rest, "/") {
		cl, sf := e.classifyComp(comp, fam)
		classes = append(classes, cl)
		soft = soft || sf
	}
	for i, cl := range classes {
		switch cl {
		case "LaMap", "LaAlt", "LaZone", "LaOdd":
			// enumerated only as the last component of paths of at most two components;
			// elsewhere the name is just a directory name (never a valid path)
			if i != len(classes)-1 || len(classes) > 2 {
				classes[i] = "NM"
			}
		}
	}
	return abs, classes, soft
}

func alnum(s string, min, max int) bool {
	if len(s) < min || len(s) > max {
		return false
	}
	for i := 0; i < len(s); i++ {
		c := s[i]
		if !(c >= '0' && c <= '9' || c >= 'a' && c <= 'z' || c >= 'A' && c <= 'Z') {
			return false
		}
	}
	return true
}

func digits(s string, min, max int) bool {
	if len(s) < min || len(s) > max {
		return false
	}
	for i := 0; i < len(s); i++ {
		if s[i] < '0' || s[i] > '9' {
			return false
		}
	}
	return true
}

func hostChars(s string) bool {
	if s == "" {
		return false
	}
	for i := 0; i < len(s); i++ {
		c := s[i]
		if !(c >= '0' && c <= '9' || c >= 'a' && c <= 'z' || c >= 'A' && c <= 'Z' || c == '.' || c == '_' || c == '-') {
			return false
		}
	}
	return true
}

// strictV4 is a hand-written dotted-quad test (no leading zeros).
func strictV4(s string) bool {
	f := strings.Split(s, ".")
	if len(f) != 4 {
		return false
	}
	for _, x := range f {
		if !digits(x, 1, 3) || (len(x) > 1 && x[0] == '0') {
			return false
		}
		v := 0
		for _, ch := range x {
			v = v*10 + int(ch-'0')
		}
		if v > 255 {
			return false
		}
	}
	return true
}

func (e *Env) classifyComp(c string, fam int) (string, bool) {
	switch c {
	case "":
		return "E", false
	case ".":
		return "D", false
	case "..":
		return "U", false
	case "tmp":
		return "B", false
	}
	for i := 0; i < len(c); i++ {
		if c[i] < 0x20 || c[i] == 0x7f {
			return "CT", false
		}
	}
	for i := 0; i < len(c); i++ {
		if c[i] >= 0x80 {
			return "NA", false
		}
	}
	if rest, ok := strings.CutPrefix(c, "FS_"); ok {
		if alnum(rest, 1, 16) {
			return "Lloc", false
		}
		f := strings.Split(rest, "_")
		if len(f) == 3 && !strings.HasPrefix(rest, "REMOTE_") {
			if i := strings.IndexByte(f[0], '%'); i >= 0 && digits(f[1], 1, 5) && alnum(f[2], 1, 16) {
				// <address>%<zone>: not an address of the documented grammar
				if _, err := netip.ParseAddr(f[0][:i]); err == nil || strictV4(f[0][:i]) {
					return "LaZone", false
				}
			}
			addr, err := netip.ParseAddr(f[0])
			isIP := err == nil && addr.Zone() == ""
			looksIP := isIP || strictV4(f[0])
			if looksIP && digits(f[1], 1, 5) && alnum(f[2], 1, 16) {
				// address-qualified
				live, _ := netip.ParseAddr(e.IP[fam])
				if !isIP {
					return "La4ip", true
				}
				sameIP := addr.Unmap() == live.Unmap()
				samePort := f[1] == e.Port[fam]
				numPort := strings.TrimLeft(f[1], "0") == e.Port[fam]
				switch {
				case sameIP && samePort:
					canonical := f[0] == live.String()
					switch {
					case fam == 4 && canonical:
						return "La4", false
					case fam == 4:
						return "LaMap", false // another valid text of the same address
					case canonical:
						return "La6", false
					default:
						return "LaAlt", false
					}
				case sameIP && numPort:
					return "La4port", true // same port, other spelling: borderline
				case sameIP:
					return "La4port", false
				default:
					return "La4ip", false
				}
			}
			if err != nil && strictV4(f[0]) {
				return "La4ip", true
			}
		}
		if r2, ok := strings.CutPrefix(rest, "REMOTE_"); ok {
			// FS_REMOTE_<host>_<pid>_<sfx>, host may contain '_'
			i := strings.LastIndexByte(r2, '_')
			if i > 0 {
				sfx := r2[i+1:]
				j := strings.LastIndexByte(r2[:i], '_')
				if j > 0 {
					pid, host := r2[j+1:i], r2[:j]
					if alnum(sfx, 1, 16) && digits(pid, 1, 1<<20) && hostChars(host) {
						return "Lrem", false
					}
				}
			}
		}
	}
	if len(c) > 64 {
		return "OL", false
	}
	if len(c) >= 2 && strings.EqualFold(c[:2], "fs") {
		return "NM", false
	}
	return "O", false
}
