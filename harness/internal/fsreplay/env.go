// Package fsreplay binds FSAuth.tla (property C18) to the real code: every
// behaviour TLC prints (a server-supplied path as a sequence of component
// classes, the address family of the live connection, a network fault; or, for
// the server half, the object left at the path) is concretised and executed as
// a REAL cedar client handshake (method list [FS]) against a REAL cedar server
// handshake over TCP loopback.  The client's connection is wrapped in a
// frame-aware relay (EditConn) that replaces the path string of the
// server's FS message, snapshots the filesystem when the client's result code
// appears on the wire, and injects the faults.
package fsreplay

import (
	"context"
	"fmt"
	"io"
	"log/slog"
	"net"
	"os"
	"path/filepath"
	"sort"
	"strconv"
	"strings"
	"sync"
	"syscall"
	"time"

	"github.com/bbockelm/cedar/commands"
	"github.com/bbockelm/cedar/security"
	"github.com/bbockelm/cedar/stream"
)

const BaseDir = "/tmp"

// Env is the fixture shared by all exchanges of one check run.
type Env struct {
	Sbx      string // sandbox root (under c.Tmp)
	Other    string // an existing directory that is not the base
	Lnk      string // a symlink to the base directory
	Cwd      string // the process's working directory during the run: holds tmp/, other/, lnk
	OtherUID int    // uid used for "dir owned by another uid" (-1: not available)
	OtherUsr string

	ln   map[int]net.Listener // by family
	Port map[int]string
	IP   map[int]string

	srvMu  sync.Mutex
	srvRes map[string]chan ServerResult // keyed by the client's local address

	pidTag    string
	oldStdout *os.File
	oldCwd    string
	oldLog    *slog.Logger
	devnull   *os.File
	cancel    context.CancelFunc
}

// ServerResult is what the real server handshake returned.
type ServerResult struct {
	Err  string
	User string
	Auth bool
	Meth string
}

func NewEnv(tmp string) (*Env, error) {
	e := &Env{ln: map[int]net.Listener{}, Port: map[int]string{}, IP: map[int]string{4: "127.0.0.1", 6: "::1"},
		srvRes: map[string]chan ServerResult{}, OtherUID: -1}
	e.Sbx = filepath.Join(tmp, "c18")
	e.Other = filepath.Join(e.Sbx, "other")
	e.Lnk = filepath.Join(e.Sbx, "lnk")
	e.Cwd = filepath.Join(e.Sbx, "cwd")
	for _, d := range []string{e.Other, filepath.Join(e.Cwd, "tmp"), filepath.Join(e.Cwd, "other")} {
		if err := os.MkdirAll(d, 0o755); err != nil {
			return nil, err
		}
	}
	if err := os.Symlink(BaseDir, e.Lnk); err != nil && !os.IsExist(err) {
		return nil, err
	}
	if err := os.Symlink(BaseDir, filepath.Join(e.Cwd, "lnk")); err != nil && !os.IsExist(err) {
		return nil, err
	}
	e.pidTag = fmt.Sprintf("%03d", os.Getpid()%1000)
	if os.Geteuid() == 0 {
		e.OtherUID, e.OtherUsr = 65534, "nobody"
		if b, err := os.ReadFile("/etc/passwd"); err == nil {
			found := false
			for _, l := range strings.Split(string(b), "\n") {
				f := strings.Split(l, ":")
				if len(f) > 2 && f[2] == "65534" {
					e.OtherUsr, found = f[0], true
				}
			}
			if !found {
				e.OtherUID = -1
			}
		}
	}
	ctx, cancel := context.WithCancel(context.Background())
	e.cancel = cancel
	for fam, addr := range map[int]string{4: "127.0.0.1:0", 6: "[::1]:0"} {
		ln, err := net.Listen("tcp", addr)
		if err != nil {
			if fam == 6 {
				continue // no IPv6 loopback here: the family-6 behaviours are skipped and counted
			}
			return nil, err
		}
		e.ln[fam] = ln
		_, p, _ := net.SplitHostPort(ln.Addr().String())
		e.Port[fam] = p
		go e.serve(ctx, ln)
	}
	// cedar logs every handshake step (slog) and prints FS diagnostics to stdout.
	e.oldLog = slog.Default()
	slog.SetDefault(slog.New(slog.NewTextHandler(io.Discard, &slog.HandlerOptions{Level: slog.LevelError + 4})))
	e.devnull, _ = os.OpenFile(os.DevNull, os.O_WRONLY, 0)
	e.oldStdout = os.Stdout
	if e.devnull != nil {
		os.Stdout = e.devnull
	}
	e.oldCwd, _ = os.Getwd()
	if err := os.Chdir(e.Cwd); err != nil {
		return nil, err
	}
	return e, nil
}

func (e *Env) HasFam(f int) bool { return e.ln[f] != nil }

func (e *Env) Close() {
	e.cancel()
	for _, l := range e.ln {
		_ = l.Close()
	}
	if e.oldCwd != "" {
		_ = os.Chdir(e.oldCwd)
	}
	os.Stdout = e.oldStdout
	slog.SetDefault(e.oldLog)
	if e.devnull != nil {
		_ = e.devnull.Close()
	}
}

func serverConfig() *security.SecurityConfig {
	return &security.SecurityConfig{
		AuthMethods:    []security.AuthMethod{security.AuthFS},
		Authentication: security.SecurityRequired,
		Encryption:     security.SecurityOptional,
		Integrity:      security.SecurityOptional,
		CryptoMethods:  []security.CryptoMethod{security.CryptoAES},
		SessionCache:   security.NewSessionCache(),
	}
}

func clientConfig() *security.SecurityConfig {
	return &security.SecurityConfig{
		AuthMethods:    []security.AuthMethod{security.AuthFS},
		Authentication: security.SecurityRequired,
		Encryption:     security.SecurityOptional,
		Integrity:      security.SecurityOptional,
		CryptoMethods:  []security.CryptoMethod{security.CryptoAES},
		Command:        commands.DC_NOP,
		SessionCache:   security.NewSessionCache(),
	}
}

func (e *Env) resChan(key string) chan ServerResult {
	e.srvMu.Lock()
	defer e.srvMu.Unlock()
	ch := e.srvRes[key]
	if ch == nil {
		ch = make(chan ServerResult, 1)
		e.srvRes[key] = ch
	}
	return ch
}

func (e *Env) dropRes(key string) {
	e.srvMu.Lock()
	delete(e.srvRes, key)
	e.srvMu.Unlock()
}

// serve runs the REAL server handshake on every accepted connection.
func (e *Env) serve(ctx context.Context, ln net.Listener) {
	for {
		conn, err := ln.Accept()
		if err != nil {
			return
		}
		go func() {
			defer conn.Close()
			hctx, cancel := context.WithTimeout(ctx, 20*time.Second)
			defer cancel()
			st := stream.NewStream(conn)
			auth := security.NewAuthenticator(serverConfig(), st)
			neg, err := auth.ServerHandshake(hctx)
			var r ServerResult
			if err != nil {
				r.Err = err.Error()
			}
			if neg != nil {
				r.User, r.Auth, r.Meth = neg.User, neg.Authentication, string(neg.NegotiatedAuth)
			}
			e.resChan(conn.RemoteAddr().String()) <- r
			// keep the connection until the client is done with it
			_ = conn.SetReadDeadline(time.Now().Add(2 * time.Second))
			var b [1]byte
			_, _ = conn.Read(b[:])
		}()
	}
}

// ---------------------------------------------------------------------------
// filesystem observation

// scanRoots are the places a misdirected mkdir of this harness's paths could
// land: the base, the filesystem root, /var (the "other directory" of the
// absolute variants), and the whole sandbox tree (other dir, cwd-relative).
func (e *Env) scan(tok string, watch []string, sent string, full bool) []string {
	hits := e.probe(sent)
	if full {
		hits = e.list(tok, watch, hits)
	}
	return dedupe(hits)
}

// probe looks for every non-trivial component of the sent path as an entry of
// every directory a misdirected mkdir could use as parent, and for the path
// itself (cheap: a few lstat calls; used for every exchange).
func (e *Env) probe(sent string) []string {
	var hits []string
	add := func(p string) {
		if _, err := os.Lstat(p); err == nil {
			hits = append(hits, filepath.Clean(p))
		}
	}
	if sent == "" || len(sent) > 4096 {
		return nil
	}
	names := map[string]bool{}
	for _, c := range strings.Split(sent, "/") {
		if c != "" && c != "." && c != ".." && c != "tmp" && c != "var" && len(c) <= 255 {
			names[c] = true
		}
	}
	for _, root := range []string{BaseDir, "/", "/var", e.Sbx, e.Other, e.Cwd, filepath.Join(e.Cwd, "tmp"), filepath.Join(e.Cwd, "other")} {
		for n := range names {
			add(filepath.Join(root, n))
		}
	}
	if strings.HasPrefix(sent, "/") {
		add(sent)
	} else {
		add(filepath.Join(e.Cwd, sent))
	}
	sort.Strings(hits)
	out := hits[:0]
	for i, h := range hits {
		if i == 0 || h != hits[i-1] {
			out = append(out, h)
		}
	}
	return out
}

// list reads the directories completely (used for every accepted path, every
// mutation, and a sample of the refused ones).
func (e *Env) list(tok string, watch []string, hits []string) []string {
	match := func(name string) bool {
		if tok != "" && strings.Contains(name, tok) {
			return true
		}
		for _, w := range watch {
			if name == w {
				return true
			}
		}
		return false
	}
	for _, d := range []string{BaseDir, "/", "/var"} {
		f, err := os.Open(d)
		if err != nil {
			continue
		}
		names, _ := f.Readdirnames(-1)
		_ = f.Close()
		for _, n := range names {
			if match(n) {
				hits = append(hits, filepath.Join(d, n))
			}
		}
	}
	_ = filepath.WalkDir(e.Sbx, func(p string, d os.DirEntry, err error) error {
		if err != nil {
			return nil
		}
		if p != e.Sbx && match(d.Name()) {
			hits = append(hits, p)
		}
		return nil
	})
	return hits
}

// cleanup removes what a scan found (only names this run made up).
func (e *Env) cleanup(paths []string) {
	for _, p := range paths {
		if p == "/" || p == BaseDir || p == e.Sbx || p == e.Other || p == e.Cwd || p == e.Lnk {
			continue
		}
		fi, err := os.Lstat(p)
		if err != nil {
			continue
		}
		if fi.IsDir() {
			_ = os.Chmod(p, 0o700)
			_ = os.RemoveAll(p)
		} else {
			_ = os.Remove(p)
		}
	}
}

func nlinkOfFreshDir(dir string) int {
	p, err := os.MkdirTemp(dir, "nl")
	if err != nil {
		return -1
	}
	defer os.Remove(p)
	fi, err := os.Lstat(p)
	if err != nil {
		return -1
	}
	if st, ok := fi.Sys().(*syscall.Stat_t); ok {
		return int(st.Nlink)
	}
	return -1
}

func itoa(i int) string { return strconv.Itoa(i) }
