package fsreplay

import (
	"fmt"
	"strings"
)

// Diff is a conformance difference between the model's expectation and the
// observed exchange.  Broken = the binding itself did not work (not a verdict
// about the property).
type Diff struct {
	Sig    map[string]string
	Detail string
	Broken bool
}

func (d *Diff) Error() string { return d.Detail }

// whyInvalid names the first rule of FSAuth!Valid the path breaks (abstract,
// stable: part of the failure signature).
func whyInvalid(s Scn) string {
	switch {
	case s.Huge:
		return "oversize_message"
	case !s.Abs:
		return "relative"
	}
	for _, c := range s.Path {
		if c == "U" || c == "D" || c == "E" {
			return "noncanonical"
		}
	}
	if len(s.Path) != 2 || s.Path[0] != "B" {
		if len(s.Path) == 2 && s.Path[0] == "S" {
			return "symlinked_parent"
		}
		if len(s.Path) > 2 && s.Path[0] == "B" {
			return "nested"
		}
		return "parent_not_base"
	}
	return "leaf_" + s.Path[1]
}

func sig(s Scn, check string) map[string]string {
	m := map[string]string{"spec": "FSAuth", "role": s.Role, "check": check}
	if s.Role == "client" {
		m["fault"] = s.Fault
		if s.Remover == "nobody" {
			m["remover"] = "nobody"
			m["verdict"] = s.Verdict
		}
		if s.Valid {
			m["path"] = "valid"
		} else {
			m["path"] = whyInvalid(s)
		}
	} else {
		m["object"] = s.Obj
		m["client_result"] = s.Cres
	}
	return m
}

// Compare checks one observed exchange against its behaviour.
func (e *Env) Compare(c Concrete, o Obs) *Diff {
	s := c.Scn
	if o.Skip != "" {
		return nil
	}
	if !o.PathSeen {
		return &Diff{Broken: true, Detail: fmt.Sprintf("the FS exchange was not reached (client error %q, server %+v)", o.ClientErr, o.Server)}
	}
	if s.Role == "server" {
		return e.compareServer(c, o)
	}
	// (entries carrying this case's token before the exchange are leftovers of a crashed
	// earlier run; Run removed them)
	exp := s.Exp
	if c.Soft && exp == "create" {
		exp = "either"
	}
	want := ""
	if exp != "reject" {
		i := strings.LastIndexByte(o.SentPath, '/')
		want = BaseDir + "/" + o.SentPath[i+1:]
	}
	// --- at the moment the result code is on the wire
	if s.Fault != "sendFail" && !s.Huge {
		if !o.ResultSeen {
			if exp == "reject" {
				return &Diff{Sig: sig(s, "no_failure_reply"), Detail: fmt.Sprintf("path %q: the client sent no result code (error %q)", o.SentPath, o.ClientErr)}
			}
			return &Diff{Broken: true, Detail: fmt.Sprintf("path %q: no result frame observed (client error %q)", o.SentPath, o.ClientErr)}
		}
		for _, p := range o.AtResult {
			if exp == "reject" {
				return &Diff{Sig: sig(s, "created_for_invalid_path"),
					Detail: fmt.Sprintf("server sent %q (%s): FSAuth expects no filesystem change, but %v exists when the client replies (result %d)", o.SentPath, whyInvalid(s), o.AtResult, o.Result)}
			}
			if p != want {
				return &Diff{Sig: sig(s, "created_elsewhere"),
					Detail: fmt.Sprintf("server sent %q: only %q may be created, found %v", o.SentPath, want, o.AtResult)}
			}
		}
		if len(o.AtResult) > 1 {
			return &Diff{Sig: sig(s, "more_than_one_created"), Detail: fmt.Sprintf("server sent %q: %v", o.SentPath, o.AtResult)}
		}
		switch {
		case exp == "reject" && o.Result != -1:
			return &Diff{Sig: sig(s, "no_failure_reply"),
				Detail: fmt.Sprintf("server sent %q (%s): expected the failure code -1, the client replied %d", o.SentPath, whyInvalid(s), o.Result)}
		case len(o.AtResult) == 0 && o.Result == 0:
			return &Diff{Sig: sig(s, "success_without_directory"),
				Detail: fmt.Sprintf("server sent %q: the client reported success but no directory exists", o.SentPath)}
		case len(o.AtResult) == 1 && o.Result != 0:
			return &Diff{Sig: sig(s, "directory_but_failure_reply"),
				Detail: fmt.Sprintf("server sent %q: %v exists but the client replied %d", o.SentPath, o.AtResult, o.Result)}
		case exp == "create" && len(o.AtResult) == 0:
			return &Diff{Broken: true, Detail: fmt.Sprintf("server sent the valid path %q and the client refused it (result %d): not a violation of C18 (one-sided), but the binding expects the design to create it", o.SentPath, o.Result)}
		}
	}
	// (an oversize message makes the client abandon the exchange; the next integer it
	// sends is the "no methods left" bitmask, which looks like a result code: not compared)
	// --- once the client has returned
	if len(o.After) > 0 {
		chk := "left_behind"
		if exp == "reject" {
			chk = "created_for_invalid_path"
		}
		return &Diff{Sig: sig(s, chk),
			Detail: fmt.Sprintf("server sent %q, fault %s%s: FSAuth!RemovedWhenComplete expects nothing left once the client exchange returned (error %q), found %v", o.SentPath, s.Fault, removerNote(s, o), o.ClientErr, o.After)}
	}
	if s.Fault != "none" && o.ClientErr == "" {
		return &Diff{Sig: sig(s, "success_despite_fault"), Detail: fmt.Sprintf("fault %s but ClientHandshake returned nil", s.Fault)}
	}
	if c.Own && s.Fault == "none" && s.Remover != "nobody" {
		if o.ClientErr != "" || !o.ServerKnown || o.Server.Err != "" {
			return &Diff{Broken: true, Detail: fmt.Sprintf("unmodified exchange failed: client %q server %+v", o.ClientErr, o.Server)}
		}
	}
	return nil
}

func removerNote(s Scn, o Obs) string {
	if s.Remover != "nobody" {
		return ""
	}
	return fmt.Sprintf(", the server does not remove the directory and answered the verdict %d", o.Verdict)
}

func (e *Env) compareServer(c Concrete, o Obs) *Diff {
	s := c.Scn
	if !o.ResultSeen || !o.ServerKnown {
		return &Diff{Broken: true, Detail: fmt.Sprintf("server-side case did not complete: %+v", o)}
	}
	accepted := o.VerdictSeen && o.Verdict == 0
	full := accepted && o.Server.Err == ""
	wantUser := ""
	if s.Owner == "other" {
		wantUser = e.OtherUsr
	} else {
		wantUser = currentUser()
	}
	switch s.Exp {
	case "reject":
		if accepted || (o.Server.Err == "" && o.Server.Meth == "FS") {
			return &Diff{Sig: sig(s, "server_accepted"),
				Detail: fmt.Sprintf("object %s%s at %s, client result %s: FSAuth expects the server to refuse, it answered %d and authenticated %q", s.Obj, o.ObjNote, o.ServerPath, s.Cres, o.Verdict, o.Server.User)}
		}
	case "accept":
		if !full {
			return &Diff{Broken: true, Detail: fmt.Sprintf("object %s%s: the server refused a real owner-only directory (verdict seen=%v %d, err %q)", s.Obj, o.ObjNote, o.VerdictSeen, o.Verdict, o.Server.Err)}
		}
	}
	if full && o.Server.User != wantUser {
		return &Diff{Sig: sig(s, "identity_not_owner"),
			Detail: fmt.Sprintf("object %s%s: the recorded identity is %q, the owner of the directory is %q", s.Obj, o.ObjNote, o.Server.User, wantUser)}
	}
	return nil
}
