package fsreplay

import (
	"encoding/binary"
	"errors"
	"io"
	"net"
	"sync"
	"time"
)

// EditConn wraps one endpoint's net.Conn and is the "frame-aware relay" of
// FSAuth.tla / DESIGN C18: it sees every CEDAR frame (1-byte end flag, 4-byte
// big-endian length, body) that endpoint reads or writes and may rewrite an
// inbound frame, observe an outbound frame before it reaches the wire, or
// break the connection at a frame boundary.  Addresses are those of the
// wrapped connection, so the endpoint still talks to the live TCP peer.
type EditConn struct {
	net.Conn
	// OnInbound is called with every complete inbound frame (before the
	// endpoint sees it); it returns the body to deliver instead.
	OnInbound func(end byte, body []byte) []byte
	// OnOutbound is called with every complete outbound frame before it is
	// written to the peer and returns the body to send instead; returning an
	// error makes the endpoint's Write fail and nothing of this frame reaches
	// the wire.
	OnOutbound func(end byte, body []byte) ([]byte, error)

	rmu     sync.Mutex
	rbuf    []byte
	wmu     sync.Mutex
	wbuf    []byte
	rbroken error
}

var ErrInjected = errors.New("connection reset by peer (injected)")

// ErrDrop, returned by OnOutbound, makes the relay swallow the frame: the
// endpoint's Write succeeds and nothing reaches the peer.
var ErrDrop = errors.New("editconn: drop frame")

// AnswerAndCutOff makes the relay itself answer: the endpoint's next Read
// delivers one frame with this body (end flag 1), every Read after it fails, and
// nothing more is taken from the real peer.
func (c *EditConn) AnswerAndCutOff(body []byte) {
	c.rmu.Lock()
	f := make([]byte, 5+len(body))
	f[0] = 1
	binary.BigEndian.PutUint32(f[1:5], uint32(len(body)))
	copy(f[5:], body)
	c.rbuf = append(c.rbuf, f...)
	c.rbroken = ErrInjected
	c.rmu.Unlock()
}

// BreakReads makes every later Read fail (the peer's reply is lost).
func (c *EditConn) BreakReads() {
	c.rmu.Lock()
	c.rbroken = ErrInjected
	c.rmu.Unlock()
	_ = c.Conn.SetReadDeadline(time.Unix(1, 0))
}

func (c *EditConn) Read(p []byte) (int, error) {
	c.rmu.Lock()
	defer c.rmu.Unlock()
	if len(c.rbuf) == 0 {
		if c.rbroken != nil {
			return 0, c.rbroken
		}
		var h [5]byte
		if _, err := io.ReadFull(c.Conn, h[:]); err != nil {
			if c.rbroken != nil {
				return 0, c.rbroken
			}
			return 0, err
		}
		n := binary.BigEndian.Uint32(h[1:5])
		if n > 8<<20 {
			return 0, errors.New("editconn: oversized frame")
		}
		body := make([]byte, n)
		if _, err := io.ReadFull(c.Conn, body); err != nil {
			return 0, err
		}
		if c.OnInbound != nil {
			body = c.OnInbound(h[0], body)
		}
		out := make([]byte, 5+len(body))
		out[0] = h[0]
		binary.BigEndian.PutUint32(out[1:5], uint32(len(body)))
		copy(out[5:], body)
		c.rbuf = out
	}
	n := copy(p, c.rbuf)
	c.rbuf = c.rbuf[n:]
	return n, nil
}

func (c *EditConn) Write(p []byte) (int, error) {
	c.wmu.Lock()
	defer c.wmu.Unlock()
	c.wbuf = append(c.wbuf, p...)
	for len(c.wbuf) >= 5 {
		n := int(binary.BigEndian.Uint32(c.wbuf[1:5]))
		if len(c.wbuf) < 5+n {
			break
		}
		frame := c.wbuf[:5+n]
		if c.OnOutbound != nil {
			nb, err := c.OnOutbound(frame[0], frame[5:])
			if err == ErrDrop {
				c.wbuf = c.wbuf[5+n:]
				continue
			}
			if err != nil {
				c.wbuf = nil
				return 0, err
			}
			if nb != nil {
				nf := make([]byte, 5+len(nb))
				nf[0] = frame[0]
				binary.BigEndian.PutUint32(nf[1:5], uint32(len(nb)))
				copy(nf[5:], nb)
				frame = nf
			}
		}
		if _, err := c.Conn.Write(frame); err != nil {
			c.wbuf = nil
			return 0, err
		}
		c.wbuf = c.wbuf[5+n:]
	}
	return len(p), nil
}
