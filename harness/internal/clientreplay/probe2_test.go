package clientreplay

import (
	"context"
	"net"
	"testing"
	"time"

	"github.com/bbockelm/cedar/client"
	"github.com/bbockelm/cedar/security"
	"github.com/bbockelm/cedar/server"
	"github.com/bbockelm/cedar/stream"
)

func never() *security.SecurityConfig {
	return &security.SecurityConfig{Authentication: security.SecurityNever, Encryption: security.SecurityNever, Integrity: security.SecurityNever}
}

func TestProbeCCB(t *testing.T) {
	ln, _ := net.Listen("tcp", "127.0.0.1:0")
	defer ln.Close()
	acc := make(chan net.Conn, 10)
	go func() {
		for {
			c, err := ln.Accept()
			if err != nil {
				return
			}
			acc <- c
		}
	}()
	addr := "<127.0.0.1:1?ccbid=" + ln.Addr().String() + "%231&noUDP>"
	c4 := client.NewClient(&client.ClientConfig{Address: addr, Timeout: 2 * time.Second, Security: never()})
	ctx2, cancel2 := context.WithCancel(context.Background())
	go func() { time.Sleep(300 * time.Millisecond); cancel2() }()
	t0 := time.Now()
	t.Logf("ccb stall+cancel: %v after %v isconn=%v", c4.Connect(ctx2), time.Since(t0), c4.IsConnected())
	select {
	case p := <-acc:
		p.SetReadDeadline(time.Now().Add(300 * time.Millisecond))
		b := make([]byte, 64)
		n, err := p.Read(b)
		t.Logf("ccb broker peer got %d bytes %x err=%v", n, b[:n], err)
		for err == nil {
			n, err = p.Read(b)
		}
		t.Logf("ccb broker peer then %d err=%v", n, err)
	case <-time.After(time.Second):
		t.Logf("no ccb conn")
	}
	c5 := client.NewClient(&client.ClientConfig{Address: addr, Timeout: 2 * time.Second})
	t.Logf("ccb nil security: %v", c5.Connect(context.Background()))
	c6 := client.NewClient(&client.ClientConfig{Address: addr, Timeout: 1 * time.Second, Security: never()})
	t0 = time.Now()
	t.Logf("ccb stall, live ctx: %v after %v", c6.Connect(context.Background()), time.Since(t0))
}

func TestProbeCA(t *testing.T) {
	for _, pol := range []string{"never", "claim"} {
		var scfg, ccfg *security.SecurityConfig
		if pol == "never" {
			scfg, ccfg = never(), never()
		} else {
			scfg = &security.SecurityConfig{AuthMethods: []security.AuthMethod{security.AuthClaimToBe}, CryptoMethods: []security.CryptoMethod{security.CryptoAES},
				Authentication: security.SecurityRequired, Encryption: security.SecurityRequired, Integrity: security.SecurityOptional}
			c := *scfg
			ccfg = &c
			ccfg.TrustDomain = "x"
		}
		scfg.SessionCache = security.NewSessionCache()
		ccfg.SessionCache = security.NewSessionCache()
		ccfg.Command = 60007
		srv := server.New(scfg)
		got := make(chan *security.SecurityNegotiation, 4)
		srv.Handle(60007, func(ctx context.Context, c *server.Conn) error { got <- c.Negotiation; return nil })
		ln, _ := net.Listen("tcp", "127.0.0.1:0")
		ctx, cancel := context.WithCancel(context.Background())
		done := make(chan error, 1)
		go func() { done <- srv.Serve(ctx, ln) }()
		ccfg.PeerName = "<" + ln.Addr().String() + ">"
		for i := 0; i < 2; i++ {
			cl, err := client.ConnectAndAuthenticateWithConfig(context.Background(), &client.ClientConfig{Address: ln.Addr().String(), Security: ccfg})
			if err != nil {
				t.Logf("%s: CA err %v", pol, err)
				continue
			}
			n := cl.GetSecurityNegotiation()
			t.Logf("%s #%d: isconn=%v neg: auth=%v enc=%v method=%v user=%q sid=%q resumed?", pol, i, cl.IsConnected(), n.Authentication, n.Encryption, n.NegotiatedAuth, n.User, n.SessionId)
			select {
			case sn := <-got:
				t.Logf("   server: auth=%v enc=%v method=%v user=%q sid=%q", sn.Authentication, sn.Encryption, sn.NegotiatedAuth, sn.User, sn.SessionId)
			case <-time.After(2 * time.Second):
				t.Logf("   server handler not run")
			}
			cl.Close()
		}
		// stale session: new server with empty cache on the same port
		cancel()
		t.Logf("serve returned %v", <-done)
		ln2, err := net.Listen("tcp", ln.Addr().String())
		t.Logf("relisten: %v", err)
		if err == nil {
			scfg2 := *scfg
			scfg2.SessionCache = security.NewSessionCache()
			srv2 := server.New(&scfg2)
			srv2.Handle(60007, func(ctx context.Context, c *server.Conn) error { got <- c.Negotiation; return nil })
			ctx2, cancel2 := context.WithCancel(context.Background())
			go srv2.Serve(ctx2, ln2)
			cl, err := client.ConnectAndAuthenticateWithConfig(context.Background(), &client.ClientConfig{Address: ln.Addr().String(), Security: ccfg})
			t.Logf("%s stale: err=%v", pol, err)
			if err == nil {
				n := cl.GetSecurityNegotiation()
				t.Logf("   neg: auth=%v enc=%v method=%v sid=%q", n.Authentication, n.Encryption, n.NegotiatedAuth, n.SessionId)
				cl.Close()
			}
			cancel2()
		}
	}
}

func TestProbeKA(t *testing.T) {
	ln, _ := net.Listen("tcp", "127.0.0.1:0")
	defer ln.Close()
	go func() {
		for {
			c, err := ln.Accept()
			if err != nil {
				return
			}
			defer c.Close()
		}
	}()
	plain, _ := net.Dial("tcp", ln.Addr().String())
	t.Log("plain:", readKA(plain))
	for _, ka := range []*stream.KeepAliveConfig{nil, {}, {Enable: true}, {Enable: true, Idle: 77 * time.Second, Count: -3, Interval: 1500 * time.Millisecond}} {
		for _, a := range []string{ln.Addr().String(), ln.Addr().String() + "?sock=a"} {
			c := client.NewClient(&client.ClientConfig{Address: a, KeepAlive: ka})
			if err := c.Connect(context.Background()); err != nil {
				t.Fatal(err)
			}
			t.Logf("%v %s: %v", ka, a, readKA(c.GetStream().GetConnection()))
			c.Close()
		}
	}
}
