package clientreplay

import (
	"context"
	"encoding/binary"
	"encoding/json"
	"fmt"
	"net"
	"strings"
	"time"

	"github.com/bbockelm/cedar/client"
	"github.com/bbockelm/cedar/commands"
	"github.com/bbockelm/cedar/server"
	"github.com/bbockelm/cedar/stream"
)

// KARow / RouteRow are the rows Gen_ClientConn prints for the two tables.
type KAIn struct {
	Given bool   `json:"given"`
	En    bool   `json:"en"`
	Idle  string `json:"idle"`
	Intvl string `json:"intvl"`
	Cnt   string `json:"cnt"`
}
type KAEff struct {
	On    bool   `json:"on"`
	Idle  string `json:"idle"`
	Intvl string `json:"intvl"`
	Cnt   string `json:"cnt"`
}
type KARow struct {
	In  KAIn  `json:"in"`
	Eff KAEff `json:"eff"`
}
type AddrIn struct {
	CCB   string `json:"ccb"`
	Sock  string `json:"sock"`
	Empty bool   `json:"empty"`
}
type RouteRow struct {
	In    AddrIn `json:"in"`
	Route string `json:"route"`
}

// ParseRows splits the table rows.
func ParseRows(raws []json.RawMessage) (ka []KARow, rt []RouteRow, err error) {
	seen := map[string]bool{}
	for _, r := range raws {
		var w struct {
			Scn *struct {
				T     string          `json:"t"`
				In    json.RawMessage `json:"in"`
				Eff   *KAEff          `json:"eff"`
				Route string          `json:"route"`
			} `json:"scn"`
		}
		if e := json.Unmarshal(r, &w); e != nil {
			return nil, nil, e
		}
		if w.Scn == nil || seen[string(r)] {
			continue
		}
		seen[string(r)] = true
		switch w.Scn.T {
		case "ka":
			row := KARow{Eff: *w.Scn.Eff}
			if e := json.Unmarshal(w.Scn.In, &row.In); e != nil {
				return nil, nil, e
			}
			ka = append(ka, row)
		case "route":
			row := RouteRow{Route: w.Scn.Route}
			if e := json.Unmarshal(w.Scn.In, &row.In); e != nil {
				return nil, nil, e
			}
			rt = append(rt, row)
		}
	}
	return
}

// concrete value of a field class (which: 0 idle seconds, 1 interval seconds, 2 probe count)
func kaVal(class string, salt, which int) int {
	switch class {
	case "pos":
		return [][]int{{7, 33, 77, 120, 600, 1800}, {1, 3, 6, 11, 30, 75}, {2, 3, 4, 6, 9, 12}}[which][(salt+which)%6]
	case "neg":
		return -1 - (salt+which)%5
	}
	return 0
}

// KAPaths: where the configuration ends up on a socket.
var KAPaths = []string{"direct", "shared", "accepted"}

// RunKA applies one row on one path and compares the kernel's view of the socket.
// It returns "" or a description of the difference, and what was observed.
func RunKA(row KARow, path string, salt int) (diff string, observed string, envErr error) {
	var cfg *stream.KeepAliveConfig
	vi, vn, vc := 0, 0, 0
	if row.In.Given {
		vi, vn, vc = kaVal(row.In.Idle, salt, 0), kaVal(row.In.Intvl, salt, 1), kaVal(row.In.Cnt, salt, 2)
		cfg = &stream.KeepAliveConfig{Enable: row.In.En, Idle: time.Duration(vi) * time.Second, Interval: time.Duration(vn) * time.Second, Count: vc}
	}
	var got, base KAObs
	switch path {
	case "direct", "shared":
		ln, err := net.Listen("tcp", "127.0.0.1:0")
		if err != nil {
			return "", "", err
		}
		defer ln.Close()
		go func() {
			for {
				c, err := ln.Accept()
				if err != nil {
					return
				}
				defer c.Close()
			}
		}()
		pc, err := net.Dial("tcp", ln.Addr().String())
		if err != nil {
			return "", "", err
		}
		base = readKA(pc)
		_ = pc.Close()
		addr := ln.Addr().String()
		if path == "shared" {
			addr += "?sock=verif"
		}
		cl := client.NewClient(&client.ClientConfig{Address: addr, KeepAlive: cfg, Timeout: 5 * time.Second})
		if err := cl.Connect(context.Background()); err != nil {
			return "Connect failed: " + err.Error(), "", nil
		}
		got = readKA(cl.GetStream().GetConnection())
		_ = cl.Close()
	case "accepted":
		// baseline: what a plain accepted socket looks like
		bl, err := net.Listen("tcp", "127.0.0.1:0")
		if err != nil {
			return "", "", err
		}
		bc, err := net.Dial("tcp", bl.Addr().String())
		if err != nil {
			_ = bl.Close()
			return "", "", err
		}
		ba, err := bl.Accept()
		if err != nil {
			_ = bl.Close()
			return "", "", err
		}
		base = readKA(ba)
		_ = ba.Close()
		_ = bc.Close()
		_ = bl.Close()

		srv := server.New(neverCfg())
		if cfg != nil {
			srv.KeepAlive = *cfg
		}
		ch := make(chan KAObs, 1)
		srv.HandleRaw(61001, func(ctx context.Context, c *server.Conn) error {
			ch <- readKA(c.Stream.GetConnection())
			return nil
		})
		ln, err := net.Listen("tcp", "127.0.0.1:0")
		if err != nil {
			return "", "", err
		}
		ctx, cancel := context.WithCancel(context.Background())
		defer cancel()
		go func() { _ = srv.Serve(ctx, ln) }()
		c, err := net.Dial("tcp", ln.Addr().String())
		if err != nil {
			return "", "", err
		}
		defer c.Close()
		_, _ = c.Write(frame(1, int64be(61001)))
		select {
		case got = <-ch:
		case <-time.After(10 * time.Second):
			return "", "", fmt.Errorf("accepted-path handler never ran")
		}
	}
	if got.Err != "" || base.Err != "" {
		return "", "", fmt.Errorf("getsockopt: %s %s", got.Err, base.Err)
	}
	observed = got.String()
	if got.On != row.Eff.On {
		return fmt.Sprintf("SO_KEEPALIVE=%v, the table says %v", got.On, row.Eff.On), observed, nil
	}
	if !got.On {
		return "", observed, nil
	}
	chk := func(name, eff string, have, given, baseV, def int) string {
		want := -1
		switch eff {
		case "given":
			want = given
		case "base":
			want = baseV
		case "any":
			return ""
		default:
			want = def
		}
		if have != want {
			return fmt.Sprintf("%s=%d, the table says %s=%d; ", name, have, eff, want)
		}
		return ""
	}
	d := chk("TCP_KEEPIDLE", row.Eff.Idle, got.Idle, vi, base.Idle, 360) +
		chk("TCP_KEEPINTVL", row.Eff.Intvl, got.Interval, vn, base.Interval, 5) +
		chk("TCP_KEEPCNT", row.Eff.Cnt, got.Count, vc, base.Count, 5)
	return strings.TrimSpace(d), observed, nil
}

// RunRoute builds an address of the row's class and observes where Connect goes.
func RunRoute(row RouteRow, salt int) (diff string, observed string, envErr error) {
	prim, err := NewPeer("never")
	if err != nil {
		return "", "", err
	}
	defer prim.Shutdown()
	brok, err := NewPeer("never")
	if err != nil {
		return "", "", err
	}
	defer brok.Shutdown()
	if err := prim.SetMode(EnvStall); err != nil {
		return "", "", err
	}
	if err := brok.SetMode(EnvStall); err != nil {
		return "", "", err
	}
	sockID := []string{"verif", "schedd_1234_ab", "x.y-z"}[salt%3]
	var params []string
	switch row.In.CCB {
	case "ok":
		params = append(params, "ccbid="+brok.Addr+"%23"+fmt.Sprint(7+salt%50))
	case "nohash":
		params = append(params, "ccbid="+brok.Addr)
	}
	switch row.In.Sock {
	case "ok":
		params = append(params, "sock="+sockID)
	case "bad":
		params = append(params, "sock="+[]string{"bad!id", "a b", "semi:colon"}[salt%3])
	}
	if salt&4 != 0 {
		params = append(params, "noUDP")
	}
	if salt&8 != 0 {
		params = append([]string{"alias=verif.example"}, params...)
	}
	addr := prim.Addr
	if len(params) > 0 {
		addr += "?" + strings.Join(params, "&")
	}
	if salt&16 != 0 || row.In.CCB != "none" {
		addr = "<" + addr + ">"
	}
	cfg := &client.ClientConfig{Address: addr, Timeout: 20 * time.Second, Security: neverCfg()}
	if row.In.Empty {
		cfg.Address = ""
		if salt&1 != 0 {
			cfg.Host = "127.0.0.1" // Port 0: not a usable legacy address either
		}
	} else if len(params) == 0 && salt&32 != 0 {
		cfg.Address, cfg.Host, cfg.Port = "", "127.0.0.1", prim.Port // the deprecated spelling of a direct address
	}
	cl := client.NewClient(cfg)
	ctx, cancel := context.WithCancel(context.Background())
	defer cancel()
	done := make(chan error, 1)
	go func() { done <- cl.Connect(ctx) }()
	// Connect returns by itself (direct, shared port, error) or blocks on the silent broker
	// (CCB): then its context is cancelled.  Afterwards the client is closed, so that the
	// peers see EOF after everything the client said.
	var cerr error
	returned := false
	for w := 0; !returned; w++ {
		select {
		case cerr = <-done:
			returned = true
			continue
		case <-time.After(2 * time.Millisecond):
		}
		if bc := brok.Conns(); len(bc) > 0 && len(bc[0].firstBytes()) >= 13 {
			cancel() // the broker was asked: nothing more will come of it
		}
		if w > 30000 {
			return "Connect did not return", "", nil
		}
	}
	cancel()
	_ = cl.Close()
	// the connection of a successful Connect sits in the peer's accept queue at the latest now
	for w := 0; cerr == nil && w < 20000 && len(prim.Conns())+len(brok.Conns()) == 0; w++ {
		time.Sleep(time.Millisecond)
	}
	if cerr != nil {
		time.Sleep(20 * time.Millisecond)
	}
	all := append(prim.Conns(), brok.Conns()...)
	for _, oc := range all {
		for w := 0; w < 5000 && !oc.sawEOF(); w++ {
			time.Sleep(time.Millisecond)
		}
		if !oc.sawEOF() {
			return fmt.Sprintf("address %q: 5 s after Close (Connect had returned %v) the peer still sees an open connection", cfg.Address, cerr), "open after Close", nil
		}
	}
	got := "error"
	switch {
	case len(brok.Conns()) > 0:
		got = "ccb"
		fb := brok.Conns()[0].firstBytes()
		if len(fb) < 13 || int(binary.BigEndian.Uint64(fb[5:13])) != commands.DC_AUTHENTICATE {
			got = fmt.Sprintf("broker got %x", fb)
		}
	case len(prim.Conns()) > 0:
		fb := prim.Conns()[0].firstBytes()
		switch {
		case len(fb) == 0:
			got = "direct"
		case len(fb) >= 13 && int(binary.BigEndian.Uint64(fb[5:13])) == commands.SHARED_PORT_CONNECT && strings.Contains(string(fb), sockID):
			got = "shared"
		default:
			got = fmt.Sprintf("primary got %x", fb)
		}
	}
	observed = fmt.Sprintf("%s (Connect: %v)", got, cerr)
	if got != row.Route {
		return fmt.Sprintf("address %q was routed %s, the table says %s", cfg.Address, got, row.Route), observed, nil
	}
	if (got == "direct" || got == "shared") && cerr != nil {
		return fmt.Sprintf("address %q: Connect failed on an accepting peer: %v", cfg.Address, cerr), observed, nil
	}
	if got == "error" && cerr == nil {
		return fmt.Sprintf("address %q: Connect returned nil without contacting anyone", cfg.Address), observed, nil
	}
	return "", observed, nil
}
