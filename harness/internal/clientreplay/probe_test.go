package clientreplay

import (
	"context"
	"fmt"
	"net"
	"syscall"
	"testing"
	"time"

	"github.com/bbockelm/cedar/client"
	"github.com/bbockelm/cedar/security"
)

// stalled listener: backlog 0, never accepts, pre-filled
func stallListener(t *testing.T) (addr string, cleanup func()) {
	fd, err := syscall.Socket(syscall.AF_INET, syscall.SOCK_STREAM, 0)
	if err != nil {
		t.Fatal(err)
	}
	_ = syscall.SetsockoptInt(fd, syscall.SOL_SOCKET, syscall.SO_REUSEADDR, 1)
	sa := &syscall.SockaddrInet4{Port: 0, Addr: [4]byte{127, 0, 0, 1}}
	if err := syscall.Bind(fd, sa); err != nil {
		t.Fatal(err)
	}
	if err := syscall.Listen(fd, 0); err != nil {
		t.Fatal(err)
	}
	lsa, _ := syscall.Getsockname(fd)
	port := lsa.(*syscall.SockaddrInet4).Port
	addr = fmt.Sprintf("127.0.0.1:%d", port)
	var fill []net.Conn
	for i := 0; i < 8; i++ {
		c, err := net.DialTimeout("tcp", addr, 300*time.Millisecond)
		if err != nil {
			t.Logf("fill %d: %v", i, err)
			break
		}
		fill = append(fill, c)
	}
	t.Logf("filled with %d conns", len(fill))
	return addr, func() {
		for _, c := range fill {
			c.Close()
		}
		syscall.Close(fd)
	}
}

func TestProbeStall(t *testing.T) {
	addr, cl := stallListener(t)
	defer cl()
	for _, route := range []string{"direct", "shared"} {
		a := addr
		if route == "shared" {
			a = addr + "?sock=foo"
		}
		c := client.NewClient(&client.ClientConfig{Address: a, Timeout: 3 * time.Second})
		ctx, cancel := context.WithCancel(context.Background())
		t0 := time.Now()
		go func() { time.Sleep(200 * time.Millisecond); cancel() }()
		err := c.Connect(ctx)
		t.Logf("%s: Connect returned after %v: %v  isconn=%v", route, time.Since(t0), err, c.IsConnected())
	}
}

func TestProbeBasics(t *testing.T) {
	ln, _ := net.Listen("tcp", "127.0.0.1:0")
	defer ln.Close()
	acc := make(chan net.Conn, 10)
	go func() {
		for {
			c, err := ln.Accept()
			if err != nil {
				return
			}
			acc <- c
		}
	}()
	c := client.NewClient(&client.ClientConfig{Address: ln.Addr().String()})
	t.Logf("close before connect: %v isconn=%v", c.Close(), c.IsConnected())
	t.Logf("connect: %v isconn=%v", c.Connect(context.Background()), c.IsConnected())
	p1 := <-acc
	t.Logf("connect2: %v isconn=%v", c.Connect(context.Background()), c.IsConnected())
	p2 := <-acc
	p1.SetReadDeadline(time.Now().Add(300 * time.Millisecond))
	_, err := p1.Read(make([]byte, 1))
	t.Logf("peer1 read after connect2: %v", err)
	t.Logf("close: %v isconn=%v", c.Close(), c.IsConnected())
	p2.SetReadDeadline(time.Now().Add(300 * time.Millisecond))
	_, err = p2.Read(make([]byte, 1))
	t.Logf("peer2 read after close: %v", err)
	t.Logf("close2: %v isconn=%v", c.Close(), c.IsConnected())
	t.Logf("connect after close: %v isconn=%v", c.Connect(context.Background()), c.IsConnected())
	// precancelled
	ctx, cancel := context.WithCancel(context.Background())
	cancel()
	c2 := client.NewClient(&client.ClientConfig{Address: ln.Addr().String()})
	t.Logf("direct precancelled: %v isconn=%v", c2.Connect(ctx), c2.IsConnected())
	c3 := client.NewClient(&client.ClientConfig{Address: ln.Addr().String() + "?sock=x"})
	t.Logf("shared precancelled: %v isconn=%v stream=%v", c3.Connect(ctx), c3.IsConnected(), c3.GetStream())
	// ccb route
	c4 := client.NewClient(&client.ClientConfig{Address: "<127.0.0.1:1?CCBID=" + ln.Addr().String() + "%231&noUDP>", Timeout: 2 * time.Second,
		Security: &security.SecurityConfig{Authentication: security.SecurityNever, Encryption: security.SecurityNever, Integrity: security.SecurityNever}})
	ctx2, cancel2 := context.WithCancel(context.Background())
	go func() { time.Sleep(300 * time.Millisecond); cancel2() }()
	t0 := time.Now()
	t.Logf("ccb stall+cancel: %v after %v isconn=%v", c4.Connect(ctx2), time.Since(t0), c4.IsConnected())
	select {
	case p := <-acc:
		p.SetReadDeadline(time.Now().Add(300 * time.Millisecond))
		b := make([]byte, 64)
		n, err := p.Read(b)
		t.Logf("ccb broker peer got %d bytes %x err=%v", n, b[:n], err)
		n, err = p.Read(b)
		t.Logf("ccb broker peer then %d err=%v", n, err)
	case <-time.After(time.Second):
		t.Logf("no ccb conn")
	}
	c5 := client.NewClient(&client.ClientConfig{Address: "<127.0.0.1:1?CCBID=" + ln.Addr().String() + "%231&noUDP>", Timeout: 2 * time.Second})
	t.Logf("ccb nil security: %v", c5.Connect(context.Background()))
}
