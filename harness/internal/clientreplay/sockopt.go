package clientreplay

import (
	"fmt"
	"net"
	"syscall"
)

// KAObs is the kernel's view of a socket's keep-alive options.
type KAObs struct {
	On                    bool
	Idle, Interval, Count int
	Err                   string
}

func (k KAObs) String() string {
	return fmt.Sprintf("on=%v idle=%d intvl=%d cnt=%d %s", k.On, k.Idle, k.Interval, k.Count, k.Err)
}

// readKA reads SO_KEEPALIVE / TCP_KEEPIDLE / TCP_KEEPINTVL / TCP_KEEPCNT back from a TCP connection.
func readKA(c net.Conn) KAObs {
	tc, ok := c.(*net.TCPConn)
	if !ok {
		return KAObs{Err: "not tcp"}
	}
	rc, err := tc.SyscallConn()
	if err != nil {
		return KAObs{Err: err.Error()}
	}
	var o KAObs
	cerr := rc.Control(func(fd uintptr) {
		get := func(level, opt int) int {
			v, e := syscall.GetsockoptInt(int(fd), level, opt)
			if e != nil && o.Err == "" {
				o.Err = e.Error()
			}
			return v
		}
		o.On = get(syscall.SOL_SOCKET, syscall.SO_KEEPALIVE) != 0
		o.Idle = get(syscall.IPPROTO_TCP, syscall.TCP_KEEPIDLE)
		o.Interval = get(syscall.IPPROTO_TCP, syscall.TCP_KEEPINTVL)
		o.Count = get(syscall.IPPROTO_TCP, syscall.TCP_KEEPCNT)
	})
	if cerr != nil {
		o.Err = cerr.Error()
	}
	return o
}
