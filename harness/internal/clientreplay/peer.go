// Package clientreplay binds ClientConn.tla (growth module G07) to the real
// code: client.HTCondorClient against a scripted loopback peer, server.Server's
// accept loop against scripted loopback clients, and the keep-alive / routing
// tables against what the real client and server do to real sockets.
package clientreplay

import (
	"context"
	"errors"
	"fmt"
	"io"
	"net"
	"os"
	"sync"
	"syscall"
	"time"

	"github.com/bbockelm/cedar/security"
	"github.com/bbockelm/cedar/server"
)

// Environment modes of the scripted peer (ClientConn.tla EnvsNew / EnvsCA).
const (
	EnvAbsent    = "absent"    // port bound, nobody listens: the dial is refused
	EnvDialStall = "dialstall" // listening with a full accept queue: the dial never completes
	EnvClose     = "close"     // accepts, sends FIN at once (keeps reading to see the client's EOF)
	EnvStall     = "stall"     // accepts, reads, never answers
	EnvGarbage   = "garbage"   // accepts, answers with bytes that are no CEDAR frame
	EnvServe     = "serve"     // accepts, cedar's server package performs the handshake, the handler keeps the connection
	EnvReject    = "reject"    // accepts, cedar's server package with a policy the client cannot meet
)

// obsConn is one connection accepted by the scripted peer.
type obsConn struct {
	net.Conn
	rport int // the client's local port
	mode  string

	mu      sync.Mutex
	first   []byte // first bytes received (at most 256)
	eof     bool   // the client's end is closed (EOF or reset seen)
	half    bool   // we already sent FIN
	drainer bool
	neg     *security.SecurityNegotiation
}

func (o *obsConn) note(b []byte, err error) {
	o.mu.Lock()
	if len(b) > 0 && len(o.first) < 256 {
		n := 256 - len(o.first)
		if n > len(b) {
			n = len(b)
		}
		o.first = append(o.first, b[:n]...)
	}
	if err != nil && !errors.Is(err, os.ErrDeadlineExceeded) {
		o.eof = true
	}
	o.mu.Unlock()
}

// Read passes through and records what arrives (used by cedar's server in serve mode).
func (o *obsConn) Read(b []byte) (int, error) {
	n, err := o.Conn.Read(b)
	o.note(b[:n], err)
	return n, err
}

// Close only half-closes: the peer wants to see when the CLIENT closes.
func (o *obsConn) Close() error {
	o.mu.Lock()
	start := !o.drainer
	o.drainer = true
	o.half = true
	o.mu.Unlock()
	if tc, ok := o.Conn.(*net.TCPConn); ok {
		_ = tc.CloseWrite()
	}
	if start {
		go o.drain()
	}
	return nil
}

func (o *obsConn) drain() {
	buf := make([]byte, 4096)
	for {
		n, err := o.Conn.Read(buf)
		o.note(buf[:n], err)
		if err != nil {
			return
		}
	}
}

// eatMessage reads one complete CEDAR message (frames up to the end flag).
func (o *obsConn) eatMessage() bool {
	for {
		hdr := make([]byte, 5)
		if _, err := io.ReadFull(o, hdr); err != nil {
			return false
		}
		n := int(hdr[1])<<24 | int(hdr[2])<<16 | int(hdr[3])<<8 | int(hdr[4])
		if n < 0 || n > 1<<20 {
			return false
		}
		if _, err := io.ReadFull(o, make([]byte, n)); err != nil {
			return false
		}
		if hdr[0] != 0 {
			return true
		}
	}
}

func (o *obsConn) sawEOF() bool { o.mu.Lock(); defer o.mu.Unlock(); return o.eof }
func (o *obsConn) firstBytes() []byte {
	o.mu.Lock()
	defer o.mu.Unlock()
	return append([]byte(nil), o.first...)
}

// Peer is the scripted environment of one client: one loopback port whose
// behaviour is switched between the calls of a script.
type Peer struct {
	Port int
	Addr string // 127.0.0.1:port

	mu      sync.Mutex
	mode    string
	lfd     int // raw listening / bound socket, -1 if none
	ln      net.Listener
	fillers []net.Conn
	fillerP map[int]bool
	conns   []*obsConn
	gen     int

	srvOK, srvReject *server.Server
	ctx              context.Context
	cancel           context.CancelFunc
	policy           string // "never" | "claim"
	// SharedFront: the client comes over the shared-port route; like condor_shared_port the
	// peer consumes the SHARED_PORT_CONNECT request before the daemon behind it sees the socket
	SharedFront bool
}

// CmdClient is the command the client names in its handshake (an arbitrary registered number).
const CmdClient = 61020

func neverCfg() *security.SecurityConfig {
	return &security.SecurityConfig{AuthMethods: []security.AuthMethod{}, Authentication: security.SecurityNever,
		Encryption: security.SecurityNever, Integrity: security.SecurityNever, SessionCache: security.NewSessionCache()}
}

func claimCfg() *security.SecurityConfig {
	return &security.SecurityConfig{AuthMethods: []security.AuthMethod{security.AuthClaimToBe},
		CryptoMethods:  []security.CryptoMethod{security.CryptoAES},
		Authentication: security.SecurityRequired, Encryption: security.SecurityRequired, Integrity: security.SecurityOptional,
		SessionCache: security.NewSessionCache()}
}

// ClientSecurity is the client-side configuration matching the peer's serve policy.
func (p *Peer) ClientSecurity() *security.SecurityConfig {
	var c *security.SecurityConfig
	if p.policy == "claim" {
		c = claimCfg()
		c.TrustDomain = "verif"
	} else {
		c = neverCfg()
	}
	c.Command = CmdClient
	c.PeerName = "<" + p.Addr + ">"
	return c
}

func rawSocket(port int) (int, int, error) {
	fd, err := syscall.Socket(syscall.AF_INET, syscall.SOCK_STREAM|syscall.SOCK_CLOEXEC, 0)
	if err != nil {
		return -1, 0, err
	}
	_ = syscall.SetsockoptInt(fd, syscall.SOL_SOCKET, syscall.SO_REUSEADDR, 1)
	if err := syscall.Bind(fd, &syscall.SockaddrInet4{Port: port, Addr: [4]byte{127, 0, 0, 1}}); err != nil {
		_ = syscall.Close(fd)
		return -1, 0, err
	}
	sa, err := syscall.Getsockname(fd)
	if err != nil {
		_ = syscall.Close(fd)
		return -1, 0, err
	}
	return fd, sa.(*syscall.SockaddrInet4).Port, nil
}

// NewPeer reserves a loopback port (mode absent).
func NewPeer(policy string) (*Peer, error) {
	fd, port, err := rawSocket(0)
	if err != nil {
		return nil, err
	}
	p := &Peer{Port: port, Addr: fmt.Sprintf("127.0.0.1:%d", port), mode: EnvAbsent, lfd: fd, fillerP: map[int]bool{}, policy: policy}
	p.ctx, p.cancel = context.WithCancel(context.Background())
	okCfg := neverCfg()
	if policy == "claim" {
		okCfg = claimCfg()
	}
	p.srvOK = server.New(okCfg)
	p.srvOK.Handle(CmdClient, p.keepHandler)
	// a policy no client of the scripts can meet: authentication required, by a method none of them has
	rej := &security.SecurityConfig{AuthMethods: []security.AuthMethod{security.AuthToken}, Authentication: security.SecurityRequired,
		Encryption: security.SecurityRequired, Integrity: security.SecurityRequired, CryptoMethods: []security.CryptoMethod{security.CryptoAES},
		SessionCache: security.NewSessionCache()}
	p.srvReject = server.New(rej)
	p.srvReject.Handle(CmdClient, p.keepHandler)
	return p, nil
}

// keepHandler records the server's view of the handshake and keeps the connection
// (silently) so that the peer can watch for the client's EOF.
func (p *Peer) keepHandler(ctx context.Context, c *server.Conn) error {
	if oc, ok := c.Stream.GetConnection().(*obsConn); ok {
		oc.mu.Lock()
		oc.neg = c.Negotiation
		start := !oc.drainer
		oc.drainer = true
		oc.mu.Unlock()
		if start {
			go oc.drain()
		}
	}
	return server.KeepOpen()
}

func (p *Peer) closeListenerLocked() {
	if p.ln != nil {
		_ = p.ln.Close()
		p.ln = nil
	}
	if p.lfd >= 0 {
		_ = syscall.Close(p.lfd)
		p.lfd = -1
	}
	for _, f := range p.fillers {
		_ = f.Close()
	}
	p.fillers = nil
	p.gen++
}

// SetMode switches the port to another behaviour: the listening socket is replaced
// (connections accepted earlier are not touched).
func (p *Peer) SetMode(mode string) error {
	p.mu.Lock()
	defer p.mu.Unlock()
	if mode == p.mode && mode != EnvDialStall {
		return nil
	}
	accepting := func(m string) bool { return m != EnvAbsent && m != EnvDialStall }
	if accepting(mode) && accepting(p.mode) {
		p.mode = mode // the accept loop looks the mode up per connection
		return nil
	}
	p.closeListenerLocked()
	var fd int
	var err error
	for try := 0; try < 50; try++ {
		fd, _, err = rawSocket(p.Port)
		if err == nil {
			break
		}
		time.Sleep(2 * time.Millisecond)
	}
	if err != nil {
		return fmt.Errorf("cannot rebind port %d: %w", p.Port, err)
	}
	p.lfd = fd
	p.mode = mode
	switch mode {
	case EnvAbsent:
		return nil
	case EnvDialStall:
		if err := syscall.Listen(fd, 0); err != nil {
			return err
		}
		// fill the accept queue; a dial that times out proves it is full
		// (the first connection always fits and, with backlog 0, fills the queue on Linux; the
		// further attempts only guard against a kernel that rounds the backlog up)
		for i := 0; i < 6; i++ {
			to := 100 * time.Millisecond
			if i == 0 {
				to = 5 * time.Second // a loaded machine may take its time
			}
			c, err := net.DialTimeout("tcp", p.Addr, to)
			if err != nil {
				if i == 0 {
					return fmt.Errorf("cannot fill the accept queue: %w", err)
				}
				return nil
			}
			p.fillers = append(p.fillers, c)
			p.fillerP[c.LocalAddr().(*net.TCPAddr).Port] = true
		}
		return fmt.Errorf("accept queue of port %d never filled", p.Port)
	default:
		if err := syscall.Listen(fd, 128); err != nil {
			return err
		}
		f := os.NewFile(uintptr(fd), "verif-listener")
		ln, err := net.FileListener(f) // dups the descriptor
		_ = f.Close()
		p.lfd = -1
		if err != nil {
			return err
		}
		p.ln = ln
		go p.acceptLoop(ln)
		return nil
	}
}

func (p *Peer) acceptLoop(ln net.Listener) {
	for {
		c, err := ln.Accept()
		if err != nil {
			return
		}
		p.mu.Lock()
		mode := p.mode
		rport := c.RemoteAddr().(*net.TCPAddr).Port
		oc := &obsConn{Conn: c, rport: rport, mode: mode}
		p.conns = append(p.conns, oc)
		p.mu.Unlock()
		switch mode {
		case EnvClose:
			_ = oc.Close()
		case EnvGarbage:
			_, _ = c.Write([]byte("HTTP/1.1 400 Bad Request\r\n\r\n"))
			oc.mu.Lock()
			oc.drainer = true
			oc.mu.Unlock()
			go oc.drain()
		case EnvServe, EnvReject:
			srv := p.srvOK
			if mode == EnvReject {
				srv = p.srvReject
			}
			go func() {
				if p.SharedFront && !oc.eatMessage() {
					_ = oc.Close()
					return
				}
				_ = srv.ServeConn(p.ctx, oc)
			}()
		default: // stall
			oc.mu.Lock()
			oc.drainer = true
			oc.mu.Unlock()
			go oc.drain()
		}
	}
}

// Conn returns the accepted connection whose client-side port is rport.
func (p *Peer) Conn(rport int) *obsConn {
	p.mu.Lock()
	defer p.mu.Unlock()
	for _, c := range p.conns {
		if c.rport == rport {
			return c
		}
	}
	return nil
}

// Conns is a snapshot of all accepted connections.
func (p *Peer) Conns() []*obsConn {
	p.mu.Lock()
	defer p.mu.Unlock()
	return append([]*obsConn(nil), p.conns...)
}

// Unmatched counts accepted connections the client still holds open although it
// handed no stream for them to the user (known = client ports of streams handed out).
func (p *Peer) Unmatched(known map[int]bool) int {
	n := 0
	for _, c := range p.Conns() {
		if known[c.rport] || p.fillerP[c.rport] {
			continue
		}
		if !c.sawEOF() {
			n++
		}
	}
	return n
}

// Shutdown releases everything.
func (p *Peer) Shutdown() {
	p.cancel()
	p.mu.Lock()
	p.closeListenerLocked()
	conns := p.conns
	p.mu.Unlock()
	for _, c := range conns {
		_ = c.Conn.Close()
	}
}

var _ io.Closer = (*obsConn)(nil)
