package clientreplay

import (
	"context"
	"encoding/json"
	"fmt"
	"net"
	"sort"
	"strings"
	"sync"
	"time"

	"github.com/bbockelm/cedar/client"
	"github.com/bbockelm/cedar/security"
	"github.com/bbockelm/cedar/stream"
)

// CEntry is one entry of a Part C behaviour (Gen_ClientConn Obs).
type CEntry struct {
	C    string `json:"c"`
	E    string `json:"e"`
	X    string `json:"x"`
	R    string `json:"r,omitempty"`
	By   string `json:"by,omitempty"`
	IC   bool   `json:"ic"`
	NG   bool   `json:"ng"`
	ST   bool   `json:"st"`
	Open []bool `json:"open"`
	Leak int    `json:"leak"`
}

// Call is the part of an entry the harness controls.
type Call struct {
	C string `json:"c"`
	E string `json:"e"`
	X string `json:"x"`
}

func (e CEntry) call() Call { return Call{e.C, e.E, e.X} }

// local: what the caller sees; peer: what the scripted peer sees
func (e CEntry) local() string {
	if e.C == "read" {
		return "begin"
	}
	return fmt.Sprintf("r=%s by=%s ic=%v ng=%v st=%v", e.R, e.By, e.IC, e.NG, e.ST)
}
func (e CEntry) peer() string {
	if e.C == "read" {
		return ""
	}
	var b strings.Builder
	for _, o := range e.Open {
		if o {
			b.WriteByte('1')
		} else {
			b.WriteByte('0')
		}
	}
	return fmt.Sprintf("open=[%s] leak=%d", b.String(), e.Leak)
}
func (e CEntry) obs() string { return e.local() + " " + e.peer() }

// CScript identifies what the harness does.
type CScript struct {
	How   string `json:"how"`
	Route string `json:"route"`
	Sec   string `json:"sec"`
	Calls []Call `json:"calls"`
}

func (s CScript) Key() string {
	var b strings.Builder
	fmt.Fprintf(&b, "%s/%s/%s", s.How, s.Route, s.Sec)
	for _, c := range s.Calls {
		fmt.Fprintf(&b, ";%s(%s,%s)", c.C, c.E, c.X)
	}
	return b.String()
}

// CBeh is one admissible sequence of observations for a script, with the bugs
// that have to be active for it ("" = the intended design).
type CBeh struct {
	Obs []CEntry
	Act string
}

type CTable struct {
	Scripts []CScript
	Behs    map[string][]CBeh
	Pre     map[string][]*CBeh // by key of the first L calls: behaviours distinct in their first L observations
}

func (s CScript) prefix(L int) string {
	return CScript{How: s.How, Route: s.Route, Sec: s.Sec, Calls: s.Calls[:L]}.Key()
}

func actString(a []string) string {
	s := append([]string(nil), a...)
	sort.Strings(s)
	return strings.Join(s, "+")
}

// BuildCTable groups the behaviours TLC printed by script.
func BuildCTable(raws []json.RawMessage) (*CTable, error) {
	t := &CTable{Behs: map[string][]CBeh{}}
	seen := map[string]bool{}
	for _, r := range raws {
		var b struct {
			Trace []CEntry `json:"trace"`
			How   string   `json:"how"`
			Route string   `json:"route"`
			Sec   string   `json:"sec"`
			Act   []string `json:"act"`
		}
		if err := json.Unmarshal(r, &b); err != nil {
			return nil, err
		}
		if b.How == "" {
			continue // a table row, not a Part C behaviour
		}
		sc := CScript{How: b.How, Route: b.Route, Sec: b.Sec}
		for _, e := range b.Trace {
			sc.Calls = append(sc.Calls, e.call())
		}
		k := sc.Key()
		if _, ok := t.Behs[k]; !ok {
			t.Scripts = append(t.Scripts, sc)
		}
		beh := CBeh{Obs: b.Trace, Act: actString(b.Act)}
		var sig strings.Builder
		sig.WriteString(k + "|" + beh.Act)
		for _, e := range beh.Obs {
			sig.WriteString("|" + e.obs())
		}
		if seen[sig.String()] {
			continue
		}
		seen[sig.String()] = true
		t.Behs[k] = append(t.Behs[k], beh)
	}
	t.Pre = map[string][]*CBeh{}
	pseen := map[string]bool{}
	for _, sc := range t.Scripts {
		k := sc.Key()
		for bi := range t.Behs[k] {
			b := &t.Behs[k][bi]
			for L := 1; L <= len(b.Obs); L++ {
				pk := sc.prefix(L)
				sig := pk + "|" + b.Act
				for j := 0; j < L; j++ {
					sig += "|" + b.Obs[j].obs()
				}
				if pseen[sig] {
					continue
				}
				pseen[sig] = true
				t.Pre[pk] = append(t.Pre[pk], b)
			}
		}
	}
	return t, nil
}

// CParams are the concrete choices the model leaves open.
type CParams struct {
	Salt   int    `json:"salt"`
	Level  int    `json:"level"`  // 0 normal waits, 1 long (second run of a difference), 2 very long (third run)
	Policy string `json:"policy"` // "never" | "claim"
}

// CResult of one run.
type CResult struct {
	Truncated bool     // later calls are not enabled in any design that explains the run
	Observed  []string // per entry: local + peer observation
	Diff      string   // "" = some behaviour of the script explains the run
	DiffStep  int
	Acts      []string // bug sets of the behaviours that explain the run ("" = intended)
	NegMatch  int      // handshakes whose client-side outcome was compared with the server's
	EnvErr    error
}

type timing struct {
	tLive, tCtx  time.Duration // ClientConfig.Timeout for live / non-live contexts
	cancelAt     time.Duration
	settle, hold time.Duration
}

func timingFor(level int) timing {
	switch level {
	case 1:
		return timing{tLive: 3 * time.Second, tCtx: 12 * time.Second, cancelAt: 150 * time.Millisecond, settle: 10 * time.Second, hold: 200 * time.Millisecond}
	case 2: // a machine on which this still looks wrong is not merely slow
		return timing{tLive: 30 * time.Second, tCtx: 60 * time.Second, cancelAt: 150 * time.Millisecond, settle: 40 * time.Second, hold: 500 * time.Millisecond}
	}
	return timing{tLive: 700 * time.Millisecond, tCtx: 2500 * time.Millisecond, cancelAt: 100 * time.Millisecond, settle: 2 * time.Second, hold: 30 * time.Millisecond}
}

type crun struct {
	sc    CScript
	p     CParams
	tm    timing
	peer  *Peer
	cfg   *client.ClientConfig
	cl    *client.HTCondorClient
	socks []int // client ports of the streams handed to the user, in order
	known map[int]bool
	held  []*stream.Stream // keeps every stream reachable (no finalizer closes a leaked socket)
	secC  *security.SecurityConfig

	readDone chan error
	negMatch int
	panicked string
}

func (r *crun) address() string {
	switch r.sc.Route {
	case "shared":
		id := []string{"verif", "daemon_7", "a.b-c"}[r.p.Salt%3]
		if r.p.Salt&8 != 0 {
			return "<" + r.peer.Addr + "?sock=" + id + ">"
		}
		if r.p.Salt&16 != 0 {
			return "<" + r.peer.Addr + "?addrs=" + strings.ReplaceAll(r.peer.Addr, ":", "-") + "&sock=" + id + "&noUDP>"
		}
		return r.peer.Addr + "?sock=" + id
	case "ccb":
		return "<127.0.0.1:1?ccbid=" + r.peer.Addr + "%23" + fmt.Sprint(1+r.p.Salt%90) + "&noUDP>"
	}
	if r.p.Salt&8 != 0 {
		return "<" + r.peer.Addr + ">"
	}
	if r.p.Salt&16 != 0 {
		return "<" + r.peer.Addr + "?alias=verif.example&noUDP>"
	}
	return r.peer.Addr
}

func (r *crun) anyDialStall() bool {
	for _, c := range r.sc.Calls {
		if c.E == EnvDialStall {
			return true
		}
	}
	return false
}

// noteStream records a stream handed to the user.
func (r *crun) noteStream() {
	if r.cl == nil {
		return
	}
	st := r.cl.GetStream()
	if st == nil {
		return
	}
	for _, h := range r.held {
		if h == st {
			return
		}
	}
	r.held = append(r.held, st)
	port := 0
	if c := st.GetConnection(); c != nil {
		if ta, ok := c.LocalAddr().(*net.TCPAddr); ok {
			port = ta.Port
		}
	}
	r.socks = append(r.socks, port)
	r.known[port] = true
}

func (r *crun) localObs(res error, by string) string {
	ic, ng, st := false, false, false
	if r.cl != nil {
		ic, ng, st = r.cl.IsConnected(), r.cl.GetSecurityNegotiation() != nil, r.cl.GetStream() != nil
	}
	rs := "ok"
	if res != nil {
		rs = "err"
	}
	return fmt.Sprintf("r=%s by=%s ic=%v ng=%v st=%v", rs, by, ic, ng, st)
}

func (r *crun) peerObs() string {
	var b strings.Builder
	for _, port := range r.socks {
		oc := r.peer.Conn(port)
		if oc != nil && !oc.sawEOF() {
			b.WriteByte('1')
		} else if oc == nil {
			b.WriteByte('1') // not accepted yet: certainly not closed
		} else {
			b.WriteByte('0')
		}
	}
	return fmt.Sprintf("open=[%s] leak=%d", b.String(), r.peer.Unmatched(r.known))
}

// blocks: does the model say the call waits for its context / the Timeout?  (a context is
// only ended under a call that waits for it: ending it under a call that is merely slow on
// a loaded machine would make the call fail where the model says it succeeds)
func (r *crun) blocks(c Call) bool {
	if c.E == EnvDialStall {
		return true
	}
	if c.E == EnvStall && r.secC != nil && (r.sc.Route == "ccb" || c.C == "ca") {
		return true
	}
	return false
}

// recovered turns a panic of the code under test into an outcome of the call.
func (r *crun) recovered(done chan error) {
	if p := recover(); p != nil {
		r.panicked = fmt.Sprint(p)
		done <- fmt.Errorf("PANIC: %v", p)
	}
}

// do executes one call and returns (error, how it ended).
func (r *crun) do(c Call) (error, string) {
	T := r.tm.tLive
	if c.X != "live" {
		T = r.tm.tCtx
	}
	blocking := r.blocks(c)
	ctx, cancel := context.Background(), context.CancelFunc(func() {})
	switch c.X {
	case "pre":
		ctx, cancel = context.WithCancel(context.Background())
		cancel()
	case "during":
		ctx, cancel = context.WithCancel(context.Background())
	case "deadline":
		d := r.tm.cancelAt
		if !blocking {
			d = 10 * T // far away: the call is expected to finish by itself
		}
		ctx, cancel = context.WithTimeout(context.Background(), d)
	}
	defer cancel()
	t0 := time.Now()
	done := make(chan error, 1)
	switch c.C {
	case "connect":
		r.cfg.Timeout = T
		go func() {
			defer r.recovered(done)
			done <- r.cl.Connect(ctx)
		}()
	case "ca":
		cfg := &client.ClientConfig{Address: r.address(), Timeout: T, Security: r.secC, ClientName: "verif-g07"}
		go func() {
			defer r.recovered(done)
			var cl *client.HTCondorClient
			var err error
			// (the plain form builds its own ClientConfig with the 30 s default Timeout: only for
			// scripts in which nothing stalls a dial)
			if c.X == "live" && r.p.Salt&32 != 0 && !r.anyDialStall() && !(r.sc.Route == "ccb") {
				cl, err = client.ConnectAndAuthenticate(ctx, cfg.Address, cfg.Security)
			} else {
				cl, err = client.ConnectAndAuthenticateWithConfig(ctx, cfg)
			}
			if cl != nil {
				r.cl, r.cfg = cl, cfg
			}
			done <- err
		}()
	}
	var err error
	if c.X == "during" && blocking {
		select {
		case err = <-done:
			cancel()
		case <-time.After(r.tm.cancelAt):
			cancel()
			err = <-done
		}
	} else if c.X == "during" {
		err = <-done
		cancel() // the usual `defer cancel()` of a caller: must not disturb what was returned
	} else {
		err = <-done
	}
	by := "fast"
	if time.Since(t0) >= T*9/10 {
		by = "timeout"
	}
	return err, by
}

// RunC replays one script against the real client.
func RunC(t *CTable, sc CScript, p CParams) *CResult {
	res := &CResult{DiffStep: -1}
	if len(sc.Calls) == 0 || len(t.Pre[sc.prefix(1)]) == 0 {
		res.Diff = "script not in the model table"
		return res
	}
	if p.Policy == "" {
		p.Policy = "never"
	}
	peer, err := NewPeer(p.Policy)
	if err != nil {
		res.EnvErr = err
		return res
	}
	defer peer.Shutdown()
	peer.SharedFront = sc.Route == "shared"
	r := &crun{sc: sc, p: p, tm: timingFor(p.Level), peer: peer, known: map[int]bool{}}
	if sc.Sec == "sec" {
		r.secC = peer.ClientSecurity()
	}
	if sc.How == "new" {
		r.cfg = &client.ClientConfig{Address: r.address(), Security: r.secC, ClientName: "verif-g07"}
		if p.Salt&64 != 0 && sc.Route == "direct" { // the deprecated spelling
			r.cfg.Address = ""
			r.cfg.Host, r.cfg.Port = "127.0.0.1", peer.Port
		}
		r.cl = client.NewClient(r.cfg)
	}
	defer func() {
		if r.cl != nil {
			_ = r.cl.Close()
		}
		for _, h := range r.held {
			if c := h.GetConnection(); c != nil {
				_ = c.Close()
			}
		}
	}()

	var hist []string // observation after each call
	var cands []*CBeh // behaviours that explain the run so far
	for i, c := range sc.Calls {
		var next []*CBeh
		for _, b := range t.Pre[sc.prefix(i+1)] {
			ok := true
			for j := 0; j < i && ok; j++ {
				ok = b.Obs[j].obs() == hist[j]
			}
			if ok {
				next = append(next, b)
			}
		}
		if len(next) == 0 {
			// this call is enabled only in a design the real code already departed from
			res.Truncated = true
			break
		}
		cands = next
		var local string
		switch c.C {
		case "read":
			st := r.cl.GetStream()
			r.readDone = make(chan error, 1)
			go func() { _, e := st.ReceiveCompleteMessage(context.Background()); r.readDone <- e }()
			select {
			case e := <-r.readDone:
				res.Diff, res.DiffStep = fmt.Sprintf("a read on a silent peer returned at once: %v", e), i
				return res
			case <-time.After(r.tm.hold):
			}
			res.Observed = append(res.Observed, "begin")
			hist = append(hist, "begin ")
			continue
		case "readend":
			select {
			case e := <-r.readDone:
				local = r.localObs(e, "fast")
				if e == nil {
					local = r.localObs(nil, "fast")
				}
			case <-time.After(r.tm.settle):
				res.Observed = append(res.Observed, "the blocked read did not return")
				res.Diff, res.DiffStep = "Close did not unblock the read within "+r.tm.settle.String(), i
				return res
			}
		case "close":
			e := r.cl.Close()
			local = r.localObs(e, "fast")
		default:
			if c.E != "none" {
				if err := peer.SetMode(c.E); err != nil {
					res.EnvErr = err
					return res
				}
			}
			e, by := r.do(c)
			if r.panicked != "" {
				res.Observed = append(res.Observed, "panic")
				res.Diff, res.DiffStep = "the call panicked: "+r.panicked, i
				return res
			}
			r.noteStream()
			local = r.localObs(e, by)
		}
		// which behaviours agree with what the caller saw?
		var loc []*CBeh
		for _, b := range cands {
			if b.Obs[i].local() == local {
				loc = append(loc, b)
			}
		}
		if len(loc) == 0 {
			res.Observed = append(res.Observed, local+" "+r.peerObs())
			res.Diff, res.DiffStep = "caller-visible outcome "+local+" is none of "+expected(cands, i, false), i
			return res
		}
		// the peer's view may lag: wait for a behaviour of the intended design first
		match := func(intendedOnly bool) []*CBeh {
			po := r.peerObs()
			var m []*CBeh
			for _, b := range loc {
				if b.Obs[i].peer() == po && (!intendedOnly || b.Act == "") {
					m = append(m, b)
				}
			}
			return m
		}
		hasIntended := false
		for _, b := range loc {
			if b.Act == "" {
				hasIntended = true
			}
		}
		var m []*CBeh
		deadline := time.Now().Add(r.tm.settle)
		for {
			if hasIntended {
				m = match(true)
			}
			if len(m) == 0 && (!hasIntended || time.Now().After(deadline.Add(-r.tm.settle/2))) {
				m = match(false)
			}
			if len(m) > 0 || time.Now().After(deadline) {
				break
			}
			time.Sleep(4 * time.Millisecond)
		}
		if len(m) > 0 { // nothing further may happen
			time.Sleep(r.tm.hold)
			m2 := match(false)
			if len(m2) == 0 {
				m = nil
			} else {
				m = m2
			}
		}
		res.Observed = append(res.Observed, local+" "+r.peerObs())
		if len(m) == 0 {
			res.Diff, res.DiffStep = "peer-visible outcome "+r.peerObs()+" (caller saw "+local+") is none of "+expected(loc, i, true), i
			return res
		}
		cands = m
		hist = append(hist, m[0].Obs[i].obs())
		// a handshake happened: the client's record of it must be the server's
		if c.C == "ca" && r.cl != nil && r.cl.GetSecurityNegotiation() != nil {
			if d := r.compareNeg(); d != "" {
				res.Diff, res.DiffStep = d, i
				return res
			}
			r.negMatch++
		}
	}
	res.NegMatch = r.negMatch
	set := map[string]bool{}
	for _, b := range cands {
		set[b.Act] = true
	}
	for a := range set {
		res.Acts = append(res.Acts, a)
	}
	sort.Strings(res.Acts)
	return res
}

func (r *crun) compareNeg() string {
	n := r.cl.GetSecurityNegotiation()
	st := r.cl.GetStream()
	port := r.socks[len(r.socks)-1]
	var sn *security.SecurityNegotiation
	for w := 0; w < 2000 && sn == nil; w++ {
		if oc := r.peer.Conn(port); oc != nil {
			oc.mu.Lock()
			sn = oc.neg
			oc.mu.Unlock()
		}
		if sn == nil {
			time.Sleep(time.Millisecond)
		}
	}
	if sn == nil {
		return "ConnectAndAuthenticate succeeded but the server's handler never ran"
	}
	if n.Authentication != sn.Authentication || n.Encryption != sn.Encryption || n.NegotiatedAuth != sn.NegotiatedAuth {
		return fmt.Sprintf("GetSecurityNegotiation reports auth=%v enc=%v method=%q, the server negotiated auth=%v enc=%v method=%q",
			n.Authentication, n.Encryption, n.NegotiatedAuth, sn.Authentication, sn.Encryption, sn.NegotiatedAuth)
	}
	wantEnc := r.p.Policy == "claim"
	if n.Encryption != wantEnc || n.Authentication != wantEnc || st.IsEncrypted() != wantEnc {
		return fmt.Sprintf("policy %s: negotiation auth=%v enc=%v, stream encrypted=%v", r.p.Policy, n.Authentication, n.Encryption, st.IsEncrypted())
	}
	return ""
}

func expected(cands []*CBeh, i int, peer bool) string {
	set := map[string]bool{}
	for _, b := range cands {
		s := b.Obs[i].local()
		if peer {
			s = b.Obs[i].peer()
		}
		if b.Act != "" {
			s += " {" + b.Act + "}"
		}
		set[s] = true
	}
	var l []string
	for s := range set {
		l = append(l, s)
	}
	sort.Strings(l)
	return strings.Join(l, " | ")
}

var quietOnce sync.Once
