package clientreplay

// Stand-alone reproductions of the four deviations G07 reports as KNOWN
// observations (cd /verif/harness && GOFLAGS=-mod=mod GOPROXY=off go test -tags verif -run TestObservation -v ./internal/clientreplay).
// They only log what the real code does; they never fail.

import (
	"context"
	"net"
	"testing"
	"time"

	"github.com/bbockelm/cedar/client"
	"github.com/bbockelm/cedar/server"
)

func TestObservationStaleIsConnectedAndReconnectLeak(t *testing.T) {
	Quiet()
	p, err := NewPeer("never")
	if err != nil {
		t.Fatal(err)
	}
	defer p.Shutdown()
	if err := p.SetMode(EnvStall); err != nil {
		t.Fatal(err)
	}
	c := client.NewClient(&client.ClientConfig{Address: p.Addr})
	_ = c.Connect(context.Background())
	first := c.GetStream()
	_ = c.Connect(context.Background()) // second Connect on the same client
	time.Sleep(200 * time.Millisecond)
	port1 := first.GetConnection().LocalAddr().(*net.TCPAddr).Port
	t.Logf("after the second Connect the peer saw EOF on the first connection: %v (the first socket is still open)", p.Conn(port1).sawEOF())
	t.Logf("Close: %v; IsConnected afterwards: %v", c.Close(), c.IsConnected())
	_ = first.Close()
}

func TestObservationSharedPortDialIgnoresContext(t *testing.T) {
	p, err := NewPeer("never")
	if err != nil {
		t.Fatal(err)
	}
	defer p.Shutdown()
	if err := p.SetMode(EnvDialStall); err != nil {
		t.Fatal(err)
	}
	for _, addr := range []string{p.Addr, p.Addr + "?sock=schedd"} {
		c := client.NewClient(&client.ClientConfig{Address: addr, Timeout: 3 * time.Second})
		ctx, cancel := context.WithCancel(context.Background())
		go func() { time.Sleep(100 * time.Millisecond); cancel() }()
		t0 := time.Now()
		err := c.Connect(ctx)
		t.Logf("%s: context cancelled after 0.1 s, Connect returned after %v: %v", addr, time.Since(t0).Round(10*time.Millisecond), err)
	}
}

func TestObservationTemporaryAcceptErrorEndsServe(t *testing.T) {
	Quiet()
	ln, _ := net.Listen("tcp", "127.0.0.1:0")
	il := newInjListener(ln)
	defer il.Close()
	srv := server.New(neverCfg())
	done := make(chan error, 1)
	go func() { done <- srv.Serve(context.Background(), il) }()
	il.inject <- errTemp{}
	select {
	case err := <-done:
		_, lerr := net.Listen("tcp", ln.Addr().String())
		t.Logf("Serve returned %q on a temporary Accept error; listening on the port again: %v", err, lerr)
	case <-time.After(2 * time.Second):
		t.Logf("Serve kept serving")
	}
}
