package clientreplay

import (
	"context"
	"encoding/binary"
	"encoding/json"
	"errors"
	"fmt"
	"io"
	"log/slog"
	"net"
	"sort"
	"strings"
	"sync"
	"time"

	"github.com/bbockelm/cedar/commands"
	"github.com/bbockelm/cedar/server"
	"github.com/bbockelm/cedar/stream"
)

// Quiet silences cedar's slog output (handshake chatter, recovered panics).
func Quiet() {
	quietOnce.Do(func() { slog.SetDefault(slog.New(slog.NewTextHandler(io.Discard, nil))) })
}

// SConnObs / SSnap mirror Gen_ClientConn Snap.
type SConnObs struct {
	D   bool `json:"d"`
	H   int  `json:"h"`
	X   bool `json:"x"`
	EOF bool `json:"eof"`
}
type SSnap struct {
	Srv   string     `json:"srv"`
	Cause string     `json:"cause"`
	Lo    string     `json:"lo"`
	C     []SConnObs `json:"c"`
}

func (s SSnap) String() string {
	var b strings.Builder
	fmt.Fprintf(&b, "srv=%s cause=%s lo=%s c=[", s.Srv, s.Cause, s.Lo)
	for i, c := range s.C {
		if i > 0 {
			b.WriteByte(' ')
		}
		fmt.Fprintf(&b, "d%dh%dx%de%d", b2i(c.D), c.H, b2i(c.X), b2i(c.EOF))
	}
	b.WriteByte(']')
	return b.String()
}
func b2i(b bool) int {
	if b {
		return 1
	}
	return 0
}

// SStep is one environment step of a Part S script.
type SStep struct {
	E   string `json:"e"`
	I   int    `json:"i"`
	K   string `json:"k"`
	Q   bool   `json:"q"`
	Obs SSnap  `json:"obs"`
}

func (s SStep) key() string { return fmt.Sprintf("%s(%d,%s,%v)", s.E, s.I, s.K, s.Q) }

type SBeh struct {
	Steps []SStep
	Out   SSnap
	Act   string
}

type STable struct {
	Scripts [][]SStep // representative (observations of one behaviour; only e,i,k,q are used)
	Behs    map[string][]SBeh
	// Pre[key of the first L steps] = behaviours (of any script with that prefix), distinct in
	// their first L observations: the replay follows a script step by step and stops where no
	// behaviour that explains the run so far has the script's next step enabled
	Pre map[string][]*SBeh
}

func SKey(steps []SStep) string {
	var b strings.Builder
	for _, s := range steps {
		b.WriteString(s.key() + ";")
	}
	return b.String()
}

func BuildSTable(raws []json.RawMessage) (*STable, error) {
	t := &STable{Behs: map[string][]SBeh{}}
	seen := map[string]bool{}
	for _, r := range raws {
		var b struct {
			Trace []SStep  `json:"trace"`
			Out   *SSnap   `json:"out"`
			Act   []string `json:"act"`
		}
		if err := json.Unmarshal(r, &b); err != nil {
			return nil, err
		}
		if b.Out == nil {
			continue
		}
		k := SKey(b.Trace)
		if _, ok := t.Behs[k]; !ok {
			t.Scripts = append(t.Scripts, b.Trace)
		}
		beh := SBeh{Steps: b.Trace, Out: *b.Out, Act: actString(b.Act)}
		sig := k + "|" + beh.Act + "|" + beh.Out.String()
		for _, s := range b.Trace {
			sig += "|" + s.Obs.String()
		}
		if seen[sig] {
			continue
		}
		seen[sig] = true
		t.Behs[k] = append(t.Behs[k], beh)
		bp := &t.Behs[k][len(t.Behs[k])-1]
		_ = bp
	}
	t.Pre = map[string][]*SBeh{}
	pseen := map[string]bool{}
	for k := range t.Behs {
		for bi := range t.Behs[k] {
			b := &t.Behs[k][bi]
			for L := 1; L <= len(b.Steps); L++ {
				pk := SKey(b.Steps[:L])
				sig := pk + "|" + b.Act
				for j := 0; j < L; j++ {
					o, _ := b.after(j)
					sig += "|" + o
				}
				if pseen[sig] {
					continue
				}
				pseen[sig] = true
				t.Pre[pk] = append(t.Pre[pk], b)
			}
		}
	}
	return t, nil
}

// expectation after step i of behaviour b (what the next at-rest step recorded,
// or the final snapshot); ok=false if the harness does not look (next step fired at once)
func (b SBeh) after(i int) (string, bool) {
	if i+1 < len(b.Steps) {
		if !b.Steps[i+1].Q {
			return "", false
		}
		return b.Steps[i+1].Obs.String(), true
	}
	return b.Out.String(), true
}

// Handler commands of the scripted server.
var kindCmd = map[string]int{"ok": 61001, "err": 61002, "panic": 61003, "block": 61004, "keepopen": 61005, "unknown": 61009}

type errTemp struct{}

func (errTemp) Error() string   { return "verif: temporary accept failure (too many open files)" }
func (errTemp) Timeout() bool   { return false }
func (errTemp) Temporary() bool { return true }

// injListener lets the harness make Accept fail once with a temporary error.
type injListener struct {
	net.Listener
	conns  chan net.Conn
	errs   chan error
	inject chan error
	closed chan struct{}
	once   sync.Once
}

// Close also drops a connection the pump took from the kernel but nobody accepted.
func (il *injListener) Close() error {
	il.once.Do(func() { close(il.closed) })
	return il.Listener.Close()
}

func newInjListener(l net.Listener) *injListener {
	il := &injListener{Listener: l, conns: make(chan net.Conn), errs: make(chan error, 1), inject: make(chan error, 1), closed: make(chan struct{})}
	go func() {
		for {
			c, err := l.Accept()
			if err != nil {
				il.errs <- err
				return
			}
			select {
			case il.conns <- c:
			case <-il.closed:
				_ = c.Close()
			}
		}
	}()
	return il
}

func (il *injListener) Accept() (net.Conn, error) {
	select {
	case e := <-il.inject:
		return nil, e
	default:
	}
	select {
	case e := <-il.inject:
		return nil, e
	case c := <-il.conns:
		return c, nil
	case e := <-il.errs:
		il.errs <- e
		return nil, e
	}
}

type sconn struct {
	c       net.Conn
	dialOK  bool
	lport   int
	release chan struct{}

	mu   sync.Mutex
	eof  bool
	h    int
	ctxd bool
	kept any // a handler that keeps the connection keeps a reference to it
}

type srun struct {
	tm     timing
	srv    *server.Server
	ln     net.Listener
	il     *injListener
	port   int
	ctx    context.Context
	cancel context.CancelFunc
	done   chan error
	ret    bool
	retErr error
	lo     string
	loAt   time.Time

	mu    sync.Mutex
	conns []*sconn
	byP   map[int]*sconn
}

func (r *srun) find(c *server.Conn) *sconn {
	_, ps, _ := net.SplitHostPort(c.RemoteAddr)
	var port int
	fmt.Sscan(ps, &port)
	for w := 0; w < 2000; w++ {
		r.mu.Lock()
		sc := r.byP[port]
		r.mu.Unlock()
		if sc != nil {
			return sc
		}
		time.Sleep(time.Millisecond)
	}
	return nil
}

func (r *srun) handler(kind string) server.HandlerFunc {
	return func(ctx context.Context, c *server.Conn) error {
		sc := r.find(c)
		if sc == nil {
			return nil
		}
		sc.mu.Lock()
		sc.h++
		sc.mu.Unlock()
		switch kind {
		case "err":
			return errors.New("verif: handler failed")
		case "panic":
			panic("verif: handler panics")
		case "keepopen":
			sc.mu.Lock()
			sc.kept = c.Stream
			sc.mu.Unlock()
			return server.KeepOpen()
		case "block":
			select {
			case <-sc.release:
			case <-ctx.Done():
				sc.mu.Lock()
				sc.ctxd = true
				sc.mu.Unlock()
			}
		}
		return nil
	}
}

func frame(end byte, payload []byte) []byte {
	b := make([]byte, 5+len(payload))
	b[0] = end
	binary.BigEndian.PutUint32(b[1:5], uint32(len(payload)))
	copy(b[5:], payload)
	return b
}
func int64be(v int) []byte {
	b := make([]byte, 8)
	binary.BigEndian.PutUint64(b, uint64(v))
	return b
}

func (r *srun) snap() SSnap {
	s := SSnap{Srv: "serving", Cause: "none", Lo: "na", C: []SConnObs{}}
	if r.done == nil {
		s.Srv = "init"
	}
	if !r.ret && r.done != nil {
		select {
		case e := <-r.done:
			r.ret, r.retErr = true, e
		default:
		}
	}
	if r.ret {
		s.Srv = "returned"
		switch {
		case errors.Is(r.retErr, context.Canceled):
			s.Cause = "cancel"
		case errors.As(r.retErr, new(errTemp)):
			s.Cause = "accepterr"
		case errors.Is(r.retErr, net.ErrClosed):
			s.Cause = "lclose"
		default:
			s.Cause = "handler"
		}
		// is the port free again?  (probed at most every 25 ms; once free it stays free)
		if r.lo != "free" && time.Since(r.loAt) > 25*time.Millisecond {
			if l, err := net.Listen("tcp", fmt.Sprintf("127.0.0.1:%d", r.port)); err == nil {
				_ = l.Close()
				r.lo = "free"
			} else {
				r.lo = "open"
			}
			r.loAt = time.Now()
		}
		s.Lo = r.lo
	}
	r.mu.Lock()
	conns := append([]*sconn(nil), r.conns...)
	r.mu.Unlock()
	for _, c := range conns {
		c.mu.Lock()
		s.C = append(s.C, SConnObs{D: c.dialOK, H: c.h, X: c.ctxd, EOF: c.eof || !c.dialOK})
		c.mu.Unlock()
	}
	return s
}

// SParams: concrete choices.
type SParams struct {
	Salt  int `json:"salt"`
	Level int `json:"level"`
}

type SResult struct {
	Truncated bool // the script's later steps are not enabled in any design that explains the run
	Observed  []string
	Diff      string
	DiffStep  int
	Acts      []string
	EnvErr    error
}

// RunS replays one environment script against a real server.Server.
func RunS(t *STable, steps []SStep, p SParams) *SResult {
	res := &SResult{DiffStep: -1}
	if len(t.Pre[SKey(steps[:1])]) == 0 {
		res.Diff = "script not in the model table"
		return res
	}
	r := &srun{tm: timingFor(p.Level), byP: map[int]*sconn{}}
	r.srv = server.New(neverCfg())
	if p.Salt&1 != 0 {
		r.srv.KeepAlive = stream.KeepAliveConfig{} // keep-alives off: the loop must not depend on them
	}
	for k, cmd := range kindCmd {
		if k != "unknown" {
			r.srv.HandleRaw(cmd, r.handler(k))
		}
	}
	r.srv.Handle(CmdClient, r.handler("ok"))
	ln, err := net.Listen("tcp", "127.0.0.1:0")
	if err != nil {
		res.EnvErr = err
		return res
	}
	r.ln = ln
	r.port = ln.Addr().(*net.TCPAddr).Port
	r.il = newInjListener(ln)
	r.ctx, r.cancel = context.WithCancel(context.Background())
	defer func() {
		r.cancel()
		_ = r.il.Close()
		r.mu.Lock()
		for _, c := range r.conns {
			if c.c != nil {
				_ = c.c.Close()
			}
			select {
			case <-c.release:
			default:
				close(c.release)
			}
		}
		r.mu.Unlock()
	}()

	var hist []string // what was observed after each step ("" = not looked at)
	var cands []*SBeh // behaviours that explain the run so far
	consistent := func(b *SBeh, upto int) bool {
		for j := 0; j < upto; j++ {
			if o, _ := b.after(j); o != hist[j] {
				return false
			}
		}
		return true
	}
	for i, st := range steps {
		var next []*SBeh
		for _, b := range t.Pre[SKey(steps[:i+1])] {
			if consistent(b, i) {
				next = append(next, b)
			}
		}
		if len(next) == 0 {
			// no behaviour that explains the run so far can take this step (it is enabled
			// only in a design the real code already departed from): the run ends here
			res.Truncated = true
			break
		}
		cands = next
		switch st.E {
		case "start":
			r.done = make(chan error, 1)
			go func() {
				defer func() {
					if p := recover(); p != nil {
						r.done <- fmt.Errorf("PANIC in Serve: %v", p)
					}
				}()
				r.done <- r.srv.Serve(r.ctx, r.il)
			}()
		case "dial":
			sc := &sconn{release: make(chan struct{})}
			c, err := net.DialTimeout("tcp", ln.Addr().String(), 3*time.Second)
			if err == nil {
				sc.c, sc.dialOK = c, true
				sc.lport = c.LocalAddr().(*net.TCPAddr).Port
				go func() {
					buf := make([]byte, 512)
					for {
						_, err := c.Read(buf)
						if err != nil {
							sc.mu.Lock()
							sc.eof = true
							sc.mu.Unlock()
							return
						}
					}
				}()
			}
			r.mu.Lock()
			r.conns = append(r.conns, sc)
			if sc.dialOK {
				r.byP[sc.lport] = sc
			}
			r.mu.Unlock()
		case "send":
			sc := r.conns[st.I-1]
			if sc.c != nil {
				_, _ = sc.c.Write(frame(1, int64be(kindCmd[st.K])))
			}
		case "half":
			sc := r.conns[st.I-1]
			if sc.c != nil {
				if p.Salt&2 != 0 {
					_, _ = sc.c.Write(frame(0, int64be(commands.DC_AUTHENTICATE))) // command read, the ad never comes
				} else {
					_, _ = sc.c.Write(frame(1, int64be(commands.DC_AUTHENTICATE))[:9]) // the frame itself stops half way
				}
			}
		case "release":
			close(r.conns[st.I-1].release)
		case "cancel":
			r.cancel()
		case "extclose":
			_ = r.il.Close()
		case "temperr":
			r.il.inject <- errTemp{}
		}
		// compare, unless the next step is fired at once
		want := map[string]bool{}
		look := false
		for _, b := range cands {
			if o, ok := b.after(i); ok {
				want[o] = true
				look = true
			}
		}
		if !look {
			res.Observed = append(res.Observed, "(not looked at)")
			hist = append(hist, "")
			continue
		}
		deadline := time.Now().Add(r.tm.settle * 2)
		var got string
		for {
			got = r.snap().String()
			if want[got] || time.Now().After(deadline) {
				break
			}
			time.Sleep(4 * time.Millisecond)
		}
		if want[got] { // and nothing else happens
			time.Sleep(r.tm.hold * 2)
			got = r.snap().String()
		}
		res.Observed = append(res.Observed, got)
		hist = append(hist, got)
		var keep []*SBeh
		for _, b := range cands {
			if o, ok := b.after(i); ok && o == got {
				keep = append(keep, b)
			}
		}
		if len(keep) == 0 {
			var l []string
			for o := range want {
				l = append(l, o)
			}
			sort.Strings(l)
			res.Diff, res.DiffStep = "after "+st.key()+": observed "+got+", the model admits "+strings.Join(l, " | "), i
			return res
		}
		cands = keep
	}
	set := map[string]bool{}
	for _, b := range cands {
		set[b.Act] = true
	}
	for a := range set {
		res.Acts = append(res.Acts, a)
	}
	sort.Strings(res.Acts)
	return res
}
