package clientreplay

import (
	"encoding/json"
	"fmt"
	"os"
	"strings"
	"sync"
	"time"

	"cedarverif/internal/core"
)

// Stats of a replay.
type Stats struct {
	mu                                                 sync.Mutex
	Conform, Known, Retried, EnvRetry                  int64
	ClientRuns, ServerRuns, KARuns, RouteRuns          int64
	Calls, Blocked, CtxEnded, TimeoutEnded, Handshakes int64
	Reads                                              int64
	HandlerRuns, Cancels, Panics                       int64
	ClientSeconds, SlowestSeconds                      float64
	Slowest                                            string
	KnownBy                                            map[string]int64
	KnownExample                                       map[string]string
}

func (s *Stats) known(act, example string) {
	s.mu.Lock()
	defer s.mu.Unlock()
	if s.KnownBy == nil {
		s.KnownBy, s.KnownExample = map[string]int64{}, map[string]string{}
	}
	s.KnownBy[act]++
	if _, ok := s.KnownExample[act]; !ok {
		s.KnownExample[act] = example
	}
	s.Known++
}

// CJob / SJob / KAJob / RouteJob are replayable units.
type CJob struct {
	Script CScript `json:"script"`
	P      CParams `json:"p"`
}
type SJob struct {
	Steps []SStep `json:"steps"`
	P     SParams `json:"p"`
}
type KAJob struct {
	Row  KARow  `json:"row"`
	Path string `json:"path"`
	Salt int    `json:"salt"`
}
type RouteJob struct {
	Row  RouteRow `json:"row"`
	Salt int      `json:"salt"`
}

// minimal explanation: "" if the intended design explains the run
func minimalActs(acts []string) (string, bool) {
	best := ""
	for i, a := range acts {
		if a == "" {
			return "", true
		}
		if i == 0 || strings.Count(a, "+") < strings.Count(best, "+") {
			best = a
		}
	}
	return best, false
}

// RunCJob runs a client script (twice with long waits if it differs) and records the verdict.
func RunCJob(c *core.Ctx, t *CTable, j CJob, st *Stats) {
	var res *CResult
	t0 := time.Now()
	defer func() {
		st.mu.Lock()
		st.ClientSeconds += time.Since(t0).Seconds()
		if d := time.Since(t0).Seconds(); d > st.SlowestSeconds {
			st.SlowestSeconds, st.Slowest = d, j.Script.Key()
		}
		st.mu.Unlock()
	}()
	for try := 0; try < 3; try++ {
		res = RunC(t, j.Script, j.P)
		if res.EnvErr == nil {
			break
		}
		st.mu.Lock()
		st.EnvRetry++
		st.mu.Unlock()
	}
	if res.EnvErr != nil {
		c.Broken("G07 client replay: environment could not be set up: %v", res.EnvErr)
		return
	}
	key, _ := json.Marshal(j)
	c.Eval(string(key), len(j.Script.Calls) >= 2)
	st.mu.Lock()
	st.ClientRuns++
	st.Calls += int64(len(res.Observed))
	st.Handshakes += int64(res.NegMatch)
	for _, o := range res.Observed {
		if strings.Contains(o, "by=timeout") {
			st.TimeoutEnded++
		}
	}
	for _, cl := range j.Script.Calls {
		if cl.X == "during" || cl.X == "deadline" || cl.X == "pre" {
			st.CtxEnded++
		}
		if cl.C == "read" {
			st.Reads++
		}
	}
	st.mu.Unlock()
	if res.Diff != "" {
		// second and third opinion with long and very long waits: a loaded machine must not
		// look like a defect (DESIGN section 5: only a difference that reproduces is reported)
		// (a difference is reported only if the long and the very long run show it at the same step)
		diffs := []int{res.DiffStep}
		for level := 1; level <= 2 && res.Diff != ""; level++ {
			j2 := j
			j2.P.Level = level
			st.mu.Lock()
			st.Retried++
			st.mu.Unlock()
			res = RunC(t, j.Script, j2.P)
			if res.EnvErr != nil {
				c.Broken("G07 client replay: environment could not be set up: %v", res.EnvErr)
				return
			}
			diffs = append(diffs, res.DiffStep)
		}
		res2 := res
		if res2.Diff != "" && diffs[1] != diffs[2] {
			c.Broken("G07 client replay: non-reproducible difference on %s: steps %v, last %q", j.Script.Key(), diffs, res2.Diff)
			return
		}
		if res2.Diff != "" {
			call := j.Script.Calls[res.DiffStep]
			what := "peer-visible"
			if strings.HasPrefix(res2.Diff, "caller-visible") {
				what = "caller-visible"
			} else if !strings.HasPrefix(res2.Diff, "peer-visible") {
				what = strings.SplitN(res2.Diff, ":", 2)[0]
				if len(what) > 60 {
					what = what[:60]
				}
			}
			prev := "first"
			if res.DiffStep > 0 {
				pc := j.Script.Calls[res.DiffStep-1]
				prev = fmt.Sprintf("%s(%s,%s)", pc.C, pc.E, pc.X)
			}
			c.Fail(core.Failure{
				Signature: map[string]string{"spec": "ClientConn", "part": "client", "how": j.Script.How, "route": j.Script.Route,
					"sec": j.Script.Sec, "call": fmt.Sprintf("%s(%s,%s)", call.C, call.E, call.X), "after": prev, "what": what},
				Detail:   fmt.Sprintf("%s step %d: %s; observed so far %v", j.Script.Key(), res.DiffStep+1, res2.Diff, res2.Observed),
				Scenario: map[string]any{"kind": "ClientConn/client", "job": j},
			})
			return
		}
	}
	if act, ok := minimalActs(res.Acts); ok {
		st.mu.Lock()
		st.Conform++
		st.mu.Unlock()
	} else {
		st.known(act, fmt.Sprintf("%s -> %v", j.Script.Key(), res.Observed))
	}
}

// RunSJob runs a server script.
func RunSJob(c *core.Ctx, t *STable, j SJob, st *Stats) {
	res := RunS(t, j.Steps, j.P)
	if res.EnvErr != nil {
		c.Broken("G07 server replay: environment could not be set up: %v", res.EnvErr)
		return
	}
	key, _ := json.Marshal(struct {
		K string
		P SParams
	}{SKey(j.Steps), j.P})
	c.Eval(string(key), len(j.Steps) >= 4)
	st.mu.Lock()
	st.ServerRuns++
	for _, s := range j.Steps {
		switch {
		case s.E == "send" && s.K == "panic":
			st.Panics++
			st.HandlerRuns++
		case s.E == "send" && s.K != "unknown":
			st.HandlerRuns++
		case s.E == "cancel":
			st.Cancels++
		}
	}
	st.mu.Unlock()
	if res.Diff != "" {
		// (a difference is reported only if the long and the very long run show it at the same step)
		diffs := []int{res.DiffStep}
		for level := 1; level <= 2 && res.Diff != ""; level++ {
			j2 := j
			j2.P.Level = level
			st.mu.Lock()
			st.Retried++
			st.mu.Unlock()
			res = RunS(t, j.Steps, j2.P)
			if res.EnvErr != nil {
				c.Broken("G07 server replay: environment could not be set up: %v", res.EnvErr)
				return
			}
			diffs = append(diffs, res.DiffStep)
		}
		res2 := res
		if res2.Diff != "" && diffs[1] != diffs[2] {
			c.Broken("G07 server replay: non-reproducible difference on %s: steps %v, last %q", SKey(j.Steps), diffs, res2.Diff)
			return
		}
		if res2.Diff != "" {
			s := j.Steps[res.DiffStep]
			var hist []string
			for _, p := range j.Steps[:res.DiffStep] {
				if p.E != "start" && p.E != "dial" {
					hist = append(hist, p.E+":"+p.K)
				}
			}
			c.Fail(core.Failure{
				Signature: map[string]string{"spec": "ClientConn", "part": "server", "step": s.E, "kind": s.K,
					"at_rest": fmt.Sprint(s.Q), "before": strings.Join(hist, ",")},
				Detail:   fmt.Sprintf("%s step %d: %s", SKey(j.Steps), res.DiffStep+1, res2.Diff),
				Scenario: map[string]any{"kind": "ClientConn/server", "job": j},
			})
			return
		}
	}
	if act, ok := minimalActs(res.Acts); ok {
		st.mu.Lock()
		st.Conform++
		st.mu.Unlock()
	} else {
		st.known(act, fmt.Sprintf("%s -> %v", SKey(j.Steps), res.Observed))
	}
}

// RunKAJob / RunRouteJob check one table row on the real code.
func RunKAJob(c *core.Ctx, j KAJob, st *Stats) {
	diff, _, err := RunKA(j.Row, j.Path, j.Salt)
	if err != nil {
		c.Broken("G07 keep-alive replay: %v", err)
		return
	}
	key, _ := json.Marshal(j)
	c.Eval(string(key), j.Row.In.Given)
	st.mu.Lock()
	st.KARuns++
	st.mu.Unlock()
	if diff == "" {
		st.mu.Lock()
		st.Conform++
		st.mu.Unlock()
		return
	}
	d2, _, err := RunKA(j.Row, j.Path, j.Salt)
	if err != nil || d2 != diff {
		c.Broken("G07 keep-alive replay: non-reproducible difference %q vs %q (%v)", diff, d2, err)
		return
	}
	c.Fail(core.Failure{
		Signature: map[string]string{"spec": "ClientConn", "part": "keepalive", "path": j.Path, "given": fmt.Sprint(j.Row.In.Given),
			"enable": fmt.Sprint(j.Row.In.En), "idle": j.Row.In.Idle, "interval": j.Row.In.Intvl, "count": j.Row.In.Cnt},
		Detail:   fmt.Sprintf("keep-alive %+v on the %s path: %s", j.Row.In, j.Path, diff),
		Scenario: map[string]any{"kind": "ClientConn/ka", "job": j},
	})
}

func RunRouteJob(c *core.Ctx, j RouteJob, st *Stats) {
	var diff string
	var err error
	for try := 0; try < 3; try++ {
		diff, _, err = RunRoute(j.Row, j.Salt)
		if err == nil {
			break
		}
	}
	if err != nil {
		c.Broken("G07 routing replay: %v", err)
		return
	}
	key, _ := json.Marshal(j)
	c.Eval(string(key), !j.Row.In.Empty)
	st.mu.Lock()
	st.RouteRuns++
	st.mu.Unlock()
	if diff == "" {
		st.mu.Lock()
		st.Conform++
		st.mu.Unlock()
		return
	}
	d2, _, err := RunRoute(j.Row, j.Salt)
	if err != nil || (d2 == "") != (diff == "") {
		c.Broken("G07 routing replay: non-reproducible difference %q vs %q (%v)", diff, d2, err)
		return
	}
	c.Fail(core.Failure{
		Signature: map[string]string{"spec": "ClientConn", "part": "routing", "ccb": j.Row.In.CCB, "sock": j.Row.In.Sock,
			"empty": fmt.Sprint(j.Row.In.Empty), "expected": j.Row.Route},
		Detail:   diff,
		Scenario: map[string]any{"kind": "ClientConn/route", "job": j},
	})
}

// ReplayFile re-runs one recorded failure.
func ReplayFile(c *core.Ctx, ct *CTable, stt *STable, st *Stats) {
	b, err := os.ReadFile(c.Replay)
	if err != nil {
		c.Broken("cannot read replay file: %v", err)
		return
	}
	var rf struct {
		Scenario struct {
			Kind string          `json:"kind"`
			Job  json.RawMessage `json:"job"`
		} `json:"scenario"`
	}
	if err := json.Unmarshal(b, &rf); err != nil || !strings.HasPrefix(rf.Scenario.Kind, "ClientConn/") {
		c.Broken("not a G07 replay file")
		return
	}
	switch rf.Scenario.Kind {
	case "ClientConn/client":
		var j CJob
		if json.Unmarshal(rf.Scenario.Job, &j) != nil || ct == nil {
			c.Broken("bad client job")
			return
		}
		j.P.Level = 0
		RunCJob(c, ct, j, st)
	case "ClientConn/server":
		var j SJob
		if json.Unmarshal(rf.Scenario.Job, &j) != nil || stt == nil {
			c.Broken("bad server job")
			return
		}
		j.P.Level = 0
		for i := 0; i < 10 && c.Failures() == 0 && !c.IsBroken(); i++ {
			RunSJob(c, stt, j, st)
		}
	case "ClientConn/ka":
		var j KAJob
		if json.Unmarshal(rf.Scenario.Job, &j) != nil {
			c.Broken("bad keep-alive job")
			return
		}
		RunKAJob(c, j, st)
	case "ClientConn/route":
		var j RouteJob
		if json.Unmarshal(rf.Scenario.Job, &j) != nil {
			c.Broken("bad routing job")
			return
		}
		RunRouteJob(c, j, st)
	}
}
