package spreplay

import (
	"bufio"
	"context"
	"encoding/binary"
	"fmt"
	"math/rand"
	"net"
	"os"
	"path/filepath"
	"strings"
	"sync"
	"sync/atomic"
	"syscall"
	"time"
	"unsafe"

	"github.com/bbockelm/cedar/client/sharedport"
)

// HandshakeTimeout the replayed listeners are created with.
const HandshakeTimeout = 250 * time.Millisecond

const passSock = 76 // commands.SHARED_PORT_PASS_SOCK, from the protocol description

type Params struct {
	Salt int  `json:"salt"`
	Slow bool `json:"slow,omitempty"` // long waits (re-run of a difference)
}

// Diff is a difference between the real listener and the model.
type Diff struct {
	Sig     map[string]string // nil: harness problem
	Detail  string
	Harness bool
}

// Obs is what one run showed.
type Obs struct {
	Snaps     []Snap `json:"snaps"`
	Delivered int    `json:"delivered"`
	Dropped   int    `json:"dropped"`
	Waited    int    `json:"waited"`
	Member    string `json:"members"`
}

type peerEnd struct {
	c     net.Conn     // the remote TCP client
	srv   *net.TCPConn // the side the daemon passes
	mu    sync.Mutex
	buf   []byte
	ended atomic.Bool
}

func (p *peerEnd) got() string { p.mu.Lock(); defer p.mu.Unlock(); return string(p.buf) }

type fwd struct {
	ev        Ev
	peer      *peerEnd
	peer2     *peerEnd
	uds       *net.UnixConn
	udsClosed atomic.Bool
	refused   bool
	passed    bool // a descriptor of peer went into the unix socket
	started   bool // the handler is known to have started (it has read everything the daemon sent)
}

type accRec struct {
	mu    sync.Mutex
	state string // idle | pending | err | conn
	d     int
	conn  net.Conn
	err   error
	note  string
}

type run struct {
	p         Params
	rng       *rand.Rand
	origin    string
	dir       string
	path      string
	l         *sharedport.Listener
	tcp       net.Listener
	nd        int
	fw        []*fwd
	ac        []*accRec
	ks        []*atomic.Int32 // 0 idle 1 called 2 returned
	wg        sync.WaitGroup
	members   []string
	logMu     sync.Mutex
	logs      []string
	closeViol string
}

func (r *run) must() time.Duration {
	if r.p.Slow {
		return 40 * time.Second
	}
	return 6 * time.Second
}

func (r *run) may() time.Duration {
	if r.p.Slow {
		return 300 * time.Millisecond
	}
	return 25 * time.Millisecond
}

func (r *run) newPeer(tag int) (*peerEnd, error) {
	type ar struct {
		c   net.Conn
		err error
	}
	ch := make(chan ar, 1)
	go func() { c, err := r.tcp.Accept(); ch <- ar{c, err} }()
	c, err := net.DialTimeout("tcp", r.tcp.Addr().String(), 10*time.Second)
	if err != nil {
		return nil, err
	}
	a := <-ch
	if a.err != nil {
		c.Close()
		return nil, a.err
	}
	p := &peerEnd{c: c, srv: a.c.(*net.TCPConn)}
	// the greeting waits in the kernel until somebody reads the forwarded connection
	if _, err := c.Write([]byte(fmt.Sprintf("P%d.%d\n", tag, r.p.Salt))); err != nil {
		return nil, err
	}
	r.wg.Add(1)
	go func() {
		defer r.wg.Done()
		b := make([]byte, 256)
		for {
			n, err := c.Read(b)
			if n > 0 {
				p.mu.Lock()
				p.buf = append(p.buf, b[:n]...)
				p.mu.Unlock()
			}
			if err != nil {
				p.ended.Store(true)
				return
			}
		}
	}()
	return p, nil
}

func frameHdr(flag byte, n uint32, payload []byte) []byte {
	b := make([]byte, 5+len(payload))
	b[0] = flag
	binary.BigEndian.PutUint32(b[1:5], n)
	copy(b[5:], payload)
	return b
}

func int8b(v uint64) []byte { b := make([]byte, 8); binary.BigEndian.PutUint64(b, v); return b }

// headerBytes picks a concrete member of a header class.
func headerBytes(h string, rng *rand.Rand) ([]byte, string) {
	good := frameHdr(1, 8, int8b(passSock))
	switch h {
	case "good":
		return good, "good"
	case "flag":
		f := []byte{0, 2, 3, 5, 255}[rng.Intn(5)]
		return frameHdr(f, 8, int8b(passSock)), fmt.Sprintf("flag=%d", f)
	case "badcmd":
		c := []uint64{75, 0, 77, passSock << 8, passSock << 32, ^uint64(0), 1 << 63}[rng.Intn(7)]
		return frameHdr(1, 8, int8b(c)), fmt.Sprintf("cmd=%d", int64(c))
	case "len0":
		if rng.Intn(2) == 0 {
			return frameHdr(1, 0, nil), "len0"
		}
		return frameHdr(1, 0, int8b(passSock)), "len0+int"
	case "lenshort":
		n := 1 + rng.Intn(7)
		return frameHdr(1, uint32(n), int8b(passSock)[8-n:]), fmt.Sprintf("len=%d", n)
	case "lenlong":
		n := 9 + rng.Intn(56)
		pl := make([]byte, n)
		if rng.Intn(2) == 0 {
			copy(pl, int8b(passSock))
		} else {
			copy(pl[n-8:], int8b(passSock))
		}
		return frameHdr(1, uint32(n), pl), fmt.Sprintf("len=%d", n)
	case "lenhuge":
		n := []uint32{65, 1024, 1 << 20, 0xFFFFFFFF, 0x80000000}[rng.Intn(5)]
		if rng.Intn(2) == 0 {
			return frameHdr(1, n, nil), fmt.Sprintf("len=%d", n)
		}
		return frameHdr(1, n, append(int8b(passSock), int8b(0)...)), fmt.Sprintf("len=%d+16", n)
	case "trunc":
		k := 1 + rng.Intn(12)
		return good[:k], fmt.Sprintf("cut=%d", k)
	case "none":
		return nil, "nothing"
	}
	return nil, "?" + h
}

func hdrIncomplete(h string) bool { return h == "trunc" || h == "none" }

// forward plays one daemon connection: connect, send what the script says, hang up or hold.
func (r *run) forward(ev Ev) error {
	f := &fwd{ev: ev}
	r.fw[ev.D-1] = f
	var err error
	if f.peer, err = r.newPeer(ev.D); err != nil {
		return err
	}
	if ev.F == "two" || ev.F == "twice" {
		if f.peer2, err = r.newPeer(ev.D + 100); err != nil {
			return err
		}
	}
	closeSrv := func() {
		_ = f.peer.srv.Close()
		if f.peer2 != nil {
			_ = f.peer2.srv.Close()
		}
	}
	uc, err := net.DialUnix("unix", nil, &net.UnixAddr{Name: r.path, Net: "unix"})
	if err != nil {
		f.refused = true
		closeSrv()
		return nil
	}
	f.uds = uc
	sf, err := f.peer.srv.File()
	if err != nil {
		return err
	}
	defer sf.Close()
	fd := int(sf.Fd())
	fd2 := -1
	if f.peer2 != nil {
		sf2, err := f.peer2.srv.File()
		if err != nil {
			return err
		}
		defer sf2.Close()
		fd2 = int(sf2.Fd())
	}
	hb, member := headerBytes(ev.H, r.rng)
	junk := []byte{0}
	if r.rng.Intn(3) == 0 {
		junk[0] = byte(1 + r.rng.Intn(255))
	}
	write := func(b []byte) {
		if len(b) > 0 {
			_, _ = uc.Write(b)
		}
	}
	switch {
	case hdrIncomplete(ev.H):
		// nothing may follow an incomplete header (it would complete it); a descriptor can
		// ride on the bytes that are there
		if len(hb) > 0 && ev.F != "none" && ev.F != "byte" && r.rng.Intn(2) == 0 {
			_, _, _ = uc.WriteMsgUnix(hb, syscall.UnixRights(fd), nil)
			f.passed = true
			member += "+fd on it"
		} else {
			write(hb)
		}
	case ev.F == "onhdr":
		_, _, _ = uc.WriteMsgUnix(hb, syscall.UnixRights(fd), nil)
		f.passed = true
		write(junk)
		member += ", fd on the header"
	default:
		style := r.rng.Intn(3)
		if ev.H == "good" && ev.F == "one" && r.rng.Intn(4) == 0 {
			// the package's own producer
			ctx, cancel := context.WithTimeout(context.Background(), 5*time.Second)
			_ = sharedport.SendForwardedConn(ctx, uc, uintptr(fd))
			cancel()
			f.passed = true
			member += ", SendForwardedConn"
			break
		}
		if style == 0 && len(hb) > 1 {
			for i := range hb { // dribbled
				write(hb[i : i+1])
				if i%4 == 3 {
					time.Sleep(100 * time.Microsecond)
				}
			}
			member += ", dribbled"
		} else if style == 1 && len(hb) > 5 {
			write(hb[:5])
			write(hb[5:])
		} else {
			write(hb)
		}
		switch ev.F {
		case "one":
			_, _, _ = uc.WriteMsgUnix(junk, syscall.UnixRights(fd), nil)
			f.passed = true
		case "two":
			_, _, _ = uc.WriteMsgUnix(junk, syscall.UnixRights(fd, fd2), nil)
			f.passed = true
		case "twice":
			_, _, _ = uc.WriteMsgUnix(junk, syscall.UnixRights(fd), nil)
			f.passed = true
			write(frameHdr(1, 8, int8b(passSock)))
			_, _, _ = uc.WriteMsgUnix(junk, syscall.UnixRights(fd2), nil)
		case "byte":
			write(junk)
		case "nonsock":
			var nf *os.File
			if r.rng.Intn(2) == 0 {
				pr, pw, err := os.Pipe()
				if err != nil {
					return err
				}
				defer pw.Close()
				nf = pr
				member += ", pipe"
			} else {
				nf, err = os.Open(r.dir)
				if err != nil {
					return err
				}
				member += ", directory"
			}
			_, _, _ = uc.WriteMsgUnix(junk, syscall.UnixRights(int(nf.Fd())), nil)
			nf.Close()
		case "none":
		}
	}
	r.members = append(r.members, fmt.Sprintf("d%d:%s/%s/%s %s", ev.D, ev.H, ev.F, ev.X, member))
	closeSrv() // the daemon keeps no copy of what it forwarded
	if ev.X == "close" {
		_ = uc.Close()
		f.udsClosed.Store(true)
	}
	return nil
}

// consumed asks the kernel whether everything the daemon wrote has been read by the listener
// (SIOCOUTQ on a unix socket: bytes not yet taken out of the peer's receive queue).
func (f *fwd) consumed() bool {
	rc, err := f.uds.SyscallConn()
	if err != nil {
		return false
	}
	left := int32(-1)
	_ = rc.Control(func(fd uintptr) {
		var v int32
		if _, _, e := syscall.Syscall(syscall.SYS_IOCTL, fd, syscall.TIOCOUTQ, uintptr(unsafe.Pointer(&v))); e == 0 {
			left = v
		}
	})
	return left == 0
}

// udsEnded asks the kernel whether the listener has closed its end of the daemon connection
// (= the handler is done).  A daemon that hung up itself cannot tell.
func (f *fwd) udsEnded() bool {
	if f.udsClosed.Load() {
		return true
	}
	rc, err := f.uds.SyscallConn()
	if err != nil {
		return true
	}
	ended := false
	_ = rc.Control(func(fd uintptr) {
		var b [1]byte
		n, _, err := syscall.Recvfrom(int(fd), b[:], syscall.MSG_PEEK|syscall.MSG_DONTWAIT)
		if err == syscall.EAGAIN || err == syscall.EWOULDBLOCK || err == syscall.EINTR {
			return
		}
		ended = err != nil || n == 0
	})
	if ended {
		f.udsClosed.Store(true)
	}
	return ended
}

// accept starts Accept call a.
func (r *run) accept(a int) {
	rec := r.ac[a-1]
	rec.mu.Lock()
	rec.state = "pending"
	rec.mu.Unlock()
	r.wg.Add(1)
	go func() {
		defer r.wg.Done()
		c, err := r.l.Accept()
		if err != nil || c == nil {
			rec.mu.Lock()
			rec.state, rec.err = "err", err
			if err == nil {
				rec.note = "Accept returned (nil, nil)"
			}
			if c != nil {
				rec.note = "Accept returned a connection AND an error"
				_ = c.Close()
			}
			rec.mu.Unlock()
			return
		}
		d, note := r.identify(c)
		rec.mu.Lock()
		rec.state, rec.d, rec.conn, rec.note = "conn", d, c, note
		rec.mu.Unlock()
	}()
}

// identify reads the peer's greeting from a delivered connection and answers it.
func (r *run) identify(c net.Conn) (int, string) {
	_ = c.SetReadDeadline(time.Now().Add(r.must()))
	line, err := bufio.NewReader(c).ReadString('\n')
	_ = c.SetReadDeadline(time.Time{})
	if err != nil {
		return 0, fmt.Sprintf("the delivered connection (%T) cannot be read: %v", c, err)
	}
	var d, salt int
	if _, err := fmt.Sscanf(line, "P%d.%d\n", &d, &salt); err != nil || salt != r.p.Salt {
		return 0, fmt.Sprintf("the delivered connection carries %q, not a greeting of this run", line)
	}
	if _, err := c.Write([]byte(fmt.Sprintf("A%d\n", d))); err != nil {
		return d, fmt.Sprintf("the delivered connection cannot be written: %v", err)
	}
	return d, ""
}

// closeCall starts Close call k and waits until the call has taken effect (the model's
// AClose is the moment the listening socket closes): the socket file is gone (Listen) or a
// probe connection is refused (AdoptFD).  Close itself may go on waiting for handlers.
func (r *run) closeCall(k int) {
	r.ks[k-1].Store(1)
	r.wg.Add(1)
	go func() {
		defer r.wg.Done()
		_ = r.l.Close()
		r.ks[k-1].Store(2)
	}()
	waitFor(r.must(), func() bool {
		if r.ks[k-1].Load() == 2 {
			return true
		}
		if r.origin == "listen" {
			_, err := os.Lstat(r.path)
			return err != nil
		}
		uc, err := net.DialUnix("unix", nil, &net.UnixAddr{Name: r.path, Net: "unix"})
		if err != nil {
			return true
		}
		_ = uc.Close()
		return false
	})
}

func (r *run) observe() Snap {
	s := Snap{Ds: make([]Fate, len(r.fw)), As: make([]Res, len(r.ac)), Ks: make([]string, len(r.ks))}
	to := map[int]int{}
	for i, rec := range r.ac {
		rec.mu.Lock()
		switch rec.state {
		case "conn":
			s.As[i] = Res{R: "conn", D: rec.d}
			if _, dup := to[rec.d]; !dup {
				to[rec.d] = i + 1
			}
		case "":
			s.As[i] = Res{R: "idle"}
		default:
			s.As[i] = Res{R: rec.state}
		}
		rec.mu.Unlock()
	}
	for i, f := range r.fw {
		switch {
		case f == nil:
			s.Ds[i] = Fate{F: "idle"}
		case f.refused:
			s.Ds[i] = Fate{F: "refused"}
		case to[i+1] != 0:
			s.Ds[i] = Fate{F: "del", A: to[i+1]}
		case f.peer.ended.Load() && f.udsEnded():
			s.Ds[i] = Fate{F: "closed"}
		default:
			s.Ds[i] = Fate{F: "queued"}
		}
	}
	for i, k := range r.ks {
		s.Ks[i] = []string{"idle", "called", "returned"}[k.Load()]
	}
	st, err := os.Lstat(r.path)
	switch {
	case err == nil && st.Mode()&os.ModeSocket != 0:
		s.Path = "sock"
	case err != nil && os.IsNotExist(err):
		s.Path = "gone"
	default:
		s.Path = "other"
	}
	return s
}

// settle waits until what can be observed is an admissible snapshot and stays so.
func (r *run) settle(e *Entry, prefix []Snap, extra time.Duration) (Snap, bool) {
	deadline := time.Now().Add(r.must() + extra)
	var s Snap
	for {
		s = r.observe()
		if e.admissible(prefix, s) {
			time.Sleep(r.may())
			if s2 := r.observe(); s2.Equal(s) {
				return s, true
			}
			continue
		}
		if time.Now().After(deadline) {
			return s, false
		}
		time.Sleep(2 * time.Millisecond)
	}
}

func waitFor(d time.Duration, cond func() bool) bool {
	deadline := time.Now().Add(d)
	for !cond() {
		if time.Now().After(deadline) {
			return cond()
		}
		time.Sleep(2 * time.Millisecond)
	}
	return true
}

func sig(inv, what string) map[string]string {
	return map[string]string{"spec": "SharedPort", "part": "listener", "invariant": inv, "what": what}
}

func class(ev Ev) string { return ev.H + "/" + ev.F + "/" + ev.X }

// diagnose names the invariant a not-admissible observation breaks.
func (r *run) diagnose(e *Entry, prefix []Snap, s Snap, upto int) *Diff {
	detail := fmt.Sprintf("script %s; after step %d observed [%s]; the model admits %s; members: %s",
		Key(e.Origin, e.Trace), upto, s.String(), strings.Join(e.expected(prefix), " | "), strings.Join(r.members, "; "))
	closeCalled, closeReturned := false, false
	for _, k := range s.Ks {
		closeCalled = closeCalled || k != "idle"
		closeReturned = closeReturned || k == "returned"
	}
	seen := map[int]bool{}
	for i, a := range s.As {
		rec := r.ac[i]
		rec.mu.Lock()
		note := rec.note
		rec.mu.Unlock()
		if note != "" {
			return &Diff{Sig: sig("Usable", "delivered connection"), Detail: note + "; " + detail}
		}
		if a.R != "conn" {
			continue
		}
		if a.D > 100 {
			return &Diff{Sig: sig("OneForwardPerConnection", "second descriptor delivered"), Detail: detail}
		}
		if a.D < 1 || a.D > len(r.fw) || r.fw[a.D-1] == nil {
			return &Diff{Sig: sig("ExactlyOnce", "unknown connection delivered"), Detail: detail}
		}
		if seen[a.D] {
			return &Diff{Sig: sig("ExactlyOnce", "delivered twice"), Detail: detail}
		}
		seen[a.D] = true
		if ev := r.fw[a.D-1].ev; ev.V == "drop" {
			return &Diff{Sig: sig("OnlyWellFormed", class(Ev{H: ev.H, F: ev.F, X: "*"})), Detail: detail}
		}
	}
	if !closeCalled {
		dead := e.Origin == "listen" && s.Path == "gone"
		for _, a := range s.As {
			dead = dead || a.R == "err"
		}
		if dead {
			return &Diff{Sig: sig("NeverKills", "the listener closed without a Close call"), Detail: detail}
		}
	}
	if s.Path == "other" {
		return &Diff{Sig: sig("SocketFile", "not a socket"), Detail: detail}
	}
	wantPath := "sock"
	if e.Origin == "listen" && closeCalled {
		wantPath = "gone"
	}
	if s.Path != wantPath {
		return &Diff{Sig: sig("SocketFile", e.Origin+" "+s.Path), Detail: detail}
	}
	for _, k := range s.Ks {
		if k == "called" {
			return &Diff{Sig: sig("CloseReturns", "Close still running"), Detail: detail}
		}
	}
	if closeCalled {
		for _, a := range s.As {
			if a.R == "pending" {
				return &Diff{Sig: sig("AcceptAnswered", "Accept pending after Close"), Detail: detail}
			}
		}
		for i, d := range s.Ds {
			if d.F == "queued" {
				f := r.fw[i]
				what := "connection still open after Close"
				if f.peer.ended.Load() {
					what = "handler still holds the daemon connection after Close"
				}
				return &Diff{Sig: sig("ClosedClean", what), Detail: detail}
			}
		}
	} else {
		pending := false
		for _, a := range s.As {
			pending = pending || a.R == "pending"
		}
		malformedBefore := false
		for i, d := range s.Ds {
			f := r.fw[i]
			if f == nil {
				continue
			}
			if d.F == "refused" {
				return &Diff{Sig: sig("NeverKills", "connect refused while open"), Detail: detail}
			}
			if d.F == "queued" && f.ev.V == "drop" {
				what := "malformed forward neither dropped nor timed out"
				if f.peer.ended.Load() {
					what = "handler of a malformed forward does not end"
				}
				return &Diff{Sig: sig("ForwardSettles", what), Detail: detail}
			}
			if f.ev.V == "deliver" && d.F != "del" && (pending || d.F == "closed") {
				if malformedBefore {
					return &Diff{Sig: sig("NeverKills", "good forward after a malformed one not delivered"), Detail: detail}
				}
				return &Diff{Sig: sig("WellFormedDelivered", class(Ev{H: f.ev.H, F: f.ev.F, X: "*"})), Detail: detail}
			}
			if f.ev.V != "deliver" {
				malformedBefore = true
			}
		}
	}
	return &Diff{Sig: sig("Outcome", "not an admissible outcome"), Detail: detail}
}

// RunListener plays one environment script against a real listener.
func RunListener(tmp string, e *Entry, nd, na, nk int, p Params) (*Obs, *Diff, error) {
	r := &run{p: p, rng: rand.New(rand.NewSource(int64(p.Salt))), origin: e.Origin, nd: nd,
		fw: make([]*fwd, nd), ac: make([]*accRec, na), ks: make([]*atomic.Int32, nk)}
	for i := range r.ac {
		r.ac[i] = &accRec{}
	}
	for i := range r.ks {
		r.ks[i] = &atomic.Int32{}
	}
	dir, err := os.MkdirTemp(tmp, "sp")
	if err != nil {
		return nil, nil, err
	}
	defer os.RemoveAll(dir)
	r.dir = dir
	r.path = filepath.Join(dir, "ep")
	if p.Salt%3 == 0 {
		r.path = filepath.Join(dir, "sub", "d", "ep") // Listen creates the directory
	}
	if r.tcp, err = net.Listen("tcp", "127.0.0.1:0"); err != nil {
		return nil, nil, err
	}
	defer r.tcp.Close()
	// Close "waits for in-flight handler goroutines to finish before returning.  The
	// wait-for-handlers part exists because each handler may call l.logf as it returns":
	// a log line after a Close call has returned comes from a handler that outlived it
	opts := sharedport.Options{HandshakeTimeout: HandshakeTimeout, Logf: func(format string, a ...any) {
		returned := 0
		for i, k := range r.ks {
			if k.Load() == 2 {
				returned = i + 1
				break
			}
		}
		r.logMu.Lock()
		line := fmt.Sprintf(format, a...)
		r.logs = append(r.logs, line)
		if returned > 0 && r.closeViol == "" {
			r.closeViol = fmt.Sprintf("a handler logged %q after Close call %d had returned", line, returned)
		}
		r.logMu.Unlock()
	}}
	switch e.Origin {
	case "listen":
		if p.Salt%5 == 1 {
			// "must tolerate dead sockets left by a crash"
			_ = os.MkdirAll(filepath.Dir(r.path), 0o700)
			if ul, err := net.ListenUnix("unix", &net.UnixAddr{Name: r.path, Net: "unix"}); err == nil {
				ul.SetUnlinkOnClose(false)
				_ = ul.Close()
			}
		}
		if r.l, err = sharedport.Listen(r.path, opts); err != nil {
			return nil, &Diff{Sig: sig("SocketFile", "Listen fails"), Detail: fmt.Sprintf("Listen(%s): %v", r.path, err)}, nil
		}
		if st, err := os.Lstat(r.path); err != nil || st.Mode()&os.ModeSocket == 0 || st.Mode().Perm() != 0o700 {
			return nil, &Diff{Sig: sig("SocketFile", "mode after Listen"), Detail: fmt.Sprintf("after Listen the path is %v (%v), want a socket with mode 0700", st, err)}, nil
		}
		if r.l.SocketPath() != r.path {
			return nil, &Diff{Sig: sig("SocketFile", "SocketPath"), Detail: fmt.Sprintf("SocketPath() = %q, want %q", r.l.SocketPath(), r.path)}, nil
		}
	case "adopt":
		if err := os.MkdirAll(filepath.Dir(r.path), 0o700); err != nil {
			return nil, nil, err
		}
		ul, err := net.ListenUnix("unix", &net.UnixAddr{Name: r.path, Net: "unix"})
		if err != nil {
			return nil, nil, err
		}
		ul.SetUnlinkOnClose(false)
		uf, err := ul.File()
		if err != nil {
			return nil, nil, err
		}
		fd, err := syscall.Dup(int(uf.Fd()))
		uf.Close()
		ul.Close()
		if err != nil {
			return nil, nil, err
		}
		syscall.CloseOnExec(fd)
		if r.l, err = sharedport.AdoptFD(uintptr(fd), opts); err != nil {
			return nil, &Diff{Sig: sig("SocketFile", "AdoptFD fails"), Detail: fmt.Sprintf("AdoptFD of a listening unix socket: %v", err)}, nil
		}
		if r.l.SocketPath() != "" {
			return nil, &Diff{Sig: sig("SocketFile", "SocketPath"), Detail: fmt.Sprintf("SocketPath() of an adopted listener = %q, want \"\"", r.l.SocketPath())}, nil
		}
	default:
		return nil, nil, fmt.Errorf("unknown origin %q", e.Origin)
	}
	defer func() {
		// whatever happened: stop everything this run started
		done := make(chan struct{})
		go func() { _ = r.l.Close(); close(done) }()
		select {
		case <-done:
		case <-time.After(r.must()):
		}
		for _, f := range r.fw {
			if f == nil {
				continue
			}
			for _, p := range []*peerEnd{f.peer, f.peer2} {
				if p != nil {
					_ = p.c.Close()
					_ = p.srv.Close()
				}
			}
			if f.uds != nil {
				_ = f.uds.Close()
			}
		}
		for _, a := range r.ac {
			a.mu.Lock()
			if a.conn != nil {
				_ = a.conn.Close()
			}
			a.mu.Unlock()
		}
		wdone := make(chan struct{})
		go func() { r.wg.Wait(); close(wdone) }()
		select {
		case <-wdone:
		case <-time.After(r.must()):
		}
	}()

	obs := &Obs{}
	var prefix []Snap
	extra := time.Duration(0)
	for i, ev := range e.Trace {
		if ev.Q {
			s, ok := r.settle(e, prefix, extra)
			if !ok {
				return obs, r.diagnose(e, prefix, s, i), nil
			}
			prefix = append(prefix, s)
		}
		switch ev.E {
		case "fwd":
			if ev.W {
				extra = HandshakeTimeout
				obs.Waited++
			}
			if err := r.forward(ev); err != nil {
				return obs, nil, err
			}
			// a stalling daemon connection followed at once by Close: half of the time first make
			// sure that the handler has started (it has read what was sent and waits for more), so
			// that Close provably has a handler to wait for
			if f := r.fw[ev.D-1]; ev.W && !f.refused && i+1 < len(e.Trace) && e.Trace[i+1].E == "close" && !e.Trace[i+1].Q &&
				(ev.H == "trunc" || (ev.H == "good" && ev.F == "none")) && r.rng.Intn(2) == 0 {
				f.started = waitFor(2*time.Second, f.consumed)
			}
		case "acc":
			r.accept(ev.A)
		case "close":
			extra += HandshakeTimeout
			r.closeCall(ev.K)
		}
	}
	s, ok := r.settle(e, prefix, extra)
	if !ok {
		return obs, r.diagnose(e, prefix, s, len(e.Trace)), nil
	}
	prefix = append(prefix, s)
	obs.Snaps = prefix
	obs.Member = strings.Join(r.members, "; ")
	for _, d := range s.Ds {
		switch d.F {
		case "del":
			obs.Delivered++
		case "closed":
			obs.Dropped++
		}
	}
	return obs, r.after(e, s), nil
}

// after checks what the snapshots do not show, once the listener is closed and at rest.
func (r *run) after(e *Entry, final Snap) *Diff {
	ctxt := fmt.Sprintf("script %s; final [%s]; members: %s", Key(e.Origin, e.Trace), final.String(), strings.Join(r.members, "; "))

	// Accept after Close: the error, promptly, every time
	for i := 0; i < 2; i++ {
		type ar struct {
			c   net.Conn
			err error
		}
		ch := make(chan ar, 1)
		go func() { c, err := r.l.Accept(); ch <- ar{c, err} }()
		select {
		case a := <-ch:
			if a.err == nil || a.c != nil {
				if a.c != nil {
					_ = a.c.Close()
				}
				return &Diff{Sig: sig("AfterCloseErr", "Accept after Close returned"), Detail: fmt.Sprintf("Accept after Close returned (%v, %v); %s", a.c, a.err, ctxt)}
			}
		case <-time.After(r.must()):
			return &Diff{Sig: sig("AcceptAnswered", "Accept blocks after Close"), Detail: "an Accept call made after Close had returned did not return; " + ctxt}
		}
	}
	// Close again: "Safe to call multiple times"
	ch := make(chan error, 1)
	go func() { ch <- r.l.Close() }()
	select {
	case err := <-ch:
		if err != nil {
			return &Diff{Sig: sig("CloseReturns", "second Close fails"), Detail: fmt.Sprintf("a further Close returned %v; %s", err, ctxt)}
		}
	case <-time.After(r.must()):
		return &Diff{Sig: sig("CloseReturns", "second Close blocks"), Detail: "a further Close did not return; " + ctxt}
	}
	// the closed listener takes no connection
	if uc, err := net.DialUnix("unix", nil, &net.UnixAddr{Name: r.path, Net: "unix"}); err == nil {
		_ = uc.Close()
		return &Diff{Sig: sig("ClosedClean", "still listening after Close"), Detail: "the unix socket still accepts connections after Close; " + ctxt}
	}
	for i, f := range r.fw {
		if f == nil || f.refused {
			continue
		}
		// every handler is done: the daemon connection was closed by the listener
		if !waitFor(r.must(), f.udsEnded) {
			return &Diff{Sig: sig("ClosedClean", "daemon connection left open"), Detail: fmt.Sprintf("the unix connection of d%d is still open after Close; %s", i+1, ctxt)}
		}
		// "extra fds ... are closed immediately"; what follows a forward on the same connection is discarded
		if f.peer2 != nil && !waitFor(r.must(), f.peer2.ended.Load) {
			return &Diff{Sig: sig("NoLeak", "extra descriptor "+f.ev.F), Detail: fmt.Sprintf("the second connection passed by d%d (%s) is still open after Close; %s", i+1, f.ev.F, ctxt)}
		}
	}
	for i, rec := range r.ac {
		rec.mu.Lock()
		c, d := rec.conn, rec.d
		rec.mu.Unlock()
		if c == nil {
			continue
		}
		f := r.fw[d-1]
		want := fmt.Sprintf("A%d\n", d)
		if !waitFor(r.must(), func() bool { return f.peer.got() == want }) {
			return &Diff{Sig: sig("Usable", "bytes to the peer"), Detail: fmt.Sprintf("the peer of d%d received %q from the connection Accept call %d returned, want %q; %s", d, f.peer.got(), i+1, want, ctxt)}
		}
		if c.RemoteAddr() == nil || c.RemoteAddr().String() != f.peer.c.LocalAddr().String() {
			return &Diff{Sig: sig("Usable", "remote address"), Detail: fmt.Sprintf("the delivered connection says its peer is %v, the peer is %v; %s", c.RemoteAddr(), f.peer.c.LocalAddr(), ctxt)}
		}
		// the application's connection is the only descriptor left
		_ = c.Close()
		if !waitFor(r.must(), f.peer.ended.Load) {
			return &Diff{Sig: sig("NoLeak", "delivered connection"), Detail: fmt.Sprintf("after the application closed the connection of d%d its peer sees no end: another descriptor is still open; %s", d, ctxt)}
		}
	}
	r.logMu.Lock()
	cv := r.closeViol
	r.logMu.Unlock()
	if cv != "" {
		// Was every handler that could log provably running (or finished) when Close was called?
		// Then this is not the acceptLoop / Close race (LateHandler) but a Close that does not wait.
		strict := true
		rest := false
		for i := len(e.Trace) - 1; i >= 0; i-- {
			ev := e.Trace[i]
			if ev.E == "close" && ev.K == 1 {
				rest = ev.Q
				for j := i - 1; j >= 0; j-- {
					p := e.Trace[j]
					if p.E == "fwd" && !rest && !(r.fw[p.D-1] != nil && r.fw[p.D-1].started) {
						strict = false
					}
					rest = rest || p.Q
				}
				break
			}
		}
		if strict {
			return &Diff{Sig: sig("ClosedClean", "Close returns before a running handler is done"), Detail: cv + "; " + ctxt}
		}
		return &Diff{Sig: sig("ClosedClean", LateHandler), Detail: cv + "; " + ctxt}
	}
	return nil
}

// LateHandler is the `what` of the difference "a handler outlived Close" (see Stats.LateHandlers).
const LateHandler = "a handler is still running after Close returned"
