package spreplay

import (
	"context"
	"errors"
	"fmt"
	"io"
	"log/slog"
	"math/rand"
	"net"
	"strings"
	"sync"
	"syscall"
	"time"

	"github.com/bbockelm/cedar/client"
	"github.com/bbockelm/cedar/security"
)

var silence sync.Once

// Quiet silences cedar's logging for the replay.
func Quiet() {
	silence.Do(func() {
		slog.SetDefault(slog.New(slog.NewTextHandler(io.Discard, &slog.HandlerOptions{Level: slog.LevelError + 4})))
	})
}

func hintSig(inv, what string) map[string]string {
	return map[string]string{"spec": "SharedPort", "part": "hint", "invariant": inv, "what": what}
}

// resetClass is the documented class, written from the comment of isConnResetOrEOF: "a TCP
// reset, a broken pipe, or an EOF / unexpected EOF while a read was still expecting data".
func resetClass(err error) bool {
	return errors.Is(err, io.EOF) || errors.Is(err, io.ErrUnexpectedEOF) || errors.Is(err, syscall.ECONNRESET) ||
		errors.Is(err, syscall.EPIPE) || errors.Is(err, net.ErrClosed)
}

// hintDaemon answers the first bytes of a connection the way the error class says.
func hintDaemon(class string, stop chan struct{}) (net.Listener, error) {
	ln, err := net.Listen("tcp", "127.0.0.1:0")
	if err != nil {
		return nil, err
	}
	go func() {
		for {
			c, err := ln.Accept()
			if err != nil {
				return
			}
			go func(c net.Conn) {
				defer c.Close()
				tc := c.(*net.TCPConn)
				buf := make([]byte, 8192)
				first := func() { // wait for the client's first bytes
					_ = c.SetReadDeadline(time.Now().Add(5 * time.Second))
					_, _ = c.Read(buf)
				}
				drain := func() { // keep the connection until the client hangs up
					_ = c.SetReadDeadline(time.Now().Add(20 * time.Second))
					for {
						if _, err := c.Read(buf); err != nil {
							return
						}
					}
				}
				switch class {
				case "eof":
					first()
				case "ueof":
					first()
					_, _ = c.Write(frameHdr(1, 100, []byte("abc")))
				case "rst":
					first()
					_ = tc.SetLinger(0)
				case "epipe":
					// hang up before the client writes anything
				case "protocol":
					first()
					_, _ = c.Write(frameHdr(1, 12, []byte("hello world!")))
					drain()
				case "timeout":
					select {
					case <-stop:
					case <-time.After(20 * time.Second):
					}
				}
			}(c)
		}
	}()
	return ln, nil
}

// ExecHint drives one hint row through client.ConnectAndAuthenticateWithConfig.  It returns
// conclusive=false when the provoked error did not fall into the intended class (kernel
// timing), in which case nothing is judged.
func ExecHint(row Row, salt int, slow bool) (d *Diff, conclusive bool, err error) {
	Quiet()
	rng := rand.New(rand.NewSource(int64(salt)))
	m := pickMembers(rng)
	stop := make(chan struct{})
	defer close(stop)
	ln, err := hintDaemon(row.Err, stop)
	if err != nil {
		return nil, false, err
	}
	defer ln.Close()
	_, port, _ := net.SplitHostPort(ln.Addr().String())
	if row.Shape.Host == "v6" {
		return nil, false, nil
	}
	m["host"], m["port"] = "127.0.0.1", port
	addr := m.str(row.Addr)
	tmo := 1200 * time.Millisecond
	if row.Err != "timeout" {
		tmo = 10 * time.Second
		if slow {
			tmo = 40 * time.Second
		}
	}
	ctx, cancel := context.WithTimeout(context.Background(), tmo)
	defer cancel()
	cfg := &client.ClientConfig{Address: addr, Timeout: 5 * time.Second, Security: &security.SecurityConfig{
		AuthMethods:    []security.AuthMethod{},
		Authentication: security.SecurityNever,
		Encryption:     security.SecurityNever,
		Integrity:      security.SecurityNever,
		Command:        60007,
	}}
	cl, cerr := client.ConnectAndAuthenticateWithConfig(ctx, cfg)
	ctxt := fmt.Sprintf("shape [%s], address %q, the daemon answers with class %q", row.Label(), addr, row.Err)
	if cerr == nil {
		_ = cl.Close()
		return nil, false, nil
	}
	wantReset := false
	for _, c := range []string{"eof", "ueof", "rst", "epipe", "netclosed"} {
		wantReset = wantReset || row.Err == c
	}
	isReset := resetClass(cerr)
	msg := cerr.Error()
	hinted := strings.Contains(msg, "shared_port at") && strings.Contains(msg, "did not respond")
	if isReset != wantReset {
		if hinted && wantReset && (strings.Contains(msg, "EOF") || strings.Contains(msg, "connection reset by peer") || strings.Contains(msg, "broken pipe")) {
			return &Diff{Sig: hintSig("NeverHides", "errors.Is"), Detail: fmt.Sprintf("%s: the annotated error %q names the hang-up but errors.Is no longer finds io.EOF / ECONNRESET / EPIPE in it", ctxt, msg)}, true, nil
		}
		return nil, false, nil // the kernel surfaced the hang-up differently this time
	}
	if hinted != row.Hint {
		what := "hint missing"
		if hinted {
			what = "hint on " + map[bool]string{true: "a shared-port", false: "a direct"}[row.Sp] + " address for " +
				map[bool]string{true: "a reset-class", false: "another"}[wantReset] + " error"
		}
		return &Diff{Sig: hintSig("HintOnlyForResetOnSharedPort", what),
			Detail: fmt.Sprintf("%s: error %q; the spec says hint=%v", ctxt, msg, row.Hint)}, true, nil
	}
	if !hinted {
		return nil, true, nil
	}
	// never hides: the original error is still there for errors.Is / Unwrap and in the text
	inner := errors.Unwrap(cerr)
	if inner == nil || !resetClass(inner) {
		return &Diff{Sig: hintSig("NeverHides", "Unwrap"), Detail: fmt.Sprintf("%s: errors.Unwrap of the annotated error is %v", ctxt, inner)}, true, nil
	}
	if !strings.HasSuffix(msg, inner.Error()) {
		return &Diff{Sig: hintSig("NeverHides", "text"), Detail: fmt.Sprintf("%s: the annotated text %q does not end with the original %q", ctxt, msg, inner.Error())}, true, nil
	}
	server, id := m.str(row.Ht.Server), m.str(row.Ht.ID)
	if server == "" {
		server = "127.0.0.1:" + port
	}
	if !strings.Contains(msg, "127.0.0.1:"+port) || (id != "" && !strings.Contains(msg, "sock="+id)) {
		return &Diff{Sig: hintSig("HintNamesEndpoint", "server / id"), Detail: fmt.Sprintf("%s: the hint %q does not name the server and sock id", ctxt, msg)}, true, nil
	}
	return nil, true, nil
}
