package spreplay

import (
	"context"
	"encoding/json"
	"errors"
	"fmt"
	"math/rand"
	"net"
	"strings"
	"sync"
	"syscall"
	"time"

	"cedarverif/internal/refcodec"

	"github.com/bbockelm/cedar/addresses"
	"github.com/bbockelm/cedar/client"
	"github.com/bbockelm/cedar/client/sharedport"
	"github.com/bbockelm/cedar/stream"
)

type Shape struct {
	Br   string   `json:"br"`
	Host string   `json:"host"`
	Sep  string   `json:"sep"`
	Sp   bool     `json:"sp"`
	Ps   []string `json:"ps"`
}

type Contact struct {
	Broker []string `json:"broker"`
	ID     []string `json:"id"`
}

// Row is one line of the route / hint / ctx tables TLC prints.
type Row struct {
	Kind  string   `json:"kind"`
	Shape Shape    `json:"shape"`
	Addr  []string `json:"addr"`
	Ht    struct {
		Server []string `json:"server"`
		ID     []string `json:"id"`
		Sp     bool     `json:"sp"`
	} `json:"ht"`
	Sin struct {
		Err     bool       `json:"err"`
		Primary []string   `json:"primary"`
		Host    []string   `json:"host"`
		Port    []string   `json:"port"`
		Sock    []string   `json:"sock"`
		Alias   []string   `json:"alias"`
		Priv    []string   `json:"priv"`
		Ccb     []Contact  `json:"ccb"`
		Noudp   bool       `json:"noudp"`
		Addrs   [][]string `json:"addrs"`
		Nkeys   int        `json:"nkeys"`
	} `json:"sin"`
	Valid bool   `json:"valid"`
	Via   string `json:"via"`
	Ccb   bool   `json:"ccb"`
	Canon bool   `json:"canon"`
	Req   struct {
		ID     []string `json:"id"`
		Frames int      `json:"frames"`
		Fields []string `json:"fields"`
	} `json:"req"`
	Dl map[string][]string `json:"dl"`
	Nm map[string]string   `json:"nm"`
	// hint rows
	Sp    bool     `json:"sp"`
	Err   string   `json:"err"`
	Hint  bool     `json:"hint"`
	Chain []string `json:"chain"`
	// ctx rows
	Phase  string   `json:"phase"`
	Result string   `json:"result"`
	Closed bool     `json:"closed"`
	Bound  []string `json:"bound"`
}

func ParseRows(raws []json.RawMessage) ([]Row, error) {
	var rows []Row
	for _, r := range raws {
		var w struct {
			Scn Row `json:"scn"`
		}
		if err := json.Unmarshal(r, &w); err != nil {
			return nil, err
		}
		rows = append(rows, w.Scn)
	}
	return rows, nil
}

func (r Row) Label() string {
	return fmt.Sprintf("%s host=%s sp=%v sep=%s ps=%s", r.Shape.Br, r.Shape.Host, r.Shape.Sp, r.Shape.Sep, strings.Join(r.Shape.Ps, ","))
}

// members maps every token to a concrete string; one choice per row.
type members map[string]string

var wordPools = map[string][]string{
	"host": {"127.0.0.1", "10.20.30.40", "node-7.example.org", "localhost", "cm.chtc.wisc.edu", "h"},
	"port": {"9618", "41919", "1", "65535"},
	"h6":   {"fe80", "1", "2001", "db8", "0"},
	"n":    {"42", "7", "1234567"},
	"id":   {"schedd_1", "startd", "a.b-c_D9", "12345_abcd", "X", "collector.sock-2"},
	"id2":  {"negotiator", "master_77"},
	"val":  {"submit-3.chtc.wisc.edu", "x", "Some_Alias.9"},
	"uni":  {"é", "ü", "日"},
}

func pickMembers(rng *rand.Rand) members {
	m := members{}
	for k, pool := range wordPools {
		m[k] = pool[rng.Intn(len(pool))]
	}
	return m
}

func (m members) tok(t string) string {
	if s, ok := m[t]; ok {
		return s
	}
	return t // special characters, escapes and literal words stand for themselves
}

func (m members) str(toks []string) string {
	var b strings.Builder
	for _, t := range toks {
		b.WriteString(m.tok(t))
	}
	return b.String()
}

func routeSig(inv, what string) map[string]string {
	return map[string]string{"spec": "SharedPort", "part": "route", "invariant": inv, "what": what}
}

// CompareParsers renders the row's address and compares the real parsers with the spec's results.
func CompareParsers(row Row, salt int) *Diff {
	m := pickMembers(rand.New(rand.NewSource(int64(salt))))
	addr := m.str(row.Addr)
	ctxt := fmt.Sprintf("shape [%s], address %q", row.Label(), addr)
	ht := addresses.ParseHTCondorAddress(addr)
	if ht.ServerAddr != m.str(row.Ht.Server) || ht.SharedPortID != m.str(row.Ht.ID) || ht.IsSharedPort != row.Ht.Sp {
		return &Diff{Sig: routeSig("ParseHTCondorAddress", paramClass(row)),
			Detail: fmt.Sprintf("%s: ParseHTCondorAddress = {server %q, id %q, shared %v}, the spec says {%q, %q, %v}", ctxt,
				ht.ServerAddr, ht.SharedPortID, ht.IsSharedPort, m.str(row.Ht.Server), m.str(row.Ht.ID), row.Ht.Sp)}
	}
	if got := addresses.IsValidSharedPortID(ht.SharedPortID); got != row.Valid {
		return &Diff{Sig: routeSig("IsValidSharedPortID", paramClass(row)),
			Detail: fmt.Sprintf("%s: IsValidSharedPortID(%q) = %v, the spec says %v", ctxt, ht.SharedPortID, got, row.Valid)}
	}
	sin, err := addresses.ParseSinful(addr)
	bad := func(what string, got, want any) *Diff {
		return &Diff{Sig: routeSig("ParseSinful", what+" "+paramClass(row)),
			Detail: fmt.Sprintf("%s: ParseSinful %s = %q, the spec says %q", ctxt, what, fmt.Sprint(got), fmt.Sprint(want))}
	}
	if (err != nil) != row.Sin.Err {
		return bad("error", err, row.Sin.Err)
	}
	if sin.Raw != addr {
		return bad("Raw", sin.Raw, addr)
	}
	if sin.PrimaryAddr != m.str(row.Sin.Primary) {
		return bad("PrimaryAddr", sin.PrimaryAddr, m.str(row.Sin.Primary))
	}
	if sin.Host != m.str(row.Sin.Host) || sin.Port != m.str(row.Sin.Port) {
		return bad("Host:Port", sin.Host+" : "+sin.Port, m.str(row.Sin.Host)+" : "+m.str(row.Sin.Port))
	}
	if err != nil {
		return nil
	}
	if sin.SharedPortID != m.str(row.Sin.Sock) || sin.IsSharedPort() != (len(row.Sin.Sock) > 0) {
		return bad("SharedPortID", sin.SharedPortID, m.str(row.Sin.Sock))
	}
	if sin.Alias != m.str(row.Sin.Alias) {
		return bad("Alias", sin.Alias, m.str(row.Sin.Alias))
	}
	if sin.PrivateAddr != m.str(row.Sin.Priv) {
		return bad("PrivateAddr", sin.PrivateAddr, m.str(row.Sin.Priv))
	}
	if sin.NoUDP != row.Sin.Noudp {
		return bad("NoUDP", sin.NoUDP, row.Sin.Noudp)
	}
	if len(sin.Params) != row.Sin.Nkeys {
		return bad("number of parameters", len(sin.Params), row.Sin.Nkeys)
	}
	var wantAddrs []string
	for _, a := range row.Sin.Addrs {
		wantAddrs = append(wantAddrs, m.str(a))
	}
	if strings.Join(sin.Addrs, "|") != strings.Join(wantAddrs, "|") || len(sin.Addrs) != len(wantAddrs) {
		return bad("Addrs", sin.Addrs, wantAddrs)
	}
	if sin.IsCCB() != row.Ccb || len(sin.CCBContacts) != len(row.Sin.Ccb) {
		return bad("CCB contacts", len(sin.CCBContacts), len(row.Sin.Ccb))
	}
	for i, c := range sin.CCBContacts {
		w := row.Sin.Ccb[i]
		if c.BrokerAddr != m.str(w.Broker) || c.CCBID != m.str(w.ID) {
			return bad(fmt.Sprintf("contact %d", i+1), c.BrokerAddr+" # "+c.CCBID, m.str(w.Broker)+" # "+m.str(w.ID))
		}
		if b, id, ok := addresses.SplitCCBContact(c.Raw); !ok || b != c.BrokerAddr || id != c.CCBID {
			return bad(fmt.Sprintf("contact %d Raw", i+1), c.Raw, c.BrokerAddr+"#"+c.CCBID)
		}
		if addresses.BrokerIsCCB(c.BrokerAddr) != strings.Contains(m.str(w.Broker), "#") {
			return bad("BrokerIsCCB", addresses.BrokerIsCCB(c.BrokerAddr), m.str(w.Broker))
		}
	}
	return nil
}

func paramClass(row Row) string {
	if len(row.Shape.Ps) == 0 {
		return row.Shape.Br + "/" + row.Shape.Host
	}
	return strings.Join(row.Shape.Ps, row.Shape.Sep)
}

// ---------------------------------------------------------------- scripted shared-port daemon

type dconn struct {
	mu   sync.Mutex
	data []byte
	done chan struct{}
}

func (d *dconn) bytes() []byte {
	d.mu.Lock()
	defer d.mu.Unlock()
	return append([]byte(nil), d.data...)
}

// SPDaemon is a scripted shared-port daemon: it accepts TCP connections on the IPv4 and
// (if available) IPv6 loopback and records what arrives until the client hangs up.
type SPDaemon struct {
	lns   []net.Listener
	Port  string
	HasV6 bool
	mu    sync.Mutex
	conns []*dconn
	raw   []net.Conn
	hold  bool // do not read (for the "send" phase of the ctx scenarios)
	stop  chan struct{}
}

func NewSPDaemon(hold bool) (*SPDaemon, error) {
	d := &SPDaemon{hold: hold, stop: make(chan struct{})}
	for try := 0; try < 20; try++ {
		l4, err := net.Listen("tcp4", "127.0.0.1:0")
		if err != nil {
			return nil, err
		}
		_, port, _ := net.SplitHostPort(l4.Addr().String())
		d.lns, d.Port = []net.Listener{l4}, port
		if l6, err := net.Listen("tcp6", "[::1]:"+port); err == nil {
			d.lns = append(d.lns, l6)
			d.HasV6 = true
			break
		} else if !errors.Is(err, syscall.EADDRINUSE) {
			break // no IPv6 loopback here
		}
		l4.Close()
	}
	for _, ln := range d.lns {
		go d.serve(ln)
	}
	return d, nil
}

func (d *SPDaemon) serve(ln net.Listener) {
	for {
		c, err := ln.Accept()
		if err != nil {
			return
		}
		dc := &dconn{done: make(chan struct{})}
		d.mu.Lock()
		d.conns = append(d.conns, dc)
		d.raw = append(d.raw, c)
		hold := d.hold
		d.mu.Unlock()
		go func() {
			defer close(dc.done)
			defer c.Close()
			if hold {
				<-d.stop // keep the connection without reading
				return
			}
			b := make([]byte, 65536)
			for {
				n, err := c.Read(b)
				if n > 0 {
					dc.mu.Lock()
					dc.data = append(dc.data, b[:n]...)
					dc.mu.Unlock()
				}
				if err != nil {
					return
				}
			}
		}()
	}
}

func (d *SPDaemon) Close() {
	close(d.stop)
	for _, ln := range d.lns {
		ln.Close()
	}
	d.mu.Lock()
	for _, c := range d.raw {
		c.Close()
	}
	d.mu.Unlock()
}

func (d *SPDaemon) snapshot() []*dconn {
	d.mu.Lock()
	defer d.mu.Unlock()
	return append([]*dconn(nil), d.conns...)
}

// ---------------------------------------------------------------- executing a route

var (
	nameClasses     = []string{"default", "plain", "nul"}
	deadlineClasses = []string{"zero", "sub", "sec", "frac"}
)

// ExecRoute drives one row's address through one of the client entry points against a
// scripted daemon and reads what the daemon received with the reference codec.
//
//	api 0  SharedPortClient.ConnectToHTCondorAddress
//	api 1  SharedPortClient.ConnectViaSharedPort with the parts ParseHTCondorAddress returned
//	api 2  client.NewClient(..).Connect
func ExecRoute(row Row, api, salt int, slow bool) (*Diff, bool, error) {
	rng := rand.New(rand.NewSource(int64(salt)))
	m := pickMembers(rng)
	dm, err := NewSPDaemon(false)
	if err != nil {
		return nil, false, err
	}
	defer dm.Close()
	m["host"], m["port"], m["h6"] = "127.0.0.1", dm.Port, "0"
	if row.Shape.Host == "v6" && !dm.HasV6 {
		return nil, false, nil
	}
	if api == 1 && !row.Ht.Sp {
		api = 0
	}
	if api == 2 && row.Ccb {
		api = 0 // Connect goes to the broker: not this module
	}
	addr := m.str(row.Addr)
	nameClass := nameClasses[rng.Intn(len(nameClasses))]
	dlClass := deadlineClasses[rng.Intn(len(deadlineClasses))]
	if api == 2 && dlClass == "zero" {
		dlClass = "sec" // NewClient replaces a zero Timeout by its default
	}
	name, wantName := "", "golang-cedar-client"
	switch nameClass {
	case "plain":
		name = fmt.Sprintf("verif-client-%d", salt)
		wantName = name
	case "nul":
		name = fmt.Sprintf("verif\x00client-%d", salt)
		wantName = "verif"
	}
	var deadline time.Duration
	var wantDl []int64
	switch dlClass {
	case "zero":
		deadline, wantDl = 0, []int64{-1}
	case "sub":
		deadline, wantDl = 600*time.Millisecond, []int64{-1, 0, 1}
	case "sec":
		deadline, wantDl = 7*time.Second, []int64{7}
	case "frac":
		deadline, wantDl = 2700*time.Millisecond, []int64{2, 3}
	}
	// the labels the spec gives for this class (none / exact / floor / ceil) must cover the values above
	if len(row.Dl[dlClass]) == 0 || row.Nm[nameClass] == "" {
		return nil, false, fmt.Errorf("route row without deadline / name rule for %s / %s", dlClass, nameClass)
	}
	ctxt := fmt.Sprintf("shape [%s], address %q, api %d, client name class %s, deadline %v", row.Label(), addr, api, nameClass, deadline)
	long := 10 * time.Second
	if slow {
		long = 40 * time.Second
	}
	ctx, cancel := context.WithTimeout(context.Background(), long)
	defer cancel()

	var s *stream.Stream
	var cerr error
	spc := sharedport.NewSharedPortClient(name)
	switch api {
	case 0:
		s, cerr = spc.ConnectToHTCondorAddress(ctx, addr, deadline)
	case 1:
		ht := addresses.ParseHTCondorAddress(addr)
		s, cerr = spc.ConnectViaSharedPort(ctx, ht.ServerAddr, ht.SharedPortID, deadline)
	case 2:
		cl := client.NewClient(&client.ClientConfig{Address: addr, Timeout: deadline, ClientName: name})
		cerr = cl.Connect(ctx)
		if cerr == nil {
			s = cl.GetStream()
		}
	}
	dialable := m.str(row.Ht.Server) == "127.0.0.1:"+dm.Port || m.str(row.Ht.Server) == "[0::0]:"+dm.Port
	via := row.Via
	wantPeer := addr
	if api != 2 && via == "sp" {
		wantPeer = fmt.Sprintf("<%s?sock=%s>", m.str(row.Ht.Server), m.str(row.Ht.ID))
	}
	if s != nil {
		defer s.Close()
	}
	if via == "reject" {
		if cerr == nil {
			return &Diff{Sig: routeSig("InvalidNeverSent", "invalid id accepted"), Detail: ctxt + ": the call succeeded although the id is invalid"}, true, nil
		}
		time.Sleep(20 * time.Millisecond)
		for _, c := range dm.snapshot() {
			if b := c.bytes(); len(b) > 0 {
				return &Diff{Sig: routeSig("InvalidNeverSent", "bytes reached the daemon"), Detail: fmt.Sprintf("%s: the daemon received %d bytes for an invalid id: %q", ctxt, len(b), b)}, true, nil
			}
		}
		return nil, true, nil
	}
	if !dialable {
		// the server part is not an address of the scripted daemon: only the decision is checked
		if cerr == nil {
			return &Diff{Sig: routeSig("Route", "connected to an undialable server"), Detail: ctxt + ": the call succeeded"}, true, nil
		}
		return nil, false, nil
	}
	if cerr != nil || s == nil {
		return &Diff{Sig: routeSig("Route", via+" fails"), Detail: fmt.Sprintf("%s: %v", ctxt, cerr)}, true, nil
	}
	if got := s.GetPeerAddr(); got != wantPeer {
		return &Diff{Sig: routeSig("Route", "peer address"), Detail: fmt.Sprintf("%s: the stream's peer address is %q, want %q", ctxt, got, wantPeer)}, true, nil
	}
	// the stream is connected "directly to the target daemon": what is written next follows the request
	if err := s.SendMessage(ctx, []byte("ping")); err != nil {
		return &Diff{Sig: routeSig("Route", "stream unusable"), Detail: fmt.Sprintf("%s: SendMessage on the returned stream: %v", ctxt, err)}, true, nil
	}
	_ = s.Close()
	waitFor(long, func() bool { return len(dm.snapshot()) >= 1 })
	time.Sleep(5 * time.Millisecond)
	conns := dm.snapshot()
	if len(conns) != 1 {
		return &Diff{Sig: routeSig("Route", "connections"), Detail: fmt.Sprintf("%s: the daemon saw %d connections, want 1", ctxt, len(conns))}, true, nil
	}
	select {
	case <-conns[0].done:
	case <-time.After(long):
		return &Diff{Sig: routeSig("Route", "connection left open"), Detail: ctxt + ": the daemon sees no end of the connection after Close"}, true, nil
	}
	wire := conns[0].bytes()
	frames, rest := refcodec.ParseFrames(wire)
	if len(rest) != 0 || len(frames) == 0 {
		return &Diff{Sig: routeSig("RequestShape", "framing"), Detail: fmt.Sprintf("%s: the daemon received %d bytes that are not whole frames: %x", ctxt, len(wire), wire)}, true, nil
	}
	ping := frames[len(frames)-1]
	if ping.End != 1 || string(ping.Body) != "ping" {
		return &Diff{Sig: routeSig("RequestShape", "first message after the request"), Detail: fmt.Sprintf("%s: last frame is end=%d %q, want the ping message", ctxt, ping.End, ping.Body)}, true, nil
	}
	frames = frames[:len(frames)-1]
	if via == "direct" {
		if len(frames) != 0 {
			return &Diff{Sig: routeSig("Route", "request on a direct route"), Detail: fmt.Sprintf("%s: %d frames precede the first message on a direct connection", ctxt, len(frames))}, true, nil
		}
		return nil, true, nil
	}
	if len(frames) != row.Req.Frames || frames[0].End != 1 {
		return &Diff{Sig: routeSig("RequestShape", "frames"), Detail: fmt.Sprintf("%s: the request is %d frames (end flag of the first %d), the spec says one complete message", ctxt, len(frames), frames[0].End)}, true, nil
	}
	rd := &refcodec.C14Reader{B: frames[0].Body}
	fail := func(what string, got, want any) (*Diff, bool, error) {
		return &Diff{Sig: routeSig("RequestShape", what), Detail: fmt.Sprintf("%s: request field %s = %v, want %v (request bytes %x)", ctxt, what, got, want, frames[0].Body)}, true, nil
	}
	if v, err := rd.Int(); err != nil || v != 75 {
		return fail("command", v, 75)
	}
	if v, err := rd.String(); err != nil || string(v) != m.str(row.Req.ID) {
		return fail("shared port id", fmt.Sprintf("%q", v), fmt.Sprintf("%q", m.str(row.Req.ID)))
	}
	if v, err := rd.String(); err != nil || string(v) != wantName {
		return fail("client name ("+nameClass+")", fmt.Sprintf("%q", v), fmt.Sprintf("%q", wantName))
	}
	v, err := rd.Int()
	okDl := false
	for _, w := range wantDl {
		okDl = okDl || v == w
	}
	if err != nil || !okDl {
		return fail("deadline ("+dlClass+")", v, wantDl)
	}
	if v, err := rd.Int(); err != nil || v != 0 {
		return fail("more_args", v, 0)
	}
	if len(rd.B) != 0 {
		return fail("trailing bytes", len(rd.B), 0)
	}
	if !addresses.IsValidSharedPortID(m.str(row.Req.ID)) {
		return &Diff{Sig: routeSig("InvalidNeverSent", "invalid id sent"), Detail: ctxt + ": an invalid id reached the daemon"}, true, nil
	}
	return nil, true, nil
}

// ---------------------------------------------------------------- context scenarios

// CtxResult is what one context scenario measured.
type CtxResult struct {
	Phase    string
	Took     time.Duration
	CtxAfter time.Duration
	Deadline time.Duration
	Err      error
	ByCtx    bool // returned when the context ended (not at the connection timeout)
}

// blackhole returns an address whose SYNs are dropped: a listening socket with a full backlog.
func blackhole() (addr string, release func(), err error) {
	fd, err := syscall.Socket(syscall.AF_INET, syscall.SOCK_STREAM, 0)
	if err != nil {
		return "", nil, err
	}
	if err := syscall.Bind(fd, &syscall.SockaddrInet4{Addr: [4]byte{127, 0, 0, 1}}); err != nil {
		syscall.Close(fd)
		return "", nil, err
	}
	if err := syscall.Listen(fd, 0); err != nil {
		syscall.Close(fd)
		return "", nil, err
	}
	sa, _ := syscall.Getsockname(fd)
	addr = fmt.Sprintf("127.0.0.1:%d", sa.(*syscall.SockaddrInet4).Port)
	var keep []net.Conn
	for i := 0; i < 3; i++ {
		if c, err := net.DialTimeout("tcp", addr, 150*time.Millisecond); err == nil {
			keep = append(keep, c)
		}
	}
	return addr, func() {
		for _, c := range keep {
			c.Close()
		}
		syscall.Close(fd)
	}, nil
}

// ExecCtx runs one context scenario of a ctx row.
func ExecCtx(row Row, slow bool) (*Diff, *CtxResult, error) {
	res := &CtxResult{Phase: row.Phase}
	slack := 3 * time.Second
	if slow {
		slack = 20 * time.Second
	}
	sigFor := func(what string) map[string]string { return routeSig("CtxHonoured", row.Phase+": "+what) }
	switch row.Phase {
	case "before", "send":
		dm, err := NewSPDaemon(row.Phase == "send")
		if err != nil {
			return nil, nil, err
		}
		defer dm.Close()
		name := "verif"
		res.CtxAfter = 0
		ctx, cancel := context.WithCancel(context.Background())
		if row.Phase == "before" {
			cancel()
		} else {
			// a request that does not fit the socket buffers of a daemon that does not read
			name = strings.Repeat("n", 24<<20)
			res.CtxAfter = 300 * time.Millisecond
			ctx, cancel = context.WithTimeout(context.Background(), res.CtxAfter)
		}
		defer cancel()
		res.Deadline = 30 * time.Second
		spc := sharedport.NewSharedPortClient(name)
		t0 := time.Now()
		done := make(chan struct{})
		var s *stream.Stream
		go func() {
			s, res.Err = spc.ConnectViaSharedPort(ctx, "127.0.0.1:"+dm.Port, "schedd_1", res.Deadline)
			close(done)
		}()
		select {
		case <-done:
		case <-time.After(res.CtxAfter + slack):
			return &Diff{Sig: sigFor("does not return"), Detail: fmt.Sprintf("ConnectViaSharedPort has not returned %v after its context ended (phase %s)", slack, row.Phase)}, res, nil
		}
		res.Took = time.Since(t0)
		res.ByCtx = true
		if res.Err == nil {
			if s != nil {
				s.Close()
			}
			return &Diff{Sig: sigFor("succeeds"), Detail: fmt.Sprintf("ConnectViaSharedPort succeeded although its context had ended (phase %s)", row.Phase)}, res, nil
		}
		if s != nil {
			return &Diff{Sig: sigFor("stream and error"), Detail: "ConnectViaSharedPort returned a stream AND an error"}, res, nil
		}
		if row.Phase == "before" {
			// no connection is left behind
			time.Sleep(30 * time.Millisecond)
			for _, c := range dm.snapshot() {
				select {
				case <-c.done:
				case <-time.After(slack):
					return &Diff{Sig: sigFor("connection left open"), Detail: "the connection made by a call whose context had ended is still open"}, res, nil
				}
			}
		}
		return nil, res, nil
	case "dial":
		addr, release, err := blackhole()
		if err != nil {
			return nil, nil, err
		}
		defer release()
		res.CtxAfter, res.Deadline = 250*time.Millisecond, 1500*time.Millisecond
		ctx, cancel := context.WithTimeout(context.Background(), res.CtxAfter)
		defer cancel()
		spc := sharedport.NewSharedPortClient("verif")
		t0 := time.Now()
		done := make(chan struct{})
		var s *stream.Stream
		go func() {
			s, res.Err = spc.ConnectViaSharedPort(ctx, addr, "schedd_1", res.Deadline)
			close(done)
		}()
		select {
		case <-done:
		case <-time.After(res.Deadline + slack):
			return &Diff{Sig: sigFor("does not return"), Detail: fmt.Sprintf("ConnectViaSharedPort to a silent address has not returned %v after its connection timeout", slack)}, res, nil
		}
		res.Took = time.Since(t0)
		if res.Err == nil {
			if s != nil {
				s.Close()
			}
			// the backlog trick did not hold on this machine: nothing to judge
			return nil, nil, nil
		}
		res.ByCtx = res.Took < (res.CtxAfter+res.Deadline)/2
		return nil, res, nil
	}
	return nil, nil, fmt.Errorf("unknown ctx phase %q", row.Phase)
}
