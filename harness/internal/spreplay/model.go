// Package spreplay binds SharedPort.tla (growth module G06) to the real code:
// client/sharedport (endpoint listener and client), addresses (routing) and
// client/sharedport_hint.go.
//
//	listener.go  one TLC-generated environment script = one REAL sharedport.Listener
//	             on a unix socket in the scratch directory, scripted daemons passing
//	             real loopback TCP connections by SCM_RIGHTS, application goroutines
//	             calling Accept / Close; snapshots of what can be observed are compared
//	             with the set of outcomes TLC printed for that script
//	route.go     the shape grid: token sequences rendered to concrete address strings,
//	             real parsers compared with the spec's result, the routes executed
//	             against a scripted shared-port daemon whose bytes an independent
//	             decoder (refcodec) reads
//	hint.go      the hint table through client.ConnectAndAuthenticateWithConfig
//	leak.go      descriptor / goroutine counts across many forwards (serial phase)
package spreplay

import (
	"encoding/json"
	"fmt"
	"sort"
	"strings"
)

// Ev is one environment step of a listener script.
type Ev struct {
	E string `json:"e"`           // "fwd" | "acc" | "close"
	D int    `json:"d,omitempty"` // daemon connection
	A int    `json:"a,omitempty"` // Accept call
	K int    `json:"k,omitempty"` // Close call
	H string `json:"h,omitempty"` // header class
	F string `json:"f,omitempty"` // fd class
	X string `json:"x,omitempty"` // "close" | "hold"
	V string `json:"v,omitempty"` // verdict of the script: deliver | drop | either
	W bool   `json:"w,omitempty"` // the handler waits for the handshake deadline
	Q bool   `json:"q"`           // fired at rest (after a snapshot) / at once
}

type Fate struct {
	F string `json:"f"` // idle | queued | del | closed | refused
	A int    `json:"a"`
}

type Res struct {
	R string `json:"r"` // idle | pending | err | conn
	D int    `json:"d"`
}

type Snap struct {
	Ds   []Fate   `json:"ds"`
	As   []Res    `json:"as"`
	Ks   []string `json:"ks"`
	Path string   `json:"path"`
}

func (s Snap) String() string {
	var b strings.Builder
	for i, d := range s.Ds {
		fmt.Fprintf(&b, "d%d=%s", i+1, d.F)
		if d.F == "del" {
			fmt.Fprintf(&b, "(a%d)", d.A)
		}
		b.WriteByte(' ')
	}
	for i, a := range s.As {
		fmt.Fprintf(&b, "a%d=%s", i+1, a.R)
		if a.R == "conn" {
			fmt.Fprintf(&b, "(d%d)", a.D)
		}
		b.WriteByte(' ')
	}
	for i, k := range s.Ks {
		fmt.Fprintf(&b, "k%d=%s ", i+1, k)
	}
	b.WriteString("path=" + s.Path)
	return b.String()
}

func (s Snap) Equal(o Snap) bool {
	if len(s.Ds) != len(o.Ds) || len(s.As) != len(o.As) || len(s.Ks) != len(o.Ks) || s.Path != o.Path {
		return false
	}
	for i := range s.Ds {
		if s.Ds[i] != o.Ds[i] {
			return false
		}
	}
	for i := range s.As {
		if s.As[i] != o.As[i] {
			return false
		}
	}
	for i := range s.Ks {
		if s.Ks[i] != o.Ks[i] {
			return false
		}
	}
	return true
}

type Out struct {
	Snaps []Snap `json:"snaps"`
	Final Snap   `json:"final"`
}

// all returns the snapshots followed by the final one.
func (o Out) all() []Snap { return append(append([]Snap{}, o.Snaps...), o.Final) }

type behaviour struct {
	Trace  []Ev   `json:"trace"`
	Origin string `json:"origin"`
	Out    Out    `json:"out"`
}

// Entry is one environment script with the outcomes the model admits for it.
type Entry struct {
	Origin string
	Trace  []Ev
	Outs   []Out
}

type Table struct {
	Entries map[string]*Entry
	Keys    []string
	ND      int // dimensions of the snapshots
	NA      int
	NK      int
}

func Key(origin string, tr []Ev) string {
	var b strings.Builder
	b.WriteString(origin)
	for _, e := range tr {
		q := "!"
		if e.Q {
			q = "."
		}
		switch e.E {
		case "fwd":
			fmt.Fprintf(&b, " %sfwd%d(%s/%s/%s)", q, e.D, e.H, e.F, e.X)
		case "acc":
			fmt.Fprintf(&b, " %sacc%d", q, e.A)
		case "close":
			fmt.Fprintf(&b, " %sclose%d", q, e.K)
		}
	}
	return b.String()
}

func BuildTable(raws []json.RawMessage) (*Table, error) {
	t := &Table{Entries: map[string]*Entry{}}
	for _, r := range raws {
		var b behaviour
		if err := json.Unmarshal(r, &b); err != nil {
			return nil, err
		}
		k := Key(b.Origin, b.Trace)
		e := t.Entries[k]
		if e == nil {
			e = &Entry{Origin: b.Origin, Trace: b.Trace}
			t.Entries[k] = e
			t.Keys = append(t.Keys, k)
		}
		dup := false
		for _, o := range e.Outs {
			if outEqual(o, b.Out) {
				dup = true
				break
			}
		}
		if !dup {
			e.Outs = append(e.Outs, b.Out)
		}
		t.ND, t.NA, t.NK = len(b.Out.Final.Ds), len(b.Out.Final.As), len(b.Out.Final.Ks)
	}
	sort.Strings(t.Keys)
	return t, nil
}

func outEqual(a, b Out) bool {
	x, y := a.all(), b.all()
	if len(x) != len(y) {
		return false
	}
	for i := range x {
		if !x[i].Equal(y[i]) {
			return false
		}
	}
	return true
}

// admissible reports whether s can be the next snapshot after the accepted prefix.
func (e *Entry) admissible(prefix []Snap, s Snap) bool {
	for _, o := range e.Outs {
		all := o.all()
		if len(all) <= len(prefix) {
			continue
		}
		ok := true
		for i := range prefix {
			if !all[i].Equal(prefix[i]) {
				ok = false
				break
			}
		}
		if ok && all[len(prefix)].Equal(s) {
			return true
		}
	}
	return false
}

// expected lists the admissible next snapshots (for messages).
func (e *Entry) expected(prefix []Snap) []string {
	seen := map[string]bool{}
	var out []string
	for _, o := range e.Outs {
		all := o.all()
		if len(all) <= len(prefix) {
			continue
		}
		ok := true
		for i := range prefix {
			if !all[i].Equal(prefix[i]) {
				ok = false
				break
			}
		}
		if ok {
			s := all[len(prefix)].String()
			if !seen[s] {
				seen[s] = true
				out = append(out, s)
			}
		}
	}
	return out
}

// Has counts the events of a kind.
func Has(tr []Ev, kind string) int {
	n := 0
	for _, e := range tr {
		if e.E == kind {
			n++
		}
	}
	return n
}
