package spreplay

import (
	"fmt"
	"net"
	"os"
	"path/filepath"
	"runtime"
	"runtime/debug"
	"strings"
	"sync/atomic"
	"syscall"
	"time"

	"github.com/bbockelm/cedar/client/sharedport"
)

func openFDs() (int, string) {
	ents, err := os.ReadDir("/proc/self/fd")
	if err != nil {
		return -1, ""
	}
	var names []string
	for _, e := range ents {
		t, _ := os.Readlink("/proc/self/fd/" + e.Name())
		names = append(names, e.Name()+"="+t)
	}
	return len(ents), strings.Join(names, " ")
}

func leakSig(what string) map[string]string {
	return map[string]string{"spec": "SharedPort", "part": "listener", "invariant": "NoLeak", "what": what}
}

// LeakResult is what the serial phase counted.
type LeakResult struct {
	Forwards, Good, Bad int
	FDsBefore, FDsAfter int
}

// stable waits until f() == want (descriptor / goroutine counts settle a moment after the
// last connection ended).
func stable(want int, d time.Duration, f func() int) int {
	deadline := time.Now().Add(d)
	got := f()
	for got != want && time.Now().Before(deadline) {
		time.Sleep(5 * time.Millisecond)
		got = f()
	}
	return got
}

// LeakPhase pushes n forwards of every class through ONE listener and compares the number of
// open descriptors and goroutines before and after (a coarse projection of NoLeak).  It must
// run while nothing else in the process opens descriptors or starts goroutines.  The garbage
// collector is off: finalizers would close what the listener forgot.
func LeakPhase(tmp string, tab *Table, n int, salt int) (*LeakResult, *Diff, error) {
	old := debug.SetGCPercent(-1)
	defer debug.SetGCPercent(old)
	runtime.GC()
	time.Sleep(20 * time.Millisecond)
	fdN := func() int { n, _ := openFDs(); return n }
	fd0 := fdN()
	g0 := runtime.NumGoroutine()

	// one-forward scripts: fwd, acc, close at rest, every script class, Listen origin
	var keys []string
	for _, k := range tab.Keys {
		e := tab.Entries[k]
		if e.Origin == "listen" && len(e.Trace) == 3 && e.Trace[0].E == "fwd" && e.Trace[1].E == "acc" && e.Trace[1].Q && e.Trace[2].E == "close" && e.Trace[2].Q && !e.Trace[0].W {
			keys = append(keys, k)
		}
	}
	if len(keys) == 0 {
		return nil, nil, fmt.Errorf("no one-forward scripts in the table")
	}
	res := &LeakResult{FDsBefore: fd0}
	for i := 0; i < n; i++ {
		e := tab.Entries[keys[(i*7+salt)%len(keys)]]
		obs, d, err := RunListener(tmp, e, tab.ND, tab.NA, tab.NK, Params{Salt: salt + i})
		if err != nil {
			return res, nil, err
		}
		if d != nil {
			return res, d, nil
		}
		res.Forwards++
		res.Good += obs.Delivered
		res.Bad += obs.Dropped
	}
	fd1 := stable(fd0, 3*time.Second, fdN)
	res.FDsAfter = fd1
	if fd1 != fd0 {
		_, names := openFDs()
		return res, &Diff{Sig: leakSig("descriptors grow across listeners"),
			Detail: fmt.Sprintf("%d listeners with one forward each: %d descriptors open before, %d after (garbage collector off): %s", n, fd0, fd1, names)}, nil
	}
	if g1 := stable(g0, 3*time.Second, runtime.NumGoroutine); g1 > g0 {
		return res, &Diff{Sig: leakSig("goroutines grow across listeners"),
			Detail: fmt.Sprintf("%d listeners with one forward each: %d goroutines before, %d after", n, g0, g1)}, nil
	}

	// ONE listener, many forwards (good ones accepted and closed, malformed ones of every kind)
	dir, err := os.MkdirTemp(tmp, "lk")
	if err != nil {
		return res, nil, err
	}
	defer os.RemoveAll(dir)
	path := filepath.Join(dir, "ep")
	l, err := sharedport.Listen(path, sharedport.Options{HandshakeTimeout: HandshakeTimeout})
	if err != nil {
		return res, nil, err
	}
	tcp, err := net.Listen("tcp", "127.0.0.1:0")
	if err != nil {
		l.Close()
		return res, nil, err
	}
	fdL := fdN()
	gL := runtime.NumGoroutine()
	kinds := []string{"good", "badcmd", "good2", "len0", "nofd", "good", "nonsock", "lenhuge", "trunc", "byte"}
	for i := 0; i < n; i++ {
		kind := kinds[i%len(kinds)]
		pc, err := net.Dial("tcp", tcp.Addr().String())
		if err != nil {
			return res, nil, err
		}
		sc, err := tcp.Accept()
		if err != nil {
			return res, nil, err
		}
		sf, _ := sc.(*net.TCPConn).File()
		uc, err := net.DialUnix("unix", nil, &net.UnixAddr{Name: path, Net: "unix"})
		if err != nil {
			return res, nil, err
		}
		good := frameHdr(1, 8, int8b(passSock))
		rights := syscall.UnixRights(int(sf.Fd()))
		deliver := false
		switch kind {
		case "good":
			uc.Write(good)
			uc.WriteMsgUnix([]byte{0}, rights, nil)
			deliver = true
		case "good2":
			uc.Write(good)
			uc.WriteMsgUnix([]byte{0}, syscall.UnixRights(int(sf.Fd()), int(sf.Fd())), nil)
			deliver = true
		case "badcmd":
			uc.Write(frameHdr(1, 8, int8b(75)))
			uc.WriteMsgUnix([]byte{0}, rights, nil)
		case "len0":
			uc.Write(frameHdr(1, 0, nil))
			uc.WriteMsgUnix([]byte{0}, rights, nil)
		case "lenhuge":
			uc.WriteMsgUnix(frameHdr(1, 1<<20, nil), rights, nil)
		case "nofd":
			uc.Write(good)
		case "byte":
			uc.Write(good)
			uc.Write([]byte{0})
		case "trunc":
			uc.WriteMsgUnix(good[:9], rights, nil)
		case "nonsock":
			uc.Write(good)
			pr, pw, _ := os.Pipe()
			uc.WriteMsgUnix([]byte{0}, syscall.UnixRights(int(pr.Fd())), nil)
			pr.Close()
			pw.Close()
		}
		sf.Close()
		sc.Close()
		uc.Close()
		if deliver {
			type ar struct {
				c   net.Conn
				err error
			}
			ch := make(chan ar, 1)
			go func() { c, err := l.Accept(); ch <- ar{c, err} }()
			select {
			case a := <-ch:
				if a.err != nil {
					return res, &Diff{Sig: sig("NeverKills", "Accept fails on an open listener"), Detail: fmt.Sprintf("forward %d (%s) on one listener: Accept: %v", i, kind, a.err)}, nil
				}
				a.c.Close()
				res.Good++
			case <-time.After(20 * time.Second):
				return res, &Diff{Sig: sig("NeverKills", "good forward after malformed ones not delivered"), Detail: fmt.Sprintf("forward %d (%s) on one listener was not delivered", i, kind)}, nil
			}
		} else {
			res.Bad++
		}
		// the peer sees the end: nothing of this forward is left in the listener
		pc.SetReadDeadline(time.Now().Add(20 * time.Second))
		if _, err := pc.Read(make([]byte, 1)); err == nil || isTimeout(err) {
			pc.Close()
			return res, &Diff{Sig: leakSig("connection of a " + kind + " forward stays open"), Detail: fmt.Sprintf("forward %d (%s) on one listener: the peer sees no end (%v)", i, kind, err)}, nil
		}
		pc.Close()
		res.Forwards++
	}
	if fd2 := stable(fdL, 3*time.Second, fdN); fd2 != fdL {
		_, names := openFDs()
		l.Close()
		tcp.Close()
		return res, &Diff{Sig: leakSig("descriptors grow across forwards"),
			Detail: fmt.Sprintf("%d forwards on one listener: %d descriptors open before, %d after (garbage collector off): %s", n, fdL, fd2, names)}, nil
	}
	if g2 := stable(gL, 3*time.Second, runtime.NumGoroutine); g2 > gL {
		l.Close()
		tcp.Close()
		return res, &Diff{Sig: leakSig("goroutines grow across forwards"), Detail: fmt.Sprintf("%d forwards on one listener: %d goroutines before, %d after", n, gL, g2)}, nil
	}
	l.Close()
	tcp.Close()

	// AdoptFD: "On error the fd is closed before returning"; a descriptor that is not a
	// listening unix socket ends in an error from AdoptFD or from Accept, never in a hang
	for _, kind := range []string{"tcp listener", "file", "connected unix socket"} {
		var fd int
		var cleanup func()
		switch kind {
		case "tcp listener":
			tl, err := net.Listen("tcp", "127.0.0.1:0")
			if err != nil {
				return res, nil, err
			}
			f, _ := tl.(*net.TCPListener).File()
			fd, _ = syscall.Dup(int(f.Fd()))
			f.Close()
			cleanup = func() { tl.Close() }
		case "file":
			f, err := os.Create(filepath.Join(dir, "plain"))
			if err != nil {
				return res, nil, err
			}
			fd, _ = syscall.Dup(int(f.Fd()))
			f.Close()
			cleanup = func() {}
		case "connected unix socket":
			p, err := syscall.Socketpair(syscall.AF_UNIX, syscall.SOCK_STREAM, 0)
			if err != nil {
				return res, nil, err
			}
			fd = p[0]
			cleanup = func() { syscall.Close(p[1]) }
		}
		before := fdN()
		al, err := sharedport.AdoptFD(uintptr(fd), sharedport.Options{HandshakeTimeout: HandshakeTimeout})
		if err == nil {
			// accepted at first: Accept must report the failure, Close must work
			ch := make(chan error, 1)
			go func() { _, err := al.Accept(); ch <- err }()
			select {
			case aerr := <-ch:
				if aerr == nil {
					cleanup()
					return res, &Diff{Sig: sig("AcceptAnswered", "adopted "+kind), Detail: "Accept on an adopted " + kind + " returned a connection"}, nil
				}
			case <-time.After(20 * time.Second):
				cleanup()
				return res, &Diff{Sig: sig("AcceptAnswered", "adopted "+kind), Detail: "Accept on an adopted " + kind + " blocks"}, nil
			}
			al.Close()
		}
		cleanup()
		if after := stable(before-1, 3*time.Second, fdN); after > before-1 {
			_, names := openFDs()
			return res, &Diff{Sig: leakSig("AdoptFD of a " + kind), Detail: fmt.Sprintf("AdoptFD(%s) (error %v): %d descriptors before (the passed one included), %d after: %s", kind, err, before, after, names)}, nil
		}
	}
	return res, nil, nil
}

func isTimeout(err error) bool {
	ne, ok := err.(net.Error)
	return ok && ne.Timeout()
}

// CloseRaceProbe looks for today's acceptLoop / Close race (SharedPort.tla, Bug "LateAccept"):
// a daemon connects, sends a truncated header, and Close is called a few microseconds later
// (the delay is swept).  It counts the listeners whose handler logged AFTER Close had returned
// -- what Close's documentation rules out ("waits for in-flight handler goroutines").
func CloseRaceProbe(tmp string, n int) (late int, example string, err error) {
	dir, err := os.MkdirTemp(tmp, "cr")
	if err != nil {
		return 0, "", err
	}
	defer os.RemoveAll(dir)
	p := filepath.Join(dir, "ep")
	for i := 0; i < n; i++ {
		var closed atomic.Bool
		var after atomic.Int32
		var line atomic.Value
		l, err := sharedport.Listen(p, sharedport.Options{HandshakeTimeout: 20 * time.Millisecond, Logf: func(format string, a ...any) {
			if closed.Load() {
				after.Add(1)
				line.Store(fmt.Sprintf(format, a...))
			}
		}})
		if err != nil {
			return late, example, err
		}
		uc, err := net.DialUnix("unix", nil, &net.UnixAddr{Name: p, Net: "unix"})
		if err != nil {
			l.Close()
			return late, example, err
		}
		_, _ = uc.Write([]byte{1, 0, 0})
		for t0 := time.Now(); time.Since(t0) < time.Duration(i%100)*2*time.Microsecond; {
		}
		_ = l.Close()
		closed.Store(true)
		time.Sleep(30 * time.Millisecond) // a late handler gives up at the handshake deadline
		_ = uc.Close()
		if after.Load() > 0 {
			late++
			if example == "" {
				example = fmt.Sprintf("iteration %d (Close %d us after the daemon's write): the handler logged %q after Close had returned", i, (i%100)*2, line.Load())
			}
		}
	}
	return late, example, nil
}
