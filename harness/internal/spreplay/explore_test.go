package spreplay

import (
	"context"
	"encoding/binary"
	"errors"
	"fmt"
	"io"
	"net"
	"os"
	"path/filepath"
	"syscall"
	"testing"
	"time"

	"github.com/bbockelm/cedar/client"
	"github.com/bbockelm/cedar/client/sharedport"
	"github.com/bbockelm/cedar/security"
)

func hdr(flag byte, n uint32, payload []byte) []byte {
	b := make([]byte, 5+len(payload))
	b[0] = flag
	binary.BigEndian.PutUint32(b[1:5], n)
	copy(b[5:], payload)
	return b
}

func cmd8(v uint64) []byte { b := make([]byte, 8); binary.BigEndian.PutUint64(b, v); return b }

type tcpPair struct {
	peer net.Conn     // the remote TCP client
	srv  *net.TCPConn // the daemon's accepted side (to be passed)
}

func mkPair(t *testing.T) tcpPair {
	ln, err := net.Listen("tcp", "127.0.0.1:0")
	if err != nil {
		t.Fatal(err)
	}
	defer ln.Close()
	ch := make(chan net.Conn, 1)
	go func() { c, _ := ln.Accept(); ch <- c }()
	p, err := net.Dial("tcp", ln.Addr().String())
	if err != nil {
		t.Fatal(err)
	}
	s := <-ch
	return tcpPair{peer: p, srv: s.(*net.TCPConn)}
}

func peerEOF(p net.Conn, d time.Duration) string {
	_ = p.SetReadDeadline(time.Now().Add(d))
	b := make([]byte, 16)
	n, err := p.Read(b)
	if err == nil {
		return fmt.Sprintf("data %q", b[:n])
	}
	var ne net.Error
	if errors.As(err, &ne) && ne.Timeout() {
		return "open"
	}
	return "end:" + err.Error()
}

func TestExploreListener(t *testing.T) {
	dir := t.TempDir()
	path := filepath.Join(dir, "sub", "ep")
	l, err := sharedport.Listen(path, sharedport.Options{HandshakeTimeout: 400 * time.Millisecond, Logf: t.Logf})
	if err != nil {
		t.Fatal(err)
	}
	st, _ := os.Stat(path)
	t.Logf("mode %v dir %v", st.Mode(), func() os.FileMode { s, _ := os.Stat(filepath.Dir(path)); return s.Mode() }())
	type res struct {
		c   net.Conn
		err error
	}
	accCh := make(chan res, 16)
	acc := func() { go func() { c, err := l.Accept(); accCh <- res{c, err} }() }

	send := func(name string, header []byte, nfds int, nonsock bool, withHeader bool) tcpPair {
		pr := mkPair(t)
		uc, err := net.DialUnix("unix", nil, &net.UnixAddr{Name: path, Net: "unix"})
		if err != nil {
			t.Fatalf("%s dial: %v", name, err)
		}
		f, _ := pr.srv.File()
		fds := []int{}
		for i := 0; i < nfds; i++ {
			fds = append(fds, int(f.Fd()))
		}
		if nonsock {
			rp, _, _ := os.Pipe()
			fds = []int{int(rp.Fd())}
		}
		if withHeader {
			_, _, err = uc.WriteMsgUnix(header, syscall.UnixRights(fds...), nil)
			t.Logf("%s: write hdr+fd err=%v", name, err)
			_, err = uc.Write([]byte{0})
		} else {
			_, err = uc.Write(header)
			if nfds > 0 || nonsock {
				_, _, err = uc.WriteMsgUnix([]byte{0}, syscall.UnixRights(fds...), nil)
			}
		}
		t.Logf("%s: sent err=%v", name, err)
		f.Close()
		pr.srv.Close()
		uc.Close()
		return pr
	}
	good := hdr(1, 8, cmd8(76))
	check := func(name string, pr tcpPair, wantDeliver bool) {
		acc()
		select {
		case r := <-accCh:
			t.Logf("%s: Accept -> %T %v err=%v", name, r.c, func() any {
				if r.c != nil {
					return r.c.RemoteAddr()
				}
				return nil
			}(), r.err)
			if r.c != nil {
				pr.peer.Write([]byte("hi"))
				b := make([]byte, 2)
				r.c.SetReadDeadline(time.Now().Add(time.Second))
				_, e := io.ReadFull(r.c, b)
				t.Logf("%s: read %q %v", name, b, e)
				r.c.Close()
				t.Logf("%s: peer after close: %s", name, peerEOF(pr.peer, 300*time.Millisecond))
			}
		case <-time.After(700 * time.Millisecond):
			t.Logf("%s: Accept pending; peer: %s", name, peerEOF(pr.peer, 100*time.Millisecond))
			// consume pending accept with a good one
			pr2 := send("filler", good, 1, false, false)
			r := <-accCh
			r.c.Close()
			pr2.peer.Close()
		}
	}
	check("good", send("good", good, 1, false, false), true)
	check("flag0", send("flag0", hdr(0, 8, cmd8(76)), 1, false, false), true)
	check("flag7", send("flag7", hdr(7, 8, cmd8(76)), 1, false, false), true)
	check("two", send("two", good, 2, false, false), true)
	check("three", send("three", good, 3, false, false), true)
	check("nonsock", send("nonsock", good, 0, true, false), false)
	check("nofd", send("nofd", good, 0, false, false), false)
	check("badcmd", send("badcmd", hdr(1, 8, cmd8(75)), 1, false, false), false)
	check("len4", send("len4", hdr(1, 4, []byte{0, 0, 0, 76}), 1, false, false), false)
	check("len16", send("len16", hdr(1, 16, append(cmd8(76), cmd8(0)...)), 1, false, false), false)
	check("fdOnHeader", send("fdOnHeader", good, 1, false, true), false)

	// stall + Close duration
	uc, _ := net.DialUnix("unix", nil, &net.UnixAddr{Name: path, Net: "unix"})
	uc.Write(good[:7])
	time.Sleep(50 * time.Millisecond)
	t0 := time.Now()
	l.Close()
	t.Logf("Close with stalled handler took %v", time.Since(t0))
	uc.Close()
	_, err = l.Accept()
	t.Logf("accept after close: %v  isNetErrClosed=%v", err, errors.Is(err, net.ErrClosed))
	_, serr := os.Stat(path)
	t.Logf("stat after close: %v", serr)
}

func TestExploreHint(t *testing.T) {
	for _, beh := range []string{"close", "rst", "garbage", "partial", "stall", "closeBeforeRead"} {
		for _, sock := range []bool{true, false} {
			ln, _ := net.Listen("tcp", "127.0.0.1:0")
			done := make(chan struct{})
			go func() {
				for {
					c, err := ln.Accept()
					if err != nil {
						return
					}
					go func(c net.Conn) {
						tc := c.(*net.TCPConn)
						buf := make([]byte, 4096)
						switch beh {
						case "close":
							c.SetReadDeadline(time.Now().Add(200 * time.Millisecond))
							c.Read(buf)
							c.Close()
						case "closeBeforeRead":
							c.Close()
						case "rst":
							c.SetReadDeadline(time.Now().Add(200 * time.Millisecond))
							c.Read(buf)
							tc.SetLinger(0)
							c.Close()
						case "garbage":
							c.SetReadDeadline(time.Now().Add(200 * time.Millisecond))
							c.Read(buf)
							c.Write(hdr(1, 12, []byte("hello world!")))
							c.SetReadDeadline(time.Now().Add(3 * time.Second))
							for {
								if _, err := c.Read(buf); err != nil {
									break
								}
							}
							c.Close()
						case "partial":
							c.SetReadDeadline(time.Now().Add(200 * time.Millisecond))
							c.Read(buf)
							c.Write(hdr(1, 100, []byte("abc")))
							c.Close()
						case "stall":
							<-done
							c.Close()
						}
					}(c)
				}
			}()
			addr := ln.Addr().String()
			if sock {
				addr = "<" + addr + "?sock=schedd_1>"
			}
			ctx, cancel := context.WithTimeout(context.Background(), 1500*time.Millisecond)
			cfg := &client.ClientConfig{Address: addr, Timeout: 2 * time.Second, Security: &security.SecurityConfig{
				AuthMethods:    []security.AuthMethod{},
				Authentication: security.SecurityNever,
				Encryption:     security.SecurityNever,
				Integrity:      security.SecurityNever,
				Command:        60007,
			}}
			t0 := time.Now()
			_, err := client.ConnectAndAuthenticateWithConfig(ctx, cfg)
			cancel()
			close(done)
			ln.Close()
			t.Logf("beh=%s sock=%v (%v): %v\n    EOF=%v UEOF=%v RST=%v EPIPE=%v closed=%v unwrap=%v", beh, sock, time.Since(t0).Round(time.Millisecond), err,
				errors.Is(err, io.EOF), errors.Is(err, io.ErrUnexpectedEOF), errors.Is(err, syscall.ECONNRESET), errors.Is(err, syscall.EPIPE), errors.Is(err, net.ErrClosed), errors.Unwrap(err))
		}
	}
}

func TestExploreBacklog(t *testing.T) {
	fd, err := syscall.Socket(syscall.AF_INET, syscall.SOCK_STREAM, 0)
	if err != nil {
		t.Fatal(err)
	}
	defer syscall.Close(fd)
	sa := &syscall.SockaddrInet4{Port: 0, Addr: [4]byte{127, 0, 0, 1}}
	if err := syscall.Bind(fd, sa); err != nil {
		t.Fatal(err)
	}
	if err := syscall.Listen(fd, 0); err != nil {
		t.Fatal(err)
	}
	lsa, _ := syscall.Getsockname(fd)
	port := lsa.(*syscall.SockaddrInet4).Port
	addr := fmt.Sprintf("127.0.0.1:%d", port)
	var keep []net.Conn
	for i := 0; i < 4; i++ {
		c, err := net.DialTimeout("tcp", addr, 300*time.Millisecond)
		t.Logf("filler %d: %v", i, err)
		if err == nil {
			keep = append(keep, c)
		}
	}
	spc := sharedport.NewSharedPortClient("x")
	ctx, cancel := context.WithTimeout(context.Background(), 200*time.Millisecond)
	t0 := time.Now()
	_, err = spc.ConnectViaSharedPort(ctx, addr, "schedd", 2*time.Second)
	cancel()
	t.Logf("ConnectViaSharedPort ctx=200ms deadline=2s: %v after %v", err, time.Since(t0))
	for _, c := range keep {
		c.Close()
	}
}
