package spreplay

import (
	"encoding/json"
	"os"
	"runtime"
	"runtime/debug"
	"sync"
	"sync/atomic"

	"cedarverif/internal/core"
)

// Job is one listener script of one generator configuration with the harness' choices.
type Job struct {
	Table string `json:"table"`
	Key   string `json:"key"`
	P     Params `json:"params"`
}

type Stats struct {
	Conform, Delivered, Dropped, Waited, Retried, Suppressed int64
	Racing, AfterClose, Adopted, Either                      int64
	LateHandlers                                             int64
	LateExample                                              string

	mu        sync.Mutex
	confirmed map[string]int
}

func sigKey(s map[string]string) string { return s["part"] + "/" + s["invariant"] + "/" + s["what"] }

func (st *Stats) enough(s map[string]string) bool {
	st.mu.Lock()
	defer st.mu.Unlock()
	return st.confirmed[sigKey(s)] >= 3
}

func (st *Stats) confirm(s map[string]string) {
	st.mu.Lock()
	defer st.mu.Unlock()
	if st.confirmed == nil {
		st.confirmed = map[string]int{}
	}
	st.confirmed[sigKey(s)]++
}

// ReplayAll runs the jobs w at a time.  The garbage collector is off while runs are
// in flight: Go closes a dropped net.Conn / os.File from a finalizer, which would hide
// a descriptor the listener forgot to close.
func ReplayAll(c *core.Ctx, tabs map[string]*Table, jobs []Job, w int, st *Stats) {
	old := debug.SetGCPercent(-1)
	defer debug.SetGCPercent(old)
	const batch = 400
	for lo := 0; lo < len(jobs); lo += batch {
		hi := lo + batch
		if hi > len(jobs) {
			hi = len(jobs)
		}
		part := jobs[lo:hi]
		core.ParallelFor(len(part), w, func(i int) { RunJob(c, tabs, part[i], st) })
		runtime.GC()
	}
}

// RunJob plays one script; a difference is re-run with long waits (so that a slow
// machine cannot masquerade as behaviour) before it is reported.
func RunJob(c *core.Ctx, tabs map[string]*Table, j Job, st *Stats) {
	t := tabs[j.Table]
	if t == nil || t.Entries[j.Key] == nil {
		c.Broken("G06: no model entry for %s / %s", j.Table, j.Key)
		return
	}
	e := t.Entries[j.Key]
	obs, d, err := RunListener(c.Tmp, e, t.ND, t.NA, t.NK, j.P)
	if err != nil {
		c.Broken("G06 listener replay %s: %v", j.Key, err)
		return
	}
	key, _ := json.Marshal(j)
	c.Eval(string(key), len(e.Trace) >= 3)
	if d != nil && d.Sig != nil && d.Sig["what"] == LateHandler {
		// known deviation of today's listener (SharedPort.tla with Bug "LateAccept"): a race
		// between acceptLoop and Close, not reproducible at will -- counted, reported as an
		// observation by the driver, and the rest of the run has been judged already
		atomic.AddInt64(&st.LateHandlers, 1)
		st.mu.Lock()
		if st.LateExample == "" {
			st.LateExample = d.Detail
		}
		st.mu.Unlock()
		d = nil
	}
	if d != nil {
		if d.Sig != nil && st.enough(d.Sig) {
			atomic.AddInt64(&st.Suppressed, 1)
			return
		}
		atomic.AddInt64(&st.Retried, 1)
		j2 := j
		j2.P.Slow = true
		obs2, d2, err := RunListener(c.Tmp, e, t.ND, t.NA, t.NK, j2.P)
		if err != nil {
			c.Broken("G06 listener replay %s: %v", j.Key, err)
			return
		}
		if d2 != nil && d2.Sig != nil && d2.Sig["what"] == LateHandler {
			atomic.AddInt64(&st.LateHandlers, 1)
			d2 = nil
		}
		if d2 != nil {
			if d2.Sig == nil {
				c.Broken("G06 harness problem (reproduced): %s", d2.Detail)
				return
			}
			st.confirm(d2.Sig)
			c.Fail(core.Failure{Signature: d2.Sig, Detail: d2.Detail,
				Scenario: map[string]any{"kind": "SharedPortListener", "job": j2, "observed": obs2}})
			return
		}
		obs = obs2 // the first difference was a scheduling artefact
	}
	atomic.AddInt64(&st.Conform, 1)
	atomic.AddInt64(&st.Delivered, int64(obs.Delivered))
	atomic.AddInt64(&st.Dropped, int64(obs.Dropped))
	atomic.AddInt64(&st.Waited, int64(obs.Waited))
	if e.Origin == "adopt" {
		atomic.AddInt64(&st.Adopted, 1)
	}
	closed := false
	racing, after, either := false, false, false
	for _, ev := range e.Trace {
		if !ev.Q {
			racing = true
		}
		if closed {
			after = true
		}
		if ev.E == "close" {
			closed = true
		}
		if ev.V == "either" {
			either = true
		}
	}
	if racing {
		atomic.AddInt64(&st.Racing, 1)
	}
	if after {
		atomic.AddInt64(&st.AfterClose, 1)
	}
	if either {
		atomic.AddInt64(&st.Either, 1)
	}
}

// ReplayFile re-runs one recorded failure; it reports whether the file was a
// listener scenario.
func ReplayFile(c *core.Ctx, tabs map[string]*Table) bool {
	b, err := os.ReadFile(c.Replay)
	if err != nil {
		c.Broken("cannot read replay file: %v", err)
		return true
	}
	var rf struct {
		Scenario struct {
			Kind string `json:"kind"`
			Job  Job    `json:"job"`
		} `json:"scenario"`
	}
	if err := json.Unmarshal(b, &rf); err != nil {
		c.Broken("not a G06 replay file: %v", err)
		return true
	}
	if rf.Scenario.Kind != "SharedPortListener" {
		return false
	}
	old := debug.SetGCPercent(-1)
	defer debug.SetGCPercent(old)
	var st Stats
	j := rf.Scenario.Job
	// the outcome of a script may depend on a race inside the listener: repeat it until
	// it fails again (at most 25 times)
	for i := 0; i < 25 && c.Failures() == 0 && !c.IsBroken(); i++ {
		RunJob(c, tabs, j, &st)
	}
	c.Add("traces_validated_against_impl", st.Conform)
	return true
}
