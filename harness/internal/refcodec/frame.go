// Package refcodec is an INDEPENDENT implementation of the CEDAR wire formats,
// written from protocol/CEDAR_PROTOCOL.md and the HTCondor format comments. It
// never calls the code under test: it is the oracle for byte-level projections
// (DESIGN.md §1, §4). It uses only Go's crypto primitives.
package refcodec

import (
	"crypto/aes"
	"crypto/cipher"
	"crypto/sha256"
	"encoding/binary"
	"errors"
	"fmt"
)

const (
	HeaderSize = 5
	MaxFrame   = 1024 * 1024
	TagSize    = 16
	IVSize     = 16
)

// Frame is one wire frame: the end flag and the body exactly as on the wire.
type Frame struct {
	End  byte
	Body []byte
}

// Encode renders the frame as header+body.
func (f Frame) Encode() []byte {
	b := make([]byte, HeaderSize+len(f.Body))
	b[0] = f.End
	binary.BigEndian.PutUint32(b[1:5], uint32(len(f.Body)))
	copy(b[5:], f.Body)
	return b
}

func Header(end byte, n int) [5]byte {
	var h [5]byte
	h[0] = end
	binary.BigEndian.PutUint32(h[1:5], uint32(n))
	return h
}

// ParseFrames splits a byte string into frames. rest is what is left when the
// bytes end inside a frame.
func ParseFrames(b []byte) (frames []Frame, rest []byte) {
	for len(b) >= HeaderSize {
		n := int(binary.BigEndian.Uint32(b[1:5]))
		if n > len(b)-HeaderSize || n < 0 {
			break
		}
		frames = append(frames, Frame{End: b[0], Body: append([]byte(nil), b[5:5+n]...)})
		b = b[5+n:]
	}
	return frames, b
}

// Digest helpers: the running SHA-256 over header||cleartext of every frame a
// direction carried before the key was installed; all-zero if none.
type Transcript struct {
	h       [32]byte
	written bool
	buf     []byte
}

func (t *Transcript) AddFrame(end byte, clear []byte) {
	h := Header(end, len(clear))
	t.buf = append(t.buf, h[:]...)
	t.buf = append(t.buf, clear...)
	t.written = true
}

func (t *Transcript) AddRaw(b []byte) { t.buf = append(t.buf, b...); t.written = true }

func (t *Transcript) Sum() [32]byte {
	if !t.written {
		return [32]byte{}
	}
	return sha256.Sum256(t.buf)
}

// Sealer produces protected frames for one direction.
type Sealer struct {
	aead  cipher.AEAD
	IV    [16]byte
	Ctr   uint32
	First bool     // digests still to be bound (first protected frame)
	Mine  [32]byte // digest of what this side sent in the clear
	Peer  [32]byte // digest of what this side received in the clear
}

func newAEAD(key []byte) cipher.AEAD {
	blk, err := aes.NewCipher(key)
	if err != nil {
		panic(err)
	}
	a, err := cipher.NewGCMWithNonceSize(blk, 16)
	if err != nil {
		panic(err)
	}
	return a
}

func NewSealer(key []byte, iv [16]byte, mine, peer [32]byte) *Sealer {
	return &Sealer{aead: newAEAD(key), IV: iv, First: true, Mine: mine, Peer: peer}
}

func nonce(iv [16]byte, ctr uint32) []byte {
	n := make([]byte, 16)
	copy(n, iv[:])
	binary.BigEndian.PutUint32(n[:4], binary.BigEndian.Uint32(iv[:4])+ctr)
	return n
}

// Seal returns the wire frame protecting plain.
func (s *Sealer) Seal(end byte, plain []byte) Frame {
	n := len(plain) + TagSize
	if s.Ctr == 0 {
		n += IVSize
	}
	h := Header(end, n)
	var aad []byte
	if s.First {
		aad = append(aad, s.Mine[:]...)
		aad = append(aad, s.Peer[:]...)
		s.First = false
	}
	aad = append(aad, h[:]...)
	ct := s.aead.Seal(nil, nonce(s.IV, s.Ctr), plain, aad)
	var body []byte
	if s.Ctr == 0 {
		body = append(body, s.IV[:]...)
	}
	body = append(body, ct...)
	s.Ctr++
	return Frame{End: end, Body: body}
}

// Opener opens protected frames of one direction using ONLY state it derives
// itself (IV from the first frame, own counter, digests given at creation).
type Opener struct {
	aead   cipher.AEAD
	IV     [16]byte
	Ctr    uint32
	First  bool
	Sender [32]byte // digest of what the SENDER of this direction sent in clear
	Recver [32]byte // digest of what the sender of this direction received in clear
}

func NewOpener(key []byte, senderSent, senderRecv [32]byte) *Opener {
	return &Opener{aead: newAEAD(key), First: true, Sender: senderSent, Recver: senderRecv}
}

var ErrOpen = errors.New("refcodec: frame does not open")

// Open authenticates and decrypts a frame. On failure the state is unchanged.
func (o *Opener) Open(f Frame) ([]byte, error) {
	body := f.Body
	iv := o.IV
	if o.Ctr == 0 {
		if len(body) < IVSize {
			return nil, fmt.Errorf("%w: no room for IV", ErrOpen)
		}
		copy(iv[:], body[:16])
		body = body[16:]
	}
	if len(body) < TagSize {
		return nil, fmt.Errorf("%w: no room for tag", ErrOpen)
	}
	h := Header(f.End, len(f.Body))
	var aad []byte
	if o.First {
		aad = append(aad, o.Sender[:]...)
		aad = append(aad, o.Recver[:]...)
	}
	aad = append(aad, h[:]...)
	pt, err := o.aead.Open(nil, nonce(iv, o.Ctr), body, aad)
	if err != nil {
		return nil, fmt.Errorf("%w: %v", ErrOpen, err)
	}
	o.IV = iv
	o.Ctr++
	o.First = false
	if pt == nil {
		pt = []byte{}
	}
	return pt, nil
}

// CryptoBlob builds an ExportCryptoState-format blob (layout documented in the
// exported comment of stream.ExportCryptoState; magic "CDRX", version 1).
type CryptoBlob struct {
	Flags            byte
	Key              []byte
	EncIV, DecIV     [16]byte
	EncCtr, DecCtr   uint32
	SendDig, RecvDig []byte
	Peer             string
}

const (
	FlagEncrypted = 1 << iota
	FlagAuthenticated
	FlagFinishedSendAAD
	FlagFinishedRecvAAD
	FlagSendDigestWritten
	FlagRecvDigestWritten
)

func (c CryptoBlob) Encode() []byte {
	b := []byte("CDRX")
	b = binary.BigEndian.AppendUint16(b, 1)
	b = append(b, c.Flags)
	b = append(b, c.Key...)
	b = append(b, c.EncIV[:]...)
	b = append(b, c.DecIV[:]...)
	b = binary.BigEndian.AppendUint32(b, c.EncCtr)
	b = binary.BigEndian.AppendUint32(b, c.DecCtr)
	for _, v := range [][]byte{c.SendDig, c.RecvDig, []byte(c.Peer)} {
		b = binary.BigEndian.AppendUint16(b, uint16(len(v)))
		b = append(b, v...)
	}
	return b
}

func DecodeCryptoBlob(b []byte) (CryptoBlob, error) {
	var c CryptoBlob
	if len(b) < 79 || string(b[:4]) != "CDRX" || binary.BigEndian.Uint16(b[4:6]) != 1 {
		return c, errors.New("bad blob")
	}
	c.Flags = b[6]
	c.Key = append([]byte(nil), b[7:39]...)
	copy(c.EncIV[:], b[39:55])
	copy(c.DecIV[:], b[55:71])
	c.EncCtr = binary.BigEndian.Uint32(b[71:75])
	c.DecCtr = binary.BigEndian.Uint32(b[75:79])
	off := 79
	rd := func() ([]byte, error) {
		if off+2 > len(b) {
			return nil, errors.New("truncated")
		}
		n := int(binary.BigEndian.Uint16(b[off:]))
		off += 2
		if off+n > len(b) {
			return nil, errors.New("truncated")
		}
		v := b[off : off+n]
		off += n
		return append([]byte(nil), v...), nil
	}
	var err error
	if c.SendDig, err = rd(); err != nil {
		return c, err
	}
	if c.RecvDig, err = rd(); err != nil {
		return c, err
	}
	p, err := rd()
	if err != nil {
		return c, err
	}
	c.Peer = string(p)
	return c, nil
}
