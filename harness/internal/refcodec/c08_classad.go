package refcodec

// Independent codec for a ClassAd on the CEDAR wire (properties C08 / C09),
// written from the protocol description: an ad is
//
//	int64 count | count items | [MyType string, TargetType string]
//
// an item is one string "Name = Value", or the marker string "ZKM" followed by
// one secret string. An integer is 8 bytes big endian. A string is its bytes
// followed by NUL; while the stream encrypts it is preceded by an int64 length
// that counts the NUL. Fields may be cut into frames anywhere; the sender
// flushes around a secret so that it sits alone in protected frames.
//
// Nothing here calls the code under test.

import (
	"encoding/binary"
	"errors"
	"fmt"
)

const C08SecretMarker = "ZKM"

// C08ClearFrame is a frame after the reference opener looked at it: Data is the
// payload in the clear, Prot says whether it arrived AES-GCM protected.
type C08ClearFrame struct {
	End  byte
	Data []byte
	Prot bool
}

func C08AdInt(v int64) []byte {
	b := make([]byte, 8)
	binary.BigEndian.PutUint64(b, uint64(v))
	return b
}

// C08AdString renders one string field.
func C08AdString(s string, lenPrefixed bool) []byte {
	var b []byte
	if lenPrefixed {
		b = append(b, C08AdInt(int64(len(s)+1))...)
	}
	b = append(b, s...)
	return append(b, 0)
}

// C08WireItem is one expression item as found on the wire.
type C08WireItem struct {
	Text   string
	Secret bool // marker + secret form
	Prot   bool // every byte of Text travelled inside protected frames
}

// C08WireAd is what C08DecodeAd found.
type C08WireAd struct {
	Count int64
	Items []C08WireItem
	Tail  []string // every string after the items up to the end of the message
	// TailProt[i]: Tail[i] travelled inside protected frames
	TailProt []bool
	// Bounds are the end offsets of every field (count, each string) in the
	// concatenation of all frame payloads.
	Bounds []int
}

type c08AdReader struct {
	fr  []C08ClearFrame
	i   int // current frame
	off int // offset in current frame
	abs int // bytes consumed so far
}

// skip exhausted frames; false when no data is left
func (r *c08AdReader) more() bool {
	for r.i < len(r.fr) && r.off >= len(r.fr[r.i].Data) {
		r.i++
		r.off = 0
	}
	return r.i < len(r.fr)
}

func (r *c08AdReader) byte() (b byte, prot bool, ok bool) {
	if !r.more() {
		return 0, false, false
	}
	b = r.fr[r.i].Data[r.off]
	prot = r.fr[r.i].Prot
	r.off++
	r.abs++
	return b, prot, true
}

func (r *c08AdReader) int64() (int64, bool, error) {
	var buf [8]byte
	allProt := true
	for k := 0; k < 8; k++ {
		b, p, ok := r.byte()
		if !ok {
			return 0, false, errors.New("integer cut short")
		}
		allProt = allProt && p
		buf[k] = b
	}
	return int64(binary.BigEndian.Uint64(buf[:])), allProt, nil
}

// str reads one string; its framing follows the protection of the frame it starts in.
func (r *c08AdReader) str() (s string, prot bool, err error) {
	if !r.more() {
		return "", false, errors.New("no string left")
	}
	if r.fr[r.i].Prot {
		n, p, err := r.int64()
		if err != nil {
			return "", false, err
		}
		if n < 0 || n > 64<<20 {
			return "", false, fmt.Errorf("string length %d", n)
		}
		buf := make([]byte, 0, n)
		all := p
		for int64(len(buf)) < n {
			b, p, ok := r.byte()
			if !ok {
				return "", false, errors.New("string cut short")
			}
			all = all && p
			buf = append(buf, b)
		}
		if n == 0 || buf[n-1] != 0 {
			return "", false, errors.New("length-prefixed string without terminator")
		}
		return string(buf[:n-1]), all, nil
	}
	var buf []byte
	for {
		b, p, ok := r.byte()
		if !ok {
			return "", false, errors.New("string without terminator")
		}
		if p {
			return "", false, errors.New("NUL-terminated string runs into a protected frame")
		}
		if b == 0 {
			return string(buf), false, nil
		}
		buf = append(buf, b)
	}
}

// C08DecodeAd parses one message that starts with an ad.
func C08DecodeAd(frames []C08ClearFrame) (*C08WireAd, error) {
	r := &c08AdReader{fr: frames}
	n, _, err := r.int64()
	if err != nil {
		return nil, fmt.Errorf("count: %w", err)
	}
	if n < 0 || n > 1<<20 {
		return nil, fmt.Errorf("count %d", n)
	}
	ad := &C08WireAd{Count: n, Bounds: []int{r.abs}}
	for k := int64(0); k < n; k++ {
		s, p, err := r.str()
		if err != nil {
			return nil, fmt.Errorf("item %d: %w", k, err)
		}
		ad.Bounds = append(ad.Bounds, r.abs)
		it := C08WireItem{Text: s, Prot: p}
		if s == C08SecretMarker {
			s2, p2, err := r.str()
			ad.Bounds = append(ad.Bounds, r.abs)
			if err != nil {
				return nil, fmt.Errorf("secret %d: %w", k, err)
			}
			it = C08WireItem{Text: s2, Secret: true, Prot: p2}
		}
		ad.Items = append(ad.Items, it)
	}
	for r.more() {
		s, p, err := r.str()
		if err != nil {
			return nil, fmt.Errorf("tail: %w", err)
		}
		ad.Tail = append(ad.Tail, s)
		ad.TailProt = append(ad.TailProt, p)
		ad.Bounds = append(ad.Bounds, r.abs)
	}
	return ad, nil
}

// C08OpenAll splits raw bytes into frames and opens those that are protected.
// With a nil opener every frame is clear. mustAll demands that every frame opens
// (an encrypting stream); otherwise a frame that does not open is taken as clear.
func C08OpenAll(raw []byte, o *Opener, mustAll bool) ([]C08ClearFrame, error) {
	frs, rest := ParseFrames(raw)
	if len(rest) != 0 {
		return nil, fmt.Errorf("%d trailing bytes that are not a frame", len(rest))
	}
	var out []C08ClearFrame
	for i, f := range frs {
		if o != nil {
			if pt, err := o.Open(f); err == nil {
				out = append(out, C08ClearFrame{End: f.End, Data: pt, Prot: true})
				continue
			} else if mustAll {
				return nil, fmt.Errorf("frame %d of an encrypting stream does not open: %v", i, err)
			}
		}
		out = append(out, C08ClearFrame{End: f.End, Data: f.Body})
	}
	return out, nil
}

// C08Reframe re-cuts the payloads of a message at the given plan and renders raw
// wire bytes again: clear runs become clear frames, protected runs are sealed
// with s (which must be a fresh Sealer for the direction). cutEvery > 0 cuts a
// run into pieces of that many bytes; cuts lists additional absolute offsets
// (in the concatenation of all payloads) to cut at. Protection boundaries are
// always kept. The last frame carries the end flag.
func C08Reframe(frames []C08ClearFrame, s *Sealer, cutEvery int, cuts map[int]bool) []byte {
	type piece struct {
		data []byte
		prot bool
	}
	var ps []piece
	abs := 0
	for _, f := range frames {
		start := 0
		for k := 1; k <= len(f.Data); k++ {
			cutHere := k == len(f.Data) || cuts[abs+k] || (cutEvery > 0 && (k-start) >= cutEvery)
			if cutHere {
				ps = append(ps, piece{append([]byte(nil), f.Data[start:k]...), f.Prot})
				start = k
			}
		}
		if len(f.Data) == 0 {
			ps = append(ps, piece{nil, f.Prot})
		}
		abs += len(f.Data)
	}
	var out []byte
	for i, p := range ps {
		end := byte(0)
		if i == len(ps)-1 {
			end = 1
		}
		if p.prot {
			out = append(out, s.Seal(end, p.data).Encode()...)
		} else {
			out = append(out, Frame{End: end, Body: p.data}.Encode()...)
		}
	}
	return out
}
