package refcodec

import (
	"encoding/binary"
	"errors"
	"fmt"
	"strconv"
	"strings"
)

// Independent reference encoding of the CLEARTEXT handshake messages used by
// session resumption (C06/C07): a 64-bit big-endian integer, NUL-terminated
// strings, and a ClassAd as <count> "Attr = Expr"... <MyType> <TargetType>
// (protocol/CEDAR_PROTOCOL.md; HTCondor putClassAd). It never calls cedar.

// C06DCAuthenticate is DC_BASE(60000)+10, the command that opens every handshake.
const C06DCAuthenticate = 60010

func C06PutInt(b []byte, v int64) []byte { return binary.BigEndian.AppendUint64(b, uint64(v)) }

func C06PutCString(b []byte, s string) []byte {
	b = append(b, s...)
	return append(b, 0)
}

// C06AdAttr is one attribute with its expression already rendered.
type C06AdAttr struct{ Name, Expr string }

func C06StrExpr(s string) string { return `"` + s + `"` }
func C06IntExpr(v int) string    { return strconv.Itoa(v) }
func C06BoolExpr(v bool) string {
	if v {
		return "true"
	}
	return "false"
}

// C06EncodeAd renders a ClassAd body (cleartext stream form).
func C06EncodeAd(attrs []C06AdAttr) []byte {
	b := C06PutInt(nil, int64(len(attrs)))
	for _, a := range attrs {
		b = C06PutCString(b, a.Name+" = "+a.Expr)
	}
	b = C06PutCString(b, "") // MyType
	b = C06PutCString(b, "") // TargetType
	return b
}

// C06DecodeAd parses a cleartext ClassAd body into attribute -> raw expression.
func C06DecodeAd(b []byte) (map[string]string, []byte, error) {
	if len(b) < 8 {
		return nil, b, errors.New("refcodec: short ad")
	}
	n := int64(binary.BigEndian.Uint64(b[:8]))
	b = b[8:]
	if n < 0 || n > 1000 {
		return nil, b, fmt.Errorf("refcodec: implausible attribute count %d", n)
	}
	out := map[string]string{}
	next := func() (string, error) {
		for i, c := range b {
			if c == 0 {
				s := string(b[:i])
				b = b[i+1:]
				return s, nil
			}
		}
		return "", errors.New("refcodec: unterminated string")
	}
	for i := int64(0); i < n; i++ {
		s, err := next()
		if err != nil {
			return nil, b, err
		}
		k, v, ok := strings.Cut(s, "=")
		if !ok {
			return nil, b, fmt.Errorf("refcodec: not an assignment: %q", s)
		}
		out[strings.TrimSpace(k)] = strings.TrimSpace(v)
	}
	for i := 0; i < 2; i++ { // MyType, TargetType
		if _, err := next(); err != nil {
			return nil, b, err
		}
	}
	return out, b, nil
}

// C06Unquote strips the quotes of a string expression ("" if it is not one).
func C06Unquote(expr string) string {
	if len(expr) >= 2 && expr[0] == '"' && expr[len(expr)-1] == '"' {
		return expr[1 : len(expr)-1]
	}
	return ""
}

// C06AuthRequest is the first client message of a connection as seen on the wire.
type C06AuthRequest struct {
	Command    int64
	Attrs      map[string]string
	UseSession bool
	Sid        string
}

// C06ParseAuthRequest decodes the first cleartext message (all its frames joined).
func C06ParseAuthRequest(msg []byte) (*C06AuthRequest, error) {
	if len(msg) < 8 {
		return nil, errors.New("refcodec: short request")
	}
	r := &C06AuthRequest{Command: int64(binary.BigEndian.Uint64(msg[:8]))}
	attrs, _, err := C06DecodeAd(msg[8:])
	if err != nil {
		return nil, err
	}
	r.Attrs = attrs
	r.UseSession = C06Unquote(attrs["UseSession"]) == "YES"
	r.Sid = C06Unquote(attrs["Sid"])
	return r, nil
}

// C06FirstMessage joins the bodies of the frames of the first message in a byte
// stream of cleartext frames and returns how many frames it took.
func C06FirstMessage(stream []byte) (body []byte, frames int, ok bool) {
	fs, _ := ParseFrames(stream)
	for i, f := range fs {
		body = append(body, f.Body...)
		if f.End == 1 {
			return body, i + 1, true
		}
	}
	return body, len(fs), false
}

// C06ResumeRequest builds the message body of a resumption request the way an
// HTCondor-style client does: DC_AUTHENTICATE, then the ad. wantReply nil
// omits ResumeResponse altogether (legacy client), otherwise sets it.
func C06ResumeRequest(command int, sid string, wantReply *bool, cryptoMethods string) []byte {
	attrs := []C06AdAttr{
		{"Command", C06IntExpr(command)},
		{"UseSession", C06StrExpr("YES")},
		{"Sid", C06StrExpr(sid)},
	}
	if wantReply != nil {
		attrs = append(attrs, C06AdAttr{"ResumeResponse", C06BoolExpr(*wantReply)})
	}
	if cryptoMethods != "" {
		attrs = append(attrs, C06AdAttr{"CryptoMethods", C06StrExpr(cryptoMethods)})
	}
	b := C06PutInt(nil, C06DCAuthenticate)
	return append(b, C06EncodeAd(attrs)...)
}
