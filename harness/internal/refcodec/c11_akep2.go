package refcodec

// C11: INDEPENDENT reference for HTCondor TOKEN (IDTOKENS) authentication:
// the token format (JWT, HS256 under an HKDF-expanded signing key), the AKEP2
// three-message exchange and its key derivation, written from the HTCondor
// description (condor_auth_passwd.cpp as summarised in the comments of
// security/token_auth.go). It never calls the code under test.
//
//   token  = b64(header) "." b64(payload) "." b64(sig)
//   sig    = HMAC-SHA256(HKDF-SHA256(ikm=key[kid] (POOL key doubled), salt="htcondor", info="master jwt", 32), header "." payload)
//   K      = HKDF-SHA256(ikm=sig, salt=seedKA||token, info="master ka", 32)   token = header "." payload
//   K'     = HKDF-SHA256(ikm=sig, salt=seedKB||token, info="master kb", 32)
//   msg 1  C->S  int status, int len(A), str A, str token, int len(rA), rA
//   msg 2  S->C  int status, int len(A), str A, int len(B), str B, int len(rA), rA, int len(rB), rB, int len(mac), mac
//                mac = HMAC(K, A " " B "\x00" rA rB)
//   msg 3  C->S  int status, int len(A), str A, int len(rB), rB, int len(mac), mac
//                mac = HMAC(K, A "\x00" rB)
//   ints are 8-byte big-endian two's complement; strings are NUL terminated.

import (
	"bytes"
	"crypto/hmac"
	"crypto/sha1"
	"crypto/sha256"
	"encoding/base64"
	"encoding/binary"
	"encoding/json"
	"errors"
	"hash"
	"io"
	"strings"

	"golang.org/x/crypto/hkdf"
)

var c11SeedKA = [256]byte{62, 74, 80, 32, 71, 213, 244, 229, 220, 124, 105, 187, 82, 16, 203, 182, 22, 122, 221, 128, 132, 247, 221, 158, 243, 173, 44, 202, 113, 210, 131, 221, 17, 74, 79, 187, 123, 30, 233, 10, 223, 168, 98, 196, 67, 4, 222, 84, 115, 163, 23, 47, 115, 92, 44, 187, 110, 119, 91, 93, 64, 211, 159, 172, 232, 115, 24, 37, 35, 249, 37, 43, 98, 59, 224, 212, 177, 103, 163, 168, 4, 12, 172, 254, 233, 238, 61, 160, 44, 10, 187, 244, 217, 216, 177, 31, 137, 0, 76, 148, 57, 35, 206, 93, 149, 8, 187, 63, 4, 188, 102, 163, 250, 32, 161, 58, 65, 108, 94, 111, 78, 13, 49, 135, 212, 95, 199, 131, 53, 197, 228, 133, 219, 44, 90, 55, 23, 151, 12, 194, 110, 123, 107, 157, 25, 101, 180, 122, 103, 223, 119, 163, 31, 34, 240, 138, 108, 11, 165, 112, 151, 162, 26, 156, 167, 198, 4, 36, 247, 39, 57, 171, 92, 185, 21, 164, 24, 91, 209, 9, 130, 142, 53, 228, 33, 8, 171, 133, 28, 8, 163, 223, 253, 224, 227, 176, 111, 61, 57, 56, 205, 173, 109, 246, 239, 154, 111, 109, 194, 203, 116, 240, 34, 133, 18, 235, 122, 61, 104, 35, 1, 6, 132, 176, 21, 193, 42, 195, 1, 76, 79, 159, 147, 142, 56, 77, 173, 30, 59, 215, 69, 255, 140, 20, 31, 215, 11, 70, 91, 168, 175, 93, 27, 152, 180, 177}

var c11SeedKB = [256]byte{1, 0, 38, 173, 117, 223, 198, 193, 144, 165, 162, 102, 176, 209, 181, 216, 96, 247, 207, 163, 132, 103, 32, 85, 1, 205, 70, 13, 74, 136, 212, 115, 250, 82, 224, 179, 233, 20, 30, 51, 201, 125, 133, 30, 238, 45, 211, 54, 50, 243, 136, 103, 104, 239, 1, 14, 200, 223, 221, 102, 138, 222, 146, 213, 195, 67, 8, 187, 36, 56, 149, 216, 78, 215, 133, 226, 114, 104, 204, 94, 231, 86, 13, 228, 152, 40, 250, 183, 102, 194, 173, 140, 11, 44, 10, 251, 67, 92, 56, 45, 181, 210, 255, 54, 168, 174, 173, 88, 32, 71, 10, 154, 212, 93, 121, 133, 111, 94, 46, 206, 137, 75, 210, 80, 121, 41, 220, 242, 111, 125, 9, 240, 2, 143, 26, 196, 217, 113, 244, 130, 12, 95, 84, 113, 126, 157, 205, 171, 235, 33, 95, 97, 101, 93, 234, 212, 183, 44, 61, 59, 95, 102, 250, 75, 48, 184, 88, 136, 214, 47, 172, 212, 18, 156, 19, 4, 145, 159, 105, 173, 109, 140, 44, 67, 217, 206, 92, 219, 49, 212, 88, 3, 82, 199, 54, 43, 141, 128, 183, 239, 27, 186, 93, 103, 102, 96, 169, 68, 118, 69, 2, 249, 29, 29, 60, 84, 145, 12, 8, 139, 204, 183, 43, 17, 148, 138, 94, 26, 29, 205, 4, 54, 156, 23, 210, 152, 128, 76, 33, 110, 122, 38, 144, 184, 192, 233, 112, 54, 51, 0, 208, 146, 223, 36, 251, 140}

const (
	C11StatusOK    = 0
	C11StatusError = -1
	C11StatusAbort = 1
	C11NonceLen    = 256
)

// C11Scramble is HTCondor's simple_scramble (XOR with 0xdeadbeef); it is its
// own inverse. Key files on disk hold the scrambled key.
func C11Scramble(b []byte) []byte {
	db := [4]byte{0xde, 0xad, 0xbe, 0xef}
	out := make([]byte, len(b))
	for i := range b {
		out[i] = b[i] ^ db[i%4]
	}
	return out
}

func c11hkdf(ikm, salt, info []byte, n int) []byte {
	out := make([]byte, n)
	if _, err := io.ReadFull(hkdf.New(sha256.New, ikm, salt, info), out); err != nil {
		panic(err)
	}
	return out
}

// C11TokenSig computes the signature of signingInput (header "." payload)
// under the raw (unscrambled) signing key named kid.
func C11TokenSig(rawKey []byte, kid string, signingInput string) []byte {
	ikm := rawKey
	if kid == "POOL" {
		ikm = append(append([]byte{}, rawKey...), rawKey...)
	}
	jwtKey := c11hkdf(ikm, []byte("htcondor"), []byte("master jwt"), 32)
	m := hmac.New(sha256.New, jwtKey)
	m.Write([]byte(signingInput))
	return m.Sum(nil)
}

func C11B64(b []byte) string { return base64.RawURLEncoding.EncodeToString(b) }

// C11Claims is the content of a token the harness mints. Zero Iat/Exp with the
// matching No* flag leave the claim out.
type C11Claims struct {
	Kid, Sub, Iss string
	Iat, Exp      int64
	NoIat, NoExp  bool
	NoKid, NoSub  bool
	Nbf           int64 // 0 = absent
	Jti           string
	// raw JSON spellings of the numbers (e.g. "1790000000.75"); "" = plain integer
	ExpText, IatText string
	// raw additional members of the payload object, e.g. `"scope":"condor:/READ"`
	Extra string
}

// C11MintToken builds header.payload.sig. Field order is fixed (hand-written
// JSON) so that the same claims always give the same text.
func C11MintToken(rawKey []byte, c C11Claims) (token string) {
	q := func(s string) string { b, _ := json.Marshal(s); return string(b) }
	hdr := `{"alg":"HS256","typ":"JWT"`
	if !c.NoKid {
		hdr += `,"kid":` + q(c.Kid)
	}
	hdr += "}"
	var p []string
	if !c.NoSub {
		p = append(p, `"sub":`+q(c.Sub))
	}
	if c.Iss != "" {
		p = append(p, `"iss":`+q(c.Iss))
	}
	if c.Jti != "" {
		p = append(p, `"jti":`+q(c.Jti))
	}
	if !c.NoIat {
		if c.IatText != "" {
			p = append(p, `"iat":`+c.IatText)
		} else {
			p = append(p, `"iat":`+c11itoa(c.Iat))
		}
	}
	if !c.NoExp {
		if c.ExpText != "" {
			p = append(p, `"exp":`+c.ExpText)
		} else {
			p = append(p, `"exp":`+c11itoa(c.Exp))
		}
	}
	if c.Nbf != 0 {
		p = append(p, `"nbf":`+c11itoa(c.Nbf))
	}
	if c.Extra != "" {
		p = append(p, c.Extra)
	}
	pay := "{" + strings.Join(p, ",") + "}"
	si := C11B64([]byte(hdr)) + "." + C11B64([]byte(pay))
	kid := c.Kid
	if c.NoKid || kid == "" {
		kid = "POOL"
	}
	return si + "." + C11B64(C11TokenSig(rawKey, kid, si))
}

func c11itoa(v int64) string {
	b, _ := json.Marshal(v)
	return string(b)
}

// C11Keys are the two AKEP2 keys derived from a token signature.
type C11Keys struct{ K, Kp []byte }

func C11DeriveKeys(sig []byte, signingInput string) C11Keys {
	sa := append(append([]byte{}, c11SeedKA[:]...), signingInput...)
	sb := append(append([]byte{}, c11SeedKB[:]...), signingInput...)
	return C11Keys{K: c11hkdf(sig, sa, []byte("master ka"), 32), Kp: c11hkdf(sig, sb, []byte("master kb"), 32)}
}

// C11MacHash selects the MAC hash; the HTCondor description names HMAC with
// the v1 hash (SHA-1, 20 bytes); the harness calibrates it on an honest run.
type C11MacHash int

const (
	C11MacSHA1 C11MacHash = iota
	C11MacSHA256
)

func (h C11MacHash) new() func() hash.Hash {
	if h == C11MacSHA256 {
		return sha256.New
	}
	return sha1.New
}

func C11Mac2(h C11MacHash, k []byte, a, b string, ra, rb []byte) []byte {
	m := hmac.New(h.new(), k)
	m.Write([]byte(a))
	m.Write([]byte{' '})
	m.Write([]byte(b))
	m.Write([]byte{0})
	m.Write(ra)
	m.Write(rb)
	return m.Sum(nil)
}

func C11Mac3(h C11MacHash, k []byte, a string, rb []byte) []byte {
	m := hmac.New(h.new(), k)
	m.Write([]byte(a))
	m.Write([]byte{0})
	m.Write(rb)
	return m.Sum(nil)
}

// ---- message codecs -------------------------------------------------------

type C11Msg1 struct {
	Status int64
	A      string
	Token  string // header "." payload
	RA     []byte
	Trail  []byte
}
type C11Msg2 struct {
	Status int64
	A, B   string
	RA, RB []byte
	Mac    []byte
	Trail  []byte
}
type C11Msg3 struct {
	Status int64
	A      string
	RB     []byte
	Mac    []byte
	Trail  []byte
}

type c11w struct{ bytes.Buffer }

func (w *c11w) int(v int64) {
	var b [8]byte
	binary.BigEndian.PutUint64(b[:], uint64(v))
	w.Write(b[:])
}
func (w *c11w) str(s string)   { w.WriteString(s); w.WriteByte(0) }
func (w *c11w) idstr(s string) { w.int(int64(len(s))); w.str(s) }
func (w *c11w) blob(b []byte)  { w.int(int64(len(b))); w.Write(b) }

func (m C11Msg1) Encode() []byte {
	var w c11w
	w.int(m.Status)
	w.idstr(m.A)
	w.str(m.Token)
	w.blob(m.RA)
	w.Write(m.Trail)
	return w.Bytes()
}
func (m C11Msg2) Encode() []byte {
	var w c11w
	w.int(m.Status)
	w.idstr(m.A)
	w.idstr(m.B)
	w.blob(m.RA)
	w.blob(m.RB)
	w.blob(m.Mac)
	w.Write(m.Trail)
	return w.Bytes()
}
func (m C11Msg3) Encode() []byte {
	var w c11w
	w.int(m.Status)
	w.idstr(m.A)
	w.blob(m.RB)
	w.blob(m.Mac)
	w.Write(m.Trail)
	return w.Bytes()
}

type c11r struct {
	b   []byte
	err error
}

func (r *c11r) int() int64 {
	if r.err != nil || len(r.b) < 8 {
		r.err = errors.New("short int")
		return 0
	}
	v := int64(binary.BigEndian.Uint64(r.b[:8]))
	r.b = r.b[8:]
	return v
}
func (r *c11r) str() string {
	if r.err != nil {
		return ""
	}
	i := bytes.IndexByte(r.b, 0)
	if i < 0 {
		r.err = errors.New("unterminated string")
		return ""
	}
	s := string(r.b[:i])
	r.b = r.b[i+1:]
	return s
}
func (r *c11r) idstr() string {
	n := r.int()
	s := r.str()
	if r.err == nil && int(n) != len(s) {
		r.err = errors.New("id length mismatch")
	}
	return s
}
func (r *c11r) blob() []byte {
	n := r.int()
	if r.err != nil {
		return nil
	}
	if n < 0 || int(n) > len(r.b) {
		r.err = errors.New("short blob")
		return nil
	}
	b := append([]byte{}, r.b[:n]...)
	r.b = r.b[n:]
	return b
}

func C11ParseMsg1(p []byte) (m C11Msg1, err error) {
	r := &c11r{b: p}
	m.Status = r.int()
	m.A = r.idstr()
	m.Token = r.str()
	m.RA = r.blob()
	m.Trail = r.b
	return m, r.err
}
func C11ParseMsg2(p []byte) (m C11Msg2, err error) {
	r := &c11r{b: p}
	m.Status = r.int()
	m.A = r.idstr()
	m.B = r.idstr()
	m.RA = r.blob()
	m.RB = r.blob()
	m.Mac = r.blob()
	m.Trail = r.b
	return m, r.err
}
func C11ParseMsg3(p []byte) (m C11Msg3, err error) {
	r := &c11r{b: p}
	m.Status = r.int()
	m.A = r.idstr()
	m.RB = r.blob()
	m.Mac = r.blob()
	m.Trail = r.b
	return m, r.err
}

// ---- standalone verification oracle ---------------------------------------

// C11Verdict is what the property statement says about a token string.
type C11Verdict struct {
	// Want is "accept", "reject" or "either" (statement silent / boundary).
	Want string
	Why  string
	Sub  string
}

// C11VerifyOracle decides a token from the statement of C11: accept exactly the
// tokens whose signature verifies under the named key and whose time claims
// are currently valid. keys maps kid -> raw key ("POOL" for the pool key).
// margin is the guard band (seconds) around time boundaries inside which the
// verdict is "either" (the harness never asserts on sub-second boundaries).
func C11VerifyOracle(token string, keys map[string][]byte, now, maxAge, margin int64) C11Verdict {
	return C11VerifyOracleSoft(token, keys, nil, now, maxAge, margin)
}

// C11VerifyOracleSoft additionally takes the key ids on which the statement is
// silent: other SPELLINGS of a held key or of a file below the key directory
// (./k1, ../<keydir>/k1, sub/inner, ...), mapped to the key that spelling
// reaches. A token that verifies under such a key is "either". A kid that is in
// neither map names no key the server holds - whatever file a path resolution
// of it might reach - and the verdict is "reject".
func C11VerifyOracleSoft(token string, keys, silent map[string][]byte, now, maxAge, margin int64) C11Verdict {
	t := strings.TrimSpace(token)
	padded := t != token
	parts := strings.Split(t, ".")
	if len(parts) != 3 {
		return C11Verdict{Want: "reject", Why: "not three parts"}
	}
	hb, err := base64.RawURLEncoding.DecodeString(parts[0])
	if err != nil {
		return C11Verdict{Want: "reject", Why: "header encoding"}
	}
	var hdr map[string]any
	if json.Unmarshal(hb, &hdr) != nil {
		return C11Verdict{Want: "reject", Why: "header json"}
	}
	kid := "POOL"
	if v, ok := hdr["kid"]; ok {
		s, isStr := v.(string)
		if !isStr {
			// a kid that is not a string names no key
			kid = "\x00none"
		} else if s != "" {
			kid = s
		}
	}
	key, ok := keys[kid]
	silentKid := false
	if !ok {
		if k, is := silent[kid]; is {
			key, ok, silentKid = k, true, true
		}
	}
	if !ok {
		if _, isStr := hdr["kid"].(string); !isStr && hdr["kid"] != nil {
			// statement silent on whether a non-string kid falls back to POOL; the
			// signature cannot verify under POOL unless it was made with it
			if pk, has := keys["POOL"]; has {
				sig, err := base64.RawURLEncoding.DecodeString(parts[2])
				if err == nil && hmac.Equal(sig, C11TokenSig(pk, "POOL", parts[0]+"."+parts[1])) {
					return C11Verdict{Want: "either", Why: "non-string kid"}
				}
			}
		}
		return C11Verdict{Want: "reject", Why: "unknown key id"}
	}
	sig, err := base64.RawURLEncoding.DecodeString(parts[2])
	if err != nil {
		return C11Verdict{Want: "reject", Why: "signature encoding"}
	}
	if !hmac.Equal(sig, C11TokenSig(key, kid, parts[0]+"."+parts[1])) {
		return C11Verdict{Want: "reject", Why: "signature mismatch"}
	}
	pb, err := base64.RawURLEncoding.DecodeString(parts[1])
	if err != nil {
		return C11Verdict{Want: "reject", Why: "payload encoding"}
	}
	var cl map[string]any
	if json.Unmarshal(pb, &cl) != nil {
		return C11Verdict{Want: "reject", Why: "payload json"}
	}
	v := C11Verdict{Want: "accept", Why: "valid"}
	if s, ok := cl["sub"].(string); ok {
		v.Sub = s
	}
	soft := func(why string) {
		if v.Want == "accept" {
			v.Want, v.Why = "either", why
		}
	}
	num := func(name string) (int64, bool, bool) { // value, present, numeric
		x, ok := cl[name]
		if !ok {
			return 0, false, false
		}
		f, isNum := x.(float64)
		return int64(f), true, isNum
	}
	if exp, present, isNum := num("exp"); present {
		switch {
		case !isNum:
			return C11Verdict{Want: "reject", Why: "exp not a number"}
		case now >= exp+margin:
			return C11Verdict{Want: "reject", Why: "expired"}
		case now > exp-margin:
			soft("exp at boundary")
		}
	} else {
		soft("no exp claim")
	}
	if iat, present, isNum := num("iat"); present {
		age := now - iat
		switch {
		case !isNum:
			return C11Verdict{Want: "reject", Why: "iat not a number"}
		case maxAge > 0 && age >= maxAge+margin:
			return C11Verdict{Want: "reject", Why: "too old"}
		case maxAge > 0 && age > maxAge-margin:
			soft("iat at age limit")
		case age < margin:
			// issued now or in the future: "not yet valid" is not spelled out by the statement
			if age < -margin {
				soft("iat in the future")
			}
		}
	} else {
		soft("no iat claim")
	}
	if nbf, present, _ := num("nbf"); present && nbf > now-margin {
		soft("nbf in the future")
	}
	if v.Sub == "" {
		soft("no subject")
	}
	if silentKid {
		soft("key id is another spelling of a held key / a file below the key directory")
	}
	if C11B64(sig) != parts[2] || padded {
		soft("non-canonical encoding of a verifying signature / surrounding white space")
	}
	return v
}
