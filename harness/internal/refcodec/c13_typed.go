package refcodec

// C13: independent encoders for CEDAR typed values and message framing, written
// from protocol/CEDAR_PROTOCOL.md. They deliberately allow every hostile
// choice a real encoder would refuse (negative length prefixes, missing
// terminators, frame lengths that disagree with the body, any end flag).

import (
	"encoding/binary"
)

// C13Int is an integer on the wire: 8 bytes, big endian, two's complement.
func C13Int(v int64) []byte {
	b := make([]byte, 8)
	binary.BigEndian.PutUint64(b, uint64(v))
	return b
}

// C13StrPlain is a string on a stream that does not encrypt: body then NUL.
func C13StrPlain(body []byte, term bool) []byte {
	b := append([]byte(nil), body...)
	if term {
		b = append(b, 0)
	}
	return b
}

// C13StrEnc is a string on an encrypting stream: an integer length prefix
// (any value the caller likes), then the body and its NUL.
func C13StrEnc(prefix int64, body []byte, term bool) []byte {
	b := C13Int(prefix)
	b = append(b, body...)
	if term {
		b = append(b, 0)
	}
	return b
}

// C13RawFrame renders a frame whose header claims `claimed` bytes while only
// `body` follows (hostile framing).
func C13RawFrame(end byte, claimed uint32, body []byte) []byte {
	b := make([]byte, HeaderSize+len(body))
	b[0] = end
	binary.BigEndian.PutUint32(b[1:5], claimed)
	copy(b[5:], body)
	return b
}

// C13Framer turns a payload byte string into wire frames, in the clear or
// protected by a Sealer.
type C13Framer struct {
	Seal *Sealer // nil = cleartext
}

// Frame renders one frame carrying payload.
func (f *C13Framer) Frame(end byte, payload []byte) []byte {
	if f.Seal != nil {
		return f.Seal.Seal(end, payload).Encode()
	}
	return Frame{End: end, Body: payload}.Encode()
}

// Message splits payload at the given cut offsets (ascending, inside the
// payload) into frames; every frame but the last has end = 0, the last has
// lastEnd. A payload longer than maxChunk is split further.
func (f *C13Framer) Message(payload []byte, cuts []int, lastEnd byte, maxChunk int) (wire []byte, frameEnds []int, payloadEnds []int) {
	if maxChunk <= 0 {
		maxChunk = MaxFrame - 64
	}
	var bounds []int
	prev := 0
	add := func(to int) {
		for to-prev > maxChunk {
			prev += maxChunk
			bounds = append(bounds, prev)
		}
		if to > prev {
			prev = to
			bounds = append(bounds, prev)
		}
	}
	for _, c := range cuts {
		if c > prev && c < len(payload) {
			add(c)
		}
	}
	add(len(payload))
	if len(bounds) == 0 {
		bounds = []int{0}
	}
	start := 0
	for i, b := range bounds {
		end := byte(0)
		if i == len(bounds)-1 {
			end = lastEnd
		}
		wire = append(wire, f.Frame(end, payload[start:b])...)
		frameEnds = append(frameEnds, len(wire))
		payloadEnds = append(payloadEnds, b)
		start = b
	}
	return wire, frameEnds, payloadEnds
}
