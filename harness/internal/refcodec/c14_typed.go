package refcodec

// Independent encoder / decoder of CEDAR typed values (property C14), written
// from protocol/CEDAR_PROTOCOL.md ("Type Serialization") and the HTCondor
// stream.cpp format comments. It never calls the code under test.
//
//   integers (every width)  8 bytes, big-endian two's complement of the
//                           value widened to 64 bits
//   char                    1 byte
//   double                  two integers: trunc(frexp-fraction * 2147483647)
//                           as int32, then the binary exponent
//   string                  bytes up to the first NUL, then one NUL; on an
//                           encrypting stream preceded by an integer holding
//                           the length INCLUDING the terminator

import (
	"errors"
	"math"
)

const C14FracConst = 2147483647 // 2^31 - 1

// C14Int returns the 8-byte network-order encoding of v.
func C14Int(v int64) []byte {
	u := uint64(v)
	b := make([]byte, 8)
	for i := 7; i >= 0; i-- {
		b[i] = byte(u & 0xff)
		u >>= 8
	}
	return b
}

// C14Uint32 encodes an unsigned 32-bit value (widened, so never negative).
func C14Uint32(v uint32) []byte { return C14Int(int64(v)) }

func C14Char(c byte) []byte { return []byte{c} }

// C14DoubleParts returns the (fraction, exponent) pair the format prescribes.
func C14DoubleParts(x float64) (int32, int32) {
	frac, exp := math.Frexp(x)
	return int32(frac * C14FracConst), int32(exp) // C cast: truncation toward zero
}

func C14Double(x float64) []byte {
	f, e := C14DoubleParts(x)
	return append(C14Int(int64(f)), C14Int(int64(e))...)
}

// C14DoubleValue is the decoding rule ldexp(frac/2147483647, exp).
func C14DoubleValue(frac, exp int32) float64 {
	return math.Ldexp(float64(frac)/C14FracConst, int(exp))
}

// C14StringContent is what a receiver must get back: the bytes before the
// first NUL.
func C14StringContent(s []byte) []byte {
	for i, c := range s {
		if c == 0 {
			return s[:i]
		}
	}
	return s
}

func C14String(s []byte, encrypted bool) []byte {
	c := C14StringContent(s)
	var out []byte
	if encrypted {
		out = append(out, C14Int(int64(len(c)+1))...)
	}
	out = append(out, c...)
	return append(out, 0)
}

// ---- reference decoder (used to cross-check the model's byte strings) -----

var ErrC14Short = errors.New("refcodec: typed value truncated")

type C14Reader struct {
	B         []byte
	Encrypted bool
}

func (r *C14Reader) take(n int) ([]byte, error) {
	if n < 0 || len(r.B) < n {
		return nil, ErrC14Short
	}
	b := r.B[:n]
	r.B = r.B[n:]
	return b, nil
}

func (r *C14Reader) Int() (int64, error) {
	b, err := r.take(8)
	if err != nil {
		return 0, err
	}
	var u uint64
	for _, c := range b {
		u = u<<8 | uint64(c)
	}
	return int64(u), nil
}

func (r *C14Reader) Char() (byte, error) {
	b, err := r.take(1)
	if err != nil {
		return 0, err
	}
	return b[0], nil
}

func (r *C14Reader) Double() (float64, error) {
	f, err := r.Int()
	if err != nil {
		return 0, err
	}
	e, err := r.Int()
	if err != nil {
		return 0, err
	}
	return C14DoubleValue(int32(f), int32(e)), nil
}

func (r *C14Reader) String() ([]byte, error) {
	if r.Encrypted {
		n, err := r.Int()
		if err != nil {
			return nil, err
		}
		b, err := r.take(int(n))
		if err != nil {
			return nil, err
		}
		if len(b) == 0 || b[len(b)-1] != 0 {
			return nil, errors.New("refcodec: string without terminator")
		}
		return b[:len(b)-1], nil
	}
	for i, c := range r.B {
		if c == 0 {
			b := r.B[:i]
			r.B = r.B[i+1:]
			return b, nil
		}
	}
	return nil, ErrC14Short
}
