package claimreplay

import (
	"encoding/json"
	"os"
	"sync"

	"cedarverif/internal/core"
)

type Job struct {
	Sc *Scenario
	V  Variant
}

func Parse(c *core.Ctx, raws []json.RawMessage) []*Scenario {
	var out []*Scenario
	for _, r := range raws {
		var sc Scenario
		if err := json.Unmarshal(r, &sc); err != nil {
			c.Broken("bad scenario JSON: %v", err)
			return nil
		}
		if len(sc.Trace) < 6 || sc.Trace[0].Cfg == nil {
			c.Broken("unexpected behaviour shape (%d steps)", len(sc.Trace))
			return nil
		}
		out = append(out, &sc)
	}
	return out
}

// ReplayAll runs the jobs in parallel, confirms every difference by an
// immediate second run (DESIGN section 5 (ii)) and records failures.
func ReplayAll(c *core.Ctx, jobs []Job, total *Stats) {
	var mu sync.Mutex
	conform := int64(0)
	core.ParallelFor(len(jobs), 16, func(i int) {
		j := jobs[i]
		j.V.Seq = i + 1
		var st Stats
		d := Run(j.Sc, j.V, &st)
		c.Eval(Key(j.Sc, j.V), true)
		mu.Lock()
		total.RealCalls += st.RealCalls
		total.Handshakes += st.Handshakes
		total.EarlyAccept += st.EarlyAccept
		mu.Unlock()
		if d == nil {
			mu.Lock()
			conform++
			mu.Unlock()
			return
		}
		var st2 Stats
		v2 := j.V
		v2.Seq = len(jobs) + i + 1
		d2 := Run(j.Sc, v2, &st2)
		if d2 == nil || d2.Step != d.Step || d2.Field != d.Field {
			c.Broken("non-reproducible difference: %v vs %v", d, d2)
			return
		}
		c.Fail(core.Failure{Signature: Signature(j.Sc, j.V, d), Detail: d.Error(),
			Scenario: map[string]any{"kind": "ClaimSession", "trace": j.Sc.Trace, "variant": j.V}})
	})
	c.Add("traces_validated_against_impl", conform)
}

func ReplayFile(c *core.Ctx) bool {
	if c.Replay == "" {
		return false
	}
	b, err := os.ReadFile(c.Replay)
	if err != nil {
		c.Broken("cannot read replay file: %v", err)
		return true
	}
	var rf struct {
		Scenario struct {
			Kind    string  `json:"kind"`
			Trace   []Step  `json:"trace"`
			Variant Variant `json:"variant"`
		} `json:"scenario"`
	}
	if err := json.Unmarshal(b, &rf); err != nil || rf.Scenario.Kind != "ClaimSession" {
		c.Broken("not a C16 replay file")
		return true
	}
	var st Stats
	ReplayAll(c, []Job{{&Scenario{Trace: rf.Scenario.Trace}, rf.Scenario.Variant}}, &st)
	return true
}
