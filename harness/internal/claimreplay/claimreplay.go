// Package claimreplay binds spec/ClaimSession.tla (property C16) to the real
// code: every behaviour printed by Gen_ClaimSession (one configuration taken
// through Mint, Import, ImportFT and two connections) is executed with the
// real security.MintClaimSession / ImportClaimSession /
// ImportFileTransferSession on two separate caches and a real client / server
// handshake naming the session explicitly, and after every step the projection
// of the real state is compared with the specification's: the TEXT of the
// claim id and of its public form (the model's token sequence rendered to a
// concrete string), the parts the strict parser splits it into, the policy
// after a render / parse round trip, the two cache entries (id, key bytes,
// policy attributes, expiry), the outcome of each connection.
package claimreplay

import (
	"bytes"
	"context"
	"crypto/sha256"
	"encoding/json"
	"fmt"
	"io"
	"log/slog"
	"regexp"
	"strconv"
	"strings"
	"time"

	"golang.org/x/crypto/hkdf"

	"cedarverif/internal/mempipe"

	"github.com/PelicanPlatform/classad/classad"
	"github.com/bbockelm/cedar/message"
	"github.com/bbockelm/cedar/security"
	"github.com/bbockelm/cedar/server"
	"github.com/bbockelm/cedar/stream"
)

func init() {
	slog.SetDefault(slog.New(slog.NewTextHandler(io.Discard, &slog.HandlerOptions{Level: slog.Level(100)})))
}

type Cfg struct {
	Addr    string   `json:"addr"`
	Enc     bool     `json:"enc"`
	Integ   bool     `json:"integ"`
	Ciphers []string `json:"ciphers"`
	Cmds    []string `json:"cmds"`
	Life    int64    `json:"life"`
	Ver     string   `json:"ver"`
	Dir     string   `json:"dir"`
}

type Policy struct {
	Enc     string   `json:"enc"`
	Integ   string   `json:"integ"`
	Ciphers []string `json:"ciphers"`
	Cmds    []string `json:"cmds"`
	Expires string   `json:"expires"`
	Ver     string   `json:"ver"`
}

type Agree struct {
	Sid    bool `json:"sid"`
	Key    bool `json:"key"`
	Policy bool `json:"policy"`
	Expiry bool `json:"expiry"`
	Lease  bool `json:"lease"`
}

// After is the specification's view of the sessions once a connection has used them.
type After struct {
	Claim     Agree `json:"claim"`
	Ft        Agree `json:"ft"`
	Untouched bool  `json:"untouched"`
}

type Out struct {
	Which  string `json:"which"` // "claim" | "filetrans" (connections naming the session id)
	Cmd    string `json:"cmd"`   // the command (connections by command)
	Dir    string `json:"dir"`
	Mapped bool   `json:"mapped"` // by command: the dialling end's command map has the command
	Found  bool   `json:"found"`
	Works  bool   `json:"works"`
	Peer   string `json:"peer"`
}

type Step struct {
	A       string   `json:"a"`
	Cfg     *Cfg     `json:"cfg,omitempty"`
	Rel     string   `json:"rel,omitempty"`
	Claim   []string `json:"claim,omitempty"`
	Public  []string `json:"public,omitempty"`
	Sid     []string `json:"sid,omitempty"`
	Info    []string `json:"info,omitempty"`
	Policy  *Policy  `json:"policy,omitempty"`
	Life    int64    `json:"life,omitempty"`
	Present bool     `json:"present,omitempty"`
	Agree   *Agree   `json:"agree,omitempty"`
	Out     *Out     `json:"out,omitempty"`
	After   *After   `json:"after,omitempty"`
}

type Scenario struct {
	Trace []Step `json:"trace"`
}

// Variant selects the concrete member of the abstract class "the importer
// holds the secret with one character changed".
type Variant struct {
	Pos int    `json:"pos"` // index into the 64-character secret
	Sub string `json:"sub"` // "hex" (another hex digit), "case", "nonhex", "hash", "rbracket", "lbracket"
	Seq int    `json:"seq"` // sequence number of the claim (keeps session ids of parallel runs apart)
}

// Diff is a conformance difference.
type Diff struct {
	Step   string // for by-command connections "ConnectCmd:<dialling end>:<command class>"
	Field  string
	Detail string
}

func cmdClass(atom string) string {
	switch atom {
	case "c0":
		return "zero"
	case "c1":
		return "one"
	case "c2147483647":
		return "max-int32"
	}
	return "ordinary"
}

func (d *Diff) Error() string { return fmt.Sprintf("%s: %s: %s", d.Step, d.Field, d.Detail) }

type Stats struct {
	RealCalls   int64
	Handshakes  int64
	EarlyAccept int64 // wrong-secret connections on which the server entered the handler before any key proof
}

const (
	bday        = 1700000000
	longVersion = "$CondorVersion: 25.4.0 2025-10-31 BuildID: 847437 PackageID: 25.4.0-0.847437 GitSHA: a6507f91 RC $"
	claimCmd    = 442
	reqCanary   = "C16-REQUEST-CANARY"
	repCanary   = "C16-REPLY-CANARY"
)

var atoms = map[string]string{
	"ip4:port": "127.0.0.1:9618", "ip4:port?addrs": "127.0.0.1:9618?addrs", "ip4-port&alias": "127.0.0.1-9618&alias",
	"host&noUDP": "host.example.org&noUDP", "ip4:port?sock": "127.0.0.1:9618?sock", ":port?noUDP": ":9618?noUDP",
	"ip4-port+": "127.0.0.1-9618+", "-port&noUDP": "-9618&noUDP", "bday": strconv.Itoa(bday),
	"c442": "442", "c443": "443", "c444": "444", "c60010": "60010",
	"c0": "0", "c1": "1", "c2147483647": "2147483647",
	"ip4:port?alias": "127.0.0.1:9618?alias", "ip4-port%23id7&noUDP": "127.0.0.1-9618%23id7&noUDP",
	"ip4:port?note": "127.0.0.1:9618?note",
}

var cmdInts = map[string]int{"c442": 442, "c443": 443, "c444": 444, "c60010": 60010,
	"c0": 0, "c1": 1, "c2147483647": 2147483647}

// the importer's own address: the minter files the session in its command map
// under this peer (MintClaimOptions.PeerAddr) for its outbound dials
const importerSinful = "<10.2.0.1:9618>"

// render turns the model's token text into the concrete string.
func render(tokens []string, secret, expires string, seq int) string {
	var b strings.Builder
	for i, t := range tokens {
		switch {
		case t == "secret-minted":
			b.WriteString(secret)
		case t == "seq":
			b.WriteString(strconv.Itoa(seq))
		case i >= 2 && tokens[i-1] == "=" && tokens[i-2] == "SessionExpires":
			b.WriteString(expires)
		default:
			if v, ok := atoms[t]; ok {
				b.WriteString(v)
			} else {
				b.WriteString(t)
			}
		}
	}
	return b.String()
}

func refKey(secret string) []byte {
	r := hkdf.New(sha256.New, []byte(secret), []byte("htcondor"), []byte("keygen"))
	k := make([]byte, 32)
	_, _ = io.ReadFull(r, k)
	return k
}

func attr(ad *classad.ClassAd, name string) string {
	if ad == nil {
		return "<nil policy>"
	}
	if s, ok := ad.EvaluateAttrString(name); ok {
		return "s:" + s
	}
	if n, ok := ad.EvaluateAttrInt(name); ok {
		return "i:" + strconv.FormatInt(n, 10)
	}
	if v, ok := ad.EvaluateAttrBool(name); ok {
		return "b:" + strconv.FormatBool(v)
	}
	return "<absent>"
}

var entryAttrs = []string{"Encryption", "Integrity", "CryptoMethods", "ValidCommands", "SessionExpires",
	"RemoteVersion", "Authenticated", "AuthMethods", "Sid", "SecUseSession", "Enact"}

func corrupt(secret string, v Variant) string {
	p := v.Pos % len(secret)
	c := secret[p]
	var r byte
	switch v.Sub {
	case "hex":
		r = "0123456789abcdef"[(strings.IndexByte("0123456789abcdef", c)+1)%16]
	case "case":
		if c >= 'a' && c <= 'f' {
			r = c - 32
		} else {
			r = "abcdef"[int(c-'0')%6] // a digit has no case: use a letter instead
			if r == c {
				r = 'f'
			}
		}
	case "nonhex":
		r = 'g'
	case "hash":
		r = '#'
	case "rbracket":
		r = ']'
	case "lbracket":
		r = '['
	default:
		r = 'x'
	}
	return secret[:p] + string(r) + secret[p+1:]
}

// GrammarBreaking: the substituted character is one of the claim id's own
// delimiters, so the corrupted text no longer has the shape the specification's
// "one character of the secret changed" stands for; only the end result
// (no working session) is compared for those.
func (v Variant) GrammarBreaking() bool {
	return v.Sub == "hash" || v.Sub == "rbracket" || v.Sub == "lbracket"
}

type connObs struct {
	cliErr        error
	cliResumed    bool
	wasResumed    bool
	cliEnc        bool
	cliMethod     string
	handlerRan    bool
	srvResumed    bool
	srvUser       string
	srvEnc        bool
	srvMethod     string
	srvAuthed     bool
	reqIntact     bool
	repIntact     bool
	fullHandshake bool
	reqLegible    bool
	repLegible    bool
}

// connect runs a real client / server handshake. With sid != "" the client
// names the session explicitly (SecurityConfig.SessionID); with sid == "" it
// names only the command and the peer, and the client's command map decides.
func connect(cliCache, srvCache *security.SessionCache, sid, sinful string, cmd int, st *Stats) connObs {
	var o connObs
	st.Handshakes++
	ctx, cancel := context.WithTimeout(context.Background(), 30*time.Second)
	defer cancel()
	srv := server.New(&security.SecurityConfig{
		AuthMethods:    []security.AuthMethod{security.AuthClaimToBe},
		Authentication: security.SecurityOptional,
		CryptoMethods:  []security.CryptoMethod{security.CryptoAES},
		Encryption:     security.SecurityOptional,
		SessionCache:   srvCache,
	})
	type hres struct {
		resumed, enc, authed bool
		user, method         string
		req                  string
		err                  error
	}
	hch := make(chan hres, 1)
	srv.Handle(cmd, func(ctx context.Context, c *server.Conn) error {
		r := hres{resumed: c.Negotiation.SessionResumed, enc: c.Stream.IsEncrypted(), user: c.Negotiation.User,
			method: string(c.Negotiation.NegotiatedAuth), authed: c.Negotiation.Authentication}
		r.req, r.err = message.NewMessageFromStream(c.Stream).GetString(ctx)
		if r.err == nil {
			m := message.NewMessageForStream(c.Stream)
			if err := m.PutString(ctx, repCanary); err == nil {
				_ = m.FinishMessage(ctx)
			}
		}
		hch <- r
		return r.err
	}, "DAEMON")
	cli, sconn := mempipe.C05Pipe("10.2.0.1:30001", "10.2.0.2:9618")
	done := make(chan error, 1)
	go func() { done <- srv.ServeConn(ctx, sconn) }()
	cs := stream.NewStream(cli)
	cs.SetPeerAddr(sinful)
	auth := security.NewAuthenticator(&security.SecurityConfig{Command: cmd, PeerName: sinful,
		SessionCache: cliCache, SessionID: sid}, cs)
	_ = cli.SetReadDeadline(time.Now().Add(20 * time.Second))
	neg, err := auth.ClientHandshake(ctx)
	o.cliErr = err
	if err == nil {
		o.cliResumed = neg.SessionResumed
		o.wasResumed = auth.WasSessionResumed()
		o.cliEnc = cs.IsEncrypted()
		o.cliMethod = string(neg.NegotiatedAuth)
		m := message.NewMessageForStream(cs)
		if e := m.PutString(ctx, reqCanary); e == nil {
			if e = m.FinishMessage(ctx); e == nil {
				if s, e2 := message.NewMessageFromStream(cs).GetString(ctx); e2 == nil && s == repCanary {
					o.repIntact = true
				}
			}
		}
	}
	_ = cli.Close()
	select {
	case <-done:
	case <-time.After(20 * time.Second):
	}
	select {
	case r := <-hch:
		o.handlerRan = true
		o.srvResumed, o.srvEnc, o.srvUser, o.srvMethod, o.srvAuthed = r.resumed, r.enc, r.user, r.method, r.authed
		o.reqIntact = r.err == nil && r.req == reqCanary
	default:
	}
	c2s, s2c := cli.Sent(), sconn.Sent()
	o.fullHandshake = bytes.Contains(c2s, []byte("NewSession")) || bytes.Contains(s2c, []byte("AuthMethodsList"))
	o.reqLegible = bytes.Contains(c2s, []byte(reqCanary))
	o.repLegible = bytes.Contains(s2c, []byte(repCanary))
	return o
}

var reExpires = regexp.MustCompile(`SessionExpires=(\d+);`)

func joinCmds(cmds []string) string {
	var out []string
	for _, c := range cmds {
		out = append(out, atoms[c])
	}
	return strings.Join(out, ",")
}

func wantAttr(v string, present bool) string {
	if !present {
		return "<absent>"
	}
	return "s:" + v
}

// Run executes one behaviour; nil = the real code conforms.
func Run(sc *Scenario, v Variant, st *Stats) *Diff {
	if len(sc.Trace) < 6 || sc.Trace[0].A != "Init" || sc.Trace[0].Cfg == nil {
		return &Diff{"Init", "shape", "unexpected behaviour shape"}
	}
	cfg, rel := sc.Trace[0].Cfg, sc.Trace[0].Rel
	mint, imp, impFT := sc.Trace[1], sc.Trace[2], sc.Trace[3]
	seq := v.Seq
	cacheA, cacheB := security.NewSessionCache(), security.NewSessionCache()

	// ---- Mint --------------------------------------------------------------
	sinful := render(mint.Sid[:indexOf(mint.Sid, ">")+1], "", "", seq)
	opts := security.MintClaimOptions{Sinful: sinful, Birthdate: bday, SequenceNum: seq, PeerAddr: importerSinful,
		Encryption: &cfg.Enc, Integrity: &cfg.Integ, CryptoMethods: strings.Join(cfg.Ciphers, ","),
		Lifetime: time.Duration(cfg.Life) * time.Second}
	switch cfg.Ver {
	case "short":
		opts.RemoteVersion = "25.4.0"
	case "long":
		opts.RemoteVersion = longVersion
	}
	for _, c := range cfg.Cmds {
		opts.ValidCommands = append(opts.ValidCommands, cmdInts[c])
	}
	t0 := time.Now()
	st.RealCalls++
	m, err := security.MintClaimSession(cacheA, opts)
	t1 := time.Now()
	if err != nil {
		return &Diff{"Mint", "error", err.Error()}
	}
	claim := m.ClaimID()
	// the secret: the 64 lower-case hex characters MintClaimSession appended
	secret := ""
	if len(claim) >= 64 {
		secret = claim[len(claim)-64:]
	}
	if secret == "" || strings.Trim(secret, "0123456789abcdef") != "" {
		// The handed-out text does not even end in a secret. Say what that means in
		// the property's terms: can the other end import it at all?
		st.RealCalls++
		if _, err := security.ImportClaimSession(cacheB, claim, security.ClaimSessionOptions{PeerAddr: sinful}); err != nil {
			return &Diff{"Import", "handed-out-claim", fmt.Sprintf("the claim id handed out by MintClaimSession cannot be imported (%v); it does not have the shape <sinful>#bday#seq#[info]secret: tail %q", err, tailOf(claim, 40))}
		}
		return &Diff{"Mint", "claim-text", fmt.Sprintf("the claim id does not end in the 64-character secret: tail %q", tailOf(claim, 40))}
	}
	expires := ""
	if mm := reExpires.FindStringSubmatch(claim); mm != nil {
		expires = mm[1]
	}
	if (cfg.Life != 0) != (expires != "") {
		return &Diff{"Mint", "expires", fmt.Sprintf("lifetime %d but SessionExpires=%q in the claim id", cfg.Life, expires)}
	}
	if expires != "" {
		n, _ := strconv.ParseInt(expires, 10, 64)
		if n < t0.Unix()+cfg.Life || n > t1.Unix()+cfg.Life+1 {
			return &Diff{"Mint", "expires", fmt.Sprintf("SessionExpires=%d, expected now+%d = %d..%d", n, cfg.Life, t0.Unix()+cfg.Life, t1.Unix()+cfg.Life+1)}
		}
	}
	if want := render(mint.Claim, secret, expires, seq); claim != want {
		return &Diff{"Mint", "claim-text", fmt.Sprintf("claim id %q, specification renders %q", redact(claim, secret), redact(want, secret))}
	}
	wantSid := render(mint.Sid, secret, expires, seq)
	if m.SessionID() != wantSid {
		return &Diff{"Mint", "session-id", fmt.Sprintf("SessionID() %q, specification %q", m.SessionID(), wantSid)}
	}
	// PublicFormHidesSecret
	pub := m.PublicClaimID()
	if want := render(mint.Public, secret, expires, seq); pub != want {
		return &Diff{"Mint", "public-text", fmt.Sprintf("PublicClaimID() %q, specification %q", redact(pub, secret), want)}
	}
	for i := 0; i+8 <= len(secret); i++ {
		if strings.Contains(pub, secret[i:i+8]) {
			return &Diff{"Mint", "public-leaks-secret", "PublicClaimID() contains part of the secret"}
		}
	}
	// PolicyRoundTrips: the strict parser splits the text into exactly the parts it was built from
	cid := security.ParseClaimIDStrict(claim)
	wantInfo := render(mint.Info, secret, expires, seq)
	if cid.SecSessionID() != wantSid || cid.SecSessionInfo() != wantInfo || cid.SecSessionKey() != secret {
		return &Diff{"Mint", "parse", fmt.Sprintf("ParseClaimIDStrict: id %q info %q key-ok %v; specification: id %q info %q",
			cid.SecSessionID(), cid.SecSessionInfo(), cid.SecSessionKey() == secret, wantSid, wantInfo)}
	}
	if cid.PublicClaimID() != pub {
		return &Diff{"Mint", "public-text", fmt.Sprintf("ClaimID.PublicClaimID() %q differs from MintedClaim.PublicClaimID() %q", redact(cid.PublicClaimID(), secret), pub)}
	}
	st.RealCalls++
	pol, err := security.ImportSecSessionInfo(cid.SecSessionInfo())
	if err != nil {
		return &Diff{"Mint", "policy-parse", err.Error()}
	}
	if d := comparePolicy("Mint", pol, mint.Policy, expires); d != nil {
		return d
	}
	st.RealCalls++
	re, err := security.ExportSecSessionInfo(pol)
	if err != nil || re != cid.SecSessionInfo() {
		return &Diff{"Mint", "policy-rerender", fmt.Sprintf("ExportSecSessionInfo(ImportSecSessionInfo(info)) = %q (%v), info = %q", re, err, cid.SecSessionInfo())}
	}
	eA, ok := cacheA.Lookup(wantSid)
	if !ok {
		return &Diff{"Mint", "cache", "minter's cache has no entry under the session id"}
	}
	if eA.KeyInfo() == nil || !bytes.Equal(eA.KeyInfo().Data, refKey(secret)) {
		return &Diff{"Mint", "key", "minter's key is not HKDF-SHA256(secret, salt htcondor, info keygen)"}
	}
	wantExp := time.Time{}
	if expires != "" {
		n, _ := strconv.ParseInt(expires, 10, 64)
		wantExp = time.Unix(n, 0)
	}
	if !eA.Expiration().Equal(wantExp) {
		return &Diff{"Mint", "expiry", fmt.Sprintf("minter's entry expires %v, claim id says %v", eA.Expiration(), wantExp)}
	}

	// ---- Import ------------------------------------------------------------
	held := claim
	if rel == "diff" {
		held = claim[:len(claim)-64] + corrupt(secret, v)
	}
	st.RealCalls++
	sidB, errB := security.ImportClaimSession(cacheB, held, security.ClaimSessionOptions{PeerAddr: sinful})
	strict := rel == "same" || !v.GrammarBreaking()
	var eB *security.SessionEntry
	if errB == nil {
		eB, _ = cacheB.Lookup(sidB)
	}
	if strict {
		if (errB == nil && eB != nil) != imp.Present {
			return &Diff{"Import", "present", fmt.Sprintf("ImportClaimSession error %v, specification expects an entry: %v", errB, imp.Present)}
		}
		if imp.Present {
			if (sidB == wantSid) != imp.Agree.Sid {
				return &Diff{"Import", "session-id", fmt.Sprintf("importer's session id %q, minter's %q", sidB, wantSid)}
			}
			keyEq := eB.KeyInfo() != nil && bytes.Equal(eB.KeyInfo().Data, eA.KeyInfo().Data)
			if keyEq != imp.Agree.Key {
				return &Diff{"Import", "key", fmt.Sprintf("keys equal = %v, specification: %v", keyEq, imp.Agree.Key)}
			}
			if eB.KeyInfo() != nil && eB.KeyInfo().Protocol != eA.KeyInfo().Protocol {
				return &Diff{"Import", "key-protocol", fmt.Sprintf("%q vs %q", eB.KeyInfo().Protocol, eA.KeyInfo().Protocol)}
			}
			polEq := true
			var where string
			for _, n := range entryAttrs {
				if attr(eA.Policy(), n) != attr(eB.Policy(), n) {
					polEq = false
					where = fmt.Sprintf("%s: minter %s, importer %s", n, attr(eA.Policy(), n), attr(eB.Policy(), n))
				}
			}
			if polEq != imp.Agree.Policy {
				return &Diff{"Import", "policy", "cache entries disagree: " + where}
			}
			if eA.Expiration().Equal(eB.Expiration()) != imp.Agree.Expiry {
				return &Diff{"Import", "expiry", fmt.Sprintf("minter %v, importer %v", eA.Expiration(), eB.Expiration())}
			}
			if (eA.Lease() == eB.Lease()) != imp.Agree.Lease {
				return &Diff{"Import", "lease", fmt.Sprintf("minter's entry has lease %v, importer's %v", eA.Lease(), eB.Lease())}
			}
			// and both are what was asked for
			if d := compareEntryPolicy("Import", eB.Policy(), imp.Policy, expires); d != nil {
				return d
			}
			if d := compareEntryPolicy("Mint", eA.Policy(), mint.Policy, expires); d != nil {
				return d
			}
		}
	}

	// ---- ImportFT (both ends derive the file-transfer session) -------------
	st.RealCalls += 2
	ftA, errFA := security.ImportFileTransferSession(cacheA, claim, security.ClaimSessionOptions{PeerFQU: security.SubmitSideMatchSessionFQU})
	ftB, errFB := security.ImportFileTransferSession(cacheB, held, security.ClaimSessionOptions{PeerAddr: sinful})
	if errFA != nil {
		return &Diff{"ImportFT", "error", errFA.Error()}
	}
	wantFT := render(impFT.Sid, secret, expires, seq)
	if ftA != wantFT {
		return &Diff{"ImportFT", "session-id", fmt.Sprintf("file-transfer session id %q, specification %q", ftA, wantFT)}
	}
	if strict {
		if (errFB == nil) != impFT.Present {
			return &Diff{"ImportFT", "present", fmt.Sprintf("importer: %v, specification expects an entry: %v", errFB, impFT.Present)}
		}
		if impFT.Present {
			fa, _ := cacheA.Lookup(ftA)
			fb, okb := cacheB.Lookup(ftB)
			if fa == nil || !okb || fb == nil {
				return &Diff{"ImportFT", "cache", "file-transfer entry missing"}
			}
			if (ftA == ftB) != impFT.Agree.Sid {
				return &Diff{"ImportFT", "session-id", fmt.Sprintf("%q vs %q", ftA, ftB)}
			}
			if bytes.Equal(fa.KeyInfo().Data, fb.KeyInfo().Data) != impFT.Agree.Key {
				return &Diff{"ImportFT", "key", "file-transfer keys equal differs from the specification"}
			}
			if !bytes.Equal(fa.KeyInfo().Data, refKey(secret)) {
				return &Diff{"ImportFT", "key", "file-transfer key is not derived from the claim secret"}
			}
			for _, n := range entryAttrs {
				if n == "Sid" {
					continue
				}
				if attr(fa.Policy(), n) != attr(fb.Policy(), n) {
					return &Diff{"ImportFT", "policy", fmt.Sprintf("%s: %s vs %s", n, attr(fa.Policy(), n), attr(fb.Policy(), n))}
				}
			}
			if fa.Expiration().Equal(fb.Expiration()) != impFT.Agree.Expiry || (fa.Lease() == fb.Lease()) != impFT.Agree.Lease {
				return &Diff{"ImportFT", "expiry", fmt.Sprintf("file-transfer entries: expiry %v / %v, lease %v / %v", fa.Expiration(), fb.Expiration(), fa.Lease(), fb.Lease())}
			}
			if attr(fa.Policy(), "Encryption") != "s:YES" || attr(fa.Policy(), "Integrity") != "s:YES" {
				return &Diff{"ImportFT", "policy", "file-transfer session must have encryption and integrity on"}
			}
		}
	}

	// ---- Connect(claim), Connect(filetrans), ConnectByCommand(cmd, dir)... ----
	for k := 4; k < len(sc.Trace); k++ {
		exp := sc.Trace[k].Out
		if exp == nil {
			return &Diff{"Connect", "shape", "missing expectation"}
		}
		byCmd := sc.Trace[k].A == "ConnectCmd"
		sid := wantSid
		if exp.Which == "filetrans" {
			sid = wantFT
		}
		cmd, peer := claimCmd, sinful
		cli, srv := cacheB, cacheA
		wantUser := security.SubmitSideMatchSessionFQU // what the minter attributes to its peer
		if exp.Dir == "minterDials" {
			cli, srv = cacheA, cacheB
			wantUser = security.ExecuteSideMatchSessionFQU
		}
		name := "Connect-" + exp.Which
		if byCmd {
			// only the command and the peer's address are named: the command map decides
			name, sid, cmd = "ConnectCmd:"+exp.Dir+":"+cmdClass(exp.Cmd), "", cmdInts[exp.Cmd]
			if exp.Dir == "minterDials" {
				peer = importerSinful
			}
		}
		ids := [4]string{wantSid, wantSid, wantFT, wantFT}
		caches := [4]*security.SessionCache{cacheA, cacheB, cacheA, cacheB}
		var before [4]snapshot
		for i := range before {
			before[i] = snap(caches[i], ids[i])
		}
		o := connect(cli, srv, sid, peer, cmd, st)
		// SameSession in every state: using the session must leave it one session
		if aft := sc.Trace[k].After; strict && aft != nil {
			var after [4]snapshot
			for i := range after {
				after[i] = snap(caches[i], ids[i])
			}
			who := [4]string{"minter's claim session", "importer's claim session", "minter's file-transfer session", "importer's file-transfer session"}
			if aft.Untouched {
				for i := range after {
					if f, d := before[i].diff(after[i]); f != "" {
						return &Diff{name, "after-" + f, fmt.Sprintf("the connection changed the %s: %s", who[i], d)}
					}
				}
			}
			for _, pr := range []struct {
				a, b  int
				agree Agree
				what  string
			}{{0, 1, aft.Claim, "claim"}, {2, 3, aft.Ft, "file-transfer"}} {
				x, y := after[pr.a], after[pr.b]
				if !x.present || !y.present {
					continue
				}
				if x.exp.Equal(y.exp) != pr.agree.Expiry {
					return &Diff{name, "after-expiry", fmt.Sprintf("after the connection the two ends' %s sessions expire at %v (minter) and %v (importer)", pr.what, x.exp, y.exp)}
				}
				if (x.lease == y.lease) != pr.agree.Lease {
					return &Diff{name, "after-lease", fmt.Sprintf("after the connection the two ends' %s sessions have lease %v (minter) and %v (importer)", pr.what, x.lease, y.lease)}
				}
				if bytes.Equal(x.key, y.key) != pr.agree.Key || (x.id == y.id) != pr.agree.Sid {
					return &Diff{name, "after-key", fmt.Sprintf("after the connection the two ends' %s sessions differ in id / key other than the specification says", pr.what)}
				}
				if pr.what == "claim" && (x.attrs == y.attrs) != pr.agree.Policy {
					return &Diff{name, "after-policy", fmt.Sprintf("after the connection the policies are %s (minter) and %s (importer)", x.attrs, y.attrs)}
				}
			}
		}
		works := o.cliErr == nil && o.handlerRan && o.reqIntact && o.repIntact
		if byCmd {
			// a dial by command "works" when it rides the claim session; data that
			// flowed over a freshly negotiated session is the clause's failure
			resumed := o.cliResumed && o.wasResumed && o.srvResumed && !o.fullHandshake
			if works && !resumed && exp.Works {
				return &Diff{name, "resumed", fmt.Sprintf("a dial for listed command %s (specification: filed in the dialling end's command map = %v) did not resume the claim session but negotiated afresh: client resumed %v/%v, server resumed %v, full-handshake traffic %v, server sees user %q method %q",
					atoms[exp.Cmd], exp.Mapped, o.cliResumed, o.wasResumed, o.srvResumed, o.fullHandshake, o.srvUser, o.srvMethod)}
			}
			works = works && resumed
		}
		if works != exp.Works {
			return &Diff{name, "works", fmt.Sprintf("application data flowed = %v (client error %v, handler ran %v, request intact %v, reply intact %v), specification: %v",
				works, o.cliErr, o.handlerRan, o.reqIntact, o.repIntact, exp.Works)}
		}
		if exp.Works {
			if !o.cliResumed || !o.wasResumed || !o.srvResumed || o.fullHandshake {
				return &Diff{name, "resumed", fmt.Sprintf("not a resumption: client resumed %v/%v, server resumed %v, full-handshake traffic %v", o.cliResumed, o.wasResumed, o.srvResumed, o.fullHandshake)}
			}
			if o.srvUser != wantUser {
				return &Diff{name, "peer", fmt.Sprintf("server attributes %q, specification %s (%q)", o.srvUser, exp.Peer, wantUser)}
			}
			if !o.srvAuthed || o.srvMethod != security.AuthMethodMatch {
				return &Diff{name, "authenticated", fmt.Sprintf("server sees authenticated=%v method=%q", o.srvAuthed, o.srvMethod)}
			}
			if !o.cliEnc || !o.srvEnc || o.reqLegible || o.repLegible {
				return &Diff{name, "encrypted", fmt.Sprintf("session keyed on both ends but client enc=%v server enc=%v request legible=%v reply legible=%v", o.cliEnc, o.srvEnc, o.reqLegible, o.repLegible)}
			}
		} else if o.handlerRan {
			st.EarlyAccept++
		}
	}
	return nil
}

// snapshot of a cache entry: everything SameSession speaks about.
type snapshot struct {
	present bool
	id      string
	key     []byte
	proto   string
	attrs   string
	exp     time.Time
	lease   time.Duration
}

func snap(c *security.SessionCache, id string) snapshot {
	e, ok := c.Lookup(id)
	if !ok || e == nil {
		return snapshot{}
	}
	s := snapshot{present: true, id: e.ID(), exp: e.Expiration(), lease: e.Lease()}
	if k := e.KeyInfo(); k != nil {
		s.key = append([]byte(nil), k.Data...)
		s.proto = k.Protocol
	}
	var b strings.Builder
	for _, n := range entryAttrs {
		if n == "Sid" {
			continue
		}
		fmt.Fprintf(&b, "%s=%s;", n, attr(e.Policy(), n))
	}
	s.attrs = b.String()
	return s
}

// diff names the first field in which two snapshots of one entry differ.
func (s snapshot) diff(t snapshot) (field, detail string) {
	switch {
	case s.present != t.present:
		return "present", fmt.Sprintf("entry present %v -> %v", s.present, t.present)
	case !s.present:
		return "", ""
	case s.id != t.id:
		return "id", fmt.Sprintf("%q -> %q", s.id, t.id)
	case !bytes.Equal(s.key, t.key) || s.proto != t.proto:
		return "key", "key material changed"
	case s.attrs != t.attrs:
		return "policy", fmt.Sprintf("%s -> %s", s.attrs, t.attrs)
	case !s.exp.Equal(t.exp):
		return "expiry", fmt.Sprintf("expiry %v -> %v", s.exp, t.exp)
	case s.lease != t.lease:
		return "lease", fmt.Sprintf("lease %v -> %v", s.lease, t.lease)
	}
	return "", ""
}

func tailOf(s string, n int) string {
	if len(s) > n {
		return s[len(s)-n:]
	}
	return s
}

func indexOf(s []string, t string) int {
	for i, x := range s {
		if x == t {
			return i
		}
	}
	return -1
}

func redact(s, secret string) string {
	if secret == "" {
		return s
	}
	return strings.ReplaceAll(s, secret, "<secret>")
}

// comparePolicy: the policy parsed from the claim id's text vs the specification's.
func comparePolicy(step string, ad *classad.ClassAd, p *Policy, expires string) *Diff {
	if p == nil {
		return &Diff{step, "policy", "no expectation"}
	}
	checks := []struct{ name, want string }{
		{"Encryption", wantAttr(p.Enc, p.Enc != "absent")},
		{"Integrity", wantAttr(p.Integ, p.Integ != "absent")},
		{"CryptoMethods", wantAttr(strings.Join(p.Ciphers, ","), len(p.Ciphers) > 0)},
		{"ValidCommands", wantAttr(joinCmds(p.Cmds), len(p.Cmds) > 0)},
		{"SessionExpires", wantAttr(expires, p.Expires != "never")},
		{"RemoteVersion", wantAttr(p.Ver, p.Ver != "none")},
	}
	for _, c := range checks {
		if got := attr(ad, c.name); got != c.want {
			return &Diff{step, "policy-" + c.name, fmt.Sprintf("parsed policy has %s = %s, specification %s", c.name, got, c.want)}
		}
	}
	return nil
}

// compareEntryPolicy: a cache entry's policy vs the specification's. The entry
// records the cipher the session is actually keyed on (AES-GCM) in place of the list.
func compareEntryPolicy(step string, ad *classad.ClassAd, p *Policy, expires string) *Diff {
	if p == nil {
		return nil
	}
	checks := []struct{ name, want string }{
		{"Encryption", wantAttr(p.Enc, p.Enc != "absent")},
		{"Integrity", wantAttr(p.Integ, p.Integ != "absent")},
		{"ValidCommands", wantAttr(joinCmds(p.Cmds), len(p.Cmds) > 0)},
		{"SessionExpires", wantAttr(expires, p.Expires != "never")},
		{"RemoteVersion", wantAttr(p.Ver, p.Ver != "none")},
		{"CryptoMethods", "s:AESGCM"},
		{"Authenticated", "b:true"},
	}
	for _, c := range checks {
		if got := attr(ad, c.name); got != c.want {
			return &Diff{step, "entry-" + c.name, fmt.Sprintf("cache entry has %s = %s, specification %s", c.name, got, c.want)}
		}
	}
	return nil
}

// Signature: abstract classes only.
func Signature(sc *Scenario, v Variant, d *Diff) map[string]string {
	cfg := sc.Trace[0].Cfg
	sig := map[string]string{"spec": "ClaimSession", "action": d.Step, "field": d.Field}
	switch d.Field {
	case "claim-text", "session-id", "parse", "public-text", "public-leaks-secret", "present", "handed-out-claim":
		sig["addr"] = cfg.Addr
	}
	if strings.HasPrefix(d.Step, "Connect") {
		sig["dir"] = cfg.Dir
	}
	if p := strings.Split(d.Step, ":"); len(p) == 3 && p[0] == "ConnectCmd" {
		sig["action"], sig["dir"], sig["command"] = p[0], p[1], p[2]
	}
	// minting, leases and what a connection does to the entries do not depend on what the importer holds
	if d.Step != "Mint" && d.Field != "lease" && d.Field != "handed-out-claim" && !strings.HasPrefix(d.Field, "after-") {
		sig["secret"] = sc.Trace[0].Rel
		if sc.Trace[0].Rel == "diff" {
			sig["corruption"] = v.Sub
		}
	}
	return sig
}

func Key(sc *Scenario, v Variant) string {
	b, _ := json.Marshal(struct {
		C *Cfg
		R string
		V Variant
	}{sc.Trace[0].Cfg, sc.Trace[0].Rel, Variant{Pos: v.Pos, Sub: v.Sub}})
	return string(b)
}
