// Package tlc runs the TLC model checker on the specifications in /verif/spec
// and parses what it prints: state counts, violated properties, scenario
// (behaviour) lines emitted by Gen_* configurations, and trace-validation
// verdicts.
package tlc

import (
	"bufio"
	"bytes"
	"context"
	"encoding/json"
	"fmt"
	"os"
	"os/exec"
	"path/filepath"
	"regexp"
	"strconv"
	"strings"
	"sync/atomic"
	"time"
)

type Options struct {
	Workers  int           // default 8
	Timeout  time.Duration // default 30 min
	Simulate string        // e.g. "num=500" → -simulate num=500
	Depth    int           // -depth for simulation
	Seed     int64         // -seed for simulation
	Env      []string      // extra environment (TRACE_FILE=…)
	DFS      bool          // depth-first queue (StateDeque)
	Deadlock bool          // check deadlock (default off: -deadlock given)
	Defines  map[string]string
}

type Result struct {
	Generated int64
	Distinct  int64
	Depth     int
	OK        bool   // "No error has been found" (or simulation finished without error)
	Violated  string // name of the violated invariant / property, "" if none
	ErrorText string // first Error: block
	Scenarios []json.RawMessage
	Output    string
	WallS     float64
	PostFalse bool // a POSTCONDITION evaluated to FALSE
}

var (
	reStates  = regexp.MustCompile(`(\d+) states generated, (\d+) distinct states found`)
	reDepth   = regexp.MustCompile(`depth of the complete state graph search is (\d+)`)
	reInv     = regexp.MustCompile(`Invariant (\S+) is violated`)
	reProp    = regexp.MustCompile(`(?:Action property|Temporal properties|property) (\S+)? ?(?:is|were) violated`)
	rePost    = regexp.MustCompile(`(?i)postcondition.*(false|violated)`)
	runSerial int64
)

// Run copies the spec directory to a scratch dir below tmp and runs TLC there.
func Run(specDir, tmp, module, cfg string, o Options) (*Result, error) {
	if o.Workers == 0 {
		o.Workers = 8
	}
	if o.Timeout == 0 {
		o.Timeout = 30 * time.Minute
	}
	n := atomic.AddInt64(&runSerial, 1)
	work := filepath.Join(tmp, fmt.Sprintf("tlc-%d-%d", os.Getpid(), n))
	if err := os.MkdirAll(work, 0o755); err != nil {
		return nil, err
	}
	defer os.RemoveAll(work)
	ents, err := os.ReadDir(specDir)
	if err != nil {
		return nil, err
	}
	for _, e := range ents {
		if e.IsDir() {
			continue
		}
		b, err := os.ReadFile(filepath.Join(specDir, e.Name()))
		if err != nil {
			return nil, err
		}
		if err := os.WriteFile(filepath.Join(work, e.Name()), b, 0o644); err != nil {
			return nil, err
		}
	}
	args := []string{"-workers", strconv.Itoa(o.Workers), "-metadir", filepath.Join(work, "meta"), "-config", cfg}
	if !o.Deadlock {
		args = append(args, "-deadlock")
	}
	if o.Simulate != "" {
		args = append(args, "-simulate", o.Simulate)
		if o.Depth > 0 {
			args = append(args, "-depth", strconv.Itoa(o.Depth))
		}
		args = append(args, "-seed", strconv.FormatInt(o.Seed, 10))
	}
	args = append(args, module)
	ctx, cancel := context.WithTimeout(context.Background(), o.Timeout)
	defer cancel()
	cmd := exec.CommandContext(ctx, "tlc", args...)
	cmd.Dir = work
	cmd.Env = append(os.Environ(), o.Env...)
	// TLC creates an (empty) tlc-<random> directory under java.io.tmpdir on every start: keep it in the scratch dir
	jopts := "-Djava.io.tmpdir=" + work
	if o.DFS {
		jopts += " -Dtlc2.tool.queue.IStateQueue=StateDeque"
	}
	for _, e := range o.Env { // a caller's own JVM options (heap size) are kept
		if v, ok := strings.CutPrefix(e, "JAVA_TOOL_OPTIONS="); ok {
			jopts += " " + v
		}
	}
	cmd.Env = append(cmd.Env, "JAVA_TOOL_OPTIONS="+jopts)
	var out bytes.Buffer
	cmd.Stdout = &out
	cmd.Stderr = &out
	t0 := time.Now()
	runErr := cmd.Run()
	res := &Result{Output: out.String(), WallS: time.Since(t0).Seconds()}
	if ctx.Err() != nil {
		return res, fmt.Errorf("tlc %s/%s: timeout after %s", module, cfg, o.Timeout)
	}
	sc := bufio.NewScanner(bytes.NewReader(out.Bytes()))
	sc.Buffer(make([]byte, 1<<20), 1<<28)
	inErr := false
	for sc.Scan() {
		line := sc.Text()
		if strings.HasPrefix(line, `"{\"trace\":`) || strings.HasPrefix(line, `"{\"scn\":`) {
			var s string
			if err := json.Unmarshal([]byte(line), &s); err == nil {
				res.Scenarios = append(res.Scenarios, json.RawMessage(s))
			}
			continue
		}
		if m := reStates.FindStringSubmatch(line); m != nil {
			res.Generated, _ = strconv.ParseInt(m[1], 10, 64)
			res.Distinct, _ = strconv.ParseInt(m[2], 10, 64)
		}
		if m := reDepth.FindStringSubmatch(line); m != nil {
			res.Depth, _ = strconv.Atoi(m[1])
		}
		if m := reInv.FindStringSubmatch(line); m != nil && res.Violated == "" {
			res.Violated = m[1]
		}
		if strings.Contains(line, "violated") && res.Violated == "" {
			if m := reProp.FindStringSubmatch(line); m != nil {
				res.Violated = strings.TrimSpace(m[1])
				if res.Violated == "" {
					res.Violated = "property"
				}
			}
		}
		if rePost.MatchString(line) {
			res.PostFalse = true
		}
		if strings.HasPrefix(line, "Error:") {
			inErr = true
			if res.ErrorText == "" {
				res.ErrorText = line
			}
		} else if inErr && res.ErrorText != "" && len(res.ErrorText) < 2000 && !strings.HasPrefix(line, "\"{") {
			res.ErrorText += "\n" + line
		}
		if strings.Contains(line, "No error has been found") {
			res.OK = true
		}
	}
	if o.Simulate != "" && res.ErrorText == "" && res.Violated == "" {
		res.OK = true
	}
	if res.PostFalse || res.Violated != "" || res.ErrorText != "" {
		res.OK = false
	}
	if !res.OK && res.ErrorText == "" && res.Violated == "" && !res.PostFalse {
		tail := res.Output
		if len(tail) > 1500 {
			tail = tail[len(tail)-1500:]
		}
		return res, fmt.Errorf("tlc %s/%s did not complete (%v): %s", module, cfg, runErr, tail)
	}
	return res, nil
}

// WriteNDJSON writes events as an ndjson trace file.
func WriteNDJSON(path string, events []any) error {
	f, err := os.Create(path)
	if err != nil {
		return err
	}
	defer f.Close()
	w := bufio.NewWriter(f)
	enc := json.NewEncoder(w)
	for _, e := range events {
		if err := enc.Encode(e); err != nil {
			return err
		}
	}
	return w.Flush()
}
