package peer

// Reference encoder / decoder for CEDAR typed values and ClassAds-as-strings
// (kept in this package rather than in refcodec so that its generic names cannot
// clash with other builders' additions there). Written from protocol/CEDAR_PROTOCOL.md
// ("Type Serialization", "Strings") and the HTCondor format comments:
//
//   * every integer is 8 bytes, big-endian, two's complement;
//   * a string is its bytes followed by one NUL; on a stream that is currently
//     encrypting it is preceded by its length INCLUDING the NUL, itself sent as
//     an integer (8 bytes);
//   * a ClassAd is: integer N, N strings "Name = Expr", string MyType, string
//     TargetType (both may be empty).
//
// Nothing here imports the code under test or the classad library.

import (
	"encoding/binary"
	"errors"
	"fmt"
	"strconv"
	"strings"
)

// AppendInt appends the wire form of an integer.
func AppendInt(b []byte, v int64) []byte {
	return binary.BigEndian.AppendUint64(b, uint64(v))
}

// AppendString appends the wire form of a string; enc selects the layout used
// while the stream is encrypting (length prefix).
func AppendString(b []byte, s string, enc bool) []byte {
	if i := strings.IndexByte(s, 0); i >= 0 {
		s = s[:i]
	}
	if enc {
		b = AppendInt(b, int64(len(s)+1))
	}
	b = append(b, s...)
	return append(b, 0)
}

// Attr is one ClassAd attribute: a name and the TEXT of its expression.
type Attr struct {
	Name string
	Expr string
}

// Ad is an ordered attribute list (what travels as a ClassAd).
type Ad struct {
	Attrs  []Attr
	MyType string
	Target string
}

// Quote renders a Go string as a ClassAd string literal.
func Quote(s string) string {
	var b strings.Builder
	b.WriteByte('"')
	for i := 0; i < len(s); i++ {
		switch s[i] {
		case '"', '\\':
			b.WriteByte('\\')
		}
		b.WriteByte(s[i])
	}
	b.WriteByte('"')
	return b.String()
}

// SetStr / SetInt / SetBool replace or append an attribute.
func (a *Ad) set(name, expr string) {
	for i := range a.Attrs {
		if strings.EqualFold(a.Attrs[i].Name, name) {
			a.Attrs[i].Expr = expr
			return
		}
	}
	a.Attrs = append(a.Attrs, Attr{name, expr})
}
func (a *Ad) SetStr(name, v string) { a.set(name, Quote(v)) }
func (a *Ad) SetInt(name string, v int64) {
	a.set(name, strconv.FormatInt(v, 10))
}
func (a *Ad) SetBool(name string, v bool) {
	if v {
		a.set(name, "true")
	} else {
		a.set(name, "false")
	}
}
func (a *Ad) SetRaw(name, expr string) { a.set(name, expr) }

// Delete removes an attribute.
func (a *Ad) Delete(name string) {
	out := a.Attrs[:0]
	for _, at := range a.Attrs {
		if !strings.EqualFold(at.Name, name) {
			out = append(out, at)
		}
	}
	a.Attrs = out
}

// Raw returns the expression text of an attribute.
func (a *Ad) Raw(name string) (string, bool) {
	for _, at := range a.Attrs {
		if strings.EqualFold(at.Name, name) {
			return at.Expr, true
		}
	}
	return "", false
}

// Str returns the value of an attribute that is a string literal.
func (a *Ad) Str(name string) (string, bool) {
	e, ok := a.Raw(name)
	if !ok {
		return "", false
	}
	e = strings.TrimSpace(e)
	if len(e) < 2 || e[0] != '"' || e[len(e)-1] != '"' {
		return "", false
	}
	var b strings.Builder
	in := e[1 : len(e)-1]
	for i := 0; i < len(in); i++ {
		if in[i] == '\\' && i+1 < len(in) {
			i++
		}
		b.WriteByte(in[i])
	}
	return b.String(), true
}

// Int returns the value of an attribute that is an integer literal.
func (a *Ad) Int(name string) (int64, bool) {
	e, ok := a.Raw(name)
	if !ok {
		return 0, false
	}
	v, err := strconv.ParseInt(strings.TrimSpace(e), 10, 64)
	return v, err == nil
}

// Bool returns the value of an attribute that is a boolean literal.
func (a *Ad) Bool(name string) (bool, bool) {
	e, ok := a.Raw(name)
	if !ok {
		return false, false
	}
	switch strings.ToLower(strings.TrimSpace(e)) {
	case "true":
		return true, true
	case "false":
		return false, true
	}
	return false, false
}

func (a Ad) String() string {
	var parts []string
	for _, at := range a.Attrs {
		parts = append(parts, at.Name+" = "+at.Expr)
	}
	return "[" + strings.Join(parts, "; ") + "]"
}

// AppendAd appends the wire form of the ad.
func AppendAd(b []byte, a Ad, enc bool) []byte {
	b = AppendInt(b, int64(len(a.Attrs)))
	for _, at := range a.Attrs {
		b = AppendString(b, at.Name+" = "+at.Expr, enc)
	}
	b = AppendString(b, a.MyType, enc)
	return AppendString(b, a.Target, enc)
}

// Reader decodes typed values from one message payload.
type Reader struct {
	B   []byte
	Off int
	Enc bool // the payload was sent while the stream was encrypting
}

var ErrShort = errors.New("peer: message too short")

func (r *Reader) Left() int { return len(r.B) - r.Off }

func (r *Reader) Int() (int64, error) {
	if r.Left() < 8 {
		return 0, ErrShort
	}
	v := int64(binary.BigEndian.Uint64(r.B[r.Off:]))
	r.Off += 8
	return v, nil
}

func (r *Reader) String() (string, error) {
	if r.Enc {
		n, err := r.Int()
		if err != nil {
			return "", err
		}
		if n < 0 || int(n) > r.Left() {
			return "", fmt.Errorf("peer: string length %d exceeds message", n)
		}
		s := r.B[r.Off : r.Off+int(n)]
		r.Off += int(n)
		if len(s) > 0 && s[len(s)-1] == 0 {
			s = s[:len(s)-1]
		}
		return string(s), nil
	}
	for i := r.Off; i < len(r.B); i++ {
		if r.B[i] == 0 {
			s := string(r.B[r.Off:i])
			r.Off = i + 1
			return s, nil
		}
	}
	return "", fmt.Errorf("peer: unterminated string")
}

// ReadAd decodes a ClassAd.
func (r *Reader) ReadAd() (Ad, error) {
	var a Ad
	n, err := r.Int()
	if err != nil {
		return a, err
	}
	if n < 0 || n > 10000 {
		return a, fmt.Errorf("peer: implausible attribute count %d", n)
	}
	for i := int64(0); i < n; i++ {
		s, err := r.String()
		if err != nil {
			return a, err
		}
		k := strings.Index(s, "=")
		if k < 0 {
			return a, fmt.Errorf("peer: attribute without '=': %q", s)
		}
		a.Attrs = append(a.Attrs, Attr{strings.TrimSpace(s[:k]), strings.TrimSpace(s[k+1:])})
	}
	if a.MyType, err = r.String(); err != nil {
		return a, err
	}
	if a.Target, err = r.String(); err != nil {
		return a, err
	}
	return a, nil
}
