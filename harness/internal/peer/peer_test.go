package peer_test

// Validation of the scripted peer: it must complete honest handshakes against
// the real cedar client and the real cedar server, in both roles, fresh and
// resumed, with the session key proven equal by exchanging protected
// application messages in both directions.

import (
	"bytes"
	"context"
	"fmt"
	"io"
	"log/slog"
	"os"
	"sync"
	"testing"
	"time"

	"cedarverif/internal/peer"
	"cedarverif/internal/refcodec"
	"cedarverif/internal/wire"

	"github.com/bbockelm/cedar/message"
	"github.com/bbockelm/cedar/security"
	"github.com/bbockelm/cedar/stream"
)

func TestMain(m *testing.M) {
	slog.SetDefault(slog.New(slog.NewTextHandler(io.Discard, nil)))
	os.Exit(m.Run())
}

var levels = []security.SecurityLevel{security.SecurityRequired, security.SecurityPreferred, security.SecurityOptional, security.SecurityNever}

func realCfg(a, e security.SecurityLevel, cache *security.SessionCache) *security.SecurityConfig {
	return &security.SecurityConfig{
		AuthMethods: []security.AuthMethod{security.AuthClaimToBe}, Authentication: a,
		CryptoMethods: []security.CryptoMethod{security.CryptoAES}, Encryption: e, Integrity: e,
		Command: 60011, SessionCache: cache,
	}
}

func sendCanary(t *testing.T, st *stream.Stream, canary string) {
	t.Helper()
	ctx, cancel := context.WithTimeout(context.Background(), 2*time.Second)
	defer cancel()
	m := message.NewMessageForStream(st)
	if err := m.PutInt(ctx, 4711); err != nil {
		t.Fatal(err)
	}
	if err := m.PutString(ctx, canary); err != nil {
		t.Fatal(err)
	}
	if err := m.FinishMessage(ctx); err != nil {
		t.Fatal(err)
	}
}

func recvFromPeer(t *testing.T, st *stream.Stream, want string) {
	t.Helper()
	ctx, cancel := context.WithTimeout(context.Background(), 2*time.Second)
	defer cancel()
	m := message.NewMessageFromStream(st)
	v, err := m.GetInt(ctx)
	if err != nil || v != 99 {
		t.Fatalf("real endpoint cannot read the peer's app message: %v (%d)", err, v)
	}
	s, err := m.GetString(ctx)
	if err != nil || s != want {
		t.Fatalf("real endpoint read %q, %v", s, err)
	}
}

func peerApp(p *peer.Peer, s string) []byte {
	b := peer.AppendInt(nil, 99)
	return peer.AppendString(b, s, p.HasKey())
}

func TestHonestServerPeerAgainstRealClient(t *testing.T) {
	for _, pl := range []string{"OPTIONAL", "REQUIRED", "PREFERRED"} {
		for _, a := range levels {
			for _, e := range levels {
				t.Run(fmt.Sprintf("peer%s/%s-%s", pl, a, e), func(t *testing.T) {
					ca, cb := wire.C03NewPipe("127.0.0.1:40001", "127.0.0.1:9618")
					p := peer.New(cb, peer.Config{Role: peer.Server, AuthLevel: pl, EncLevel: pl})
					var wg sync.WaitGroup
					wg.Add(1)
					var app peer.AppObs
					var appErr error
					go func() {
						defer wg.Done()
						if p.Run() != nil || p.Obs.Denied {
							p.Close()
							return
						}
						app, appErr = p.ReadApp([]byte("canary-c2s"))
						_ = p.SendApp(peerApp(p, "hello from peer"), false)
					}()
					st := stream.NewStream(ca)
					ctx, cancel := context.WithTimeout(context.Background(), 3*time.Second)
					defer cancel()
					neg, err := security.NewAuthenticator(realCfg(a, e, security.NewSessionCache()), st).ClientHandshake(ctx)
					conflict := (pl == "REQUIRED" && (a == security.SecurityNever || e == security.SecurityNever))
					if conflict {
						if err == nil {
							t.Fatalf("conflicting policies but handshake succeeded")
						}
						wg.Wait()
						if !p.Obs.Denied {
							t.Fatalf("peer did not deny")
						}
						return
					}
					if err != nil {
						wg.Wait()
						t.Fatalf("handshake failed: %v; peer: %v at %s log %v", err, p.Obs.Err, p.Obs.FailedStep, p.Obs.Log)
					}
					sendCanary(t, st, "canary-c2s")
					recvFromPeer(t, st, "hello from peer")
					wg.Wait()
					if p.Obs.Err != nil || appErr != nil {
						t.Fatalf("peer error: %v / %v", p.Obs.Err, appErr)
					}
					wantAuth := a == security.SecurityRequired || pl == "REQUIRED" || ((a == security.SecurityPreferred || pl == "PREFERRED") && a != security.SecurityNever)
					if (p.Obs.Ran == "CLAIMTOBE") != wantAuth {
						t.Fatalf("peer saw ran=%q, want auth=%v", p.Obs.Ran, wantAuth)
					}
					if !p.Obs.KeyDerived || app.Class != "protected" || !st.IsEncrypted() || !neg.Encryption {
						t.Fatalf("expected a protected channel: derived=%v app=%s isEnc=%v neg=%v", p.Obs.KeyDerived, app.Class, st.IsEncrypted(), neg.Encryption)
					}
					if neg.SessionId != p.Cfg.Sid {
						t.Fatalf("sid %q vs %q", neg.SessionId, p.Cfg.Sid)
					}
				})
			}
		}
	}
}

func TestHonestClientPeerAgainstRealServer(t *testing.T) {
	for _, pl := range []string{"OPTIONAL", "REQUIRED", "PREFERRED"} {
		for _, a := range levels {
			for _, e := range levels {
				t.Run(fmt.Sprintf("peer%s/%s-%s", pl, a, e), func(t *testing.T) {
					ca, cb := wire.C03NewPipe("127.0.0.1:9618", "127.0.0.1:40002")
					p := peer.New(cb, peer.Config{Role: peer.Client, AuthLevel: pl, EncLevel: pl})
					var wg sync.WaitGroup
					wg.Add(1)
					var app peer.AppObs
					var appErr error
					go func() {
						defer wg.Done()
						if p.Run() != nil || p.Obs.Denied {
							p.Close()
							return
						}
						app, appErr = p.ReadApp([]byte("canary-s2c"))
						_ = p.SendApp(peerApp(p, "hello from peer"), false)
					}()
					st := stream.NewStream(ca)
					ctx, cancel := context.WithTimeout(context.Background(), 3*time.Second)
					defer cancel()
					neg, err := security.NewAuthenticator(realCfg(a, e, nil), st).ServerHandshake(ctx)
					conflict := (pl == "REQUIRED" && (a == security.SecurityNever || e == security.SecurityNever)) ||
						(pl != "REQUIRED" && false)
					if conflict {
						if err == nil {
							t.Fatalf("conflicting policies but handshake succeeded")
						}
						wg.Wait()
						if !p.Obs.Denied {
							t.Fatalf("peer did not see the denial: %+v", p.Obs)
						}
						return
					}
					if err != nil {
						wg.Wait()
						t.Fatalf("handshake failed: %v; peer: %v at %s log %v", err, p.Obs.Err, p.Obs.FailedStep, p.Obs.Log)
					}
					sendCanary(t, st, "canary-s2c")
					recvFromPeer(t, st, "hello from peer")
					wg.Wait()
					if p.Obs.Err != nil || appErr != nil {
						t.Fatalf("peer error: %v / %v", p.Obs.Err, appErr)
					}
					wantAuth := neg.Authentication
					if (p.Obs.Ran == "CLAIMTOBE") != wantAuth {
						t.Fatalf("peer saw ran=%q, server reports auth=%v", p.Obs.Ran, wantAuth)
					}
					if wantAuth && neg.User != "verif" {
						t.Fatalf("user %q", neg.User)
					}
					if !p.Obs.KeyDerived || app.Class != "protected" || p.Obs.PostAuthClass != "protected" || !st.IsEncrypted() {
						t.Fatalf("expected a protected channel: derived=%v app=%s post=%s", p.Obs.KeyDerived, app.Class, p.Obs.PostAuthClass)
					}
					if sid, _ := p.Obs.PostAuth.Str("Sid"); sid != neg.SessionId || sid == "" {
						t.Fatalf("sid %q vs %q", sid, neg.SessionId)
					}
				})
			}
		}
	}
}

// Resumption, peer = server: a real client establishes a session with the peer,
// then resumes it on a second connection.
func TestResumeServerPeer(t *testing.T) {
	cache := security.NewSessionCache()
	cfg := realCfg(security.SecurityRequired, security.SecurityRequired, cache)
	ca, cb := wire.C03NewPipe("127.0.0.1:40001", "127.0.0.1:9618")
	p := peer.New(cb, peer.Config{Role: peer.Server})
	fin := make(chan error, 1)
	go func() { fin <- p.Run() }()
	ctx, cancel := context.WithTimeout(context.Background(), 3*time.Second)
	defer cancel()
	neg, err := security.NewAuthenticator(cfg, stream.NewStream(ca)).ClientHandshake(ctx)
	if err != nil {
		t.Fatal(err)
	}
	if err := <-fin; err != nil {
		t.Fatalf("peer: %v", err)
	}
	key := p.Obs.Key
	if !bytes.Equal(key, neg.GetSharedSecret()) {
		t.Fatalf("keys differ")
	}
	// second connection
	ca2, cb2 := wire.C03NewPipe("127.0.0.1:40003", "127.0.0.1:9618")
	p2 := peer.New(cb2, peer.Config{Role: peer.Server, Sessions: map[string]peer.Session{neg.SessionId: {Key: key}}})
	var wg sync.WaitGroup
	wg.Add(1)
	var app peer.AppObs
	go func() {
		defer wg.Done()
		if p2.Run() != nil {
			return
		}
		app, _ = p2.ReadApp([]byte("canary-r"))
		_ = p2.SendApp(peerApp(p2, "resumed hello"), false)
	}()
	st2 := stream.NewStream(ca2)
	cfg2 := realCfg(security.SecurityRequired, security.SecurityRequired, cache)
	a2 := security.NewAuthenticator(cfg2, st2)
	neg2, err := a2.ClientHandshake(ctx)
	if err != nil {
		t.Fatalf("resume failed: %v (peer %v, steps %v)", err, p2.Obs.Err, p2.Obs.Steps)
	}
	if !neg2.SessionResumed || !a2.WasSessionResumed() || !p2.Obs.ResumeRequested {
		t.Fatalf("not resumed: %+v", neg2)
	}
	sendCanary(t, st2, "canary-r")
	recvFromPeer(t, st2, "resumed hello")
	wg.Wait()
	if app.Class != "protected" {
		t.Fatalf("resumed traffic is %s", app.Class)
	}
}

// Resumption, peer = client: establishes with a real server, then resumes.
func TestResumeClientPeer(t *testing.T) {
	ca, cb := wire.C03NewPipe("127.0.0.1:9618", "127.0.0.1:40002")
	p := peer.New(cb, peer.Config{Role: peer.Client, AuthLevel: "REQUIRED"})
	fin := make(chan error, 1)
	go func() { fin <- p.Run() }()
	ctx, cancel := context.WithTimeout(context.Background(), 3*time.Second)
	defer cancel()
	neg, err := security.NewAuthenticator(realCfg(security.SecurityOptional, security.SecurityOptional, nil), stream.NewStream(ca)).ServerHandshake(ctx)
	if err != nil {
		t.Fatal(err)
	}
	if err := <-fin; err != nil {
		t.Fatalf("peer: %v at %s", err, p.Obs.FailedStep)
	}
	sid, _ := p.Obs.PostAuth.Str("Sid")
	if sid != neg.SessionId {
		t.Fatalf("sid mismatch")
	}
	ca2, cb2 := wire.C03NewPipe("127.0.0.1:9618", "127.0.0.1:40002")
	p2 := peer.New(cb2, peer.Config{Role: peer.Client, Resume: &peer.Resume{Sid: sid, Key: p.Obs.Key}})
	var wg sync.WaitGroup
	wg.Add(1)
	var app peer.AppObs
	go func() {
		defer wg.Done()
		if p2.Run() != nil {
			return
		}
		_ = p2.SendApp(peerApp(p2, "resumed hello"), false)
		app, _ = p2.ReadApp([]byte("canary-r"))
	}()
	st2 := stream.NewStream(ca2)
	neg2, err := security.NewAuthenticator(realCfg(security.SecurityOptional, security.SecurityOptional, nil), st2).ServerHandshake(ctx)
	if err != nil {
		t.Fatalf("resume failed: %v (peer %v)", err, p2.Obs.Err)
	}
	if !neg2.SessionResumed || !neg2.Authentication || neg2.User != "verif" {
		t.Fatalf("resumed negotiation: %+v", neg2)
	}
	recvFromPeer(t, st2, "resumed hello")
	sendCanary(t, st2, "canary-r")
	wg.Wait()
	if app.Class != "protected" {
		t.Fatalf("resumed traffic is %s (peer err %v)", app.Class, p2.Obs.Err)
	}
}

// The bytes two REAL endpoints exchange parse with the reference codec, and the
// ads carry the attributes the peer relies on.
func TestRealRealCaptureParses(t *testing.T) {
	c1, r1 := wire.C03NewPipe("127.0.0.1:40001", "127.0.0.1:9618") // client <-> relay
	r2, s1 := wire.C03NewPipe("127.0.0.1:40001", "127.0.0.1:9618") // relay <-> server
	var mu sync.Mutex
	var c2s, s2c []byte
	pump := func(from, to *wire.C03PipeConn, rec *[]byte) {
		buf := make([]byte, 65536)
		for {
			n, err := from.Read(buf)
			if n > 0 {
				mu.Lock()
				*rec = append(*rec, buf[:n]...)
				mu.Unlock()
				_, _ = to.Write(buf[:n])
			}
			if err != nil {
				to.CloseWrite()
				return
			}
		}
	}
	go pump(r1, r2, &c2s)
	go pump(r2, r1, &s2c)
	ctx, cancel := context.WithTimeout(context.Background(), 3*time.Second)
	defer cancel()
	done := make(chan error, 1)
	go func() {
		_, err := security.NewAuthenticator(realCfg(security.SecurityRequired, security.SecurityRequired, nil), stream.NewStream(s1)).ServerHandshake(ctx)
		done <- err
	}()
	_, err := security.NewAuthenticator(realCfg(security.SecurityRequired, security.SecurityRequired, security.NewSessionCache()), stream.NewStream(c1)).ClientHandshake(ctx)
	if err != nil {
		t.Fatal(err)
	}
	if err := <-done; err != nil {
		t.Fatal(err)
	}
	time.Sleep(20 * time.Millisecond)
	mu.Lock()
	defer mu.Unlock()
	cf, rest := refcodec.ParseFrames(c2s)
	sf, rest2 := refcodec.ParseFrames(s2c)
	if len(rest)+len(rest2) != 0 {
		t.Fatalf("stray bytes")
	}
	// client: hello, bitmask, claim; server: ad, selection, ack, hasKey, post-auth(sealed)
	if len(cf) != 3 || len(sf) != 5 {
		t.Fatalf("frames: %d client, %d server", len(cf), len(sf))
	}
	r := peer.Reader{B: cf[0].Body}
	cmd, _ := r.Int()
	ad, err := r.ReadAd()
	if err != nil || cmd != peer.DCAuthenticate || r.Left() != 0 {
		t.Fatalf("client hello: cmd=%d err=%v left=%d", cmd, err, r.Left())
	}
	for _, k := range []string{"AuthMethods", "CryptoMethods", "Authentication", "Encryption", "ECDHPublicKey"} {
		if _, ok := ad.Str(k); !ok {
			t.Fatalf("client ad lacks %s: %s", k, ad)
		}
	}
	r = peer.Reader{B: sf[0].Body}
	sad, err := r.ReadAd()
	if err != nil || r.Left() != 0 {
		t.Fatalf("server ad: %v", err)
	}
	if v, _ := sad.Str("Authentication"); v != "YES" {
		t.Fatalf("server ad: %s", sad)
	}
	r = peer.Reader{B: cf[1].Body}
	if m, _ := r.Int(); m != 2 {
		t.Fatalf("bitmask %d", m)
	}
	if len(sf[4].Body) < 32 {
		t.Fatalf("post-auth frame not sealed?")
	}
	if bytes.Contains(sf[4].Body, []byte("AUTHORIZED")) {
		t.Fatalf("post-auth ad travels in clear between honest REQUIRED endpoints")
	}
}
