// Package peer is an INDEPENDENT scripted endpoint for the CEDAR security
// handshake. It speaks the protocol through harness/internal/refcodec only
// (frames, AES-256-GCM frame sealing, SHA-256 transcript digests) plus its own
// typed-value / ClassAd-as-strings codec (typed.go) and never imports cedar's security,
// message or stream packages. It plays either role against the REAL
// security.Authenticator and can be told to deviate from the protocol.
//
// # Usage
//
//	a, b := wire.C03NewPipe("127.0.0.1:40001", "127.0.0.1:9618") // a: real endpoint, b: peer
//	p := peer.New(b, peer.Config{Role: peer.Server, Methods: []string{"CLAIMTOBE"},
//	        Devs: peer.Devs(peer.AnswerAuthNo, peer.OmitECDH)})
//	go func() { p.Run(); p.ReadApp(canary); p.Close() }()   // or step by step: for p.Next() {}
//	neg, err := security.NewAuthenticator(cfg, stream.NewStream(a)).ClientHandshake(ctx)
//	... p.Obs tells what the peer saw (ads, bitmasks, which method exchange
//	completed, whether a key was derived, whether frames were protected).
//
// # Object model
//
// A Peer is a step-driven object: New builds the list of protocol steps for the
// role (Config.Role is the PEER's role, i.e. the opposite of the endpoint under
// test); Next runs one step, Run runs them all, Steps lists their names:
//
//	server, full handshake:  RecvHello SendServerAd AuthExchange KeySetup SendPostAuth
//	server, resumption:      RecvHello SendResumeReply KeySetup       (chosen when the request says UseSession="YES")
//	client, full handshake:  SendHello RecvServerAd AuthExchange KeySetup RecvPostAuth
//	client, resumption:      SendResumeRequest RecvResumeReply KeySetup   (Config.Resume != nil)
//
// After the handshake: ReadApp (read one message the real endpoint wrote and
// classify every frame as "protected" / "clear" / "opaque"), SendApp (send a
// message, sealed or in clear). Lower-level primitives for other scripts:
// SendMsg, SendFrame, RecvMsg, InstallKey, DeriveKey, PubKeyB64, plus the typed
// codec of this package (Ad, AppendInt, AppendString, AppendAd, Reader).
//
// The first error stops the script (Obs.Err, Obs.FailedStep); later steps are
// skipped. Close closes the connection, which also unblocks the real endpoint.
//
// # Honest behaviour
//
// Policy reconciliation follows the statement of the protocol (REQUIRED on
// either side => on; NEVER on either side => off; REQUIRED vs NEVER =>
// denial; PREFERRED => on if a common method exists; else off). The honest
// server lists Config.Methods, selects the first of its RUNNABLE methods
// (CLAIMTOBE is the only exchange implemented here; others can be listed and
// selected but not completed) whose bit the client offered, and runs it. The
// session key is ECDH P-256 + HKDF-SHA256(salt "htcondor", info "keygen"), 32
// bytes, installed after the authentication phase whenever both sides sent a
// key and "AES" is a common cipher (this is what cedar endpoints do; set
// Config.EncryptOnlyIfNegotiated for the stricter HTCondor behaviour). The
// first protected frame of each direction binds both cleartext transcripts.
//
// # Deviation catalogue
//
// Config.Devs is a set of named switches; any combination may be given. In
// parentheses: the role(s) of the peer in which the switch has an effect.
//
//	AnswerAuthNo       (server) server ad says Authentication="NO" and the auth exchange is skipped;
//	                   (client) client ad says Authentication="NEVER" and the exchange is skipped even if the server says YES
//	AnswerEncNo        (server) Encryption="NO" in the server ad although key and cipher are still advertised; peer does not encrypt;
//	                   (client) Encryption="NEVER" in the client ad; peer does not encrypt
//	AnswerAuthOmitted / AnswerAuthLowercase / AnswerAuthBool / AnswerAuthGarbage, AnswerEnc... (both)
//	                   same behaviour as AnswerAuthNo / AnswerEncNo, but the attribute is left out, written
//	                   "no" ("never" in a client ad), sent as the boolean false, or set to "MAYBE"
//	OmitECDH           (both)   no ECDHPublicKey attribute; peer does not encrypt
//	TruncateECDH       (both)   ECDHPublicKey cut to half its base64 text; peer does not encrypt
//	RandomECDH         (both)   ECDHPublicKey = 0x04 || 64 random bytes (not a curve point); peer does not encrypt
//	ForeignECDH        (both)   ECDHPublicKey = a valid point whose private key the peer discards; peer cannot encrypt
//	NoCommonCipher     (both)   cipher list "3DES" only; peer does not encrypt
//	SelectUnofferedBit (server) selects a method bit the client did not offer (CLAIMTOBE if possible, then runs it);
//	                   (client) offers only bits of methods that are not in its own ad
//	SelectSeveralBits  (server) answers with several bits set; (client) offers every bit
//	SelectZero         (server) answers 0; (client) offers 0
//	ReportDenied       (server) ReturnCode="DENIED" in the server ad / resumption reply, then stops
//	PostAuthDenied     (server) ReturnCode="DENIED" in the post-auth ad
//	PostAuthInClear    (server) post-auth ad sent as a cleartext frame although a key was agreed
//	SkipKeyExchangeMsg (server) omits the hasKey=0 message after the method exchange
//	ResumeKeyless      (client) asks to resume Config.Resume.Sid without holding the key (never encrypts)
//	ReplyWithoutKey    (server) answers a resumption request AUTHORIZED without holding the key (never encrypts)
//	NoResumeReturnCode (server) resumption reply carries no ReturnCode at all
//
// Other builders (C06, C11, C18, C20) can add switches: declare a Dev constant,
// test p.dev(X) at the step it affects. New method exchanges plug in through
// Config.Exchanges (method name -> function run after the bitmask round).
package peer

import (
	"bytes"
	"crypto/ecdh"
	"crypto/rand"
	"crypto/sha256"
	"encoding/base64"
	"errors"
	"fmt"
	"io"
	"net"
	"strings"
	"time"

	"golang.org/x/crypto/hkdf"

	"cedarverif/internal/refcodec"
)

type Role string

const (
	Client Role = "client"
	Server Role = "server"
)

// DCAuthenticate is the command integer that opens every security handshake.
const DCAuthenticate = 60010

// Dev names one deviation switch.
type Dev string

const (
	AnswerAuthNo Dev = "AnswerAuthNo"
	AnswerEncNo  Dev = "AnswerEncNo"
	// Forms of the negative answer other than the literal "NO" ("NEVER" in a client
	// ad). Each implies the behaviour of AnswerAuthNo / AnswerEncNo; only the
	// rendering of the attribute differs.
	AnswerAuthOmitted   Dev = "AnswerAuthOmitted"   // attribute left out
	AnswerAuthLowercase Dev = "AnswerAuthLowercase" // "no" / "never"
	AnswerAuthBool      Dev = "AnswerAuthBool"      // boolean false instead of a string
	AnswerAuthGarbage   Dev = "AnswerAuthGarbage"   // "MAYBE"
	AnswerEncOmitted    Dev = "AnswerEncOmitted"
	AnswerEncLowercase  Dev = "AnswerEncLowercase"
	AnswerEncBool       Dev = "AnswerEncBool"
	AnswerEncGarbage    Dev = "AnswerEncGarbage"
	OmitECDH            Dev = "OmitECDH"
	TruncateECDH        Dev = "TruncateECDH"
	RandomECDH          Dev = "RandomECDH"
	ForeignECDH         Dev = "ForeignECDH"
	NoCommonCipher      Dev = "NoCommonCipher"
	SelectUnofferedBit  Dev = "SelectUnofferedBit"
	SelectSeveralBits   Dev = "SelectSeveralBits"
	SelectZero          Dev = "SelectZero"
	ReportDenied        Dev = "ReportDenied"
	PostAuthDenied      Dev = "PostAuthDenied"
	PostAuthInClear     Dev = "PostAuthInClear"
	SkipKeyExchangeMsg  Dev = "SkipKeyExchangeMsg"
	ResumeKeyless       Dev = "ResumeKeyless"
	ReplyWithoutKey     Dev = "ReplyWithoutKey"
	NoResumeReturnCode  Dev = "NoResumeReturnCode"
)

// Catalogue lists every switch with the peer roles it applies to.
var Catalogue = map[Dev][]Role{
	AnswerAuthNo: {Client, Server}, AnswerEncNo: {Client, Server},
	AnswerAuthOmitted: {Client, Server}, AnswerAuthLowercase: {Client, Server}, AnswerAuthBool: {Client, Server}, AnswerAuthGarbage: {Client, Server},
	AnswerEncOmitted: {Client, Server}, AnswerEncLowercase: {Client, Server}, AnswerEncBool: {Client, Server}, AnswerEncGarbage: {Client, Server},
	OmitECDH: {Client, Server}, TruncateECDH: {Client, Server}, RandomECDH: {Client, Server},
	ForeignECDH: {Client, Server}, NoCommonCipher: {Client, Server},
	SelectUnofferedBit: {Client, Server}, SelectSeveralBits: {Client, Server}, SelectZero: {Client, Server},
	ReportDenied: {Server}, PostAuthDenied: {Server}, PostAuthInClear: {Server}, SkipKeyExchangeMsg: {Server},
	ResumeKeyless: {Client}, ReplyWithoutKey: {Server}, NoResumeReturnCode: {Server},
}

type DevSet map[Dev]bool

func Devs(d ...Dev) DevSet {
	s := DevSet{}
	for _, x := range d {
		if x != "" && x != "Honest" {
			s[x] = true
		}
	}
	return s
}

// MethodBit maps method names to the bit values of HTCondor's condor_auth.h.
var MethodBit = map[string]int{
	"CLAIMTOBE": 2, "FS": 4, "FS_REMOTE": 8, "NTSSPI": 16, "GSI": 32, "KERBEROS": 64,
	"ANONYMOUS": 128, "SSL": 256, "PASSWORD": 512, "MUNGE": 1024, "TOKEN": 2048,
	"IDTOKENS": 2048, "SCITOKENS": 4096,
}

// AllBits is every defined method bit.
const AllBits = 2 | 4 | 8 | 16 | 32 | 64 | 128 | 256 | 512 | 1024 | 2048 | 4096

// BitMethod is the inverse of MethodBit for single bits.
func BitMethod(bit int) string {
	switch bit {
	case 2:
		return "CLAIMTOBE"
	case 4:
		return "FS"
	case 8:
		return "FS_REMOTE"
	case 64:
		return "KERBEROS"
	case 256:
		return "SSL"
	case 512:
		return "PASSWORD"
	case 1024:
		return "MUNGE"
	case 2048:
		return "TOKEN"
	case 4096:
		return "SCITOKENS"
	}
	return ""
}

// Session is what a server-role peer knows about a resumable session.
type Session struct {
	Key []byte // nil: key-less session
}

// Resume asks a client-role peer to request resumption.
type Resume struct {
	Sid string
	Key []byte // nil: the peer holds no key
}

// Exchange runs one authentication method after the bitmask round; it returns
// nil when the exchange completed from the peer's point of view.
type Exchange func(p *Peer) error

// Config configures a Peer. Zero values give an accommodating honest peer.
type Config struct {
	Role      Role
	Methods   []string // listed methods, preference order (default CLAIMTOBE)
	Ciphers   []string // default AES
	AuthLevel string   // own policy (default OPTIONAL)
	EncLevel  string   // own policy (default OPTIONAL)
	Command   int      // client: command named in the ad (default DC_NOP 60011)

	ClaimUser     string // client: identity sent by CLAIMTOBE (default "verif@peer")
	Sid           string // server: session id of the post-auth ad (default random)
	User          string // server: User of the post-auth ad (default: the claimed identity or "unauthenticated@unmapped")
	ValidCommands string // server: default = the command of the client's ad
	Duration      int    // server: SessionDuration (default 3600)
	Lease         int    // server: SessionLease (default 1800)

	Sessions map[string]Session // server: sessions it can resume
	Resume   *Resume            // client: request resumption instead of a full handshake

	EncryptOnlyIfNegotiated bool // honest peer installs the key only when encryption was negotiated

	Exchanges map[string]Exchange // extra method exchanges (name -> script)
	Devs      DevSet
	Timeout   time.Duration // per blocking read (default 2 s)
}

// FrameObs is one frame the peer received.
type FrameObs struct {
	End   byte
	Class string // "clear" (received before the peer had a key), "protected" (opened with the peer's key), "unopened" (peer has a key, frame does not open)
	Raw   []byte // body as on the wire
	Plain []byte // cleartext (nil when unopened)
}

// Obs is everything the peer observed.
type Obs struct {
	Steps      []string // steps completed
	FailedStep string
	Err        error

	HelloCmd   int64
	Hello      *Ad    // client ad as received (server role) or sent (client role)
	ServerAd   *Ad    // server ad as sent (server role) or received (client role)
	Denied     bool   // a DENIED / non-AUTHORIZED ReturnCode was sent or received
	AnswerAuth string // "YES"/"NO" in the server ad
	AnswerEnc  string

	Offered   []int  // bitmasks the client side offered, in order
	Selected  []int  // answers of the server side, in order
	Ran       string // method whose exchange completed on the wire ("" = none)
	RanUser   string // identity carried by that exchange
	Attempted []string

	KeyDerived bool   // the peer derived the ECDH/HKDF session key (or took the resumed one)
	Key        []byte // that key

	PostAuth      *Ad
	PostAuthClass string // "protected" (opened under the peer's key) | "clear" | "opaque" (neither)

	ResumeRequested bool
	ResumeSid       string
	ResumeReply     *Ad

	Log []string
}

type step struct {
	name string
	fn   func() error
}

// Peer is the scripted endpoint.
type Peer struct {
	Cfg  Config
	Obs  Obs
	conn net.Conn

	sent, recv refcodec.Transcript
	frozen     bool
	priv       *ecdh.PrivateKey
	pub        string // what the peer advertises as ECDHPublicKey ("" = none)
	canDerive  bool
	sealer     *refcodec.Sealer
	opener     *refcodec.Opener

	steps []step
	pc    int

	// negotiation state
	hello, srvAd     Ad
	doAuth, wantEnc  bool
	commonCipher     string
	peerECDH         string
	peerMethods      []string
	resumeSess       *Session
	resumeAuthorized bool
}

// New builds a peer on conn.
func New(conn net.Conn, cfg Config) *Peer {
	if len(cfg.Methods) == 0 {
		cfg.Methods = []string{"CLAIMTOBE"}
	}
	if len(cfg.Ciphers) == 0 {
		cfg.Ciphers = []string{"AES"}
	}
	if cfg.AuthLevel == "" {
		cfg.AuthLevel = "OPTIONAL"
	}
	if cfg.EncLevel == "" {
		cfg.EncLevel = "OPTIONAL"
	}
	if cfg.Command == 0 {
		cfg.Command = 60011
	}
	if cfg.ClaimUser == "" {
		cfg.ClaimUser = "verif@peer"
	}
	if cfg.Timeout == 0 {
		cfg.Timeout = 2 * time.Second
	}
	if cfg.Duration == 0 {
		cfg.Duration = 3600
	}
	if cfg.Lease == 0 {
		cfg.Lease = 1800
	}
	if cfg.Devs == nil {
		cfg.Devs = DevSet{}
	}
	p := &Peer{Cfg: cfg, conn: conn}
	p.makeKey()
	switch {
	case cfg.Role == Server:
		p.steps = []step{{"RecvHello", p.recvHello}, {"SendServerAd", p.sendServerAd},
			{"AuthExchange", p.serverAuthExchange}, {"KeySetup", p.keySetup}, {"SendPostAuth", p.sendPostAuth}}
	case cfg.Resume != nil:
		p.steps = []step{{"SendResumeRequest", p.sendResumeRequest}, {"RecvResumeReply", p.recvResumeReply},
			{"KeySetup", p.resumeKeySetup}}
	default:
		p.steps = []step{{"SendHello", p.sendHello}, {"RecvServerAd", p.recvServerAd},
			{"AuthExchange", p.clientAuthExchange}, {"KeySetup", p.keySetup}, {"RecvPostAuth", p.recvPostAuth}}
	}
	return p
}

func (p *Peer) dev(d Dev) bool { return p.Cfg.Devs[d] }

// authNo / encNo: some form of the negative answer is switched on.
func (p *Peer) authNo() bool {
	return p.dev(AnswerAuthNo) || p.dev(AnswerAuthOmitted) || p.dev(AnswerAuthLowercase) || p.dev(AnswerAuthBool) || p.dev(AnswerAuthGarbage)
}
func (p *Peer) encNo() bool {
	return p.dev(AnswerEncNo) || p.dev(AnswerEncOmitted) || p.dev(AnswerEncLowercase) || p.dev(AnswerEncBool) || p.dev(AnswerEncGarbage)
}

// renderAnswer writes attribute name with the plain value, or in the deviating
// form selected by the switches (omitted / lower case / boolean / garbage).
func (p *Peer) renderAnswer(ad *Ad, name, plain string, omitted, lower, boolean, garbage Dev) {
	switch {
	case p.dev(omitted):
		ad.Delete(name)
	case p.dev(lower):
		ad.SetStr(name, strings.ToLower(plain))
	case p.dev(boolean):
		ad.SetBool(name, false)
	case p.dev(garbage):
		ad.SetStr(name, "MAYBE")
	default:
		ad.SetStr(name, plain)
	}
}

func (p *Peer) logf(f string, a ...any) { p.Obs.Log = append(p.Obs.Log, fmt.Sprintf(f, a...)) }

// noEnc: some switch makes this peer behave as a non-encrypting endpoint.
func (p *Peer) noEnc() bool {
	return p.encNo() || p.dev(OmitECDH) || p.dev(TruncateECDH) || p.dev(RandomECDH) ||
		p.dev(ForeignECDH) || p.dev(NoCommonCipher) || p.dev(ResumeKeyless) || p.dev(ReplyWithoutKey)
}

func (p *Peer) makeKey() {
	priv, err := ecdh.P256().GenerateKey(rand.Reader)
	if err != nil {
		panic(err)
	}
	p.priv = priv
	raw := priv.PublicKey().Bytes() // 65 bytes, 0x04 || X || Y
	p.pub = base64.StdEncoding.EncodeToString(raw)
	p.canDerive = true
	switch {
	case p.dev(OmitECDH):
		p.pub, p.canDerive = "", false
	case p.dev(TruncateECDH):
		p.pub, p.canDerive = p.pub[:len(p.pub)/2/4*4], false
	case p.dev(RandomECDH):
		bad := make([]byte, 65)
		for {
			_, _ = rand.Read(bad)
			bad[0] = 4
			if _, err := ecdh.P256().NewPublicKey(bad); err != nil {
				break
			}
		}
		p.pub, p.canDerive = base64.StdEncoding.EncodeToString(bad), false
	case p.dev(ForeignECDH):
		other, _ := ecdh.P256().GenerateKey(rand.Reader)
		p.pub, p.canDerive = base64.StdEncoding.EncodeToString(other.PublicKey().Bytes()), false
	}
}

// PubKeyB64 is the ECDHPublicKey value the peer advertises.
func (p *Peer) PubKeyB64() string { return p.pub }

// DeriveKey computes the session key from the other side's ECDHPublicKey.
func (p *Peer) DeriveKey(peerPubB64 string) ([]byte, error) {
	raw, err := base64.StdEncoding.DecodeString(peerPubB64)
	if err != nil {
		return nil, err
	}
	pk, err := ecdh.P256().NewPublicKey(raw)
	if err != nil {
		return nil, err
	}
	shared, err := p.priv.ECDH(pk)
	if err != nil {
		return nil, err
	}
	key := make([]byte, 32)
	if _, err := io.ReadFull(hkdf.New(sha256.New, shared, []byte("htcondor"), []byte("keygen")), key); err != nil {
		return nil, err
	}
	return key, nil
}

// InstallKey freezes both transcripts and starts sealing / opening with key.
func (p *Peer) InstallKey(key []byte) {
	mine, theirs := p.sent.Sum(), p.recv.Sum()
	var iv [16]byte
	_, _ = rand.Read(iv[:])
	p.sealer = refcodec.NewSealer(key, iv, mine, theirs)
	p.opener = refcodec.NewOpener(key, theirs, mine)
	p.frozen = true
	p.Obs.KeyDerived = true
	p.Obs.Key = append([]byte(nil), key...)
}

// HasKey reports whether the peer is sealing / opening.
func (p *Peer) HasKey() bool { return p.sealer != nil }

// Steps lists the step names of the script.
func (p *Peer) Steps() []string {
	var s []string
	for _, st := range p.steps {
		s = append(s, st.name)
	}
	return s
}

// Next runs the next step; it returns false when the script is over (done or failed).
func (p *Peer) Next() bool {
	if p.Obs.Err != nil || p.pc >= len(p.steps) {
		return false
	}
	st := p.steps[p.pc]
	p.pc++
	if err := st.fn(); err != nil {
		if err != errStop {
			p.Obs.Err = err
			p.Obs.FailedStep = st.name
		} else {
			p.Obs.Steps = append(p.Obs.Steps, st.name)
		}
		p.pc = len(p.steps)
		return false
	}
	p.Obs.Steps = append(p.Obs.Steps, st.name)
	return p.pc < len(p.steps)
}

// Run runs the whole script and returns the first error.
func (p *Peer) Run() error {
	for p.Next() {
	}
	return p.Obs.Err
}

// Done reports whether every step completed without error.
func (p *Peer) Done() bool { return p.Obs.Err == nil && p.pc >= len(p.steps) }

func (p *Peer) Close() { _ = p.conn.Close() }

// errStop ends the script without it being an error (the script said so).
var errStop = errors.New("script ends")

// ---------------------------------------------------------------- frame I/O

func (p *Peer) readFull(b []byte) error {
	_ = p.conn.SetReadDeadline(time.Now().Add(p.Cfg.Timeout))
	_, err := io.ReadFull(p.conn, b)
	return err
}

// RecvFrame reads one frame and classifies it.
func (p *Peer) RecvFrame() (FrameObs, error) {
	var h [5]byte
	if err := p.readFull(h[:]); err != nil {
		return FrameObs{}, err
	}
	n := int(uint32(h[1])<<24 | uint32(h[2])<<16 | uint32(h[3])<<8 | uint32(h[4]))
	if n > refcodec.MaxFrame+64 {
		return FrameObs{}, fmt.Errorf("peer: frame of %d bytes", n)
	}
	body := make([]byte, n)
	if err := p.readFull(body); err != nil {
		return FrameObs{}, err
	}
	fo := FrameObs{End: h[0], Raw: body}
	if p.opener != nil {
		if pt, err := p.opener.Open(refcodec.Frame{End: h[0], Body: body}); err == nil {
			fo.Class, fo.Plain = "protected", pt
		} else {
			fo.Class = "unopened"
		}
		return fo, nil
	}
	fo.Class, fo.Plain = "clear", body
	if !p.frozen {
		p.recv.AddFrame(h[0], body)
	}
	return fo, nil
}

// RecvMsg reads frames up to and including the one with a non-zero end flag.
// payload is the concatenation of the cleartexts (raw bodies for unopened frames).
func (p *Peer) RecvMsg() (payload []byte, frames []FrameObs, err error) {
	for {
		f, err := p.RecvFrame()
		if err != nil {
			return payload, frames, err
		}
		frames = append(frames, f)
		if f.Plain != nil {
			payload = append(payload, f.Plain...)
		} else {
			payload = append(payload, f.Raw...)
		}
		if f.End != 0 {
			return payload, frames, nil
		}
	}
}

// SendFrame writes one frame; sealed selects AES-GCM protection (needs a key).
func (p *Peer) SendFrame(end byte, plain []byte, sealed bool) error {
	var raw []byte
	if sealed {
		if p.sealer == nil {
			return errors.New("peer: no key to seal with")
		}
		raw = p.sealer.Seal(end, plain).Encode()
	} else {
		raw = refcodec.Frame{End: end, Body: plain}.Encode()
		if !p.frozen {
			p.sent.AddFrame(end, plain)
		}
	}
	_, err := p.conn.Write(raw)
	return err
}

// SendMsg sends payload as a single-frame message.
func (p *Peer) SendMsg(payload []byte, sealed bool) error { return p.SendFrame(1, payload, sealed) }

// SendRaw writes bytes as they are (no framing, no transcript).
func (p *Peer) SendRaw(b []byte) error { _, err := p.conn.Write(b); return err }

func (p *Peer) sendInt(v int) error {
	return p.SendMsg(AppendInt(nil, int64(v)), p.HasKey())
}

func (p *Peer) recvInt() (int, error) {
	pl, _, err := p.RecvMsg()
	if err != nil {
		return 0, err
	}
	r := Reader{B: pl}
	v, err := r.Int()
	return int(v), err
}

// ------------------------------------------------------------- negotiation

func split(s string) []string {
	var out []string
	for _, f := range strings.Split(s, ",") {
		if f = strings.TrimSpace(f); f != "" {
			out = append(out, f)
		}
	}
	return out
}

func firstCommon(mine, theirs []string) string {
	for _, m := range mine {
		for _, t := range theirs {
			if m == t {
				return m
			}
		}
	}
	return ""
}

func conflict(a, b string) bool {
	return (a == "REQUIRED" && b == "NEVER") || (a == "NEVER" && b == "REQUIRED")
}

func want(a, b string, avail bool) bool {
	switch {
	case a == "REQUIRED" || b == "REQUIRED":
		return true
	case a == "NEVER" || b == "NEVER":
		return false
	case a == "PREFERRED" || b == "PREFERRED":
		return avail
	}
	return false
}

func (p *Peer) ciphers() []string {
	if p.dev(NoCommonCipher) {
		return []string{"3DES"}
	}
	return p.Cfg.Ciphers
}

func (p *Peer) runnable(m string) bool {
	if m == "CLAIMTOBE" {
		return true
	}
	_, ok := p.Cfg.Exchanges[m]
	return ok
}

// ---------------------------------------------------------------- server role

func (p *Peer) recvHello() error {
	pl, _, err := p.RecvMsg()
	if err != nil {
		return err
	}
	r := Reader{B: pl}
	cmd, err := r.Int()
	if err != nil {
		return err
	}
	p.Obs.HelloCmd = cmd
	ad, err := r.ReadAd()
	if err != nil {
		return fmt.Errorf("peer: client ad: %w", err)
	}
	p.hello = ad
	p.Obs.Hello = &ad
	if cmd != DCAuthenticate {
		return fmt.Errorf("peer: first integer is %d, not DC_AUTHENTICATE", cmd)
	}
	if us, _ := ad.Str("UseSession"); us == "YES" {
		sid, _ := ad.Str("Sid")
		p.Obs.ResumeRequested, p.Obs.ResumeSid = true, sid
		p.steps = append(p.steps[:p.pc:p.pc], step{"SendResumeReply", p.sendResumeReply}, step{"KeySetup", p.resumeKeySetup})
	}
	return nil
}

func yn(b bool) string {
	if b {
		return "YES"
	}
	return "NO"
}

func (p *Peer) sendServerAd() error {
	cAuth, _ := p.hello.Str("Authentication")
	cEnc, _ := p.hello.Str("Encryption")
	cm, _ := p.hello.Str("AuthMethods")
	cc, _ := p.hello.Str("CryptoMethods")
	p.peerMethods = split(cm)
	p.peerECDH, _ = p.hello.Str("ECDHPublicKey")
	commonAuth := firstCommon(p.Cfg.Methods, p.peerMethods)
	p.commonCipher = firstCommon(p.ciphers(), split(cc))
	deny := ""
	switch {
	case conflict(cAuth, p.Cfg.AuthLevel):
		deny = "authentication policies are incompatible"
	case conflict(cEnc, p.Cfg.EncLevel):
		deny = "encryption policies are incompatible"
	}
	p.doAuth = want(cAuth, p.Cfg.AuthLevel, commonAuth != "")
	p.wantEnc = want(cEnc, p.Cfg.EncLevel, p.commonCipher != "")
	if deny == "" && p.doAuth && commonAuth == "" {
		deny = "no common authentication method"
	}
	if deny == "" && p.wantEnc && p.commonCipher == "" && !p.dev(NoCommonCipher) {
		deny = "no common cipher"
	}
	if p.dev(ReportDenied) {
		deny = "denied by script"
	}
	if p.authNo() {
		p.doAuth = false
	}
	encAnswer := p.wantEnc
	if p.encNo() {
		encAnswer = false
	}
	var ad Ad
	ad.SetStr("AuthMethods", commonAuth)
	ad.SetStr("CryptoMethods", p.commonCipher)
	ad.SetStr("AuthMethodsList", strings.Join(p.Cfg.Methods, ","))
	ad.SetStr("CryptoMethodsList", strings.Join(p.ciphers(), ","))
	p.renderAnswer(&ad, "Authentication", yn(p.doAuth), AnswerAuthOmitted, AnswerAuthLowercase, AnswerAuthBool, AnswerAuthGarbage)
	p.renderAnswer(&ad, "Encryption", yn(encAnswer), AnswerEncOmitted, AnswerEncLowercase, AnswerEncBool, AnswerEncGarbage)
	ad.SetStr("Integrity", yn(encAnswer))
	ad.SetStr("RemoteVersion", "$CondorVersion: 25.4.0 2025-10-31 BuildID: 1 PackageID: verif-peer $")
	ad.SetInt("SessionDuration", int64(p.Cfg.Duration))
	ad.SetInt("SessionLease", int64(p.Cfg.Lease))
	if p.pub != "" {
		ad.SetStr("ECDHPublicKey", p.pub)
	}
	ad.SetBool("NegotiatedSession", true)
	ad.SetStr("Enact", yn(p.doAuth || encAnswer))
	if deny != "" {
		ad.SetStr("ReturnCode", "DENIED")
		ad.SetStr("ErrorString", deny)
		ad.SetStr("Enact", "NO")
		p.Obs.Denied = true
	}
	p.srvAd = ad
	p.Obs.ServerAd = &ad
	p.Obs.AnswerAuth, p.Obs.AnswerEnc = yn(p.doAuth), yn(encAnswer)
	if err := p.SendMsg(AppendAd(nil, ad, false), false); err != nil {
		return err
	}
	if deny != "" {
		return errStop
	}
	return nil
}

// pickUnoffered chooses a bit that is not in mask, CLAIMTOBE first.
func pickUnoffered(mask int) int {
	for _, b := range []int{2, 64, 256, 512, 4, 2048, 4096} {
		if mask&b == 0 {
			return b
		}
	}
	return 0
}

func (p *Peer) serverAuthExchange() error {
	if !p.doAuth {
		return nil
	}
	cooperate := false // after a multi-bit answer: go along with whatever exchange the client starts
	for round := 0; round < 8; round++ {
		pl, _, err := p.RecvMsg()
		if err != nil {
			return fmt.Errorf("peer: waiting for method bitmask: %w", err)
		}
		if cooperate && len(pl) > 8 {
			// Not a bitmask: the client resolved the multi-bit answer to a method
			// on its own and started that exchange. A CLAIMTOBE opening is an int
			// status followed by the claimed name; answer it so that the
			// endpoint's choice becomes observable (Obs.Ran).
			r := Reader{B: pl}
			status, e1 := r.Int()
			user, e2 := r.String()
			if e1 == nil && e2 == nil && status == 1 && r.Left() == 0 {
				p.Obs.Attempted = append(p.Obs.Attempted, "CLAIMTOBE")
				p.Obs.RanUser = user
				if err := p.sendInt(1); err != nil {
					return err
				}
				p.Obs.Ran = "CLAIMTOBE"
				if p.dev(SkipKeyExchangeMsg) {
					return nil
				}
				return p.sendInt(0)
			}
			return errors.New("peer: unexpected message after a multi-bit selection")
		}
		rd := Reader{B: pl}
		m64, err := rd.Int()
		if err != nil {
			return fmt.Errorf("peer: malformed method bitmask: %w", err)
		}
		mask := int(m64)
		p.Obs.Offered = append(p.Obs.Offered, mask)
		if mask == 0 {
			return errors.New("peer: client gave up (bitmask 0)")
		}
		sel, method := 0, ""
		for _, m := range p.Cfg.Methods {
			if p.runnable(m) && mask&MethodBit[m] != 0 {
				sel, method = MethodBit[m], m
				break
			}
		}
		switch {
		case p.dev(SelectZero):
			sel, method = 0, ""
		case p.dev(SelectUnofferedBit):
			sel = pickUnoffered(mask)
			method = BitMethod(sel)
		case p.dev(SelectSeveralBits):
			sel, method = mask|pickUnoffered(mask), ""
			if sel&(sel-1) == 0 { // still a single bit
				sel |= pickUnoffered(sel)
			}
			// always include the lowest runnable bit (CLAIMTOBE), offered or not, so
			// that an endpoint which resolves a multi-bit answer by itself ends up
			// running something this peer can complete
			sel |= MethodBit["CLAIMTOBE"]
			cooperate = true
		}
		p.Obs.Selected = append(p.Obs.Selected, sel)
		if err := p.sendInt(sel); err != nil {
			return err
		}
		if method == "" || !p.runnable(method) {
			if method != "" {
				p.Obs.Attempted = append(p.Obs.Attempted, method)
				return fmt.Errorf("peer: selected %s, which this peer cannot run", method)
			}
			continue
		}
		p.Obs.Attempted = append(p.Obs.Attempted, method)
		if method == "CLAIMTOBE" {
			err = p.claimToBeServer()
		} else {
			err = p.Cfg.Exchanges[method](p)
		}
		if err != nil {
			p.logf("method %s failed: %v", method, err)
			continue
		}
		p.Obs.Ran = method
		if p.dev(SkipKeyExchangeMsg) {
			return nil
		}
		return p.sendInt(0) // exchangeKey: "no key follows" (AES-GCM sessions derive the key by ECDH)
	}
	return errors.New("peer: too many bitmask rounds")
}

func (p *Peer) claimToBeServer() error {
	pl, _, err := p.RecvMsg()
	if err != nil {
		return err
	}
	r := Reader{B: pl}
	status, err := r.Int()
	if err != nil {
		return err
	}
	if status != 1 {
		return fmt.Errorf("peer: CLAIMTOBE client reports status %d", status)
	}
	user, err := r.String()
	if err != nil {
		return err
	}
	if r.Left() != 0 {
		return errors.New("peer: CLAIMTOBE message has trailing bytes")
	}
	p.Obs.RanUser = user
	return p.sendInt(1)
}

func (p *Peer) keySetup() error {
	if p.noEnc() || !p.canDerive {
		return nil
	}
	if p.peerECDH == "" || p.commonCipher != "AES" {
		return nil
	}
	if p.Cfg.EncryptOnlyIfNegotiated && !p.wantEnc {
		return nil
	}
	key, err := p.DeriveKey(p.peerECDH)
	if err != nil {
		p.logf("cannot derive key from the other side's ECDHPublicKey: %v", err)
		return nil
	}
	p.InstallKey(key)
	return nil
}

func randHex(n int) string {
	b := make([]byte, n)
	_, _ = rand.Read(b)
	return fmt.Sprintf("%x", b)
}

func (p *Peer) sendPostAuth() error {
	var ad Ad
	rc := "AUTHORIZED"
	if p.dev(PostAuthDenied) {
		rc = "DENIED"
		p.Obs.Denied = true
	}
	ad.SetStr("ReturnCode", rc)
	if p.Cfg.Sid == "" {
		p.Cfg.Sid = "verifpeer:" + randHex(8)
	}
	ad.SetStr("Sid", p.Cfg.Sid)
	user := p.Cfg.User
	if user == "" {
		user = p.Obs.RanUser
	}
	if user == "" {
		user = "unauthenticated@unmapped"
	}
	ad.SetStr("User", user)
	vc := p.Cfg.ValidCommands
	if vc == "" {
		c, _ := p.hello.Int("Command")
		vc = fmt.Sprint(c)
	}
	ad.SetStr("ValidCommands", vc)
	ad.SetInt("SessionDuration", int64(p.Cfg.Duration))
	ad.SetInt("SessionLease", int64(p.Cfg.Lease))
	p.Obs.PostAuth = &ad
	sealed := p.HasKey() && !p.dev(PostAuthInClear)
	if sealed {
		p.Obs.PostAuthClass = "protected"
	} else {
		p.Obs.PostAuthClass = "clear"
	}
	return p.SendMsg(AppendAd(nil, ad, sealed), sealed)
}

func (p *Peer) sendResumeReply() error {
	sid := p.Obs.ResumeSid
	sess, ok := p.Cfg.Sessions[sid]
	var ad Ad
	switch {
	case p.dev(ReportDenied):
		ad.SetStr("ReturnCode", "DENIED")
		p.Obs.Denied = true
	case p.dev(NoResumeReturnCode):
		ad.SetStr("Sid", sid)
		p.resumeAuthorized = true
	case ok || p.dev(ReplyWithoutKey):
		ad.SetStr("ReturnCode", "AUTHORIZED")
		ad.SetStr("Sid", sid)
		p.resumeAuthorized = true
	default:
		ad.SetStr("ReturnCode", "SID_NOT_FOUND")
		p.Obs.Denied = true
	}
	if ok {
		p.resumeSess = &sess
	}
	p.Obs.ResumeReply = &ad
	if rr, has := p.hello.Bool("ResumeResponse"); has && !rr && !p.dev(ReplyWithoutKey) {
		p.logf("client asked for no resumption reply")
	} else if err := p.SendMsg(AppendAd(nil, ad, false), false); err != nil {
		return err
	}
	if !p.resumeAuthorized {
		return errStop
	}
	return nil
}

func (p *Peer) resumeKeySetup() error {
	if p.noEnc() {
		return nil
	}
	var key []byte
	if p.Cfg.Role == Server {
		if p.resumeSess != nil {
			key = p.resumeSess.Key
		}
	} else if p.Cfg.Resume != nil {
		key = p.Cfg.Resume.Key
	}
	if len(key) == 32 {
		p.InstallKey(key)
	}
	return nil
}

// ---------------------------------------------------------------- client role

func (p *Peer) sendHello() error {
	var ad Ad
	ad.SetStr("AuthMethods", strings.Join(p.Cfg.Methods, ","))
	ad.SetStr("CryptoMethods", strings.Join(p.ciphers(), ","))
	auth, enc := p.Cfg.AuthLevel, p.Cfg.EncLevel
	if p.authNo() {
		auth = "NEVER"
	}
	if p.encNo() {
		enc = "NEVER"
	}
	p.renderAnswer(&ad, "Authentication", auth, AnswerAuthOmitted, AnswerAuthLowercase, AnswerAuthBool, AnswerAuthGarbage)
	p.renderAnswer(&ad, "Encryption", enc, AnswerEncOmitted, AnswerEncLowercase, AnswerEncBool, AnswerEncGarbage)
	ad.SetStr("Integrity", enc)
	ad.SetInt("Command", int64(p.Cfg.Command))
	ad.SetStr("RemoteVersion", "$CondorVersion: 25.4.0 2025-10-31 BuildID: 1 PackageID: verif-peer $")
	if p.pub != "" {
		ad.SetStr("ECDHPublicKey", p.pub)
	}
	ad.SetBool("NegotiatedSession", true)
	ad.SetStr("NewSession", "YES")
	ad.SetStr("OutgoingNegotiation", "PREFERRED")
	ad.SetStr("Enact", "NO")
	p.hello = ad
	p.Obs.Hello = &ad
	p.Obs.HelloCmd = DCAuthenticate
	b := AppendInt(nil, DCAuthenticate)
	return p.SendMsg(AppendAd(b, ad, false), false)
}

func (p *Peer) recvServerAd() error {
	pl, _, err := p.RecvMsg()
	if err != nil {
		return err
	}
	r := Reader{B: pl}
	ad, err := r.ReadAd()
	if err != nil {
		return fmt.Errorf("peer: server ad: %w", err)
	}
	p.srvAd = ad
	p.Obs.ServerAd = &ad
	if rc, ok := ad.Str("ReturnCode"); ok && rc != "" && rc != "AUTHORIZED" {
		p.Obs.Denied = true
		return errStop
	}
	p.Obs.AnswerAuth, _ = ad.Str("Authentication")
	p.Obs.AnswerEnc, _ = ad.Str("Encryption")
	p.doAuth = p.Obs.AnswerAuth == "YES" && !p.authNo()
	p.wantEnc = p.Obs.AnswerEnc == "YES"
	list, _ := ad.Str("AuthMethodsList")
	if list == "" {
		list, _ = ad.Str("AuthMethods")
	}
	p.peerMethods = split(list)
	cl, _ := ad.Str("CryptoMethodsList")
	if cl == "" {
		cl, _ = ad.Str("CryptoMethods")
	}
	p.commonCipher = firstCommon(split(cl), p.ciphers())
	p.peerECDH, _ = ad.Str("ECDHPublicKey")
	return nil
}

func (p *Peer) clientAuthExchange() error {
	if !p.doAuth {
		if p.Obs.AnswerAuth == "YES" {
			// AnswerAuthNo: the server waits for a bitmask that never comes. Half-close so
			// that it notices at once instead of running into its deadline.
			if hc, ok := p.conn.(interface{ CloseWrite() }); ok {
				hc.CloseWrite()
			}
		}
		return nil
	}
	mask, own := 0, 0
	for _, m := range p.Cfg.Methods {
		own |= MethodBit[m]
		for _, s := range p.peerMethods {
			if s == m && p.runnable(m) {
				mask |= MethodBit[m]
			}
		}
	}
	switch {
	case p.dev(SelectZero):
		mask = 0
	case p.dev(SelectUnofferedBit):
		mask = AllBits &^ own
	case p.dev(SelectSeveralBits):
		mask = AllBits
	}
	for round := 0; round < 8; round++ {
		p.Obs.Offered = append(p.Obs.Offered, mask)
		if err := p.sendInt(mask); err != nil {
			return err
		}
		if mask == 0 {
			if p.dev(SelectZero) {
				return nil // carry on as if authentication had been waived
			}
			return errors.New("peer: no authentication method left")
		}
		sel, err := p.recvInt()
		if err != nil {
			return fmt.Errorf("peer: waiting for the server's selection: %w", err)
		}
		p.Obs.Selected = append(p.Obs.Selected, sel)
		if sel == 0 {
			return errors.New("peer: server selected no method")
		}
		method := BitMethod(sel)
		if method == "" || sel&mask == 0 {
			mask &^= sel // an honest client refuses a selection it did not offer
			continue
		}
		p.Obs.Attempted = append(p.Obs.Attempted, method)
		if !p.runnable(method) {
			return fmt.Errorf("peer: server selected %s, which this peer cannot run", method)
		}
		if method == "CLAIMTOBE" {
			err = p.claimToBeClient()
		} else {
			err = p.Cfg.Exchanges[method](p)
		}
		if err != nil {
			p.logf("method %s failed: %v", method, err)
			mask &^= sel
			continue
		}
		p.Obs.Ran = method
		// exchangeKey: the server says whether a wrapped key follows
		pl, _, err := p.RecvMsg()
		if err != nil {
			return fmt.Errorf("peer: waiting for the key-exchange message: %w", err)
		}
		r := Reader{B: pl}
		if hk, err := r.Int(); err != nil || hk != 0 {
			p.logf("key-exchange message: hasKey=%d err=%v", hk, err)
		}
		return nil
	}
	return errors.New("peer: too many bitmask rounds")
}

func (p *Peer) claimToBeClient() error {
	b := AppendInt(nil, 1)
	b = AppendString(b, p.Cfg.ClaimUser, p.HasKey())
	if err := p.SendMsg(b, p.HasKey()); err != nil {
		return err
	}
	ack, err := p.recvInt()
	if err != nil {
		return err
	}
	if ack != 1 {
		return fmt.Errorf("peer: CLAIMTOBE server answered %d", ack)
	}
	p.Obs.RanUser = p.Cfg.ClaimUser
	return nil
}

func (p *Peer) recvPostAuth() error {
	pl, frames, err := p.RecvMsg()
	if err != nil {
		return err
	}
	class := "clear"
	for _, f := range frames {
		if f.Class != "clear" {
			class = f.Class
		}
	}
	p.Obs.PostAuthClass = class
	r := Reader{B: pl, Enc: class == "protected"}
	ad, err := r.ReadAd()
	if err != nil && class != "protected" {
		// Not readable in the form the peer expects. Either the endpoint wrote
		// cleartext although the peer holds a key, or it protected the ad with a key
		// the peer does not hold ("opaque").
		r = Reader{B: pl}
		if ad2, err2 := r.ReadAd(); err2 == nil && r.Left() == 0 {
			p.Obs.PostAuthClass = "clear"
			p.Obs.PostAuth = &ad2
			return nil
		}
		p.Obs.PostAuthClass = "opaque"
		return nil
	}
	if err != nil {
		return fmt.Errorf("peer: post-auth ad (%s): %w", class, err)
	}
	p.Obs.PostAuth = &ad
	if rc, _ := ad.Str("ReturnCode"); rc != "" && rc != "AUTHORIZED" {
		p.Obs.Denied = true
	}
	return nil
}

func (p *Peer) sendResumeRequest() error {
	var ad Ad
	ad.SetInt("Command", int64(p.Cfg.Command))
	ad.SetStr("UseSession", "YES")
	ad.SetStr("Sid", p.Cfg.Resume.Sid)
	ad.SetBool("ResumeResponse", true)
	ad.SetStr("RemoteVersion", "$CondorVersion: 25.4.0 2025-10-31 BuildID: 1 PackageID: verif-peer $")
	ad.SetStr("CryptoMethods", strings.Join(p.ciphers(), ","))
	p.hello = ad
	p.Obs.Hello = &ad
	p.Obs.HelloCmd = DCAuthenticate
	p.Obs.ResumeRequested, p.Obs.ResumeSid = true, p.Cfg.Resume.Sid
	b := AppendInt(nil, DCAuthenticate)
	return p.SendMsg(AppendAd(b, ad, false), false)
}

func (p *Peer) recvResumeReply() error {
	pl, _, err := p.RecvMsg()
	if err != nil {
		return err
	}
	r := Reader{B: pl}
	ad, err := r.ReadAd()
	if err != nil {
		return fmt.Errorf("peer: resumption reply: %w", err)
	}
	p.Obs.ResumeReply = &ad
	if rc, ok := ad.Str("ReturnCode"); ok && rc != "AUTHORIZED" {
		p.Obs.Denied = true
		return errStop
	}
	p.resumeAuthorized = true
	return nil
}

// ------------------------------------------------------------ after the handshake

// AppObs describes one message the real endpoint wrote after its handshake.
type AppObs struct {
	Frames []FrameObs
	// Class: "protected" every frame opened under the peer's key;
	// "clear" the canary is readable on the wire;
	// "opaque" neither (what protected traffic looks like to a peer without the key).
	Class   string
	Payload []byte
}

// ReadApp reads one message and classifies it; canary is a byte string the
// caller made the endpoint send.
func (p *Peer) ReadApp(canary []byte) (AppObs, error) {
	pl, frames, err := p.RecvMsg()
	o := AppObs{Frames: frames, Payload: pl}
	if err != nil {
		return o, err
	}
	allProt, anyClear := len(frames) > 0, false
	for _, f := range frames {
		if f.Class != "protected" {
			allProt = false
		}
		if bytes.Contains(f.Raw, canary) {
			anyClear = true
		}
	}
	switch {
	case anyClear:
		o.Class = "clear"
	case allProt && bytes.Contains(pl, canary):
		o.Class = "protected"
	default:
		o.Class = "opaque"
	}
	return o, nil
}

// SendApp sends an application message, sealed when the peer holds a key
// (unless clear is forced).
func (p *Peer) SendApp(payload []byte, forceClear bool) error {
	return p.SendMsg(payload, p.HasKey() && !forceClear)
}
