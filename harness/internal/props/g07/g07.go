// Package g07 is the driver of growth module G07: life cycle of the client
// connection (client/client.go), of server.Serve's accept loop and the
// keep-alive / routing tables, against ClientConn.tla.
package g07

import (
	"encoding/json"
	"fmt"
	"os"
	"runtime/debug"
	"sort"
	"strconv"
	"sync"
	"time"

	"cedarverif/internal/clientreplay"
	"cedarverif/internal/core"
	"cedarverif/internal/kit"
	"cedarverif/internal/tlc"
)

func init() { core.Register("G07", run) }

const tlcTimeout = 45 * time.Minute

// what the unchanged tree is known to do differently from the intended design
var knownText = map[string]string{
	"StaleIsConnected":         "HTCondorClient.IsConnected stays true after Close (stream.IsConnected only tests conn != nil; its comment says \"still open\")",
	"ReconnectLeaks":           "Connect on a client that already holds a connection drops the old stream without closing it (the socket stays open until the garbage collector finalizes it); a failed re-Connect over the shared-port route even forgets an open connection",
	"SharedPortDialIgnoresCtx": "the shared-port route dials with net.DialTimeout: a context that is cancelled (or already cancelled) while the dial is stalled is ignored until ClientConfig.Timeout expires",
	"TempAcceptFatal":          "Serve returns on a temporary Accept error (its comment says it serves until Accept fails permanently) and leaves the listener open: nobody accepts any more",
}

func run(c *core.Ctx) {
	clientreplay.Quiet()
	// A socket the real code forgets to close is closed by the finalizer of its net.Conn at
	// the next garbage collection, which would hide exactly the leaks this check looks for:
	// no collection while the replay runs (unless the heap passes 16 GiB).
	defer debug.SetGCPercent(debug.SetGCPercent(-1))
	defer debug.SetMemoryLimit(debug.SetMemoryLimit(16 << 30))
	c.Assume("timing: a call that the model says returns at once, or on the cancellation / deadline of its context, is classed \"fast\" if it returns before 90% of ClientConfig.Timeout (0.7 s for a live context, 2.5 s otherwise; the context is cancelled 0.1 s into the call), \"timeout\" otherwise; what the peer must see (EOF of a closed socket) is waited for up to 2 s, what must not happen is looked for during 30-60 ms; a difference is re-run with 3 s / 12 s / 10 s / 200 ms and then with 30 s / 60 s / 40 s / 500 ms, and reported only if both re-runs show it at the same step")
	c.Assume("the scripted peer is a loopback port whose listening socket is replaced between calls: bound but not listening (refused), listen backlog 0 with a full accept queue (the dial stalls), accepting and then FIN / silent / non-CEDAR bytes / cedar's own server package with a matching policy (NEVER or CLAIMTOBE+AES) / with a policy the client cannot meet; it half-closes instead of closing so that it can see the client's EOF")
	c.Assume("a context is cancelled / given a short deadline only under a call the model says blocks (stalled dial, silent peer during the CCB exchange or the security handshake); under a call that returns by itself the context is cancelled right after the return (a caller's defer cancel()) and the deadline is far away; the garbage collector is off during the replay (a finalizer would close the sockets the check wants to see leaked)")
	c.Assume("CCB route: only the failing environments (no broker is scripted here; the CCB exchange itself is C14/G01); ConnectAndAuthenticate's retry after a failed session resumption is not exercised")
	c.Assume("server part: handlers are raw commands (no handshake) except the half-sent DC_AUTHENTICATE; the script waits for the server to be at rest before each environment step except a cancellation fired right after a dial or a command")

	thorough := c.Thorough()
	t0 := time.Now()
	mcs := []struct {
		cfg string
		w   int
	}{{"MC_G07_tables.cfg", 1}, {"MC_G07_client_quick.cfg", 4}, {"MC_G07_server_quick.cfg", 4}}
	genC, genS := "Gen_G07_client_quick.cfg", "Gen_G07_server_quick.cfg"
	if thorough {
		mcs[1].cfg, mcs[2].cfg = "MC_G07_client.cfg", "MC_G07_server.cfg"
		mcs[2].w = 8
		genC, genS = "Gen_G07_client.cfg", "Gen_G07_server.cfg"
	}
	var wg sync.WaitGroup
	if c.Replay == "" {
		for _, m := range mcs {
			wg.Add(1)
			go func(cfg string, w int) {
				defer wg.Done()
				kit.ModelCheck(c, "ClientConn.tla", cfg, tlc.Options{Workers: w, Timeout: tlcTimeout})
			}(m.cfg, m.w)
		}
	}
	var ct *clientreplay.CTable
	var stt *clientreplay.STable
	var ka []clientreplay.KARow
	var rt []clientreplay.RouteRow
	var nBeh int
	var mu sync.Mutex
	gen := func(cfg string, f func(raws []jsonRaw) error) {
		defer wg.Done()
		// every behaviour is one println: several workers do not mix lines, and the order is irrelevant
		raws := kit.Generate(c, "Gen_ClientConn.tla", cfg, tlc.Options{Timeout: tlcTimeout, Workers: 4})
		if raws == nil {
			return
		}
		if err := f(raws); err != nil {
			c.Broken("bad behaviour JSON (%s): %v", cfg, err)
		}
		mu.Lock()
		nBeh += len(raws)
		mu.Unlock()
	}
	var st clientreplay.Stats
	rng := c.Rand("g07")

	// the tables are small: their rows are replayed as soon as they are generated, while TLC does the rest
	wg.Add(4) // three generators and the replay of the table rows
	var tTables time.Duration
	go func() {
		defer wg.Done()
		gen("Gen_G07_tables.cfg", func(raws []jsonRaw) (err error) { ka, rt, err = clientreplay.ParseRows(raws); return })
		if c.IsBroken() || c.Replay != "" {
			return
		}
		if len(ka) != 55 || len(rt) != 18 {
			c.Broken("G07: expected 55 keep-alive and 18 routing rows, got %d and %d", len(ka), len(rt))
			return
		}
		var kaJobs []clientreplay.KAJob
		reps := 1
		if thorough {
			reps = 4
		}
		trng := c.Rand("g07-tables")
		for _, row := range ka {
			for _, p := range clientreplay.KAPaths {
				for k := 0; k < reps; k++ {
					kaJobs = append(kaJobs, clientreplay.KAJob{Row: row, Path: p, Salt: trng.Intn(1 << 16)})
				}
			}
		}
		var rtJobs []clientreplay.RouteJob
		for _, row := range rt {
			for k := 0; k < 3*reps; k++ {
				rtJobs = append(rtJobs, clientreplay.RouteJob{Row: row, Salt: trng.Intn(1 << 16)})
			}
		}
		core.ParallelFor(len(kaJobs), 16, func(i int) { clientreplay.RunKAJob(c, kaJobs[i], &st) })
		core.ParallelFor(len(rtJobs), 16, func(i int) { clientreplay.RunRouteJob(c, rtJobs[i], &st) })
		c.Sample(map[string]any{"keepalive_row": ka[len(ka)/2], "routing_row": rt[len(rt)/2]})
		tTables = time.Since(t0)
	}()
	go gen(genC, func(raws []jsonRaw) (err error) {
		ct, err = clientreplay.BuildCTable(raws)
		if len(raws) > 0 {
			c.Sample(string(raws[len(raws)/2]))
		}
		return
	})
	go gen(genS, func(raws []jsonRaw) (err error) {
		stt, err = clientreplay.BuildSTable(raws)
		if len(raws) > 0 {
			c.Sample(string(raws[len(raws)/3]))
		}
		return
	})
	wg.Wait()
	tTLC := time.Since(t0)
	if c.IsBroken() || ct == nil || stt == nil {
		return
	}
	if c.Replay != "" {
		clientreplay.ReplayFile(c, ct, stt, &st)
		c.Add("traces_validated_against_impl", st.Conform+st.Known)
		return
	}

	// client scripts: quick = every one-call script and a seeded sample of the rest; thorough = all
	var cjobs []clientreplay.CJob
	{
		var small, rest []clientreplay.CScript
		for _, sc := range ct.Scripts {
			hasRead := false
			for _, cl := range sc.Calls {
				hasRead = hasRead || cl.C == "read"
			}
			if len(sc.Calls) <= 1 || hasRead { // (the few scripts with a blocked read are always run)
				small = append(small, sc)
			} else {
				rest = append(rest, sc)
			}
		}
		rng.Shuffle(len(rest), func(i, j int) { rest[i], rest[j] = rest[j], rest[i] })
		budget := 800
		if thorough {
			budget = 6000
		}
		if budget > len(rest) {
			budget = len(rest)
		}
		pick := append(append([]clientreplay.CScript{}, small...), rest[:budget]...)
		for _, sc := range pick {
			p := clientreplay.CParams{Salt: rng.Intn(1 << 16), Policy: []string{"never", "claim"}[rng.Intn(2)]}
			cjobs = append(cjobs, clientreplay.CJob{Script: sc, P: p})
		}
	}
	var sjobs []clientreplay.SJob
	{
		scripts := append([][]clientreplay.SStep{}, stt.Scripts...)
		rng.Shuffle(len(scripts), func(i, j int) { scripts[i], scripts[j] = scripts[j], scripts[i] })
		budget := 600
		if thorough {
			budget = 5000
		}
		if budget > len(scripts) {
			budget = len(scripts)
		}
		for _, s := range scripts[:budget] {
			sjobs = append(sjobs, clientreplay.SJob{Steps: s, P: clientreplay.SParams{Salt: rng.Intn(1 << 16)}})
		}
	}
	var rw sync.WaitGroup
	rw.Add(2)
	go func() {
		defer rw.Done()
		core.ParallelFor(len(cjobs), envInt("G07_CPAR", 192), func(i int) { clientreplay.RunCJob(c, ct, cjobs[i], &st) })
		c.Note(fmt.Sprintf("wall: client replay done after %.1fs (sum of script times %.0fs, slowest %.1fs %s)", time.Since(t0).Seconds(), st.ClientSeconds, st.SlowestSeconds, st.Slowest))
	}()
	go func() {
		defer rw.Done()
		core.ParallelFor(len(sjobs), envInt("G07_SPAR", 64), func(i int) { clientreplay.RunSJob(c, stt, sjobs[i], &st) })
		c.Note(fmt.Sprintf("wall: server replay done after %.1fs", time.Since(t0).Seconds()))
	}()
	rw.Wait()
	c.Note(fmt.Sprintf("wall: tables replayed after %.1fs, TLC done after %.1fs, replay done after %.1fs", tTables.Seconds(), tTLC.Seconds(), time.Since(t0).Seconds()))

	c.Add("traces_validated_against_impl", st.Conform+st.Known)
	c.Set("model_behaviours", nBeh)
	c.Set("client_scripts_in_model", len(ct.Scripts))
	c.Set("server_scripts_in_model", len(stt.Scripts))
	c.Set("client_scripts_run", st.ClientRuns)
	c.Set("client_calls_compared", st.Calls)
	c.Set("client_calls_with_cancelled_or_expiring_context", st.CtxEnded)
	c.Set("client_calls_ended_by_timeout", st.TimeoutEnded)
	c.Set("blocked_reads_unblocked_by_close", st.Reads)
	c.Set("handshakes_compared_with_server_view", st.Handshakes)
	c.Set("server_scripts_run", st.ServerRuns)
	c.Set("server_handler_dispatches_scripted", st.HandlerRuns)
	c.Set("server_panicking_handlers", st.Panics)
	c.Set("server_cancellations", st.Cancels)
	c.Set("keepalive_rows_x_paths_run", st.KARuns)
	c.Set("routing_rows_run", st.RouteRuns)
	c.Set("runs_conforming_to_intended_design", st.Conform)
	c.Set("runs_explained_only_by_known_deviations", st.Known)
	c.Set("runs_rerun_with_long_waits", st.Retried)
	c.Set("environment_setup_retries", st.EnvRetry)
	acts := make([]string, 0, len(st.KnownBy))
	for a := range st.KnownBy {
		acts = append(acts, a)
	}
	sort.Strings(acts)
	for _, a := range acts {
		text := knownText[a]
		if text == "" {
			text = "combination of the deviations named"
		}
		line := fmt.Sprintf("KNOWN observation (real code == ClientConn.tla with Bug {%s}), %d runs: %s; e.g. %s", a, st.KnownBy[a], text, st.KnownExample[a])
		c.Note(line)
		fmt.Println(line)
	}
	if c.Failures() == 0 && (st.Handshakes == 0 || st.Reads == 0 || st.TimeoutEnded == 0 || st.Panics == 0 || st.Cancels == 0 || st.KARuns == 0 || st.RouteRuns == 0) {
		c.Broken("G07 replay is vacuous: handshakes=%d reads=%d timeouts=%d panics=%d cancels=%d ka=%d routes=%d",
			st.Handshakes, st.Reads, st.TimeoutEnded, st.Panics, st.Cancels, st.KARuns, st.RouteRuns)
	}
	c.Set("exhaustive", false)
	c.Set("rule", "behaviours = (client) every sequence of up to 3 public calls -- Connect / ConnectAndAuthenticate[WithConfig] / Close / a blocked read -- on each route (direct, shared port, CCB), with and without a Security config, against a peer that is switched before each call to refuse, stall the dial, accept and FIN, accept and stay silent, answer garbage, serve or reject the handshake, with a context that is live, already cancelled or cancelled during the call; (server) every sequence of up to 4 environment steps on up to 2 connections -- dial, a raw command whose handler succeeds / fails / panics / blocks / keeps the connection / is not registered, a half-sent DC_AUTHENTICATE, releasing a blocked handler, closing the listener from outside, a temporary Accept error -- ending with the cancellation of Serve's context (at rest or racing with the last step); (tables) all 55 keep-alive configurations x 3 paths read back with getsockopt and all 18 address classes; behaviours with the same script form its set of admissible outcomes, printed by TLC from Gen_ClientConn with the intended design and with the deviations today's code is known to have; each script is one run of the REAL client against the scripted loopback peer / the REAL server.Serve against loopback clients; quick replays every one-call client script, every script with a blocked read, plus a seeded sample of 800 and 600 server scripts, thorough 6000 and 5000 (the tables completely, 4 concrete members per row); non-trivial = at least two calls / four steps / an explicit keep-alive configuration / a non-empty address")
}

type jsonRaw = json.RawMessage

// envInt: development aid (parallelism experiments); the registered commands do not set it
func envInt(name string, def int) int {
	if v, err := strconv.Atoi(os.Getenv(name)); err == nil && v > 0 {
		return v
	}
	return def
}
