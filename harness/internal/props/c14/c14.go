// Package c14 is the driver of property C14 (typed values use HTCondor's byte
// layout and survive frame boundaries).
package c14

import (
	"encoding/json"
	"fmt"
	"sync"
	"time"

	"cedarverif/internal/core"
	"cedarverif/internal/kit"
	"cedarverif/internal/tlc"
	"cedarverif/internal/typedreplay"
)

func init() { core.Register("C14", run) }

type genJob struct {
	cfg string
	out []json.RawMessage
}

func run(c *core.Ctx) {
	c.Assume("the format is the one of protocol/CEDAR_PROTOCOL.md (Type Serialization) and HTCondor's stream.cpp; strings are valid UTF-8; doubles are finite")
	c.Assume("floating-point accuracy (frexp pair, 2^-30 relative round-trip error) is computed by the harness, not by TLC; 64-bit extremes are constant byte tuples in the model")
	if typedreplay.ReplayFile(c) {
		return
	}
	mc := "MC_C14_quick.cfg"
	gens := []*genJob{{cfg: "Gen_C14_quick.cfg"}}
	kMulti, kSingle := 3, 60
	if c.Thorough() {
		mc = "MC_C14.cfg"
		gens = []*genJob{{cfg: "Gen_C14_seq3.cfg"}, {cfg: "Gen_C14_cut2.cfg"}}
		kMulti, kSingle = 4, 400
	}
	var wg sync.WaitGroup
	wg.Add(1)
	go func() {
		defer wg.Done()
		kit.ModelCheck(c, "TypedValues.tla", mc, tlc.Options{Workers: 12, Timeout: 45 * time.Minute})
	}()
	for _, g := range gens {
		wg.Add(1)
		go func(g *genJob) {
			defer wg.Done()
			g.out = kit.Dedupe(kit.Generate(c, "Gen_TypedValues.tla", g.cfg, tlc.Options{Timeout: 45 * time.Minute}))
		}(g)
	}
	wg.Wait()
	if c.IsBroken() {
		return
	}

	salt := int(c.Seed % 100000)
	var jobs []typedreplay.Job
	seen := map[string]bool{}
	for _, g := range gens {
		scs := typedreplay.Parse(c, g.out)
		if c.IsBroken() {
			return
		}
		c.Add("behaviours:"+g.cfg, int64(len(scs)))
		for i, sc := range scs {
			id, _ := json.Marshal([]any{sc.Names, sc.Enc, sc.Cuts})
			if seen[string(id)] { // the two thorough generators overlap
				continue
			}
			seen[string(id)] = true
			if i == 0 || i == len(scs)/2 {
				c.Sample(map[string]any{"cfg": g.cfg, "names": sc.Names, "enc": sc.Enc, "cuts": sc.Cuts, "layouts": sc.Layouts})
			}
			k := kMulti
			if len(sc.Names) == 1 {
				k = kSingle // single values: the seeded value sweep (every cut position of every type)
			}
			dr := 0
			if i%2 == 1 {
				dr = 1 + i%5
			}
			for e := 0; e <= k; e++ {
				jobs = append(jobs, typedreplay.Job{Sc: sc, V: typedreplay.Variant{Salt: salt, K: e, Dribble: dr}})
			}
		}
	}
	var st typedreplay.Stats
	typedreplay.ReplayAll(c, jobs, &st)
	big := typedreplay.BigCases(c.Thorough(), salt)
	typedreplay.ReplayBig(c, big, &st)
	c.Add("long_string_cases", int64(len(big)))
	typedreplay.ReplayLong(c, typedreplay.LongCases(c.Thorough(), salt), &st)

	c.Set("values_put_and_got_through_real_api", st.Values)
	c.Set("real_put_calls", st.Puts)
	c.Set("real_get_calls", st.Gets)
	c.Set("frame_cuts_applied", st.Cuts)
	c.Set("doubles_round_tripped", st.Doubles)
	c.Set("doubles_equal_to_reference_ldexp_rule", st.DoubleExact)
	c.Set("max_relative_error_normal_doubles", fmt.Sprintf("%.3g (bound 2^-30 = 9.31e-10)", st.MaxRelErr))
	c.Set("exhaustive", true)
	c.Set("rule", "behaviours = initial states of Gen_TypedValues printed by TLC: every sequence of <=2 (thorough <=3) value tokens over the 7 type shapes (char, int32+, int32-, 64-bit extreme, double, string, string with NUL / empty / multi-byte) x both encryption modes x every single cut position (thorough: also every pair of cuts for <=2 values). Each behaviour is evaluated with the model's own values (real Put* bytes == TLA+ Layout == independent encoder) and with seeded expansions to other values of the same types and lengths (integer boundaries through every width API, random finite doubles incl. subnormals / extreme exponents, random UTF-8), 60 (thorough 400) expansions for single-value behaviours; every evaluation = real Put* -> reference parse/open, then reference re-framing at the cuts -> real Get* (+ 1..5-byte read dribble on odd behaviours). Long strings (16 KiB .. 2 MiB thresholds of PutString) with cuts inside the length prefix / mid-string / at the terminator are Go-side cases: real PutString/PutStringBytes frames opened by the reference codec == reference encoder byte for byte (length == the model's Size), decoded by the real Get* from the real frames and from reference re-cuts, alone and between other values (quick: 16 KiB band, 1 MiB +-33, 2.1 MiB; thorough: more lengths and cut pairs). Long messages (8, 20, 64, 300 seeded mixed values, > 64 / > 512 / > 4096 bytes; thorough also 128 and 700 values): CutIndependence evaluated on the real reader for equal-size frames of EVERY size 1..len, every single cut and 300 (thorough 3000) seeded multi-cut sets per message and mode; non-trivial = has a cut or more than one value")
}
