// Package c13 is the driver of property C13 (decoding is total and bounded).
package c13

import (
	"encoding/json"
	"fmt"
	"hash/fnv"
	"os"
	"sort"
	"strconv"
	"sync"
	"time"

	"cedarverif/internal/core"
	"cedarverif/internal/decreplay"
	"cedarverif/internal/kit"
	"cedarverif/internal/tlc"
)

func init() { core.Register("C13", run) }

type replayFile struct {
	Scenario struct {
		Kind string        `json:"kind"`
		Job  decreplay.Job `json:"job"`
	} `json:"scenario"`
}

// shorter orders text scenarios: fewer tokens first, then by class string, then by member.
func shorter(a, b *decreplay.Job) bool {
	la, lb := len(a.B.Scn.Items), len(b.B.Scn.Items)
	if la != lb {
		return la < lb
	}
	ca, cb := a.B.Scn.HostileClass(), b.B.Scn.HostileClass()
	if ca != cb {
		return ca < cb
	}
	return a.Member < b.Member
}

func h32(s string) uint32 { h := fnv.New32a(); h.Write([]byte(s)); return h.Sum32() }

func run(c *core.Ctx) {
	if decreplay.IsWorker() {
		decreplay.WorkerMain() // never returns
	}
	c.Level = "fault_enumeration"
	c.Assume("the Go runtime's allocation counters (TotalAlloc) and stack walker are correct; AES-GCM of the standard library is correct (reference sealer)")
	c.Assume("'bytes received' = bytes the decoder took from its connection (or the length of the text / blob handed to a parser); 'steps' are measured as wall-clock time of the call on an otherwise idle worker process")
	c.Assume("handshake readers are driven by a scripted peer whose messages before the hostile one are well-formed; the real endpoint never reads ahead, so the peer's bytes are supplied up front")

	exe, err := os.Executable()
	if err != nil {
		c.Broken("os.Executable: %v", err)
		return
	}
	workers := 16
	if v, err := strconv.Atoi(os.Getenv("CEDARVERIF_C13_WORKERS")); err == nil && v > 0 {
		workers = v
	}
	pool := &decreplay.Pool{Exe: exe, Args: []string{"check", "C13", "--tier", c.Tier, "--verif", c.VerifDir, "--tmp", c.Tmp},
		Tmp: c.Tmp, Workers: workers}

	var jobs []*decreplay.Job
	nBeh := 0
	if c.Replay != "" {
		b, err := os.ReadFile(c.Replay)
		if err != nil {
			c.Broken("cannot read replay file: %v", err)
			return
		}
		var rf replayFile
		if err := json.Unmarshal(b, &rf); err != nil || rf.Scenario.Kind != "Decoder" {
			c.Broken("not a Decoder replay file: %v", err)
			return
		}
		j := rf.Scenario.Job
		jobs = []*decreplay.Job{&j}
		pool.Workers = 1
	} else {
		gen := "Gen_C13_quick.cfg"
		if c.Thorough() {
			gen = "Gen_C13_thorough.cfg"
		}
		// one TLC run: Gen_Decoder has Decoder's Init/Next, checks Decoder's invariants
		// (TypeOK NoPanic Bounded CapHonoured CapFails) and prints every behaviour
		raws := kit.Generate(c, "Gen_Decoder.tla", gen, tlc.Options{Timeout: 25 * time.Minute})
		if c.IsBroken() {
			return
		}
		nBeh = len(raws)
		muts := 2
		extra := 0
		maxMembers := 4
		if c.Thorough() {
			extra = 200000
			maxMembers = 8
		}
		id := 0
		add := func(j decreplay.Job) {
			j.ID = id
			id++
			jj := j
			jobs = append(jobs, &jj)
		}
		var behs []decreplay.Behaviour
		fams := map[string]int{}
		for _, r := range raws {
			var b decreplay.Behaviour
			if err := json.Unmarshal(r, &b); err != nil {
				c.Broken("bad scenario JSON: %v", err)
				return
			}
			b.Model = nil
			behs = append(behs, b)
			if fams[b.Scn.Fam] < 1 {
				c.Sample(map[string]any{"scn": b.Scn, "verdict": b.Verdict})
			}
			fams[b.Scn.Fam]++
		}
		for i := range behs {
			b := behs[i]
			key, _ := json.Marshal(b.Scn)
			hk := h32(string(key) + strconv.FormatInt(c.Seed, 10))
			var layouts []int
			switch b.Scn.Fam {
			case "typed", "ad", "hs":
				if c.Thorough() {
					layouts = []int{0, 1, 2}
				} else if b.Verdict == "cap-exceeded-must-stop" {
					layouts = []int{2, int(hk % 2)} // small frames make the cap observable
				} else {
					layouts = []int{int(hk % 3)}
				}
			default:
				layouts = []int{0}
			}
			members := decreplay.Members(&b.Scn)
			for _, lay := range layouts {
				if members > 1 {
					n := members
					if n > maxMembers {
						n = maxMembers
					}
					for m := 0; m < n; m++ {
						mm := m
						if n < members {
							mm = int((hk + uint32(m)*2654435761) % uint32(members))
						}
						add(decreplay.Job{B: b, Layout: lay, Member: mm})
					}
				} else {
					add(decreplay.Job{B: b, Layout: lay})
				}
			}
			// seeded byte-level mutations around the model-generated input
			nm := muts
			if c.Thorough() && (b.Scn.Fam == "text" || b.Scn.Fam == "watch") {
				nm = 1 // the text space is already enumerated one token longer
			}
			for k := 0; k < nm; k++ {
				seed := int64(hk)<<20 | int64(k+1) | c.Seed<<40
				add(decreplay.Job{B: b, Layout: int((hk >> 3) % 3), Member: int(hk>>5) % members, Mut: seed})
			}
		}
		if extra > 0 && len(behs) > 0 {
			rng := c.Rand("c13-extra-mutations")
			for k := 0; k < extra; k++ {
				b := behs[rng.Intn(len(behs))]
				add(decreplay.Job{B: b, Layout: rng.Intn(3), Member: rng.Intn(decreplay.Members(&b.Scn)), Mut: rng.Int63() | 1})
			}
		}
		c.Set("behaviours_by_family", fams)
	}

	type agg struct {
		f     core.Failure
		count int
	}
	var mu sync.Mutex
	fails := map[string]*agg{}
	conform := int64(0)
	maxRatio, maxAlloc, maxMicros, maxDepth := 0.0, int64(0), int64(0), 0
	perEp := map[string]int{}
	kinds := map[string]int{}
	errored, valued := 0, 0
	// classes confirmed to kill a worker (spin, runaway allocation, fatal error):
	// further inputs of the same entry point / mode / hostile class are skipped
	fatalSeen := map[string]bool{}
	clsKey := func(j *decreplay.Job) string {
		return j.B.Scn.Ep + "|" + j.B.Scn.Mode + "|" + j.B.Scn.HostileClass()
	}
	pool.Skip = func(j *decreplay.Job) bool {
		mu.Lock()
		defer mu.Unlock()
		return fatalSeen[clsKey(j)]
	}
	sink := func(j *decreplay.Job, r *decreplay.Result) {
		mu.Lock()
		defer mu.Unlock()
		if r.Fatal != "" && !r.Flaky && r.Fatal != "protocol" {
			fatalSeen[clsKey(j)] = true
		}
		if r.Fatal == "protocol" || r.ID == -1 {
			c.Broken("worker protocol error: %s", r.Detail)
			return
		}
		if r.Flaky {
			c.Broken("non-reproducible difference on %s/%s %s: %s", j.B.Scn.Ep, j.B.Scn.Mode, j.B.Scn.HostileClass(), r.Detail)
			return
		}
		if len(r.Panic) > 7 && r.Panic[:7] == "HARNESS" {
			c.Broken("harness error on %s: %s", j.B.Scn.Ep, r.Panic)
			return
		}
		if r.Noise != "" {
			c.Note(fmt.Sprintf("%s/%s %s: %s", j.B.Scn.Ep, j.B.Scn.Mode, j.B.Scn.HostileClass(), r.Noise))
		}
		c.Eval(j.Key(), r.Received > 0)
		perEp[j.B.Scn.Ep+"/"+j.B.Scn.Mode]++
		if r.Err != "" {
			errored++
		} else {
			valued++
		}
		if len(r.Kinds) == 0 {
			conform++
			if r.Alloc > maxAlloc {
				maxAlloc = r.Alloc
			}
			if r.Received > 4096 {
				if q := float64(r.Alloc) / float64(r.Received); q > maxRatio {
					maxRatio = q
				}
			}
			if r.Micros > maxMicros {
				maxMicros = r.Micros
			}
			if r.Depth > maxDepth {
				maxDepth = r.Depth
			}
			return
		}
		for _, k := range r.Kinds {
			kinds[k]++
			sig := decreplay.Signature(j, k)
			key := fmt.Sprint(sig)
			if fam := j.B.Scn.Fam; (fam == "text" || fam == "watch") && j.Mut == 0 {
				// text parsers: one signature per (parser, obligation), named after the
				// SHORTEST failing token sequence (all sequences up to the bound are
				// enumerated, so the shortest one is canonical)
				key = fam + "/" + j.B.Scn.Ep + "/" + k
				if a, ok := fails[key]; ok {
					a.count++
					old := a.f.Scenario.(map[string]any)["job"].(*decreplay.Job)
					if !shorter(j, old) {
						continue
					}
					delete(fails, key)
					fails[key] = &agg{count: a.count - 1}
				}
			}
			if a, ok := fails[key]; ok && a.f.Signature != nil {
				a.count++
				continue
			}
			cnt := 1
			if a, ok := fails[key]; ok {
				cnt = a.count + 1
			}
			fails[key] = &agg{count: cnt, f: core.Failure{Signature: sig,
				Detail:   fmt.Sprintf("%s %s/%s [%s] verdict=%s: %s (returned error: %q)", k, j.B.Scn.Ep, j.B.Scn.Mode, j.B.Scn.HostileClass(), j.B.Verdict, r.Detail, r.Err),
				Scenario: map[string]any{"kind": "Decoder", "job": j}}}
		}
	}
	if err := pool.Run(jobs, sink); err != nil {
		c.Broken("worker pool: %v", err)
	}
	keys := make([]string, 0, len(fails))
	for k := range fails {
		keys = append(keys, k)
	}
	sort.Strings(keys)
	for _, k := range keys {
		a := fails[k]
		a.f.Detail += fmt.Sprintf(" [%d executions with this signature]", a.count)
		c.Fail(a.f)
	}
	c.Add("traces_validated_against_impl", conform)
	c.Set("behaviours", nBeh)
	c.Set("executions_per_entry_point", perEp)
	c.Set("violations_by_kind", kinds)
	c.Set("real_calls_returning_error", errored)
	c.Set("real_calls_returning_value", valued)
	c.Set("worker_processes_started", pool.Spawned)
	c.Set("jobs_skipped_class_already_fatal", pool.Skipped)
	c.Set("max_alloc_bytes_conforming", maxAlloc)
	c.Set("max_alloc_per_received_byte_conforming_inputs_over_4KiB", maxRatio)
	c.Set("max_micros_conforming", maxMicros)
	c.Set("max_stack_depth_conforming", maxDepth)
	c.Set("bounds", map[string]any{"alloc": fmt.Sprintf("<= %d*received + %d", decreplay.AllocA, decreplay.AllocB),
		"time": decreplay.TimeLimit.String(), "stack_depth": decreplay.DepthLimit})
	c.Set("exhaustive", false)
	c.Set("rule", "cases = concrete executions of a REAL cedar decoder entry point on an input derived from a behaviour of Decoder.tla (every hostile class combination of <=4 wire items per entry point, enumerated by TLC, which also checks NoPanic/Bounded/CapHonoured on the model's defensive decoder), in the frame layouts and class members the driver expands, plus seeded byte-level mutations of those inputs; each runs under recover, a time limit, a counting connection, a stack-depth probe and an allocation delta in a worker process; distinct = distinct (scenario, layout, member, mutation seed); non-trivial = the decoder consumed at least one byte")
}
