// Package g06 is the driver of growth module G06: the shared-port endpoint and
// client (client/sharedport, addresses, client/sharedport_hint.go) against
// SharedPort.tla.
package g06

import (
	"encoding/json"
	"fmt"
	"os"
	"sync"
	"sync/atomic"
	"time"

	"cedarverif/internal/core"
	"cedarverif/internal/kit"
	"cedarverif/internal/spreplay"
	"cedarverif/internal/tlc"
)

func init() { core.Register("G06", run) }

// generous: TLC shares the machine with other checks
const tlcTimeout = 45 * time.Minute

type rowJob struct {
	Kind string       `json:"kind"` // SharedPortRoute | SharedPortParse | SharedPortHint | SharedPortCtx
	Row  spreplay.Row `json:"row"`
	API  int          `json:"api"`
	Salt int          `json:"salt"`
}

type rowStats struct {
	parsed, executed, sp, direct, reject, hintConclusive, hinted, unhinted, ctx int64
}

// runRow executes one route / hint / ctx row; a difference is re-run with long waits
// before it is reported.
func runRow(c *core.Ctx, j rowJob, st *rowStats) {
	exec := func(slow bool) (*spreplay.Diff, bool, error) {
		switch j.Kind {
		case "SharedPortParse":
			return spreplay.CompareParsers(j.Row, j.Salt), true, nil
		case "SharedPortRoute":
			return spreplay.ExecRoute(j.Row, j.API, j.Salt, slow)
		case "SharedPortHint":
			return spreplay.ExecHint(j.Row, j.Salt, slow)
		case "SharedPortCtx":
			d, res, err := spreplay.ExecCtx(j.Row, slow)
			if d == nil && err == nil && res != nil && j.Row.Phase == "dial" && !slow {
				if res.ByCtx {
					c.Note(fmt.Sprintf("ctx scenario dial: ConnectViaSharedPort returned after %v when its context ended (context %v, connection timeout %v)", res.Took.Round(time.Millisecond), res.CtxAfter, res.Deadline))
				} else {
					msg := fmt.Sprintf("OBSERVATION (G06, admitted by SharedPort.tla): ConnectViaSharedPort does not watch its context while dialing -- a call with a context ending after %v and connection timeout %v to a silent address returned after %v (net.DialTimeout is used, not DialContext; HTCondorClient.Connect's direct route does use the context)", res.CtxAfter, res.Deadline, res.Took.Round(time.Millisecond))
					c.Note(msg)
					fmt.Println(msg)
				}
			}
			return d, res != nil, err
		}
		return nil, false, fmt.Errorf("unknown row job %q", j.Kind)
	}
	d, ran, err := exec(false)
	if err != nil {
		c.Broken("G06 %s [%s]: %v", j.Kind, j.Row.Label(), err)
		return
	}
	if !ran {
		return
	}
	key, _ := json.Marshal(struct {
		K string
		S spreplay.Shape
		E string
		A int
		N int
	}{j.Kind, j.Row.Shape, j.Row.Err + j.Row.Phase, j.API, j.Salt})
	c.Eval(string(key), j.Kind != "SharedPortParse" || len(j.Row.Shape.Ps) > 0)
	if d != nil {
		if d.Sig == nil {
			c.Broken("G06 harness problem: %s", d.Detail)
			return
		}
		d2, ran2, err := exec(true)
		if err != nil {
			c.Broken("G06 %s [%s]: %v", j.Kind, j.Row.Label(), err)
			return
		}
		if ran2 && d2 != nil {
			c.Fail(core.Failure{Signature: d2.Sig, Detail: d2.Detail, Scenario: map[string]any{"kind": j.Kind, "job": j}})
			return
		}
		if !ran2 {
			return
		}
	}
	switch j.Kind {
	case "SharedPortParse":
		atomic.AddInt64(&st.parsed, 1)
	case "SharedPortRoute":
		atomic.AddInt64(&st.executed, 1)
		switch j.Row.Via {
		case "sp":
			atomic.AddInt64(&st.sp, 1)
		case "direct":
			atomic.AddInt64(&st.direct, 1)
		case "reject":
			atomic.AddInt64(&st.reject, 1)
		}
	case "SharedPortHint":
		atomic.AddInt64(&st.hintConclusive, 1)
		if j.Row.Hint {
			atomic.AddInt64(&st.hinted, 1)
		} else {
			atomic.AddInt64(&st.unhinted, 1)
		}
	case "SharedPortCtx":
		atomic.AddInt64(&st.ctx, 1)
	}
}

func run(c *core.Ctx) {
	spreplay.Quiet()
	c.Assume(fmt.Sprintf("timing: listeners are created with HandshakeTimeout = %v; what the model says must be observable at a point of rest (a delivery, the end of a dropped connection at its TCP peer, the end of a daemon connection, Accept / Close returning, the socket file) is waited for up to 6 s + the handshake timeout (a difference is re-run with 40 s) and must stay as it is for 25 ms (300 ms); a Close step is taken to be in effect when the socket file is gone (Listen) or a probe connection is refused (AdoptFD)", spreplay.HandshakeTimeout))
	c.Assume("the daemon side is scripted over real unix sockets (SCM_RIGHTS) and real loopback TCP connections; the daemon keeps no copy of a descriptor it forwarded, so the TCP peer sees the end of a connection exactly when the process under test holds no descriptor for it any more (garbage collector off during replay: finalizers would hide a forgotten Close)")
	c.Assume("where SharedPort.tla is permissive both outcomes are accepted: a header with an end flag other than 1, a descriptor riding on the header bytes, steps racing with Close, a deadline that is not a whole number of seconds, the context ending while the TCP connection is being made")
	c.Assume("address grid: words are rendered from small pools of concrete strings; the routes are executed against a scripted shared-port daemon on the IPv4 / IPv6 loopback whose bytes refcodec (ParseFrames, C14Reader) decodes; CCB routes of HTCondorClient.Connect are compared at the parser level only (IsCCB)")

	// (the route and hint invariants are also checked by the Gen_G06_route* / Gen_G06_hint configurations)
	mcs := []string{"MC_G06_listener_quick.cfg", "MC_G06_scripts.cfg", "MC_G06_live_quick.cfg"}
	mixName, mixCfg, routeCfg := "mixq", "Gen_G06_mix_quick.cfg", "Gen_G06_route.cfg"
	if c.Thorough() {
		mcs = []string{"MC_G06_listener.cfg", "MC_G06_scripts.cfg", "MC_G06_live.cfg", "MC_G06_route.cfg", "MC_G06_hint.cfg"}
		mixName, mixCfg, routeCfg = "mixt", "Gen_G06_mix.cfg", "Gen_G06_route_thorough.cfg"
	}
	tabs := map[string]*spreplay.Table{}
	var rows, hintRows []spreplay.Row
	var mu sync.Mutex
	nBeh := 0
	genTable := func(name, cfg string) {
		raws := kit.Generate(c, "Gen_SharedPort.tla", cfg, tlc.Options{Timeout: tlcTimeout})
		if raws == nil {
			return
		}
		t, err := spreplay.BuildTable(raws)
		if err != nil {
			c.Broken("bad behaviour JSON (%s): %v", cfg, err)
			return
		}
		mu.Lock()
		tabs[name] = t
		nBeh += len(raws)
		mu.Unlock()
		c.Sample(string(raws[len(raws)/2]))
	}
	genRows := func(cfg string, into *[]spreplay.Row) {
		raws := kit.Generate(c, "Gen_SharedPort.tla", cfg, tlc.Options{Timeout: tlcTimeout})
		if raws == nil {
			return
		}
		rs, err := spreplay.ParseRows(raws)
		if err != nil {
			c.Broken("bad row JSON (%s): %v", cfg, err)
			return
		}
		mu.Lock()
		*into = rs
		mu.Unlock()
		c.Sample(string(raws[len(raws)/2]))
	}

	if c.Replay != "" {
		b, err := os.ReadFile(c.Replay)
		if err != nil {
			c.Broken("cannot read replay file: %v", err)
			return
		}
		var rf struct {
			Scenario struct {
				Kind string `json:"kind"`
				Job  rowJob `json:"job"`
			} `json:"scenario"`
		}
		if err := json.Unmarshal(b, &rf); err != nil {
			c.Broken("not a G06 replay file: %v", err)
			return
		}
		if rf.Scenario.Kind == "SharedPortListener" {
			var lj struct {
				Scenario struct {
					Job spreplay.Job `json:"job"`
				} `json:"scenario"`
			}
			_ = json.Unmarshal(b, &lj)
			cfg := map[string]string{"single": "Gen_G06_single.cfg", "mixq": "Gen_G06_mix_quick.cfg", "mixt": "Gen_G06_mix.cfg"}[lj.Scenario.Job.Table]
			if cfg == "" {
				c.Broken("replay file names an unknown table %q", lj.Scenario.Job.Table)
				return
			}
			genTable(lj.Scenario.Job.Table, cfg)
			if c.IsBroken() {
				return
			}
			spreplay.ReplayFile(c, tabs)
			return
		}
		var st rowStats
		j := rf.Scenario.Job
		j.Kind = rf.Scenario.Kind
		for i := 0; i < 5 && c.Failures() == 0 && !c.IsBroken(); i++ {
			runRow(c, j, &st)
		}
		c.Add("traces_validated_against_impl", st.parsed+st.executed+st.hintConclusive+st.ctx)
		return
	}

	// every TLC run is independent of the others
	var wg sync.WaitGroup
	for _, m := range mcs {
		wg.Add(1)
		go func(m string) {
			defer wg.Done()
			w := 4
			if m == "MC_G06_listener.cfg" {
				w = 8
			}
			kit.ModelCheck(c, "SharedPort.tla", m, tlc.Options{Workers: w, Timeout: tlcTimeout})
		}(m)
	}
	rng := c.Rand("g06")
	rngRows := c.Rand("g06-rows")
	var lst spreplay.Stats
	var rst rowStats
	var jobs []spreplay.Job
	nScripts := 0
	sampled := false
	var pwg sync.WaitGroup
	pwg.Add(2)
	// ---- listener scripts: generated, then replayed (while the other TLC runs go on)
	go func() {
		defer pwg.Done()
		var gwg sync.WaitGroup
		gwg.Add(2)
		go func() { defer gwg.Done(); genTable("single", "Gen_G06_single.cfg") }()
		go func() { defer gwg.Done(); genTable(mixName, mixCfg) }()
		gwg.Wait()
		if c.IsBroken() {
			return
		}
		for _, name := range []string{"single", mixName} {
			t := tabs[name]
			nScripts += len(t.Keys)
			keys := append([]string{}, t.Keys...)
			rng.Shuffle(len(keys), func(i, j int) { keys[i], keys[j] = keys[j], keys[i] })
			budget := 900
			if c.Thorough() {
				budget = len(keys)
				if budget > 15000 {
					budget = 15000 // a seeded sample of the five-step scripts
					sampled = true
				}
			}
			if budget > len(keys) {
				budget = len(keys)
			}
			for _, k := range keys[:budget] {
				jobs = append(jobs, spreplay.Job{Table: name, Key: k, P: spreplay.Params{Salt: rng.Intn(1 << 20)}})
			}
		}
		spreplay.ReplayAll(c, tabs, jobs, 40, &lst)
	}()
	// ---- routing rows, hint rows, context scenarios
	go func() {
		defer pwg.Done()
		var gwg sync.WaitGroup
		gwg.Add(2)
		go func() { defer gwg.Done(); genRows(routeCfg, &rows) }()
		go func() { defer gwg.Done(); genRows("Gen_G06_hint.cfg", &hintRows) }()
		gwg.Wait()
		if c.IsBroken() {
			return
		}
		rng := rngRows
		var rjobs []rowJob
		members, every := 3, 3
		if c.Thorough() {
			members, every = 8, 1
		}
		for i, r := range rows {
			switch r.Kind {
			case "ctx":
				rjobs = append(rjobs, rowJob{Kind: "SharedPortCtx", Row: r})
			case "route":
				for k := 0; k < members; k++ {
					rjobs = append(rjobs, rowJob{Kind: "SharedPortParse", Row: r, Salt: rng.Intn(1 << 20)})
				}
				if (i+int(c.Seed))%every == 0 {
					apis := []int{rng.Intn(3)}
					if c.Thorough() {
						apis = []int{0, 1, 2}
					}
					for _, a := range apis {
						rjobs = append(rjobs, rowJob{Kind: "SharedPortRoute", Row: r, API: a, Salt: rng.Intn(1 << 20)})
					}
				}
			}
		}
		reps := 1
		if c.Thorough() {
			reps = 3
		}
		for _, r := range hintRows {
			for k := 0; k < reps; k++ {
				rjobs = append(rjobs, rowJob{Kind: "SharedPortHint", Row: r, Salt: rng.Intn(1 << 20)})
			}
		}
		core.ParallelFor(len(rjobs), 16, func(i int) { runRow(c, rjobs[i], &rst) })
	}()
	pwg.Wait()
	if c.IsBroken() {
		wg.Wait()
		return
	}

	wg.Wait() // the model checks; nothing else runs from here on

	// ---- descriptor / goroutine counts (serial)
	n := 30
	if c.Thorough() {
		n = 150
	}
	var leak *spreplay.LeakResult
	if !c.IsBroken() && c.Failures() == 0 {
		res, d, err := spreplay.LeakPhase(c.Tmp, tabs["single"], n, int(c.Seed%1000))
		switch {
		case err != nil:
			c.Broken("G06 leak phase: %v", err)
		case d != nil:
			// count again before reporting (descriptor counts are process-wide)
			res2, d2, err2 := spreplay.LeakPhase(c.Tmp, tabs["single"], n, int(c.Seed%1000)+1)
			if err2 != nil {
				c.Broken("G06 leak phase: %v", err2)
			} else if d2 != nil {
				c.Fail(core.Failure{Signature: d2.Sig, Detail: d2.Detail, Scenario: map[string]any{"kind": "SharedPortLeak", "n": n}})
			}
			leak = res2
		default:
			leak = res
		}
		if leak != nil {
			c.Eval(fmt.Sprintf("leak/%d", n), true)
		}
	}

	// today's acceptLoop / Close race (SharedPort.tla with Bug "LateAccept")
	probeN, probeLate, probeEx := 0, 0, ""
	if c.Thorough() && !c.IsBroken() && c.Failures() == 0 {
		probeN = 600
		var err error
		if probeLate, probeEx, err = spreplay.CloseRaceProbe(c.Tmp, probeN); err != nil {
			c.Broken("G06 close race probe: %v", err)
		}
		c.Eval("closeRaceProbe", true)
	}
	if lst.LateHandlers > 0 || probeLate > 0 {
		ex := lst.LateExample
		if ex == "" {
			ex = probeEx
		}
		msg := fmt.Sprintf("KNOWN OBSERVATION (G06): the real listener behaves like SharedPort.tla with Bug \"LateAccept\": a handler outlived Close (it logged after Close had returned) in %d of %d replayed runs and %d of %d probes -- acceptLoop's handlers.Add(1) can run after Close's handlers.Wait() has returned when a daemon connects while Close is under way; proposed fix: out/proposed/G06-close-waits-for-late-handlers.diff; e.g. %s", lst.LateHandlers, len(jobs), probeLate, probeN, ex)
		c.Note(msg)
		fmt.Println(msg)
	}
	c.Set("runs_showing_a_handler_outliving_Close", lst.LateHandlers)
	if probeN > 0 {
		c.Set("close_race_probes", probeN)
		c.Set("close_race_probes_with_late_handler", probeLate)
	}

	conform := lst.Conform + rst.parsed + rst.executed + rst.hintConclusive + rst.ctx
	c.Add("traces_validated_against_impl", conform)
	c.Set("model_behaviours", nBeh)
	c.Set("listener_scripts_generated", nScripts)
	c.Set("listener_runs", len(jobs))
	c.Set("listener_runs_conforming", lst.Conform)
	c.Set("forwards_delivered", lst.Delivered)
	c.Set("forwards_dropped_or_closed", lst.Dropped)
	c.Set("handshakes_waited_out", lst.Waited)
	c.Set("runs_with_racing_steps", lst.Racing)
	c.Set("runs_with_steps_after_close", lst.AfterClose)
	c.Set("runs_on_adopted_listeners", lst.Adopted)
	c.Set("runs_with_permissive_scripts", lst.Either)
	c.Set("runs_rerun_with_long_waits", lst.Retried)
	disagree, example := 0, ""
	for _, r := range rows {
		if r.Kind == "route" && !r.Sin.Err && fmt.Sprint(r.Ht.ID) != fmt.Sprint(r.Sin.Sock) {
			disagree++
			if example == "" && r.Shape.Sep == ";" && len(r.Shape.Ps) == 2 && r.Shape.Ps[1] == "sock" && r.Shape.Ps[0] == "alias" {
				example = fmt.Sprint(r.Addr)
			}
		}
	}
	c.Set("shapes_where_ParseHTCondorAddress_and_ParseSinful_read_different_sock_ids", disagree)
	c.Note(fmt.Sprintf("observation (model level, both parsers conform to their transcription): on %d of %d shapes of the grid -- none of them canonical (ParsersAgree) -- ParseHTCondorAddress and ParseSinful read different shared-port ids (';' separators, %%XX escapes, a repeated sock parameter, e.g. tokens %s: the client routes by ParseHTCondorAddress and connects directly, ParseSinful and HTCondor read sock=id)", disagree, len(rows), example))
	c.Set("address_shapes", len(rows))
	c.Set("parser_comparisons", rst.parsed)
	c.Set("routes_executed", rst.executed)
	c.Set("routes_shared_port", rst.sp)
	c.Set("routes_direct", rst.direct)
	c.Set("routes_rejected_invalid_id", rst.reject)
	c.Set("hint_rows_conclusive", rst.hintConclusive)
	c.Set("hint_rows_hinted", rst.hinted)
	c.Set("context_scenarios", rst.ctx)
	if leak != nil {
		c.Set("leak_phase_forwards", leak.Forwards)
		c.Set("leak_phase_descriptors_before_after", fmt.Sprintf("%d/%d", leak.FDsBefore, leak.FDsAfter))
	}
	if c.Failures() == 0 && !c.IsBroken() && (lst.Delivered == 0 || lst.Dropped == 0 || lst.Waited == 0 || lst.Racing == 0 || lst.AfterClose == 0 || lst.Adopted == 0 ||
		rst.sp == 0 || rst.direct == 0 || rst.reject == 0 || rst.hinted == 0 || rst.unhinted == 0 || rst.ctx < 2) {
		c.Broken("G06 replay is vacuous: delivered=%d dropped=%d waited=%d racing=%d afterClose=%d adopted=%d sp=%d direct=%d reject=%d hinted=%d unhinted=%d ctx=%d",
			lst.Delivered, lst.Dropped, lst.Waited, lst.Racing, lst.AfterClose, lst.Adopted, rst.sp, rst.direct, rst.reject, rst.hinted, rst.unhinted, rst.ctx)
	}
	c.Set("exhaustive", c.Thorough() && !sampled)
	c.Set("rule", "listener: behaviours = every interleaving of the scripted environment (daemon connections sending one of 126 scripts = 9 header classes x 7 descriptor classes x hang up / hold; Accept calls, also concurrent; Close calls, also repeated; each step at rest or racing with the previous one; Listen / AdoptFD) with the listener's internal steps, printed by TLC from Gen_SharedPort; behaviours with the same environment script form its set of admissible outcomes (snapshots at every point of rest + the final one); each script is one REAL sharedport.Listener on a unix socket with real SCM_RIGHTS passing of loopback TCP connections; classes expand to concrete members by a seeded salt (which flag / command / length / cut, one write / split / dribbled / the package's own SendForwardedConn, which non-socket, stale socket file, nested directory); quick replays a seeded sample of 900 scripts per configuration, thorough every one-connection script and up to 15000 of the two-connection scripts. route: one row per address shape of the grid (bracket form x host form x leading space x lists of up to two (thorough: three) of 22 parameter classes x separator), the real ParseHTCondorAddress / ParseSinful / SplitCCBContact / IsValidSharedPortID compared with the spec's token-level results for several concrete renderings, every third row (thorough: every row x 3 entry points) executed against a scripted daemon and the request decoded by refcodec. hint: every address shape x error class through client.ConnectAndAuthenticateWithConfig. non-trivial = listener script with at least three environment steps / shape with parameters / executed route")
}
