package props

import (
	"encoding/json"
	"fmt"
	"sync"

	"cedarverif/internal/chanreplay"
	"cedarverif/internal/core"
	"cedarverif/internal/tlc"
)

func init() { core.Register("C02", runC02) }

// modelCheck runs an exhaustive TLC configuration; a violated invariant in the
// model is a machinery error (the model does not depend on /repo), never a
// VIOLATION.
func modelCheck(c *core.Ctx, module, cfg string, o tlc.Options) *tlc.Result {
	res, err := tlc.Run(c.SpecDir, c.Tmp, module, cfg, o)
	if err != nil {
		c.Broken("TLC %s/%s: %v", module, cfg, err)
		return nil
	}
	if !res.OK {
		c.Broken("TLC %s/%s: model violates %s: %s", module, cfg, res.Violated, firstLines(res.ErrorText, 6))
		return nil
	}
	c.Add("states", res.Distinct)
	c.Add("transitions", res.Generated)
	c.Note(fmt.Sprintf("TLC %s %s: %d states generated, %d distinct, depth %d, %.1fs", module, cfg, res.Generated, res.Distinct, res.Depth, res.WallS))
	return res
}

func firstLines(s string, n int) string {
	out := ""
	cnt := 0
	for _, r := range s {
		if r == '\n' {
			cnt++
			if cnt >= n {
				break
			}
		}
		out += string(r)
	}
	return out
}

// generate runs a Gen_* configuration and returns the behaviours it printed.
func generate(c *core.Ctx, module, cfg string, o tlc.Options) []json.RawMessage {
	if o.Workers == 0 {
		o.Workers = 1
	}
	res, err := tlc.Run(c.SpecDir, c.Tmp, module, cfg, o)
	if err != nil {
		c.Broken("TLC %s/%s: %v", module, cfg, err)
		return nil
	}
	if !res.OK {
		c.Broken("TLC generator %s/%s failed: %s %s", module, cfg, res.Violated, firstLines(res.ErrorText, 6))
		return nil
	}
	if len(res.Scenarios) == 0 {
		c.Broken("TLC generator %s/%s produced no behaviour", module, cfg)
	}
	c.Add("states", res.Distinct)
	c.Add("transitions", res.Generated)
	c.Add("behaviours_generated", int64(len(res.Scenarios)))
	c.Note(fmt.Sprintf("TLC %s %s: %d behaviours, %d distinct states, %.1fs", module, cfg, len(res.Scenarios), res.Distinct, res.WallS))
	return res.Scenarios
}

type chanJob struct {
	sc *chanreplay.Scenario
	v  chanreplay.Variant
}

// replayChannel runs jobs in parallel, confirms every difference by an
// immediate second run (DESIGN §5 (ii)) and records failures.
func replayChannel(c *core.Ctx, jobs []chanJob, stats *chanreplay.Stats) {
	var mu sync.Mutex
	conform := int64(0)
	core.ParallelFor(len(jobs), 16, func(i int) {
		j := jobs[i]
		var st chanreplay.Stats
		d := chanreplay.Run(j.sc, j.v, &st)
		if chanreplay.IsSkip(d) {
			return
		}
		key, _ := json.Marshal(struct {
			S *chanreplay.Scenario
			V chanreplay.Variant
		}{j.sc, j.v})
		c.Eval(string(key), len(j.sc.Trace) > 3)
		mu.Lock()
		stats.FramesOpenedByRef += st.FramesOpenedByRef
		stats.RefFramesAccepted += st.RefFramesAccepted
		stats.RealCalls += st.RealCalls
		mu.Unlock()
		if d == nil {
			mu.Lock()
			conform++
			mu.Unlock()
			return
		}
		var st2 chanreplay.Stats
		d2 := chanreplay.Run(j.sc, j.v, &st2)
		if d2 == nil || d2.Detail != d.Detail {
			c.Broken("non-reproducible difference: %v vs %v", d, d2)
			return
		}
		c.Fail(core.Failure{Signature: chanreplay.Signature(j.sc, d), Detail: d.Error(),
			Scenario: map[string]any{"kind": "SecureChannel", "trace": j.sc.Trace, "variant": j.v}})
	})
	c.Add("traces_validated_against_impl", conform)
}

func parseChan(c *core.Ctx, raws []json.RawMessage) []*chanreplay.Scenario {
	var out []*chanreplay.Scenario
	for _, r := range raws {
		var sc chanreplay.Scenario
		if err := json.Unmarshal(r, &sc); err != nil {
			c.Broken("bad scenario JSON: %v", err)
			return nil
		}
		out = append(out, &sc)
	}
	return out
}

// space runs the scenario once to learn how many concrete members its
// adversary step has under this variant (bits of a field, cut positions).
func advSpace(sc *chanreplay.Scenario, v chanreplay.Variant) int {
	var st chanreplay.Stats
	chanreplay.Run(sc, v, &st)
	return st.Space
}

func replayFile(c *core.Ctx) bool {
	if c.Replay == "" {
		return false
	}
	b, err := readFile(c.Replay)
	if err != nil {
		c.Broken("cannot read replay file: %v", err)
		return true
	}
	var rf struct {
		Scenario struct {
			Kind    string               `json:"kind"`
			Trace   []chanreplay.Step    `json:"trace"`
			Variant chanreplay.Variant   `json:"variant"`
		} `json:"scenario"`
	}
	if err := json.Unmarshal(b, &rf); err != nil || rf.Scenario.Kind != "SecureChannel" {
		return false
	}
	sc := &chanreplay.Scenario{Trace: rf.Scenario.Trace}
	var st chanreplay.Stats
	replayChannel(c, []chanJob{{sc, rf.Scenario.Variant}}, &st)
	return true
}

func runC02(c *core.Ctx) {
	c.Assume("an application stops reading a direction after its first receive error (rstate err is terminal in SecureChannel.tla)")
	c.Assume("AES-GCM, SHA-256 of the Go standard library are correct; symbolic cryptography in the model")
	if replayFile(c) {
		return
	}
	mc, gen := "MC_C02_quick.cfg", "Gen_C02_quick.cfg"
	if c.Thorough() {
		mc, gen = "MC_C02.cfg", "Gen_C02_thorough.cfg"
	}
	if modelCheck(c, "SecureChannel.tla", mc, tlc.Options{Workers: 16}) == nil {
		return
	}
	scs := parseChan(c, generate(c, "Gen_SecureChannel.tla", gen, tlc.Options{}))
	if c.IsBroken() {
		return
	}
	rng := c.Rand("c02")
	var jobs []chanJob
	sizePlans := []int{0, 1}
	if c.Thorough() {
		sizePlans = []int{0, 1, 2, 3}
	}
	for si, sc := range scs {
		if si < 3 {
			c.Sample(sc)
		}
		adv := sc.AdvStep()
		for _, sp := range sizePlans {
			for api := 0; api < 4; api++ {
				base := chanreplay.Variant{RecvAPI: api, SizePlan: sp, Salt: int(c.Seed % 1000)}
				if adv == nil || (adv.Op != "flip" && adv.Op != "trunc" && adv.Op != "inject") {
					jobs = append(jobs, chanJob{sc, base})
					continue
				}
				n := 0
				switch adv.Op {
				case "inject":
					n = 3
					if c.Thorough() {
						n = 12
					}
					for b := 0; b < n; b++ {
						v := base
						v.Bit = b
						jobs = append(jobs, chanJob{sc, v})
					}
					continue
				default:
					n = advSpace(sc, base)
				}
				if n == 0 {
					continue
				}
				// thorough: every bit of header, IV and tag, every cut position; ciphertext
				// bits fully for short frames, sampled for long ones. quick: seeded sample.
				all := c.Thorough() && (adv.Fld != "ct" || n <= 512)
				if adv.Op == "trunc" && c.Thorough() && n <= 600 {
					all = true
				}
				if all {
					for b := 0; b < n; b++ {
						v := base
						v.Bit = b
						jobs = append(jobs, chanJob{sc, v})
					}
				} else {
					k := 3
					if c.Thorough() {
						k = 64
					}
					for t := 0; t < k; t++ {
						v := base
						v.Bit = rng.Intn(n)
						if t == 0 {
							v.Bit = 0
						} else if t == 1 {
							v.Bit = n - 1
						}
						jobs = append(jobs, chanJob{sc, v})
					}
				}
			}
		}
	}
	var st chanreplay.Stats
	replayChannel(c, jobs, &st)
	c.Set("frames_opened_by_reference_decryptor", st.FramesOpenedByRef)
	c.Set("real_api_calls", st.RealCalls)
	c.Set("exhaustive", true)
	c.Set("rule", "behaviours = every sender script (<=N msgs x <=F frames) x every single adversary action at every wire position, enumerated by TLC from Gen_SecureChannel (mode C02); each is replayed against two real keyed streams under every receive API and payload size plan; abstract classes (flipped field, cut position, forged length class) expand to concrete bits/positions (all in thorough, seeded sample in quick); non-trivial = has at least one send and one receive")
}
