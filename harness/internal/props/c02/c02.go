// Package c02 is the driver of property C02 (authentic in-order prefix).
package c02

import (
	"cedarverif/internal/chanreplay"
	"cedarverif/internal/core"
	"cedarverif/internal/kit"
	"cedarverif/internal/tlc"
)

func init() { core.Register("C02", run) }

func run(c *core.Ctx) {
	c.Assume("an application stops reading a direction after its first receive error (rstate err is terminal in SecureChannel.tla)")
	c.Assume("AES-GCM, SHA-256 of the Go standard library are correct; symbolic cryptography in the model")
	if chanreplay.ReplayFile(c) {
		return
	}
	mc, gen := "MC_C02_quick.cfg", "Gen_C02_quick.cfg"
	if c.Thorough() {
		mc, gen = "MC_C02.cfg", "Gen_C02_thorough.cfg"
	}
	if kit.ModelCheck(c, "SecureChannel.tla", mc, tlc.Options{Workers: 16}) == nil {
		return
	}
	scs := chanreplay.Parse(c, kit.Generate(c, "Gen_SecureChannel.tla", gen, tlc.Options{}))
	if c.IsBroken() {
		return
	}
	rng := c.Rand("c02")
	var jobs []chanreplay.Job
	sizePlans := []int{0, 1}
	if c.Thorough() {
		sizePlans = []int{0, 1, 2, 3}
	}
	for si, sc := range scs {
		if si < 3 {
			c.Sample(sc)
		}
		adv := sc.AdvStep()
		for _, sp := range sizePlans {
			for api := 0; api < 4; api++ {
				base := chanreplay.Variant{RecvAPI: api, SizePlan: sp, Salt: int(c.Seed % 1000)}
				if adv == nil || (adv.Op != "flip" && adv.Op != "trunc" && adv.Op != "inject") {
					jobs = append(jobs, chanreplay.Job{sc, base})
					continue
				}
				n := 0
				switch adv.Op {
				case "inject":
					n = 3
					if c.Thorough() {
						n = 12
					}
					for b := 0; b < n; b++ {
						v := base
						v.Bit = b
						jobs = append(jobs, chanreplay.Job{sc, v})
					}
					continue
				default:
					n = chanreplay.AdvSpace(sc, base)
				}
				if n == 0 {
					continue
				}
				// thorough: every bit of header, IV and tag, every cut position; ciphertext
				// bits fully for short frames, sampled for long ones. quick: seeded sample.
				// (full expansion for one size plan and one receive API per behaviour;
				// the other combinations get the seeded sample)
				full := c.Thorough() && sp == sizePlans[si%len(sizePlans)] && api == si%4
				all := full && (adv.Fld != "ct" || n <= 512)
				if adv.Op == "trunc" && full && n <= 600 {
					all = true
				}
				if all {
					for b := 0; b < n; b++ {
						v := base
						v.Bit = b
						jobs = append(jobs, chanreplay.Job{sc, v})
					}
				} else {
					k := 3
					if c.Thorough() {
						k = 12
					}
					for t := 0; t < k; t++ {
						v := base
						v.Bit = rng.Intn(n)
						if t == 0 {
							v.Bit = 0
						} else if t == 1 {
							v.Bit = n - 1
						}
						jobs = append(jobs, chanreplay.Job{sc, v})
					}
				}
			}
		}
	}
	var st chanreplay.Stats
	chanreplay.ReplayAll(c, jobs, &st)
	c.Set("frames_opened_by_reference_decryptor", st.FramesOpenedByRef)
	c.Set("real_api_calls", st.RealCalls)
	c.Set("exhaustive", true)
	if c.Thorough() {
		chanreplay.ValidateRepoTestTraces(c, "./stream/", "./message/")
	} else {
		chanreplay.ValidateRepoTestTraces(c, "./stream/")
	}
	c.Set("rule", "behaviours = every sender script (<=N msgs x <=F frames) x every single adversary action at every wire position, enumerated by TLC from Gen_SecureChannel (mode C02); each is replayed against two real keyed streams under every receive API and payload size plan; abstract classes (flipped field, cut position, forged length class) expand to concrete bits/positions (all in thorough, seeded sample in quick); non-trivial = has at least one send and one receive")
}
