// Package g02 is the driver of growth module G02: file transfer over a stream
// (stream.PutFile / stream.GetFile) against spec/FileTransfer.tla.
package g02

import (
	"encoding/json"
	"fmt"
	"path/filepath"
	"sort"
	"sync"
	"time"

	"cedarverif/internal/core"
	"cedarverif/internal/filereplay"
	"cedarverif/internal/kit"
	"cedarverif/internal/tlc"
)

func init() { core.Register("G02", run) }

type genJob struct {
	cfg string
	out []json.RawMessage
}

func run(c *core.Ctx) {
	c.Assume("AES-GCM of the Go standard library is correct; file and message contents are abstract (item, offset, length) segments in the model and a seeded pseudo-random function of the item in the replay")
	c.Assume("the stream is keyed (or not) before the first message of the session; an endpoint stops using a stream after the first error a call returns; ordinary messages are never 4 or 8 bytes long (not mistakable for the marker / size message)")
	c.Assume("where the documentation is silent (a chunk arriving as two frames, an empty frame among the chunks) either outcome is accepted as long as a reported success is byte-exact")
	if filereplay.ReplayFile(c) {
		return
	}

	mcs := []string{"MC_G02_quick.cfg", "MC_G02_live.cfg"}
	gens := []*genJob{{cfg: "Gen_G02_single.cfg"}, {cfg: "Gen_G02_mix.cfg"}}
	if c.Thorough() {
		mcs = []string{"MC_G02.cfg"}
		gens = []*genJob{{cfg: "Gen_G02_thorough.cfg"}}
	}
	var wg sync.WaitGroup
	for _, cfg := range mcs {
		wg.Add(1)
		go func(cfg string) {
			defer wg.Done()
			kit.ModelCheck(c, "FileTransfer.tla", cfg, tlc.Options{Workers: 8, Timeout: 45 * time.Minute})
		}(cfg)
	}
	for _, g := range gens {
		wg.Add(1)
		go func(g *genJob) {
			defer wg.Done()
			g.out = kit.Dedupe(kit.Generate(c, "Gen_FileTransfer.tla", g.cfg, tlc.Options{Timeout: 45 * time.Minute}))
		}(g)
	}
	wg.Wait()
	if c.IsBroken() {
		return
	}

	salt := int(c.Seed % 100000)
	rng := c.Rand("g02")
	var jobs []filereplay.Job
	var probes []filereplay.Job
	classes := map[string]int{}
	nScn := 0
	for _, g := range gens {
		scs := filereplay.Parse(c, g.out)
		if c.IsBroken() {
			return
		}
		c.Add("behaviours:"+g.cfg, int64(len(scs)))
		for i, sc := range scs {
			nScn++
			if i == 0 || (i == len(scs)/2 && len(scs) > 2) {
				c.Sample(map[string]any{"cfg": g.cfg, "enc": sc.Enc, "plan": sc.Plan, "items": sc.Items, "frames": len(sc.Wire), "sender": sc.Sres, "receiver_ok": okList(sc)})
			}
			dev, cut, sizes := classOf(sc)
			classes[fmt.Sprintf("%v/%d items/%s/%s/%s", sc.Enc, len(sc.Plan), dev, cut, sizes)]++
			base := filereplay.Variant{Salt: salt, MsgAPI: (i + int(c.Seed)) % 3, Pipe: dev == "none"}
			if (i+int(c.Seed))%4 == 3 {
				base.Dribble = 4093
			}
			vs := []filereplay.Variant{base}
			if cut == "hdr" || cut == "body" {
				base.CutSel = -1
				a, b := base, base
				a.CutSel = -2
				b.CutSel = rng.Intn(1 << 20)
				a.Pipe, b.Pipe = false, false
				vs = []filereplay.Variant{base, a, b}
			}
			if dev == "negSize" {
				a := base
				a.NegMin = true
				vs = append(vs, a)
			}
			for _, v := range vs {
				jobs = append(jobs, filereplay.Job{Sc: sc, V: v})
			}
			if dev == "announceMore:huge" {
				for _, h := range []int64{1 << 62, 1 << 32} {
					v := base
					v.Huge = h
					v.Pipe = false
					probes = append(probes, filereplay.Job{Sc: sc, V: v})
				}
			}
		}
	}

	// allocation probe, single-threaded: a peer that announces far more than it
	// sends must not make GetFile allocate by the announcement
	var maxAlloc uint64
	for i, p := range probes {
		alloc, wireBytes, d := filereplay.AllocProbe(p.Sc, p.V, filepath.Join(c.Tmp, "g02", fmt.Sprintf("probe-%d", i)))
		c.Eval(fmt.Sprintf("probe/%d/%v", i, p.V), true)
		if d != nil && d.Broken {
			c.Broken("filereplay: %s", d.Detail)
			return
		}
		if d == nil && alloc > uint64(6*wireBytes)+8<<20 {
			alloc2, _, _ := filereplay.AllocProbe(p.Sc, p.V, filepath.Join(c.Tmp, "g02", fmt.Sprintf("probe-%d-again", i)))
			if alloc2 > uint64(6*wireBytes)+8<<20 {
				d = filereplay.AllocDiff(p.Sc, p.V, alloc, wireBytes)
			}
		}
		if d != nil && d.Observed == "" {
			c.Fail(core.Failure{Signature: filereplay.Signature(d), Detail: d.Error(),
				Scenario: map[string]any{"kind": "FileTransfer", "scn": p.Sc, "variant": p.V}})
			continue
		}
		if alloc > maxAlloc {
			maxAlloc = alloc
		}
		c.Add("traces_validated_against_impl", 1)
	}
	c.Set("alloc_probes", len(probes))
	c.Set("alloc_probe_max_bytes_allocated_by_a_GetFile_announcing_2^62_or_2^32_bytes", maxAlloc)

	var st filereplay.Stats
	filereplay.ReplayAll(c, jobs, &st)
	c.Set("behaviours_replayed", nScn)
	c.Set("mode_x_plan_x_deviation_x_cut_x_size_classes", len(classes))
	c.Set("real_api_calls", st.RealCalls)
	c.Set("PutFile_calls_completed", st.FilesSent)
	c.Set("GetFile_results_compared_byte_for_byte", st.FilesReceived)
	c.Set("file_bytes_compared", st.FileBytes)
	c.Set("calls_where_model_and_real_code_both_report_an_error", st.ErrorsAgreed)
	c.Set("reference_built_frames_fed_to_real_receivers", st.RefFramesFed)
	c.Set("frames_of_real_sender_parsed_by_reference", st.FramesParsed)
	c.Set("behaviours_where_real_sender_cut_frames_like_the_model", st.ModelCutsMatch)
	c.Set("concurrent_pipe_runs", st.PipeRuns)
	c.Set("silent_cases_real_code_accepted", st.SilentAccepted)
	c.Set("silent_cases_real_code_refused", st.SilentRefused)
	keys := make([]string, 0, len(st.Observations))
	for k := range st.Observations {
		keys = append(keys, k)
	}
	sort.Strings(keys)
	for _, k := range keys {
		c.Note(fmt.Sprintf("observation (not failing the check): %s - %d replays; e.g. %s", k, st.Observations[k], st.ObservationDemo[k]))
	}
	c.Set("observations", len(keys))
	c.Set("exhaustive", true)
	c.Set("rule", "behaviours = complete runs of Gen_FileTransfer printed by TLC: one stream (plain / AES-GCM), a plan of <=4 items (file; msg,file,msg; file,file; msg,file,file,msg), every file size class {0,1,Chunk-1,Chunk,Chunk+1,2Chunk,3Chunk+1} (later files / mixed plans: a subset), and at most one fault: a deviating peer (announces more by 1/Chunk/2^62, fewer by 1/Chunk, negative size, wrong marker value/length, no marker, size/chunk/marker split over two frames, empty frame) or a cut of the connection before / inside the header / inside the body of any frame. Each behaviour x variant (ordinary-message API, cut position first/last/seeded byte, -1 / MinInt64, whole or 4093-byte reads) is one evaluation of up to four passes (reference-built frames -> real GetFile; real PutFile -> reference parser/decryptor; real -> real; real <-> real concurrently over a blocking pipe with a cancellable context under a watchdog); non-trivial = a file transfer was started")
}

func okList(sc *filereplay.Scenario) []bool {
	var out []bool
	for _, r := range sc.Rres {
		out = append(out, r.OK)
	}
	return out
}

func classOf(sc *filereplay.Scenario) (dev, cut, sizes string) {
	dev, cut = "none", "none"
	for _, it := range sc.Items {
		if it.Kind == "file" {
			sizes += fmt.Sprintf("%d,", it.Size)
		}
		if it.Dev != "none" {
			dev = it.Dev
			if it.Dev == "announceMore" || it.Dev == "announceFewer" {
				d := fmt.Sprintf("%d", it.Delta)
				if it.Delta >= filereplay.ModelBig {
					d = "huge"
				}
				dev += ":" + d
			}
		}
	}
	for _, h := range sc.Hist {
		if len(h.A) > 8 && h.A[:8] == "CutNext:" {
			cut = h.A[8:]
		}
	}
	return
}
