// Package g05 is the driver of growth module G05 (inherited / family security
// sessions): TLC model-checks spec/InheritedSession.tla, generates its
// behaviours, and every behaviour is replayed against the real code - through
// the exported API in this process and through the environment path
// (CONDOR_INHERIT / CONDOR_PRIVATE_INHERIT, read once per process) in child
// processes of this binary.
package g05

import (
	"os"
	"sync"

	"cedarverif/internal/core"
	"cedarverif/internal/inheritreplay"
	"cedarverif/internal/kit"
	"cedarverif/internal/tlc"
)

func init() {
	// hidden sub-command: the same binary re-executed as the child daemon
	if p := os.Getenv(inheritreplay.ChildEnv); p != "" {
		inheritreplay.ChildMain(p)
	}
	core.Register("G05", run)
}

// known observations on the unchanged tree: signature -> text (reported, counted, not failed)
var known = []inheritreplay.Observation{}

var others = []string{"flip", "fresh", "trunc"}

func run(c *core.Ctx) {
	c.Assume("HMAC-SHA256 / AES-GCM of the Go standard library are correct; the key both ends must hold is recomputed independently as HKDF-SHA256(secret, salt \"htcondor\", info \"keygen\", 32 bytes) written out from RFC 5869")
	c.Assume("'cannot resume' for a parent holding a different secret is judged on the working session: no application message is delivered in either direction (the resumption exchange itself is answered before any proof of the key; such connections are counted as early_accepts)")
	c.Assume("the parent daemon's side of every session is built by the harness from the intent (CreateNonNegotiatedSession on a canonical AES session info), never from the text under test")
	c.Assume("in process the harness follows registerInheritedSessions (CreateNonNegotiatedSession, SetInherited, Store, MapCommand) because that function is not exported; the real environment path is exercised in child processes, where the command map, the inherited flag, the un-setting of the variable and the accessor functions are compared")
	if inheritreplay.ReplayFile(c, known) {
		return
	}
	mc, gen := "MC_G05_quick.cfg", "Gen_G05_quick.cfg"
	if c.Thorough() {
		mc, gen = "MC_G05.cfg", "Gen_G05_thorough.cfg"
	}
	var wg sync.WaitGroup
	wg.Add(1)
	go func() {
		defer wg.Done()
		kit.ModelCheck(c, "InheritedSession.tla", mc, tlc.Options{Workers: 8})
	}()
	scs := inheritreplay.Parse(c, kit.Generate(c, "Gen_InheritedSession.tla", gen, tlc.Options{}))
	wg.Wait()
	if c.IsBroken() {
		return
	}
	rng := c.Rand("g05")
	var jobs []inheritreplay.Job
	nChild := 0
	for i, sc := range scs {
		if i%97 == 0 {
			c.Sample(map[string]any{"addr": sc.Trace[0].Addr, "rel": sc.Trace[0].Rel, "dm": sc.Trace[0].Dm, "priv": sc.Trace[0].Priv})
		}
		v := inheritreplay.Variant{KeySeed: rng.Int63(), Other: others[(i+int(c.Seed))%len(others)], EnvNames: "plain"}
		if (i+int(c.Seed))%5 == 0 {
			v.EnvNames = "underscore"
		}
		jobs = append(jobs, inheritreplay.Job{Sc: sc, V: v})
		// the environment path (one child process per execution). thorough: every
		// behaviour in which the parent holds the secret and every third of the others;
		// quick: every same-secret behaviour that is not a single well-formed triple,
		// every third of those, and every seventh of the different-secret ones
		items := sc.Trace[0].Items
		plain := len(items) == 1 && items[0].Class == "wf"
		same := sc.Trace[0].Rel == "same"
		var viaChild bool
		if c.Thorough() {
			viaChild = same || i%3 == 0
		} else {
			viaChild = (same && (!plain || i%3 == 0)) || (!same && i%7 == 0)
		}
		if viaChild {
			v.Child = true
			jobs = append(jobs, inheritreplay.Job{Sc: sc, V: v})
			nChild++
		}
	}
	var st inheritreplay.Stats
	inheritreplay.ReplayAll(c, jobs, &st, known)
	c.Set("behaviours_replayed_in_process", len(scs))
	c.Set("behaviours_replayed_through_child_processes", nChild)
	c.Set("real_api_calls", st.RealCalls)
	c.Set("real_handshakes", st.Handshakes)
	c.Set("child_processes", st.Children)
	c.Set("command_map_probes", st.Probes)
	c.Set("either_triples_made_into_an_entry", st.EitherMade)
	c.Set("either_triples_skipped", st.EitherNone)
	c.Set("early_accepts_wrong_secret_handler_entered_before_key_proof", st.EarlyAccept)
	c.Set("by_command_connections_that_found_no_usable_session_and_negotiated_afresh", st.FreshHandshakes)
	c.Set("exhaustive", c.Thorough())
	c.Set("rule", "behaviours = scenarios (the well-formed single triples: kind x claim-id form x cipher list x expiry x commands x version, all 288 in thorough and a pair-covering third in quick, with address shape / white space rotated; the standard parent+family pairs; every near miss alone, before and after a well-formed mate; duplicates; triples with an unknown prefix over every CONDOR_INHERIT shape) x {parent holds the secret, parent holds another} x direction / mode (one or two rotated in quick, all four in thorough), enumerated by TLC from Gen_InheritedSession; each behaviour is executed in process (exported API, memory pipe) and a selection (thorough: all same-secret and a third of the others; quick: the same-secret ones that are not a single well-formed triple, a third of those, a seventh of the others) also in a child process through the environment path with unix sockets; distinct = distinct (scenario, relation, mode, other-secret class, variable names, path)")
}
