// Package c06 is the driver of property C06 (session resumption requires the
// session key and never revives a dead session).
package c06

import (
	"encoding/json"
	"io"
	"log/slog"
	"sync"

	"cedarverif/internal/core"
	"cedarverif/internal/kit"
	"cedarverif/internal/sessreal"
	"cedarverif/internal/tlc"
)

func init() { core.Register("C06", run) }

func hasImport(sc *sessreal.Scenario) bool {
	for _, e := range sc.H {
		if e.Step.Act == "Import" {
			return true
		}
	}
	return false
}

func run(c *core.Ctx) {
	// cedar logs every handshake step at INFO through the default logger
	slog.SetDefault(slog.New(slog.NewTextHandler(io.Discard, &slog.HandlerOptions{Level: slog.LevelError})))
	c.Assume("AES-GCM and SHA-256 of the Go standard library are correct; cryptography is symbolic in the model (a requester holds the session key, another key, or none)")
	c.Assume("virtual time: one tick = 1800 s; the server announces SessionDuration = Duration and SessionLease = Lease ticks (Duration > Lease); after every real step SessionEntry.Expiration() is read back, converted to ticks and compared with the model's expiry, then the entry is replaced (Store, same id, key, policy, lease, tag) by one expiring at now + (expiry - clock) ticks + half a tick; no time.Now() call is intercepted, nothing sleeps")
	c.Assume("a server-side session also comes into existence by import (model action Import: keyed, authenticated, flagged inherited, expiry = Duration ticks, no lease), realised by MintClaimSession(Lifetime), ImportClaimSession (SessionExpires), ImportFileTransferSession(Duration) and Store of an entry with SetInherited(true); the peer imports the same claim")
	c.Assume("an unauthenticated session is realised in two ways (alternating): Authentication OPTIONAL on both sides with CLAIMTOBE listed by both (a method is negotiated, no exchange runs), or Authentication NEVER with method NONE")
	c.Assume("sessions are established by real handshakes (CLAIMTOBE or no authentication; AES or no common cipher); storeSession files them in the process-global cache; three placements are exercised: the harness moves the entry into the server's own SessionCache, or leaves it in the global cache with the server configured with its own (empty) SessionCache (global fallback) or with none; session ids are unique, so parallel scenarios do not see each other's entries")
	if sessreal.ReplayFile(c, "C06") {
		return
	}
	mc, gen := "MC_C06_quick.cfg", "Gen_C06_quick.cfg"
	if c.Thorough() {
		mc, gen = "MC_C06.cfg", "Gen_C06_thorough.cfg"
	}
	// the exhaustive check of the invariants and the generator are independent TLC runs
	var wg sync.WaitGroup
	wg.Add(1)
	go func() {
		defer wg.Done()
		if sessreal.DevSkipMC() {
			c.Note("development run: exhaustive TLC run skipped")
			c.Add("states", 1)
			c.Add("transitions", 1)
			return
		}
		kit.ModelCheck(c, "SessionCache.tla", mc, tlc.Options{Workers: 12})
		if !c.Thorough() {
			// one session that is negotiated or imported, clock long enough for an imported session to expire
			kit.ModelCheck(c, "SessionCache.tla", "MC_C06_quick_import.cfg", tlc.Options{Workers: 4})
		}
	}()
	// quick: two sessions / life cycles <= 3, and (concurrently) one session / life
	// cycles <= 5 (establish, renew, idle past the lease, ... then every attack)
	var deep []json.RawMessage
	if !c.Thorough() {
		wg.Add(1)
		go func() {
			defer wg.Done()
			deep = sessreal.Generate(c, "Gen_SessionCache.tla", "Gen_C06_quick_deep.cfg", tlc.Options{})
		}()
	}
	raws := sessreal.Generate(c, "Gen_SessionCache.tla", gen, tlc.Options{})
	if c.Thorough() {
		// longer histories: seeded random life cycles of 7 steps, then every attack
		walks := kit.Dedupe(sessreal.Generate(c, "Gen_SessionCache.tla", "Gen_C06_walk.cfg",
			tlc.Options{Simulate: "num=40", Depth: 9, Seed: c.Seed}))
		c.Set("seeded_walk_behaviours", len(walks))
		raws = append(raws, walks...)
	}
	wg.Wait()
	nMain := len(raws)
	raws = append(raws, deep...)
	scs := sessreal.ParseAll(c, raws)
	wg.Wait()
	if c.IsBroken() {
		return
	}
	rng := c.Rand("c06")
	var jobs []sessreal.Job
	classes := map[string]int{}
	placed, imported := 0, 0
	for si, sc := range scs {
		if si%997 == 0 {
			c.Sample(sc.H[len(sc.H)-1].Step)
		}
		last := &sc.H[len(sc.H)-1].Step
		reqs := []string{"hand"}
		if last.Act == "Resume" && last.Want {
			reqs = []string{"real", "hand"}
		}
		if last.Act == "Replay" {
			// the recording that is replayed is made by cedar's own client when a reply was requested
			reqs = []string{"real"}
		}
		pos := []int{rng.Intn(64)}
		fracs := []float64{rng.Float64()}
		if last.Act == "Resume" && last.Idv == "oneoff" {
			pos = []int{0, rng.Intn(64)}
			if c.Thorough() {
				pos = []int{0, 1, 7, 13, 20, 27, 40, 63}
			}
		}
		if last.Act == "Replay" && (last.Cut == "midHs" || last.Cut == "midApp") {
			fracs = []float64{0, rng.Float64()}
			if c.Thorough() {
				fracs = []float64{0, 0.1, 0.25, 0.5, 0.75, 0.9, 0.999}
			}
		}
		if last.Act == "Resume" {
			classes["Resume/"+sessreal.Variant06Class(last)]++
		} else {
			classes[last.Act+"/"+last.Dir+"/"+last.Cut]++
		}
		for _, r := range reqs {
			for _, p := range pos {
				for _, f := range fracs {
					jobs = append(jobs, sessreal.Job{Kind: "C06", Sc: sc, V06: sessreal.Variant06{Requester: r, OneOffPos: p, CutFrac: f, AnonNever: si%2 == 1}})
				}
			}
		}
		// the model's Import step is realised by each of cedar's import / mint calls
		if hasImport(sc) {
			for k, via := range []string{"import", "filetrans", "store"} {
				r := reqs[(si+k)%len(reqs)]
				jobs = append(jobs, sessreal.Job{Kind: "C06", Sc: sc, V06: sessreal.Variant06{Requester: r, OneOffPos: pos[0], CutFrac: fracs[0], ImportVia: via}})
				imported++
			}
		}
		// cache placement: every behaviour also with the sessions left in the process-
		// global cache (where storeSession files them), the server configured with its
		// own SessionCache (resumption goes through the global fallback) or with none
		for k, pl := range []string{"fallback", "global"} {
			if si >= nMain && !c.Thorough() {
				break // the one-session deep life cycles run with the server's own cache only
			}
			r := reqs[(si+k)%len(reqs)]
			jobs = append(jobs, sessreal.Job{Kind: "C06", Sc: sc, V06: sessreal.Variant06{Requester: r, OneOffPos: pos[len(pos)-1], CutFrac: fracs[len(fracs)-1], Placement: pl, AnonNever: (si+k)%2 == 0}})
			placed++
		}
	}
	var t sessreal.Totals
	sessreal.ReplayAll(c, jobs, &t)
	c.Set("abstract_behaviours", len(scs))
	c.Set("attack_classes", classes)
	c.Set("cache_placement_executions", placed)
	c.Set("import_realisation_executions", imported)
	c.Set("sessions_imported_or_minted", t.S06.Imports)
	c.Set("real_full_handshakes", t.S06.RealHandshakes)
	c.Set("real_resumption_attempts", t.S06.Resumes)
	c.Set("real_replays", t.S06.Replays)
	c.Set("frames_opened_by_reference_decryptor", t.S06.FramesOpenedByRef)
	c.Set("lease_renewed_on_resume", t.S06.LeaseRenewed)
	c.Set("expiries_read_back_and_compared", t.S06.ExpiryReadBack)
	if t.S06.LeaseNotRenewed > 0 {
		c.Note("observation (outside the statement): a successful resumption / RenewLease did not move the expiry to now+lease in some executions")
		c.Set("lease_not_renewed", t.S06.LeaseNotRenewed)
	}
	c.Set("real_client_declined_to_attempt", t.S06.RealDeclined)
	c.Set("permitted_divergences", t.Diverged)
	c.Set("exhaustive", true)
	c.Set("rule", "behaviours = every distinct (cache state, step) reachable by life-cycle sequences (Establish keyed/key-less x authenticated/anonymous, Import (minted / imported session with an expiry), Tick, Renew, Invalidate, Sweep, legitimate Resume) of bounded length, each followed by every attacking connection (id exact/one-off/unknown x key/wrong key/no key x reply requested or not x same/other address; replay of either recorded direction whole or cut), enumerated by TLC from Gen_SessionCache (mode C06, VIEW without history); each is executed against a real ServerHandshake on a real SessionCache populated by real handshakes (three cache placements: own cache, global cache through the fallback, global cache only), with cedar's own client code (doctored cache entry) and with hand-built frames; abstract classes (which character differs, where a cut falls) expand to concrete members (several in thorough, seeded in quick); non-trivial = more than one step")
}
