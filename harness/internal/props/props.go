// Package props links every property check into the verif binary.
package props
