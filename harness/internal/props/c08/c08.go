// Package c08 is the driver of property C08 (ClassAds survive the wire; decoder
// shortcuts agree with the full parser).
package c08

import (
	"sync"

	"cedarverif/internal/adwire"
	"cedarverif/internal/core"
	"cedarverif/internal/kit"
	"cedarverif/internal/tlc"
)

func init() { core.Register("C08", run) }

func run(c *core.Ctx) {
	c.Assume("the classad library's full parser (parser.ParseExpr) is the oracle for the value of a rendered text; the statement of C08 defines correctness that way; a text it rejects is outside the statement")
	c.Assume("a lone '-' directly applied to a numeric literal is the same typed value as the negative literal (semantic comparison)")
	c.Assume("the skipping receiver on a marker + secret item (keyed, non-encrypting stream, IncludePrivate) is outside the statement (DESIGN section 7 observation); measured and reported as an observation only")
	c.Assume("the size-limited receiver GetClassAdWithMaxSize may refuse an ad with a clean error for any byte budget except 0 (documented as unlimited) and a budget of at least the whole message; whenever it returns success it is the parsing receiver of the statement: same ad, same type names, same consumption")
	if c.Replay != "" {
		sc, kind, ok := adwire.ReadReplay(c)
		if !ok {
			return
		}
		switch kind {
		case "LiteralShortcut":
			adwire.ReplayLitCase(c, sc)
		case "ClassAdWire":
			adwire.ReplayAdFile(c, sc)
		case "ItemSplit":
			adwire.ReplaySplitCase(c, sc)
		default:
			c.Broken("replay file of unknown kind %q", kind)
		}
		return
	}
	mcLit, genLit := "MC_C08_lit_quick.cfg", "Gen_C08_lit_quick.cfg"
	if c.Thorough() {
		mcLit, genLit = "MC_C08_lit.cfg", "Gen_C08_lit_thorough.cfg"
	}
	// the six TLC runs are independent of each other
	var wg sync.WaitGroup
	var litRows []adwire.LitRow
	var wireRows, stimeRows []adwire.WireRow
	okLit, okWire, okStime := false, false, false
	var splitRows []adwire.SplitRow
	genSplit := "Gen_C08_split_quick.cfg"
	if c.Thorough() {
		genSplit = "Gen_C08_split_thorough.cfg"
	}
	wg.Add(7)
	go func() { // model check (SplitAtFirstEq) and enumeration in one run
		defer wg.Done()
		splitRows = adwire.ParseSplitRows(c, kit.Generate(c, "Gen_ItemSplit.tla", genSplit, tlc.Options{}))
	}()
	go func() {
		defer wg.Done()
		okStime = kit.ModelCheck(c, "ClassAdWire.tla", "MC_C08_stime.cfg", tlc.Options{Workers: 2}) != nil
	}()
	go func() {
		defer wg.Done()
		stimeRows = adwire.ParseWireRows(c, kit.Generate(c, "Gen_ClassAdWire.tla", "Gen_C08_stime.cfg", tlc.Options{}))
	}()
	go func() {
		defer wg.Done()
		okLit = kit.ModelCheck(c, "LiteralShortcut.tla", mcLit, tlc.Options{Workers: 5}) != nil
	}()
	go func() {
		defer wg.Done()
		litRows = adwire.ParseLitRows(c, kit.Generate(c, "Gen_LiteralShortcut.tla", genLit, tlc.Options{}))
	}()
	go func() {
		defer wg.Done()
		okWire = kit.ModelCheck(c, "ClassAdWire.tla", "MC_C08_wire.cfg", tlc.Options{Workers: 5}) != nil
	}()
	go func() {
		defer wg.Done()
		wireRows = adwire.ParseWireRows(c, kit.Generate(c, "Gen_ClassAdWire.tla", "Gen_C08_wire.cfg", tlc.Options{}))
	}()
	wg.Wait()
	if c.IsBroken() || !okLit || !okWire || !okStime {
		return
	}

	// (1) every text over the literal alphabet, with the predicted class / branch
	st := adwire.ReplayLiterals(c, litRows)
	adwire.RunLitCases(c, st, adwire.NumericExtremes())
	st.Publish(c)
	for i := 0; i < len(litRows) && i < 2; i++ {
		c.Sample(litRows[len(litRows)/2+i])
	}

	// (1b) every raw item text over the spacing alphabet: first-'=' split, three receivers agree
	sp := adwire.ReplaySplit(c, splitRows)
	sp.Publish(c)

	// (2) ad shapes x value pool (grammar expressions, strings) x sender APIs x framings x receivers
	pool, counts := adwire.ExprPool(c.Thorough(), c.Rand("c08-expr"))
	c.Set("value_pool", counts)
	scs := adwire.C08Scenarios(c, wireRows, pool)
	scs = append(scs, adwire.LargeAdScenarios(c)...)
	st8 := adwire.C08StimeScenarios(c, stimeRows)
	scs = append(scs, st8...)
	c.Set("servertime_dimension_rows", len(stimeRows))
	c.Set("servertime_dimension_scenarios", len(st8))
	c.Set("ad_shape_rows", len(wireRows))
	c.Set("ad_scenarios", len(scs))
	if len(scs) > 2 {
		c.Sample(scs[len(scs)/3])
		c.Sample(scs[2*len(scs)/3])
	}
	t := adwire.RunScenarios(c, scs)
	t.Publish(c, "wire_")
	c.Set("exhaustive", true)
	c.Set("rule", "cases = (a) every token sequence over the 15-token literal alphabet up to the tier's length, enumerated by TLC with its predicted grammar class and fast-path branch, each sent as `A = <text>` through PutClassAdRaw -> real stream -> GetClassAd in two concretisations (canonical on a plain stream, seeded on an encrypting stream) and compared with the full parser; (a2) every item text over {name char, blank, '=', value char, quote} up to the tier's length whose name is an identifier (Gen_ItemSplit, with its reference split and spacing class) plus hand-expanded items with '=' inside strings and calls, sent as ONE pre-rendered item by PutClassAdRaw / PutClassAdRawBytes on plain and encrypting streams: GetClassAd / GetClassAdWithMaxSize must yield exactly the attribute named by the trimmed text before the first '=' with the value the full parser assigns to the trimmed rest, and agree with GetClassAdRaw / SkipClassAdRaw on consumption; (b) every ad shape of Gen_ClassAdWire (0..3 attributes public/private x option word x stream state x type names x cut plan; plus the ServerTime dimension: option on/off x the ad carries its own ServerTime attribute in lower/upper/mixed case or not) carrying the values of the grammar pool (all productions to depth 1, depth 2 over every depth-1 expression, all strings over a 15-character set to the tier's length, seeded deeper nesting), sent by every sender API (PutClassAdRawBytes with all expressions in one shared scratch buffer passed as sub-slices, the buffer compared afterwards), decoded from the sender's framing and from reference re-framings by GetClassAd / GetClassAdWithMaxSize / GetClassAdRaw / SkipClassAdRaw, and by GetClassAdWithMaxSize under every byte budget from 0 to past the message (every shape x sender once; field boundaries +-1 on the repetitions): a clean error or exactly the unlimited result; distinct = distinct scenario; non-trivial = the parser assigns the text an expression (a) / the ad has an attribute (b)")
}
