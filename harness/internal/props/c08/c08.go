// Package c08 is the driver of property C08 (ClassAds survive the wire; decoder
// shortcuts agree with the full parser).
package c08

import (
	"cedarverif/internal/adwire"
	"cedarverif/internal/core"
	"cedarverif/internal/kit"
	"cedarverif/internal/tlc"
)

func init() { core.Register("C08", run) }

func run(c *core.Ctx) {
	c.Assume("the classad library's full parser (parser.ParseExpr) is the oracle for the value of a rendered text; the statement of C08 defines correctness that way")
	if adwire.ReplayFileC08(c) {
		return
	}
	mc, gen := "MC_C08_lit_quick.cfg", "Gen_C08_lit_quick.cfg"
	if c.Thorough() {
		mc, gen = "MC_C08_lit.cfg", "Gen_C08_lit_thorough.cfg"
	}
	if kit.ModelCheck(c, "LiteralShortcut.tla", mc, tlc.Options{Workers: 16}) == nil {
		return
	}
	rows := adwire.ParseLitRows(c, kit.Generate(c, "Gen_LiteralShortcut.tla", gen, tlc.Options{}))
	if c.IsBroken() {
		return
	}
	st := adwire.ReplayLiterals(c, rows)
	adwire.RunLitCases(c, st, adwire.NumericExtremes())
	st.Publish(c)
}
