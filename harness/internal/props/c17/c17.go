// Package c17 is the driver of property C17 (shared state is safe under
// concurrency): TLC model-checks the lock discipline of the session cache
// (SessionCacheLocks.tla), generates the conflict relation of its operations,
// child processes of this (race-enabled) binary hammer the real code, the race
// detector's log is attributed to function pairs, and the recorded call/return
// histories are validated by TLC against the sequential cache specification.
package c17

import (
	"encoding/json"
	"fmt"
	"os"
	"os/exec"
	"path/filepath"
	"regexp"
	"sort"
	"strconv"
	"strings"
	"sync"
	"time"

	"cedarverif/internal/c17drv"
	"cedarverif/internal/core"
	"cedarverif/internal/kit"
	"cedarverif/internal/tlc"
)

func init() {
	// hidden sub-command: the same binary re-executed as a stress child
	if p := os.Getenv(c17drv.ChildEnv); p != "" {
		c17drv.ChildMain(p)
	}
	core.Register("C17", run)
}

const specName = "SessionCacheLocks"

type scenario struct {
	Kind    string          `json:"kind"` // "race" | "history" | "functional" | "alloc"
	Job     *c17drv.Job     `json:"job,omitempty"`
	Race    string          `json:"race,omitempty"`
	Outcome string          `json:"outcome,omitempty"`
	Episode *c17drv.Episode `json:"episode,omitempty"`
	Report  string          `json:"report,omitempty"`
}

type childRun struct {
	job   c17drv.Job
	res   c17drv.ChildResult
	races []c17drv.RaceReport
	err   error
	crash string // stderr of a child killed by the Go runtime ("fatal error: concurrent map writes")
	wall  time.Duration
}

var childSerial int
var childMu sync.Mutex

// runChild re-executes this binary as a stress child and collects its result
// file and its race log.
func runChild(c *core.Ctx, job c17drv.Job) *childRun {
	childMu.Lock()
	childSerial++
	n := childSerial
	childMu.Unlock()
	dir := filepath.Join(c.Tmp, fmt.Sprintf("c17-child-%d", n))
	cr := &childRun{job: job}
	if err := os.MkdirAll(dir, 0o755); err != nil {
		cr.err = err
		return cr
	}
	job.Out = filepath.Join(dir, "result.json")
	cr.job = job
	jb, _ := json.Marshal(job)
	jobFile := filepath.Join(dir, "job.json")
	if err := os.WriteFile(jobFile, jb, 0o644); err != nil {
		cr.err = err
		return cr
	}
	racePrefix := filepath.Join(dir, "race")
	cmd := exec.Command(os.Args[0])
	env := []string{}
	for _, e := range os.Environ() {
		if strings.HasPrefix(e, "GORACE=") || strings.HasPrefix(e, "GOMAXPROCS=") || strings.HasPrefix(e, "CEDAR_VERIF_TRACE_DIR=") {
			continue // no trace sink in the child: the stream hook's sequence counter is not meant for two goroutines
		}
		env = append(env, e)
	}
	env = append(env, c17drv.ChildEnv+"="+jobFile,
		"GORACE=log_path="+racePrefix+" exitcode=0 halt_on_error=0",
		"GOMAXPROCS="+strconv.Itoa(job.Procs))
	cmd.Env = env
	var errBuf strings.Builder
	cmd.Stderr = &errBuf
	t0 := time.Now()
	done := make(chan error, 1)
	if err := cmd.Start(); err != nil {
		cr.err = err
		return cr
	}
	go func() { done <- cmd.Wait() }()
	select {
	case err := <-done:
		if err != nil {
			if strings.Contains(errBuf.String(), "fatal error: concurrent map") {
				// the runtime's own detector of unsynchronised map access killed the child:
				// an observation on the real code, like a race report
				cr.crash = errBuf.String()
				cr.races, _ = c17drv.ParseRaceLogs(racePrefix)
				cr.wall = time.Since(t0)
				return cr
			}
			cr.err = fmt.Errorf("child: %v: %s", err, kit.FirstLines(errBuf.String(), 8))
		}
	case <-time.After(15 * time.Minute):
		_ = cmd.Process.Kill()
		cr.err = fmt.Errorf("child timed out (phases %v)", job.Phases)
	}
	cr.wall = time.Since(t0)
	if cr.err != nil {
		return cr
	}
	b, err := os.ReadFile(job.Out)
	if err != nil {
		cr.err = err
		return cr
	}
	if err := json.Unmarshal(b, &cr.res); err != nil {
		cr.err = err
		return cr
	}
	cr.races, cr.err = c17drv.ParseRaceLogs(racePrefix)
	return cr
}

func runChildren(c *core.Ctx, jobs []c17drv.Job, parallel int) []*childRun {
	out := make([]*childRun, len(jobs))
	core.ParallelFor(len(jobs), parallel, func(i int) { out[i] = runChild(c, jobs[i]) })
	return out
}

// parsePairs normalises and deduplicates the conflict pairs emitted by TLC.
func parsePairs(c *core.Ctx, raws []json.RawMessage) []c17drv.Pair {
	seen := map[string]bool{}
	var out []c17drv.Pair
	for _, r := range raws {
		var v struct {
			Scn struct {
				A, B   string
				Fields []string
			} `json:"scn"`
		}
		if err := json.Unmarshal(r, &v); err != nil {
			c.Broken("cannot parse generated pair %s: %v", r, err)
			return nil
		}
		a, b := v.Scn.A, v.Scn.B
		if a > b {
			a, b = b, a
		}
		sort.Strings(v.Scn.Fields)
		k := a + "|" + b
		if seen[k] {
			continue
		}
		seen[k] = true
		out = append(out, c17drv.Pair{A: a, B: b, Field: strings.Join(v.Scn.Fields, ",")})
	}
	sort.Slice(out, func(i, j int) bool {
		// expiry conflicts first: they involve the entry lock, the subtle part
		if (out[i].Field != "map") != (out[j].Field != "map") {
			return out[i].Field != "map"
		}
		return out[i].A+out[i].B < out[j].A+out[j].B
	})
	return out
}

var reRejected = regexp.MustCompile(`C17-REJECTED-EPISODE", (\d+)`)

// validateHistories checks the episodes with TLC (four chunks in parallel); it
// returns the number of accepted episodes and the rejected ones.
func validateHistories(c *core.Ctx, eps []c17drv.Episode) (accepted int, rejected []c17drv.Episode) {
	chunks := 4
	if len(eps) > 400 {
		chunks = 8
	}
	var mu sync.Mutex
	core.ParallelFor(chunks, chunks, func(k int) {
		lo, hi := k*len(eps)/chunks, (k+1)*len(eps)/chunks
		if lo == hi {
			return
		}
		a, r := validateChunk(c, eps[lo:hi], k)
		mu.Lock()
		accepted += a
		rejected = append(rejected, r...)
		mu.Unlock()
	})
	return
}

func validateChunk(c *core.Ctx, eps []c17drv.Episode, chunk int) (accepted int, rejected []c17drv.Episode) {
	rest := eps
	round := 0
	for len(rest) > 0 {
		round++
		file := filepath.Join(c.Tmp, fmt.Sprintf("c17-hist-%d-%d.ndjson", chunk, round))
		evs := make([]any, len(rest))
		for i := range rest {
			evs[i] = rest[i]
		}
		if err := tlc.WriteNDJSON(file, evs); err != nil {
			c.Broken("cannot write history file: %v", err)
			return
		}
		ok, res := kit.ValidateTrace(c, specName+"_Trace.tla", specName+"_Trace.cfg", file, tlc.Options{DFS: true, Timeout: 25 * time.Minute})
		if res == nil || c.IsBroken() {
			return
		}
		if ok {
			accepted += len(rest)
			return
		}
		m := reRejected.FindStringSubmatch(res.Output)
		if m == nil || !res.PostFalse {
			c.Broken("TLC %s_Trace: not a linearizability verdict: %s %s", specName, res.Violated, kit.FirstLines(res.ErrorText, 8))
			return
		}
		k, _ := strconv.Atoi(m[1])
		if k < 1 || k > len(rest) {
			c.Broken("TLC %s_Trace: rejected episode index %d out of range", specName, k)
			return
		}
		accepted += k - 1
		rejected = append(rejected, rest[k-1])
		rest = rest[k:]
		if len(rejected) >= 2 {
			return
		}
	}
	return
}

func historyFailure(c *core.Ctx, ep c17drv.Episode) {
	c.Fail(core.Failure{
		Signature: map[string]string{"spec": specName, "check": "linearizability"},
		Detail: fmt.Sprintf("a call/return history recorded from the real SessionCache (%d goroutines, %d events, episode seed %d) has no linearization "+
			"that the sequential cache specification accepts (lost invalidation, torn or stale result)", ep.Ng, len(ep.Ev), ep.Seed),
		Scenario: scenario{Kind: "history", Episode: &ep},
	})
}

// writerOf names the cedar function(s) performing the write(s) of a race.
func writerOf(r c17drv.RaceReport) string {
	var w []string
	if r.KindA == "write" {
		w = append(w, r.FuncA)
	}
	if r.KindB == "write" && (len(w) == 0 || w[0] != r.FuncB) {
		w = append(w, r.FuncB)
	}
	sort.Strings(w)
	return strings.Join(w, "|")
}

func raceFailures(c *core.Ctx, runs []*childRun, onlyPair ...string) (reports int, pairs map[string]int) {
	pairs = map[string]int{}
	first := map[string]bool{}
	for _, cr := range runs {
		if cr.crash != "" {
			fn := c17drv.FirstCedarFunc(cr.crash)
			job := cr.job
			job.Out = ""
			reports++
			pairs["fatal:"+fn]++
			if !first["fatal:"+fn] {
				first["fatal:"+fn] = true
				c.Fail(core.Failure{
					Signature: map[string]string{"spec": specName, "race": "runtime concurrent map access|" + fn, "writer": fn},
					Detail:    "the Go runtime aborted the stress child: " + kit.FirstLines(cr.crash, 3),
					Scenario:  scenario{Kind: "race", Job: &job, Race: "fatal:" + fn, Report: kit.FirstLines(cr.crash, 40)},
				})
			}
		}
		for _, r := range cr.races {
			reports++
			if !r.InCedar() {
				c.Broken("the race detector reported a race with no cedar frame (harness bug?): %s", kit.FirstLines(r.Text, 14))
				continue
			}
			p := r.Pair()
			if len(onlyPair) > 0 && onlyPair[0] != p {
				continue
			}
			writer := writerOf(r)
			pairs[p]++
			if first[p] {
				continue
			}
			first[p] = true
			job := cr.job
			job.Out = ""
			c.Fail(core.Failure{
				Signature: map[string]string{"spec": specName, "race": p, "writer": writer},
				Detail: fmt.Sprintf("Go race detector: %s at %s (%s) vs %s at %s (%s), phases %v, GOMAXPROCS=%d",
					r.KindA, r.LocA, r.FuncA, r.KindB, r.LocB, r.FuncB, cr.job.Phases, cr.job.Procs),
				Scenario: scenario{Kind: "race", Job: &job, Race: p, Report: kit.FirstLines(r.Text, 40)},
			})
		}
	}
	return
}

func replay(c *core.Ctx) bool {
	if c.Replay == "" {
		return false
	}
	b, err := os.ReadFile(c.Replay)
	if err != nil {
		c.Broken("cannot read replay file: %v", err)
		return true
	}
	var rf struct {
		Scenario scenario `json:"scenario"`
	}
	if err := json.Unmarshal(b, &rf); err != nil {
		c.Broken("cannot parse replay file: %v", err)
		return true
	}
	sc := rf.Scenario
	switch sc.Kind {
	case "history":
		acc, rej := validateHistories(c, []c17drv.Episode{*sc.Episode})
		c.Add("traces_validated_against_impl", int64(acc))
		for _, e := range rej {
			historyFailure(c, e)
		}
	case "race", "functional":
		// schedule-dependent: run the recorded job up to five times
		for try := 0; try < 5 && c.Failures() == 0; try++ {
			job := *sc.Job
			job.Seed += int64(try)
			cr := runChild(c, job)
			if cr.err != nil {
				c.Broken("child: %v", cr.err)
				return true
			}
			c.Eval(fmt.Sprintf("replay/%d", try), true)
			if sc.Kind == "race" {
				raceFailures(c, []*childRun{cr}, sc.Race)
			} else {
				functionalFailures(c, []*childRun{cr}, nil)
			}
		}
	case "alloc":
		for try := 0; try < 5 && c.Failures() == 0; try++ {
			cr := runChild(c, *sc.Job)
			if cr.err != nil {
				c.Broken("child: %v", cr.err)
				return true
			}
			allocFailures(c, []*childRun{cr}, nil)
		}
	default:
		c.Broken("replay file has unknown scenario kind %q", sc.Kind)
	}
	return true
}

// functionalFailures reports handshake / stream disturbances. rerun (if not
// nil) re-executes a job to see whether a disturbance reproduces.
func functionalFailures(c *core.Ctx, runs []*childRun, rerun func(job c17drv.Job) *childRun) {
	for _, cr := range runs {
		for phase, st := range cr.res.Net {
			if len(st.Fails) == 0 {
				continue
			}
			kinds := map[string]string{}
			for _, f := range st.Fails {
				if _, ok := kinds[f.Kind]; !ok {
					kinds[f.Kind] = f.Detail
				}
			}
			if d, ok := kinds["driver"]; ok {
				c.Broken("phase %s: scripted peer / driver problem: %s", phase, d)
				continue
			}
			envProblem := ""
			for k, d := range kinds {
				for _, pat := range []string{"deadline exceeded", "i/o timeout", "connection refused", "too many open files", "cannot assign requested address"} {
					if strings.Contains(d, pat) {
						envProblem = k + ": " + d
					}
				}
			}
			if envProblem != "" {
				c.Broken("phase %s hit an environment limit, not a property violation: %s", phase, envProblem)
				continue
			}
			if phase == "handshake_seq" || phase == "manager_seq" {
				c.Broken("sequential baseline handshakes fail (driver or environment problem): %v", kinds)
				continue
			}
			confirmed := rerun == nil
			for k := range kinds {
				// a duplicated session id seen by two handshakes is the same defect the
				// allocation hammer of this run has already confirmed by its re-run
				if _, isAlloc := allocChecks[k]; isAlloc && allocConfirmed {
					confirmed = true
				}
			}
			if rerun != nil && !confirmed {
				job := cr.job
				job.Phases = []string{phase}
				for try := 0; try < 3 && !confirmed; try++ {
					r2 := rerun(job)
					if r2.err != nil {
						c.Broken("child: %v", r2.err)
						break
					}
					if len(r2.res.Net[phase].Fails) > 0 {
						confirmed = true
					}
					raceFailures(c, []*childRun{r2})
				}
			}
			if !confirmed {
				c.Broken("functional disturbance in phase %s did not reproduce on re-run (flaky): %v", phase, kinds)
				continue
			}
			action := "SharedConfigHandshakes"
			switch phase {
			case "duplex":
				action = "DuplexStream"
			case "manager":
				action = "SharedManagerHandshakes"
			case "fresh":
				action = "SharedPerCommandPolicyHandshakes"
			case "ccb":
				action = "CCBListenerBrokerStream"
			}
			ks := make([]string, 0, len(kinds))
			for k := range kinds {
				ks = append(ks, k)
			}
			sort.Strings(ks)
			for _, k := range ks {
				job := cr.job
				job.Phases = []string{phase}
				job.Out = ""
				sig := map[string]string{"spec": specName, "action": action, "outcome": k}
				if chk, isAlloc := allocChecks[k]; isAlloc {
					sig = map[string]string{"spec": allocSpec, "check": chk, "path": "handshake/" + phase}
				}
				c.Fail(core.Failure{
					Signature: sig,
					Detail: fmt.Sprintf("%d of %d concurrent operations of phase %s were disturbed (the same operations succeed one at a time); first: %s",
						len(st.Fails), st.Handshakes, phase, kinds[k]),
					Scenario: scenario{Kind: "functional", Job: &job, Outcome: k},
				})
			}
		}
	}
}

const allocSpec = "SessionIdAlloc"

// allocConfirmed: an allocation hammer of this run found and re-found a duplicate
var allocConfirmed bool

// outcomes of the network phases that belong to SessionIdAlloc.tla
var allocChecks = map[string]string{
	"duplicate_session_id":    "unique-session-id",
	"own_session_not_resumed": "resumes-own-session",
	"session_replaced":        "no-foreign-replace",
}

// allocFailures judges the session-id allocation hammers (UniqueIds / NoForeignReplace
// of SessionIdAlloc.tla on the real security.GetNextSessionCounter / GenerateSessionID).
// A duplicate is a recorded fact; it is nevertheless confirmed by an immediate re-run
// of the same hammer (DESIGN §5 (ii)).
func allocFailures(c *core.Ctx, runs []*childRun, rerun func(job c17drv.Job) *childRun) (calls, minted, dups int64) {
	reported := map[string]bool{}
	for _, cr := range runs {
		for _, a := range cr.res.Alloc {
			calls += a.Calls
			minted += int64(a.Minted)
			dups += a.DupValues + int64(a.DupIDs)
			c.Eval(fmt.Sprintf("alloc/%d/%d", cr.job.Procs, a.Calls), true)
			bad := map[string]string{}
			if a.DupValues > 0 {
				bad["unique-session-id"] = fmt.Sprintf("security.GetNextSessionCounter handed %d values to more than one of %d concurrent callers (%d calls, GOMAXPROCS=%d), e.g. %s: two handshakes finishing together mint the same session id",
					a.DupValues, a.Goroutines, a.Calls, cr.job.Procs, a.DupExample)
			}
			if a.DupIDs > 0 || a.Stored < a.Minted {
				bad["no-foreign-replace"] = fmt.Sprintf("%d sessions were minted (GenerateSessionID(GetNextSessionCounter())) and stored concurrently, %d ids were handed out twice and the cache holds %d: a Store replaced another handshake's entry",
					a.Minted, a.DupIDs, a.Stored)
			}
			for chk, detail := range bad {
				if reported[chk] {
					continue
				}
				confirmed := rerun == nil
				job := cr.job
				job.Phases = []string{"alloc"}
				for try := 0; try < 3 && !confirmed; try++ {
					r2 := rerun(job)
					if r2.err != nil {
						c.Broken("child: %v", r2.err)
						break
					}
					for _, b := range r2.res.Alloc {
						if (chk == "unique-session-id" && b.DupValues > 0) || (chk == "no-foreign-replace" && (b.DupIDs > 0 || b.Stored < b.Minted)) {
							confirmed = true
						}
					}
				}
				if !confirmed {
					c.Broken("session-id allocation difference (%s) did not reproduce on re-run (flaky): %s", chk, detail)
					continue
				}
				reported[chk] = true
				allocConfirmed = true
				job.Out = ""
				c.Fail(core.Failure{
					Signature: map[string]string{"spec": allocSpec, "check": chk, "path": "GetNextSessionCounter"},
					Detail:    detail,
					Scenario:  scenario{Kind: "alloc", Job: &job, Outcome: chk},
				})
			}
		}
	}
	return
}

func run(c *core.Ctx) {
	c.Assume("the Go race detector has no false positives; a single report on cedar code counts (DESIGN §5 (ii) exception)")
	c.Assume("lock-model atomicity: one action per critical-section step of session_cache.go; time frozen (entries expire 1h in the past / future)")
	c.Assume("history order: call/return stamps come from one atomic counter, so the recorded intervals contain the real operations")
	if !c17drv.RaceEnabled {
		c.Broken("the harness was not built with -race (bin/check builds C17 with -race)")
		return
	}
	if replay(c) {
		return
	}

	// development aid (never set by the registered commands): VERIF_C17_PHASES=mc,cache,net,hist
	only := map[string]bool{}
	if v := os.Getenv("VERIF_C17_PHASES"); v != "" {
		for _, p := range strings.Split(v, ",") {
			only[p] = true
		}
		c.Set("partial_run", v)
		c.Assume("PARTIAL RUN (VERIF_C17_PHASES=" + v + "): not a verdict on the property")
	}
	want := func(p string) bool { return len(only) == 0 || only[p] }

	// 1. the lock model
	cfgs := []string{"MC_C17_quick.cfg", "MC_C17_handshake.cfg"}
	allocCfg := "MC_C17_alloc.cfg" // SessionIdAlloc.tla: minting session ids while handshakes finish together
	if c.Thorough() {
		cfgs = []string{"MC_C17_quick.cfg", "MC_C17_handshake.cfg", "MC_C17_full.cfg", "MC_C17_cmd.cfg", "MC_C17_core.cfg"}
	}
	var mcwg sync.WaitGroup
	mcwg.Add(1)
	go func() {
		defer mcwg.Done()
		if want("mc") && kit.ModelCheck(c, allocSpec+".tla", allocCfg, tlc.Options{Workers: 4, Timeout: 10 * time.Minute}) == nil {
			return
		}
		for _, cfg := range cfgs {
			if !want("mc") {
				return
			}
			if kit.ModelCheck(c, specName+".tla", cfg, tlc.Options{Workers: 12, Timeout: 25 * time.Minute}) == nil {
				return
			}
		}
	}()

	// sizes of the stress
	seed := c.Seed
	pairMs, stressMs, episodes, clients, iters, conns := 70, 1500, 300, 12, 6, 6
	allocN, allocM := 40000, 1500 // per goroutine (16): 640 k counter calls, 24 k minted+stored sessions per child
	procs := []int{2, 4, 16}
	gateMs := 25
	if c.Thorough() {
		gateMs = 120
		pairMs, stressMs, episodes, clients, iters, conns = 400, 20000, 1000, 24, 12, 12
		allocN, allocM = 400000, 10000
		procs = []int{1, 2, 3, 4, 8, 16}
	}

	// 2. network children need nothing from TLC: start them right away
	var netRuns []*childRun
	var netwg sync.WaitGroup
	if want("net") {
		var njobs []c17drv.Job
		for i, p := range procs {
			njobs = append(njobs, c17drv.Job{Phases: []string{"handshake_seq", "handshake", "fresh", "manager_seq", "manager", "duplex"}, Seed: seed*37 + int64(i), Procs: p, Yield: i%2 == 0, Clients: clients, Iters: iters, Conns: conns})
		}
		if c.Thorough() {
			// ccb.NewListener enforces a heartbeat interval >= 30 s: one tick costs a 32 s run, thorough tier only
			njobs = append(njobs, c17drv.Job{Phases: []string{"ccb"}, Seed: seed*41 + 1, Procs: 4},
				c17drv.Job{Phases: []string{"ccb"}, Seed: seed*41 + 2, Procs: 16})
		}
		netwg.Add(1)
		go func() { defer netwg.Done(); netRuns = runChildren(c, njobs, 3) }()
	}

	// 3. the conflict relation of the model -> pairs to hammer
	pairs := parsePairs(c, kit.Generate(c, "Gen_"+specName+".tla", "Gen_C17_pairs.cfg", tlc.Options{}))
	if c.IsBroken() {
		mcwg.Wait()
		netwg.Wait()
		return
	}
	c.Set("conflict_pairs", len(pairs))
	for i, p := range pairs {
		if i < 2 {
			c.Sample(p)
		}
	}

	// 4. cache children (the same binary, race log per child): pair hammers, random stress, recorded histories
	half := (len(pairs) + 1) / 2
	var jobs []c17drv.Job
	if want("hist") {
		// histories: half of the episodes focus on one conflicting pair of the model each
		jobs = append(jobs, c17drv.Job{Phases: []string{"hist"}, Seed: seed, Procs: 4, Episodes: episodes / 2, Pairs: pairs},
			c17drv.Job{Phases: []string{"hist"}, Seed: seed + 7777, Procs: 8, Yield: true, Episodes: episodes - episodes/2, Pairs: pairs},
			// gated schedules: operation A held at its expiry check (hook VerifGate) while operation B runs
			c17drv.Job{Phases: []string{"gated"}, Seed: seed + 99, Procs: 4, Pairs: pairs, PairMs: gateMs})
	}
	for i, p := range procs {
		ps := pairs[:half]
		if i%2 == 1 {
			ps = pairs[half:]
		}
		if c.Thorough() {
			ps = pairs
		}
		if want("cache") {
			jobs = append(jobs, c17drv.Job{Phases: []string{"alloc", "pairs", "stress"}, Seed: seed*31 + int64(i), Procs: p, Yield: i%2 == 1, Pairs: ps, PairMs: pairMs, StressMs: stressMs, StressG: 2 * p, AllocG: 16, AllocN: allocN, AllocM: allocM})
		}
	}
	// histories first: their validation by TLC overlaps with the remaining children
	var eps []c17drv.Episode
	var acc int
	var rej []c17drv.Episode
	var histwg sync.WaitGroup
	nh := 0
	if want("hist") {
		nh = 3
	}
	histRuns := runChildren(c, jobs[:nh], 3)
	for _, cr := range histRuns {
		if cr.err == nil {
			eps = append(eps, cr.res.Episodes...)
		}
	}
	histwg.Add(1)
	go func() { defer histwg.Done(); acc, rej = validateHistories(c, eps) }()
	runs := append(histRuns, runChildren(c, jobs[nh:], 3)...)
	netwg.Wait()
	runs = append(runs, netRuns...)
	histwg.Wait()
	mcwg.Wait()
	if c.IsBroken() {
		return
	}
	var cacheOps, handshakes, resumed, fresh, msgs, mgrHandshakes, mgrEncrypted, ccbReq, ccbRes, ccbHB int64
	usedProcs := map[int]bool{}
	gatedRuns, gatedHeld, gatedInside := 0, 0, 0
	for _, cr := range runs {
		if cr.err != nil {
			c.Broken("stress child (phases %v): %v", cr.job.Phases, cr.err)
			continue
		}
		if cr.crash != "" {
			continue
		}
		if !cr.res.RaceEnabled {
			c.Broken("stress child runs without the race detector")
		}
		usedProcs[cr.res.Procs] = true
		cacheOps += cr.res.CacheOps
		gatedRuns += cr.res.GatedRuns
		gatedHeld += cr.res.GatedHeld
		gatedInside += cr.res.GatedInside
		for k := range cr.res.PairOps {
			c.Eval("pair/"+k+"/"+strconv.Itoa(cr.job.Procs), true)
		}
		for ph, st := range cr.res.Net {
			if ph == "ccb" {
				ccbReq += st.Handshakes
				ccbRes += st.Messages
				ccbHB += st.Resumed
				c.Eval(fmt.Sprintf("net/%s/%d", ph, cr.job.Procs), true)
				continue
			}
			if ph == "manager" || ph == "manager_seq" {
				// one shared SecurityManager per side; Resumed counts the encrypted outcomes here
				mgrHandshakes += st.Handshakes
				mgrEncrypted += st.Resumed
				c.Eval(fmt.Sprintf("net/%s/%d/%v", ph, cr.job.Procs, cr.job.Yield), ph != "manager_seq")
				continue
			}
			handshakes += st.Handshakes
			resumed += st.Resumed
			fresh += st.Fresh
			msgs += st.Messages
			c.Eval(fmt.Sprintf("net/%s/%d/%v", ph, cr.job.Procs, cr.job.Yield), ph != "handshake_seq")
		}
		for _, ph := range cr.job.Phases {
			if ph == "stress" {
				c.Eval(fmt.Sprintf("stress/%d/%v", cr.job.Procs, cr.job.Yield), true)
			}
		}
	}
	if c.IsBroken() {
		return
	}
	if !want("net") {
		handshakes, resumed, fresh, msgs, mgrHandshakes, mgrEncrypted = 1, 1, 1, 1, 1, 1
	}
	if mgrHandshakes == 0 || mgrEncrypted == 0 {
		c.Broken("SecurityManager handshake stress is vacuous: %d handshakes, %d ended encrypted", mgrHandshakes, mgrEncrypted)
	}
	if handshakes == 0 || resumed == 0 || fresh == 0 {
		c.Broken("handshake stress is vacuous: %d handshakes, %d resumed, %d fresh", handshakes, resumed, fresh)
	}
	if msgs == 0 {
		c.Broken("stream stress is vacuous: no message exchanged")
	}

	// 4. what the race detector saw
	reports, racePairs := raceFailures(c, runs)
	c.Set("race_reports", reports)
	c.Set("race_pairs", racePairs)

	// 4b. session-id allocation hammers (SessionIdAlloc.tla on the real allocator)
	aCalls, aMinted, aDups := allocFailures(c, runs, func(job c17drv.Job) *childRun { return runChild(c, job) })
	if want("cache") && aCalls == 0 {
		c.Broken("session-id allocation hammer is vacuous: no call")
	}
	c.Set("session_counter_calls_concurrent", aCalls)
	c.Set("sessions_minted_and_stored_concurrently", aMinted)
	c.Set("session_id_duplicates", aDups)

	// 5. functional disturbances (handshakes sharing one configuration, duplex streams)
	functionalFailures(c, runs, func(job c17drv.Job) *childRun { return runChild(c, job) })

	// 6. histories against the sequential specification (linearizability search by TLC)
	nEv := 0
	for i, e := range eps {
		nEv += len(e.Ev)
		c.Eval(fmt.Sprintf("hist/%d/%d", e.Seed, len(e.Ev)), true)
		if i == 0 {
			c.Sample(map[string]any{"history_episode": e})
		}
	}
	for _, e := range rej {
		historyFailure(c, e)
	}
	c.Add("traces_validated_against_impl", int64(acc))
	c.Set("history_events", nEv)
	if want("hist") && gatedHeld == 0 {
		c.Broken("gated schedules are vacuous: %d run, none held at the expiry-check gate (hook VerifGate missing?)", gatedRuns)
	}
	c.Set("gated_schedules", gatedRuns)
	c.Set("gated_schedules_held_at_expiry_check", gatedHeld)
	c.Set("gated_schedules_partner_returned_inside", gatedInside)
	c.Set("cache_ops_under_race_detector", cacheOps)
	c.Set("handshakes_sharing_one_config", handshakes)
	c.Set("handshakes_resumed", resumed)
	if c.Thorough() && want("net") {
		if ccbReq == 0 || ccbHB == 0 {
			c.Broken("CCB listener phase is vacuous: %d requests, %d heartbeats", ccbReq, ccbHB)
		}
		c.Set("ccb_requests_forwarded", ccbReq)
		c.Set("ccb_results_received", ccbRes)
		c.Set("ccb_heartbeats_on_the_same_stream", ccbHB)
	}
	c.Set("handshakes_through_shared_security_managers", mgrHandshakes)
	c.Set("handshakes_through_shared_security_managers_encrypted", mgrEncrypted)
	c.Set("handshakes_fresh", fresh)
	c.Set("duplex_messages", msgs)
	pl := make([]int, 0, len(usedProcs))
	for p := range usedProcs {
		pl = append(pl, p)
	}
	sort.Ints(pl)
	c.Set("gomaxprocs", pl)
	c.Set("rule", "model: every interleaving of the critical-section steps of 3 goroutines x <=2 cache operations over 2 ids (TLC, invariants LocksetDiscipline, NoTornExpiry, NoLostInvalidate, RefinesSeq, Linearizable); "+
		"binding: every conflicting operation pair of the model (generated by TLC) hammered on the real cache, plus seeded random stress, many clients sharing one SecurityConfig and one cache against one real server whose per-command policy hook returns one shared object (fresh and resuming; plus all-fresh concurrent handshakes), session-id allocation (SessionIdAlloc.tla: UniqueIds, NoForeignReplace, ResumesOwnSession) bound by hammering security.GetNextSessionCounter / GenerateSessionID+Store from 16 goroutines with a uniqueness check, by the uniqueness of every session id a fresh handshake was told, and by resuming EVERY session of the all-fresh storm afterwards; overlapping handshakes through one shared SecurityManager per side (sm.ServerHandshake / sm.ClientHandshake, encrypted echo), and simultaneous send/receive on established streams, all in race-enabled child processes at several GOMAXPROCS with injected yields; "+
		"each distinct pair of racing cedar functions in the race log is one failure; evaluations = pair hammers + stress runs + network phases + recorded histories; gated schedules (operation A held at its expiry check by the VerifGate hook while a conflicting operation B of the model runs: deterministic replay of the model interleavings that split lookup-and-evict); every recorded call/return history (<= ~32 operations, <= 4 goroutines, quiescent post-condition reads included) is validated by TLC against the sequential cache specification as a linearizability search")
}
