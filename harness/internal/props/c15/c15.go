// Package c15 is the driver of property C15.
package c15

import (
	"cedarverif/internal/chanreplay"
	"cedarverif/internal/core"
	"cedarverif/internal/kit"
	"cedarverif/internal/tlc"
)

func init() { core.Register("C15", run) }

func run(c *core.Ctx) {
	c.Assume("the exported blob travels intact unless the behaviour says otherwise; the imported stream is wrapped around the same in-memory wire (unread bytes stay with the connection, as with a passed fd)")
	c.Assume("a hand-off while frames of an outbound message have left but nothing is buffered is allowed either outcome (the statement does not decide it)")
	if chanreplay.ReplayFile(c) {
		return
	}
	mc, gen := "MC_C15_quick.cfg", "Gen_C15_quick.cfg"
	if c.Thorough() {
		mc, gen = "MC_C15.cfg", "Gen_C15_thorough.cfg"
	}
	if kit.ModelCheck(c, "SecureChannel.tla", mc, tlc.Options{Workers: 16}) == nil {
		return
	}
	raws := kit.Generate(c, "Gen_SecureChannel.tla", gen, tlc.Options{})
	// chains of hand-offs of one side over a short ping-pong script
	chain := "Gen_C15_chain_quick.cfg"
	if c.Thorough() {
		chain = "Gen_C15_chain.cfg"
	}
	raws = append(raws, kit.Generate(c, "Gen_SecureChannel.tla", chain, tlc.Options{})...)
	scs := chanreplay.Parse(c, kit.Dedupe(raws))
	if c.IsBroken() {
		return
	}
	rng := c.Rand("c15")
	var jobs []chanreplay.Job
	plans := []int{0, 1}
	if c.Thorough() {
		plans = []int{0, 1, 2}
	}
	nHand, nRefused, nBad := 0, 0, 0
	for i, sc := range scs {
		if i < 2 {
			c.Sample(sc)
		}
		for _, st := range sc.Trace {
			if st.A == "Handoff" {
				nHand++
				if st.Exp == "refused" {
					nRefused++
				}
			}
		}
		bad := sc.HasStep("HandoffBad")
		for _, sp := range plans {
			base := chanreplay.Variant{RecvAPI: i % 4, SizePlan: sp, Salt: int(c.Seed%1000) + i}
			if bad == nil {
				jobs = append(jobs, chanreplay.Job{sc, base})
				continue
			}
			nBad++
			n := chanreplay.AdvSpace(sc, base)
			if n == 0 {
				continue
			}
			k := 4
			if c.Thorough() {
				k = 40
			}
			if bad.Fault == "trunc" && (c.Thorough() || sp == 0 && i%8 == 0) {
				// every strict prefix of the blob
				for b := 0; b < n; b++ {
					v := base
					v.Bit = b
					jobs = append(jobs, chanreplay.Job{sc, v})
				}
				continue
			}
			for t := 0; t < k; t++ {
				v := base
				v.Bit = rng.Intn(n)
				jobs = append(jobs, chanreplay.Job{sc, v})
			}
		}
	}
	var st chanreplay.Stats
	chanreplay.ReplayAll(c, jobs, &st)
	c.Set("handoff_attempts_in_behaviours", nHand)
	c.Set("handoff_refusals_expected", nRefused)
	c.Set("damaged_blob_behaviours", nBad)
	c.Set("real_api_calls", st.RealCalls)
	c.Set("exhaustive", true)
	if nHand == 0 || nRefused == 0 {
		c.Broken("vacuous run: no hand-off / no refused hand-off in the generated behaviours")
	}
	if c.Thorough() {
		chanreplay.ValidateRepoTestTraces(c, "./stream/", "./message/")
	} else {
		chanreplay.ValidateRepoTestTraces(c, "./stream/")
	}
	c.Set("rule", "behaviours = 4 traffic scripts (single/multi-frame, buffered and direct senders, both receive APIs, frames queued unread, keyed-but-not-encrypting with secrets) with export+import attempted by either endpoint at EVERY position (chains of 2 in thorough), chains of 2 (quick) / 3 (thorough) hand-offs of one side over a ping-pong script, plus damaged blobs (every strict prefix; corrupted magic / version bytes), enumerated by TLC from Gen_SecureChannel (mode script); every behaviour replayed on two real keyed streams; the model predicts refusal vs success of every export and the continued exchange")
}
