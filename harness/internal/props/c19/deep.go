package c19

// Thorough-tier shapes: every public blocking entry point of stream / message /
// ccb control ads that takes a context and works on an established stream, each
// in several stream flavours (plain, encrypted, switched with SetConnection,
// re-created from exported crypto state), plus further handshake-level entry
// points (SecurityManager, ServerHandshakeWithMessage, server.ServeConn).

import (
	"bytes"
	"context"
	"fmt"
	"net"
	"os"
	"path/filepath"
	"sync/atomic"

	"github.com/PelicanPlatform/classad/classad"
	"github.com/bbockelm/cedar/ccb"
	"github.com/bbockelm/cedar/commands"
	"github.com/bbockelm/cedar/message"
	"github.com/bbockelm/cedar/security"
	"github.com/bbockelm/cedar/server"
	"github.com/bbockelm/cedar/stream"
)

var fileSerial int64

func testAd() *classad.ClassAd {
	ad := classad.New()
	_ = ad.Set("Name", "c19")
	_ = ad.Set("N", int64(42))
	_ = ad.Set("F", 1.5)
	_ = ad.Set("Flag", true)
	_ = ad.Set("Text", string(bytes.Repeat([]byte("x"), 200)))
	return ad
}

// near: cedar's wire format for floating point is not exact (C14 deals with that)
func near(a, b float64) bool { d := a - b; return d < 1e-6 && d > -1e-6 }

func wantErr(what string, ok bool) error {
	if ok {
		return nil
	}
	return fmt.Errorf("c19 harness: wrong data in %s", what)
}

// deepPlainDefs: dir = "r" (the operation only reads), "w" (only writes), "rw".
func deepPlainDefs(e *env) []plainDef {
	small := payload(100, 1)
	srcFile := e.srcFile
	newDst := func() string {
		return filepath.Join(e.fileDir, fmt.Sprintf("dst-%d", atomic.AddInt64(&fileSerial, 1)))
	}
	recvAll2 := func(ctx context.Context, st *stream.Stream) error { // two complete messages
		if _, err := st.ReceiveCompleteMessage(ctx); err != nil {
			return err
		}
		_, err := st.ReceiveCompleteMessage(ctx)
		return err
	}
	putTyped := func(ctx context.Context, st *stream.Stream) error {
		m := message.NewMessageForStream(st)
		if err := m.PutInt32(ctx, -7); err != nil {
			return err
		}
		if err := m.PutInt64(ctx, 1<<40); err != nil {
			return err
		}
		if err := m.PutUint32(ctx, 4000000000); err != nil {
			return err
		}
		if err := m.PutFloat(ctx, 2.5); err != nil {
			return err
		}
		if err := m.PutDouble(ctx, -0.125); err != nil {
			return err
		}
		if err := m.PutChar(ctx, 'q'); err != nil {
			return err
		}
		if err := m.PutStringBytes(ctx, []byte("bytes-as-string")); err != nil {
			return err
		}
		if err := m.FlushFrame(ctx, false); err != nil {
			return err
		}
		if err := m.PutString(ctx, "limited"); err != nil {
			return err
		}
		if err := m.PutBytes(ctx, payload(10, 3)); err != nil {
			return err
		}
		if err := m.PutBytes(ctx, payload(33, 4)); err != nil {
			return err
		}
		return m.FinishMessage(ctx)
	}
	getTyped := func(ctx context.Context, st *stream.Stream) error {
		m := message.NewMessageFromStream(st)
		i32, err := m.GetInt32(ctx)
		if err != nil {
			return err
		}
		i64, err := m.GetInt64(ctx)
		if err != nil {
			return err
		}
		u32, err := m.GetUint32(ctx)
		if err != nil {
			return err
		}
		f, err := m.GetFloat(ctx)
		if err != nil {
			return err
		}
		d, err := m.GetDouble(ctx)
		if err != nil {
			return err
		}
		ch, err := m.GetChar(ctx)
		if err != nil {
			return err
		}
		s1, err := m.GetString(ctx)
		if err != nil {
			return err
		}
		s2, err := m.GetStringWithMaxSize(ctx, 64)
		if err != nil {
			return err
		}
		b1, err := m.GetBytes(ctx, 10)
		if err != nil {
			return err
		}
		b2, err := m.GetRemainingBytes(ctx)
		if err != nil {
			return err
		}
		return wantErr(fmt.Sprintf("typed values %v %v %v %v %v %q %q %q %v %v", i32, i64, u32, f, d, ch, s1, s2, len(b1), len(b2)), i32 == -7 && i64 == 1<<40 && u32 == 4000000000 && near(float64(f), 2.5) && near(d, -0.125) && ch == 'q' &&
			s1 == "bytes-as-string" && s2 == "limited" && bytes.Equal(b1, payload(10, 3)) && bytes.Equal(b2, payload(33, 4)))
	}
	code := func(ctx context.Context, m *message.Message) error {
		i, i32, i64 := 5, int32(-6), int64(7)
		f32, f64, c, s := float32(1.25), 2.5, byte('z'), "coded"
		if err := m.CodeInt(ctx, &i); err != nil {
			return err
		}
		if err := m.CodeInt32(ctx, &i32); err != nil {
			return err
		}
		if err := m.CodeInt64(ctx, &i64); err != nil {
			return err
		}
		if err := m.CodeFloat(ctx, &f32); err != nil {
			return err
		}
		if err := m.CodeDouble(ctx, &f64); err != nil {
			return err
		}
		if err := m.CodeChar(ctx, &c); err != nil {
			return err
		}
		if err := m.CodeString(ctx, &s); err != nil {
			return err
		}
		return wantErr(fmt.Sprintf("coded values %v %v %v %v %v %q %q", i, i32, i64, f32, f64, c, s), i == 5 && i32 == -6 && i64 == 7 && near(float64(f32), 1.25) && near(f64, 2.5) && c == 'z' && s == "coded")
	}
	putAd := func(ctx context.Context, st *stream.Stream) error {
		m := message.NewMessageForStream(st)
		if err := m.PutClassAd(ctx, testAd()); err != nil {
			return err
		}
		return m.FinishMessage(ctx)
	}
	rawExprs := []string{"A = 1", "B = \"two\"", "C = 3.5"}
	putRaw := func(ctx context.Context, st *stream.Stream) error {
		m := message.NewMessageForStream(st)
		if err := m.PutClassAdRaw(ctx, rawExprs, "MyT", "TargetT"); err != nil {
			return err
		}
		if err := m.PutClassAdRawBytes(ctx, [][]byte{[]byte("D = 4")}, "MyT", "TargetT"); err != nil {
			return err
		}
		if err := m.PutString(ctx, "after"); err != nil {
			return err
		}
		return m.FinishMessage(ctx)
	}
	ctlAd := func() *classad.ClassAd {
		return ccb.NewAd(map[string]any{ccb.AttrCommand: ccb.CommandRequest, ccb.AttrClaimID: "connect-id", ccb.AttrRequestID: "r1", ccb.AttrMyAddress: "127.0.0.1:1"})
	}
	return []plainDef{
		{name: "send_partial", dir: "w",
			op: func(ctx context.Context, st *stream.Stream) error {
				if err := st.SendPartialMessage(ctx, payload(300, 2)); err != nil {
					return err
				}
				return st.SendMessage(ctx, small)
			}, peer: recvAll},
		{name: "write_frame", dir: "w",
			op: func(ctx context.Context, st *stream.Stream) error {
				if err := st.WriteFrame(ctx, payload(64, 1), false); err != nil {
					return err
				}
				if err := st.WriteFrame(ctx, payload(64, 2), false); err != nil {
					return err
				}
				return st.WriteFrame(ctx, payload(8, 3), true)
			}, peer: recvAll},
		{name: "read_frame", dir: "r",
			op: func(ctx context.Context, st *stream.Stream) error {
				for i := 0; i < 4; i++ {
					_, eom, err := st.ReadFrame(ctx)
					if err != nil {
						return err
					}
					if eom {
						return nil
					}
				}
				return fmt.Errorf("c19 harness: no end of message")
			},
			peer: func(ctx context.Context, st *stream.Stream) error {
				if err := st.SendPartialMessage(ctx, payload(300, 3)); err != nil {
					return err
				}
				return st.SendMessage(ctx, payload(200, 4))
			}},
		{name: "recv_frame_with_end", dir: "r",
			op: func(ctx context.Context, st *stream.Stream) error {
				_, _, err := st.ReceiveFrameWithEnd(ctx)
				return err
			},
			peer: func(ctx context.Context, st *stream.Stream) error { return st.SendMessage(ctx, small) }},
		{name: "read_message_bytes", dir: "r", // StartMessageRead / ReadMessageBytes across two frames / EndMessageRead
			op: func(ctx context.Context, st *stream.Stream) error {
				if err := st.StartMessageRead(ctx); err != nil {
					return err
				}
				buf := make([]byte, 128)
				total := 0
				for total < 500 {
					n, err := st.ReadMessageBytes(ctx, buf)
					if err != nil {
						return err
					}
					total += n
				}
				return st.EndMessageRead()
			},
			peer: func(ctx context.Context, st *stream.Stream) error {
				if err := st.SendPartialMessage(ctx, payload(300, 3)); err != nil {
					return err
				}
				return st.SendMessage(ctx, payload(200, 4))
			}},
		{name: "put_secret", dir: "w",
			op:   func(ctx context.Context, st *stream.Stream) error { return st.PutSecret(ctx, "s3cret") },
			peer: func(ctx context.Context, st *stream.Stream) error { _, err := st.GetSecret(ctx); return err }},
		{name: "get_secret", dir: "r",
			op: func(ctx context.Context, st *stream.Stream) error {
				s, err := st.GetSecret(ctx)
				if err != nil {
					return err
				}
				return wantErr("secret", s == "s3cret")
			},
			peer: func(ctx context.Context, st *stream.Stream) error { return st.PutSecret(ctx, "s3cret") }},
		{name: "put_file", dir: "w", // size frame, data frames, end frame
			op: func(ctx context.Context, st *stream.Stream) error { _, err := st.PutFile(ctx, srcFile); return err },
			peer: func(ctx context.Context, st *stream.Stream) error {
				dst := newDst()
				defer os.Remove(dst)
				_, err := st.GetFile(ctx, dst)
				return err
			}},
		{name: "get_file", dir: "r",
			op: func(ctx context.Context, st *stream.Stream) error {
				dst := newDst()
				defer os.Remove(dst)
				n, err := st.GetFile(ctx, dst)
				if err != nil {
					return err
				}
				return wantErr("file size", n == 10000)
			},
			peer: func(ctx context.Context, st *stream.Stream) error { _, err := st.PutFile(ctx, srcFile); return err }},
		{name: "put_classad", dir: "w", op: putAd, peer: recvAll},
		{name: "get_classad", dir: "r",
			op: func(ctx context.Context, st *stream.Stream) error {
				ad, err := message.NewMessageFromStream(st).GetClassAd(ctx)
				if err != nil {
					return err
				}
				v, _ := ad.EvaluateAttrInt("N")
				return wantErr("ClassAd", v == 42)
			}, peer: putAd},
		{name: "get_classad_maxsize", dir: "r",
			op: func(ctx context.Context, st *stream.Stream) error {
				_, err := message.NewMessageFromStream(st).GetClassAdWithMaxSize(ctx, 1<<16)
				return err
			}, peer: putAd},
		{name: "put_classad_raw", dir: "w", op: putRaw, peer: recvAll},
		{name: "get_classad_raw", dir: "r",
			op: func(ctx context.Context, st *stream.Stream) error {
				m := message.NewMessageFromStream(st)
				if _, err := m.GetClassAdRaw(ctx); err != nil {
					return err
				}
				if err := m.SkipClassAdRaw(ctx); err != nil {
					return err
				}
				return m.SkipString(ctx)
			}, peer: putRaw},
		{name: "put_typed", dir: "w", op: putTyped, peer: recvAll},
		{name: "get_typed", dir: "r", op: getTyped, peer: putTyped},
		{name: "code_encode", dir: "w",
			op: func(ctx context.Context, st *stream.Stream) error {
				m := message.NewMessageForStream(st)
				if err := code(ctx, m); err != nil {
					return err
				}
				return m.FinishMessage(ctx)
			}, peer: recvAll},
		{name: "code_decode", dir: "r",
			op: func(ctx context.Context, st *stream.Stream) error { return code(ctx, message.NewMessageFromStream(st)) },
			peer: func(ctx context.Context, st *stream.Stream) error {
				m := message.NewMessageForStream(st)
				if err := code(ctx, m); err != nil {
					return err
				}
				return m.FinishMessage(ctx)
			}},
		{name: "put_bytes_big", dir: "w", // 9000 bytes: three frames
			op: func(ctx context.Context, st *stream.Stream) error {
				m := message.NewMessageForStream(st)
				if err := m.PutBytes(ctx, payload(9000, 9)); err != nil {
					return err
				}
				return m.FinishMessage(ctx)
			}, peer: recvAll},
		{name: "get_bytes_big", dir: "r",
			op: func(ctx context.Context, st *stream.Stream) error {
				b, err := message.NewMessageFromStream(st).GetBytes(ctx, 9000)
				if err != nil {
					return err
				}
				return wantErr("big bytes", bytes.Equal(b, payload(9000, 9)))
			},
			peer: func(ctx context.Context, st *stream.Stream) error {
				m := message.NewMessageForStream(st)
				if err := m.PutBytes(ctx, payload(9000, 9)); err != nil {
					return err
				}
				return m.FinishMessage(ctx)
			}},
		{name: "two_messages", dir: "w",
			op: func(ctx context.Context, st *stream.Stream) error {
				if err := st.SendMessage(ctx, small); err != nil {
					return err
				}
				return st.SendMessage(ctx, small)
			}, peer: recvAll2},
		{name: "ccb_write_control_ad", dir: "w",
			op:   func(ctx context.Context, st *stream.Stream) error { return ccb.WriteControlAd(ctx, st, ctlAd()) },
			peer: func(ctx context.Context, st *stream.Stream) error { _, err := ccb.ReadControlAd(ctx, st); return err }},
		{name: "ccb_read_control_ad", dir: "r",
			op: func(ctx context.Context, st *stream.Stream) error {
				ad, err := ccb.ReadControlAd(ctx, st)
				if err != nil {
					return err
				}
				return wantErr("control ad", ccb.AdString(ad, ccb.AttrRequestID) == "r1")
			},
			peer: func(ctx context.Context, st *stream.Stream) error { return ccb.WriteControlAd(ctx, st, ctlAd()) }},
		{name: "ccb_write_reverse_connect", dir: "w",
			op: func(ctx context.Context, st *stream.Stream) error {
				return ccb.WriteReverseConnect(ctx, st, "connect-id", "r1", "127.0.0.1:1")
			},
			peer: recvAll},
		{name: "ccb_read_reverse_connect", dir: "r",
			op: func(ctx context.Context, st *stream.Stream) error {
				m := message.NewMessageFromStream(st)
				cmd, err := m.GetInt(ctx)
				if err != nil {
					return err
				}
				_, err = ccb.ReadReverseConnectAd(ctx, m, cmd)
				return err
			},
			peer: func(ctx context.Context, st *stream.Stream) error {
				return ccb.WriteReverseConnect(ctx, st, "connect-id", "r1", "127.0.0.1:1")
			}},
	}
}

// deepHandshakeShapes: further entry points that run a whole handshake.
func deepHandshakeShapes() []*shape {
	none := hsDef{name: "x", methods: []security.AuthMethod{security.AuthNone}, auth: security.SecurityOptional, enc: security.SecurityRequired}
	var out []*shape
	// SecurityManager (default configuration), both roles
	for _, role := range []string{"client", "server"} {
		role := role
		out = append(out, &shape{Name: "hs_manager", Role: role, Handshake: true, Deep: true, prepare: func(e *env) (*inst, error) {
			sc, mine, theirs, closeLink, cleanup0, err := link(role == "client")
			if err != nil {
				return nil, err
			}
			var cConn, sConn net.Conn = mine, theirs
			if role == "server" {
				cConn, sConn = theirs, mine
			}
			cs, ss := stream.NewStream(cConn), stream.NewStream(sConn)
			smC, smS := security.NewSecurityManager(), security.NewSecurityManager()
			client := func(ctx context.Context) error { return smC.ClientHandshake(ctx, cs) }
			srv := func(ctx context.Context) error { return smS.ServerHandshake(ctx, ss) }
			in := &inst{conn: sc, closeLink: closeLink, cleanup: cleanup0}
			if role == "client" {
				in.op, in.peer = client, srv
			} else {
				in.op, in.peer = srv, client
			}
			return in, nil
		}})
	}
	// the server read the command integer itself, then ServerHandshakeWithMessage
	out = append(out, &shape{Name: "hs_with_message", Role: "server", Handshake: true, Deep: true, prepare: func(e *env) (*inst, error) {
		sc, mine, theirs, closeLink, cleanup0, err := link(false)
		if err != nil {
			return nil, err
		}
		cCache, sCache := security.NewSessionCache(), security.NewSessionCache()
		cAuth := security.NewAuthenticator(e.cfg(none, true, fmt.Sprintf("c19-wm-%d", atomic.AddInt64(&runSerial, 1)), cCache), stream.NewStream(theirs))
		ss := stream.NewStream(mine)
		sAuth := security.NewAuthenticator(e.cfg(none, false, "", sCache), ss)
		var sid atomic.Value
		return &inst{conn: sc, closeLink: closeLink,
			op: func(ctx context.Context) error {
				msg := message.NewMessageFromStream(ss)
				cmd, err := msg.GetInt(ctx)
				if err != nil {
					return err
				}
				neg, err := sAuth.ServerHandshakeWithMessage(ctx, msg, cmd)
				if err == nil && neg != nil {
					sid.Store(neg.SessionId)
				}
				return err
			},
			peer: func(ctx context.Context) error { _, err := cAuth.ClientHandshake(ctx); return err },
			cleanup: func() {
				cleanup0()
				if id, ok := sid.Load().(string); ok {
					security.GetSessionCache().Invalidate(id)
				}
			}}, nil
	}})
	// server.ServeConn: command, handshake, dispatch, handler (one echo), close
	out = append(out, &shape{Name: "serve_conn", Role: "server", Handshake: true, Deep: true, ClosesAlways: true, NoProbe: true, prepare: func(e *env) (*inst, error) {
		sc, mine, theirs, closeLink, cleanup0, err := link(false)
		if err != nil {
			return nil, err
		}
		cCache, sCache := security.NewSessionCache(), security.NewSessionCache()
		srv := server.New(e.cfg(none, false, "", sCache))
		srv.Handle(commands.DC_NOP, func(hctx context.Context, c *server.Conn) error {
			s, err := message.NewMessageFromStream(c.Stream).GetString(hctx)
			if err != nil {
				return err
			}
			out := message.NewMessageForStream(c.Stream)
			if err := out.PutString(hctx, s); err != nil {
				return err
			}
			return out.FinishMessage(hctx)
		})
		cs := stream.NewStream(theirs)
		cAuth := security.NewAuthenticator(e.cfg(none, true, fmt.Sprintf("c19-sc-%d", atomic.AddInt64(&runSerial, 1)), cCache), cs)
		return &inst{conn: sc, closeLink: closeLink, cleanup: cleanup0,
			op: func(ctx context.Context) error { return srv.ServeConn(ctx, mine) },
			peer: func(ctx context.Context) error {
				if _, err := cAuth.ClientHandshake(ctx); err != nil {
					return err
				}
				out := message.NewMessageForStream(cs)
				if err := out.PutString(ctx, "ping"); err != nil {
					return err
				}
				if err := out.FinishMessage(ctx); err != nil {
					return err
				}
				_, err := message.NewMessageFromStream(cs).GetString(ctx)
				return err
			}}, nil
	}})
	return out
}
