// Package c19 is the driver of property C19 (cancellation and deadlines always
// unblock stream operations): TLC checks spec/Cancel.tla (safety + fair
// liveness), Gen_Cancel enumerates the behaviours of an abstract 3-step script,
// and every behaviour class is replayed against the REAL cedar calls on a
// connection whose k-th I/O step never completes, for every k of every shape.
package c19

import (
	"encoding/json"
	"fmt"
	"os"
	"sort"
	"strings"
	"sync"

	"cedarverif/internal/core"
	"cedarverif/internal/kit"
	"cedarverif/internal/tlc"
)

func init() { core.Register("C19", run) }

// behaviour is one line printed by Gen_Cancel.
type behaviour struct {
	Kind    string   `json:"kind"`
	N       int      `json:"n"`
	K       int      `json:"K"`
	Timing  string   `json:"timing"`
	J       int      `json:"J"`
	Returns bool     `json:"returns"`
	Ret     string   `json:"ret"`
	Closed  bool     `json:"closed"`
	Done    int      `json:"done"`
	Acts    []string `json:"acts"`
}

// classKey: the inputs of a behaviour as far as the model's outcome depends on
// them (checked: every abstract (K, J) of a class has the same outcome set).
type classKey struct {
	Kind    string
	Stalled bool
	Timing  string
	JLast   bool // the firing is attached to the last step of the script
}

type expect struct {
	Returns   bool            // every behaviour of the class returns
	Ret       map[string]bool // "ctx" | "nil"
	ClosedAll bool            // every behaviour of the class ends with the conn closed
	Members   int
}

func (x *expect) errText() string {
	switch {
	case x.Ret["ctx"] && x.Ret["nil"]:
		return "either"
	case x.Ret["ctx"]:
		return "ctx"
	case x.Ret["nil"]:
		return "none"
	}
	return "?"
}

func buildClasses(c *core.Ctx, raws []json.RawMessage) map[classKey]*expect {
	type sub struct{ K, J int }
	perSub := map[classKey]map[sub]map[string]bool{}
	out := map[classKey]*expect{}
	for _, r := range raws {
		var w struct {
			Scn behaviour `json:"scn"`
		}
		if err := json.Unmarshal(r, &w); err != nil || w.Scn.Kind == "" {
			c.Broken("bad behaviour JSON from Gen_Cancel: %v: %s", err, string(r))
			return nil
		}
		b := w.Scn
		k := classKey{b.Kind, b.K > 0, b.Timing, b.J == b.N}
		x := out[k]
		if x == nil {
			x = &expect{Returns: true, Ret: map[string]bool{}, ClosedAll: true}
			out[k] = x
			perSub[k] = map[sub]map[string]bool{}
		}
		x.Members++
		if !b.Returns {
			x.Returns = false
		} else {
			x.Ret[b.Ret] = true
		}
		if !b.Closed {
			x.ClosedAll = false
		}
		sk := sub{b.K, b.J}
		if perSub[k][sk] == nil {
			perSub[k][sk] = map[string]bool{}
		}
		perSub[k][sk][fmt.Sprintf("%v/%s/%v", b.Returns, b.Ret, b.Closed)] = true
	}
	// the abstraction (K, J) -> class must be uniform
	for k, subs := range perSub {
		var ref string
		for _, set := range subs {
			var l []string
			for s := range set {
				l = append(l, s)
			}
			sort.Strings(l)
			s := strings.Join(l, ",")
			if ref == "" {
				ref = s
			} else if ref != s {
				c.Broken("Gen_Cancel: outcomes of class %+v depend on the abstract position (%s vs %s)", k, ref, s)
				return nil
			}
		}
	}
	return out
}

// multiKey / multi classes: behaviours of Gen_CancelMulti grouped by their inputs.
type multiKey struct {
	Mode, CB, Timing string
	BStalled         bool
}

type multiExpect struct {
	RetB     map[string]bool // "ctx" | "io" | "nil"
	BReturns bool
	Members  int
}

func buildMulti(c *core.Ctx, raws []json.RawMessage) map[multiKey]*multiExpect {
	out := map[multiKey]*multiExpect{}
	for _, r := range raws {
		var w struct {
			Scn struct {
				Mode, Cb, Timing string
				Kb               int
				Reta, Retb       string
				Breturns, Closed bool
				Donea            int
			} `json:"scn"`
		}
		if err := json.Unmarshal(r, &w); err != nil || w.Scn.Mode == "" {
			c.Broken("bad behaviour JSON from Gen_CancelMulti: %v: %s", err, string(r))
			return nil
		}
		b := w.Scn
		if b.Reta != "ctx" || !b.Closed {
			continue // the binding only runs scenarios in which a is cancelled and returns the context's error
		}
		k := multiKey{b.Mode, b.Cb, b.Timing, b.Kb > 0}
		x := out[k]
		if x == nil {
			x = &multiExpect{RetB: map[string]bool{}, BReturns: true}
			out[k] = x
		}
		x.Members++
		if !b.Breturns {
			x.BReturns = false
		} else {
			x.RetB[b.Retb] = true
		}
	}
	return out
}

// judgeMulti checks the second operation of a reuse / duplex run.
func judgeMulti(s Scn, o Obs, multi map[multiKey]*multiExpect) (d *diff, harness string) {
	if !o.BStarted {
		return nil, "the second operation was not started"
	}
	x := multi[multiKey{s.Mode, s.CB, s.Timing, o.BStalled}]
	if x == nil {
		return nil, fmt.Sprintf("no CancelMulti class for %s/%s/%s/stalled=%v", s.Mode, s.CB, s.Timing, o.BStalled)
	}
	if !x.BReturns {
		return nil, "class in which the second operation need not return"
	}
	what := "the operation issued again after the cancelled one"
	if s.Mode == "duplex" {
		what = "the operation running on the other direction of the stream"
	}
	if !o.BReturned {
		return &diff{"second-returns", fmt.Sprintf("%s (context: %s) had not returned %s later: it hangs", what, s.CB, hardWait)}, ""
	}
	if o.BLatencyMs > float64(latencyBound.Milliseconds()) {
		return &diff{"second-returns", fmt.Sprintf("%s returned only after %.0f ms (bound %s)", what, o.BLatencyMs, latencyBound)}, ""
	}
	ok := false
	switch o.BErrClass {
	case "none":
		ok = x.RetB["nil"]
	case "ctx":
		ok = x.RetB["ctx"]
	default:
		ok = x.RetB["io"]
	}
	if !ok {
		return &diff{"second-error", fmt.Sprintf("%s returned %s (%q); the model allows %v", what, o.BErrClass, o.BErrText, x.RetB)}, ""
	}
	return nil, ""
}

func classOf(s Scn) classKey {
	return classKey{s.CtxKind, s.K > 0, s.Timing, s.J == s.N && s.J > 0}
}

// diff is a difference between a real run and the model's expectation.
type diff struct {
	Check  string // "returns" | "error" | "closed"
	Detail string
}

// judge compares one observation with the model class. harness != "" reports a
// problem of the harness itself (never a violation).
func judge(sh *shape, s Scn, o Obs, x *expect) (d *diff, harness string) {
	if o.Inconcl != "" {
		return nil, o.Inconcl
	}
	if !o.Fired && !(o.Returned && o.ErrClass != "none") {
		return nil, "the planned firing point was not reached"
	}
	if s.Timing == "during_stall" {
		if !o.StallSeen {
			if o.Returned {
				return &diff{"error", fmt.Sprintf("the call returned (%s: %s) before reaching step %d", o.ErrClass, o.ErrText, s.K)}, ""
			}
			return nil, "the stalled step was never reached"
		}
		if !o.StallHeld {
			return nil, "the stalled step did not block (harness)"
		}
	}
	if !x.Returns {
		return nil, "class without a return is not runnable"
	}
	if !o.Returned {
		return &diff{"returns", fmt.Sprintf("the call had not returned %s after the context fired (steps started %q, conn closed by the code: %v)", hardWait, o.Steps, o.Closed)}, ""
	}
	if s.Timing != "never" && s.Timing != "after_return" && o.LatencyMs > float64(latencyBound.Milliseconds()) {
		return &diff{"returns", fmt.Sprintf("returned %.0f ms after the context fired (bound %s)", o.LatencyMs, latencyBound)}, ""
	}
	okErr := false
	switch o.ErrClass {
	case "none":
		okErr = x.Ret["nil"]
	case "ctx":
		okErr = x.Ret["ctx"]
	default: // some other error
		okErr = sh.Handshake && x.Ret["ctx"] // a handshake may wrap / replace the error
	}
	if !okErr {
		return &diff{"error", fmt.Sprintf("model expects error class %q, the call returned %s (%q; ctx.Err() = %q)", x.errText(), o.ErrClass, o.ErrText, o.CtxErrText)}, ""
	}
	if x.ClosedAll && !o.Closed {
		return &diff{"closed", fmt.Sprintf("the call returned %q after %d completed step(s) on the connection and the connection was not closed within %s", o.ErrText, o.StepsDone, closedWait)}, ""
	}
	return nil, ""
}

// opKind: kind ("read" / "write") of the step a scenario is about, from the
// step script counted on the real code: the stalled step, the step in flight,
// or (between_steps / before_call) the step whose entry check sees the fired context.
func opKind(s Scn, kinds string) string {
	i := 0
	switch s.Timing {
	case "during_stall":
		i = s.K
	case "between_steps":
		i = s.J + 1
	case "in_step_then_completes", "in_step_then_closed":
		i = s.J
	case "before_call":
		i = 1
	}
	if i < 1 || i > len(kinds) {
		return "none"
	}
	if kinds[i-1] == 'r' {
		return "read"
	}
	return "write"
}

func signature(s Scn, kinds string, d *diff) map[string]string {
	op := opKind(s, kinds)
	sig := map[string]string{"spec": "Cancel", "shape": s.Shape, "role": s.Role, "op": op,
		"timing": s.Timing, "kind": s.CtxKind, "check": d.Check}
	if s.Mode != "" {
		sig["spec"], sig["mode"], sig["second_ctx"] = "CancelMulti", s.Mode, s.CB
	}
	return sig
}

type shapeInfo struct {
	sh    *shape
	n     int
	kinds string
}

// enumerate expands the model's classes to concrete runs of one shape.
func enumerate(c *core.Ctx, si shapeInfo) []Scn {
	n := si.n
	rng := c.Rand("c19/" + si.sh.Name + "/" + si.sh.Role)
	base := Scn{Kind: "Cancel", Shape: si.sh.Name, Role: si.sh.Role, N: n}
	var out []Scn
	add := func(timing, kind, impl string, k, j int, mod func(*Scn)) {
		s := base
		s.Timing, s.CtxKind, s.CtxImpl, s.K, s.J = timing, kind, impl, k, j
		if kind == "deadline" && impl == "std" {
			s.DeadlineMs = 40
		}
		if mod != nil {
			mod(&s)
		}
		out = append(out, s)
	}
	th := c.Thorough()
	alone := !si.sh.FailsAlone // runs whose model outcome is "returns nil" need a shape that succeeds when left alone
	// no stall, nothing fires / fires after the return
	if alone {
		add("never", "cancel", "std", 0, 0, nil)
		add("never", "background", "std", 0, 0, nil)
		add("never", "deadline", "std", 0, 0, nil)
		add("after_return", "cancel", "std", 0, 0, nil)
		add("after_return", "cancel", "probe", 0, 0, nil)
		if th {
			add("after_return", "deadline", "std", 0, 0, func(s *Scn) { s.DeadlineMs = 80 })
		}
	}
	// fired before the call
	add("before_call", "cancel", "std", 0, 0, nil)
	add("before_call", "deadline", "std", 0, 0, nil)
	add("before_call", "cancel", "probe", 0, 0, nil)
	if th {
		add("before_call", "cancel", "std", 1, 0, nil)
		add("before_call", "deadline", "probe", n, 0, nil)
	}
	// the peer stalls at step k, the context fires during the stall: EVERY k
	for k := 1; k <= n; k++ {
		add("during_stall", "cancel", "std", k, k, nil)
		add("during_stall", "deadline", "std", k, k, nil)
		if th {
			add("during_stall", "cancel", "probe", k, k, nil)
			add("during_stall", "cancel", "std", k, k, func(s *Scn) { s.Partial = true })
			add("during_stall", "deadline", "probe", k, k, nil)
		}
	}
	// the context fires between step j and step j+1: EVERY j (the next step would stall)
	// quick: the deadline flavour at the first j whose next step is a read, the first
	// whose next step is a write (deterministic), and one seeded j
	var dlSample map[int]bool
	if !th && n > 1 {
		dlSample = map[int]bool{1 + rng.Intn(n-1): true}
		for _, want := range []byte{'r', 'w'} {
			for j := 1; j < n; j++ {
				if si.kinds[j] == want {
					dlSample[j] = true
					break
				}
			}
		}
	}
	for j := 1; j < n && !si.sh.NoProbe; j++ {
		add("between_steps", "cancel", "probe", j+1, j, nil)
		if th || dlSample[j] {
			add("between_steps", "deadline", "probe", j+1, j, nil)
		}
		if th {
			add("between_steps", "cancel", "probe", 0, j, nil)
			if j+2 <= n {
				add("between_steps", "cancel", "probe", j+2+rng.Intn(n-j-1), j, nil)
			}
		}
	}
	// the context fires while step j is in flight and its I/O still completes: EVERY j
	for j := 1; j <= n; j++ {
		add("in_step_then_completes", "cancel", "std", 0, j, nil)
		if th {
			add("in_step_then_completes", "deadline", "probe", 0, j, nil)
			if j < n {
				add("in_step_then_completes", "cancel", "std", j+1, j, nil)
			}
		}
	}
	if th {
		// context derived from the one that is cancelled (parent cancel): before the call,
		// during every stall, in flight at every step
		add("before_call", "derived", "std", 0, 0, nil)
		for k := 1; k <= n; k++ {
			add("during_stall", "derived", "std", k, k, nil)
			add("in_step_then_completes", "derived", "std", 0, k, nil)
			add("in_step_then_closed", "derived", "std", 0, k, nil)
		}
		// the firing step j against EVERY later stalled step k (all plain operations and handshakes)
		if n <= 20 {
			for j := 1; j <= n; j++ {
				for k := j + 2; k <= n; k++ {
					add("in_step_then_completes", "cancel", "std", k, j, nil)
					add("in_step_then_completes", "derived", "std", k, j, nil)
					if !si.sh.NoProbe {
						add("between_steps", "cancel", "probe", k, j, nil)
						add("between_steps", "deadline", "probe", k, j, nil)
						add("in_step_then_completes", "deadline", "probe", k, j, nil)
					}
				}
			}
		}
		// two calls on one stream (CancelMulti.tla): plain, repeatable operations
		if si.sh.Repeatable {
			for _, cb := range []string{"same", "fresh"} {
				cb := cb
				for k := 1; k <= n; k++ {
					add("during_stall", "cancel", "std", k, k, func(s *Scn) { s.Mode, s.CB = "reuse", cb })
					add("during_stall", "derived", "std", k, k, func(s *Scn) { s.Mode, s.CB = "reuse", cb })
					if k == 1 || k == n {
						add("during_stall", "deadline", "std", k, k, func(s *Scn) { s.Mode, s.CB = "reuse", cb })
					}
					// duplex needs a stream whose first protected frames are behind it: plain or imported
					if !strings.Contains(si.sh.Name, "enc") && !strings.HasSuffix(si.sh.Name, "_setconn") || strings.HasSuffix(si.sh.Name, "_imported") {
						add("during_stall", "cancel", "std", k, k, func(s *Scn) { s.Mode, s.CB = "duplex", cb })
						add("during_stall", "derived", "std", k, k, func(s *Scn) { s.Mode, s.CB = "duplex", cb })
					}
				}
				for j := 1; j < n; j++ {
					add("between_steps", "cancel", "probe", j+1, j, func(s *Scn) { s.Mode, s.CB = "reuse", cb })
				}
			}
		}
	}
	// ... and the watcher closes the connection before the I/O completes
	closedJs := map[int]bool{1: true, n: true, 1 + rng.Intn(n): true}
	for j := 1; j <= n; j++ {
		if th || closedJs[j] {
			add("in_step_then_closed", "cancel", "std", 0, j, nil)
		}
		if th {
			add("in_step_then_closed", "deadline", "probe", 0, j, nil)
		}
	}
	return out
}

type failRec struct {
	s   Scn
	o   Obs
	d   *diff
	sig map[string]string
}

// runAll executes the scenarios against the real code, confirms every
// difference by an immediate second run and records failures.
func runAll(c *core.Ctx, e *env, classes map[classKey]*expect, multi map[multiKey]*multiExpect, infos map[string]shapeInfo, scns []Scn, workers int) {
	var mu sync.Mutex
	conform := int64(0)
	byTiming := map[string]int{}
	sampled := map[string]bool{}
	maxLat := map[string]float64{}
	flakes, retimed, hsOtherErr := 0, 0, 0
	var fails []failRec
	core.ParallelFor(len(scns), workers, func(i int) {
		s := scns[i]
		si := infos[s.Shape+"/"+s.Role]
		x := classes[classOf(s)]
		if x == nil {
			c.Broken("no model class for scenario %s (%+v)", s.key(), classOf(s))
			return
		}
		// one attempt = one run; a real deadline that passed before the intended point
		// (slow machine) is re-timed with a longer deadline, not judged
		attempt := func() (o Obs, d *diff, hp string) {
			for try := 0; try < 4; try++ {
				o = exec(e, si.sh, s, x.ClosedAll)
				d, hp = judge(si.sh, s, o, x)
				if d == nil && hp == "" && s.Mode != "" {
					d, hp = judgeMulti(s, o, multi)
				}
				if hp == "" || !strings.HasPrefix(hp, "deadline passed") {
					break
				}
				s.DeadlineMs *= 4
				mu.Lock()
				retimed++
				mu.Unlock()
			}
			return
		}
		o, d, hp := attempt()
		c.Eval(s.key(), s.Timing != "never")
		if hp != "" || d != nil {
			// DESIGN §5 (ii): a difference counts only if an immediate second run shows it too
			o2, d2, hp2 := attempt()
			switch {
			case d2 == nil && hp2 == "":
				mu.Lock()
				flakes++
				mu.Unlock()
				c.Note(fmt.Sprintf("flake: %s: first run: %v %s; immediate re-run conforms", s.key(), d, hp))
				o, d, hp = o2, nil, ""
			case d != nil && d2 != nil && d.Check == d2.Check:
				o = o2
			default:
				c.Broken("%s: harness problem or non-reproducible difference: first run %v %q, second run %v %q", s.key(), d, hp, d2, hp2)
				return
			}
		}
		mu.Lock()
		defer mu.Unlock()
		byTiming[s.Timing]++
		if o.LatencyMs > maxLat[s.Timing] && s.Timing != "after_return" && s.Timing != "never" {
			maxLat[s.Timing] = o.LatencyMs
		}
		if si.sh.Handshake && o.ErrClass == "other" {
			hsOtherErr++
		}
		if d == nil {
			conform++
			if s.Timing != "never" && !sampled[s.Timing] {
				sampled[s.Timing] = true
				c.Sample(map[string]any{"scenario": s, "observed": o, "model": map[string]any{"err": x.errText(), "closed_required": x.ClosedAll}})
			}
			return
		}
		fails = append(fails, failRec{s, o, d, signature(s, si.kinds, d)})
	})
	c.Add("traces_validated_against_impl", conform)
	c.Set("runs_by_timing", byTiming)
	lat := map[string]float64{}
	for k, v := range maxLat {
		lat[k] = float64(int(v*100)) / 100
	}
	c.Set("max_latency_ms_by_timing", lat)
	c.Set("deadline_runs_retimed", retimed)
	c.Set("handshake_errors_not_wrapping_ctx_err", hsOtherErr)
	c.Set("flakes", flakes)
	maxFlakes := 5
	if c.Thorough() {
		maxFlakes = 12
	}
	if flakes > maxFlakes {
		c.Broken("%d runs differed once and conformed on the re-run: the machine is too loaded for the latency bounds", flakes)
	}
	// one failure per abstract signature (the lexicographically first scenario), with a count
	sort.Slice(fails, func(i, j int) bool { return fails[i].s.key() < fails[j].s.key() })
	cnt := map[string]int{}
	sigKey := func(m map[string]string) string { b, _ := json.Marshal(m); return string(b) }
	for _, f := range fails {
		cnt[sigKey(f.sig)]++
	}
	seen := map[string]bool{}
	bySig := map[string]int{}
	for _, f := range fails {
		k := sigKey(f.sig)
		bySig[fmt.Sprintf("%s/%s", f.sig["timing"], f.sig["check"])]++
		if seen[k] {
			continue
		}
		seen[k] = true
		c.Fail(core.Failure{Signature: f.sig,
			Detail: fmt.Sprintf("%s %s (%s), N=%d steps %q, stall at k=%d, context (%s, %s) fired %s at step j=%d: %s [%d scenarios with this signature]",
				f.s.Shape, f.s.Role, f.sig["op"], f.s.N, f.o.Steps, f.s.K, f.s.CtxKind, f.s.CtxImpl, f.s.Timing, f.s.J, f.d.Detail, cnt[k]),
			Scenario: f.s})
	}
	if len(bySig) > 0 {
		c.Set("differences_by_timing_and_check", bySig)
	}
}

func run(c *core.Ctx) {
	c.Level = "fault_enumeration"
	c.Assume("a stalled peer is realised at the connection: the k-th Read/Write of the call blocks until Close and then fails with net.ErrClosed, as a real socket does")
	c.Assume("package context registers AfterFunc on a foreign context through its AfterFunc(func()) func() bool method (Go >= 1.21); used only to place a cancellation between two steps")
	c.Assume("cedar reads exact sizes with io.ReadFull, so one readWithContext is one connection-level step; this also holds for the SSL method, whose TLS records travel INSIDE cedar messages (CEDARTLSConnection), never directly on the socket")
	c.Assume("hs_ssl: two cedar endpoints cannot complete an SSL handshake (the server role reports status 2 instead of HOLDING at the completion check), so the shape covers the status exchange, the whole TLS state machine and the completion check, not the session-key / SciToken exchanges")
	// cedar's FS authentication prints warnings to stdout with fmt.Printf
	if devnull, err := os.OpenFile(os.DevNull, os.O_WRONLY, 0); err == nil {
		stdout := os.Stdout
		os.Stdout = devnull
		defer func() { os.Stdout = stdout; devnull.Close() }()
	}
	e, err := newEnv(c.Tmp)
	if err != nil {
		c.Broken("cannot create TOKEN credentials: %v", err)
		return
	}
	mc := "MC_C19_quick.cfg"
	if c.Thorough() {
		mc = "MC_C19.cfg"
	}
	// the model check does not depend on anything below: run it alongside
	mcDone := make(chan struct{})
	go func() {
		defer close(mcDone)
		if c.Replay == "" {
			kit.ModelCheck(c, "Cancel.tla", mc, tlc.Options{Workers: 8})
		}
	}()
	defer func() { <-mcDone }()
	// ... and so does the generator, while the steps of the shapes are counted
	var classes map[classKey]*expect
	genDone := make(chan struct{})
	go func() {
		defer close(genDone)
		raws := kit.Generate(c, "Gen_Cancel.tla", "Gen_C19.cfg", tlc.Options{})
		if c.IsBroken() {
			return
		}
		classes = buildClasses(c, raws)
		if classes != nil {
			c.Set("model_classes", len(classes))
		}
	}()
	defer func() { <-genDone }()
	// the two-call model (duplex / reuse): model check in the thorough tier, classes for replay
	var multi map[multiKey]*multiExpect
	multiDone := make(chan struct{})
	go func() {
		defer close(multiDone)
		if !c.Thorough() && c.Replay == "" {
			return
		}
		if c.Replay == "" {
			kit.ModelCheck(c, "CancelMulti.tla", "MC_C19_multi.cfg", tlc.Options{Workers: 8})
		}
		raws := kit.Generate(c, "Gen_CancelMulti.tla", "Gen_C19_multi.cfg", tlc.Options{})
		if c.IsBroken() {
			return
		}
		multi = buildMulti(c, raws)
		if multi != nil {
			c.Set("model_classes_two_calls", len(multi))
		}
	}()
	defer func() { <-multiDone }()
	if c.Replay != "" {
		<-multiDone
		<-genDone
		if classes != nil {
			replayFile(c, e, classes, multi)
		}
		return
	}

	// phase 1: count the I/O steps of every shape on the real code (twice: must agree)
	shapes := allShapes(e, c.Thorough())
	infos := map[string]shapeInfo{}
	stepsPer := map[string]int{}
	kindsPer := map[string]string{}
	var mu sync.Mutex
	core.ParallelFor(len(shapes), 8, func(i int) {
		sh := shapes[i]
		st1, _, err := count(e, sh, "cancel", "std")
		if err != nil {
			c.Broken("shape %s/%s is unusable: %v", sh.Name, sh.Role, err)
			return
		}
		st2, _, err := count(e, sh, "cancel", "probe")
		if err != nil {
			c.Broken("shape %s/%s is unusable with the probe context: %v", sh.Name, sh.Role, err)
			return
		}
		if stepKinds(st1) != stepKinds(st2) || len(st1) == 0 {
			c.Broken("shape %s/%s: step script is not deterministic (%q vs %q)", sh.Name, sh.Role, stepKinds(st1), stepKinds(st2))
			return
		}
		mu.Lock()
		infos[sh.Name+"/"+sh.Role] = shapeInfo{sh, len(st1), stepKinds(st1)}
		stepsPer[sh.Name+"/"+sh.Role] = len(st1)
		kindsPer[sh.Name+"/"+sh.Role] = stepKinds(st1)
		mu.Unlock()
	})
	if c.IsBroken() {
		return
	}
	c.Set("shapes", len(shapes))
	c.Set("steps_per_shape", stepsPer)
	c.Set("step_kinds_per_shape", kindsPer)

	// phase 2: every k / j of every shape x every model class
	var scns []Scn
	total := 0
	for _, sh := range shapes {
		si := infos[sh.Name+"/"+sh.Role]
		total += si.n
		scns = append(scns, enumerate(c, si)...)
	}
	c.Set("io_steps_total", total)
	<-genDone
	<-multiDone
	if classes == nil || c.IsBroken() || (c.Thorough() && multi == nil) {
		return
	}
	workers := 16
	runAll(c, e, classes, multi, infos, scns, workers)
	if c.Thorough() {
		runDialers(c, e)
	}
	c.Set("exhaustive", true)
	c.Set("rule", "cases = real calls (plain stream operations and whole handshakes, both roles) on a TCP connection whose k-th I/O step never completes; the scenarios are the behaviour classes TLC enumerates from Gen_Cancel (context kind x stalled? x timing class x last-step?) expanded to EVERY step k (stall) / j (firing point) of every shape; each run is compared with the outcomes the model allows for its class (returns within 1 s of the firing, error class, connection closed); distinct = distinct (shape, role, k, j, timing, context kind/implementation); non-trivial = the context fires")
}

func replayFile(c *core.Ctx, e *env, classes map[classKey]*expect, multi map[multiKey]*multiExpect) bool {
	if c.Replay == "" {
		return false
	}
	b, err := os.ReadFile(c.Replay)
	if err != nil {
		c.Broken("cannot read replay file: %v", err)
		return true
	}
	var rf struct {
		Scenario Scn `json:"scenario"`
	}
	if err := json.Unmarshal(b, &rf); err == nil && rf.Scenario.Kind == "CancelDial" {
		runDialers(c, e)
		return true
	}
	if err := json.Unmarshal(b, &rf); err != nil || rf.Scenario.Kind != "Cancel" {
		c.Broken("replay file is not a C19 scenario: %v", err)
		return true
	}
	s := rf.Scenario
	sh := findShape(e, s.Shape, s.Role)
	if sh == nil {
		c.Broken("replay: unknown shape %s/%s", s.Shape, s.Role)
		return true
	}
	st, _, err := count(e, sh, "cancel", "std")
	if err != nil {
		c.Broken("replay: shape unusable: %v", err)
		return true
	}
	if len(st) != s.N {
		c.Note(fmt.Sprintf("replay: the shape now has %d steps (recorded: %d)", len(st), s.N))
		if s.K > len(st) || s.J > len(st) {
			c.Broken("replay: recorded step no longer exists")
			return true
		}
		s.N = len(st)
	}
	infos := map[string]shapeInfo{s.Shape + "/" + s.Role: {sh, len(st), stepKinds(st)}}
	runAll(c, e, classes, multi, infos, []Scn{s}, 1)
	return true
}
