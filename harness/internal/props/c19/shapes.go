package c19

import (
	"bytes"
	"context"
	"crypto/sha256"
	"fmt"
	"log/slog"
	"net"
	"os"
	"path/filepath"
	"strings"
	"sync/atomic"
	"time"

	"github.com/bbockelm/cedar/commands"
	"github.com/bbockelm/cedar/message"
	"github.com/bbockelm/cedar/security"
	"github.com/bbockelm/cedar/stream"

	"cedarverif/internal/wire"
)

func init() {
	// cedar logs every handshake step through slog's default logger
	slog.SetDefault(slog.New(slog.DiscardHandler))
}

// env holds what all runs share: TOKEN credentials (a pool signing key for
// the server side, a JWT signed with it for the client side).
type env struct {
	poolKeyFile string
	keyDir      string
	token       string
	trustDomain string
	// SSL: a throw-away CA and a server certificate for "localhost", made at run time
	caFile, certFile, keyFile string
	// file transfer shapes: a 10 000-byte source file and a directory for received copies
	fileDir, srcFile string
}

func newEnv(dir string) (*env, error) {
	keyDir := filepath.Join(dir, "c19-keys")
	if err := os.MkdirAll(keyDir, 0o700); err != nil {
		return nil, err
	}
	pool := filepath.Join(keyDir, "POOL")
	if err := security.GeneratePoolSigningKey(pool); err != nil {
		return nil, err
	}
	now := time.Now()
	tok, err := security.GenerateJWT(keyDir, "POOL", "verif@cedar.test", "cedar.test",
		now.Add(-time.Minute).Unix(), now.Add(24*time.Hour).Unix(), nil)
	if err != nil {
		return nil, err
	}
	e := &env{poolKeyFile: pool, keyDir: keyDir, token: tok, trustDomain: "cedar.test"}
	e.fileDir = filepath.Join(dir, "c19-files")
	if err := os.MkdirAll(e.fileDir, 0o700); err != nil {
		return nil, err
	}
	e.srcFile = filepath.Join(e.fileDir, "src")
	if err := os.WriteFile(e.srcFile, payload(10000, 7), 0o600); err != nil {
		return nil, err
	}
	if err := e.makeCerts(filepath.Join(dir, "c19-ssl")); err != nil {
		return nil, fmt.Errorf("cannot make SSL credentials: %w", err)
	}
	return e, nil
}

// inst is one prepared run of a shape: the connection under test wraps the end
// the operation under test uses; the other end belongs to a real cedar peer.
type inst struct {
	a, b      *stream.Stream // plain shapes: the stream under test and the peer's stream
	conn      *wire.StallConn
	op        func(ctx context.Context) error // the call under test
	peer      func(ctx context.Context) error // the real cedar peer
	closeLink func()                          // closes both ends (the peer's blocked I/O then fails)
	cleanup   func()                          // after the peer has ended: leftovers, sessions, listener
}

type shape struct {
	Name string
	Role string // "plain" | "client" | "server"
	// handshake: any non-nil error satisfies "ctx"; plain: errors.Is(err, ctx.Err())
	Handshake bool
	// FailsAlone: left alone (no stall, nothing fired) the call performs a fixed script of
	// I/O steps and then returns a protocol error of its own. This is the SSL handshake
	// between two cedar endpoints: the TLS exchange runs to completion, then the
	// completion check fails because cedar's server role reports status 2 instead of
	// HOLDING. Every step up to there still has to be cancellable; only the runs whose
	// model outcome is "returns nil" (never fired / fired after the return) are skipped.
	FailsAlone bool
	// Deep: thorough tier only
	Deep bool
	// ClosesAlways: the call closes the connection when it returns, also on success (server.ServeConn)
	ClosesAlways bool
	// Dir: plain shapes: "r" the operation only reads, "w" only writes, "rw" both
	Dir string
	// NoProbe: the call derives its own context from the caller's, so the probe context cannot
	// place a cancellation between two of its steps (server.ServeConn)
	NoProbe bool
	// Plain, repeatable operation: it can be issued again on the same stream (reuse / duplex runs)
	Repeatable bool
	prepare    func(e *env) (*inst, error)
}

var runSerial int64

// link makes a TCP loopback pair and wraps the end under test.
// underTestDials: the operation under test uses the dialing end (clients, plain ops).
func link(underTestDials bool) (sc *wire.StallConn, mine, theirs net.Conn, closeLink, cleanup func(), err error) {
	d, a, release, err := wire.C19TCPPair()
	if err != nil {
		return nil, nil, nil, nil, nil, err
	}
	_, port, _ := net.SplitHostPort(a.LocalAddr().String())
	under, other := d, a
	if !underTestDials {
		under, other = a, d
	}
	sc = wire.NewStallConn(under)
	closeLink = func() {
		sc.Teardown()
		_ = other.Close()
	}
	cleanup = func() {
		closeLink()
		// FS authentication creates /tmp/FS_<server ip>_<server port>_* and may leave
		// it behind when the exchange is cut; the port is still reserved by our listener
		if m, _ := filepath.Glob(fmt.Sprintf("/tmp/FS_127.0.0.1_%s_*", port)); len(m) > 0 {
			for _, p := range m {
				_ = os.RemoveAll(p)
			}
		}
		release()
	}
	return sc, sc, other, closeLink, cleanup, nil
}

func payload(n int, salt byte) []byte {
	b := make([]byte, n)
	for i := range b {
		b[i] = byte(i*7) ^ salt
	}
	return b
}

func symKey() []byte {
	k := sha256.Sum256([]byte("c19 symmetric key"))
	return k[:]
}

// ---------------------------------------------------------------------------
// plain stream operations

type plainDef struct {
	name string
	dir  string // "r" | "w" | "rw"
	enc  bool
	op   func(ctx context.Context, st *stream.Stream) error
	peer func(ctx context.Context, st *stream.Stream) error
}

func recvAll(ctx context.Context, st *stream.Stream) error {
	_, err := st.ReceiveCompleteMessage(ctx)
	return err
}

func plainDefs() []plainDef {
	small := payload(100, 1)
	return []plainDef{
		{name: "send_single", dir: "w",
			op:   func(ctx context.Context, st *stream.Stream) error { return st.SendMessage(ctx, small) },
			peer: recvAll},
		{name: "send_stream_api", dir: "w", // WriteMessage crosses the 4096-byte frame threshold twice, then EndMessage
			op: func(ctx context.Context, st *stream.Stream) error {
				st.StartMessage()
				for i := 0; i < 2; i++ {
					if err := st.WriteMessage(ctx, payload(5000, byte(i))); err != nil {
						return err
					}
				}
				if err := st.WriteMessage(ctx, payload(10, 9)); err != nil {
					return err
				}
				return st.EndMessage(ctx)
			},
			peer: recvAll},
		{name: "send_message_api", dir: "w", // typed Message writer, several frames
			op: func(ctx context.Context, st *stream.Stream) error {
				m := message.NewMessageForStream(st)
				if err := m.PutInt(ctx, 42); err != nil {
					return err
				}
				for i := 0; i < 3; i++ {
					if err := m.PutBytes(ctx, payload(3000, byte(i))); err != nil {
						return err
					}
				}
				if err := m.PutString(ctx, "tail"); err != nil {
					return err
				}
				return m.FinishMessage(ctx)
			},
			peer: recvAll},
		{name: "recv_frame", dir: "r",
			op:   func(ctx context.Context, st *stream.Stream) error { _, err := st.ReceiveFrame(ctx); return err },
			peer: func(ctx context.Context, st *stream.Stream) error { return st.SendMessage(ctx, small) }},
		{name: "recv_complete_2frames", dir: "r",
			op: recvAll,
			peer: func(ctx context.Context, st *stream.Stream) error {
				if err := st.SendPartialMessage(ctx, payload(300, 3)); err != nil {
					return err
				}
				return st.SendMessage(ctx, payload(200, 4))
			}},
		{name: "recv_message_api", dir: "r", // typed Message reader pulling two frames
			op: func(ctx context.Context, st *stream.Stream) error {
				m := message.NewMessageFromStream(st)
				v, err := m.GetInt(ctx)
				if err != nil {
					return err
				}
				s, err := m.GetString(ctx)
				if err != nil {
					return err
				}
				if v != 7 || s != "hello c19" {
					return fmt.Errorf("c19 harness: wrong values %d %q", v, s)
				}
				return nil
			},
			peer: func(ctx context.Context, st *stream.Stream) error {
				m := message.NewMessageForStream(st)
				if err := m.PutInt(ctx, 7); err != nil {
					return err
				}
				if err := m.FlushFrame(ctx, false); err != nil {
					return err
				}
				if err := m.PutString(ctx, "hello c19"); err != nil {
					return err
				}
				return m.FinishMessage(ctx)
			}},
		{name: "exchange", dir: "rw", // request / response: one write, then the reads of the reply
			op: func(ctx context.Context, st *stream.Stream) error {
				if err := st.SendMessage(ctx, small); err != nil {
					return err
				}
				r, err := st.ReceiveCompleteMessage(ctx)
				if err != nil {
					return err
				}
				if !bytes.Equal(r, small) {
					return fmt.Errorf("c19 harness: echo differs")
				}
				return nil
			},
			peer: func(ctx context.Context, st *stream.Stream) error {
				r, err := st.ReceiveCompleteMessage(ctx)
				if err != nil {
					return err
				}
				return st.SendMessage(ctx, r)
			}},
		{name: "enc_send", dir: "w", enc: true,
			op: func(ctx context.Context, st *stream.Stream) error {
				if err := st.SendPartialMessage(ctx, payload(700, 5)); err != nil {
					return err
				}
				return st.SendMessage(ctx, small)
			},
			peer: recvAll},
		{name: "enc_recv", dir: "r", enc: true,
			op: recvAll,
			peer: func(ctx context.Context, st *stream.Stream) error {
				if err := st.SendPartialMessage(ctx, payload(300, 6)); err != nil {
					return err
				}
				return st.SendMessage(ctx, payload(200, 7))
			}},
	}
}

// plainShape builds a plain-operation shape in one stream flavour:
//
//	""          the stream as the definition says (plain, or keyed when d.enc)
//	"enc"       keyed (AES-GCM) although the definition is plain
//	"setconn"   the stream under test was created on ANOTHER connection and moved to the
//	            connection in use with SetConnection before the operation (what a
//	            reconnecting caller does): cancellation must act on the connection the
//	            operation is blocked on, not on the one the stream was born with
//	"enc_setconn" both
//	"imported"  keyed, and the stream under test was re-created from exported crypto state
//	            (NewStreamWithCryptoState), as after a hand-off to another process
func plainShape(d plainDef, flavour string, deep bool) *shape {
	name := d.name
	if flavour != "" {
		name += "_" + flavour
	}
	enc := d.enc || flavour == "enc" || flavour == "imported" || flavour == "enc_setconn"
	return &shape{Name: name, Role: "plain", Deep: deep, Dir: d.dir, Repeatable: d.dir == "r" || d.dir == "w", prepare: func(e *env) (*inst, error) {
		sc, mine, theirs, closeLink, cleanup, err := link(true)
		if err != nil {
			return nil, err
		}
		var a *stream.Stream
		if flavour == "setconn" || flavour == "enc_setconn" {
			old1, old2 := net.Pipe()
			a = stream.NewStream(old1)
			a.SetConnection(mine)
			cleanup0 := cleanup
			cleanup = func() { cleanup0(); _ = old1.Close(); _ = old2.Close() }
		} else {
			a = stream.NewStream(mine)
		}
		b := stream.NewStream(theirs)
		if enc {
			if err := a.SetSymmetricKey(symKey()); err != nil {
				cleanup()
				return nil, err
			}
			if err := b.SetSymmetricKey(symKey()); err != nil {
				cleanup()
				return nil, err
			}
		}
		if flavour == "imported" {
			// export needs a session past its first protected frame in both directions
			wctx, wcancel := context.WithTimeout(context.Background(), 10*time.Second)
			werr := func() error {
				errCh := make(chan error, 1)
				go func() {
					if _, err := b.ReceiveCompleteMessage(wctx); err != nil {
						errCh <- err
						return
					}
					errCh <- b.SendMessage(wctx, []byte("warm-up reply"))
				}()
				if err := a.SendMessage(wctx, []byte("warm-up")); err != nil {
					return err
				}
				if _, err := a.ReceiveCompleteMessage(wctx); err != nil {
					return err
				}
				return <-errCh
			}()
			wcancel()
			if werr != nil {
				cleanup()
				return nil, fmt.Errorf("warm-up exchange: %w", werr)
			}
			sc.ResetSteps()
			blob, err := a.ExportCryptoState()
			if err != nil {
				cleanup()
				return nil, fmt.Errorf("ExportCryptoState: %w", err)
			}
			a2, err := stream.NewStreamWithCryptoState(mine, blob)
			if err != nil {
				cleanup()
				return nil, fmt.Errorf("NewStreamWithCryptoState: %w", err)
			}
			a = a2
		}
		return &inst{conn: sc, closeLink: closeLink, a: a, b: b,
			op:      func(ctx context.Context) error { return d.op(ctx, a) },
			peer:    func(ctx context.Context) error { return d.peer(ctx, b) },
			cleanup: cleanup}, nil
	}}
}

// ---------------------------------------------------------------------------
// handshakes

type hsDef struct {
	deep       bool
	failsAlone bool
	name       string
	methods    []security.AuthMethod
	auth       security.SecurityLevel
	enc        security.SecurityLevel
	resumed    bool
}

func hsDefs() []hsDef {
	return []hsDef{
		{name: "hs_none", methods: []security.AuthMethod{security.AuthNone}, auth: security.SecurityOptional, enc: security.SecurityRequired},
		{name: "hs_claimtobe", methods: []security.AuthMethod{security.AuthClaimToBe}, auth: security.SecurityRequired, enc: security.SecurityOptional},
		{name: "hs_token", methods: []security.AuthMethod{security.AuthToken}, auth: security.SecurityRequired, enc: security.SecurityOptional},
		{name: "hs_fs", methods: []security.AuthMethod{security.AuthFS}, auth: security.SecurityRequired, enc: security.SecurityOptional},
		{name: "hs_ssl", failsAlone: true, methods: []security.AuthMethod{security.AuthSSL}, auth: security.SecurityRequired, enc: security.SecurityOptional},
		{name: "hs_resumed", methods: []security.AuthMethod{security.AuthNone}, auth: security.SecurityOptional, enc: security.SecurityRequired, resumed: true},
	}
}

func (e *env) cfg(d hsDef, client bool, peerName string, cache *security.SessionCache) *security.SecurityConfig {
	c := &security.SecurityConfig{
		AuthMethods:    append([]security.AuthMethod(nil), d.methods...),
		Authentication: d.auth,
		CryptoMethods:  []security.CryptoMethod{security.CryptoAES},
		Encryption:     d.enc,
		Integrity:      security.SecurityOptional,
		TrustDomain:    e.trustDomain,
		Command:        commands.DC_NOP,
		SessionCache:   cache,
	}
	if len(d.methods) == 1 && d.methods[0] == security.AuthSSL {
		// client: trusts the run-time CA and checks the server name; server: presents the certificate
		c.CAFile = e.caFile
		c.ServerName = "localhost"
		if !client {
			c.CertFile, c.KeyFile = e.certFile, e.keyFile
		}
	}
	if client {
		c.PeerName = peerName
		c.Token = e.token
	} else {
		c.TokenPoolSigningKeyFile = e.poolKeyFile
		c.TokenSigningKeyDir = e.keyDir
	}
	return c
}

// deepHsDefs: thorough tier: the authentication methods again with encryption REQUIRED
// (key agreement and protected post-authentication messages add steps), no encryption at
// all, and a resumed authenticated session.
func deepHsDefs() []hsDef {
	return []hsDef{
		{deep: true, name: "hs_claimtobe_enc", methods: []security.AuthMethod{security.AuthClaimToBe}, auth: security.SecurityRequired, enc: security.SecurityRequired},
		{deep: true, name: "hs_token_enc", methods: []security.AuthMethod{security.AuthToken}, auth: security.SecurityRequired, enc: security.SecurityRequired},
		{deep: true, name: "hs_fs_enc", methods: []security.AuthMethod{security.AuthFS}, auth: security.SecurityRequired, enc: security.SecurityRequired},
		{deep: true, name: "hs_none_noenc", methods: []security.AuthMethod{security.AuthNone}, auth: security.SecurityOptional, enc: security.SecurityNever},
		{deep: true, name: "hs_token_resumed", methods: []security.AuthMethod{security.AuthToken}, auth: security.SecurityRequired, enc: security.SecurityRequired, resumed: true},
		{deep: true, name: "hs_token_or_claimtobe", methods: []security.AuthMethod{security.AuthToken, security.AuthClaimToBe}, auth: security.SecurityRequired, enc: security.SecurityRequired},
	}
}

func hsShape(d hsDef, role string) *shape {
	return &shape{Name: d.name, Role: role, Handshake: true, FailsAlone: d.failsAlone, Deep: d.deep, prepare: func(e *env) (*inst, error) {
		serial := atomic.AddInt64(&runSerial, 1)
		peerName := fmt.Sprintf("c19-server-%d-%d", os.Getpid(), serial)
		// per-run caches: parallel runs never share a session (the server side of a full
		// handshake additionally files its session in the process-wide cache under a
		// fresh random id; it is invalidated in cleanup)
		cCache, sCache := security.NewSessionCache(), security.NewSessionCache()
		var sids []string
		dropSessions := func() {
			for _, id := range sids {
				security.GetSessionCache().Invalidate(id)
			}
		}
		if d.resumed {
			// a full handshake on a first connection stores the session on both sides
			c1, s1, rel, err := wire.C19TCPPair()
			if err != nil {
				return nil, err
			}
			ctx, cancel := context.WithTimeout(context.Background(), 10*time.Second)
			cs, ss := stream.NewStream(c1), stream.NewStream(s1)
			errCh := make(chan error, 1)
			go func() {
				neg, err := security.NewAuthenticator(e.cfg(d, false, "", sCache), ss).ServerHandshake(ctx)
				if err == nil && neg != nil {
					sids = append(sids, neg.SessionId)
				}
				errCh <- err
			}()
			_, cerr := security.NewAuthenticator(e.cfg(d, true, peerName, cCache), cs).ClientHandshake(ctx)
			serr := <-errCh
			cancel()
			_ = c1.Close()
			_ = s1.Close()
			rel()
			if cerr != nil || serr != nil {
				dropSessions()
				return nil, fmt.Errorf("first (full) handshake failed: client %v, server %v", cerr, serr)
			}
			if cCache.Size() == 0 {
				dropSessions()
				return nil, fmt.Errorf("first handshake stored no client session")
			}
		}
		sc, mine, theirs, closeLink, cleanup0, err := link(role == "client")
		if err != nil {
			dropSessions()
			return nil, err
		}
		var cConn, sConn net.Conn = mine, theirs
		if role == "server" {
			cConn, sConn = theirs, mine
		}
		cAuth := security.NewAuthenticator(e.cfg(d, true, peerName, cCache), stream.NewStream(cConn))
		sAuth := security.NewAuthenticator(e.cfg(d, false, "", sCache), stream.NewStream(sConn))
		client := func(ctx context.Context) error {
			neg, err := cAuth.ClientHandshake(ctx)
			if err == nil && d.resumed && (neg == nil || !neg.SessionResumed) {
				return fmt.Errorf("c19 harness: the measured handshake did not resume the session")
			}
			return err
		}
		sidCh := make(chan string, 1)
		server := func(ctx context.Context) error {
			neg, err := sAuth.ServerHandshake(ctx)
			if err == nil && neg != nil {
				select {
				case sidCh <- neg.SessionId:
				default:
				}
			}
			return err
		}
		in := &inst{conn: sc, closeLink: closeLink, cleanup: func() {
			cleanup0()
			select {
			case id := <-sidCh:
				sids = append(sids, id)
			default:
			}
			dropSessions()
		}}
		if role == "client" {
			in.op, in.peer = client, server
		} else {
			in.op, in.peer = server, client
		}
		return in, nil
	}}
}

// allShapes: the quick tier runs the shapes that are not Deep; thorough runs all.
func allShapes(e *env, thorough bool) []*shape {
	var out []*shape
	for _, d := range plainDefs() {
		out = append(out, plainShape(d, "", false))
	}
	for _, d := range plainDefs() {
		switch d.name { // the SetConnection variant: one send, one receive, one exchange
		case "send_single", "recv_frame", "exchange", "enc_recv":
			out = append(out, plainShape(d, "setconn", false))
		}
	}
	for _, d := range hsDefs() {
		out = append(out, hsShape(d, "client"), hsShape(d, "server"))
	}
	if !thorough {
		return out
	}
	have := map[string]bool{}
	for _, s := range out {
		have[s.Name] = true
	}
	add := func(d plainDef, flavour string) {
		s := plainShape(d, flavour, true)
		if !have[s.Name] {
			have[s.Name] = true
			out = append(out, s)
		}
	}
	for _, d := range append(plainDefs(), deepPlainDefs(e)...) {
		add(d, "")
		add(d, "setconn")
		if !d.enc {
			add(d, "enc")
			add(d, "enc_setconn")
			add(d, "imported")
		}
	}
	for _, d := range deepHsDefs() {
		out = append(out, hsShape(d, "client"), hsShape(d, "server"))
	}
	out = append(out, deepHandshakeShapes()...)
	return out
}

func findShape(e *env, name, role string) *shape {
	for _, s := range allShapes(e, true) {
		if s.Name == name && s.Role == role {
			return s
		}
	}
	return nil
}

func stepKinds(steps []wire.C19Step) string {
	var b strings.Builder
	for _, s := range steps {
		if s.Kind == "read" {
			b.WriteByte('r')
		} else {
			b.WriteByte('w')
		}
	}
	return b.String()
}
