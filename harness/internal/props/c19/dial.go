package c19

// Entry points that DIAL their own connection (client.ConnectAndAuthenticate*,
// ccb.GetTunnelAddress): the connection cannot be wrapped, so the stall is made
// by a relay between the call and a real cedar peer: after it forwarded k chunks
// it forwards nothing any more (the peer has gone silent). Chunk boundaries are
// those of TCP, so k is a position in the byte stream rather than an exact I/O
// step of the call; the expectations are the ones of Cancel.tla for "the context
// fires while a step is stalled": the call returns within the bound with an
// error and its connection is closed (the relay sees the end of the stream).

import (
	"context"
	"fmt"
	"net"
	"sync"
	"time"

	"github.com/bbockelm/cedar/ccb"
	"github.com/bbockelm/cedar/client"
	"github.com/bbockelm/cedar/commands"
	"github.com/bbockelm/cedar/message"
	"github.com/bbockelm/cedar/security"
	"github.com/bbockelm/cedar/server"
	"github.com/bbockelm/cedar/stream"

	"cedarverif/internal/core"
)

type relay struct {
	ln      net.Listener
	target  string
	muteAt  int // forward nothing from the muteAt-th chunk on (0: never)
	mu      sync.Mutex
	chunks  int
	muted   chan struct{}
	closedC chan struct{} // the dialing side closed its connection
	conns   []net.Conn
	once    sync.Once
	onceC   sync.Once
}

func newRelay(target string, muteAt int) (*relay, error) {
	ln, err := net.Listen("tcp", "127.0.0.1:0")
	if err != nil {
		return nil, err
	}
	r := &relay{ln: ln, target: target, muteAt: muteAt, muted: make(chan struct{}), closedC: make(chan struct{})}
	go func() {
		for {
			c, err := ln.Accept()
			if err != nil {
				return
			}
			up, err := net.DialTimeout("tcp", target, 5*time.Second)
			if err != nil {
				_ = c.Close()
				continue
			}
			r.mu.Lock()
			r.conns = append(r.conns, c, up)
			r.mu.Unlock()
			go r.pump(c, up, true)
			go r.pump(up, c, false)
		}
	}()
	return r, nil
}

func (r *relay) pump(from, to net.Conn, fromDialer bool) {
	buf := make([]byte, 96) // small pieces: the stall can fall inside a frame
	for {
		n, err := from.Read(buf)
		if n > 0 {
			r.mu.Lock()
			r.chunks++
			idx := r.chunks
			r.mu.Unlock()
			if r.muteAt > 0 && idx >= r.muteAt {
				r.once.Do(func() { close(r.muted) })
				// keep reading (and discarding) so that the end of the dialer's stream is seen
				for {
					if _, err := from.Read(buf); err != nil {
						if fromDialer {
							r.onceC.Do(func() { close(r.closedC) })
						}
						return
					}
				}
			}
			if _, werr := to.Write(buf[:n]); werr != nil {
				return
			}
		}
		if err != nil {
			if fromDialer {
				r.onceC.Do(func() { close(r.closedC) })
			}
			_ = to.Close()
			return
		}
	}
}

func (r *relay) addr() string { return r.ln.Addr().String() }
func (r *relay) close() {
	_ = r.ln.Close()
	r.mu.Lock()
	for _, c := range r.conns {
		_ = c.Close()
	}
	r.mu.Unlock()
}
func (r *relay) count() int { r.mu.Lock(); defer r.mu.Unlock(); return r.chunks }

type dialShape struct {
	name string
	// serve starts the real peer and returns its address and a stop function
	serve func(e *env) (string, func(), error)
	call  func(ctx context.Context, e *env, addr string) error
}

func noneCfg(e *env, client bool, cache *security.SessionCache) *security.SecurityConfig {
	return e.cfg(hsDef{methods: []security.AuthMethod{security.AuthNone}, auth: security.SecurityOptional, enc: security.SecurityRequired}, client, "", cache)
}

func dialShapes() []dialShape {
	return []dialShape{
		{name: "dial_connect_and_authenticate",
			serve: func(e *env) (string, func(), error) {
				srv := server.New(noneCfg(e, false, security.NewSessionCache()))
				srv.Handle(commands.DC_NOP, func(context.Context, *server.Conn) error { return nil })
				ln, err := net.Listen("tcp", "127.0.0.1:0")
				if err != nil {
					return "", nil, err
				}
				ctx, cancel := context.WithCancel(context.Background())
				go func() { _ = srv.Serve(ctx, ln) }()
				return ln.Addr().String(), func() { cancel(); _ = ln.Close() }, nil
			},
			call: func(ctx context.Context, e *env, addr string) error {
				cl, err := client.ConnectAndAuthenticateWithConfig(ctx, &client.ClientConfig{Address: addr, Security: noneCfg(e, true, security.NewSessionCache())})
				if err != nil {
					return err
				}
				return cl.Close()
			}},
		{name: "dial_ccb_get_tunnel_address",
			serve: func(e *env) (string, func(), error) { // scripted broker: real handshake, one request, one reply
				ln, err := net.Listen("tcp", "127.0.0.1:0")
				if err != nil {
					return "", nil, err
				}
				go func() {
					for {
						c, err := ln.Accept()
						if err != nil {
							return
						}
						go func() {
							defer c.Close()
							ctx, cancel := context.WithTimeout(context.Background(), 15*time.Second)
							defer cancel()
							s := stream.NewStream(c)
							if _, err := security.NewAuthenticator(noneCfg(e, false, security.NewSessionCache()), s).ServerHandshake(ctx); err != nil {
								return
							}
							if _, err := ccb.ReadControlAd(ctx, s); err != nil {
								return
							}
							_ = ccb.WriteControlAd(ctx, s, ccb.NewAd(map[string]any{ccb.AttrResult: true, ccb.AttrCCBAddress: "<127.0.0.1:9?ccbid=1>"}))
							// wait for the requester to hang up
							_, _ = message.NewMessageFromStream(s).GetInt(ctx)
						}()
					}
				}()
				return ln.Addr().String(), func() { _ = ln.Close() }, nil
			},
			call: func(ctx context.Context, e *env, addr string) error {
				_, err := ccb.GetTunnelAddress(ctx, addr, noneCfg(e, true, security.NewSessionCache()), "C19")
				return err
			}},
	}
}

type dialObs struct {
	reached, returned, closed bool
	err                       error
	latency                   time.Duration
	chunks                    int
}

func runDial(e *env, d dialShape, target string, muteAt int, kind string) dialObs {
	var o dialObs
	r, err := newRelay(target, muteAt)
	if err != nil {
		o.err = err
		return o
	}
	defer r.close()
	var ctx context.Context
	fire := func() {}
	switch kind {
	case "deadline":
		// armed when the stall begins (a short real deadline)
	case "derived":
		parent, pc := context.WithCancel(context.Background())
		child, cc := context.WithCancel(context.WithValue(parent, derivedKey{}, d.name))
		defer cc()
		defer pc()
		ctx, fire = child, pc
	default:
		c2, cc := context.WithCancel(context.Background())
		defer cc()
		ctx, fire = c2, cc
	}
	var dlCancel context.CancelFunc
	if kind == "deadline" {
		// far deadline first; the real run uses a timer that cancels a deadline-carrying context:
		// context.WithDeadline cannot be moved, so take a generous one and measure from its expiry
		ctx, dlCancel = context.WithDeadline(context.Background(), time.Now().Add(400*time.Millisecond))
		defer dlCancel()
	}
	done := make(chan error, 1)
	go func() { done <- d.call(ctx, e, r.addr()) }()
	var firedAt time.Time
	if muteAt == 0 {
		select {
		case o.err = <-done:
			o.returned = true
		case <-time.After(hardWait):
		}
		o.chunks = r.count()
		return o
	}
	select {
	case <-r.muted:
		o.reached = true
	case o.err = <-done:
		o.returned = true
		o.chunks = r.count()
		return o // the call ended before the stall position
	case <-time.After(hardWait):
		return o
	}
	if kind == "deadline" {
		if dl, ok := ctx.Deadline(); ok {
			firedAt = dl
		}
	} else {
		time.Sleep(10 * time.Millisecond)
		firedAt = time.Now()
		fire()
	}
	select {
	case o.err = <-done:
		o.returned = true
		o.latency = time.Since(firedAt)
	case <-time.After(hardWait + 500*time.Millisecond):
	}
	if o.returned {
		select {
		case <-r.closedC:
			o.closed = true
		case <-time.After(closedWait):
		}
	}
	return o
}

// runDialers: baseline (must succeed), then a stall at every chunk position.
func runDialers(c *core.Ctx, e *env) {
	total, conform := 0, 0
	for _, d := range dialShapes() {
		target, stop, err := d.serve(e)
		if err != nil {
			c.Broken("dial shape %s: %v", d.name, err)
			continue
		}
		base := runDial(e, d, target, 0, "cancel")
		if !base.returned || base.err != nil {
			c.Broken("dial shape %s is unusable: baseline returned=%v err=%v", d.name, base.returned, base.err)
			stop()
			continue
		}
		bg := make(chan error, 1)
		go func() { bg <- d.call(context.Background(), e, target) }()
		select {
		case err := <-bg:
			if err != nil {
				c.Broken("dial shape %s fails with context.Background(): %v", d.name, err)
			}
		case <-time.After(hardWait):
			c.Broken("dial shape %s hangs with context.Background()", d.name)
		}
		c.Set("chunks_"+d.name, base.chunks)
		type job struct {
			k    int
			kind string
		}
		var jobs []job
		step := 1
		if base.chunks > 60 {
			step = base.chunks / 60
		}
		for k := 1; k <= base.chunks; k += step {
			for _, kind := range []string{"cancel", "deadline", "derived"} {
				jobs = append(jobs, job{k, kind})
			}
		}
		var mu sync.Mutex
		core.ParallelFor(len(jobs), 8, func(i int) {
			j := jobs[i]
			judge := func(o dialObs) (string, string) {
				switch {
				case !o.reached:
					return "", "" // the call ended before this position: nothing to judge
				case !o.returned:
					return "returns", fmt.Sprintf("the call had not returned %s after the context fired (relay silent from chunk %d on)", hardWait, j.k)
				case o.latency > latencyBound:
					return "returns", fmt.Sprintf("returned %s after the context fired (bound %s)", o.latency, latencyBound)
				case o.err == nil:
					return "error", "the call returned nil although its peer went silent and its context fired"
				case !o.closed:
					return "closed", fmt.Sprintf("the call returned %q and its connection was not closed within %s", o.err, closedWait)
				}
				return "", ""
			}
			o := runDial(e, d, target, j.k, j.kind)
			chk, detail := judge(o)
			if chk != "" {
				o2 := runDial(e, d, target, j.k, j.kind)
				chk2, _ := judge(o2)
				if chk2 == "" {
					c.Note(fmt.Sprintf("flake: %s k=%d %s: %s; immediate re-run conforms", d.name, j.k, j.kind, detail))
					chk = ""
				} else if chk2 != chk {
					c.Broken("%s k=%d %s: non-reproducible difference (%s, then %s)", d.name, j.k, j.kind, chk, chk2)
					return
				}
			}
			c.Eval(fmt.Sprintf("%s/k%d/%s", d.name, j.k, j.kind), o.reached)
			mu.Lock()
			defer mu.Unlock()
			total++
			if chk == "" {
				conform++
				return
			}
			c.Fail(core.Failure{
				Signature: map[string]string{"spec": "Cancel", "shape": d.name, "role": "client", "op": "dial", "timing": "during_stall", "kind": j.kind, "check": chk},
				Detail:    fmt.Sprintf("%s, peer silent from chunk %d of %d on, context (%s) fired during the stall: %s", d.name, j.k, base.chunks, j.kind, detail),
				Scenario:  map[string]any{"kind_of_scenario": "CancelDial", "shape": d.name, "k": j.k, "ctx_kind": j.kind},
			})
		})
		stop()
	}
	c.Add("traces_validated_against_impl", int64(conform))
	c.Set("dial_runs", total)
}
