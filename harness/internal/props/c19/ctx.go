package c19

import (
	"context"
	"sync"
	"time"
)

// probeCtx is a context.Context that is not one of the standard library's
// types but implements the method
//
//	AfterFunc(f func()) (stop func() bool)
//
// Package context (Go >= 1.21) detects that method on foreign parents (the
// unexported afterFuncer interface used by propagateCancel) and registers
// through it, so context.AfterFunc(probe, f) - which is what cedar's
// read/writeWithContext call - ends up here, and the stop function this method
// returns is invoked when cedar's stop() wins. The probe therefore sees the
// exact instant "stop() of a step succeeded", which lies after the I/O of that
// step and before the entry check of the next one: the only point at which a
// cancellation BETWEEN two steps can be placed deterministically without a
// hook in the code under test.
type probeCtx struct {
	mu    sync.Mutex
	done  chan struct{}
	err   error
	cause error // the error Err reports once cancelled
	funcs map[int]func()
	next  int

	// arm: cancel inside the first successful stop() at which stepsDone() == afterStep
	afterStep int
	stepsDone func() int

	firedAt  time.Time
	regs     int // AfterFunc registrations seen
	stopsWon int // successful stop() calls seen
}

func newProbeCtx(cause error) *probeCtx {
	return &probeCtx{done: make(chan struct{}), funcs: map[int]func(){}, cause: cause}
}

func (c *probeCtx) Deadline() (time.Time, bool) { return time.Time{}, false }
func (c *probeCtx) Done() <-chan struct{}       { return c.done }
func (c *probeCtx) Value(any) any               { return nil }
func (c *probeCtx) Err() error {
	c.mu.Lock()
	defer c.mu.Unlock()
	return c.err
}

// ArmAfterStep makes the context cancel itself inside the stop() that follows
// step j of the connection whose completed-step counter is stepsDone.
func (c *probeCtx) ArmAfterStep(j int, stepsDone func() int) {
	c.mu.Lock()
	c.afterStep, c.stepsDone = j, stepsDone
	c.mu.Unlock()
}

func (c *probeCtx) AfterFunc(f func()) (stop func() bool) {
	c.mu.Lock()
	defer c.mu.Unlock()
	c.regs++
	if c.err != nil {
		go f()
		return func() bool { return false }
	}
	id := c.next
	c.next++
	c.funcs[id] = f
	return func() bool {
		c.mu.Lock()
		_, ok := c.funcs[id]
		delete(c.funcs, id)
		fire := false
		if ok {
			c.stopsWon++
			if c.afterStep > 0 && c.err == nil && c.stepsDone != nil && c.stepsDone() == c.afterStep {
				fire = true
			}
		}
		c.mu.Unlock()
		if fire {
			c.Cancel()
		}
		return ok
	}
}

// Cancel cancels the context: Done is closed, Err reports the cause, and every
// function still registered runs in its own goroutine (as the standard library
// does).
func (c *probeCtx) Cancel() {
	c.mu.Lock()
	if c.err != nil {
		c.mu.Unlock()
		return
	}
	c.err = c.cause
	c.firedAt = time.Now()
	close(c.done)
	fs := c.funcs
	c.funcs = map[int]func(){}
	c.mu.Unlock()
	for _, f := range fs {
		go f()
	}
}

func (c *probeCtx) FiredAt() time.Time { c.mu.Lock(); defer c.mu.Unlock(); return c.firedAt }
func (c *probeCtx) Stats() (regs, stopsWon int) {
	c.mu.Lock()
	defer c.mu.Unlock()
	return c.regs, c.stopsWon
}

var _ context.Context = (*probeCtx)(nil)
