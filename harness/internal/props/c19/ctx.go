package c19

import (
	"context"
	"sync"
	"time"
)

// probeCtx is a context.Context that is not one of the standard library's
// types but implements the method
//
//	AfterFunc(f func()) (stop func() bool)
//
// Package context (Go >= 1.21) detects that method on foreign parents (the
// unexported afterFuncer interface used by propagateCancel) and registers
// through it, so context.AfterFunc(probe, f) - which is what cedar's
// read/writeWithContext call - ends up here, and the stop function this method
// returns is invoked when cedar's stop() wins. The probe therefore sees the
// exact instant "stop() of a step succeeded", which lies after the I/O of that
// step and before the entry check of the next one: the only point at which a
// cancellation BETWEEN two steps can be placed deterministically without a
// hook in the code under test.
type probeCtx struct {
	mu    sync.Mutex
	done  chan struct{}
	err   error
	cause error // the error Err reports once cancelled
	funcs map[int]func()
	next  int

	// arm: cancel inside the first successful stop() at which stepsDone() == afterStep
	afterStep    int
	stepsDone    func() int
	stepsStarted func() int

	firedAt  time.Time
	firedBy  string // "stop" | "err" | "cancel"
	regs     int    // AfterFunc registrations seen
	stopsWon int    // successful stop() calls seen
}

func newProbeCtx(cause error) *probeCtx {
	return &probeCtx{done: make(chan struct{}), funcs: map[int]func(){}, cause: cause}
}

func (c *probeCtx) Deadline() (time.Time, bool) { return time.Time{}, false }
func (c *probeCtx) Done() <-chan struct{}       { return c.done }
func (c *probeCtx) Value(any) any               { return nil }
func (c *probeCtx) Err() error {
	c.mu.Lock()
	// second placement of a between-steps cancellation, independent of AfterFunc: the
	// first time anybody asks for Err() while step afterStep is the last one started
	// AND completed (that is the entry check of the next step, or any check the
	// caller makes between the two), the context turns out to be cancelled
	fire := c.err == nil && c.afterStep > 0 && c.stepsDone != nil && c.stepsStarted != nil &&
		c.stepsDone() == c.afterStep && c.stepsStarted() == c.afterStep
	c.mu.Unlock()
	if fire {
		c.cancelBy("err")
	}
	c.mu.Lock()
	defer c.mu.Unlock()
	return c.err
}

// ArmAfterStep makes the context cancel itself inside the stop() that follows
// step j of the connection whose completed-step counter is stepsDone, or - should
// that step have registered no AfterFunc - at the first Err() asked after it.
func (c *probeCtx) ArmAfterStep(j int, stepsDone, stepsStarted func() int) {
	c.mu.Lock()
	c.afterStep, c.stepsDone, c.stepsStarted = j, stepsDone, stepsStarted
	c.mu.Unlock()
}

func (c *probeCtx) AfterFunc(f func()) (stop func() bool) {
	c.mu.Lock()
	defer c.mu.Unlock()
	c.regs++
	if c.err != nil {
		go f()
		return func() bool { return false }
	}
	id := c.next
	c.next++
	c.funcs[id] = f
	return func() bool {
		c.mu.Lock()
		_, ok := c.funcs[id]
		delete(c.funcs, id)
		fire := false
		if ok {
			c.stopsWon++
			if c.afterStep > 0 && c.err == nil && c.stepsDone != nil && c.stepsDone() == c.afterStep {
				fire = true
			}
		}
		c.mu.Unlock()
		if fire {
			c.cancelBy("stop")
		}
		return ok
	}
}

// Cancel cancels the context: Done is closed, Err reports the cause, and every
// function still registered is called.
func (c *probeCtx) Cancel() { c.cancelBy("cancel") }

func (c *probeCtx) cancelBy(who string) {
	c.mu.Lock()
	if c.err != nil {
		c.mu.Unlock()
		return
	}
	c.firedBy = who
	c.err = c.cause
	c.firedAt = time.Now()
	close(c.done)
	fs := c.funcs
	c.funcs = map[int]func(){}
	c.mu.Unlock()
	// The registered functions are run here, synchronously, exactly as the standard
	// library's cancelCtx.cancel calls its children: what package context registers
	// through AfterFunc is its own short child.cancel, which starts the user's f in a
	// new goroutine itself. (Running them asynchronously would be legal for a foreign
	// context but leaves a window in which Err() != nil while cedar's stop() can still
	// win - a race the replay could not reproduce.)
	for _, f := range fs {
		f()
	}
}

func (c *probeCtx) FiredBy() string    { c.mu.Lock(); defer c.mu.Unlock(); return c.firedBy }
func (c *probeCtx) FiredAt() time.Time { c.mu.Lock(); defer c.mu.Unlock(); return c.firedAt }
func (c *probeCtx) Stats() (regs, stopsWon int) {
	c.mu.Lock()
	defer c.mu.Unlock()
	return c.regs, c.stopsWon
}

var _ context.Context = (*probeCtx)(nil)
