package c19

import (
	"context"
	"errors"
	"fmt"
	"strings"
	"sync"
	"time"

	"cedarverif/internal/wire"
)

// Scn is one concrete run against the real code: everything needed to repeat it.
type Scn struct {
	Kind    string `json:"kind_of_scenario"` // "Cancel"
	Shape   string `json:"shape"`
	Role    string `json:"role"`
	N       int    `json:"n"`        // I/O steps of the shape (counted on the real code)
	K       int    `json:"k"`        // stalled step (0: the peer never stalls)
	J       int    `json:"j"`        // step the firing is attached to (0: none)
	Timing  string `json:"timing"`   // timing class of the model
	CtxKind string `json:"ctx_kind"` // "cancel" | "deadline" | "background"
	CtxImpl string `json:"ctx_impl"` // "std" (context.WithCancel/WithDeadline/Background) | "probe"
	Partial bool   `json:"partial"`  // the stalled step transfers half of its bytes first
	// Mode: "" | "reuse" (the same operation is issued again on the stream after the cancelled
	// one returned) | "duplex" (a second operation runs on the other direction meanwhile);
	// CB: context of that second operation, "same" | "fresh" (CancelMulti.tla)
	Mode string `json:"mode,omitempty"`
	CB   string `json:"cb,omitempty"`
	// DeadlineMs: for std deadline contexts, distance of the deadline from the call
	DeadlineMs int `json:"deadline_ms,omitempty"`
}

func (s Scn) key() string {
	return fmt.Sprintf("%s/%s/n%d/k%d/j%d/%s/%s/%s/p%v/%s%s", s.Shape, s.Role, s.N, s.K, s.J, s.Timing, s.CtxKind, s.CtxImpl, s.Partial, s.Mode, s.CB)
}

// Obs is the projection of what the real code did.
type Obs struct {
	Returned  bool    `json:"returned"`
	ErrClass  string  `json:"err_class"` // "none" | "ctx" | "other"
	ErrText   string  `json:"err,omitempty"`
	LatencyMs float64 `json:"latency_ms"`         // from the firing of the context to the return
	Closed    bool    `json:"closed"`             // the code under test closed the connection (within 1 s of the return)
	Fired     bool    `json:"fired"`              // the planned firing point was reached
	FiredBy   string  `json:"fired_by,omitempty"` // probe context: "stop" (inside cedar's stop()) | "err" (at an Err() check) | "cancel"
	StallSeen bool    `json:"stall_seen"`
	StallHeld bool    `json:"stall_held"` // the call was still blocked a moment after the stall began
	Steps     string  `json:"steps"`      // kinds of the steps started, e.g. "wrrww"
	StepsDone int     `json:"steps_done"`
	Inconcl   string  `json:"inconclusive,omitempty"`
	PeerErr   string  `json:"peer_err,omitempty"`
	// second operation (Mode reuse / duplex)
	BStarted   bool    `json:"b_started,omitempty"`
	BReturned  bool    `json:"b_returned,omitempty"`
	BErrClass  string  `json:"b_err_class,omitempty"` // "none" | "ctx" | "other"
	BErrText   string  `json:"b_err,omitempty"`
	BLatencyMs float64 `json:"b_latency_ms,omitempty"` // reuse: from its start; duplex: from the firing of a's context
	BStalled   bool    `json:"b_stalled,omitempty"`    // b's peer never answers
	CtxErrText string  `json:"ctx_err,omitempty"`
}

type derivedKey struct{}

const (
	latencyBound = time.Second     // DESIGN: return within 1 s of the firing
	hardWait     = 5 * time.Second // after that the run "did not return"
	closedWait   = time.Second
)

// exec performs one run. needClosed: wait for the connection to be closed.
func exec(e *env, sh *shape, s Scn, needClosed bool) (obs Obs) {
	in, err := sh.prepare(e)
	if err != nil {
		obs.Inconcl = "prepare: " + err.Error()
		return
	}
	conn := in.conn
	conn.StallAt = s.K
	conn.StallPartial = s.Partial

	var (
		mu      sync.Mutex
		firedAt time.Time
		ctx     context.Context
		cancel  func()
		probe   *probeCtx
	)
	cause := context.Canceled
	if s.CtxKind == "deadline" {
		cause = context.DeadlineExceeded
	}
	fire := func() {
		mu.Lock()
		if firedAt.IsZero() {
			firedAt = time.Now()
		}
		mu.Unlock()
		cancel()
	}
	var deadline time.Time
	switch {
	case s.CtxKind == "background":
		ctx, cancel = context.Background(), func() {}
	case s.CtxImpl == "probe":
		probe = newProbeCtx(cause)
		ctx, cancel = probe, probe.Cancel
	case s.CtxKind == "derived":
		// the call gets a context derived (WithValue + WithCancel) from the one that is cancelled
		parent, pcancel := context.WithCancel(context.Background())
		child, ccancel := context.WithCancel(context.WithValue(parent, derivedKey{}, s.Shape))
		ctx, cancel = child, pcancel
		defer ccancel()
		defer pcancel()
	case s.CtxKind == "deadline":
		// a real deadline: expired, short (fires during the stall / after the return) or far
		d := time.Duration(s.DeadlineMs) * time.Millisecond
		switch s.Timing {
		case "before_call":
			d = -time.Millisecond
		case "never":
			d = time.Minute
		}
		deadline = time.Now().Add(d)
		var c2 context.CancelFunc
		ctx, c2 = context.WithDeadline(context.Background(), deadline)
		cancel = func() {} // the deadline is the only thing that fires this context
		defer c2()
	default:
		var c2 context.CancelFunc
		ctx, c2 = context.WithCancel(context.Background())
		cancel = c2
		defer c2()
	}

	stallCh := make(chan struct{})
	var stallAt time.Time
	conn.OnStall = func(idx int, kind string) {
		mu.Lock()
		stallAt = time.Now()
		mu.Unlock()
		close(stallCh)
	}
	stdDeadline := s.CtxKind == "deadline" && s.CtxImpl != "probe"
	switch s.Timing {
	case "before_call":
		if !stdDeadline {
			fire()
		}
		obs.Fired = true
	case "in_step_then_completes":
		conn.AfterOp = func(idx int, kind string) {
			if idx == s.J {
				fire()
			}
		}
	case "in_step_then_closed":
		conn.BeforeOp = func(idx int, kind string) {
			if idx == s.J {
				fire()
				conn.WaitClosed(2 * time.Second) // let the watcher win; the I/O then fails
			}
		}
	case "between_steps":
		if probe != nil {
			probe.ArmAfterStep(s.J, conn.StepsDone, conn.StepsStarted)
		}
	}

	pctx, pcancel := context.WithTimeout(context.Background(), 20*time.Second)
	peerCh := make(chan error, 1)
	go func() { peerCh <- in.peer(pctx) }()

	// second operation on the same stream (CancelMulti.tla)
	var ctxB context.Context = context.Background()
	bCh := make(chan error, 1)
	var bStart time.Time
	var bOp func(context.Context) error
	if s.Mode == "duplex" && in.a != nil {
		if sh.Dir == "r" {
			// a only reads: only reads are steps; b sends three messages, the peer drains them
			conn.OnlyKind = "read"
			go func() {
				for {
					if _, err := in.b.ReceiveCompleteMessage(pctx); err != nil {
						return
					}
				}
			}()
			bOp = func(c context.Context) error {
				for i := 0; i < 3; i++ {
					if err := in.a.SendMessage(c, payload(200, byte(i))); err != nil {
						return err
					}
				}
				return nil
			}
		} else {
			// a only writes: only writes are steps; b waits for a message the peer never sends
			conn.OnlyKind = "write"
			obs.BStalled = true
			bOp = func(c context.Context) error { _, err := in.a.ReceiveCompleteMessage(c); return err }
		}
	}
	if s.Mode == "reuse" {
		bOp = in.op
	}

	opCh := make(chan error, 1)
	t0 := time.Now()
	go func() { opCh <- in.op(ctx) }()
	if s.CB == "same" {
		ctxB = ctx
	}

	var opErr error
	returned := false
	var retAt time.Time
	waitRet := func(d time.Duration) bool {
		if returned {
			return true
		}
		t := time.NewTimer(d)
		defer t.Stop()
		select {
		case opErr = <-opCh:
			returned, retAt = true, time.Now()
		case <-t.C:
		}
		return returned
	}

	switch s.Timing {
	case "during_stall":
		select {
		case <-stallCh:
			obs.StallSeen = true
			if stdDeadline {
				// nothing to do: the deadline fires on its own (that the stalled step really
				// blocks is sampled by the cancel runs of the same step)
				obs.StallHeld = true
			} else {
				obs.StallHeld = !waitRet(10 * time.Millisecond)
				if s.Mode == "duplex" && bOp != nil {
					obs.BStarted, bStart = true, time.Now()
					go func() { bCh <- bOp(ctxB) }()
					time.Sleep(20 * time.Millisecond) // let it run / block
				}
				fire()
			}
		case opErr = <-opCh:
			returned, retAt = true, time.Now()
		case <-time.After(hardWait):
		}
	case "after_return":
		if waitRet(hardWait) && !stdDeadline {
			fire()
		}
	case "between_steps":
		// The probe fires inside the stop() / at the Err() check that follows step j. A step
		// that never consults the caller's context (a sub-step running on context.Background
		// or WithoutCancel) never gives it that chance; the call then reaches the stalled
		// step k with a live context. Fire it there: the run becomes "cancelled while
		// stalled", which must return all the same.
		if probe != nil && s.K > 0 {
			select {
			case <-stallCh:
				obs.StallSeen = true
				if probe.FiredAt().IsZero() {
					fire()
				}
			case opErr = <-opCh:
				returned, retAt = true, time.Now()
			case <-time.After(hardWait):
			}
		}
	}
	waitRet(hardWait + time.Duration(s.DeadlineMs)*time.Millisecond)

	if s.Mode == "reuse" && returned && bOp != nil {
		// the same operation again, on the stream whose previous operation was cancelled
		obs.BStarted, bStart = true, time.Now()
		obs.BStalled = true // whatever it needs from the peer will not come: the peer is gone or stalled
		go func() { bCh <- bOp(ctxB) }()
	}
	if obs.BStarted {
		var bErr error
		select {
		case bErr = <-bCh:
			obs.BReturned = true
			ref := bStart
			if s.Mode == "duplex" {
				mu.Lock()
				if !firedAt.IsZero() {
					ref = firedAt
				}
				mu.Unlock()
			}
			obs.BLatencyMs = float64(time.Since(ref)) / float64(time.Millisecond)
			switch {
			case bErr == nil:
				obs.BErrClass = "none"
			case ctxB.Err() != nil && errors.Is(bErr, ctxB.Err()):
				obs.BErrClass = "ctx"
			default:
				obs.BErrClass = "other"
			}
			if bErr != nil {
				obs.BErrText = bErr.Error()
			}
		case <-time.After(hardWait):
		}
	}

	// when did the context fire?
	mu.Lock()
	fa, sa := firedAt, stallAt
	mu.Unlock()
	if probe != nil && !probe.FiredAt().IsZero() {
		fa = probe.FiredAt()
		obs.FiredBy = probe.FiredBy()
	}
	if stdDeadline {
		switch s.Timing {
		case "before_call":
			fa = t0
		case "during_stall", "after_return":
			if ctx.Err() != nil || time.Now().After(deadline) {
				fa = deadline
			}
			if s.Timing == "during_stall" && (!obs.StallSeen || !sa.Before(deadline.Add(-2*time.Millisecond))) {
				obs.Inconcl = "deadline passed before the stalled step was reached"
			}
			if s.Timing == "after_return" && returned && !retAt.Before(deadline.Add(-2*time.Millisecond)) {
				obs.Inconcl = "deadline passed before the call returned"
			}
		}
	}
	if s.Timing == "before_call" && !stdDeadline {
		fa = t0 // the call could not have returned earlier than it was made
	}
	obs.Fired = !fa.IsZero() || s.Timing == "never"
	if s.Timing == "after_return" && stdDeadline && returned && obs.Inconcl == "" {
		// let the deadline pass: it must not disturb anything
		select {
		case <-ctx.Done():
		case <-time.After(time.Until(deadline) + 2*time.Second):
		}
		obs.Fired = ctx.Err() != nil
	}

	obs.Returned = returned
	ctxErr := ctx.Err()
	if ctxErr != nil {
		obs.CtxErrText = ctxErr.Error()
	}
	if returned {
		switch {
		case opErr == nil:
			obs.ErrClass = "none"
		case ctxErr != nil && errors.Is(opErr, ctxErr):
			obs.ErrClass = "ctx"
		default:
			obs.ErrClass = "other"
		}
		if opErr != nil {
			obs.ErrText = opErr.Error()
		}
		if !fa.IsZero() {
			obs.LatencyMs = float64(retAt.Sub(fa)) / float64(time.Millisecond)
		}
	}
	if needClosed && returned {
		obs.Closed = conn.WaitClosed(closedWait)
	} else {
		obs.Closed = conn.Closed()
	}

	// a successful call is only meaningful if the peer was served too
	var peerErr error
	peerDone := false
	if returned && opErr == nil {
		select {
		case peerErr = <-peerCh:
			peerDone = true
		case <-time.After(hardWait):
		}
	}
	steps := conn.Steps()
	obs.Steps = stepKinds(steps)
	obs.StepsDone = conn.StepsDone()
	// release everything: cut the link, let both goroutines end, then clean up
	in.closeLink()
	pcancel()
	if !returned {
		select {
		case <-opCh:
		case <-time.After(2 * time.Second):
		}
	}
	if !peerDone {
		select {
		case peerErr = <-peerCh:
		case <-time.After(3 * time.Second):
			obs.Inconcl = joinNote(obs.Inconcl, "peer goroutine did not end")
		}
	}
	in.cleanup()
	if peerErr != nil {
		obs.PeerErr = peerErr.Error()
	}
	return obs
}

func joinNote(a, b string) string {
	if a == "" {
		return b
	}
	return a + "; " + b
}

// count runs the shape once without a stall and without cancellation and
// returns the steps it performed.
func count(e *env, sh *shape, ctxKind, impl string) ([]wire.C19Step, Obs, error) {
	in, err := sh.prepare(e)
	if err != nil {
		return nil, Obs{}, err
	}
	var ctx context.Context
	cancel := func() {}
	switch {
	case ctxKind == "background":
		ctx = context.Background()
	case impl == "probe":
		p := newProbeCtx(context.Canceled)
		ctx, cancel = p, p.Cancel
	default:
		ctx, cancel = context.WithCancel(context.Background())
	}
	defer cancel()
	pctx, pcancel := context.WithTimeout(context.Background(), 20*time.Second)
	defer pcancel()
	peerCh := make(chan error, 1)
	go func() { peerCh <- in.peer(pctx) }()
	opCh := make(chan error, 1)
	go func() { opCh <- in.op(ctx) }()
	var opErr, peerErr error
	select {
	case opErr = <-opCh:
	case <-time.After(10 * time.Second):
		opErr = fmt.Errorf("did not return within 10 s")
	}
	if opErr == nil {
		select {
		case peerErr = <-peerCh:
		case <-time.After(10 * time.Second):
			peerErr = fmt.Errorf("peer did not finish within 10 s")
		}
	}
	steps := in.conn.Steps()
	closed := in.conn.Closed()
	in.closeLink()
	if opErr != nil {
		select {
		case <-peerCh:
		case <-time.After(3 * time.Second):
		}
	}
	in.cleanup()
	o := Obs{Returned: true, Steps: stepKinds(steps), Closed: closed}
	if sh.FailsAlone {
		// the baseline of this shape is a deterministic protocol error after its script
		if opErr == nil {
			return steps, o, fmt.Errorf("shape is marked FailsAlone but the call succeeded: un-mark it")
		}
		if strings.Contains(opErr.Error(), "did not return within") {
			return steps, o, opErr
		}
		o.ErrText = opErr.Error()
		return steps, o, nil
	}
	if opErr != nil {
		return steps, o, fmt.Errorf("call failed without stall or cancellation: %v", opErr)
	}
	if peerErr != nil {
		return steps, o, fmt.Errorf("peer failed without stall or cancellation: %v", peerErr)
	}
	if closed && !sh.ClosesAlways {
		return steps, o, fmt.Errorf("connection closed by the code under test although nothing was cancelled")
	}
	return steps, o, nil
}
