package c19

import (
	"crypto/ecdsa"
	"crypto/elliptic"
	"crypto/rand"
	"crypto/x509"
	"crypto/x509/pkix"
	"encoding/pem"
	"math/big"
	"net"
	"os"
	"path/filepath"
	"time"
)

// makeCerts writes a throw-away CA certificate and a server certificate for
// "localhost" / 127.0.0.1 signed by it (ECDSA P-256) into dir.
func (e *env) makeCerts(dir string) error {
	if err := os.MkdirAll(dir, 0o700); err != nil {
		return err
	}
	writePEM := func(path, typ string, der []byte, mode os.FileMode) error {
		return os.WriteFile(path, pem.EncodeToMemory(&pem.Block{Type: typ, Bytes: der}), mode)
	}
	now := time.Now()
	caKey, err := ecdsa.GenerateKey(elliptic.P256(), rand.Reader)
	if err != nil {
		return err
	}
	caTpl := &x509.Certificate{
		SerialNumber: big.NewInt(1), Subject: pkix.Name{CommonName: "cedarverif C19 test CA"},
		NotBefore: now.Add(-time.Hour), NotAfter: now.Add(48 * time.Hour),
		IsCA: true, BasicConstraintsValid: true,
		KeyUsage: x509.KeyUsageCertSign | x509.KeyUsageDigitalSignature,
	}
	caDER, err := x509.CreateCertificate(rand.Reader, caTpl, caTpl, &caKey.PublicKey, caKey)
	if err != nil {
		return err
	}
	caCert, err := x509.ParseCertificate(caDER)
	if err != nil {
		return err
	}
	srvKey, err := ecdsa.GenerateKey(elliptic.P256(), rand.Reader)
	if err != nil {
		return err
	}
	srvTpl := &x509.Certificate{
		SerialNumber: big.NewInt(2), Subject: pkix.Name{CommonName: "localhost"},
		NotBefore: now.Add(-time.Hour), NotAfter: now.Add(48 * time.Hour),
		KeyUsage:    x509.KeyUsageDigitalSignature | x509.KeyUsageKeyEncipherment,
		ExtKeyUsage: []x509.ExtKeyUsage{x509.ExtKeyUsageServerAuth, x509.ExtKeyUsageClientAuth},
		DNSNames:    []string{"localhost"}, IPAddresses: []net.IP{net.IPv4(127, 0, 0, 1)},
	}
	srvDER, err := x509.CreateCertificate(rand.Reader, srvTpl, caCert, &srvKey.PublicKey, caKey)
	if err != nil {
		return err
	}
	keyDER, err := x509.MarshalPKCS8PrivateKey(srvKey)
	if err != nil {
		return err
	}
	e.caFile, e.certFile, e.keyFile = filepath.Join(dir, "ca.pem"), filepath.Join(dir, "server.pem"), filepath.Join(dir, "server.key")
	if err := writePEM(e.caFile, "CERTIFICATE", caDER, 0o644); err != nil {
		return err
	}
	if err := writePEM(e.certFile, "CERTIFICATE", srvDER, 0o644); err != nil {
		return err
	}
	return writePEM(e.keyFile, "PRIVATE KEY", keyDER, 0o600)
}
