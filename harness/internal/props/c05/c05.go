// Package c05 is the driver of property C05 (the server runs a command only
// on a session that meets that command's policy).
package c05

import (
	"fmt"
	"sort"
	"sync"
	"time"

	"cedarverif/internal/core"
	"cedarverif/internal/kit"
	"cedarverif/internal/srvreplay"
	"cedarverif/internal/tlc"
)

func init() { core.Register("C05", run) }

func run(c *core.Ctx) {
	c.Assume("ground truth for 'really encrypted' is Conn.Stream.IsEncrypted() inside the handler, cross-checked against the legibility of the handler's reply on the wire; for 'really authenticated' it is the client kind plus the CLAIMTOBE exchange seen on the wire (a resumed session inherits it from the connection that created it; whether a key-less session may be resumed at all is C06)")
	c.Assume("identities are attributed through Server.FQUMapper from the peer address (alice / bob); authentication method is CLAIMTOBE; reconfiguration (policy table, authorizer table) happens between connections")
	c.Assume("the specification is permissive where the statement is silent: any physically possible handshake outcome, and the server may refuse anything; differences from the intended design are counted, not reported")
	if srvreplay.ReplayFile(c) {
		return
	}
	mc := "MC_C05_quick.cfg"
	gens := []string{"Gen_C05_single_quick.cfg", "Gen_C05_resume_quick.cfg"}
	if c.Thorough() {
		mc = "MC_C05.cfg"
		gens = []string{"Gen_C05_single_thorough.cfg", "Gen_C05_resume_thorough.cfg"}
	}
	// the model check and the generators are independent TLC runs: run them side by side
	var wg sync.WaitGroup
	wg.Add(1)
	go func() {
		defer wg.Done()
		// 0.46 M states (quick) / millions (thorough); the generous timeout only
		// matters on a machine that is busy with other work
		kit.ModelCheck(c, "Server.tla", mc, tlc.Options{Workers: 12, Timeout: 25 * time.Minute})
		if c.Thorough() {
			kit.ModelCheck(c, "Server.tla", "MC_C05_users.cfg", tlc.Options{Workers: 12, Timeout: 25 * time.Minute})
		}
	}()
	parts := make([][]*srvreplay.Scenario, len(gens))
	for gi, g := range gens {
		wg.Add(1)
		go func(gi int, g string) {
			defer wg.Done()
			parts[gi] = srvreplay.Parse(c, kit.Generate(c, "Gen_Server.tla", g, tlc.Options{}))
		}(gi, g)
	}
	// thorough: seeded random walks through two arbitrary connections (3 commands
	// each, 2 reconfigurations in between) on top of the exhaustive sets
	var walks []*srvreplay.Scenario
	if c.Thorough() {
		wg.Add(1)
		go func() {
			defer wg.Done()
			raws := kit.Generate(c, "Gen_Server.tla", "Gen_C05_two.cfg", tlc.Options{Simulate: "num=6000", Depth: 40, Seed: c.Seed})
			walks = srvreplay.Parse(c, kit.Dedupe(raws))
		}()
	}
	wg.Wait()
	if c.IsBroken() {
		return
	}
	c.Set("random_walks", len(walks))
	var scs []*srvreplay.Scenario
	scs = append(scs, walks...)
	for _, part := range parts {
		for i, sc := range part {
			if i < 2 {
				c.Sample(sc)
			}
		}
		scs = append(scs, part...)
	}
	var st srvreplay.Stats
	srvreplay.Check(c, scs, &st)
	c.Add("traces_validated_against_impl", st.Accepted)
	c.Set("handler_invocations_observed", st.Handlers)
	c.Set("refusals_observed", st.Refusals)
	c.Set("connections", st.Conns)
	c.Set("real_api_calls", st.RealCalls)
	c.Set("handler_invocations_by_path", st.ByVia)
	var devs []string
	for k, v := range st.Deviations {
		devs = append(devs, fmt.Sprintf("%d x %s", v, k))
	}
	sort.Strings(devs)
	c.Set("differences_from_intended_design_not_violations", devs)
	// dead-driver guard: every path of the dispatch loop must have been exercised
	if !c.IsBroken() {
		for _, via := range []string{"fresh", "followon", "resumed", "raw"} {
			if st.ByVia[via] == 0 {
				c.Broken("no handler invocation was observed via %q: the check would be vacuous", via)
			}
		}
		if st.Refusals == 0 {
			c.Broken("no refusal was observed: the check would be vacuous")
		}
	}
	if c.Thorough() && !c.IsBroken() {
		srvreplay.RepoTestTraces(c)
	}
	c.Set("exhaustive", true)
	c.Set("rule", "behaviours = every input script of Gen_Server within the bounds (first command with every client kind x level x identity, raw path, follow-ons; fresh handshake + reconfiguration + reconnect-and-resume with every command), enumerated by TLC; each script is executed against a real server.Server and the recorded trace is accepted or rejected by TLC against the permissive Server specification; distinct = distinct script; non-trivial = at least one handler invocation or refusal observed")
}
