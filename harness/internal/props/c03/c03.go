// Package c03 is the driver of property C03 (REQUIRED means required, and the
// reported handshake outcome is what happened).
package c03

import (
	"cedarverif/internal/ltrace"
	"fmt"
	"time"

	"cedarverif/internal/core"
	"cedarverif/internal/evilreplay"
	"cedarverif/internal/kit"
	"cedarverif/internal/tlc"
)

func init() { core.Register("C03", run) }

func run(c *core.Ctx) {
	evilreplay.Quiet()
	c.Assume("a cached session was established under the same local AUTHENTICATION policy as the handshake that resumes it (resumption across authentication policies is C05/C06); the encryption level of the resuming handshake is the same or REQUIRED where the establishing one was PREFERRED/OPTIONAL, and the establishing handshake may itself have run against a peer that kept the key from being agreed")
	c.Assume("the reported method is compared with what ran only when the handshake reports Authentication=true; with Authentication=false the NegotiatedAuth field is taken as the negotiated candidate, not a claim")
	c.Assume("the only authentication exchange the scripted peer completes is CLAIMTOBE; PASSWORD / KERBEROS are listed, offered and selected but never complete; forged method internals are C11/C18")
	c.Assume("ECDH P-256, HKDF, AES-GCM, SHA-256 of the Go standard library are correct; cryptography is symbolic in the model")
	if evilreplay.ReplayFile(c) {
		return
	}
	// One exhaustive TLC run per tier: the generator configuration checks every
	// invariant of HandshakeEvil on every reachable state AND prints the terminal
	// states (MC_C03*.cfg are the same constants without the printing).
	gen := "Gen_C03_quick.cfg"
	if c.Thorough() {
		gen = "Gen_C03_thorough.cfg"
	}
	raws := kit.Generate(c, "Gen_HandshakeEvil.tla", gen, tlc.Options{})
	if c.IsBroken() {
		return
	}
	groups, err := evilreplay.Parse(raws)
	if err != nil {
		c.Broken("bad scenario JSON: %v", err)
		return
	}
	for i, g := range groups {
		if i%(len(groups)/5+1) == 0 {
			c.Sample(map[string]any{"cfg": g.Cfg, "devs": g.Devs, "allowed_terminal_states": len(g.Allowed)})
		}
	}
	t0 := time.Now()
	st := evilreplay.ReplayAll(c, groups)
	c.Set("replay_wall_s", time.Since(t0).Seconds())
	c.Set("scenarios", st.Groups)
	c.Set("scenario_executions_planned", st.Jobs)
	c.Set("scenarios_executed", st.Executed)
	c.Set("handshakes_succeeded", st.Success)
	c.Set("handshakes_aborted", st.Aborts)
	c.Set("resumed_sessions_not_realisable", st.Skipped)
	c.Set("deadline_hits", st.Timeouts)
	c.Set("success_without_observed_app_message", st.Unobserved)
	c.Set("honest_successes", st.HonestSuccess)
	c.Set("executed_by_deviation", st.ByDeviation)
	c.Set("success_by_deviation", st.SuccessByDeviation)
	c.Set("observation_method_named_without_authentication", st.MethodWithoutAuth)
	// anti-vacuity: the honest peer must get through in every role and mode
	for _, k := range []string{"client/fresh", "server/fresh", "client/resumed", "server/resumed"} {
		if st.HonestSuccess[k] == 0 {
			c.Broken("no honest handshake succeeded for %s: the scripted peer or the harness is broken", k)
		}
	}
	if st.Timeouts > st.Executed/20 {
		c.Note(fmt.Sprintf("%d handshakes ran into the %s deadline", st.Timeouts, evilreplay.Deadline))
	}
	c.Set("exhaustive", true)
	// code -> spec: handshake outcomes and connection life cycles recorded from the
	// repository's own tests (hooks on) are validated by TLC (ConnLifecycle_Trace:
	// HandshakeOK per outcome, key before post-auth ad, no cleartext after a
	// REQUIRED-encryption handshake).
	pkgs := []string{"./server/", "./client/...", "./ccb/"}
	if c.Thorough() {
		pkgs = append(pkgs, "./security/")
	}
	if groups, err := ltrace.RunRepoTests(c, pkgs...); err != nil {
		c.Broken("cannot collect repository test traces: %v", err)
	} else if len(groups) == 0 {
		c.Broken("repository tests with hooks on produced no life-cycle trace")
	} else {
		c.Add("repo_test_lifecycle_groups", int64(len(groups)))
		ltrace.Validate(c, groups, "repo-tests", func(e ltrace.Event) bool { return e["ev"] != "Dispatch" })
	}
	c.Set("rule", "scenario = (role, 4x4 own policy [+ integrity-only REQUIRED in thorough], own method list, policy source for a server (its own config, or the ServerConfigForCommand hook over a weaker base config), honest peer level, fresh/resumed + session kind + how the session was established (honest / OmitECDH / TruncateECDH / NoCommonCipher, own encryption level then), set of deviation switches), every one enumerated by TLC from HandshakeEvil.tla; each scenario is ONE real handshake of security.Authenticator against the scripted peer (two for resumed: establish, resume) followed by one application message; a scenario whose peer answers NO is executed once per rendering of that answer (literal, attribute omitted, lower case, boolean, garbage); the projected outcome must be a terminal state the specification allows for that scenario; distinct = distinct scenario; all executed scenarios are non-trivial")
}
